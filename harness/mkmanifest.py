#!/usr/bin/env python3
"""regenerates MANIFEST.json from the table below (kept in one place so it stays valid)"""
import json, os
HERE = os.path.dirname(os.path.abspath(__file__))
V = os.path.normpath(os.path.join(HERE, ".."))
props = [json.loads(l) for l in open(os.path.join(V, "properties.jsonl"))]
TB = ("Trusted: Lean 4.33 kernel (axioms propext, Classical.choice, Quot.sound only, audited per theorem on every run); "
      "harness/extract_constants.py (translator of literals into Gen/Constants.lean); the correspondence harness and lean/Driver.lean. ")
CLAIMED = {
 "C01": dict(text="Lean theorems for every layer and option set: the chain-solver model of removeOverlap+vpsc keeps the target order and every neighbour gap up to eps (unrounded) and up to 1+eps after rounding (removeOverlap_sep), any two items under the stated stub hypothesis (any_pair), with the F2 counterexample as a kernel-checked theorem; the model is tied to the code by exact-mode (Fraction) equality and float-mode closeness of every captured removeOverlap call (order, rounded and unrounded positions), and the separation predicate (defined once, in Lean) is evaluated on the implementation's output",
             note=TB + "Modelled not verified: IEEE doubles (tolerance 1e-6), round() half-even, stable sort. Known finding F2 (non-adjacent stubs around a narrow label) recorded in known-findings.json.",
             tech="Lean 4 proof (pool-adjacent-violators chain model, induction on merges) + differential correspondence in exact Fraction mode and float mode", ref="4/C01"),
 "C02": dict(text="Lean theorem solve_optimal: the model's placement minimises weighted squared displacement among ALL placements keeping the gaps, with strong-convexity margin (unique optimum); solve_room_not_moved; reported positions within 1/2 of it (round_close). Implementation positions compared with that proved optimum (exact mode equal, float mode within 1e-6 unrounded, 1/2+1e-6 rounded)",
             note=TB + "Soft walls of weight 1e10 stand for the bounds (they are terms of the cost); distance to the hard-bounded optimum is bounded by walls_near_bounds (C03), not zero.",
             tech="Lean 4 proof (prefix-residual invariant + Abel summation) + differential correspondence", ref="4/C02"),
 "C03": dict(text="Lean theorems: separation holds with no hypothesis about fitting (excess spills, never overlap); walls_near_bounds: W(x_L-lo)^2+W(x_R-hi)^2 <= cost of any in-bounds placement; wall gaps kept. Inside-bounds predicate (Lean) evaluated on implementation output",
             note=TB + "The implementation predicate allows 1/2 (rounding) + total displacement/1e10 + 1e-6.",
             tech="Lean 4 proof (corollary of optimality) + differential correspondence", ref="4/C03"),
 "C05": dict(text="Lean theorems for ALL constraint graphs (DAGs, duplicates, cycles, any scales): weak duality and soundness of the executable certificate checker QP.check (acceptance implies feasibility within tol and cost <= cost z + tol for every feasible z); all chain instances feasible+optimal. On general DAGs the real solver's float result is judged against an optimum certified per instance by that proved checker (hints: the solver's own exact-arithmetic run continued until no split). Cyclic instances: termination (watchdog) and unflagged constraints hold. F1 recorded with a kernel-checked witness",
             note=TB + "Partial by design: optimality for every DAG is FALSE for the code (F1, theorem dag_counterexample); per-instance validation by a proved checker is translation validation, not a universal theorem.",
             tech="Lean 4 proof of certificate checker (weak duality) + per-instance certified validation + known-finding classifier", ref="4/C05"),
 "C12": dict(text="Lean theorems over Q: end points exact, affine, strictly monotone with the right sign, invert is a two-sided inverse, clamping stays in range and equals the unclamped value inside, degenerate domain; state machine of domain/range/clamp/nice/copy over list cells: cache_coherent and separated for ALL op sequences, others_unaffected, copy_reports_same, legacy (shared-list) copy counterexample. Float implementation compared with the exact map under condition-number-scaled tolerances; histories of <=10 ops compared object by object",
             note=TB + "IEEE-754 arithmetic is modelled by exact rationals ('up to floating-point error' in the property text is sampled, not proved).",
             tech="Lean 4 proof (field arithmetic; invariant over op sequences) + differential correspondence with float-aware tolerances", ref="4/C12"),
 "C13": dict(text="Lean theorems over Q for all spans and counts m>0: floorLog10 correct (fuel suffices), step is 1/2/5 x 10^k, 0.6999 span < m step <= 1.75 span, ticks are exactly the multiples of the step inside the domain, increasing, count within [floor(0.57m), 1.43m+1], label precision makes every tick an exact decimal (format_exact). Implementation ticks/texts compared with the model up to float end effects; threshold ties counted, not judged",
             note=TB + "Thresholds 0.15/0.35/0.75 and multipliers come from Gen/Constants.lean (regenerated from scale.py): changing them re-opens span_over_step_bounds / tick_count.",
             tech="Lean 4 proof (decade search, case analysis on error thresholds) + differential correspondence", ref="4/C13"),
 "C14": dict(text="Lean theorems: linear nice widens, keeps orientation, moves each end by < 2 steps of the resulting domain (via tickStep monotone), ends are multiples of the second pass's step; time nice widens, keeps orientation, ends on boundaries of the tick unit. Implementation compared with the model (nudge/overshoot-aware relation for float quotients); predicates (widen, <2 steps, round ends / calendar alignment) evaluated on the implementation's result",
             note=TB + "Partial: 'multiple of a tenth of the final step' and the time '< 2 tick steps' bound are evaluated per case by the Lean predicate on model and implementation, not proved for all inputs.",
             tech="Lean 4 proof + differential correspondence with float-aware relation", ref="4/C14"),
 "C15": dict(text="Lean theorems: the time scale is the linear scale on integer milliseconds: end points, proportional to elapsed time (equal durations map to equal lengths), strictly monotone, invert exact over Q. Implementation compared with the exact affine map (condition-scaled tolerance), round trip within 1 ms (+ float resolution of the range)",
             note=TB + "datetime <-> millisecond conversion is exact integer timedelta arithmetic on the harness side.",
             tech="Lean 4 proof (corollaries of C12) + differential correspondence", ref="4/C15"),
 "C16": dict(text="Lean theorems for all integer instants and counts: time ticks strictly increasing, inside the domain, on boundaries of the chosen calendar unit (boundary hierarchy year>month>day>hour>minute>second, week>day), exact membership characterisation for calendar units with integral skip and for the millisecond branch. Tick lists compared exactly with the model; the full tick predicate (increasing, in-domain, alignment implied by the spacing, gap ratio <= 2, count bounds) is evaluated in Lean on the implementation's ticks",
             note=TB + "Partial: gap-ratio and count bounds are evaluated per case on model and implementation (not proved for all domains).",
             tech="Lean 4 proof (grid abstraction over calendar units) + exact differential correspondence", ref="4/C16"),
 "C17": dict(text="Lean theorems for EVERY integer millisecond instant and all seven units: civil calendar bijection, floor is the latest boundary <= t, ceil the earliest >= t, round the nearer (later on tie), offset(b,k) the k-th following boundary, range lists exactly the boundaries in [t0,t1) with number divisible by the step, strictly increasing. Since each answer is unique, any disagreement between the code and the model is a property violation; compared on every day 1900-2200 plus month ends/leap days/ranges",
             note=TB + "CPython datetime is modelled by the integer proleptic Gregorian calendar of the model (the correspondence compares them on every day of 1900-2200).",
             tech="Lean 4 proof (omega over / and %, grid abstraction) + exhaustive-per-day differential correspondence", ref="4/C17"),
 "C19": dict(text="Lean theorems for every string and every Unicode database: only accent commands of the table are produced, token-level read-back equals the one-step canonical decomposition of exactly the converted characters, characters without decomposition that are not accent marks are copied (ASCII untouched), string-level parse of the rendered text gives the same read-back when the decomposed input has no backslash/brace. Implementation output compared byte for byte with the model on every code point in four contexts and random strings",
             note=TB + "The Unicode database (unicodedata) is a parameter of the model; each case carries the slice it touches.",
             tech="Lean 4 proof (fold invariant; fuel-bounded parser) + exhaustive code-point differential correspondence", ref="4/C19"),
 "C20": dict(text="Lean theorems for every natural number: names are non-empty A-Z strings, name2int(int2name i)=i (injective), every non-empty A-Z string is a name (enumeration), i<j implies shortlex order; colours: 3- and 6-digit codes either case with/without '#': RGB triple, doubling, TeX code is 6 upper-case hex digits denoting the same triple, rgb() string renders the triple and reads back. Implementation compared with the model on indices 0..10^6 and all 3-digit / sampled (thorough: more) 6-digit codes",
             note=TB + "str(int)/int(s,16)/upper() modelled by digit arithmetic.",
             tech="Lean 4 proof (bijective base-26 numeration; finite case analysis on hex digits) + differential correspondence", ref="4/C20"),
}
CLAIMED.update({
 "C04": dict(text="Lean theorems for every label list and option set: labels conserved (permutation of the input), stubs of layer j are exactly one level-j stub per label of a farther layer and nothing else, occupied layers contiguous from the axis, one layer without an upper bound / when the labels fit, overlap algorithm: every layer within the density budget unless it holds <= 2 labels (accounting identity, fuel of both loops suffices), >= 3 non-fitting labels are split. Model tied to Distributor.distribute and Force.compute by exact-mode equality of layers (order within layers included); structural predicates (conservation, contiguity, stub chains with parent/child links, payload, stub width, capacity, getLayers) evaluated in Lean on the implementation's node graph",
             note=TB + "Modelled not verified: intervaltree overlap semantics (half-open intersection), stable sorts, ceil. Float mode judges structure only; float threshold ties of the fit test are counted, not judged.",
             tech="Lean 4 proof (loop invariants with fuel) + differential correspondence of layers in exact Fraction mode", ref="4/C04"),
 "C06": dict(text="Lean theorems: the engine after ANY history of set-options/set-labels/compute calls reports compute(accumulated options, current labels) (engine_is_pure, compute_idempotent); stable sort of a permuted list with interchangeable ties is the same list (sort_canonical, sortIds_canonical) hence per layer the same positions item for item (removeOverlap_perm). Real Force objects driven through random histories (re-compute, re-configure, stale nodes into a fresh engine, second label set, nodes([]) quirk, permuted input) and compared after every compute with the pure model in exact mode",
             note=TB + "Partial: permutation invariance of the whole multi-layer pipeline (equivariance of the layering loops under relabelling) is validated by the history correspondence and the perm predicate, proved only per layer and for the sort.",
             tech="Lean 4 proof (state machine by construction; uniqueness of sorted permutations) + history-based differential correspondence", ref="4/C06"),
 "C07": dict(text="Lean theorems for every node/direction: link starts at the datum's dot, has one curve per layer, ends within 1 (origin truncation) of the middle of the axis-facing edge of its own box; box extent along the axis is the datum size plus padding; dots are the affine image of the supplied time (ms, time of day included) with the domain mapped onto [0, L]; degenerate domain -> 0. Stage-wise correspondence on both back-ends: parsed SVG/TikZ geometry vs the render model fed with the implementation's node states, dots/ticks vs the scale and calendar models, axis domain vs nice, every captured removeOverlap call vs the layout model, box sizes and verbatim texts",
             note=TB + "Modelled not verified: ElementTree escaping, printf-style number formatting. Text measurement via LaTeX is outside the domain (explicit widths).",
             tech="Lean 4 proof (render geometry, truncation bounds) + stage-wise differential correspondence of parsed exports", ref="4/C07"),
 "C08": dict(text="Lean theorems: boxes of one layer whose centres keep the C01 separation with spacing >= 3 are disjoint along the axis up to the solver tolerance (1 for rounding + < 2 for two truncations), the hypothesis being exactly what C01 proves (c01_gives_separation); every box lies on the named side more than layerGap-1 from the axis; farther layers lie wholly beyond nearer ones when layerGap >= 1. Rectangles parsed from both real exports are tested for pairwise intersection, side and nesting in Lean",
             note=TB + "Disjointness is up to (j-i)*1e-10 in the theorem (solver tolerance); the implementation oracle is exact on the printed integers/decimals.",
             tech="Lean 4 proof (interval arithmetic on truncated origins) + parsed-rectangle predicates on real exports", ref="4/C08"),
 "C09": dict(text="Lean theorems bounding the only differences between the back-ends: '%f'/'%.8f' within half a last decimal (fixed_close), '%i' within 1 (truncated_within_one), same box function, same colour triple (C20), TeX text reads back as SVG text (C19), distinct macro names. The two real documents are parsed and compared field by field in Lean: axis, main shift, boxes, dots, links point for point, ticks and tick texts, per-datum colours, label texts (via the uni2tex model), link continuity and macro naming in TikZ",
             note=TB + "Margins excluded as the property says. Non-integral drawing sizes: the TikZ axis length is printed with %i, accepted within the 1-unit truncation.",
             tech="Lean 4 proof (print-precision bounds) + field-by-field comparison of parsed SVG and TikZ", ref="4/C09"),
})
checks = []
for p in props:
    pid = p["id"]
    if pid in CLAIMED:
        c = CLAIMED[pid]
        checks.append({"property_id": pid, "quick_cmd": "./check %s --tier quick" % pid, "thorough_cmd": "./check %s --tier thorough" % pid,
                       "evidence_file": "evidence/%s.json" % pid, "replay_cmd_template": "./check %s --replay {path}" % pid,
                       "engine": "lean4+correspondence",
                       "level_claimed": {"category": "proof", "text": c["text"], "design_ref": "DESIGN.md section " + c["ref"]},
                       "level_note": c["note"], "technique": c["tech"]})
na = [{"property_id": p["id"], "reason": "check under construction in this session (DESIGN.md section 4 describes the planned model and theorems); not claimed until its Lean model, theorems and correspondence run clean"} for p in props if p["id"] not in CLAIMED]
m = {"version": 1, "setup_cmd": "./setup.sh",
     "hooks": {"guard": "LABELLA_VERIF", "enable": "no hooks are needed: every observation goes through the public API and harness-side wrappers",
               "baseline_off_cmd": "cd /repo && /venv/bin/python -m pytest -ra -q -p no:cacheprovider --timeout=900 --continue-on-collection-errors",
               "source_commits": [], "add_only": True},
     "engines": [{"name": "lean4+correspondence", "path": "lean/ + harness/ + check", "serves_properties": sorted(CLAIMED),
                  "kind_free_text": "Lean 4 models and theorems (lake project, Mathlib single modules), constants regenerated from /repo on every run, compiled model driver compared with the real code in-process"}],
     "checks": checks, "not_applicable": na,
     "notes": "Every check rebuilds Gen/Constants.lean from /repo, runs lake build of its property module, audits axioms, then runs the correspondence. Exit 2 = infrastructure."}
json.dump(m, open(os.path.join(V, "MANIFEST.json"), "w"), indent=1)
print("MANIFEST.json: %d checks, %d not applicable" % (len(checks), len(na)))
