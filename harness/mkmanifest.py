#!/usr/bin/env python3
"""regenerates MANIFEST.json from the table below (kept in one place so it stays valid)"""
import json, os
HERE = os.path.dirname(os.path.abspath(__file__))
V = os.path.normpath(os.path.join(HERE, ".."))
props = [json.loads(l) for l in open(os.path.join(V, "properties.jsonl"))]
TB = ("Trusted: Lean 4.33 kernel (axioms propext, Classical.choice, Quot.sound only, audited per theorem on every run); "
      "harness/extract_constants.py (translator of literals into Gen/Constants.lean); the correspondence harness and lean/Driver.lean. ")
CLAIMED = {
 "C01": dict(text="Lean theorems about the chain model of removeOverlap+vpsc (merge loop ends eps-feasible, order kept) for all inputs; the model is tied to the code by exact-mode (Fraction) equality and float-mode closeness of every captured removeOverlap call, and the separation predicate (defined once, in Lean) is evaluated on the implementation's output",
             note=TB + "Modelled not verified: IEEE doubles (tolerance 1e-6), round() half-even, stable sort. Known finding F2 (non-adjacent stubs) recorded.",
             tech="Lean 4 proof of chain solver model + differential correspondence (exact Fraction mode and float mode)", ref="4/C01"),
 "C02": dict(text="Lean theorem: the pooled placement minimises weighted squared displacement among all order-keeping placements (with strong-convexity margin, hence unique); implementation positions compared with that proved optimum (exact mode equal, float mode within 1/2+1e-6 after rounding, 1e-6 before)",
             note=TB + "Soft walls of weight 1e10 stand for the bounds; distance to the hard-bounded optimum is bounded, not zero (DESIGN 4/C02).",
             tech="Lean 4 proof (Abel summation / prefix-residual invariant) + differential correspondence", ref="4/C02"),
 "C03": dict(text="Lean theorem: walls are chain variables, separation is kept whether or not the items fit; inside-bounds predicate (Lean) evaluated on implementation output with the a-posteriori wall displacement bound",
             note=TB + "Bound on wall displacement uses total displacement / 1e10.",
             tech="Lean 4 proof of chain model + differential correspondence", ref="4/C03"),
}
checks = []
for p in props:
    pid = p["id"]
    if pid in CLAIMED:
        c = CLAIMED[pid]
        checks.append({"property_id": pid, "quick_cmd": "./check %s --tier quick" % pid, "thorough_cmd": "./check %s --tier thorough" % pid,
                       "evidence_file": "evidence/%s.json" % pid, "replay_cmd_template": "./check %s --replay {path}" % pid,
                       "engine": "lean4+correspondence",
                       "level_claimed": {"category": "proof", "text": c["text"], "design_ref": "DESIGN.md section " + c["ref"]},
                       "level_note": c["note"], "technique": c["tech"]})
na = [{"property_id": p["id"], "reason": "check under construction in this session (DESIGN.md section 4 describes the planned model and theorems); not claimed until its Lean model, theorems and correspondence run clean"} for p in props if p["id"] not in CLAIMED]
m = {"version": 1, "setup_cmd": "./setup.sh",
     "hooks": {"guard": "LABELLA_VERIF", "enable": "no hooks are needed: every observation goes through the public API and harness-side wrappers",
               "baseline_off_cmd": "cd /repo && /venv/bin/python -m pytest -ra -q -p no:cacheprovider --timeout=900 --continue-on-collection-errors",
               "source_commits": [], "add_only": True},
     "engines": [{"name": "lean4+correspondence", "path": "lean/ + harness/ + check", "serves_properties": sorted(CLAIMED),
                  "kind_free_text": "Lean 4 models and theorems (lake project, Mathlib single modules), constants regenerated from /repo on every run, compiled model driver compared with the real code in-process"}],
     "checks": checks, "not_applicable": na,
     "notes": "Every check rebuilds Gen/Constants.lean from /repo, runs lake build of its property module, audits axioms, then runs the correspondence. Exit 2 = infrastructure."}
json.dump(m, open(os.path.join(V, "MANIFEST.json"), "w"), indent=1)
print("MANIFEST.json: %d checks, %d not applicable" % (len(checks), len(na)))
