#!/venv/bin/python
"""run one interleaving of engine operations (JSON list of ops on stdin) in THIS fresh interpreter; print {"line": mhist driver line, "trace": [...]}"""
import json, sys, os
sys.path.insert(0, os.path.dirname(os.path.abspath(__file__)))
import impl_layout as I

ops = [tuple(tuple(x) if isinstance(x, list) and x and isinstance(x[0], list) else x for x in op) for op in json.load(sys.stdin)]
ops = [tuple([op[0]] + [[tuple(l) for l in a] if (op[0] == "nodes") else a for a in op[1:]]) for op in ops]
line, differ = I.run_mhist(ops)
json.dump({"line": line, "differ": [d[0] for d in differ], "trace": I._state.get("mhist_trace", [])}, sys.stdout)
