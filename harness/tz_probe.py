#!/venv/bin/python
"""runs under a given TZ: prints driver lines for calendar rounding, ranges, time ticks, nice, time-scale values and
sha256 digests of exported timelines, all derived from the seed only (so the output must be identical in every zone)"""
import hashlib, json, os, sys, time
sys.path.insert(0, os.path.dirname(os.path.abspath(__file__)))
sys.path.insert(0, os.environ.get("LABELLA_REPO", "/repo"))
time.tzset()
import check_time as T
import timeline_gen as TG
from common import rng_for, fr, time_limit


def scale_lines(TimeScale, d0, d1, m, t):
    out = []
    s = TimeScale().domain([T.to_dt(d0), T.to_dt(d1)])
    tk = s.ticks(m) if m is not None else s.ticks()
    out.append("tticks|%d|%d|%s|%s" % (d0, d1, fr(10 if m is None else m), T.msl(tk)))
    s2 = TimeScale().domain([T.to_dt(d0), T.to_dt(d1)])
    s2.nice(m) if m is not None else s2.nice()
    dd = s2.domain()
    if abs(d1 - d0) >= 10:
        out.append("tnice|%d|%d|%s|%s|%s" % (d0, d1, fr(10 if m is None else m), fr(T.to_ms(dd[0])), fr(T.to_ms(dd[1]))))
    s3 = TimeScale().domain([T.to_dt(d0), T.to_dt(d1)]).range([0, 360])
    y = s3(T.to_dt(t))
    out.append("tscale|%d|%d|0|360|%d|%s|%s" % (d0, d1, t, fr(y), fr(T.to_ms(s3.invert(y)))))
    return out


def main():
    seed, tier = int(sys.argv[1]), sys.argv[2]
    from labella.d3_time import d3_time as d3
    from labella.scale import TimeScale
    rng = rng_for(seed, "c18")
    n = 3 if tier == "quick" else 12
    out = []
    # instants around DST changes of several zones and uniform ones
    special = [T.to_ms(T.datetime(2021, 3, 14, 2, 30)), T.to_ms(T.datetime(2021, 11, 7, 1, 30)), T.to_ms(T.datetime(2021, 3, 17)),
               T.to_ms(T.datetime(2021, 4, 4, 1, 45)), T.to_ms(T.datetime(2021, 10, 3, 2, 15)), T.to_ms(T.datetime(1970, 1, 1)), T.to_ms(T.datetime(2038, 1, 19, 3, 14, 8))]
    ts = special + T.interesting_instants(rng, 1500 * n)
    for t in ts:
        for u in T.UNITS:
            try:
                with time_limit(10):
                    out.append(T.run_cal_case(d3, u, t, rng.choice([0, 1, 5, 30, 400])))
            except Exception as e:
                out.append("ERROR cal %s %d %s" % (u, t, type(e).__name__))
    for _ in range(400 * n):
        u = rng.choice(T.UNITS)
        t0 = T.interesting_instants(rng, 1)[0]
        length = {"second": 1000, "minute": 60000, "hour": 3600000, "day": T.DAY, "week": 7 * T.DAY, "month": 30 * T.DAY, "year": 365 * T.DAY}[u]
        t1 = min(T.HI, t0 + int(length * rng.choice([0.5, 2.5, 10, 60, 300])))
        dt = rng.choice([1, 2, 3, 6, 12])
        try:
            with time_limit(10):
                out.append("calrange|%s|%d|%d|%d|%s" % (u, t0, t1, dt, T.msl(d3[u].range(T.to_dt(t0), T.to_dt(t1), dt))))
        except Exception as e:
            out.append("ERROR calrange %s %d %d %s" % (u, t0, t1, type(e).__name__))
    for _ in range(1500 * n):
        d0, d1 = T.gen_domain(rng)
        m = rng.choice([None, 10, 3, 5, 20])
        t = rng.randint(min(d0, d1), max(d0, d1))
        try:
            with time_limit(10):
                out.extend(scale_lines(TimeScale, d0, d1, m, t))
        except Exception as e:
            out.append("ERROR scale %d %d %s" % (d0, d1, type(e).__name__))
    # exported timelines: only digests travel (documents must be byte-identical across zones)
    rng2 = rng_for(seed, "c18-exports")

    def nth_sunday(y, mo, nth):        # nth = 1, 2, … or -1 for the last Sunday of the month
        import calendar
        days = [d for d in range(1, calendar.monthrange(y, mo)[1] + 1) if T.datetime(y, mo, d).weekday() == 6]
        return days[nth - 1] if nth > 0 else days[-1]

    def dst_instants(y):
        """naive wall-clock instants that do not exist (spring forward) or exist twice (fall back) in the probed zones"""
        return [T.datetime(y, 3, nth_sunday(y, 3, 2), 2, 30), T.datetime(y, 11, nth_sunday(y, 11, 1), 1, 30),      # America/New_York
                T.datetime(y, 10, nth_sunday(y, 10, 1), 2, 15), T.datetime(y, 4, nth_sunday(y, 4, 1), 1, 45),       # Australia/Lord_Howe
                T.datetime(y, 9, nth_sunday(y, 9, -1), 3, 0), T.datetime(y, 4, nth_sunday(y, 4, 1), 3, 0)]          # Pacific/Chatham

    k = 0
    while k < 60 * n:
        spec = TG.gen_spec(rng2, "quick")
        if spec["kind"] not in ("datetime", "date"):
            continue
        k += 1
        if k % 4 == 0 and spec["kind"] == "datetime":
            # a datum (and, for an explicit domain, an end point) on an instant that a local-time round trip in one of the zones would move
            inst = T.to_ms(rng2.choice(dst_instants(rng2.randint(2008, 2030))))
            span = rng2.choice([3600000, 6 * 3600000, 86400000, 5 * 86400000, 40 * 86400000])
            for j, d in enumerate(spec["data"]):
                d["time"] = inst if j == 0 else inst + rng2.randint(-span, span)
            if "domain" in spec["options"]:
                ts_ = [d["time"] for d in spec["data"]]
                spec["options"]["domain"] = [inst if rng2.random() < 0.5 else min(ts_) - 3600000, max(max(ts_), inst) + 7200000]
        for backend in ("svg", "tikz"):
            try:
              with time_limit(30):
                doc = TG.export(TG.construct(spec, backend))
                if isinstance(doc, str):
                    doc = doc.encode("utf-8")
                out.append("EXPORT %d %s %s" % (k, backend, hashlib.sha256(doc).hexdigest()))
            except Exception as e:
                out.append("EXPORT %d %s ERROR %s" % (k, backend, type(e).__name__))
    sys.stdout.write("\n".join(out) + "\n")


if __name__ == "__main__":
    main()
