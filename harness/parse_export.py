"""Parsers turning the two export formats back into geometry: SVG through xml.etree, TikZ through its line grammar.
Numbers are read as exact Fractions of the decimal text that was printed."""
import re
from fractions import Fraction
from xml.etree import ElementTree as ET

NUM = r"[-+]?(?:\d+\.?\d*|\.\d+)(?:[eE][-+]?\d+)?"


def F(s):
    return Fraction(s.strip())


def _translate(s):
    m = re.fullmatch(r"translate\(\s*(%s)\s*,\s*(%s)\s*\)" % (NUM, NUM), s.strip())
    if not m:
        raise ValueError("transform %r" % s)
    return F(m.group(1)), F(m.group(2))


def parse_path(d):
    """absolute SVG path data with the commands M, L, C and the shorthands H x / V y (returned as the equal L step)"""
    toks = d.replace(",", " ").split()
    steps, i = [], 0
    cur = [F("0"), F("0")]
    while i < len(toks):
        c = toks[i]
        if c in ("H", "V"):
            v = F(toks[i + 1])
            pt = [v, cur[1]] if c == "H" else [cur[0], v]
            steps.append(("L", pt))
            cur = list(pt)
            i += 2
            continue
        n = {"M": 2, "L": 2, "C": 6}[c]
        args = [F(x) for x in toks[i + 1:i + 1 + n]]
        steps.append((c, args))
        cur = list(args[-2:])
        i += 1 + n
    return steps


def _rgb(s):
    m = re.search(r"rgb\((\d+), (\d+), (\d+)\)", s)
    return tuple(int(x) for x in m.groups()) if m else None


def parse_svg(data):
    root = ET.fromstring(data)
    G = {"size": (F(root.get("width")), F(root.get("height")))}
    outer = root[0]
    G["margin"] = _translate(outer.get("transform"))
    main = [g for g in outer if g.get("class") == "main-layer"][0]
    G["main"] = _translate(main.get("transform"))
    G["ticks"], G["links"], G["boxes"], G["texts"], G["dots"] = None, [], [], [], []
    G["col_dot"], G["col_link"], G["col_bg"], G["col_text"], G["col_border"] = [], [], [], [], []
    for g in main:
        cls = g.get("class")
        if cls is None:
            line = g[0]
            G["axis"] = (F(line.get("x2", "0")), F(line.get("y2", "0")))
        elif cls == "axis-layer":
            G["ticks"] = []
            for t in g:
                tx, ty = _translate(t.get("transform"))
                text = [e for e in t if e.tag == "text"][0].text
                G["ticks"].append((tx, ty, text if text is not None else ""))
        elif cls == "link-layer":
            for p in g:
                G["links"].append(parse_path(p.get("d")))
                G["col_link"].append(_rgb(p.get("style")))
        elif cls == "label-layer":
            for lab in g:
                ox, oy = _translate(lab.get("transform"))
                rect = [e for e in lab if e.tag == "rect"][0]
                G["boxes"].append((ox, oy, F(rect.get("width")), F(rect.get("height"))))
                style = rect.get("style")
                G["col_bg"].append(_rgb(style.split("stroke")[0]))
                G["col_border"].append(_rgb(style.split("stroke:")[1]) if "stroke:" in style else None)
                txt = [e for e in lab if e.tag == "text"]
                G["texts"].append(txt[0].text if txt else None)
                G["col_text"].append(_rgb(txt[0].get("style")) if txt else None)
        elif cls == "dot-layer":
            for c in g:
                G["dots"].append((F(c.get("cx", "0")), F(c.get("cy", "0"))))
                G["col_dot"].append(_rgb(c.get("style")))
    return G


def _hex(code):
    return (int(code[0:2], 16), int(code[2:4], 16), int(code[4:6], 16))


def parse_tikz(doc):
    lines = doc.split("\n")
    G = {"ticks": None, "links": [], "boxes": [], "texts": [], "dots": []}
    colors = {}
    textdefs = {}
    for ln in lines:
        m = re.fullmatch(r"\\definecolor\{(\w+?)Color([A-Z]+)\}\{HTML\}\{([0-9A-F]{6})\}", ln)
        if m:
            colors[(m.group(1), m.group(2))] = _hex(m.group(3))
        m = re.match(r"\\def\\text([A-Z]+)\{(.*)\}$", ln, re.S)
        if m:
            textdefs[m.group(1)] = m.group(2)
    G["_colors"], G["_textdefs"] = colors, textdefs
    sec = None
    i = 0
    sh = r"\\begin\{scope\}\[shift=\{\((%s), (%s)\)\}\]" % (NUM, NUM)
    pt = r"\((%s), (%s)\)" % (NUM, NUM)
    names = []
    while i < len(lines):
        ln = lines[i]
        if ln.startswith("% "):
            sec = ln[2:]
            i += 1
            continue
        if sec == "shift for the margin" and ln.startswith("\\begin{scope}"):
            m = re.fullmatch(sh, ln); G["margin"] = (F(m.group(1)), F(m.group(2)))
        elif sec == "main layer" and ln.startswith("\\begin{scope}"):
            m = re.fullmatch(sh, ln); G["main"] = (F(m.group(1)), F(m.group(2)))
        elif sec == "axis" and ln.startswith("\\draw"):
            m = re.search(r"\(0, 0\) -- %s;" % pt, ln); G["axis"] = (F(m.group(1)), F(m.group(2)))
        elif sec == "axis layer":
            if G["ticks"] is None:
                G["ticks"] = []
            m = re.fullmatch(sh, ln)
            if m and ln != "\\begin{scope}":
                # three physical lines: scope, draw, node {text};
                node = lines[i + 2]
                mt = re.match(r"node\[anchor=\w+\] \{(.*)\};$", node, re.S)
                G["ticks"].append((F(m.group(1)), F(m.group(2)), mt.group(1)))
                i += 2
        elif sec == "link layer" and ln.startswith("\\draw"):
            # a link is one doc entry: consecutive \draw commands; a new link starts at the datum's dot, i.e. when the color name changes
            m = re.match(r"\\draw\[color=linkColor([A-Z]+), [^\]]*\] %s (\.\. controls|--)" % pt, ln)
            name = m.group(1)
            start = (F(m.group(2)), F(m.group(3)))
            if not names or names[-1] != name:
                names.append(name)
                G["links"].append([("M", list(start))])
                G.setdefault("_linkstarts", []).append([])
            G["_linkstarts"][-1].append(start)
            if m.group(4) == "--":
                me = re.search(r"-- %s;$" % pt, ln)
                G["links"][-1].append(("L", [F(me.group(1)), F(me.group(2))]))
            else:
                l2 = lines[i + 1]
                mc = re.fullmatch(r"%s and %s \.\. %s;" % (pt, pt, pt), l2)
                G["links"][-1].append(("C", [F(x) for x in mc.groups()]))
                i += 1
        elif sec == "label layer":
            m = re.fullmatch(sh, ln)
            if m:
                body = lines[i + 2]
                mr = re.match(r"\(0, 0\) rectangle \((%s), (%s)\) node\[.*text=labelTextColor([A-Z]+)\] \{\\strut (.*)\};$" % (NUM, NUM), body, re.S)
                G["boxes"].append((F(m.group(1)), F(m.group(2)), F(mr.group(1)), F(mr.group(2))))
                G.setdefault("_boxnames", []).append(mr.group(3))
                G.setdefault("_bordered", []).append("borderColor" in lines[i + 1])
                G["texts"].append(mr.group(4))
                i += 2
        elif sec == "dots" and ln.startswith("fill=dotColor"):
            m = re.fullmatch(r"fill=dotColor([A-Z]+)\] at %s \{\};" % pt, ln)
            G["dots"].append((F(m.group(2)), F(m.group(3))))
            G.setdefault("_dotnames", []).append(m.group(1))
        i += 1
    n = len(G["boxes"])
    from labella.utils import int2name
    ids = [int2name(k) for k in range(n)]
    G["_linknames"] = list(names)
    G["_names_ok"] = names == ids and G.get("_boxnames", []) == ids and G.get("_dotnames", []) == ids
    G["col_dot"] = [colors.get(("dot", k)) for k in ids]
    G["col_link"] = [colors.get(("link", k)) for k in ids]
    G["col_bg"] = [colors.get(("labelBg", k)) for k in ids]
    G["col_text"] = [colors.get(("labelText", k)) for k in ids]
    G["col_border"] = [colors.get(("border", k)) if b else None for k, b in zip(ids, G.get("_bordered", [False] * n))]
    # label text as TeX source: "\textA" -> its definition, "" -> None
    out = []
    for k, t in zip(ids, G["texts"]):
        if t == "":
            out.append(None)
        elif t == "\\text" + k:
            out.append(textdefs.get(k))
        else:
            out.append("<unexpected:%s>" % t)
    G["texts"] = out
    # every draw segment must start where the previous one ended (continuity of the link)
    cont = True
    for link, starts in zip(G["links"], G.get("_linkstarts", [])):
        cur = tuple(link[0][1])
        for step, st in zip(link[1:], starts):
            if tuple(st) != cur:
                cont = False
            cur = tuple(step[1][-2:])
    G["continuous"] = cont
    return G
