#!/venv/bin/python
"""fresh-process reference: read one timeline spec (JSON) + backend on stdin, print the export and what the timeline's
own scale / engine options hold, as JSON on stdout"""
import json, sys, os
sys.path.insert(0, os.path.dirname(os.path.abspath(__file__)))
sys.path.insert(0, os.environ.get("LABELLA_REPO", "/repo"))
import timeline_gen as TG


def observe(tl, doc):
    from labella.scale import LinearScale
    sc = tl.options["scale"]
    dom = sc.domain()
    if isinstance(sc, LinearScale):
        d = [repr(float(dom[0])), repr(float(dom[1]))]
    else:
        d = [str(TG.to_ms(dom[0])), str(TG.to_ms(dom[1]))]
    if isinstance(doc, bytes):
        doc = doc.decode("utf-8")
    return {"doc": doc, "domain": d, "direction": tl.options["labella"].get("direction")}


if __name__ == "__main__":
    req = json.load(sys.stdin)
    tl = TG.construct(req["spec"], req["backend"])
    doc = TG.export(tl)
    json.dump(observe(tl, doc), sys.stdout)
