"""C10 (a timeline's export depends only on its own data and options) and C18 (independence of the process time zone)."""
import json, os, subprocess, sys
from concurrent.futures import ThreadPoolExecutor
import common
from common import Report, build_and_audit, drive, fields, rng_for, leanchecker, REPO, VERIF, PY, Infra
import timeline_gen as TG

sys.path.insert(0, REPO)
ZONES = ["UTC", "America/New_York", "Asia/Kolkata", "Australia/Lord_Howe", "Pacific/Chatham"]
ASSUME10 = ["the reference for every export is the same data/options exported alone in a fresh interpreter process (harness/ref_export.py)",
            "time-of-day-only data (datetime.time, combined with today's date by the code) is excluded from byte comparisons"]
RULE10 = ("random interleavings of construct / export over 2-4 timelines in one process (default time scale, caller-supplied private linear scales, any direction and engine options, both back-ends), "
          "including export after later constructions and repeated export; every export compared byte for byte with its fresh-process reference and its scale domain / direction with the isolated-instances model; "
          "non-trivial = an export that happens after another timeline was constructed or exported; distinct by history")
ASSUME18 = ["the C library's zone database is outside any model: five zones are sampled (UTC, US Eastern with DST, India +5:30, Lord Howe +10:30/+11, Chatham +12:45)",
            "each zone runs in its own interpreter process with TZ set before start-up"]
RULE18 = ("the calendar / tick / nice / time-scale corpora and 60 exported timelines (both back-ends), all derived from the seed, are computed in five processes with different TZ; "
          "outputs must be identical line by line across zones, and the UTC lines must agree with the zone-free Lean model; includes instants inside the DST gaps/folds of the sampled zones; "
          "non-trivial = every line (all distinct inputs)")


def reference(spec, backend, cache):
    key = json.dumps([spec, backend], sort_keys=True)
    if key not in cache:
        env = dict(os.environ, LABELLA_REPO=REPO)
        p = subprocess.run([PY, os.path.join(VERIF, "harness", "ref_export.py")], input=json.dumps({"spec": spec, "backend": backend}),
                           capture_output=True, text=True, timeout=120, env=env)
        if p.returncode != 0:
            cache[key] = {"error": p.stderr[-400:]}
        else:
            cache[key] = json.loads(p.stdout)
    return cache[key]


def gen_history(rng, tier):
    k = rng.randint(2, 4)
    specs = []
    # a third of the histories: all timelines meet at one calendar day (first of a year / month, a month end, a leap day) — shared domain ends at
    # different spans, so that whatever the axis code remembers about an instant from one timeline is asked for again by another
    anchor = rng.choice([(2021, 1, 1), (2000, 1, 1), (2020, 12, 31), (1996, 2, 29), (2024, 3, 1), (1970, 1, 1), (1969, 12, 31)]) if rng.random() < 0.5 else None
    while len(specs) < k:
        s = TG.gen_spec(rng, "quick", anchor=anchor)
        if s["kind"] == "time":
            continue
        if len(s["data"]) > 12:
            s["data"] = s["data"][:12]
        specs.append(s)
    if rng.random() < 0.35:
        # the way every script in examples/ works: ONE options dict for two timelines (the same object, or a shallow copy of it with a few
        # keys changed, made after the first construction).  The second timeline has its own data; its options say what the first one's say.
        a, b = rng.sample(range(k), 2)
        base = specs[a]
        while True:
            s = TG.gen_spec(rng, "quick")
            if s["kind"] == base["kind"]:
                break
        o = json.loads(json.dumps(base["options"]))
        how = rng.choice(["same", "copy", "copy", "mutate"]) if base["kind"] != "number" else "copy"     # number axes: a scale object is passed; a shared one would be the caller's sharing
        over = []
        if how == "copy":
            for key in rng.sample(["direction", "initialWidth", "initialHeight", "layerGap"], rng.randint(0, 2)):
                over.append(key)
                if key in s["options"]:
                    o[key] = s["options"][key]
                else:
                    o.pop(key, None)
        base["opt_mode"] = "given"
        if how == "mutate":
            # ONE dict object for both timelines, edited in place by the caller between the two constructor calls (to the second's own options)
            o = json.loads(json.dumps(s["options"]))
        specs[b] = {"kind": base["kind"], "data": s["data"][:12], "options": o, "opt_mode": "given"}
        for i in (a, b):
            specs[i]["share"] = {"group": 0, "how": how, "over": over}
    if rng.random() < 0.45:
        # "sibling" timelines: the same options and almost the same data — the times stretched by a few per cent about their centre — so that the
        # two axes get the same nice domain from slightly different raw extents (possibly on either side of a tick-step threshold)
        cand = [i for i, sp in enumerate(specs) if sp["kind"] == "datetime" and not sp.get("share") and len(sp["data"]) >= 2 and "domain" not in sp["options"]]
        if cand:
            a = rng.choice(cand)
            b = rng.choice([i for i in range(k) if i != a])
            base = specs[a]
            ts = [d["time"] for d in base["data"]]
            c = (min(ts) + max(ts)) / 2
            f = rng.choice([0.9, 0.93, 0.96, 0.98, 1.02, 1.04, 1.08, 1.12])
            sib = json.loads(json.dumps({kk: vv for kk, vv in base.items() if kk != "share"}))
            for d in sib["data"]:
                d["time"] = int(round(c + (d["time"] - c) * f))
            if not specs[b].get("share"):
                specs[b] = sib
    backends = [rng.choice(["svg", "tikz"]) for _ in specs]
    ops = []
    constructed = []
    pending = list(range(k))
    rng.shuffle(pending)
    for _ in range(rng.randint(k + 2, 10)):
        if pending and (not constructed or rng.random() < 0.45):
            i = pending.pop()
            ops.append(("c", i)); constructed.append(i)
        else:
            ops.append(("e", rng.choice(constructed)))
    for i in pending:
        ops.append(("c", i)); constructed.append(i)
    ops.append(("e", constructed[0]))      # export after every later construction
    return specs, backends, ops


def construct_in_history(specs, bks, i, shared):
    """construct timeline i; timelines of one `share` group receive the options OBJECT the group's first construction was given (or a
    shallow copy of it with the keys in `over` set to this timeline's own values)"""
    from labella.timeline import TimelineSVG, TimelineTex
    from labella.scale import LinearScale
    sh = specs[i].get("share")
    if not sh:
        return TG.construct(specs[i], bks[i])
    cls = TimelineSVG if bks[i] == "svg" else TimelineTex
    data, own = TG.build_args(specs[i])
    if sh["group"] not in shared:
        shared[sh["group"]] = own
        return cls(data, options=own)
    first = shared[sh["group"]]
    if sh["how"] == "same":
        return cls(data, options=first)
    if sh["how"] == "mutate":
        for key in list(first):
            if key not in own:
                del first[key]
        first.update(own)
        return cls(data, options=first)
    o = dict(first)
    for key in sh["over"]:
        if key in own:
            o[key] = own[key]
        else:
            o.pop(key, None)
    if specs[i]["kind"] == "number":
        o["scale"] = LinearScale()
    return cls(data, options=o)


NESTED = ["margin", "labelPadding", "labella", "latex"]
_MODULE_SNAPSHOT = {}


def module_snapshot():
    import labella.timeline as TL
    D = TL.DEFAULT_OPTIONS
    return {k: repr(D[k]) for k in NESTED} | {"scale": repr([str(x) for x in D["scale"].domain()]), "keys": sorted(D)}


def gen_objs_case(rng):
    """caller dicts (which option keys each holds) and a sequence of constructions, each with one of the dicts (possibly the same object again) or none"""
    nd = rng.randint(0, 3)
    ds = []
    for _ in range(nd):
        keys = [k for k in ["direction", "margin", "labelPadding", "labella", "latex", "scale"] if rng.random() < 0.4]
        rng.shuffle(keys)
        ds.append(keys)
    cs = [rng.choice([None] + list(range(nd))) for _ in range(rng.randint(1, 4))]
    return ds, cs


def run_objs_case(ds, cs):
    """build the caller dicts, construct the timelines, and describe the object graph afterwards (identities, not values)"""
    import labella.timeline as TL
    from labella.scale import TimeScale
    from datetime import datetime
    mk = {"direction": lambda: "up", "margin": lambda: {"left": 10, "right": 10, "top": 10, "bottom": 10}, "labelPadding": lambda: {"left": 1, "right": 1, "top": 1, "bottom": 1},
          "labella": lambda: {"nodeSpacing": 4}, "latex": lambda: {"fontsize": "10pt"}, "scale": lambda: TimeScale()}
    callers, supplied = [], {}
    for j, keys in enumerate(ds):
        d = {}
        for k in keys:
            d[k] = mk[k]()
            if k != "direction":
                supplied[(j, k)] = d[k]
        callers.append(d)
    tls = []
    for i, c in enumerate(cs):
        data = [{"time": datetime(2000 + i, 1, 1 + 3 * q), "width": 20, "text": "t"} for q in range(3)]
        tls.append(TL.TimelineSVG(data, options=callers[c]) if c is not None else TL.TimelineSVG(data))
    D = TL.DEFAULT_OPTIONS
    rows = []
    for i, tl in enumerate(tls):
        cells = []
        for k in NESTED + ["scale"]:
            obj = tl.options.get(k)
            if obj is D[k]:
                v = "module"
            else:
                who = [j for (j, kk), o in supplied.items() if kk == k and o is obj]
                if who:
                    v = "caller:%d" % who[0]
                else:
                    earlier = [q for q in range(i) if tls[q].options.get(k) is obj]
                    v = "shared:%d" % earlier[0] if earlier else "fresh"
            cells.append("%s=%s" % (k, v))
        rows.append(",".join(cells))
    keys_after = ";".join("+".join(d.keys()) for d in callers)
    mod = "ok" if module_snapshot() == _MODULE_SNAPSHOT["at-import"] else "changed"
    return "objs|%s|%s|%s|%s|module=%s" % (";".join(",".join(k) for k in ds), ";".join("-" if c is None else str(c) for c in cs), ";".join(rows), keys_after, mod)


def body_c10(tier, seed, rep, only_prop=False, scale=1):
    if "at-import" not in _MODULE_SNAPSHOT:
        _MODULE_SNAPSHOT["at-import"] = module_snapshot()
    import ref_export as RE
    rng = rng_for(seed, "c10")
    n = common.count(tier, 400, 2500) * scale
    hist = [gen_history(rng, tier) for _ in range(n)]
    cache = {}
    jobs = sorted({json.dumps([s, b], sort_keys=True) for specs, bks, _ in hist for s, b in zip(specs, bks)})
    with ThreadPoolExecutor(max_workers=12) as ex:
        list(ex.map(lambda j: reference(*json.loads(j), cache), jobs))
    lines, metas = [], []
    for specs, bks, ops in hist:
        tls, shared = {}, {}
        enc, obs = [], []
        exported_before = {}
        others_seen = False
        meta = {"kind": "history", "specs": specs, "backends": bks, "ops": ops}
        ok = True
        for op, i in ops:
            ref = reference(specs[i], bks[i], cache)
            if "error" in ref:
                ok = False   # the reference itself failed: C11's business, not judged here
                break
            try:
                if op == "c":
                    tls[i] = construct_in_history(specs, bks, i, shared)
                    if specs[i].get("share"):
                        rep.count("shared-options-" + specs[i]["share"]["how"])
                    enc.append("c:%d:%s:%s:%s" % (i, ref["domain"][0].replace("-", "m").replace(".", "p").replace("+", "") if False else ref["domain"][0], ref["domain"][1], ref["direction"]))
                else:
                    doc = TG.export(tls[i])
                    o = RE.observe(tls[i], doc)
                    enc.append("e:%d" % i)
                    obs.append("%s:%s:%s" % (o["domain"][0], o["domain"][1], o["direction"]))
                    nontrivial = len(tls) > 1
                    rep.case(json.dumps([meta["specs"][i], len(enc)], sort_keys=True, default=str), nontrivial=nontrivial,
                             sample={"ops": ops, "backends": bks, "kinds": [s["kind"] for s in specs]} if nontrivial else None)
                    rep.count("export-after-%d-constructions" % min(len(tls), 4))
                    if o["doc"] != ref["doc"]:
                        rep.prop_fail.append(("C10: export differs from the same data/options exported alone in a fresh process", {"case": meta, "op_index": len(enc) - 1}))
                    if i in exported_before and exported_before[i] != o["doc"]:
                        rep.prop_fail.append(("C10: exporting the same timeline twice gave different documents", {"case": meta, "op_index": len(enc) - 1}))
                    exported_before[i] = o["doc"]
            except Exception as e:
                rep.prop_fail.append(("C10: %s raised %s although the fresh-process reference succeeded" % (op, type(e).__name__), {"case": meta}))
                ok = False
                break
        if ok and obs:
            lines.append("proc|%s|%s" % (";".join(enc), ";".join(obs))); metas.append(meta)
    # the object graph the constructor leaves behind (who shares which option object with whom; what was written into the caller's dict and into
    # the module-level defaults) against the transliteration Options.construct (Props/C10: construct_frame, second_timeline_leaves_first_alone)
    rng2 = rng_for(seed, "c10-objs")
    for _ in range(common.count(tier, 300, 4000) * scale):
        ds, cs = gen_objs_case(rng2)
        meta = {"kind": "objs", "dicts": ds, "constructs": cs}
        try:
            lines.append(run_objs_case(ds, cs)); metas.append(meta)
        except Exception as e:
            rep.prop_fail.append(("C10: constructing timelines from these option dicts raised %s: %s" % (type(e).__name__, e), {"case": meta}))
    answers = drive(lines)
    for line, meta, ans in zip(lines, metas, answers):
        f = fields(ans)
        if f["_cmd"] == "objs":
            rep.case(line, nontrivial=int(f["n"]) > 1, sample={"case": meta, "driver": ans[:300]} if rep.dist.get("objs", 0) < 2 else None)
            rep.count("objs"); rep.count("objs same=" + f["same"])
            if f["model"] != "ok":
                rep.model_fail = True
            if f["same"] != "ok":
                # the graph differs from the transliteration: a property failure when it shows sharing between timelines, a write into the module
                # defaults or into the caller's dict beyond `latex`; otherwise a broken correspondence
                obs = line.split("|")
                sharing = "shared:" in obs[3] or obs[5] != "module=ok" or any(set(a.split("+")) - set(b.split(",")) - {"latex", ""} for a, b in zip(obs[4].split(";"), obs[1].split(";")))
                payload = {"case": meta, "driver_line": line, "driver_answer": ans}
                if sharing:
                    rep.prop_fail.append(("C10: timelines share an option object they should each own, or the constructor wrote into the module defaults / the caller's dict: " + line.split("|", 3)[3], payload))
                elif not only_prop:
                    rep.corr_fail.append(("the option object graph differs from the model: " + ans, payload))
            continue
        rep.count("legacyWouldBreak=" + f["legacyWouldBreak"])
        if f["model"] != "ok":
            rep.model_fail = True
        if f["same"] != "ok":
            rep.prop_fail.append(("C10: a timeline's scale domain / direction at export time is not what its own arguments give: " + ans, {"case": meta, "driver_line": line, "driver_answer": ans}))


MORE_ZONES = ["Europe/London", "Europe/Berlin", "Asia/Tokyo", "America/Sao_Paulo", "Australia/Adelaide", "Asia/Kathmandu",
              "America/St_Johns", "Africa/Casablanca", "Pacific/Apia", "America/Los_Angeles", "Asia/Tehran", "Pacific/Kiritimati"]


def body_c18(tier, seed, rep, only_prop=False, scale=1):
    global ZONES
    if tier != "quick" and len(ZONES) == 5:
        # thorough tier: more zones (southern-hemisphere DST, quarter-hour offsets, a zone that skipped a whole day, +14:00), those that
        # the installed zone database knows; shard i of a sharded run probes with its own seed
        ZONES = ZONES + [z for z in MORE_ZONES if os.path.exists(os.path.join("/usr/share/zoneinfo", z))]
        rep.count("zones", len(ZONES))

    def probe(zone):
        env = dict(os.environ, TZ=zone, LABELLA_REPO=REPO, SOURCE_DATE_EPOCH="1600000000")      # a reproducible-build environment, the same in every zone
        p = subprocess.run([PY, os.path.join(VERIF, "harness", "tz_probe.py"), str(seed + (7919 if scale > 1 else 0)), tier], capture_output=True, text=True, timeout=1700, env=env)
        if p.returncode != 0:
            raise Infra("tz_probe failed under TZ=%s: %s" % (zone, p.stderr[-600:]))
        return p.stdout.splitlines()
    with ThreadPoolExecutor(max_workers=6) as ex:
        outs = dict(zip(ZONES, ex.map(probe, ZONES)))
    base = outs["UTC"]
    for z in ZONES[1:]:
        o = outs[z]
        if len(o) != len(base):
            rep.prop_fail.append(("C18: number of results differs between UTC and %s" % z, {"case": {"kind": "tz", "zone": z, "seed": seed, "tier": tier}}))
            continue
        for k, (a, b) in enumerate(zip(base, o)):
            if a != b:
                rep.prop_fail.append(("C18: result differs between TZ=UTC and TZ=%s" % z, {"case": {"kind": "tz", "zone": z, "seed": seed, "tier": tier, "line_no": k}, "utc": a[:1500], "other": b[:1500]}))
                break
    for z in ZONES:
        for ln in outs[z]:
            if ln.startswith("ERROR") or " ERROR " in ln:
                rep.prop_fail.append(("C18: an operation raised under TZ=%s: %s" % (z, ln[:200]), {"case": {"kind": "tz", "zone": z, "seed": seed, "tier": tier}}))
                break
    # every zone's lines against the single zone-free model (identical lines are driven once)
    uniq = []
    seen = set()
    for z in ZONES:
        for ln in outs[z]:
            if ln.startswith("EXPORT") or ln.startswith("ERROR"):
                continue
            if ln not in seen:
                seen.add(ln); uniq.append((ln, z))
    answers = drive([l for l, _ in uniq])
    for (line, z), ans in zip(uniq, answers):
        f = fields(ans)
        rep.case(line, nontrivial=True, sample={"zone": z, "line": line[:200], "driver": ans} if len(rep.samples) < 5 else None)
        rep.count("cmd=" + f["_cmd"])
        bad = [k for k, v in f.items() if v == "fail" and k not in ("model",)]
        if f.get("same") == "tie":
            rep.ties += 1
        elif bad and not only_prop:
            rep.corr_fail.append(("under TZ=%s the result differs from the zone-free model (%s): %s" % (z, "/".join(bad), ans), {"case": {"kind": "tz", "zone": z}, "driver_line": line[:2000], "driver_answer": ans}))
    rep.count("exports-compared", sum(1 for ln in base if ln.startswith("EXPORT")))
    rep.evaluations += sum(1 for ln in base if ln.startswith("EXPORT")) * len(ZONES)


def run(pid, tier, seed, replay=None):
    rep = Report(pid, tier, seed)
    rep.model_fail = False
    st = build_and_audit(pid, rep.log)
    the_body = body_c10 if pid == "C10" else body_c18
    if replay:
        with open(replay) as fh:
            r = json.load(fh)
        m = r["case"]
        r2 = Report(pid, tier, seed)
        if pid == "C10" and m.get("kind") == "objs":
            _MODULE_SNAPSHOT["at-import"] = module_snapshot()
            line = run_objs_case(m["dicts"], m["constructs"])
            ans = drive([line])[0]
            print("replay:", ans[:300])
            bad = fields(ans)["same"] != "ok"
            print("VIOLATION property=%s replay=%s" % (pid, replay) if bad else "replay: holds now")
            return 1 if bad else 0
        if pid == "C10":
            cache = {}
            specs, bks, ops = m["specs"], m["backends"], [tuple(o) for o in m["ops"]]
            import ref_export as RE
            tls, shared, bad = {}, {}, False
            for op, i in ops:
                if op == "c":
                    tls[i] = construct_in_history(specs, bks, i, shared)
                else:
                    o = RE.observe(tls[i], TG.export(tls[i]))
                    if o["doc"] != reference(specs[i], bks[i], cache).get("doc"):
                        bad = True
            print("VIOLATION property=%s replay=%s" % (pid, replay) if bad else "replay: holds now")
            return 1 if bad else 0
        body_c18(m.get("tier", "quick"), m.get("seed", seed), r2)
        bad = bool(r2.prop_fail or r2.corr_fail)
        print("VIOLATION property=%s replay=%s" % (pid, replay) if bad else "replay: holds now")
        return 1 if bad else 0
    the_body(tier, seed, rep)
    if rep.model_fail:
        st["broken"].append("model-prop-fail: a property predicate is false of the model's own output")

    def search():
        before = len(rep.prop_fail)
        the_body(tier, seed + 7919, rep, only_prop=True, scale=3)
        if len(rep.prop_fail) > before:
            what, payload = rep.prop_fail[before]
            del rep.prop_fail[before:]
            return {"what": what, **payload}
        return None

    if tier == "thorough" and not st["broken"]:
        if not leanchecker(pid, rep.log):
            st["broken"].append("leanchecker rejected the compiled proofs")
    return rep.finish(st, ASSUME10 if pid == "C10" else ASSUME18, RULE10 if pid == "C10" else RULE18, search)
