"""C05: the separation-constraint solver on general DAG and cyclic instances."""
import json, signal, sys
from fractions import Fraction
import common
from common import Report, build_and_audit, drive, fields, rng_for, leanchecker, REPO, fr, load_known

sys.path.insert(0, REPO)
ASSUME = ["optimality on general DAGs is validated per instance by a PROVED checker (QP.check_sound): the candidate optimum and multipliers come from the real solver run in exact arithmetic and continued until a pass performs no split; they are untrusted hints",
          "float mode tolerances: feasibility 1e-6 absolute, cost 1e-9 relative (x1000 head-room for 1e10 weights)",
          "termination is observed with a 5 s watchdog per solve"]
RULE = ("random instances with 1..60 variables: DAGs by a random order (sparse to 6n constraints, duplicates, transitively redundant ones, zero gaps, integer ties), chains, and cyclic variants; "
        "weights 1e-2..1e10, scales in {0.5,1,2,4}; non-trivial = at least one active constraint in the optimum (some variable displaced); distinct by canonical line")


class Timeout(Exception):
    pass


def _alarm(signum, frame):
    raise Timeout()


def gen_instance(rng, tier, kind=None):
    kind = kind or rng.choice(["dag", "dag", "dag", "chain", "cyclic", "ties"])
    n = rng.choice([1, 2, 3, 4, 5, 6, 8, 10, 15, 25, 40, 60])
    style = rng.choice(["int", "float", "ties"]) if kind != "ties" else "ties"
    if style == "int":
        ds = [rng.randint(0, 20) for _ in range(n)]
    elif style == "float":
        ds = [rng.uniform(-100, 100) for _ in range(n)]
    else:
        ds = [rng.choice([0, 7, 9, 10]) for _ in range(n)]
    wstyle = rng.choice(["one", "mixed", "extreme", "heavy-few"])
    ws = [1 if wstyle in ("one", "heavy-few") else (10 ** rng.uniform(-2, 10) if wstyle == "mixed" else rng.choice([1, 10, 1e10, 1e-2])) for _ in range(n)]
    if wstyle == "heavy-few":       # one or two stiff variables among unit weights (what removeOverlap's walls look like, on a general graph)
        for i in rng.sample(range(n), min(n, rng.choice([1, 1, 2]))):
            ws[i] = rng.choice([1e10, 1e10, 1e6, 1e3])
    ss = [1 if rng.random() < 0.7 else rng.choice([0.5, 1, 2, 4]) for _ in range(n)]
    if rng.random() < 0.6:
        ss = [1] * n
    order = list(range(n))
    rng.shuffle(order)
    cs = []
    if kind == "chain":
        for a, b in zip(order, order[1:]):
            cs.append((a, b, rng.choice([0, 1, 2, 3, rng.uniform(0, 5)])))
    elif n >= 2:
        m = rng.choice([n - 1, n, 2 * n, 3 * n, 6 * n]) if kind != "ties" else rng.choice([n, 2 * n])
        for _ in range(m):
            i, j = sorted(rng.sample(range(n), 2))
            cs.append((order[i], order[j], rng.choice([0, 0, 1, 2, 3, rng.randint(0, 6), rng.uniform(0, 5)])))
        if rng.random() < 0.3 and cs:
            cs += [rng.choice(cs) for _ in range(rng.randint(1, 4))]       # duplicates
        if kind == "cyclic":
            for _ in range(rng.randint(1, 3)):
                i, j = sorted(rng.sample(range(n), 2))
                cs.append((order[j], order[i], rng.choice([0, 1, 2, 5])))   # a back edge: may close a contradictory cycle
    if rng.random() < 0.06:
        # far-apart targets and wide gaps with stiff variables: costs beyond 2^63 (the solver's initial `lastcost` is sys.maxsize, not infinity)
        k = rng.choice([1e5, 1e6, 3e4])
        ds = [d * k for d in ds]
        cs = [(l, r, g * k) for l, r, g in cs]
        if wstyle in ("one", "mixed"):
            ws = [w * rng.choice([1e10, 1e8]) for w in ws]
    elif kind == "chain" and rng.random() < 0.3:
        # (chains only: with duplicated or redundant constraints inside a block the unchanged solver loops for ever from offsets of about 1e6 on,
        # where the rounding noise of a slack exceeds ZERO_UPPERBOUND — known finding F6)
        # targets far from the origin that conflict by little (raw timestamps: 1.7e9 s with events a few hundredths apart), modest weights: a
        # tolerance that grows with the magnitude of the positions would swallow such conflicts.  (Stiff variables are left out here: with
        # weights of 1e10 at such offsets the unchanged solver oscillates — known finding F5.)
        k = rng.choice([0.01, 0.02, 0.1])
        base = rng.choice([1e6, 1e8, 1.7e9])
        ds = [base + d * k for d in ds]
        cs = [(l, r, g * k) for l, r, g in cs]
        ws = [min(w, 10) for w in ws]
    inst = {"kind": kind, "d": ds, "w": ws, "s": ss, "cs": cs}
    if rng.random() < 0.2 and n >= 2:
        # the SAME solver object is given new desired positions (setDesiredPositions) and solved again, once or twice: the incremental use
        # the solver was written for.  What is judged is the last solve, against the last targets.
        inst["resolve"] = [[d + rng.choice([-7, -3, 0, 0, 2.5, 11]) * rng.random() if rng.random() < 0.8 else rng.choice(ds) for d in ds]
                           for _ in range(rng.choice([1, 1, 2]))]
        if style == "int" and rng.random() < 0.5:
            inst["resolve"] = [[float(round(v)) for v in ps] for ps in inst["resolve"]]
    if kind in ("dag", "chain", "ties") and rng.random() < 0.15:
        inst["presolve"] = [d + rng.choice([-7, -3, 0, 2.5, 11]) * rng.random() for d in ds]
    return inst


F1_WITNESS = {"kind": "dag", "d": [9, 10, 9, 7, 0], "w": [1e10, 1, 10, 1e10, 1], "s": [1, 1, 1, 1, 1],
              "cs": [(2, 3, 0), (1, 4, 3), (0, 4, 1), (2, 4, 2), (1, 2, 1)]}
D1_WITNESS = {"kind": "chain", "d": [0, .99, 1.985, 2.98, 3.975, 4.97], "w": [1] * 6, "s": [1] * 6, "cs": [(i, i + 1, 1) for i in range(5)]}


def build(inst, exact):
    from labella import vpsc
    conv = (lambda x: Fraction(x)) if exact else (lambda x: x)
    vs = [vpsc.Variable(conv(d), conv(w), conv(s)) for d, w, s in zip(inst["d"], inst["w"], inst["s"])]
    cs = [vpsc.Constraint(vs[l], vs[r], conv(g)) for l, r, g in inst["cs"]]
    if inst.get("presolve"):
        # the SAME Variable / Constraint objects were solved before with other desired positions (a caller that re-solves after moving
        # its targets builds a new Solver on the old objects): whatever the first solve left in them must not matter
        for v, d in zip(vs, inst["presolve"]):
            v.desiredPosition = conv(d)
        orig = vpsc.Variable.dfdv
        if exact:
            vpsc.Variable.dfdv = lambda self: 2 * self.weight * (self.position() - self.desiredPosition)
        try:
            signal.signal(signal.SIGALRM, _alarm)
            signal.alarm(20)
            try:
                vpsc.Solver(vs, cs).solve()
            finally:
                signal.alarm(0)
        finally:
            vpsc.Variable.dfdv = orig
        for v, d in zip(vs, inst["d"]):
            v.desiredPosition = conv(d)
    return vpsc, vs, cs


def solve_all(solver, inst, exact):
    """solve(); then for every list of new targets: setDesiredPositions(ps); solve() on the same solver.  Returns the last returned cost."""
    cost = solver.solve()
    for ps in inst.get("resolve", []):
        solver.setDesiredPositions([Fraction(p) if exact else p for p in ps])
        cost = solver.solve()
    return cost


def final_inst(inst):
    """the problem the last solve was asked to solve"""
    return dict(inst, d=inst["resolve"][-1]) if inst.get("resolve") else inst


def run_float(inst):
    vpsc, vs, cs = build(inst, False)
    solver = vpsc.Solver(vs, cs)
    signal.signal(signal.SIGALRM, _alarm)
    signal.alarm(5)
    try:
        cost = solve_all(solver, inst, False)
    finally:
        signal.alarm(0)
    return [v.position() for v in vs], cost, [i for i, c in enumerate(cs) if c.unsatisfiable]


def run_exact_plain(inst):
    """the real solver, unmodified control flow, on Fractions (only `dfdv`'s float literal 2.0 is replaced by 2): positions, returned
    cost, flagged constraints — compared for EQUALITY with the transliteration Model/Vpsc.lean"""
    vpsc, vs, cs = build(inst, True)
    orig_dfdv = vpsc.Variable.dfdv
    vpsc.Variable.dfdv = lambda self: 2 * self.weight * (self.position() - self.desiredPosition)
    try:
        solver = vpsc.Solver(vs, cs)
        signal.signal(signal.SIGALRM, _alarm)
        signal.alarm(20)
        try:
            cost = solve_all(solver, inst, True)
        finally:
            signal.alarm(0)
        return [v.position() for v in vs], cost, [i for i, c in enumerate(cs) if c.unsatisfiable]
    finally:
        vpsc.Variable.dfdv = orig_dfdv


def vpsc_line(inst, x, cost, unsat):
    if inst.get("resolve"):
        return "vpscr|%s|%s|%s|%s|%s|%s" % (
            ";".join("%s:%s:%s" % (fr(d), fr(w), fr(s)) for d, w, s in zip(inst["d"], inst["w"], inst["s"])),
            ";".join("%d:%d:%s" % (l, r, fr(g)) for l, r, g in inst["cs"]),
            "&".join(",".join(fr(v) for v in ps) for ps in inst["resolve"]),
            ",".join(fr(v) for v in x), fr(cost), ",".join(map(str, unsat)))
    return "vpsc|%s|%s|%s|%s|%s" % (
        ";".join("%s:%s:%s" % (fr(d), fr(w), fr(s)) for d, w, s in zip(inst["d"], inst["w"], inst["s"])),
        ";".join("%d:%d:%s" % (l, r, fr(g)) for l, r, g in inst["cs"]),
        ",".join(fr(v) for v in x), fr(cost), ",".join(map(str, unsat)))


_plain = {}


def run_exact_hint(inst):
    """(also leaves the plain exact result of solve() — positions, returned cost, flagged — in `_plain`, for the vpsc correspondence)
    the real solver in exact arithmetic, continued until a pass performs no split: candidate optimum + multipliers"""
    vpsc, vs, cs = build(inst, True)
    orig_dfdv = vpsc.Variable.dfdv
    orig_split = vpsc.Block.split
    count = {"n": 0}

    def dfdv(self):
        return 2 * self.weight * (self.position() - self.desiredPosition)

    def split(c):
        count["n"] += 1
        return orig_split(c)

    vpsc.Variable.dfdv = dfdv
    vpsc.Block.split = staticmethod(split)
    try:
        solver = vpsc.Solver(vs, cs)
        signal.signal(signal.SIGALRM, _alarm)
        signal.alarm(20)
        try:
            cost0 = solve_all(solver, inst, True)
            before = [v.position() for v in vs]
            _plain["x"], _plain["cost"], _plain["unsat"] = before, cost0, [i for i, c in enumerate(cs) if c.unsatisfiable]
            extra = 0
            for _ in range(60):
                count["n"] = 0
                solver.satisfy()
                extra += 1
                if count["n"] == 0:
                    break
            for b in solver.bs._list:
                b.findMinLM()
        finally:
            signal.alarm(0)
        lam = [(c.lm if c.active and hasattr(c, "lm") else 0) for c in cs]
        return before, [v.position() for v in vs], lam, extra, any(c.unsatisfiable for c in cs)
    finally:
        vpsc.Variable.dfdv = orig_dfdv
        vpsc.Block.split = orig_split


F1_COST_STEP = 1e-4      # part of F1's identification (known-findings.json): solve() stopped on a pass that changed the cost by at most this


def float_continued(inst):
    """F1 signature on the FLOAT run: solve(), then keep calling satisfy() until a pass performs no split (at most 60 passes);
    returns the positions / cost / flags reached then"""
    vpsc, vs, cs = build(inst, False)
    orig_split = vpsc.Block.split
    count = {"n": 0}

    def split(c):
        count["n"] += 1
        return orig_split(c)

    vpsc.Block.split = staticmethod(split)
    try:
        solver = vpsc.Solver(vs, cs)
        costs = []
        orig_satisfy = solver.satisfy

        def satisfy():          # cost after every pass solve() makes: did it stop BECAUSE a pass left the cost unchanged?
            orig_satisfy()
            costs.append(solver.bs.cost())

        solver.satisfy = satisfy
        signal.signal(signal.SIGALRM, _alarm)
        signal.alarm(20)
        try:
            solve_all(solver, inst, False)
            solver.satisfy = orig_satisfy
            stationary = len(costs) >= 2 and abs(costs[-1] - costs[-2]) <= F1_COST_STEP
            passes = 0
            for _ in range(60):
                count["n"] = 0
                solver.satisfy()
                passes += 1
                if count["n"] == 0:
                    break
            cost = solver.cost()
        finally:
            signal.alarm(0)
        return [v.position() for v in vs], cost, [i for i, c in enumerate(cs) if c.unsatisfiable], passes, stationary
    finally:
        vpsc.Block.split = orig_split


def qp_line(inst, x, cost, xs, lam, unsat):
    return "qp|%s|%s|%s|%s|%s|%s|%s" % (
        ";".join("%s:%s:%s" % (fr(d), fr(w), fr(s)) for d, w, s in zip(inst["d"], inst["w"], inst["s"])),
        ";".join("%d:%d:%s" % (l, r, fr(g)) for l, r, g in inst["cs"]),
        ",".join(fr(v) for v in x), fr(cost), ",".join(fr(v) for v in xs), ",".join(fr(v) for v in lam), ",".join(map(str, unsat)))


def classify_hang(inst):
    """a float solve() that does not end: is it one of the two known floating-point livelocks (known-findings.json F5 / F6: identified by call
    site and signature, like F1), or something new?  Returns "F6", "F5" or None."""
    import math
    try:
        vpsc, vs, cs = build(inst, False)
    except Timeout:
        return None
    solver = vpsc.Solver(vs, cs)
    signal.signal(signal.SIGALRM, _alarm)
    signal.alarm(3)
    try:
        try:
            solve_all(solver, inst, False)
            return None                 # it ends now: not reproducible, report it
        finally:
            signal.alarm(0)
    except Timeout:
        pass
    except Exception:
        return None
    # F6: inside satisfy()'s split-and-merge loop, chasing rounding noise — every constraint holds up to 8 ulps, Solver.inactive keeps growing
    noise_only = all(c.unsatisfiable or c.gap - (c.right.scale * c.right.position() - c.left.scale * c.left.position())
                     <= 8 * math.ulp(max(abs(c.right.scale * c.right.position()), abs(c.left.scale * c.left.position()), 1.0)) for c in cs)
    if noise_only and len(solver.inactive) > 10 * len(cs) and max(abs(v.position()) for v in vs) >= 1e5:
        return "F6"
    # F5: the outer loop of solve(): the costs of successive satisfy() passes form a 2-cycle of rounding noise more than 1e-4 apart
    if not noise_only or max(abs(v.position()) for v in vs) * max(v.weight for v in vs) < 1e15:
        return None                     # rounding noise of weight x displacement^2 cannot reach 1e-4 at such magnitudes
    costs = []
    signal.alarm(3)
    try:
        try:
            for _ in range(24):
                solver.satisfy()
                costs.append(solver.cost())
        finally:
            signal.alarm(0)
    except Timeout:
        return None
    tail = costs[-20:]
    if all(tail[i] == tail[i + 2] for i in range(len(tail) - 2)) and abs(tail[0] - tail[1]) > 1e-4 and \
            abs(tail[0] - tail[1]) <= 1e-6 * max(abs(tail[0]), abs(tail[1])):
        return "F5"
    return None


def one_case(inst, rep):
    """returns (line, meta) or None when the case ended in an exception recorded as a failing input"""
    meta = {"kind": inst["kind"], "inst": inst}
    try:
        x, cost, unsat = run_float(inst)
    except Timeout:
        which = classify_hang(inst)
        kn = {k["id"]: k for k in load_known()["known"] if k["property"] == "C05"}
        if which in kn:
            rep.known_seen[which] = kn[which]["message"]
            rep.count("%s-livelock-in-random-instance" % which)
            return None
        rep.prop_fail.append(("solve() did not terminate within 5 s", {"case": meta})); return None
    except RecursionError:
        rep.count("recursion-error"); return None
    except Exception as e:
        rep.prop_fail.append(("solve() raised %s: %s" % (type(e).__name__, e), {"case": meta})); return None
    xs, lam, before, extra = [], [], None, 0
    _plain.clear()
    if inst["kind"] != "cyclic":
        try:
            before, xs, lam, extra, flagged = run_exact_hint(inst)
            if flagged:
                xs, lam = [], []
        except (Timeout, RecursionError):
            xs, lam = [], []
        except Exception:
            xs, lam = [], []
    meta["extra_passes"] = extra
    meta["premature"] = bool(before is not None and xs and any(a != b for a, b in zip(before, xs)))
    if meta["premature"]:
        # did the float run stop at the same place as the exact run before the extra passes?
        meta["float_equals_exact_before"] = all(abs(float(a) - b) <= 1e-6 for a, b in zip(before, x))
    # exact-mode correspondence with the transliterated solver (every kind of instance, cyclic ones included)
    meta["vpsc_line"] = None
    if len(inst["d"]) <= 40:
        try:
            if "x" in _plain:
                ex, ecost, eunsat = _plain["x"], _plain["cost"], _plain["unsat"]
            else:
                ex, ecost, eunsat = run_exact_plain(inst)
            meta["vpsc_line"] = vpsc_line(inst, ex, ecost, eunsat)
        except (Timeout, RecursionError):
            rep.count("exact-run-timeout")
        except ZeroDivisionError:
            rep.count("exact-run-zerodivision")
    if inst.get("resolve"):
        rep.count("re-solved-%d-times" % len(inst["resolve"]))
    return qp_line(final_inst(inst), x, cost, xs, lam, unsat), meta


def f5_instance(ex):
    """the instance removeOverlap builds for the listed example: wall, labels in the order of their positions, wall"""
    labels = sorted(ex["labels"])
    d = [ex["walls"][0]] + [p for p, _w in labels] + [ex["walls"][1]]
    w = [ex["wall_weight"]] + [1] * len(labels) + [ex["wall_weight"]]
    cs = [(0, 1, labels[0][1] / 2)]
    for i in range(1, len(labels)):
        cs.append((i, i + 1, (labels[i - 1][1] + labels[i][1]) / 2 + ex["nodeSpacing"]))
    cs.append((len(labels), len(labels) + 1, labels[-1][1] / 2))
    return {"d": d, "w": w, "s": [1] * len(d), "cs": cs}


def f5_probe(known, rep):
    """known finding F5 (known-findings.json): does Solver.solve still oscillate on the listed instance, and with the listed signature?
    Returns None (it ends now: nothing to report), "known" (signature as listed) or a description of what differs (a new violation)."""
    inst = f5_instance(known["example"])
    vpsc, vs, cs = build(inst, False)
    solver = vpsc.Solver(vs, cs)
    signal.signal(signal.SIGALRM, _alarm)
    signal.alarm(5)
    try:
        try:
            solver.solve()
            return None, inst
        finally:
            signal.alarm(0)
    except Timeout:
        pass
    vpsc, vs, cs = build(inst, False)
    solver = vpsc.Solver(vs, cs)
    costs = []
    for _ in range(24):
        solver.satisfy()
        costs.append(solver.cost())
        for c in cs:
            if c.right.position() - c.left.position() < c.gap - 1e-6:
                return "a satisfy() pass left a constraint violated", inst
    tail = costs[-20:]
    cyc = all(tail[i] == tail[i + 2] for i in range(len(tail) - 2)) and abs(tail[0] - tail[1]) > 1e-4
    noise = abs(tail[0] - tail[1]) <= 1e-6 * max(abs(tail[0]), abs(tail[1]))
    if cyc and noise:
        rep.count("F5-cost-2-cycle")
        return "known", inst
    return "solve() does not end, and the costs of successive passes are not a 2-cycle of rounding noise: %r" % (tail[:6],), inst


def f6_probe(known, rep):
    """known finding F6: does satisfy() still loop for ever on the listed instance, and is what it keeps 'repairing' rounding noise?"""
    import math
    inst = dict(known["example"], s=[1] * len(known["example"]["d"]))
    vpsc, vs, cs = build(inst, False)
    solver = vpsc.Solver(vs, cs)
    signal.signal(signal.SIGALRM, _alarm)
    signal.alarm(3)
    try:
        try:
            solver.solve()
            return None, inst
        finally:
            signal.alarm(0)
    except Timeout:
        pass
    # interrupted inside the loop: every constraint must hold up to the resolution of the positions (a few ulps) — the loop is chasing noise
    worst = 0.0
    for c in cs:
        res = 8 * math.ulp(max(abs(c.left.position()), abs(c.right.position()), 1.0))
        viol = c.gap - (c.right.position() - c.left.position())
        if viol > res:
            return "solve() does not end and a constraint is violated by %r, more than rounding noise (%r)" % (viol, res), inst
        worst = max(worst, viol)
    if len(solver.inactive) <= 10 * len(cs):
        return "solve() does not end, but not in the split-and-merge loop of satisfy() (Solver.inactive has not grown)", inst
    rep.count("F6-noise-below-zero-upperbound")
    return "known", inst


def body(tier, seed, rep, only_prop=False, scale=1):
    rng = rng_for(seed, "c05")
    known = {k["id"]: k for k in load_known()["known"] if k["property"] == "C05"}
    if "F6" in known:
        what, inst6 = f6_probe(known["F6"], rep)
        if what == "known":
            rep.known_seen["F6"] = known["F6"]["message"]
        elif what is not None:
            rep.prop_fail.append(("C05 (termination): " + what, {"case": {"inst": inst6, "kind": "f6-probe"}}))
    if "F5" in known:
        what, inst5 = f5_probe(known["F5"], rep)
        if what == "known":
            rep.known_seen["F5"] = known["F5"]["message"]
        elif what is not None:
            rep.prop_fail.append(("C05 (termination): " + what, {"case": {"inst": inst5, "kind": "f5-probe"}}))
    cs = []
    for inst in (D1_WITNESS, F1_WITNESS):
        r = one_case(inst, rep)
        if r:
            cs.append(r)
    n = common.count(tier, 1500, 25000) * scale
    for _ in range(n):
        r = one_case(gen_instance(rng, tier), rep)
        if r:
            cs.append(r)
    answers = drive([c[0] for c in cs])
    qp_of = {id(c[1]): fields(a) for c, a in zip(cs, answers)}
    vl = [(c[1].pop("vpsc_line"), c[1]) for c in cs]
    vl = [(l, m) for l, m in vl if l]
    for (line, meta), ans in zip(vl, drive([l for l, _ in vl])):
        f = fields(ans)
        q = qp_of.get(id(meta), {})
        if f["same"] == "fail" and f.get("pending") == "1" and q.get("optimal") == "ok" and q.get("feasible") == "ok" and q.get("cost") == "ok":
            # the transliteration (of the code as it was) stops with a split pending on this instance — known finding F1 — while the code under
            # test returns a certified optimum: the code got BETTER than its model here; that is not a broken correspondence
            rep.count("implementation optimal where the transliteration shows F1")
            continue
        rep.count("vpsc-model same=" + f["same"])
        if f.get("pending") == "1":
            rep.count("vpsc-model split-pending-at-exit(F1 signature)")
            meta["model_pending"] = True
        payload = {"case": meta, "driver_line": line[:6000], "driver_answer": ans}
        if f["feasible"] == "fail":
            rep.model_fail = True
        if f["same"] == "fail" and not only_prop:
            rep.corr_fail.append(("vpsc.Solver.solve in exact arithmetic differs from its transliteration Model/Vpsc.lean (positions, returned cost or flagged constraints): " + ans, payload))
    for (line, meta), ans in zip(cs, answers):
        f = fields(ans)
        payload = {"case": meta, "driver_line": line[:6000], "driver_answer": ans}
        rep.case(line, nontrivial=int(f["m"]) > 0 and f["optimal"] in ("ok", "fail"), sample={"case": {"kind": meta["kind"], "n": f["n"], "m": f["m"]}, "driver": ans})
        rep.count("kind=" + meta["kind"]); rep.count("optimal=" + f["optimal"]); rep.count("extra_passes=%d" % min(meta.get("extra_passes", 0), 4))
        if f["feasible"] != "ok":
            rep.prop_fail.append(("C05: an unflagged constraint is violated by more than 1e-6: " + ans, payload))
        elif f["cost"] != "ok":
            rep.prop_fail.append(("C05: the reported cost is not the cost of the reported positions: " + ans, payload))
        elif f["optimal"] == "fail":
            # finding F1 is identified by its call site and signature: solve() stopped (its cost-change test) while a split was still
            # due, and calling satisfy() further on the same solver until a pass performs no split reaches the certified optimum.
            # The signature is checked on the float run itself (its trajectory may differ from the exact run's).
            repaired = False
            if "F1" in known:
                try:
                    x2, cost2, unsat2, passes, stationary = float_continued(meta["inst"])
                    parts = line.split("|")
                    parts[3], parts[4], parts[7] = ",".join(fr(v) for v in x2), fr(cost2), ",".join(map(str, unsat2))
                    f2 = fields(drive(["|".join(parts)])[0])
                    repaired = f2["optimal"] == "ok" and f2["feasible"] == "ok" and passes >= 1 and stationary
                    payload["continued"] = {"extra_passes": passes, "stopped_on_cost_stationary_pass": stationary, "driver": "|".join("%s=%s" % kv for kv in f2.items())}
                except (Timeout, RecursionError):
                    repaired = False
            if repaired:
                rep.known_seen["F1"] = known["F1"]["message"]
                rep.count("F1-premature-stop")
                rep.count("F1 exact-run-also-premature=%s" % bool(meta.get("premature")))
            else:
                rep.prop_fail.append(("C05: a certified feasible placement is cheaper than the returned one (and further satisfy() passes do not repair it): " + ans, payload))
        elif f["optimal"] == "nocert" and not only_prop:
            rep.corr_fail.append(("no optimality certificate could be produced for this acyclic instance: " + ans, payload))
        elif f["dual"] != "ok":
            rep.prop_fail.append(("C05: returned cost is below the dual lower bound (infeasible result?): " + ans, payload))


def run(pid, tier, seed, replay=None):
    rep = Report(pid, tier, seed)
    st = build_and_audit(pid, rep.log)
    if replay:
        with open(replay) as fh:
            m = json.load(fh)["case"]
        inst = m["inst"]; inst["cs"] = [tuple(c) for c in inst["cs"]]
        r = one_case(inst, rep)
        if not r:
            if rep.known_seen and not rep.prop_fail:
                for k, v in sorted(rep.known_seen.items()):
                    print("KNOWN-FINDING: property=%s %s" % (pid, v))
                return 0
            print("VIOLATION property=%s replay=%s" % (pid, replay)); return 1
        ans = drive([r[0]])[0]
        print("replay:", ans, {k: v for k, v in r[1].items() if k not in ("inst", "vpsc_line")})
        bad = "fail" in ans
        f = fields(ans)
        if bad and f["feasible"] == "ok" and f["cost"] == "ok" and f["optimal"] == "fail":
            try:        # known finding F1?  (same signature test as the main run)
                x2, cost2, unsat2, passes, stationary = float_continued(inst)
                parts = r[0].split("|")
                parts[3], parts[4], parts[7] = ",".join(fr(v) for v in x2), fr(cost2), ",".join(map(str, unsat2))
                f2 = fields(drive(["|".join(parts)])[0])
                if f2["optimal"] == "ok" and f2["feasible"] == "ok" and passes >= 1 and stationary:
                    print("KNOWN-FINDING: property=C05 F1 (this input shows the recorded finding, not a new violation)")
                    return 0
            except (Timeout, RecursionError):
                pass
        print("VIOLATION property=%s replay=%s" % (pid, replay) if bad else "replay: holds now")
        return 1 if bad else 0
    rep.model_fail = False
    body(tier, seed, rep)
    if rep.model_fail:
        st["broken"].append("model-prop-fail: the transliterated solver's own result violates a constraint it has not flagged (theorem satisfy_feasible)")

    def search():
        before = len(rep.prop_fail)
        body(tier, seed + 7919, rep, only_prop=True, scale=3)
        if len(rep.prop_fail) > before:
            what, payload = rep.prop_fail[before]
            del rep.prop_fail[before:]
            return {"what": what, **payload}
        return None

    if tier == "thorough" and not st["broken"]:
        if not leanchecker(pid, rep.log):
            st["broken"].append("leanchecker rejected the compiled proofs")
    return rep.finish(st, ASSUME, RULE, search)
