#!/usr/bin/env python3
"""ingest_seed.py <scratch worktree> <slug> [Cxx ...] — copy seed_out/ of a sub-agent's scratch worktree to seeded/<Cxx>-<slug>/,
confirm it (tests pass, demo fails with / passes without), run the named checks (default: all 20) against it, record the outcome
in meta.json, restore evidence/ (a seeded run must not leave its evidence behind) and remove the scratch worktree."""
import json, os, shutil, subprocess, sys
V = os.path.normpath(os.path.join(os.path.dirname(os.path.abspath(__file__)), ".."))
wt, slug = os.path.abspath(sys.argv[1]), sys.argv[2]
props = sys.argv[3:]
reeval = os.path.exists(os.path.join(wt, "meta.json"))     # `ingest_seed.py seeded/<dir> - [Cxx ...]` re-evaluates a kept seed
src = wt if reeval else os.path.join(wt, "seed_out")
meta = json.load(open(os.path.join(src, "meta.json")))
pid = meta["property"]
dst = wt if reeval else os.path.join(V, "seeded", "%s-%s" % (pid, slug))
os.makedirs(dst, exist_ok=True)
if not reeval:
    for f in ("patch.diff", "demo.py", "meta.json"):
        shutil.copy(os.path.join(src, f), os.path.join(dst, f))
old_checks = meta.get("ran", {}).get("checks", {})
r = subprocess.run([sys.executable, os.path.join(V, "harness", "try_seed.py"), dst] + props, capture_output=True, text=True)
print(r.stdout[-3000:], r.stderr[-2000:])
subprocess.run("git -C %s checkout -- evidence" % V, shell=True)
res = json.load(open(os.path.join(dst, "try_result.json")))
os.remove(os.path.join(dst, "try_result.json"))
def cls(c):
    if c["rc"] == 0: return "ok"
    if c["rc"] == 1: return "VIOLATION (no-failing-input-found)" if "no-failing-input-found" in c["violation"] else "VIOLATION (failing input)"
    return "infrastructure rc=%s" % c["rc"]
meta["tests_pass"] = res["tests"].startswith("109 passed")
meta["ran"] = {"tests": res["tests"], "demo_clean_rc": res["demo_clean_rc"], "demo_patched_rc": res["demo_patched_rc"],
               "checks": dict(sorted({**old_checks, **{p: cls(c) for p, c in res["checks"].items()}}.items())),
               "how": "git -C /repo apply patch.diff; pytest (109 must pass); demo.py must exit 1 (0 on the unchanged tree); ./check <ids> --tier quick; git -C /repo checkout -- .   (harness/try_seed.py)"}
json.dump(meta, open(os.path.join(dst, "meta.json"), "w"), indent=1)
ok = meta["tests_pass"] and res["demo_clean_rc"] == 0 and res["demo_patched_rc"] == 1
print("CONFIRMED" if ok else "NOT CONFIRMED", pid, slug, "own check:", meta["ran"]["checks"].get(pid))
if ok and "--keep" not in sys.argv and not reeval:
    subprocess.run("git -C /repo worktree remove --force %s" % wt, shell=True)
