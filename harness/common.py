"""Shared machinery of every check: build + audit the Lean side, drive the model through the line
protocol, judge, write evidence / replay files, print the verdict lines."""
import fcntl, json, os, random, re, subprocess, sys, time
from fractions import Fraction

VERIF = os.path.normpath(os.path.join(os.path.dirname(os.path.abspath(__file__)), ".."))
LEAN = os.path.join(VERIF, "lean")
REPO = os.environ.get("LABELLA_REPO", "/repo")
DRIVER = os.path.join(LEAN, ".lake", "build", "bin", "driver")
ALLOWED_AXIOMS = {"propext", "Classical.choice", "Quot.sound"}
FORBIDDEN = re.compile(r"\b(sorry|admit|native_decide|bv_decide|implemented_by|unsafe)\b|^\s*axiom\s|maxHeartbeats\s+0\b", re.M)
PY = "/venv/bin/python"


SHARD = int(os.environ["VERIF_SHARD"]) if os.environ.get("VERIF_SHARD") else None     # set by ./check for the shards of a thorough run
SHARDS = int(os.environ.get("VERIF_SHARDS", "1"))


def count(tier, quick_n, thorough_n):
    """number of generated cases for this process: the thorough tier is split over SHARDS processes with different seeds"""
    if tier == "quick":
        return quick_n
    if SHARD is None:
        return thorough_n
    return max(1, -(-thorough_n // SHARDS))


def exhaustive_here():
    """finite enumerations (every day 1900-2200, every code point, every index) are done once: by shard 0"""
    return SHARD in (None, 0)


class OpTimeout(Exception):
    """an operation of the implementation did not return within its time limit"""


class time_limit:
    """with time_limit(5): ...  raises OpTimeout (main thread only)"""

    hangs = 0          # operations that ran into their limit in this process
    MAX_HANGS = 3      # after that many, further guarded operations are skipped at once: the hang IS the failing input, and a
                       # change that makes a whole class of inputs loop must not turn the check into an hour of waiting

    def __init__(self, seconds):
        self.seconds = min(seconds, 20) if time_limit.hangs else seconds

    def _raise(self, signum, frame):
        time_limit.hangs += 1
        raise OpTimeout("no result within %d s" % self.seconds)

    def __enter__(self):
        import signal
        if time_limit.hangs >= time_limit.MAX_HANGS:
            raise OpTimeout("skipped: %d earlier operations of this run did not return within their time limit" % time_limit.hangs)
        self.old = signal.signal(signal.SIGALRM, self._raise)
        signal.alarm(self.seconds)

    def __exit__(self, *a):
        import signal
        signal.alarm(0)
        signal.signal(signal.SIGALRM, self.old)
        return False


class Infra(Exception):
    """infrastructure failure: exit 2, never a violation"""


def fr(x):
    """exact rational text of a Python number (floats by their exact binary value)"""
    if x is None:
        return "none"
    if isinstance(x, bool):
        return "1" if x else "0"
    f = Fraction(x)
    return str(f.numerator) if f.denominator == 1 else "%d/%d" % (f.numerator, f.denominator)


def strip_comments(src):
    src = re.sub(r"/-.*?-/", " ", src, flags=re.S)
    return re.sub(r"--.*", " ", src)


class Lock:
    def __enter__(self):
        self.fh = open(os.path.join(VERIF, ".lock"), "w")
        fcntl.flock(self.fh, fcntl.LOCK_EX)
        return self

    def __exit__(self, *a):
        fcntl.flock(self.fh, fcntl.LOCK_UN)
        self.fh.close()


def run(cmd, cwd=None, timeout=1800, inp=None):
    p = subprocess.run(cmd, cwd=cwd, input=inp, capture_output=True, text=True, timeout=timeout)
    return p.returncode, p.stdout + p.stderr


def lean_sources_of(module, seen=None):
    """transitive Labella.* imports of a module (for the forbidden-token scan)"""
    seen = set() if seen is None else seen
    if module in seen:
        return seen
    path = os.path.join(LEAN, *module.split(".")) + ".lean"
    if not os.path.exists(path):
        return seen
    seen.add(module)
    with open(path) as fh:
        for m in re.findall(r"^import\s+(Labella[\w.]*)", fh.read(), re.M):
            lean_sources_of(m, seen)
    return seen


def build_and_audit(pid, log):
    """translator tie + proof obligations.  Returns dict(status...).  Never raises for a *proof* failure —
    that is a finding about the tree, reported by the caller; raises Infra when the tool chain is missing."""
    st = {"constants": "ok", "build": "ok", "driver": "ok", "obligations": [], "discharged": [], "axioms": {},
          "forbidden": [], "broken": []}
    if SHARD is not None:       # the parent of a sharded thorough run has regenerated the constants, built and audited already
        return json.loads(os.environ["VERIF_BUILD_STATUS"])
    if os.environ.get("VERIF_SKIP_AUDIT") == "1" and "--replay" in sys.argv:   # candidate evaluations of the shrinker
        return st
    with Lock():
        rc, out = run([PY, os.path.join(VERIF, "harness", "extract_constants.py")], timeout=120)
        log(out.strip())
        if rc == 3:
            # some literal could not be located (previous value kept): only properties whose Lean sources mention it are affected
            m = re.search(r"^UNLOCATED (.*)$", out, re.M)
            names = [n for n in (m.group(1).split(",") if m else ["*"]) if n]
            used = set()
            for mod in lean_sources_of("Labella.Props." + pid):
                if mod == "Labella.Gen.Constants":
                    continue
                with open(os.path.join(LEAN, *mod.split(".")) + ".lean") as fh:
                    txt = fh.read()
                for n in names:
                    if n == "*" or re.search(r"\b(Gen\.)?%s\w*\b" % re.escape(n), txt) and "Gen" in txt:
                        used.add(n)
            if used:
                st["constants"] = "broken: could not locate %s in the source" % ", ".join(sorted(used))
                st["broken"].append("translator extract_constants.py could no longer locate: " + ", ".join(sorted(used)))
            else:
                st["constants"] = "ok (unlocated constants not used by this property: %s)" % ", ".join(names)
        elif rc != 0:
            raise Infra("extract_constants failed: " + out)
        rc, out = run(["lake", "build", "driver"], cwd=LEAN)
        if rc != 0:
            st["driver"] = "broken"
            st["broken"].append("model/driver no longer builds against the regenerated constants")
            log(out[-3000:])
        mod = "Labella.Props." + pid
        rc, out = run(["lake", "build", mod], cwd=LEAN)
        if rc != 0:
            st["build"] = "broken"
            errs = re.findall(r"error: ([^\n]*)", out)
            st["broken"].append("lake build %s failed: %s" % (mod, "; ".join(errs[:5])))
            log(out[-3000:])
    props = os.path.join(LEAN, "Labella", "Props", pid + ".lean")
    with open(props) as fh:
        src = fh.read()
    names = re.findall(r"^theorem\s+([\w.']+)", strip_comments(src), re.M)
    ns = re.search(r"^namespace\s+([\w.]+)", src, re.M)
    full = [(ns.group(1) + "." + n if ns else n) for n in names]
    st["obligations"] = full
    for m in sorted(lean_sources_of("Labella.Props." + pid)):
        path = os.path.join(LEAN, *m.split(".")) + ".lean"
        with open(path) as fh:
            for hit in FORBIDDEN.finditer(strip_comments(fh.read())):
                st["forbidden"].append("%s: %s" % (m, hit.group(0).strip()))
    if st["forbidden"]:
        st["broken"].append("forbidden token in proof sources: " + ", ".join(st["forbidden"][:5]))
    if st["build"] == "ok":
        os.makedirs(os.path.join(LEAN, ".audit"), exist_ok=True)
        apath = os.path.join(LEAN, ".audit", "Audit_%s_%d.lean" % (pid, os.getpid()))
        with open(apath, "w") as fh:
            fh.write("import Labella.Props.%s\n" % pid + "".join("#print axioms %s\n" % n for n in full))
        rc, out = run(["lake", "env", "lean", apath], cwd=LEAN, timeout=900)
        os.unlink(apath)
        if rc != 0:
            st["broken"].append("axiom audit failed to run: " + out[-500:])
        for n in full:
            m = re.search(r"'%s' depends on axioms: \[([^\]]*)\]" % re.escape(n), out)
            if m:
                ax = [a.strip() for a in m.group(1).replace("\n", " ").split(",") if a.strip()]
            elif re.search(r"'%s' does not depend on any axioms" % re.escape(n), out):
                ax = []
            else:
                st["broken"].append("no axiom report for " + n)
                continue
            st["axioms"][n] = ax
            if set(ax) <= ALLOWED_AXIOMS:
                st["discharged"].append(n)
            else:
                st["broken"].append("theorem %s depends on non-whitelisted axioms %s" % (n, ax))
    return st


def leanchecker(pid, log):
    if SHARD is not None:
        return True
    return _leanchecker(pid, log)


def _leanchecker(pid, log):
    """independent re-check of the compiled proofs, one module per invocation (≈1.5 GB and 3 s each instead of 14 GB for all at once),
    four at a time.  Only an explicit rejection (exit status 1) counts against the proofs; a checker that could not run (killed, out of
    memory, missing) is an infrastructure matter and is reported in the log, not as a broken proof."""
    from concurrent.futures import ThreadPoolExecutor
    mods = sorted(m for m in lean_sources_of("Labella.Props." + pid))

    def one(m):
        try:
            rc, out = run(["lake", "env", "leanchecker", m], cwd=LEAN, timeout=1200)
        except Exception as e:
            return m, 99, str(e)
        return m, rc, out[-300:]

    with ThreadPoolExecutor(max_workers=int(os.environ.get("VERIF_LEANCHECKER_JOBS", "4"))) as ex:
        res = list(ex.map(one, mods))
    rejected = [(m, out) for m, rc, out in res if rc == 1]
    skipped = [(m, rc) for m, rc, out in res if rc not in (0, 1)]
    log("leanchecker: %d modules re-checked, %d rejected, %d could not be checked %s" % (len(mods) - len(skipped), len(rejected), len(skipped), skipped[:3] if skipped else ""))
    for m, out in rejected[:3]:
        log("leanchecker rejected %s: %s" % (m, out))
    return not rejected


def drive(lines, timeout=3000):
    """pipe case lines through the compiled model driver; one answer per line"""
    if not os.path.exists(DRIVER):
        raise Infra("driver executable missing (run ./setup.sh)")
    if not lines:
        return []

    def one(chunk):
        p = subprocess.run([DRIVER], input="\n".join(chunk) + "\n", capture_output=True, text=True, timeout=timeout)
        o = p.stdout.splitlines()
        if p.returncode != 0 or len(o) != len(chunk):
            raise Infra("driver failed rc=%s answered %d of %d lines: %s" % (p.returncode, len(o), len(chunk), p.stderr[-500:]))
        return o

    nproc = min(int(os.environ.get("VERIF_JOBS", "8")), max(1, len(lines) // 100))
    if nproc <= 1:
        out = one(lines)
    else:       # the driver is a pure function of each line: split the batch, keep the order
        from concurrent.futures import ThreadPoolExecutor
        size = (len(lines) + nproc * 4 - 1) // (nproc * 4)
        chunks = [lines[i:i + size] for i in range(0, len(lines), size)]
        with ThreadPoolExecutor(max_workers=nproc) as ex:
            out = [a for o in ex.map(one, chunks) for a in o]
    for a, l in zip(out, lines):
        if a == "bad-line":
            raise Infra("driver could not parse: " + l[:300])
    return out


def fields(ans):
    d = {}
    for tok in ans.split()[1:]:
        k, _, v = tok.partition("=")
        d[k] = v
    d["_cmd"] = ans.split()[0] if ans else ""
    return d


def load_known():
    with open(os.path.join(VERIF, "known-findings.json")) as fh:
        return json.load(fh)


class Report:
    """collects what one run explored and turns it into exit status, evidence and replay files"""

    def __init__(self, pid, tier, seed):
        self.pid, self.tier, self.seed = pid, tier, seed
        self.t0 = time.time()
        self.evaluations = 0
        self.nontrivial = set()
        self.samples = []
        self.dist = {}
        self.corr_fail = []      # (what, replay dict)
        self.prop_fail = []      # (what, replay dict)
        self.known_seen = {}
        self.ties = 0
        self.extra = {}
        self.logs = []
        rd = os.path.join(VERIF, "replays")
        os.makedirs(rd, exist_ok=True)
        for fn in os.listdir(rd):      # replays of an earlier run of this check are stale (kept when this run IS a replay)
            if fn.startswith(pid + "-") and "--replay" not in sys.argv and SHARD is None:
                os.unlink(os.path.join(rd, fn))

    def log(self, s):
        if s:
            self.logs.append(s)
            print("  | " + s.replace("\n", "\n  | "), flush=True)

    def count(self, key, n=1):
        self.dist[key] = self.dist.get(key, 0) + n

    def case(self, canon, nontrivial, sample=None):
        self.evaluations += 1
        if nontrivial:
            self.nontrivial.add(hash(canon))
        if sample is not None and len(self.samples) < 6:
            self.samples.append(sample)

    def write_replay(self, kind, what, payload):
        os.makedirs(os.path.join(VERIF, "replays"), exist_ok=True)
        path = os.path.join("replays", "%s-%s-%d-%d.json" % (self.pid, kind, self.seed, len(os.listdir(os.path.join(VERIF, "replays")))))
        with open(os.path.join(VERIF, path), "w") as fh:
            json.dump({"property": self.pid, "kind": kind, "what": what, "seed": self.seed, "tier": self.tier, **payload}, fh, indent=1, default=str)
        return path

    def finish(self, st, level_assumptions, rule, search=None):
        """st: build_and_audit status.  search: callable run when the proof or the correspondence is broken,
        returns a failing-input payload or None."""
        violations = []
        for k, (what, payload) in enumerate(self.prop_fail[:3]):
            if k == 0:
                try:
                    small = shrink_case(self.pid, payload)
                except Exception:
                    small = None
                if small is not None:
                    violations.append((self.write_replay("failing-input", what + " [shrunk]", small), what, False))
                    continue
            violations.append((self.write_replay("failing-input", what, payload), what, False))
        broken = list(st["broken"]) + ["correspondence: " + w for w, _ in self.corr_fail[:5]]
        if not violations and broken:
            self.log("proof obligation or correspondence no longer checks: " + " || ".join(broken[:4]))
            found = None
            if search is not None:
                self.log("searching model and implementation for a concrete failing input ...")
                found = search()
            if found is not None:
                violations.append((self.write_replay("failing-input", found.get("what", "extended search"), found), found.get("what", ""), False))
            else:
                payload = {"unchecked": broken, "first_disagreement": self.corr_fail[0][1] if self.corr_fail else None}
                violations.append((self.write_replay("proof" if st["broken"] else "correspondence", broken[0], payload), broken[0], True))
        for k, v in sorted(self.known_seen.items()):
            print("KNOWN-FINDING: property=%s %s" % (self.pid, v))
        wall = time.time() - self.t0
        n_obl = len(st["obligations"])
        ev = {
            "property_id": self.pid, "tier": self.tier, "seed": self.seed, "level": "proof",
            "coverage": {
                "obligations": max(n_obl, 1), "discharged": len(st["discharged"]),
                "checker_cmd": "cd lean && lake build Labella.Props.%s && lake env lean <#print axioms of every theorem in Props/%s.lean>" % (self.pid, self.pid),
                "trusted_base": ["Lean 4.33 kernel", "axioms: " + ", ".join(sorted({a for v in st["axioms"].values() for a in v}) or ["none"]),
                                 "harness/extract_constants.py (translator for literals)", "correspondence harness + lean/Driver.lean (line protocol)"] + level_assumptions,
                "theorems": st["obligations"], "axioms_per_theorem": st["axioms"],
                "translator": st["constants"], "proof_build": st["build"],
                "evaluations": self.evaluations, "distinct_nontrivial": len(self.nontrivial), "rule": rule,
                "samples": self.samples, "traces_validated_against_impl": self.evaluations,
                "distribution": self.dist, "ties_not_judged": self.ties,
                "correspondence_failures": len(self.corr_fail), "known_findings_seen": sorted(self.known_seen),
                **self.extra,
            },
            "assumptions": level_assumptions,
            "wall_s": round(wall, 2),
            "violations": len(violations),
        }
        os.makedirs(os.path.join(VERIF, "evidence"), exist_ok=True)
        with open(os.environ.get("VERIF_EVIDENCE_OUT") or os.path.join(VERIF, "evidence", self.pid + ".json"), "w") as fh:
            json.dump(ev, fh, indent=1, default=str)
        for path, what, nofound in violations[:3]:
            print("VIOLATION property=%s replay=%s%s" % (self.pid, path, " no-failing-input-found" if nofound else ""))
            print("  (%s)" % what[:300])
        print("%s %s: %d cases (%d distinct non-trivial), %d/%d obligations discharged, %.1fs -> %s" % (
            self.pid, self.tier, self.evaluations, len(self.nontrivial), len(st["discharged"]), n_obl, wall,
            "VIOLATION" if violations else "ok"))
        return 1 if violations else 0


# ---------------------------------------------------------------------------------------------------- shrinking a failing input
SHRINK_FIELDS = {       # case kind -> paths of the lists that may lose elements (the replay must still exit 1)
    "layer": [("items",)], "force-layer": [("labels",)], "force": [("labels",)], "dist": [("labels",)],
    "history": [("ops",)], "history-layer": [("ops",)], "ehist": [("ops",)], "perm": [("labels",)],
    "lhist": [("ops",)], "lticks-history": [("ops",), ("later",)], "tticks-history": [("ops",)], "tscale-history": [("ops",)],
    "timeline": [("spec", "data")], "dag": [("inst", "cs")], "chain": [("inst", "cs")], "cyclic": [("inst", "cs")], "ties": [("inst", "cs")],
}


def _get(d, path):
    for k in path:
        d = d[k]
    return d


def _with(d, path, value):
    d = json.loads(json.dumps(d, default=str))
    t = d
    for k in path[:-1]:
        t = t[k]
    t[path[-1]] = value
    return d


def shrink_case(pid, payload, budget_s=45, max_evals=60):
    """delta debugging on the list-valued parts of a failing case: a candidate is kept when `./check pid --replay candidate` still exits 1
    (the replay path re-runs the real code and the Lean predicates on exactly that case).  Returns the shrunk payload or None."""
    case = payload.get("case") or {}
    paths = SHRINK_FIELDS.get(case.get("kind"))
    if not paths or os.environ.get("VERIF_SHRINK") == "0":
        return None
    t0 = time.time()
    evals = [0]
    tmp = os.path.join(VERIF, "replays", ".shrink-%s-%d.json" % (pid, os.getpid()))

    def still_fails(c):
        if evals[0] >= max_evals or time.time() - t0 > budget_s:
            return False
        evals[0] += 1
        with open(tmp, "w") as fh:
            json.dump({"property": pid, "case": c}, fh, default=str)
        try:
            r = subprocess.run([os.path.join(VERIF, "check"), pid, "--replay", tmp], capture_output=True, text=True, timeout=60,
                               env=dict(os.environ, VERIF_SKIP_AUDIT="1"))
            return r.returncode == 1
        except Exception:
            return False

    best = json.loads(json.dumps(case, default=str))
    if not still_fails(best):          # the replay path does not reproduce it (e.g. a sequence-dependent failure): leave it alone
        if os.path.exists(tmp):
            os.unlink(tmp)
        return None
    before = {"/".join(p): len(_get(best, p)) for p in paths if isinstance(_get(best, p), list)}
    for path in paths:
        try:
            items = _get(best, path)
        except (KeyError, TypeError):
            continue
        if not isinstance(items, list):
            continue
        keep_head = 3 if path == ("ops",) and best.get("kind") in ("history", "history-layer", "ehist") else (1 if path == ("ops",) else 0)
        head, items = items[:keep_head], items[keep_head:]
        n = 2
        while len(items) >= 2 and evals[0] < max_evals and time.time() - t0 <= budget_s:
            chunk = max(1, len(items) // n)
            reduced = False
            for i in range(0, len(items), chunk):
                cand = items[:i] + items[i + chunk:]
                if cand and still_fails(_with(best, path, head + cand)):
                    items, n, reduced = cand, max(n - 1, 2), True
                    best = _with(best, path, head + items)
                    break
            if not reduced:
                if chunk == 1:
                    break
                n = min(len(items), n * 2)
    if os.path.exists(tmp):
        os.unlink(tmp)
    after = {"/".join(p): len(_get(best, p)) for p in paths if isinstance(_get(best, p), list)}
    if after == before:
        return None
    out = dict(payload)
    out["case"] = best
    out["shrunk"] = {"from": before, "to": after, "replays_run": evals[0], "note": "driver_line / driver_answer below belong to the unshrunk case; re-run with --replay for the shrunk one"}
    return out


def rng_for(seed, salt):
    return random.Random("%s/%s" % (seed, salt))


def add_impl_coverage(pid, cov):
    """append statement / branch coverage of /repo/labella (measured with coverage.py during this run, in-process part only) to the
    evidence file: shows how much of the code the correspondence actually drove"""
    path = os.environ.get("VERIF_EVIDENCE_OUT") or os.path.join(VERIF, "evidence", pid + ".json")
    try:
        with open(path) as fh:
            ev = json.load(fh)
        out = {}
        data = cov.get_data()
        for f in sorted(data.measured_files()):
            _, stmts, _, missing, _ = cov.analysis2(f)
            arcs = data.arcs(f) or []
            if len(stmts) - len(missing) <= len([1 for _ in ()]) + 8:      # only imported, not driven, by this check
                continue
            out[os.path.relpath(f, REPO)] = {"statements": len(stmts), "executed": len(stmts) - len(missing),
                                             "missing_lines": missing[:60], "arcs_executed": len(arcs)}
        ev["coverage"]["impl_code_coverage"] = out
        with open(path, "w") as fh:
            json.dump(ev, fh, indent=1, default=str)
    except Exception as e:      # never let the measurement change a verdict
        print("  | coverage summary not written: %s" % e)
