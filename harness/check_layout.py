"""C01, C02, C03: one layer at a time (removeOverlap + vpsc) and whole engine runs, float and exact mode."""
import json
import common
from common import Report, build_and_audit, drive, fields, rng_for, load_known, leanchecker
import gen_layout as G

ASSUME = [
    "modelled, not verified: IEEE-754 double arithmetic of the solver (float mode tolerance 1e-6 on unrounded positions, 1/2+1e-6 on rounded ones); Python round() = half-even; list.sort stable",
    "exact mode coerces numbers to Fraction at vpsc.Variable.__init__ (harness-side wrapper); float mode runs the code unpatched",
    "observation through harness-side wrappers of removeOverlap.removeOverlap and vpsc.Solver.solve (no repository hooks)",
]
RULE = ("corpus of directed layers first (D1 family, F2, exact fit, infeasible walls), then random layers (positions: integers/halves/quarters/doubles/"
        "clusters/ties/D1-like; widths; stubs; bounds omitted/None/roomy/exact/short/gross) and whole Force runs whose every removeOverlap call is captured; "
        "each case in float and in exact mode; non-trivial = at least two items pooled into one block, or a wall/bound active, or more than one layer; distinct by canonical driver line")


def judge(pid, f):
    # c01x (separation of the *unrounded* solver positions) belongs to the tie: the property speaks about reported positions
    corr = all(f.get(k) == "ok" for k in ("order", "pos", "xs", "c01x"))
    known = None
    if pid == "C01":
        prop = f["c01"] == "ok" and f["pairs"] in ("ok", "f2")
        if f["pairs"] == "f2":
            known = "F2"
    elif pid == "C02":
        prop = f["c02"] in ("ok", "na")
    else:
        prop = f["c03"] == "ok"
    return corr, prop, known


def cases(tier, seed, nlayers, nforce, rep):
    import impl_layout as I
    out = []  # (line, meta)
    for name, items, opts in G.CORPUS_LAYERS:
        for mode in ("float", "exact"):
            out.append((I.run_layer(items, opts, mode), {"kind": "layer", "corpus": name, "items": items, "opts": opts, "mode": mode}))
    rng = rng_for(seed, "layout-layers")
    for k in range(nlayers):
        items, opts = G.gen_layer(rng, tier)
        mode = "exact" if k % 2 else "float"
        meta = {"kind": "layer", "items": items, "opts": opts, "mode": mode}
        if k % 8 == 5:
            # a "twin" layer is laid out first in the same process: the same targets, widths and options, but other items are stubs (all are labels /
            # the flags are inverted) — a layer's result depends on which of ITS items are stubs, and on nothing a previous call left behind
            twin = [(t, w, (not sflag) if k % 16 == 5 else False) for t, w, sflag in items]
            meta["twin"] = twin
            try:
                I.run_layer(twin, opts, mode)
            except Exception:
                pass
        out.append((I.run_layer(items, opts, mode), meta))
    rng = rng_for(seed, "layout-force")
    for k in range(nforce):
        labels, span = G.gen_labels(rng, tier)
        opts = G.gen_force_opts(rng, labels, span)
        mode = "exact" if k % 2 and len(labels) <= 60 else "float"
        try:
            fl, lls, _, _ = I.run_force(labels, opts, mode)
        except RecursionError:
            rep.count("recursion-error(F3)")
            continue
        except Exception as e:
            rep.prop_fail.append(("Force.compute raised %s: %s" % (type(e).__name__, e), {"case": {"kind": "force-layer", "labels": labels, "opts": opts, "mode": mode, "layer": 0}}))
            continue
        rep.count("force-layers=%d" % min(len(lls), 4))
        for j, l in enumerate(lls):
            out.append((l, {"kind": "force-layer", "labels": labels, "opts": opts, "mode": mode, "layer": j}))
    # engine histories: nodes that carry positions / stubs / layer numbers of an earlier layout are laid out again (same engine
    # re-configured, nodes registered again, handed to a fresh engine): every removeOverlap call of every compute is judged
    import check_engine as E
    rng = rng_for(seed, "layout-history")
    for k in range(max(1, nforce // 3)):
        ops, labelsA, o = E.gen_history(rng, tier)
        mode = "exact" if k % 2 else "float"
        try:
            res = I.run_history(ops, mode, want_layer_lines=True)
        except RecursionError:
            rep.count("recursion-error(F3)")
            continue
        except Exception as e:
            rep.prop_fail.append(("Force.compute raised %s in a history: %s" % (type(e).__name__, e), {"case": {"kind": "history-layer", "ops": ops, "mode": mode, "compute_no": 0, "layer": 0}}))
            continue
        for c, r in enumerate(res):
            for j, l in enumerate(r[4]):
                out.append((l, {"kind": "history-layer", "ops": ops, "mode": mode, "compute_no": c, "layer": j}))
                rep.count("history-layer compute_no=%d" % min(c, 3))
    return out


def run(pid, tier, seed, replay=None):
    rep = Report(pid, tier, seed)
    st = build_and_audit(pid, rep.log)
    known = {k["id"]: k for k in load_known()["known"] if k["property"] == pid}
    if replay:
        with open(replay) as fh:
            r = json.load(fh)
        import impl_layout as I
        m = r["case"]
        if m["kind"] == "layer":
            if m.get("twin"):
                try:
                    I.run_layer([tuple(x) for x in m["twin"]], m["opts"], m["mode"])
                except Exception:
                    pass
            line = I.run_layer([tuple(x) for x in m["items"]], m["opts"], m["mode"])
        elif m["kind"] == "history-layer":
            res = I.run_history([tuple(o) for o in m["ops"]], m["mode"], want_layer_lines=True)
            line = res[m["compute_no"]][4][m["layer"]]
        else:
            _, lls, _, _ = I.run_force([tuple(x) for x in m["labels"]], m["opts"], m["mode"])
            line = lls[m["layer"]]
        ans = drive([line])[0]
        corr, prop, kn = judge(pid, fields(ans))
        print("replay:", ans)
        print("VIOLATION property=%s replay=%s" % (pid, replay) if not (corr and prop) or kn else "replay: property holds on this input now")
        return 1 if not (corr and prop) else 0
    nl, nf = (1200, 300) if tier == "quick" else tuple(common.count(tier, 0, x) for x in (6000, 1500))

    def explore(nl, nf, seed, only_prop=False):
        cs = cases(tier, seed, nl, nf, rep)
        answers = drive([c[0] for c in cs])
        for (line, meta), ans in zip(cs, answers):
            f = fields(ans)
            corr, prop, kn = judge(pid, f)
            nb, n = f["blocks"].split("/")
            rep.case(line, nontrivial=(nb != n) or f["fits"] == "0", sample={"case": meta, "driver": ans} if len(rep.samples) < 4 else None)
            rep.count("mode=" + meta["mode"]); rep.count("kind=" + meta["kind"]); rep.count("fits=" + f["fits"])
            rep.count("pooled" if nb != n else "unpooled")
            rep.count("chain-model = general-solver-model: " + f.get("vpsc", "na"))
            if f.get("vpsc") == "fail":
                st["broken"].append("model inconsistency: the chain model and the transliterated general solver disagree on a layer instance")
            payload = {"case": meta, "driver_line": line, "driver_answer": ans}
            if f["model"] != "ok" or (pid in ("C02", "C03") and f["model3"] != "ok"):
                st["broken"].append("model-prop-fail: the proved predicate is false of the model's own output (constants changed?)")
                rep.prop_fail.append(("property predicate false on the model for this input", payload)) if False else None
            if kn and kn in known and prop:
                rep.known_seen[kn] = known[kn]["message"]
            elif kn and prop:
                prop = False
            if not prop:
                rep.prop_fail.append(("%s predicate false on the implementation's output: %s" % (pid, ans), payload))
            elif not corr and not only_prop:
                rep.corr_fail.append(("implementation and model disagree: %s" % ans, payload))
        return None

    explore(nl, nf, seed)

    def search():
        before = len(rep.prop_fail)
        explore(nl * 4, nf * 4, seed + 7919, only_prop=True)
        if len(rep.prop_fail) > before:
            what, payload = rep.prop_fail[before]
            del rep.prop_fail[before:]
            return {"what": what, **payload}
        return None

    if tier == "thorough" and not st["broken"]:
        if not leanchecker(pid, rep.log):
            st["broken"].append("leanchecker rejected the compiled proofs")
        rep.extra["leanchecker"] = "ok" if not st["broken"] else "failed"
    return rep.finish(st, ASSUME, RULE, search)
