#!/venv/bin/python
"""fresh-process reference for one layout: read {"opts": {...}, "nodes": [[pos, width, i], ...]} (numbers as exact fraction strings) on stdin,
lay the nodes out with a new Force in THIS fresh interpreter (exact arithmetic) and print the observation rows.  Used to decide whether an
engine that disagrees with the model inside a long-running process does so because of what ran earlier in that process."""
import json, sys, os
from fractions import Fraction
sys.path.insert(0, os.path.dirname(os.path.abspath(__file__)))
import impl_layout as I

req = json.load(sys.stdin)
opts = {k: (v if k == "algorithm" or v is None else Fraction(v)) for k, v in req["opts"].items()}
opts.setdefault("density", Fraction(I.force_mod.DEFAULT_OPTIONS["density"]))
I._state["exact"] = True
try:
    eng = I.force_mod.Force(opts)
    if req["nodes"]:
        eng.nodes([I.Node(Fraction(p), Fraction(w), data={"i": i}) for p, w, i in req["nodes"]])
    eng.compute()
    print(I._obs_rows(eng))
finally:
    I._state["exact"] = False
