#!/usr/bin/env python3
"""regenerate the seeded-change table of DESIGN.md (section 6) from seeded/*/meta.json"""
import glob, json, os, re
V = os.path.normpath(os.path.join(os.path.dirname(os.path.abspath(__file__)), ".."))
rows = []
for d in sorted(glob.glob(os.path.join(V, "seeded", "*"))):
    m = json.load(open(os.path.join(d, "meta.json")))
    ch = m.get("ran", {}).get("checks", {})
    fi = [p for p, v in sorted(ch.items()) if v == "VIOLATION (failing input)"]
    nf = [p for p, v in sorted(ch.items()) if v.startswith("VIOLATION (no-failing")]
    ok = [p for p, v in sorted(ch.items()) if v == "ok"]
    own = ch.get(m["property"], "not run")
    rows.append("| `%s` | %s | %s | %s | %s | %s |" % (
        os.path.basename(d), m["summary"].replace("|", "/")[:150], m["needs"].replace("|", "/")[:150],
        " ".join(fi) or "—", " ".join(nf) or "—", "**%s**" % own.replace("VIOLATION ", "")))
table = ("| seed | change | needs | checks reporting a failing input | checks reporting `no-failing-input-found` | own property's check |\n|---|---|---|---|---|---|\n" + "\n".join(rows))
p = os.path.join(V, "DESIGN.md")
s = open(p).read()
B, E = "<!-- SEEDED_TABLE_BEGIN -->", "<!-- SEEDED_TABLE_END -->"
if B in s:
    s = re.sub(re.escape(B) + ".*?" + re.escape(E), lambda _: B + "\n" + table + "\n" + E, s, flags=re.S)
else:
    s = s.replace("SEEDED_TABLE", B + "\n" + table + "\n" + E)
open(p, "w").write(s)
print(len(rows), "rows")
