"""Timeline specifications (JSON-able) and their construction through the real API.
A spec is plain data so that the same timeline can be rebuilt in another process (C10) or time zone (C18)."""
import copy, sys
from datetime import datetime, date, time as dtime, timedelta
from fractions import Fraction

EPOCH = datetime(1970, 1, 1)
MS = timedelta(milliseconds=1)
DAY = 86400000
TEXTS = ["plain", "a<b & \"c\" 'd' >e", "é ü ñ ç Å", "漢字かな", "emoji 😀", "x", "A longer label text", "ş̌", "{tex} \\ $ % # _ ^ ~", "ﬁ…½"]
COLORS = ["#222", "#abc", "#A1b2C3", "1f77b4", "fff", "#000000"]


def to_dt(ms):
    return EPOCH + timedelta(milliseconds=ms)


def to_ms(d):
    return (d - EPOCH) // MS


def gen_spec(rng, tier="quick", for_crash=False, anchor=None):
    """anchor = (year, month, day): a date / datetime timeline whose earliest or latest datum is that calendar day (several timelines of one
    process then have domain ends — and the instants the axis code probes around them — in common, at different spans and tick units)"""
    kind = rng.choice(["datetime", "datetime", "date", "number", "number"] + (["time"] if for_crash else []))
    if anchor is not None:
        kind = rng.choice(["datetime", "date"])
    n = rng.choice([1, 2, 3, 4, 6, 8, 12, 18, 25] + ([40, 80] if tier != "quick" else []))
    if for_crash and rng.random() < 0.1:
        n = rng.choice([1, 1, 2])
    data = []
    if kind == "number":
        base = rng.choice([0, 100, -50, 1990, 1e6])
        span = rng.choice([1, 10, 37.5, 100, 1e4, 0.01])
        ts = [base + rng.choice([rng.random(), rng.randint(0, 10) / 10]) * span for _ in range(n)]
    elif kind == "date":
        y = rng.randint(1900, 2190)
        d0 = date(y, rng.randint(1, 12), rng.randint(1, 28))
        span = rng.choice([3, 30, 100, 365, 3000, 30000])
        ts = [(d0 + timedelta(days=rng.randint(0, span))).isoformat() for _ in range(n)]
    elif kind == "time":
        ts = [[rng.randint(0, 23), rng.randint(0, 59), rng.randint(0, 59)] for _ in range(n)]
    else:
        y = rng.randint(1900, 2190)
        t0 = to_ms(datetime(y, rng.randint(1, 12), rng.randint(1, 28))) + rng.randint(0, DAY - 1)
        span = int(10 ** rng.uniform(1, 11.5)) if rng.random() < 0.8 else rng.choice([1, 5, 999, 86400000, 31 * 86400000])
        ts = [t0 + rng.randint(0, span) for _ in range(n)]
        if rng.random() < 0.3:
            ts = [t // 1000 * 1000 for t in ts]
    if kind in ("date", "datetime") and (anchor is not None or rng.random() < 0.3):
        # calendar edges: the earliest or the latest datum is a month end / leap day / year end, at spans that select day, month and
        # year ticks (the code steps such dates by months and years when it makes the axis domain nice and enumerates ticks)
        y = rng.choice([1904, 1996, 2000, 2020, 2024, 2100, rng.randint(1900, 2190)])
        leap = y % 4 == 0 and (y % 100 != 0 or y % 400 == 0)
        mo, dd = rng.choice([(1, 29), (1, 30), (1, 31), (3, 31), (5, 31), (8, 31), (10, 31), (12, 31), (2, 29 if leap else 28), (2, 28), (1, 1), (3, 1)])
        if anchor is not None:
            y, mo, dd = anchor
        a = datetime(y, mo, dd)
        spans = rng.choice([1, 2, 7, 20, 31, 59, 150, 300, 365, 366, 800, 2000, 5000, 20000])
        edge_last = rng.random() < 0.6
        days = [rng.randint(0, spans) for _ in range(max(0, n - 1))] + [0]
        if anchor is not None:
            # spans that select DIFFERENT tick units with the SAME step (5 s / 5 min / 5 years; 3 h / 3 months; 2 days / 2 years), the far end exactly one span away
            spans = rng.choice([15, 20, 31, 5000, 7000, 1, 800, 20000] + ([0.0006, 0.02, 0.06] if kind == "datetime" else [2000, 150]))
            days = [rng.uniform(0, spans) if kind == "datetime" else rng.randint(0, int(spans)) for _ in range(max(0, n - 2))] + [spans, 0]
        ds = [a - timedelta(days=k) if edge_last else a + timedelta(days=k) for k in days]
        ds = [d for d in ds if 1900 <= d.year <= 2199] or [a]
        if kind == "date":
            ts = [d.date().isoformat() for d in ds]
        else:
            tod = rng.choice([0, 0, 1, 43200000, DAY - 1, rng.randint(0, DAY - 1)]) if anchor is None else rng.choice([0, 0, 0, 1, DAY - 1])
            ts = [to_ms(d) + (tod if k == len(ds) - 1 else rng.choice([0, rng.randint(0, DAY - 1)])) for k, d in enumerate(ds)]
    micro = None
    if kind == "datetime" and rng.random() < 0.12:
        # a burst of events a few milliseconds apart whose times carry microseconds (eighths of a millisecond), on an explicit axis
        # domain with whole-millisecond ends: the dots must sit at the affine image of the time exactly as supplied
        y = rng.randint(1900, 2190)
        t0 = to_ms(datetime(y, rng.randint(1, 12), rng.randint(1, 28))) + rng.randint(0, DAY - 1)
        span = rng.choice([3, 20, 250, 1500])
        ts = [t0 + rng.randint(0, span * 8) / 8 for _ in range(n)]
        micro = [t0 - 1, t0 + span + 1]
    if for_crash and rng.random() < 0.15:
        ts = [ts[0]] * n                          # all data at the same time: degenerate domain
        if kind == "datetime" and rng.random() < 0.5:
            ts = [int(ts[0]) + rng.choice([0.125, 0.5, 0.875, 0.999])] * n      # … at an instant that carries microseconds
            micro = None
    if rng.random() < 0.5:
        rng.shuffle(ts)
    scale_used = rng.choice([20, 3, 50]) if (kind == "number" and rng.random() < 0.2) else None
    for t in ts:
        d = {"time": t, "width": rng.choice([50, 30, 20, 80, 12.5, 5, rng.randint(5, 120)] + ([100 / 3, 37.123456789, 0.1 + 0.2 + 20] if rng.random() < 0.3 else []))}
        if rng.random() < 0.5:
            d["text"] = rng.choice(TEXTS)
        if for_crash and rng.random() < 0.04:
            d["width"] = rng.choice([0, 0.0])          # an explicit width of zero is an explicit width
        data.append(d)
    o = {}
    if rng.random() < 0.8:
        o["direction"] = rng.choice(["up", "down", "left", "right"])
    if rng.random() < 0.5:
        o["initialWidth"] = rng.choice([400, 300, 804, 1000, 250.5])
    if rng.random() < 0.5:
        o["initialHeight"] = rng.choice([400, 300, 600, 120])
    if rng.random() < 0.3:
        o["margin"] = {"left": rng.choice([20, 0, 40, 7]), "right": rng.choice([20, 0, 11]), "top": rng.choice([20, 0, 33]), "bottom": rng.choice([20, 5])}
    if rng.random() < 0.4:
        o["layerGap"] = rng.choice([60, 1, 10, 25.5, 100, 6, 3])
    if rng.random() < 0.3:
        o["labelPadding"] = {"left": rng.choice([2, 0, 5, 8]), "right": rng.choice([2, 0, 4.5, 8]), "top": rng.choice([3, 0, 1, 9]), "bottom": rng.choice([2, 0, 6, 9])}
    if rng.random() < 0.3:
        o["dotRadius"] = rng.choice([3, 1, 5.5])
    lab = {}
    if rng.random() < 0.5:
        lab["nodeSpacing"] = rng.choice([3, 3, 4, 10, 3.5] + ([0, 1, 2.5] if rng.random() < 0.3 else []))
    if rng.random() < 0.5:
        lab["maxPos"] = rng.choice([None, 360, 260, 200, 120, 60, 960])
    if rng.random() < 0.2:
        lab["minPos"] = rng.choice([0, None, 10, -20])
    if rng.random() < 0.06:     # equal bounds: a zero-width layer
        lab["maxPos"] = lab.get("minPos", 0) if lab.get("minPos", 0) is not None else 0
    if rng.random() < 0.4:
        lab["algorithm"] = rng.choice(["overlap", "simple", "none"])
    if rng.random() < 0.2:
        lab["density"] = rng.choice([0.85, 0.5, 1])
    if rng.random() < 0.2:
        lab["stubWidth"] = rng.choice([1, 2, 0])
    if rng.random() < 0.15:
        lab["lineSpacing"] = rng.choice([2, 14, 0, 5])
    if rng.random() < 0.12:
        # labella.js keeps the renderer's settings with the engine's; scripts ported from it (examples/timeline_up.py) pass them here, where they have
        # no meaning: the layer thickness is the thickest padded label and the gap is the timeline's own `layerGap`
        lab["nodeHeight"] = rng.choice([12, 10, 4, 30])
        if rng.random() < 0.3:
            lab["layerGap"] = rng.choice([5, 100])
    if lab or rng.random() < 0.3:
        o["labella"] = lab
    if rng.random() < 0.25:
        o["showTicks"] = rng.random() < 0.5
    if rng.random() < 0.3:
        o["showBorder"] = rng.random() < 0.6
    for k in ("dotColor", "linkColor", "labelBgColor", "labelTextColor", "borderColor"):
        c = rng.random()
        if c < 0.15:
            o[k] = rng.choice(COLORS)
        elif c < 0.25:
            o[k] = [rng.choice(COLORS) for _ in range(rng.randint(1, 4))]
        elif c < 0.3:
            o[k] = {"fn": [rng.choice(COLORS), rng.choice(COLORS)]}     # a function of the datum (by width parity)
    if rng.random() < 0.2:
        o["latex"] = {k: v for k, v in {"tickCross": rng.random() < 0.5, "linkThickness": rng.choice(["thin", "very thick"]),
                                        "borderThickness": rng.choice(["thin", "very thick", "ultra thick"]), "axisThickness": rng.choice(["thick", "very thick"]),
                                        "tickThickness": rng.choice(["thin", "thick"]),
                                        "reproducible": rng.random() < 0.5, "fontsize": rng.choice(["11pt", "10pt"]),
                                        "preamble": rng.choice(["", "\\usepackage{lmodern}"])}.items() if rng.random() < 0.6}
    if rng.random() < 0.1:
        o["textXOffset"] = rng.choice(["0.15em", "0.3em"])
    if rng.random() < 0.1:
        o["textYOffset"] = rng.choice(["0.85em", "1em"])
    if rng.random() < 0.15:      # the text of a label comes from a caller-supplied function of the datum (or from the "text" key when None)
        o["textFn"] = rng.choice([None, {"fn": "upper"}, {"fn": "bracket"}])
    if kind != "time" and rng.random() < 0.2:   # explicit domain covering the data
        if kind == "number":
            o["domain"] = [min(ts) - 1, max(ts) + 2.5]
        elif kind == "date":
            lo = min(date.fromisoformat(t) for t in ts); hi = max(date.fromisoformat(t) for t in ts)
            o["domain"] = [to_ms(datetime(lo.year, lo.month, lo.day)) - DAY, to_ms(datetime(hi.year, hi.month, hi.day)) + 3 * DAY]
        else:
            o["domain"] = [min(ts) - 5000, max(ts) + 86400000]
    if micro is not None and kind == "datetime":
        import math
        o["domain"] = [min(micro[0], math.floor(min(ts))), max(micro[1], math.ceil(max(ts)))]
    opt_mode = "given"
    if for_crash:
        opt_mode = rng.choice(["given", "given", "none", "empty", "omitted"])
    out = {"kind": kind, "data": data, "options": o, "opt_mode": opt_mode}
    if scale_used:
        out["scale_used"] = scale_used
    return out


TEXT_FNS = {"upper": lambda d: d["text"].upper() if "text" in d else None,
            "bracket": lambda d: "[" + d["text"] + "]" if d.get("text") else None}


def text_of(spec, d):
    """the text the label of datum `d` must show: the "text" key, or what the caller's textFn makes of the datum"""
    fn = (spec.get("options") or {}).get("textFn") if spec.get("opt_mode", "given") == "given" or spec["kind"] == "number" else None
    if isinstance(fn, dict):
        return TEXT_FNS[fn["fn"]](d)
    return d.get("text")


def gen_dyadic_spec(rng):
    """a timeline all of whose numbers are dyadic rationals of moderate size and whose scale is the identity (numeric times on [0, 1024], the axis
    1024 units long): the floating-point run then makes exactly the decisions exact arithmetic makes (sums and products of such numbers are
    exact; a quotient is rounded only when it is not representable, and then it is not on a rounding tie), so the WHOLE pipeline can be compared
    for equality with the composed model `Pipeline.drawn`"""
    n = rng.choice([1, 2, 3, 5, 8, 12, 18, 25])
    style = rng.choice(["spread", "cluster", "ties"])
    if style == "spread":
        ts = [rng.randint(0, 8192) / 8 for _ in range(n)]
    elif style == "cluster":
        c = rng.randint(100, 900)
        ts = [c + rng.randint(-160, 160) / 8 if rng.random() < 0.8 else rng.randint(0, 8192) / 8 for _ in range(n)]
    else:
        base = [rng.randint(0, 1024) for _ in range(max(1, n // 3))]
        ts = [rng.choice(base) for _ in range(n)]
    data = [{"time": float(t), "width": rng.choice([50, 30, 20, 80, 12.5, 5, 7.25, rng.randint(5, 120)])} for t in ts]
    direction = rng.choice(["up", "down", "left", "right"])
    o = {"direction": direction, "domain": [0, 1024], "margin": {"left": 20, "right": 20, "top": 20, "bottom": 20},
         "initialWidth": 1064, "initialHeight": 1064, "layerGap": rng.choice([60, 1, 10, 25.5, 6, 3])}
    if rng.random() < 0.5:
        o["labelPadding"] = {"left": rng.choice([2, 0, 5, 8]), "right": rng.choice([2, 0, 4.5, 8]), "top": rng.choice([3, 0, 1, 9]), "bottom": rng.choice([2, 0, 6, 9])}
    lab = {}
    if rng.random() < 0.6:
        lab["nodeSpacing"] = rng.choice([3, 3, 4, 10, 3.5, 0, 1, 2.5])
    if rng.random() < 0.7:
        lab["maxPos"] = rng.choice([None, 360, 260, 200, 120, 60, 960, 1024])
    if rng.random() < 0.2:
        lab["minPos"] = rng.choice([0, None, 10, -20])
    if rng.random() < 0.5:
        lab["algorithm"] = rng.choice(["overlap", "simple", "none"])
    # always a dyadic density: with the default 0.85 the product density * layerWidth is rounded (0.85 * 200 is 170.0 in floating point and a
    # hair less exactly), and a layer that needs exactly 170 then fits in one world and not in the other
    lab["density"] = rng.choice([0.75, 0.75, 0.5, 1])
    if rng.random() < 0.3:
        lab["stubWidth"] = rng.choice([1, 2, 0])
    if rng.random() < 0.2:
        lab["lineSpacing"] = rng.choice([2, 14, 0, 5])
    o["labella"] = lab
    o["showTicks"] = False
    return {"kind": "number", "data": data, "options": o, "opt_mode": "given", "dyadic": True}


def build_args(spec):
    """fresh (data dicts, options dict) for one construction — the constructors mutate both"""
    from labella.scale import LinearScale
    kind = spec["kind"]
    data = []
    for d in spec["data"]:
        e = dict(d)
        t = e["time"]
        if kind == "date":
            e["time"] = date.fromisoformat(t)
        elif kind == "datetime":
            e["time"] = to_dt(t)
        elif kind == "time":
            e["time"] = dtime(*t)
        data.append(e)
    o = copy.deepcopy(spec["options"])
    for k in ("dotColor", "linkColor", "labelBgColor", "labelTextColor", "borderColor"):
        if isinstance(o.get(k), dict):
            a, b = o[k]["fn"]
            o[k] = (lambda a, b: (lambda d: a if int(d["width"]) % 2 == 0 else b))(a, b)
    if isinstance(o.get("textFn"), dict):
        o["textFn"] = TEXT_FNS[o["textFn"]["fn"]]
    if kind == "number":
        o["scale"] = LinearScale()
        if spec.get("scale_used"):
            # the caller has used this scale object before (asked it for ticks with a count of its own) — what it was asked before is no part of the picture
            o["scale"].domain([0, 1])
            list(o["scale"].ticks(spec["scale_used"]))
            o["scale"].tickFormat(spec["scale_used"])
    if "domain" in o and kind != "number":
        o["domain"] = [to_dt(x) for x in o["domain"]]
    mode = spec.get("opt_mode", "given")
    if mode == "none" and kind != "number":
        return data, None
    if mode == "empty" and kind != "number":
        return data, {}
    if mode == "omitted" and kind != "number":
        return data, "omitted"
    return data, o


def construct(spec, backend):
    from labella.timeline import TimelineSVG, TimelineTex
    cls = TimelineSVG if backend == "svg" else TimelineTex
    data, o = build_args(spec)
    if o == "omitted":
        return cls(data)
    return cls(data, options=o)


def construct_sharing(spec, backend, other_spec):
    """construct `spec`'s timeline from an options dict that the caller then EDITS IN PLACE (to `other_spec`'s options) and uses again for a
    second timeline — one dict object, two constructor calls, changed in between.  Returns the first timeline."""
    from labella.timeline import TimelineSVG, TimelineTex
    cls = TimelineSVG if backend == "svg" else TimelineTex
    data, o = build_args(spec)
    if not isinstance(o, dict):
        return construct(spec, backend)
    tl = cls(data, options=o)
    data2, o2 = build_args(other_spec)
    if isinstance(o2, dict):
        for k in list(o):
            if k not in o2:
                del o[k]
        o.update(o2)
        try:
            cls(data2, options=o)
        except Exception:
            pass
    return tl


def export(tl):
    from labella.timeline import TimelineTex
    if isinstance(tl, TimelineTex):
        return tl.export()           # no filename: text only, no LaTeX run
    return tl.export()
