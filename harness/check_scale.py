"""C12 (linear scale), C13 (linear ticks), C14 (nice: linear and time)."""
import json, math, sys
import common
from common import Report, build_and_audit, drive, fields, rng_for, leanchecker, REPO, fr, time_limit

sys.path.insert(0, REPO)
ASSUME = ["modelled, not verified: IEEE-754 double arithmetic, math.log/floor/ceil/pow, str.format('.nf') — the model computes in exact rationals; relations carry explicit tolerances (1e-6 of a tick step for tick values, condition-number-scaled 1e-15 for scale values)",
          "float threshold ties of the tick-step selection (err within 1e-12 of 0.15/0.35/0.75) are counted and not judged"]
RULES = {
    "C12": "random finite float domains/ranges (either order, magnitudes 1e-6..1e9, clamped or not), queries inside/outside/at the end points; strict-monotonicity pairs; histories of <= 10 domain/range/clamp/nice/copy calls on a scale and its copies (nice results fed back stage-wise); non-trivial = history with a copy or nice, or a query off the end points; distinct by canonical line",
    "C13": "random float domains (spans 1e-9..1e12, at least 1e-6 of the magnitude), decimal-friendly domains (k, 2k, 5k times powers of ten), m in 1..100 and default; non-trivial = at least two ticks; distinct by canonical line",
    "C14": "linear: domains and counts as in C13; time: domains of ms resolution 1900-2200 with spans 10 ms..200 years, either orientation, default and explicit counts; non-trivial = nice moved an end; distinct by canonical line",
}


def rnd_mag(rng, lo=-6, hi=9):
    return rng.choice([-1, 1]) * 10 ** rng.uniform(lo, hi)


def gen_lin_domain(rng, near_degenerate=False):
    # C13/C14 quantify over spans of at least a millionth of the end points' magnitude; C12 over every a != b
    style = rng.random() * (1.0 if near_degenerate else 0.93)
    if style < 0.35:   # decimal friendly
        e = rng.randint(-6, 8)
        k = rng.choice([1, 2, 5]) * rng.randint(1, 40)
        a = rng.randint(-50, 50) * 10.0 ** e
        b = a + k * 10.0 ** e
    elif style < 0.7:
        a = rnd_mag(rng)
        span = 10 ** rng.uniform(-9, 12)
        span = max(span, abs(a) * 1e-6 * rng.choice([1.01, 10, 1000]))
        b = a + span
    elif style < 0.93:
        a = rng.choice([0, 0.0, 1, -1, 100, rng.randint(-1000, 1000)])
        b = a + rng.choice([1, 10, 0.1, 0.5, 3, 7, 12.5, 99, 1000, rng.uniform(0.001, 5000)])
    else:
        # nearly degenerate but NOT degenerate: the width is a few units in the last place up to 1e-7 of the magnitude
        # (sub-second time spans seen from the epoch look like this: [1e12, 1e12 + 250])
        import math
        a = rng.choice([1.0, 1e6, 1e9, 2.5e8, -1e9, 123456.789, rnd_mag(rng)]) or 1.0
        b = a + rng.choice([1, 2, 3, 17, 1000, 1e6]) * math.ulp(a) if rng.random() < 0.5 else a + abs(a) * 10 ** rng.uniform(-13, -7)
    if a == b:
        b = a + 1.0
    return (float(a), float(b)) if rng.random() < 0.8 else (float(b), float(a))


def gen_threshold_case(rng):
    """(a, b, m) whose tick-step error m / span * 10^k sits a little (0.2 … 2 %) above or below one of the three thresholds at which the step
    switches between 1, 2, 5 and 10 times a power of ten — where a misplaced or blurred threshold shows as one tick too few or too many"""
    m = rng.choice([rng.randint(2, 100), rng.choice([23, 30, 37, 44, 51, 58, 65, 72, 79, 86, 93, 99, 10, 5])])
    step0 = 10.0 ** rng.randint(-4, 5)
    thr = rng.choice([0.15, 0.35, 0.75])
    e = thr * (1 + rng.choice([-1, 1]) * rng.choice([0.002, 0.004, 0.008, 0.012, 0.02]))
    span = m * step0 / e
    a = rng.choice([0.1, 0.37, -2.6, 13.0, rng.uniform(-50, 50)]) * step0 * rng.choice([1, 1, 10])
    return a, a + span, m


def gen_epoch_case(rng):
    """(a, b, m): whole-number end points of the magnitude of epoch milliseconds a short whole-number span apart, with a count that gives a
    whole-number step — every value involved is exactly representable, so the answer is exact although the span is 1e-10 of the magnitude"""
    a = float(rng.choice([1700000001234, 946684800000, 1234567890123, -2208988800000]) + rng.randint(0, 999))
    span = float(rng.randint(20, 90) if rng.random() < 0.7 else rng.randint(30, 5000))     # steps 1, 2, 5 (last digit of a 13-digit number) and larger
    m = rng.choice([None, 10, 5, 3, 7])
    return (a, a + span, m) if rng.random() < 0.7 else (a + span, a, m)


def pick_m(rng):
    return rng.choice([None, 10, 1, 2, 3, 4, 5, 7, 8, 12, 20, 33, 50, 64, 99, 100, rng.randint(1, 100)])


# -------------------------------------------------------------------------------------------- C12
def body_c12(tier, seed, rep, only_prop=False, scale=1):
    from labella.scale import LinearScale
    rng = rng_for(seed, "c12")
    lines, metas = [], []
    n = common.count(tier, 5000, 50000) * scale
    for _ in range(n):
        a, b = gen_lin_domain(rng, near_degenerate=True)
        r0 = rng.choice([0.0, 0.0, -50.0, 12.5, rnd_mag(rng, -3, 6)])
        r1 = r0 + rng.choice([1, -1]) * rng.choice([100.0, 360.0, 1.0, 1000.0, 10 ** rng.uniform(-3, 6)])
        if rng.random() < 0.3:      # two unrelated end points (their difference is not representable: r0 + (r1 - r0) != r1 in floating point)
            r0 = rng.choice([rng.uniform(-1000, 1000), rnd_mag(rng, -6, 9), 733.81, 0.1])
            r1 = rng.choice([rng.uniform(-1000, 1000), rnd_mag(rng, -6, 9), -0.004, 0.7])
            if r1 == r0:
                r1 = r0 + 1.0
        c = rng.random() < 0.3
        if rng.random() < 0.2:
            c = int(c)                  # callers pass 0 / 1 (an option read from a file or a command line) as well as False / True
        s = LinearScale().domain([a, b]).range([r0, r1]).clamp(c)
        via = rng.choice(["call", "scale"])        # `s(x)` and `s.scale(x)` are the two public ways to apply a scale
        ev = s.scale if via == "scale" else s
        lo, hi = min(a, b), max(a, b)
        for x in (a, b, rng.uniform(lo, hi), hi + rng.uniform(0, 2) * (hi - lo), lo - rng.uniform(0, 2) * (hi - lo)):
            meta = {"kind": "lin", "a": a, "b": b, "r0": r0, "r1": r1, "clamp": c, "x": x, "via": via}
            try:
                y = ev(x)
                xinv = s.invert(y)
            except Exception as e:
                rep.prop_fail.append(("linear scale raised %s: %s" % (type(e).__name__, e), {"case": meta})); continue
            lines.append("lin|%s|%s|%s|%s|%s|%s|%s|%s" % (fr(bool(c)), fr(a), fr(b), fr(r0), fr(r1), fr(x), fr(y), fr(xinv))); metas.append(meta)
        x1, x2 = sorted([rng.uniform(lo - (hi - lo), hi + (hi - lo)), rng.uniform(lo - (hi - lo), hi + (hi - lo))])
        if x1 < x2 and not c:
            lines.append("linmono|%s|%s|%s|%s|%s|%s|%s|%s|%s" % (fr(bool(c)), fr(a), fr(b), fr(r0), fr(r1), fr(x1), fr(x2), fr(s(x1)), fr(s(x2))))
            metas.append({"kind": "linmono", "a": a, "b": b, "r0": r0, "r1": r1, "clamp": c, "x1": x1, "x2": x2})
    # histories over a scale and its copies
    for _ in range(common.count(tier, 2500, 30000) * scale):
        ops = gen_history(rng)
        try:
            line = run_history(ops)
        except Exception as e:
            rep.prop_fail.append(("history raised %s: %s" % (type(e).__name__, e), {"case": {"kind": "lhist", "ops": ops}})); continue
        lines.append(line); metas.append({"kind": "lhist", "ops": ops})
    answers = drive(lines)
    for line, meta, ans in zip(lines, metas, answers):
        f = fields(ans)
        payload = {"case": meta, "driver_line": line, "driver_answer": ans}
        k = meta["kind"]
        rep.count("kind=" + k)
        if k == "lin":
            rep.case(line, nontrivial=meta["x"] not in (meta["a"], meta["b"]), sample={"case": meta, "driver": ans} if len(rep.samples) < 2 else None)
            bad = [x for x in ("endpoints", "clamp", "back", "same") if f[x] != "ok"]
            if bad:   # the affine map through the end points is unique: being away from it beyond float error is the violation
                rep.prop_fail.append(("C12 %s: %s" % ("/".join(bad), ans), payload))
        elif k == "linmono":
            rep.case(line, nontrivial=f["judged"] == "1")
            if f["mono"] != "ok":
                rep.prop_fail.append(("C12 strict monotonicity: " + ans, payload))
        else:
            rep.case(line, nontrivial=any(o[0] in ("copy", "nice") for o in meta["ops"]), sample={"case": meta, "driver": ans} if len(rep.samples) < 5 else None)
            rep.count("legacyWouldBreak=" + f["legacyWouldBreak"])
            if f["model"] != "ok":
                rep.model_fail = True
            if f["coherent"] != "ok":
                rep.prop_fail.append(("C12 a scale no longer maps the end points of the domain it reports to the range it reports: " + ans, payload))
            elif f["same"] != "ok" and not only_prop:
                # reported state differs from the model's: e.g. a copy and its original influenced each other
                rep.prop_fail.append(("C12 reported domain/range/clamp after the history differ from the independent-objects model: " + ans, payload))


def run_tick_history(ops, m, later=()):
    """LinearScale driven through ops; returns (reported domain, ticks, texts) asked at the end with count m"""
    from labella.scale import LinearScale
    sc = LinearScale()
    for o in ops:
        if o[0] == "domain":
            sc.domain(list(o[1]))
        elif o[0] == "range":
            sc.range(list(o[1]))
        elif o[0] == "nice":
            sc.nice(o[1]) if o[1] is not None else sc.nice()
        elif o[0] == "ticks":
            got = sc.ticks(o[1]) if o[1] is not None else sc.ticks()
            if isinstance(got, list) and len(o) > 2 and o[2]:     # the caller edits the list it got back; later answers must not show it
                got.reverse(); del got[:1]; got.append(0.0)
            else:
                list(got)
        elif o[0] == "tickFormat":
            sc.tickFormat(o[1]) if o[1] is not None else sc.tickFormat()
        elif o[0] == "copy":
            sc = sc.copy()
    d = sc.domain()
    tk = list(sc.ticks(m)) if m is not None else list(sc.ticks())
    fmt = sc.tickFormat(m) if m is not None else sc.tickFormat()
    for m2 in later:        # other formatters are requested from the same scale before the first one is used
        sc.tickFormat(m2)
    return d, tk, [fmt(t) for t in tk]


def gen_history(rng):
    ops = []
    nobj = 1
    for _ in range(rng.randint(2, 10)):
        i = rng.randrange(nobj)
        c = rng.random()
        if c < 0.25:
            a, b = gen_lin_domain(rng)
            ops.append((rng.choice(["domain", "domain", "domain!"]), i, a, b))
        elif c < 0.4:
            r0 = rng.choice([0.0, -5.0, 100.0, rng.uniform(-1000, 1000)])
            # "range!" / "domain!": the caller changes the list object it passed before in place and passes it again
            ops.append((rng.choice(["range", "range", "range!"]), i, r0, r0 + rng.choice([-1, 1]) * rng.choice([1.0, 100.0, 360.0, rng.uniform(0.5, 5000)])))
        elif c < 0.5:
            ops.append(("clamp", i, rng.choice([True, False, True, False, 1, 0])))
        elif c < 0.66 and nobj > 1:
            # one scale is given the very list another scale's getter handed out (`b.domain(a.domain())`): values are taken, the list is not adopted
            ops.append(("domain-of", i, rng.randrange(nobj)))
        elif c < 0.75:
            ops.append(("nice", i, rng.choice([None, 10, 5, 2, 20, 7])))
        else:
            ops.append(("copy", i))
            nobj += 1
    return ops


def run_history(ops):
    from labella.scale import LinearScale
    objs = [LinearScale()]
    enc = []
    passed = {}      # (object, "domain"/"range") -> the list object the caller passed last

    def arg(i, what, a, b, reuse):
        lst = passed.get((i, what)) if reuse else None
        if lst is None:
            lst = [a, b]
        else:
            lst[0], lst[1] = a, b       # in-place change of the caller's own list, then passed again
        passed[(i, what)] = lst
        return lst

    for op in ops:
        s = objs[op[1]]
        if op[0] in ("domain", "domain!"):
            s.domain(arg(op[1], "domain", op[2], op[3], op[0].endswith("!"))); enc.append("domain:%d:%s:%s" % (op[1], fr(op[2]), fr(op[3])))
        elif op[0] in ("range", "range!"):
            s.range(arg(op[1], "range", op[2], op[3], op[0].endswith("!"))); enc.append("range:%d:%s:%s" % (op[1], fr(op[2]), fr(op[3])))
        elif op[0] == "domain-of":
            lst = objs[op[2]].domain()
            a, b = lst[0], lst[1]
            s.domain(lst); enc.append("domain:%d:%s:%s" % (op[1], fr(a), fr(b)))
        elif op[0] == "clamp":
            s.clamp(op[2]); enc.append("clamp:%d:%s" % (op[1], fr(bool(op[2]))))
        elif op[0] == "nice":
            s.nice(op[2]) if op[2] is not None else s.nice()
            d = s.domain()     # stage-wise: the model is told what nice produced (C14 judges nice itself)
            enc.append("inplace:%d:%s:%s" % (op[1], fr(d[0]), fr(d[1])))
        else:
            objs.append(s.copy()); enc.append("copy:%d" % op[1])
    obs = []
    for k, s in enumerate(objs):
        d, r = s.domain(), s.range()
        ev = s.scale if k % 2 else s         # the two public ways to apply a scale; the first evaluation after the history goes through either
        obs.append("%s:%s:%s:%s:%s:%s:%s" % (fr(d[0]), fr(d[1]), fr(r[0]), fr(r[1]), fr(bool(s.clamp())), fr(ev(d[0])), fr(ev(d[1]))))
    return "lhist|%s|%s" % (";".join(enc), ";".join(obs))


def apply_pre(s, pre):
    """what happens to COPIES of a scale (and read-only questions to the scale itself) before the judged call"""
    for op in pre or []:
        if op[0] == "copy-nice":
            s.copy().nice(op[1])
        elif op[0] == "copy-domain":
            s.copy().domain([op[1], op[2]])
        elif op[0] == "copy-ticks":
            list(s.copy().ticks(op[1]))
        elif op[0] == "ticks":
            list(s.ticks(op[1]))
        elif op[0] == "other-ticks":
            # an unrelated scale of the same kind, alive at the same time, is given its own domain and asked for ticks (with the count the
            # judged call will use)
            import check_time as T
            o = type(s)()
            o.domain([op[1], op[2]] if not op[4] else [T.to_dt(op[1]), T.to_dt(op[2])])
            list(o.ticks(op[3])) if op[3] is not None else list(o.ticks())


# -------------------------------------------------------------------------------------------- C13
def body_c13(tier, seed, rep, only_prop=False, scale=1):
    from labella.scale import LinearScale
    rng = rng_for(seed, "c13")
    lines, metas = [], []
    for _ in range(common.count(tier, 9000, 150000) * scale):
        a, b = gen_lin_domain(rng)
        m = pick_m(rng)
        if rng.random() < 0.08:
            a, b, m = gen_threshold_case(rng)
        elif rng.random() < 0.05:
            a, b, m = gen_epoch_case(rng)
        meta = {"kind": "lticks", "a": a, "b": b, "m": m}
        try:
          with time_limit(10):
            s = LinearScale().domain([a, b])
            tk = list(s.ticks(m)) if m is not None else list(s.ticks())
            fmt = s.tickFormat(m) if m is not None else s.tickFormat()
            texts = [fmt(t) for t in tk]
        except Exception as e:
            rep.prop_fail.append(("ticks/tickFormat raised %s: %s" % (type(e).__name__, e), {"case": meta})); continue
        lines.append("lticks|%s|%s|%s|%s|%s" % (fr(a), fr(b), fr(10 if m is None else m), ",".join(fr(t) for t in tk), ";".join(texts))); metas.append(meta)
    # the ticks must be those of the domain the scale reports NOW: ask the same object (and its copies) again after its domain was
    # changed by domain(), nice() or through a copy, with ticks()/tickFormat() calls in between
    for _ in range(common.count(tier, 1500, 20000) * scale):
        a, b = gen_lin_domain(rng)
        ops = [("domain", [a, b])]
        for _k in range(rng.randint(1, 5)):
            c = rng.random()
            if c < 0.3:
                ops.append(("ticks", pick_m(rng), rng.random() < 0.5))
            elif c < 0.4:
                ops.append(("tickFormat", pick_m(rng)))
            elif c < 0.65:
                ops.append(("nice", pick_m(rng)))
            elif c < 0.8:
                ops.append(("domain", list(gen_lin_domain(rng))))
            elif c < 0.9:
                ops.append(("copy",))
            else:
                ops.append(("range", [rng.choice([0.0, 10.0, -5.0]), rng.choice([100.0, 360.0, 1.0])]))
        m = pick_m(rng)
        if rng.random() < 0.7:      # ask with a count that was used before, when there is one
            used = [o[1] for o in ops if o[0] in ("ticks", "tickFormat")]
            m = rng.choice(used) if used else m
        later = [rng.choice([1, 2, 5, 20, 50, 100]) for _ in range(rng.choice([0, 0, 1, 2]))]
        meta = {"kind": "lticks-history", "ops": ops, "m": m, "later": later}
        try:
          with time_limit(10):
            d, tk, texts = run_tick_history(ops, m, later)
        except Exception as e:
            rep.prop_fail.append(("ticks/tickFormat raised %s after a history: %s" % (type(e).__name__, e), {"case": meta})); continue
        if d[0] == d[1]:
            continue
        meta["a"], meta["b"] = d[0], d[1]
        lines.append("lticks|%s|%s|%s|%s|%s" % (fr(d[0]), fr(d[1]), fr(10 if m is None else m), ",".join(fr(t) for t in tk), ";".join(texts))); metas.append(meta)
        rep.count("ticks-after-history")
    answers = drive(lines)
    for line, meta, ans in zip(lines, metas, answers):
        f = fields(ans)
        payload = {"case": meta, "driver_line": line[:3000], "driver_answer": ans}
        rep.case(line, nontrivial=int(f["n"]) >= 2, sample={"case": meta, "driver": ans})
        if f["same"] == "tie":
            rep.ties += 1
            continue
        if f["model"] != "ok":
            rep.model_fail = True; rep.model_fail_case = payload
        if f["prop"] != "ok" or f["texts"] != "ok" or f["form"] != "ok":
            rep.prop_fail.append(("C13 predicate false on the implementation's ticks: " + ans, payload))
        elif (f["same"] != "ok" or f["sametxt"] != "ok") and not only_prop:
            rep.corr_fail.append(("ticks differ from the model beyond end effects: " + ans, payload))


# -------------------------------------------------------------------------------------------- C14
def body_c14(tier, seed, rep, only_prop=False, scale=1):
    from labella.scale import LinearScale, TimeScale
    import check_time as T
    rng = rng_for(seed, "c14")
    lines, metas = [], []
    for _ in range(common.count(tier, 6000, 150000) * scale):
        a, b = gen_lin_domain(rng)
        m = pick_m(rng)
        if rng.random() < 0.08:
            a, b, m = gen_threshold_case(rng)
        elif rng.random() < 0.05:
            a, b, m = gen_epoch_case(rng)
        meta = {"kind": "lnice", "a": a, "b": b, "m": m}
        if rng.random() < 0.2:
            # before the judged call, COPIES of the scale are used (made nice with another count, given another domain, asked for ticks):
            # what a copy does is its own business
            meta["pre"] = [rng.choice([("copy-nice", rng.choice([2, 5, 1, 20])), ("copy-domain", a - 3.5, b * 2 + 1), ("copy-ticks", rng.choice([3, 10])),
                                       ("ticks", rng.choice([3, 10])), ("other-ticks", a * 1000 - 7, b * 1000 + 991, m, False)]) for _ in range(rng.choice([1, 1, 2]))]
        try:
            with time_limit(10):
                s = LinearScale().domain([a, b])
                apply_pre(s, meta.get("pre"))
                s.nice(m) if m is not None else s.nice()
                d = s.domain()
        except Exception as e:
            rep.prop_fail.append(("nice raised %s: %s" % (type(e).__name__, e), {"case": meta})); continue
        lines.append("lnice|%s|%s|%s|%s|%s" % (fr(a), fr(b), fr(10 if m is None else m), fr(d[0]), fr(d[1]))); metas.append(meta)
    for _ in range(common.count(tier, 8000, 100000) * scale):
        d0, d1 = T.gen_domain(rng)
        if abs(d1 - d0) < 10:
            d1 = d0 + rng.choice([10, 11, 25])
        if abs(d1 - d0) > 200 * 365 * T.DAY:
            d1 = d0 + 200 * 365 * T.DAY if d0 + 200 * 365 * T.DAY < T.HI else d0 - 200 * 365 * T.DAY
        m = rng.choice([None, None, 10, 2, 3, 5, 7, 12, 20, 50])
        meta = {"kind": "tnice", "d0": d0, "d1": d1, "m": m}
        if rng.random() < 0.15:
            od = T.gen_domain(rng)
            meta["pre"] = [rng.choice([("copy-nice", rng.choice([2, 5, 20])), ("copy-ticks", rng.choice([3, 10])), ("ticks", rng.choice([3, 10])),
                                       ("other-ticks", od[0], od[1], m, True), ("other-ticks", od[0], od[1], m, True)]) for _ in range(rng.choice([1, 1, 2]))]
        try:
            with time_limit(10):
                s = TimeScale().domain([T.to_dt(d0), T.to_dt(d1)])
                apply_pre(s, meta.get("pre"))
                s.nice(m) if m is not None else s.nice()
                d = s.domain()
        except Exception as e:
            rep.prop_fail.append(("time nice raised %s: %s" % (type(e).__name__, e), {"case": meta})); continue
        lines.append("tnice|%d|%d|%s|%s|%s" % (d0, d1, fr(10 if m is None else m), fr(T.to_ms(d[0])), fr(T.to_ms(d[1])))); metas.append(meta)
    answers = drive(lines)
    for line, meta, ans in zip(lines, metas, answers):
        f = fields(ans)
        payload = {"case": meta, "driver_line": line, "driver_answer": ans}
        rep.case(line, nontrivial=f["moved"] == "1", sample={"case": meta, "driver": ans})
        rep.count("kind=" + meta["kind"])
        if f["model"] != "ok":
            rep.model_fail = True; rep.model_fail_case = payload
        if f["same"] == "tie":
            rep.ties += 1
            continue
        if f["prop"] != "ok":
            if meta["kind"] == "lnice" and f.get("noround") == "ok" and f.get("overshoot") == "1" and f["same"] == "ok" and "F4" in KNOWN14:
                # known finding F4: float overshoot of one second-pass step; only the roundness clause fails
                rep.known_seen["F4"] = KNOWN14["F4"]["message"]
                rep.count("F4-float-overshoot")
            else:
                rep.prop_fail.append(("C14 predicate false on the implementation's nice domain: " + ans, payload))
        elif f["same"] != "ok" and not only_prop:
            rep.corr_fail.append(("nice differs from the model: " + ans, payload))


KNOWN14 = {k["id"]: k for k in common.load_known()["known"] if k["property"] == "C14"}
BODIES = {"C12": body_c12, "C13": body_c13, "C14": body_c14}


def run(pid, tier, seed, replay=None):
    rep = Report(pid, tier, seed)
    rep.model_fail = False
    st = build_and_audit(pid, rep.log)
    body = BODIES[pid]
    if replay:
        return replay_case(pid, replay)
    body(tier, seed, rep)
    if rep.model_fail:
        st["broken"].append("model-prop-fail: a property predicate is false of the model's own output: %s" % (getattr(rep, "model_fail_case", {}).get("driver_line", "")[:300]))

    def search():
        before = len(rep.prop_fail)
        body(tier, seed + 7919, rep, only_prop=True, scale=3)
        if len(rep.prop_fail) > before:
            what, payload = rep.prop_fail[before]
            del rep.prop_fail[before:]
            return {"what": what, **payload}
        return None

    if tier == "thorough" and not st["broken"]:
        if not leanchecker(pid, rep.log):
            st["broken"].append("leanchecker rejected the compiled proofs")
    return rep.finish(st, ASSUME, RULES[pid], search)


def replay_case(pid, replay):
    from labella.scale import LinearScale, TimeScale
    import check_time as T
    with open(replay) as fh:
        m = json.load(fh)["case"]
    k = m["kind"]
    if k == "lin":
        s = LinearScale().domain([m["a"], m["b"]]).range([m["r0"], m["r1"]]).clamp(m["clamp"])
        y = s.scale(m["x"]) if m.get("via") == "scale" else s(m["x"])
        line = "lin|%s|%s|%s|%s|%s|%s|%s|%s" % (fr(bool(m["clamp"])), fr(m["a"]), fr(m["b"]), fr(m["r0"]), fr(m["r1"]), fr(m["x"]), fr(y), fr(s.invert(y)))
    elif k == "linmono":
        s = LinearScale().domain([m["a"], m["b"]]).range([m["r0"], m["r1"]]).clamp(m["clamp"])
        line = "linmono|%s|%s|%s|%s|%s|%s|%s|%s|%s" % (fr(bool(m["clamp"])), fr(m["a"]), fr(m["b"]), fr(m["r0"]), fr(m["r1"]), fr(m["x1"]), fr(m["x2"]), fr(s(m["x1"])), fr(s(m["x2"])))
    elif k == "lhist":
        line = run_history([tuple(o) for o in m["ops"]])
    elif k == "lticks":
        s = LinearScale().domain([m["a"], m["b"]])
        tk = list(s.ticks(m["m"])) if m["m"] is not None else list(s.ticks())
        fmt = s.tickFormat(m["m"]) if m["m"] is not None else s.tickFormat()
        line = "lticks|%s|%s|%s|%s|%s" % (fr(m["a"]), fr(m["b"]), fr(10 if m["m"] is None else m["m"]), ",".join(fr(t) for t in tk), ";".join(fmt(t) for t in tk))
    elif k == "lticks-history":
        d, tk, texts = run_tick_history([tuple(o) for o in m["ops"]], m["m"], m.get("later", ()))
        line = "lticks|%s|%s|%s|%s|%s" % (fr(d[0]), fr(d[1]), fr(10 if m["m"] is None else m["m"]), ",".join(fr(t) for t in tk), ";".join(texts))
    elif k == "lnice":
        s = LinearScale().domain([m["a"], m["b"]])
        apply_pre(s, m.get("pre"))
        s.nice(m["m"]) if m["m"] is not None else s.nice()
        d = s.domain()
        line = "lnice|%s|%s|%s|%s|%s" % (fr(m["a"]), fr(m["b"]), fr(10 if m["m"] is None else m["m"]), fr(d[0]), fr(d[1]))
    else:
        s = TimeScale().domain([T.to_dt(m["d0"]), T.to_dt(m["d1"])])
        apply_pre(s, m.get("pre"))
        s.nice(m["m"]) if m["m"] is not None else s.nice()
        d = s.domain()
        line = "tnice|%d|%d|%s|%s|%s" % (m["d0"], m["d1"], fr(10 if m["m"] is None else m["m"]), fr(T.to_ms(d[0])), fr(T.to_ms(d[1])))
    ans = drive([line])[0]
    print("replay:", ans)
    bad = "fail" in ans.replace("model=fail", "")
    f = fields(ans)
    if bad and k == "lnice" and f.get("prop") == "fail" and f.get("noround") == "ok" and f.get("overshoot") == "1" and f.get("same") == "ok" and "F4" in KNOWN14:
        print("KNOWN-FINDING: property=C14 " + KNOWN14["F4"]["message"])
        return 0
    print("VIOLATION property=%s replay=%s" % (pid, replay) if bad else "replay: holds now")
    return 1 if bad else 0
