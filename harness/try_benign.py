#!/usr/bin/env python3
"""false-alarm experiment: apply each behaviour-preserving refactoring of benign/*.diff to /repo, run the tests and every check (quick),
undo; a check that reports a VIOLATION here raised a false alarm.  Usage: try_benign.py [k ...]"""
import glob, json, os, subprocess, sys, time
from concurrent.futures import ThreadPoolExecutor
V = os.path.normpath(os.path.join(os.path.dirname(os.path.abspath(__file__)), ".."))
BDIR = os.environ.get("BENIGN_DIR", "benign")
ks = sys.argv[1:] or sorted(os.path.basename(f)[:-5] for f in glob.glob(os.path.join(V, BDIR, "*.diff")))
props = ["C%02d" % i for i in range(1, 21)]


def sh(cmd, **kw):
    return subprocess.run(cmd, shell=True, capture_output=True, text=True, **kw)


res = {}
for k in ks:
    patch = os.path.join(V, BDIR, k + ".diff")
    assert sh("git -C /repo status --porcelain").stdout.strip() == "", "/repo not clean"
    assert sh("git -C /repo apply %s" % patch).returncode == 0, "patch %s does not apply" % k
    try:
        tests = sh("cd /repo && /venv/bin/python -m pytest -q -p no:cacheprovider tests 2>&1 | tail -1").stdout.strip()

        def run(p):
            r = sh("cd %s && ./check %s --tier quick" % (V, p), timeout=3000)
            v = [l for l in r.stdout.splitlines() if l.startswith("VIOLATION")]
            extra = [l for l in r.stdout.splitlines() if l.startswith("  (")][:2]
            return p, r.returncode, (v[0] if v else ""), extra
        with ThreadPoolExecutor(max_workers=6) as ex:
            out = list(ex.map(run, props))
        res[k] = {"tests": tests, "alarms": {p: {"rc": rc, "violation": v, "what": e} for p, rc, v, e in out if rc != 0}}
        print(k, tests, "alarms:", {p: (a["violation"][-40:], a["what"]) for p, a in res[k]["alarms"].items()}, flush=True)
    finally:
        sh("git -C /repo checkout -- .")
        sh("git -C %s checkout -- evidence" % V)
json.dump(res, open(os.path.join(V, BDIR, "result.json"), "w"), indent=1)
