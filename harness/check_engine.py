"""C04 (layering structure) and C06 (layout is a pure function of labels and options)."""
import json, os, subprocess
import common
from common import Report, build_and_audit, drive, fields, rng_for, leanchecker
import gen_layout as G

ASSUME = [
    "modelled, not verified: intervaltree.IntervalTree.overlap (half-open intersection), list.sort/sorted stability, math.ceil on Fraction/float",
    "exact mode (Fraction inputs) compares layers item by item with the model; float mode judges the structural predicates only (capacity with relative slack 1e-9)",
]
RULE04 = ("Distributor.distribute called directly (layerWidth None/0/tight/roomy, density in (0,1], all three algorithms), through Force.compute on fresh labels, and after every compute of "
          "random engine histories (re-compute, re-configure, nodes re-registered or handed to a fresh engine while carrying stubs of an earlier layout); "
          "labels with ties, identical positions, labels wider than a layer, 1-2 labels; non-trivial = more than one layer; distinct by canonical driver line")
RULE06 = ("histories of new/nodes/options/compute/re-compute/stale-nodes-into-fresh-engine/permuted-input/second-label-set operations on real Force objects; after every compute the result "
          "is compared with the model applied to the accumulated options and current labels; non-trivial = more than one layer or a re-used engine; distinct by canonical line")


def dist_opts(rng, labels):
    ns = rng.choice([3, 0, 0.5, 1, 5, 2.5])
    need = sum(w for _, w in labels) + ns * (len(labels) - 1)
    lw = rng.choice([None, 0, need * 2, need, need / 2, int(need / 3) + 1, int(need / 7) + 1, max(w for _, w in labels), max(w for _, w in labels) / 2, 1000])
    return {"algorithm": rng.choice(["overlap", "overlap", "simple", "none"]), "layerWidth": lw,
            "density": rng.choice([0.85, 0.75, 1, 0.5, 0.3, 0.999, 0.05]), "nodeSpacing": ns, "stubWidth": rng.choice([1, 0, 2, 5, 0.5])}


def run_c04(tier, seed, rep, only_prop=False, scale=1):
    import impl_layout as I
    n1, n2, n3 = (700, 250, 120) if tier == "quick" else tuple(common.count(tier, 0, x) for x in (6000, 2000, 1200))
    n1, n2, n3 = n1 * scale, n2 * scale, n3 * scale
    cs = []
    rng = rng_for(seed, "c04-dist")
    for k in range(n1):
        labels, span = G.gen_labels(rng, tier)
        o = dist_opts(rng, labels)
        if rng.random() < 0.02:
            labels = []         # no labels at all: no layers
        mode = "exact" if k % 2 and len(labels) <= 60 else "float"      # Fraction-keyed interval trees get very slow on large label sets
        try:
            cs.append((I.run_dist(labels, o, mode), {"kind": "dist", "labels": labels, "opts": o, "mode": mode}))
        except RecursionError:
            rep.count("recursion-error(F3)")
        except Exception as e:
            rep.prop_fail.append(("Distributor.distribute raised %s: %s" % (type(e).__name__, e), {"case": {"kind": "dist", "labels": labels, "opts": o, "mode": mode}}))
    rng = rng_for(seed, "c04-force")
    for k in range(n2):
        labels, span = G.gen_labels(rng, tier, nmax=100)
        o = G.gen_force_opts(rng, labels, span)
        mode = "exact" if k % 2 and len(labels) <= 60 else "float"
        try:
            fl, _, _, _ = I.run_force(labels, o, mode, want_layer_lines=False)
        except RecursionError:
            rep.count("recursion-error(F3)")
            continue
        except Exception as e:
            rep.prop_fail.append(("Force.compute raised %s: %s" % (type(e).__name__, e), {"case": {"kind": "force", "labels": labels, "opts": o, "mode": mode}}))
            continue
        cs.append((fl, {"kind": "force", "labels": labels, "opts": o, "mode": mode}))
    # the layering must be exact after EVERY layout, also of nodes that carry stubs / layer numbers of an earlier layout
    rng = rng_for(seed, "c04-history")
    for k in range(n3):
        ops, labelsA, o = gen_history(rng, tier)
        mode = "exact" if k % 2 else "float"
        try:
            res = I.run_history(ops, mode)
        except RecursionError:
            rep.count("recursion-error(F3)")
            continue
        except Exception as e:
            rep.prop_fail.append(("Force.compute raised %s in a history: %s" % (type(e).__name__, e), {"case": {"kind": "history", "ops": ops, "mode": mode, "compute_no": 0}}))
            continue
        for j, (fl, placed, acc, labs) in enumerate(res):
            cs.append((fl, {"kind": "history", "ops": ops, "mode": mode, "compute_no": j, "acc": acc, "labels": labs, "opts": acc}))
            rep.count("history compute_no=%d" % min(j, 4))
    answers = drive([c[0] for c in cs])
    for (line, meta), ans in zip(cs, answers):
        f = fields(ans)
        corr = f["same"] in ("ok", "na")
        prop = all(f[k] == "ok" for k in ("struct", "cap", "single")) and f.get("getLayers", "ok") == "ok"
        rep.case(line, nontrivial=int(f["layers"]) > 1, sample={"case": meta, "driver": ans})
        rep.ties += int(f.get("tie", "0")); rep.count("layers=%s" % min(int(f["layers"]), 5)); rep.count("mode=" + meta["mode"]); rep.count("alg=" + str(meta["opts"].get("algorithm", "default")))
        payload = {"case": meta, "driver_line": line, "driver_answer": ans}
        if f["model"] != "ok":
            rep.model_fail = True
        if not prop:
            rep.prop_fail.append(("C04 structural predicate false on the implementation's layers: " + ans, payload))
        elif not corr and not only_prop:
            rep.corr_fail.append(("implementation and model distribute differently: " + ans, payload))


def gen_history(rng, tier):
    labelsA, span = G.gen_labels(rng, tier, nmax=30)
    labelsB, spanB = G.gen_labels(rng, tier, nmax=30)
    o = G.gen_force_opts(rng, labelsA, span)
    ops = [("new", o), ("nodes", labelsA), ("compute",)]
    for _ in range(rng.randint(1, 6)):
        c = rng.random()
        if c < 0.3:
            ops.append(("compute",))
        elif c < 0.5:
            d = G.gen_force_opts(rng, labelsA, span)
            d = {k: d[k] for k in rng.sample(sorted(d), min(len(d), rng.randint(0, 2)))}
            ops += [("options", d), ("compute",)]
        elif c < 0.65:
            ops += [("nodes", labelsB), ("compute",)]
        elif c < 0.75:
            ops += [("empty-nodes",), ("compute",)]
        elif c < 0.9:
            # nodes that carry layer numbers / stubs of the earlier layout go into a fresh engine: same options, or a different
            # configuration (so that labels move to nearer / farther layers than the ones their stale links describe)
            o2 = dict(o) if rng.random() < 0.4 else G.gen_force_opts(rng, labelsA, span)
            ops += [("new", o2, "keep-nodes")]
            if rng.random() < 0.3:
                d = G.gen_force_opts(rng, labelsA, span)
                ops += [("options", {k: d[k] for k in rng.sample(sorted(d), min(len(d), rng.randint(1, 2)))})]
            ops += [("compute",)]
        elif c < 0.93 and not any(op[0] == "second-engine" for op in ops):
            # a SECOND engine, alive at the same time, configured differently (and given its own labels) between the configuration and
            # the layout of the first one: engines share nothing
            o2 = G.gen_force_opts(rng, labelsB, spanB)
            ops += [("second-engine", o2), ("nodes", labelsB)]
            if rng.random() < 0.5:
                ops += [("compute",)]
            if rng.random() < 0.4:
                d = G.gen_force_opts(rng, labelsB, spanB)
                ops += [("options", {k: d[k] for k in rng.sample(sorted(d), min(len(d), rng.randint(1, 2)))})]
            ops += [("switch",), ("compute",)]
        elif c < 0.96:
            # the same node objects registered again on the same engine, possibly re-configured before the next layout
            ops += [("renodes",)]
            if rng.random() < 0.6:
                d = G.gen_force_opts(rng, labelsA, span)
                ops += [("options", {k: d[k] for k in rng.sample(sorted(d), min(len(d), rng.randint(1, 2)))})]
            ops += [("compute",)]
        else:
            ops += [("nodes", labelsA), ("compute",)]
    return ops, labelsA, o


def fresh_process_check(trace):
    """for each recorded compute of an interleaving: what an engine with the same options and data reports in a FRESH interpreter process;
    returns (compute no., engine, fresh observation, observed) for the first compute that differs, or None"""
    for j, t in enumerate(trace[:12]):
        try:
            pr = subprocess.run([common.PY, os.path.join(common.VERIF, "harness", "fresh_engine.py")], input=json.dumps({"opts": t["opts"], "nodes": t["nodes"]}),
                                capture_output=True, text=True, timeout=120, env=dict(os.environ, LABELLA_REPO=common.REPO))
        except Exception:
            continue
        if pr.returncode == 0 and pr.stdout.strip() != t["got"]:
            return (j, t["engine"], pr.stdout.strip(), t["got"])
    return None


def concat_interleavings(opss):
    """several interleavings one after the other as ONE interleaving (engine and list numbers shifted)"""
    out, neng, nlists = [], 0, 0
    for ops in opss:
        e0, l0 = neng, nlists
        for op in ops:
            if op[0] == "new":
                neng += 1; out.append(op)
            elif op[0] == "nodes":
                nlists += 1; out.append(op)
            elif op[0] == "switch":
                out.append(("switch", op[1] + e0))
            elif op[0] == "use":
                out.append(("use", op[1] + l0))
            elif op[0] == "rewidth":
                out.append(("rewidth", op[1] + l0, op[2]))
            else:
                out.append(op)
    return out


def fails_in_fresh_process(ops):
    """does this interleaving, run alone in a fresh interpreter, differ from the model AND from fresh-process engines?"""
    try:
        pr = subprocess.run([common.PY, os.path.join(common.VERIF, "harness", "fresh_mhist.py")], input=json.dumps(ops), capture_output=True, text=True,
                            timeout=600, env=dict(os.environ, LABELLA_REPO=common.REPO))
        if pr.returncode != 0:
            return False
        r = json.loads(pr.stdout)
    except Exception:
        return False
    if r["differ"]:
        return True
    if "same=fail" not in drive([r["line"]])[0]:
        return False
    return fresh_process_check(r["trace"]) is not None


def gen_interleaving(rng, tier):
    """operations on 2-3 engines alive at the same time: each may be given a fresh list of nodes or a list object another engine holds (or
    held), in whatever order an in-place sort left it and whatever an earlier layout left in its node objects"""
    ops, nlists, neng = [], 0, 0
    batches = []
    for e in range(rng.randint(2, 3)):
        labels, span = G.gen_labels(rng, tier, nmax=20)
        batches.append((labels, span))
    def some_opts():
        labels, span = rng.choice(batches)
        o = G.gen_force_opts(rng, labels, span)
        if rng.random() < 0.35:
            o["algorithm"] = "none"            # sorts the caller's list object in place
        return o
    ops.append(("new", some_opts())); neng = 1
    ops.append(("nodes", batches[0][0])); nlists = 1
    made = [batches[0][0]]                     # the labels each list object was created from
    for _ in range(rng.randint(4, 12)):
        c = rng.random()
        if c < 0.15 and neng < 3:
            ops.append(("new", some_opts())); neng += 1
            ops.append(("use", rng.randrange(nlists)) if rng.random() < 0.6 else ("nodes", batches[min(nlists, len(batches) - 1)][0]))
            if ops[-1][0] == "nodes":
                nlists += 1; made.append(ops[-1][1])
        elif c < 0.35 and neng > 1:
            ops.append(("switch", rng.randrange(neng)))
        elif c < 0.5:
            d = some_opts()
            ops.append(("options", {k: d[k] for k in rng.sample(sorted(d), min(len(d), rng.randint(1, 2)))}))
        elif c < 0.6:
            ops.append(("use", rng.randrange(nlists)))
        elif c < 0.65 and nlists < 4:
            ops.append(("nodes", rng.choice(batches)[0])); nlists += 1; made.append(ops[-1][1])
        elif c < 0.72:
            # the caller assigns new widths to some of the Node objects of a list (`node.width = w`: a label collapsed to a marker, or given
            # its measured width later) — every engine that holds these objects lays out what they are NOW, whatever it computed for them before
            b = rng.randrange(nlists)
            ws = [w for _p, w in made[b]]
            new = [(rng.choice([0, 0, w / 2, w * 2, 1, rng.choice(ws)]) if rng.random() < 0.4 else w) for w in ws]
            made[b] = [(p, nw) for (p, _w), nw in zip(made[b], new)]
            ops.append(("rewidth", b, new))
        else:
            ops.append(("compute",))
    if rng.random() < 0.3:
        # lay a list out, collapse some of its labels to markers of width 0 (or give markers a width) on the SAME objects, lay it out again
        b = rng.randrange(nlists)
        ws = [w for _p, w in made[b]]
        new = list(ws)
        for i in rng.sample(range(len(ws)), min(len(ws), rng.randint(1, 3))):
            new[i] = 0 if ws[i] != 0 else rng.choice([1, 8, 40])
        ops += [("use", b), ("compute",), ("rewidth", b, new)]
    ops.append(("compute",))
    return ops


def run_c06(tier, seed, rep, only_prop=False, scale=1):
    import impl_layout as I
    n = common.count(tier, 250, 5000) * scale
    rng = rng_for(seed, "c06")
    lines, metas = [], []
    for k in range(n):
        ops, labelsA, o = gen_history(rng, tier)
        mode = "exact" if k % 3 else "float"
        try:
            res = I.run_history(ops, mode)
            # permuted input on a fresh engine
            perm = list(labelsA)
            rng.shuffle(perm)
            r1 = I.run_history([("new", o), ("nodes", labelsA), ("compute",)], mode)
            r2 = I.run_history([("new", o), ("nodes", perm), ("compute",)], mode)
        except RecursionError:
            rep.count("recursion-error(F3)")
            continue
        except Exception as e:
            rep.prop_fail.append(("Force.compute raised %s in a history: %s" % (type(e).__name__, e), {"case": {"kind": "history", "ops": ops, "mode": mode, "compute_no": 0}}))
            continue
        for j, (fl, placed, acc, labs) in enumerate(res):
            lines.append(fl); metas.append({"kind": "history", "ops": ops, "mode": mode, "compute_no": j, "acc": acc, "labels": labs})
        # the same history on the STATEFUL transliteration (Model/EngineT.lean): node objects with their links, positions and layer
        # numbers, several engines sharing them — the observation after every compute must be equal in exact arithmetic
        if k % 2 == 0 and not any(op[0] in ("second-engine", "switch") for op in ops):
            try:
                lines.append(I.run_ehist(ops)); metas.append({"kind": "ehist", "ops": ops, "mode": "exact"})
            except RecursionError:
                rep.count("recursion-error(F3)")
            except Exception as e:
                rep.prop_fail.append(("Force.compute raised %s in a history: %s" % (type(e).__name__, e), {"case": {"kind": "ehist", "ops": ops, "mode": "exact"}}))
        lines.append("perm|%s|%s" % (r1[0][1], r2[0][1])); metas.append({"kind": "perm", "labels": labelsA, "perm": perm, "opts": o, "mode": mode})
        if o.get("density") == 1 and o.get("minPos") == 0 and o.get("maxPos") is not None:
            # an exactly full layer: in floating point the sum of the widths depends on the order of summation — several more orders of the input
            try:
                rf = I.run_history([("new", o), ("nodes", labelsA), ("compute",)], "float")
                for _t in range(6):
                    pp = list(labelsA); rng.shuffle(pp)
                    rp = I.run_history([("new", o), ("nodes", pp), ("compute",)], "float")
                    lines.append("perm|%s|%s" % (rf[0][1], rp[0][1])); metas.append({"kind": "perm", "labels": labelsA, "perm": pp, "opts": o, "mode": "float"})
                    rep.count("perm on an exactly full layer")
            except Exception:
                pass
    # several engines alive at once, sharing list objects and node objects (EngineT.MWorld): equality with the transliteration after every
    # compute, and — the property itself — every compute reports what a fresh engine reports for the same options and data
    earlier = []
    for k in range(common.count(tier, 80, 1500) * scale):
        ops = gen_interleaving(rng, tier)
        meta = {"kind": "mhist", "ops": ops, "mode": "exact", "_earlier": list(earlier[-8:])}
        earlier.append(ops)
        try:
            line, differ = I.run_mhist(ops)
        except RecursionError:
            rep.count("recursion-error(F3)"); continue
        except Exception as e:
            rep.prop_fail.append(("Force raised %s in an interleaving of several engines: %s" % (type(e).__name__, e), {"case": meta})); continue
        meta["_trace"] = [dict(t) for t in I._state.get("mhist_trace", [])]
        if differ:
            j, eng, want, got = differ[0]
            rep.prop_fail.append(("C06: compute no. %d (engine %d) of this interleaving of several engines reports something else than a fresh engine with the same options and data" % (j, eng),
                                  {"case": meta, "compute_no": j, "fresh": want[:1500], "got": got[:1500]}))
        lines.append(line); metas.append(meta)
    answers = drive(lines)
    for line, meta, ans in zip(lines, metas, answers):
        f = fields(ans)
        payload = {"case": meta, "driver_line": line, "driver_answer": ans}
        if f["_cmd"] == "ehist":
            rep.case(line, nontrivial=int(f["computes"]) > 1, sample={"case": {"kind": "ehist", "ops": meta["ops"]}, "driver": ans} if rep.dist.get("ehist", 0) < 2 else None)
            rep.count("ehist"); rep.count("ehist same=" + f["same"])
            if f["same"] != "ok" and not only_prop:
                rep.corr_fail.append(("real Force/Node objects and the stateful transliteration (EngineT) differ after a compute of this history: " + ans, payload))
            continue
        if f["_cmd"] == "mhist":
            rep.case(line, nontrivial=int(f["engines"]) > 1 and int(f["computes"]) > 1, sample={"case": {"kind": "mhist", "ops": meta["ops"]}, "driver": ans} if rep.dist.get("mhist", 0) < 2 else None)
            rep.count("mhist"); rep.count("mhist same=" + f["same"]); rep.count("mhist engines=" + f["engines"]); rep.count("mhist list-reordered=" + f["reordered"])
            trace = meta.pop("_trace", [])
            if f["same"] == "ok":
                meta.pop("_earlier", None)
            if f["same"] != "ok":
                # does the engine disagree with the model because of what ran EARLIER IN THIS PROCESS (module-level state another engine left)?
                # A fresh engine in this process would share that state; ask a fresh interpreter for each compute of the interleaving
                bad = fresh_process_check(trace)
                prelude = meta.pop("_earlier", [])
                if bad and not fails_in_fresh_process(meta["ops"]):
                    # the cause lies in what ran earlier in this process: make the failing input self-contained by putting the preceding
                    # interleavings in front (as one interleaving over more engines); if even that does not reproduce it, no failing input
                    whole = concat_interleavings(prelude + [meta["ops"]])
                    if fails_in_fresh_process(whole):
                        meta = {"kind": "mhist", "ops": whole, "mode": "exact"}
                    else:
                        bad = None
                if bad:
                    rep.prop_fail.append(("C06: compute no. %d (engine %d) of this interleaving reports something else than an engine with the same options and data in a FRESH interpreter process" % bad[:2],
                                          {"case": meta, "compute_no": bad[0], "fresh_process": bad[2][:1500], "got": bad[3][:1500], "driver_answer": ans}))
                elif not only_prop:
                    rep.corr_fail.append(("real Force/Node objects and the multi-engine transliteration (EngineT.MWorld) differ after a compute of this interleaving: " + ans, payload))
            continue
        if f["_cmd"] == "perm":
            rep.case(line, nontrivial=True, sample=None)
            rep.count("perm hyp=" + f["hyp"])
            if f["hyp"] == "1" and f["same"] != "ok":
                rep.prop_fail.append(("C06: permuting interchangeable input changed the layout: " + ans, payload))
            continue
        corr = f["same"] in ("ok", "na") and f["struct"] == "ok"
        rep.case(line, nontrivial=int(f["layers"]) > 1 or meta["compute_no"] > 0, sample={"case": meta, "driver": ans})
        rep.count("compute_no=%d" % min(meta["compute_no"], 4)); rep.count("mode=" + meta["mode"])
        if not corr:
            # the model is a function of (accumulated options, current labels) only.  If a FRESH engine on fresh labels with those
            # options agrees with the model while the engine with this history does not, the history itself is the failing input of C06
            try:
                fresh = I.run_history([("new", meta["acc"]), ("nodes", [tuple(x) for x in meta["labels"]]), ("compute",)], meta["mode"])[0][0]
                fa = fields(drive([fresh])[0])
                fresh_ok = fa["same"] in ("ok", "na") and fa["struct"] == "ok"
            except Exception:
                fresh_ok = False
            if fresh_ok and f["same"] != "na":
                rep.prop_fail.append(("C06: after this history the layout differs from what a fresh engine computes for the same labels and options: " + ans, payload))
            elif not only_prop:
                rep.corr_fail.append(("after this history the engine's result differs from the pure model: " + ans, payload))


def run(pid, tier, seed, replay=None):
    rep = Report(pid, tier, seed)
    rep.model_fail = False
    st = build_and_audit(pid, rep.log)
    body = run_c04 if pid == "C04" else run_c06
    if replay:
        import impl_layout as I
        with open(replay) as fh:
            m = json.load(fh)["case"]
        if m["kind"] == "dist":
            line = I.run_dist([tuple(x) for x in m["labels"]], m["opts"], m["mode"])
        elif m["kind"] == "force":
            line = I.run_force([tuple(x) for x in m["labels"]], m["opts"], m["mode"], want_layer_lines=False)[0]
        elif m["kind"] == "ehist":
            line = I.run_ehist([tuple(o) if not isinstance(o, tuple) else o for o in m["ops"]])
        elif m["kind"] == "mhist":
            try:
                line, differ = I.run_mhist([tuple(o) if not isinstance(o, tuple) else o for o in m["ops"]])
            except Exception as e:
                print("replay: raised", type(e).__name__, e); print("VIOLATION property=%s replay=%s" % (pid, replay)); return 1
            if differ:
                print("replay: compute no. %d differs from a fresh engine" % differ[0][0]); print("VIOLATION property=%s replay=%s" % (pid, replay)); return 1
            if "same=fail" in drive([line])[0]:
                bad = fresh_process_check([dict(t) for t in I._state.get("mhist_trace", [])])
                if bad:
                    print("replay: compute no. %d differs from an engine in a fresh process" % bad[0]); print("VIOLATION property=%s replay=%s" % (pid, replay)); return 1
        elif m["kind"] == "history":
            line = I.run_history([tuple(o) if not isinstance(o, tuple) else o for o in m["ops"]], m["mode"])[m["compute_no"]][0]
        else:
            r1 = I.run_history([("new", m["opts"]), ("nodes", [tuple(x) for x in m["labels"]]), ("compute",)], m["mode"])
            r2 = I.run_history([("new", m["opts"]), ("nodes", [tuple(x) for x in m["perm"]]), ("compute",)], m["mode"])
            line = "perm|%s|%s" % (r1[0][1], r2[0][1])
        ans = drive([line])[0]
        print("replay:", ans)
        bad = "fail" in ans
        print("VIOLATION property=%s replay=%s" % (pid, replay) if bad else "replay: agrees with the model / predicate holds now")
        return 1 if bad else 0
    body(tier, seed, rep)
    if rep.model_fail:
        st["broken"].append("model-prop-fail: a proved predicate is false of the model's own output")

    def search():
        before = len(rep.prop_fail)
        body(tier, seed + 7919, rep, only_prop=True, scale=3)
        if len(rep.prop_fail) > before:
            what, payload = rep.prop_fail[before]
            del rep.prop_fail[before:]
            return {"what": what, **payload}
        return None

    if tier == "thorough" and not st["broken"]:
        if not leanchecker(pid, rep.log):
            st["broken"].append("leanchecker rejected the compiled proofs")
    return rep.finish(st, ASSUME, RULE04 if pid == "C04" else RULE06, search)
