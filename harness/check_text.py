"""C19 (uni2tex) and C20 (int2name, hex colours)."""
import json, sys, unicodedata
import common
from common import Report, build_and_audit, drive, fields, rng_for, leanchecker, REPO

sys.path.insert(0, REPO)

ASSUME19 = ["the Unicode database (unicodedata.category / decomposition of the running interpreter) is a parameter of the model: every line carries the slice of it that its input touches",
            "string-level read-back is judged only for inputs without literal backslash or braces (TeX specials pass through by design); the model equality is judged for every input"]
RULE19 = ("every code point that has a decomposition, is a combining mark, is ASCII or is in the accent table: alone and in a·, ·a, a·b context; all other code points in chunks (identity expected); "
          "random strings mixing ASCII incl. TeX specials, precomposed letters, combining sequences, compatibility characters, CJK, emoji; non-trivial = at least one accent command produced; distinct by input")
ASSUME20 = ["str(int), int(s, 16), str.upper modelled by decimal digits / hex digit values / ASCII upper-casing"]
RULE20 = ("int2name for every index of a contiguous range from 0 (batches compared name by name with the model; strict shortlex increase, letters only, read-back to the index); "
          "hex colours: every 3-digit code over [0-9a-fA-F] with and without '#', and random 6-digit codes (thorough: all 16^6); non-trivial = every case (all are distinct inputs)")


def cps(s):
    return ",".join(str(ord(c)) for c in s)


def tex_line(s, out):
    marks = sorted({ord(c) for c in s if unicodedata.category(c) in ("Mn", "Mc")})
    dec = []
    for c in sorted(set(s)):
        d = unicodedata.decomposition(c).split()
        if len(d) == 2 and not d[0].startswith("<"):
            dec.append("%d>%d+%d" % (ord(c), int(d[0], 16), int(d[1], 16)))
    return "tex|%s|%s|%s|%s" % (cps(s), cps(out), ",".join(map(str, marks)), ";".join(dec))


class Unreadable(Exception):
    """the exported TikZ text does not have the shape the reader knows (e.g. a macro name that is not letters only)"""


def tex_doc(texts):
    """a TikZ export (text only, no LaTeX run) of a numeric timeline with these label texts and explicit label sizes; parsed"""
    from labella.timeline import TimelineTex
    from labella.scale import LinearScale
    from parse_export import parse_tikz
    data = [{"time": float(3 * k + 1), "width": 20 + (k % 3), "text": t} if t is not None else {"time": float(3 * k + 1), "width": 20} for k, t in enumerate(texts)]
    tl = TimelineTex(data, options={"scale": LinearScale(), "direction": "right", "initialHeight": 80 + 30 * len(texts), "showTicks": False})
    doc = tl.export()
    try:
        return parse_tikz(doc)
    except Exception as e:
        raise Unreadable("%s: %s" % (type(e).__name__, e))


def short_names(n):
    """A, B, …, Z, AA, AB, … — the enumeration the property prescribes, computed here independently of the library"""
    out, k = [], 1
    import itertools, string
    while len(out) < n:
        for t in itertools.product(string.ascii_uppercase, repeat=k):
            out.append("".join(t))
            if len(out) == n:
                break
        k += 1
    return out


LINEBREAKS = set("\n")      # the document reader of the harness is line-oriented on "\n" only; every other separator character may occur in a label
POOLS = ["abc xyz 0189 .,;", " \u00a0\u2009\u3000\u202f  a", "a \r\x0b\x0c\x1c\x1e\x85\u2028\u2029 b", "\\{}$&#^_~%", "éàüñçÅøßšžőűęą", "éäôűçñ", "… ½²ﬁ™ǆ", "漢字かな한글", "😀🎉👍🏽", "̣̱֑̀́ͅ", "ÅΩKﬃ", "ǖṩệở"]


def run_c19(tier, seed, rep, only_prop=False, scale=1):
    from labella.tex import uni2tex
    lines, metas = [], []
    acc_codes = None
    def add(s, kind):
        try:
            out = uni2tex(s)
        except Exception as e:   # C19: conversion succeeds for every Unicode string
            rep.prop_fail.append(("uni2tex raised %s: %s" % (type(e).__name__, e), {"case": {"kind": kind, "input_cps": [ord(c) for c in s]}}))
            return
        lines.append(tex_line(s, out)); metas.append({"kind": kind, "input_cps": [ord(c) for c in s]})
    boring = []
    for cp in (range(0, 0x110000) if common.exhaustive_here() else ()):
        c = chr(cp)
        if cp < 128 or unicodedata.decomposition(c) or unicodedata.category(c)[0] == "M":
            for s, k in ((c, "alone"), ("a" + c, "after"), (c + "a", "before"), ("a" + c + "b", "middle")):
                add(s, "cp-" + k)
        else:
            boring.append(c)
            if len(boring) == 400:
                add("".join(boring), "chunk"); boring = []
    if boring:
        add("".join(boring), "chunk")
    rng = rng_for(seed, "c19")
    n = common.count(tier, 20000, 400000) * scale
    for _ in range(n):
        k = rng.randint(0, 12)
        s = "".join(rng.choice(rng.choice(POOLS)) if rng.random() < 0.9 else chr(rng.choice([rng.randint(0, 0x2FF), rng.randint(0x300, 0x36F), rng.randint(0x1E00, 0x1EFF), rng.randint(0, 0x10FFFF)])) for _ in range(k))
        add(s, "random")
    # the same through the DOCUMENT: label texts given to a TikZ timeline must arrive in its \\def\\text.. lines as uni2tex of exactly that text
    for _ in range(common.count(tier, 150, 2500) * scale):
        texts = []
        for _k in range(rng.randint(1, 8) if rng.random() < 0.9 else rng.choice([27, 53, 60])):
            kk = rng.randint(1, 10)
            t = "".join(rng.choice(rng.choice(POOLS)) for _ in range(kk))
            texts.append("".join(c for c in t if c not in LINEBREAKS) or "x")
        try:
            g = tex_doc(texts)
        except Unreadable as e:
            rep.prop_fail.append(("the TikZ document for these label texts cannot be read back — a macro name or a line is not of the prescribed shape, so label texts do not arrive (%s)" % e, {"case": {"kind": "doc", "texts": [[ord(c) for c in t] for t in texts], "index": 0}})); continue
        except Exception as e:
            rep.prop_fail.append(("TikZ export raised %s for these label texts: %s" % (type(e).__name__, e), {"case": {"kind": "doc", "texts": [[ord(c) for c in t] for t in texts], "index": 0}})); continue
        for k, (t, out) in enumerate(zip(texts, g["texts"])):
            meta = {"kind": "doc", "texts": [[ord(c) for c in x] for x in texts], "index": k, "input_cps": [ord(c) for c in t]}
            if out is None or out.startswith("<unexpected"):
                rep.prop_fail.append(("a label text did not arrive in the TikZ document (no \\def\\text for it)", {"case": meta})); continue
            lines.append(tex_line(t, out)); metas.append(meta)
    answers = drive(lines)
    for line, meta, ans in zip(lines, metas, answers):
        f = fields(ans)
        rep.case(line, nontrivial=f["conv"] == "1", sample={"case": meta, "driver": ans} if f["conv"] == "1" and meta["kind"] == "random" else None)
        rep.count("kind=" + meta["kind"]); rep.count("conv=" + f["conv"]); rep.count("back=" + f["back"])
        payload = {"case": meta, "driver_line": line[:2000], "driver_answer": ans}
        if f["model"] != "ok":
            rep.model_fail = True
        if f["ascii"] != "ok" or f["back"] == "fail":
            rep.prop_fail.append(("C19 predicate false on the implementation's output: " + ans, payload))
        elif f["same"] != "ok" and meta["kind"] == "doc":
            rep.prop_fail.append(("C19: the text of a label in the TikZ document is not the conversion of the text that was supplied: " + ans, payload))
        elif f["same"] != "ok" and not only_prop:
            rep.corr_fail.append(("uni2tex output differs from the model: " + ans, payload))


def doc_names_c20(rep):
    """C20 at the level of the document: the names a TikZ export actually uses for the colours, texts, dots and boxes of its labels are the
    prescribed enumeration — pairwise different — for documents with more labels than there are letters, too"""
    for n in (1, 2, 26, 27, 28, 52, 53, 80, 130):
        meta = {"kind": "docnames", "n": n}
        try:
            g = tex_doc(["t%d" % k for k in range(n)])
        except Exception as e:
            rep.prop_fail.append(("TikZ export of %d labels raised %s: %s" % (n, type(e).__name__, e), {"case": dict(meta, family="dots")})); continue
        want = short_names(n)
        fams = {"dots": g.get("_dotnames", []), "boxes": g.get("_boxnames", []), "links": g.get("_linknames", []), "texts": sorted(g["_textdefs"], key=lambda x: (len(x), x))}
        for fam, got in fams.items():
            rep.case("docnames-%d-%s" % (n, fam), nontrivial=n > 26)
            rep.count("document-level names")
            if got != want:
                rep.prop_fail.append(("C20: the %s of a TikZ document with %d labels are not named A, B, …, Z, AA, AB, … (first difference at label %d: %r)" % (
                    fam, n, next((i for i, (a, b) in enumerate(zip(got, want)) if a != b), min(len(got), len(want))), got[:3] + got[25:29]), {"case": dict(meta, family=fam)}))
        cols = {}
        for (kind, name) in g["_colors"]:
            cols.setdefault(kind, []).append(name)
        for kind, names in cols.items():
            if sorted(names, key=lambda x: (len(x), x)) != want:
                rep.prop_fail.append(("C20: the %s colour names of a TikZ document with %d labels are not the prescribed enumeration" % (kind, n), {"case": dict(meta, family="dots")}))


def names_sequence(seed):
    """the way the TeX exporter asks: the names 0 … n-1 once per macro family, i.e. the same ascending run again and again — and scattered
    requests in between; every answer must be the name of its index, whatever was asked before.  Deterministic in the seed (the replay of one of
    these answers re-plays the whole sequence up to it)."""
    from labella.utils import int2name
    rngn = rng_for(seed, "c20-names")
    out = []
    for n in (27, 703, 760, 1400):
        for fam in range(3):
            names = [int2name(i) for i in range(n)]
            if fam:
                out.append(("names|0|%s" % ";".join(cps(x) for x in names), {"kind": "names-sequence", "start": 0, "count": n, "seq": len(out), "seq_seed": seed}))
            for _ in range(40):
                i = rngn.choice([rngn.randrange(0, 30), rngn.randrange(600, 800), rngn.randrange(17000, 19000), rngn.randrange(0, 500000)])
                out.append(("names|%d|%s" % (i, cps(int2name(i))), {"kind": "names-sequence", "start": i, "count": 1, "seq": len(out), "seq_seed": seed}))
    return out


def run_c20(tier, seed, rep, only_prop=False, scale=1):
    doc_names_c20(rep)
    from labella.utils import int2name, hex2rgb, hex2rgbstr, hex2html
    lines, metas = [], []
    N = 1000000 if tier == "quick" else 3000000
    B = 2000
    for start in (range(0, N, B - 1) if common.exhaustive_here() else ()):
        names = [int2name(i) for i in range(start, min(start + B, N + 1))]
        lines.append("names|%d|%s" % (start, ";".join(cps(n) for n in names))); metas.append({"kind": "names", "start": start, "count": len(names)})
    for ln, mt in names_sequence(seed):
        lines.append(ln); metas.append(mt)
    digs = "0123456789abcdefABCDEF"
    def addc(code):
        try:
            rgb, rs, h = hex2rgb(code), hex2rgbstr(code), hex2html(code)
        except Exception as e:
            rep.prop_fail.append(("colour conversion raised %s on %r" % (type(e).__name__, code), {"case": {"kind": "color", "code": code}}))
            return
        lines.append("color|%s|%d,%d,%d|%s|%s" % (cps(code), rgb[0], rgb[1], rgb[2], cps(rs), cps(h))); metas.append({"kind": "color", "code": code})
    for a in (digs if common.exhaustive_here() else ""):
        for b in digs:
            for c in digs:
                addc(a + b + c); addc("#" + a + b + c)
    rng = rng_for(seed, "c20")
    for _ in range(common.count(tier, 60000, 1500000) * scale):
        code = "".join(rng.choice(digs) for _ in range(6))
        addc(("#" if rng.random() < 0.5 else "") + code)
    answers = drive(lines)
    for line, meta, ans in zip(lines, metas, answers):
        f = fields(ans)
        rep.case(line, nontrivial=True, sample={"case": meta, "driver": ans} if len(rep.samples) < 2 or (meta["kind"] == "color" and len(rep.samples) < 5) else None)
        rep.count("kind=" + meta["kind"])
        payload = {"case": meta, "driver_line": line[:2000], "driver_answer": ans}
        if meta["kind"].startswith("names"):
            rep.count("names", int(f["n"]))
            prop = all(f[k] == "ok" for k in ("letters", "readback", "order", "distinct"))
            if f["model"] != "ok":
                rep.model_fail = True
        else:
            prop = all(f[k] == "ok" for k in ("rgbstr", "html", "double", "range"))
        if not prop:
            rep.prop_fail.append(("C20 predicate false on the implementation's output: " + ans, payload))
        elif f["same"] != "ok" and not only_prop:
            rep.corr_fail.append(("implementation differs from the model: " + ans, payload))


def run(pid, tier, seed, replay=None):
    rep = Report(pid, tier, seed)
    rep.model_fail = False
    st = build_and_audit(pid, rep.log)
    body = run_c19 if pid == "C19" else run_c20
    if replay:
        with open(replay) as fh:
            m = json.load(fh)["case"]
        if pid == "C19" and m["kind"] == "doc":
            texts = ["".join(chr(c) for c in t) for t in m["texts"]]
            try:
                out = tex_doc(texts)["texts"][m["index"]]
            except Exception as e:
                print("replay: the document cannot be produced / read back:", e); print("VIOLATION property=%s replay=%s" % (pid, replay)); return 1
            if out is None or out.startswith("<unexpected"):
                print("replay: the label text did not arrive in the document"); print("VIOLATION property=%s replay=%s" % (pid, replay)); return 1
            line = tex_line(texts[m["index"]], out)
        elif pid == "C20" and m["kind"] == "docnames":
            g = tex_doc(["t%d" % k for k in range(m["n"])])
            fam = {"dots": g.get("_dotnames", []), "boxes": g.get("_boxnames", []), "links": g.get("_linknames", []), "texts": sorted(g["_textdefs"], key=lambda x: (len(x), x))}[m["family"]]
            ok = fam == short_names(m["n"])
            print("replay:", "names ok" if ok else "names differ: %s" % fam[:40]); print("VIOLATION property=%s replay=%s" % (pid, replay) if not ok else "replay: holds now"); return 0 if ok else 1
        elif pid == "C19":
            from labella.tex import uni2tex
            s = "".join(chr(c) for c in m["input_cps"])
            line = tex_line(s, uni2tex(s))
        elif m["kind"] == "names-sequence":
            line = names_sequence(m["seq_seed"])[m["seq"]][0]
        elif m["kind"] == "names":
            from labella.utils import int2name
            line = "names|%d|%s" % (m["start"], ";".join(cps(int2name(i)) for i in range(m["start"], m["start"] + m["count"])))
        else:
            from labella.utils import hex2rgb, hex2rgbstr, hex2html
            code = m["code"]; rgb = hex2rgb(code)
            line = "color|%s|%d,%d,%d|%s|%s" % (cps(code), rgb[0], rgb[1], rgb[2], cps(hex2rgbstr(code)), cps(hex2html(code)))
        ans = drive([line])[0]
        print("replay:", ans)
        bad = "fail" in ans
        print("VIOLATION property=%s replay=%s" % (pid, replay) if bad else "replay: holds now")
        return 1 if bad else 0
    body(tier, seed, rep)
    if rep.model_fail:
        st["broken"].append("model-prop-fail: a proved predicate is false of the model's own output")

    def search():
        before = len(rep.prop_fail)
        body(tier, seed + 7919, rep, only_prop=True, scale=4)
        if len(rep.prop_fail) > before:
            what, payload = rep.prop_fail[before]
            del rep.prop_fail[before:]
            return {"what": what, **payload}
        return None

    if tier == "thorough" and not st["broken"]:
        if not leanchecker(pid, rep.log):
            st["broken"].append("leanchecker rejected the compiled proofs")
    rep.extra["exhaustive_part"] = ("every Unicode code point" if pid == "C19" else "every index 0..%d, every 3-digit colour code" % common.count(tier, 1000000, 3000000))
    return rep.finish(st, ASSUME19 if pid == "C19" else ASSUME20, RULE19 if pid == "C19" else RULE20, search)
