"""C07 (every datum drawn once, at its true time, linked to its own label), C08 (boxes disjoint, on the chosen side),
C09 (SVG and TikZ draw the same picture), C11 (export succeeds on every documented input)."""
import json, sys, unicodedata
from fractions import Fraction
import common
from common import Report, build_and_audit, drive, fields, rng_for, leanchecker, REPO, fr, time_limit
import timeline_gen as TG
from parse_export import parse_svg, parse_tikz

sys.path.insert(0, REPO)
ASSUME = ["modelled, not verified: xml.etree.ElementTree (escaping and parsing are inverse), '%i' / '%f' / '%.8f' / '%.16f' / str(float) formatting (exact decimal text of the float, truncation for %i)",
          "stage-wise comparison on the implementation's own intermediate values: axis domain and dots against the scale model, every captured removeOverlap call against the layout model, printed geometry against the render model fed with the implementation's node states",
          "label heights come from explicit widths (13 units); text measurement through LaTeX is outside every property's domain"]
RULES = {
    "C07": "random timelines (numeric times on a linear scale; date and datetime values with time of day on the time scale; 1-25 data (thorough: up to 80); texts with XML specials, accents, CJK, emoji, TeX specials; four directions; sizes, margins, layer gap, padding, engine options, explicit or derived domain, ticks on/off), both back-ends; non-trivial = more than one layer or a link with a stub; distinct by canonical line",
    "C08": "the timelines of C07 with label spacing >= 3 and layer gap >= 1; rectangles parsed from both exports; non-trivial = at least two boxes; distinct by canonical line",
    "C09": "the timelines of C07 plus colour options as 3-digit / 6-digit hex, lists and functions, border on/off; the two real documents parsed and compared field by field; non-trivial = at least two data; distinct by canonical line",
    "C11": "crash fuzzing of constructor + export (both back-ends): single datum, equal times, unsorted data, spans 1 ms to centuries, month ends, date / time / datetime / number times, options omitted / None / empty / partial, all directions, algorithms and bounds; non-trivial = every case (all distinct inputs)",
}


def cps(s):
    return "-" if s is None else ",".join(str(ord(c)) for c in s)


def steps_str(link):
    return "~".join(c + ":" + ":".join(fr(v) for v in vals) for c, vals in link)


def boxes_str(bs):
    return ";".join(":".join(fr(v) for v in b) for b in bs)


def trip(t):
    return "-" if t is None else "%d:%d:%d" % t


def node_states(tl):
    out = []
    for nd in tl.nodes:
        hops = [h.currentPos for h in nd.getPathFromRoot()]
        out.append("%d:%s:%s:%s:%s:%s:%s" % (nd.layerIndex, fr(nd.currentPos), fr(nd.getRoot().idealPos), fr(nd.width), fr(nd.w), fr(nd.h),
                                            ",".join(fr(h) for h in hops)))
    return ";".join(out)


def along(tl, pts):
    horiz = tl.options["direction"] in ("up", "down")
    return [p[0] if horiz else p[1] for p in pts], [p[1] if horiz else p[0] for p in pts]


def lines_for(spec, rep, want=("geom", "pic", "scale", "layout", "size")):
    """construct + export both back-ends; returns list of (line, tag) or None if an exception was recorded"""
    import impl_layout as I
    from labella.scale import LinearScale
    out = []
    docs = {}
    tls = {}
    captured = {}
    for backend in ("svg", "tikz"):
        I._state["layers"] = []
        try:
            with time_limit(60):
                if spec.get("_intruder") and spec.get("_intruder_shares_dict"):
                    # … and that other timeline is built from the SAME options dict object, which the caller edited in place in between
                    tl = TG.construct_sharing(spec, backend, spec["_intruder"])
                else:
                    tl = TG.construct(spec, backend)
                if spec.get("_intruder") and not spec.get("_intruder_shares_dict"):
                    # another, unrelated timeline is constructed (not exported) between this one's construction and its export — what this
                    # one draws is determined by its own data and options
                    try:
                        TG.construct(spec["_intruder"], backend)
                    except Exception:
                        pass
                docs[backend] = TG.export(tl)
            tls[backend] = tl
            captured[backend] = I._state["layers"]
        except RecursionError:
            rep.count("recursion-error(F3)")
            return None
        except Exception as e:
            rep.prop_fail.append(("%s export raised %s: %s" % (backend, type(e).__name__, e), {"case": {"kind": "timeline", "spec": spec}}))
            return None
        finally:
            I._state["layers"] = None
    try:
        G = {"svg": parse_svg(docs["svg"]), "tikz": parse_tikz(docs["tikz"])}
    except Exception as e:
        # the exported text no longer has the shape the parser knows: not an alarm by itself (the drawing may be equivalent), but the
        # correspondence for this timeline cannot be established
        rep.corr_fail.append(("an exported document could not be read back (%s: %s)" % (type(e).__name__, str(e)[:120]), {"case": {"kind": "timeline", "spec": spec}}))
        return None
    for backend in ("svg", "tikz"):
        tl, g = tls[backend], G[backend]
        o = tl.options
        d = o["direction"]
        ro = tl.renderer.options
        ns = o["labella"].get("nodeSpacing", 3)
        c08 = 1 if (ns >= 3 and o["layerGap"] >= 1) else 0
        dots, cross = along(tl, g["dots"])
        if any(c != 0 for c in cross):
            rep.prop_fail.append(("a dot is not on the axis line", {"case": {"kind": "timeline", "spec": spec}}))
        if "scale" in want and "domain" not in spec["options"] and len(spec["data"]) > 0:
            # the axis domain is derived from the data, so it covers them: no dot beyond either end of the axis line
            L_ = tl.getInnerDims()[1] if d in ("left", "right") else tl.getInnerDims()[0]
            # … up to the floating-point resolution of the domain values themselves (a domain end that `nice` computes as floor(x / step) * step
            # may land one ulp inside x: 4e-5 px for data 1e-3 apart at 1e6), carried through the affine map
            dm = tl.options["scale"].domain()
            dv = [float(x) if isinstance(x, (int, float)) else float(TG.to_ms(x)) for x in dm]
            span_ = abs(dv[1] - dv[0])
            tol_ = 1e-6 + (L_ * 4 * 2.0 ** -52 * max(abs(dv[0]), abs(dv[1])) / span_ if span_ > 0 else 0)
            if any(not (-tol_ <= v <= L_ + tol_) for v in dots):
                rep.prop_fail.append(("a dot lies beyond the end of the axis line although the axis domain is derived from the data (%s)" % backend, {"case": {"kind": "timeline", "spec": spec}}))
        if "geom" in want:
            out.append(("geom|%s|%s|%s|%d|%s|%s|%s|%s" % (d, fr(ro["nodeHeight"]), fr(ro["layerGap"]), c08, node_states(tl), boxes_str(g["boxes"]),
                                                         ",".join(fr(v) for v in dots), ";".join(steps_str(l) for l in g["links"])), "geom-" + backend))
        if "pipe" in want and spec.get("dyadic"):
            # the whole of Timeline.compute + this emitter against the composed model: nodes as get_nodes built them, the options, the printed boxes
            idx = {id(it): k for k, it in enumerate(tl.items)}
            by_item = {idx[id(nd.data)]: nd for nd in tl.nodes}
            items = ";".join("%s:%s:%s" % (fr(by_item[k].idealPos), fr(by_item[k].w), fr(by_item[k].h)) for k in range(len(tl.items)))
            lab = {k: v for k, v in o["labella"].items() if k in ("nodeSpacing", "lineSpacing", "minPos", "maxPos", "algorithm", "density", "stubWidth")}
            bx = ";".join("%d:%d:%s" % (nd.layerIndex, idx[id(nd.data)], ":".join(fr(v) for v in b)) for nd, b in zip(tl.nodes, g["boxes"]))
            out.append(("pipe|%s|%s|%s|%s|%s" % (d, fr(o["layerGap"]), I._eopts(lab), items, bx), "pipe-" + backend))
        if "size" in want:
            pad = o["labelPadding"]
            items = ";".join("%s:%d" % (fr(dd["width"]), 1 if TG.text_of(spec, dd) else 0) for dd in spec["data"])
            order = [nd.data.data for nd in tl.nodes]     # the emitters draw in node order
            items = ";".join("%s:%d" % (fr(dd["width"]), 1 if TG.text_of(spec, dd) else 0) for dd in order)
            if backend == "svg":
                texts = ";".join("%s>%s" % (cps(TG.text_of(spec, dd) or None), cps(t)) for dd, t in zip(order, g["texts"]))
            else:   # TeX text is judged by C09/C19; here only presence
                texts = ";".join("%s>%s" % (cps("x" if TG.text_of(spec, dd) else None), cps("x" if t is not None else None)) for dd, t in zip(order, g["texts"]))
            out.append(("size|%s|%s|%s|%s|%s|%s|%s|%s" % (d, fr(pad["left"]), fr(pad["right"]), fr(pad["top"]), fr(pad["bottom"]), items, boxes_str(g["boxes"]), texts), "size-" + backend))
        if "layout" in want and backend == "svg":
            for r in captured[backend]:
                if r["before"]:
                    out.append((I.layer_line("float", r["before"], r["after"], r["targets"], r["options"], r["xs"]), "layer"))
    # the scale: domain, dots, ticks (svg timeline's scale object; the tikz one is an independent instance checked by pic)
    if "scale" in want:
        tl, g = tls["svg"], G["svg"]
        sc = tl.options["scale"]
        L = tl.getInnerDims()[1] if tl.options["direction"] in ("left", "right") else tl.getInnerDims()[0]
        dots, _ = along(tl, g["dots"])
        order = [nd.data.data for nd in tl.nodes]
        if isinstance(sc, LinearScale):
            d0, d1 = sc.domain()
            ts = [dd["time"] for dd in spec["data"]]
            if "domain" in spec["options"]:
                if [d0, d1] != [float(x) for x in spec["options"]["domain"]]:
                    rep.prop_fail.append(("explicit domain not used", {"case": {"kind": "timeline", "spec": spec}}))
            else:
                out.append(("lnice|%s|%s|10|%s|%s" % (fr(float(min(ts))), fr(float(max(ts))), fr(d0), fr(d1)), "domain"))
            for dd, y in zip(order, dots):
                out.append(("lin|0|%s|%s|0|%s|%s|%s|%s" % (fr(d0), fr(d1), fr(L), fr(dd["time"]), fr(y), fr(dd["time"])), "dot"))
            if g["ticks"] is not None:
                tk = list(sc.ticks())
                fmt = sc.tickFormat()
                out.append(("lticks|%s|%s|10|%s|%s" % (fr(d0), fr(d1), ",".join(fr(t) for t in tk), ";".join(fmt(t) for t in tk)), "ticks"))
                tpos, _ = along(tl, [(a, b) for a, b, _ in g["ticks"]])
                if len(tpos) != len(tk) or [t for _, _, t in g["ticks"]] != [fmt(t) for t in tk]:
                    rep.prop_fail.append(("drawn ticks are not the scale's ticks with their formatted values", {"case": {"kind": "timeline", "spec": spec}}))
                for t, y in zip(tk, tpos):
                    out.append(("lin|0|%s|%s|0|%s|%s|%s|%s" % (fr(d0), fr(d1), fr(L), fr(t), fr(y), fr(t)), "tickpos"))
        else:
            dom = sc.domain()
            d0, d1 = TG.to_ms(dom[0]), TG.to_ms(dom[1])
            times = []
            for dd in tl.items:
                times.append(TG.to_ms(dd.time))
            # what the caller supplied, in ms (date -> midnight, datetime as is)
            supplied = []
            for dd in spec["data"]:
                t = dd["time"]
                supplied.append(t if spec["kind"] == "datetime" else TG.to_ms(TG.datetime.fromisoformat(t)) if spec["kind"] == "date" else None)
            if spec["kind"] in ("datetime", "date"):
                if "domain" in spec["options"]:
                    if [d0, d1] != spec["options"]["domain"]:
                        rep.prop_fail.append(("explicit domain not used", {"case": {"kind": "timeline", "spec": spec}}))
                else:
                    out.append(("tnice|%d|%d|10|%d|%d" % (min(supplied), max(supplied), d0, d1), "domain"))
                by_id = {id(dd): s for dd, s in zip([it.data for it in tl.items], supplied)}
                for nd, y in zip(tl.nodes, dots):
                    t = by_id[id(nd.data.data)]
                    out.append(("tscale|%d|%d|0|%s|%s|%s|%s" % (d0, d1, fr(L), fr(t), fr(y), fr(t)), "dot"))
                if g["ticks"] is not None:
                    tk = sc.ticks()
                    out.append(("tticks|%d|%d|10|%s" % (d0, d1, ",".join(str(TG.to_ms(t)) for t in tk)), "ticks"))
                    tpos, _ = along(tl, [(a, b) for a, b, _ in g["ticks"]])
                    if len(tpos) != len(tk):
                        rep.prop_fail.append(("drawn ticks are not the scale's ticks", {"case": {"kind": "timeline", "spec": spec}}))
                    for t, y, (_, _, text) in zip(tk, tpos, g["ticks"]):
                        out.append(("tscale|%d|%d|0|%s|%d|%s|%d" % (d0, d1, fr(L), TG.to_ms(t), fr(y), TG.to_ms(t)), "tickpos"))
                        out.append(("tfmt|%d|%s" % (TG.to_ms(t), cps(text)), "ticktext"))
    if "pic" in want:
        s, t = G["svg"], G["tikz"]
        tls_ = tls["svg"]
        sd, _ = along(tls_, s["dots"]); td, _ = along(tls_, t["dots"])
        def tick_str(g):
            if g["ticks"] is None:
                return ""
            pos, _ = along(tls_, [(a, b) for a, b, _ in g["ticks"]])
            return ";".join("%s:%s" % (fr(p), cps(txt) if txt != "" else "") for p, (_, _, txt) in zip(pos, g["ticks"]))
        alltext = "".join(x for x in s["texts"] if x)
        marks = sorted({ord(c) for c in alltext if unicodedata.category(c) in ("Mn", "Mc")})
        dec = []
        for c in sorted(set(alltext)):
            dd = unicodedata.decomposition(c).split()
            if len(dd) == 2 and not dd[0].startswith("<"):
                dec.append("%d>%d+%d" % (ord(c), int(dd[0], 16), int(dd[1], 16)))
        def cols(g):
            n = len(g["boxes"])
            rows = []
            for k in range(n):
                has_text = g["texts"][k] is not None
                rows.append([g["col_dot"][k], g["col_link"][k], g["col_bg"][k], g["col_text"][k] if has_text else None, g["col_border"][k]])
            return ";".join(trip(c) for r in rows for c in r)
        if not (t.get("continuous", True) and t.get("_names_ok", True)):
            rep.prop_fail.append(("TikZ link segments are not continuous or per-label macro names are inconsistent", {"case": {"kind": "timeline", "spec": spec}}))
        out.append(("pic|%s:%s|%s:%s|%s:%s|%s:%s|%s|%s|%s|%s|%s|%s|%s|%s|%s|%s|%s|%s|%s|%s" % (
            fr(s["axis"][0]), fr(s["axis"][1]), fr(t["axis"][0]), fr(t["axis"][1]), fr(s["main"][0]), fr(s["main"][1]), fr(t["main"][0]), fr(t["main"][1]),
            boxes_str(s["boxes"]), boxes_str(t["boxes"]), ",".join(fr(v) for v in sd), ",".join(fr(v) for v in td),
            ";".join(steps_str(l) for l in s["links"]), ";".join(steps_str(l) for l in t["links"]), tick_str(s), tick_str(t),
            ";".join(cps(x) for x in s["texts"]), ";".join(cps(x) for x in t["texts"]), ",".join(map(str, marks)), ";".join(dec), cols(s), cols(t)), "pic"))
    return out


PROP_FIELDS = {
    "_pipe": {"pipe": (["same", "layers"], [])},
    "C07": {"geom": (["box", "dot", "link"], ["counts", "linkends", "hops"]), "size": ([], ["sizes", "texts"]), "tscale": ([], ["same", "back"]),
            "lin": ([], ["same"]), "tnice": (["same"], []), "lnice": (["same"], []), "tticks": (["same"], []), "lticks": (["same"], []),
            "tfmt": (["same"], []), "layer": (["order", "pos", "xs"], [])},
    "C08": {"geom": (["box"], ["disjoint", "side", "nested"]), "layer": (["order", "pos", "xs"], ["c01"])},
    "C09": {"pic": ([], ["axis", "main", "boxes", "dots", "links", "ticks", "texts", "colors"]), "geom": (["box", "dot", "link"], [])},
}


def body(pid, tier, seed, rep, only_prop=False, scale=1):
    rng = rng_for(seed, "render")
    n = common.count(tier, 600, 6000) * scale
    want = {"C07": ("geom", "scale", "layout", "size", "pipe"), "C08": ("geom", "layout", "pipe"), "C09": ("pic", "geom")}[pid]
    lines, metas = [], []
    ndy = common.count(tier, 150, 2500) * scale if "pipe" in want else 0
    prev_spec = None
    nbig = 1 if pid in ("C07", "C08") else 0
    for k in range(n + ndy + nbig):
        spec = TG.gen_spec(rng, tier) if k < n else TG.gen_dyadic_spec(rng)
        if k >= n + ndy:
            # one long single-layer timeline (more than 200 labels in one layer, an upper bound, a burst of labels crowding against it at the far end;
            # no conflict cluster anywhere near the 249 of known finding F3): whatever is done to large layers must keep the boxes apart
            nb = rng.choice([215, 230, 260])
            L = 6000.0
            burst = rng.choice([40, 60, 80])
            ts = [k2 * (L * 0.9) / (nb - burst) + rng.uniform(0, 3) for k2 in range(nb - burst)] + [L - rng.uniform(0, 30) for _ in range(burst)]
            spec = {"kind": "number", "data": [{"time": t, "width": rng.choice([8, 10, 12])} for t in ts],
                    "options": {"direction": rng.choice(["up", "down"]), "domain": [0, L], "initialWidth": L + 40, "initialHeight": 300,
                                "labella": {"algorithm": "none", "maxPos": L, "nodeSpacing": 3}, "showTicks": False},
                    "opt_mode": "given"}
            rep.count("long-single-layer-timeline")
        elif k >= n:
            rep.count("dyadic-timeline")
        elif k % 4 == 3:
            # crowded variant: a bounded layer width that forces several layers, thick and lopsided label padding, small layer gaps —
            # where boxes of neighbouring layers and neighbouring labels come closest
            o = spec["options"]
            lab = o.setdefault("labella", {})
            lab["maxPos"] = rng.choice([120, 180, 260, 360])
            lab.pop("minPos", None)
            if lab.get("algorithm") == "none":
                lab["algorithm"] = rng.choice(["overlap", "simple"])
            o["labelPadding"] = {"left": rng.choice([2, 0, 8, 1]), "right": rng.choice([2, 0, 8]), "top": rng.choice([3, 0, 9, 12]), "bottom": rng.choice([2, 0, 9])}
            o["layerGap"] = rng.choice([1, 3, 6, 10, 25.5, 60])
            o["direction"] = rng.choice(["up", "down", "left", "right"])
            rep.count("crowded-variant")
        if k % 3 == 1 and k < n and prev_spec is not None and pid in ("C07", "C08"):
            spec["_intruder"] = {kk: vv for kk, vv in prev_spec.items() if not kk.startswith("_intruder")}
            if k % 2 == 0 and spec["kind"] == prev_spec["kind"]:
                spec["_intruder_shares_dict"] = True
            rep.count("with-intruder-timeline" + ("-sharing-the-options-dict" if spec.get("_intruder_shares_dict") else ""))
        prev_spec = spec
        if pid == "C08":
            spec["options"].setdefault("labella", {})
            if spec["options"]["labella"].get("nodeSpacing", 3) < 3:
                spec["options"]["labella"]["nodeSpacing"] = 3
        ls = lines_for(spec, rep, want)
        if ls is None:
            continue
        for line, tag in ls:
            lines.append(line); metas.append({"kind": "timeline", "tag": tag, "spec": spec})
    answers = drive(lines)
    for line, meta, ans in zip(lines, metas, answers):
        f = fields(ans)
        cmd = f["_cmd"]
        corr_keys, prop_keys = PROP_FIELDS["_pipe" if cmd == "pipe" else pid].get(cmd, ([], []))
        payload = {"case": meta, "driver_line": line[:4000], "driver_answer": ans}
        nontrivial = (cmd == "geom" and int(f.get("layers", "1")) > 1) or (cmd == "pipe" and int(f.get("nlayers", "1")) > 1) or (cmd == "pic" and int(f.get("n", "0")) > 1)
        rep.case(line, nontrivial=nontrivial, sample={"case": {"tag": meta["tag"], "kind": meta["spec"]["kind"], "n": len(meta["spec"]["data"]), "options": meta["spec"]["options"]}, "driver": ans} if nontrivial else None)
        rep.count("line=" + meta["tag"]); rep.count("dir=" + str(meta["spec"]["options"].get("direction", "default"))) if cmd in ("geom", "pic") else None
        if f.get("model") == "fail" and cmd != "layer":
            rep.model_fail = True
        if any(f.get(k) == "tie" for k in corr_keys + prop_keys):
            rep.ties += 1
            continue
        badp = [k for k in prop_keys if f.get(k) not in ("ok", "na")]
        badc = [k for k in corr_keys if f.get(k) not in ("ok", "na")]
        if badp:
            rep.prop_fail.append(("%s predicate %s false on the exported document: %s" % (pid, "/".join(badp), ans), payload))
        elif badc and not only_prop:
            rep.corr_fail.append(("export stage '%s' differs from the model (%s): %s" % (meta["tag"], "/".join(badc), ans), payload))


def body_c11(tier, seed, rep, only_prop=False, scale=1):
    rng = rng_for(seed, "c11")
    n = common.count(tier, 1500, 15000) * scale
    lines, metas = [], []
    for k in range(n):
        spec = TG.gen_spec(rng, tier, for_crash=True)
        rep.count("kind=" + spec["kind"]); rep.count("options=" + spec["opt_mode"])
        ok = True
        degenerate = len({json.dumps(d["time"]) for d in spec["data"]}) == 1 and "domain" not in spec["options"]
        for backend in ("svg", "tikz"):
            try:
                with time_limit(60):
                    tl = TG.construct(spec, backend)
                    doc = TG.export(tl)
                    if k % 12 == 0:
                        # export INTO A FILE (the other documented way to export): the file holds the document that is returned
                        import tempfile, os
                        fd, path = tempfile.mkstemp(suffix=".svg" if backend == "svg" else ".tex")
                        os.close(fd)
                        try:
                            doc2 = tl.export(path) if backend == "svg" else tl.export(path, build_pdf=False)
                            with open(path, "rb") as fh:
                                written = fh.read()
                            rep.count("export-to-file")
                            same = (written == doc2) if isinstance(doc2, bytes) else (written.decode("utf-8") == doc2)
                            if not same or doc2 != doc:
                                rep.prop_fail.append(("%s export into a file: the file / the returned document differ from the plain export" % backend, {"case": {"kind": "timeline", "spec": spec, "backend": backend}}))
                        finally:
                            os.unlink(path)
                if degenerate and spec["kind"] != "time":
                    g = parse_svg(doc) if backend == "svg" else parse_tikz(doc)
                    dots, _ = along(tl, g["dots"])
                    if any(v != 0 for v in dots):
                        rep.prop_fail.append(("degenerate domain: a dot is not at the start of the axis", {"case": {"kind": "timeline", "spec": spec, "backend": backend}}))
            except RecursionError:
                rep.count("recursion-error(F3)")
            except Exception as e:
                ok = False
                rep.prop_fail.append(("%s export raised %s: %s" % (backend, type(e).__name__, e), {"case": {"kind": "timeline", "spec": spec, "backend": backend}}))
        rep.case(json.dumps(spec, sort_keys=True, default=str), nontrivial=True, sample={"kind": spec["kind"], "n": len(spec["data"]), "options": spec["options"], "opt_mode": spec["opt_mode"]} if k < 3 else None)
        if degenerate:
            rep.count("degenerate-domain")
    # large inputs of the claim: up to 1000 labels with a conflict cluster of up to 200 labels
    for k in range(common.count(tier, 2, 8)):
        nlab = 300 if tier == "quick" else rng.choice([400, 1000])
        cluster = 200 if k == 0 else rng.choice([150, 199, 200])      # the largest cluster of the claim is always tried
        # one conflict cluster of `cluster` labels at one instant (it spreads over at most cluster * 13 px from the axis start); every other
        # label keeps clear of it and of its neighbours (grid with a little jitter), so that no solver block exceeds the cluster — the claim
        # is "conflict clusters of up to 200 labels", larger ones are known finding F3.  The first input puts the whole cluster at exactly one
        # instant in one layer: the solver then walks the block's chain from one end, the deepest walk a cluster of that size can cause
        rest = nlab - cluster
        gap = 42000.0 / rest
        ts = [500 + (0 if k == 0 else rng.random() * 0.001) for _ in range(cluster)] + [7500 + (k + 0.5) * gap + rng.uniform(-7, 7) for k in range(rest)]
        widths = [rng.choice([10, 5]) for _ in range(cluster)] + [rng.choice([10, 5] if gap * 0.4 < 30 else [10, 20, 5]) for _ in range(rest)]
        spec = {"kind": "number", "data": [{"time": t, "width": w} for t, w in zip(ts, widths)],
                "options": {"direction": rng.choice(["up", "right"]), "labella": ({"algorithm": "none", "maxPos": None} if k == 0 else {"algorithm": rng.choice(["overlap", "none"]), "maxPos": rng.choice([None, 20000])}), "domain": [0, 50000], "initialWidth": 20040, "initialHeight": 20040},
                "opt_mode": "given"}
        rep.count("large-input")
        for backend in ("svg", "tikz"):
            try:
                TG.export(TG.construct(spec, backend))
            except Exception as e:
                rep.prop_fail.append(("%s export of %d labels (cluster of %d) raised %s: %s" % (backend, nlab, cluster, type(e).__name__, e), {"case": {"kind": "timeline", "spec": spec, "backend": backend}}))
        rep.case("large-%d" % k, nontrivial=True)
    # F3: the recorded known finding, demonstrated (not part of the claim)
    from common import load_known
    known = {k["id"]: k for k in load_known()["known"] if k["property"] == "C11"}
    if "F3" in known:
        spec = {"kind": "number", "data": [{"time": 5 + k * 1e-6, "width": 10} for k in range(300)], "options": {"domain": [0, 10]}, "opt_mode": "given"}
        try:
            TG.export(TG.construct(spec, "svg"))
            rep.log("F3 no longer reproduces (300 labels at one position exported fine)")
        except RecursionError:
            rep.known_seen["F3"] = known["F3"]["message"]
        except Exception as e:
            rep.prop_fail.append(("svg export raised %s: %s" % (type(e).__name__, e), {"case": {"kind": "timeline", "spec": spec, "backend": "svg"}}))


def run(pid, tier, seed, replay=None):
    rep = Report(pid, tier, seed)
    rep.model_fail = False
    st = build_and_audit(pid, rep.log)
    the_body = body_c11 if pid == "C11" else (lambda *a, **k: body(pid, *a, **k))
    if replay:
        with open(replay) as fh:
            m = json.load(fh)["case"]
        spec = m["spec"]
        r2 = Report(pid, tier, seed)
        if pid == "C11":
            bad = False
            for backend in ("svg", "tikz"):
                try:
                    TG.export(TG.construct(spec, backend))
                except Exception as e:
                    print("replay: %s export raised %s: %s" % (backend, type(e).__name__, e)); bad = True
        else:
            want = {"C07": ("geom", "scale", "layout", "size"), "C08": ("geom", "layout"), "C09": ("pic", "geom")}[pid]
            ls = lines_for(spec, r2, want) or []
            answers = drive([l for l, _ in ls])
            bad = bool(r2.prop_fail)
            for (line, tag), ans in zip(ls, answers):
                f = fields(ans)
                ck, pk = PROP_FIELDS[pid].get(f["_cmd"], ([], []))
                if any(f.get(k) not in ("ok", "na", "tie") for k in ck + pk):
                    print("replay:", tag, ans); bad = True
        print("VIOLATION property=%s replay=%s" % (pid, replay) if bad else "replay: holds now")
        return 1 if bad else 0
    the_body(tier, seed, rep)
    if rep.model_fail:
        st["broken"].append("model-prop-fail: a property predicate is false of the model's own output")

    def search():
        before = len(rep.prop_fail)
        the_body(tier, seed + 7919, rep, only_prop=True, scale=3)
        if len(rep.prop_fail) > before:
            what, payload = rep.prop_fail[before]
            del rep.prop_fail[before:]
            return {"what": what, **payload}
        return None

    if tier == "thorough" and not st["broken"]:
        if not leanchecker(pid, rep.log):
            st["broken"].append("leanchecker rejected the compiled proofs")
    return rep.finish(st, ASSUME, RULES[pid], search)
