"""Generators of layers, label sets and engine configurations (C01–C06).  Every random choice comes
from the rng handed in, which derives from VERIF_SEED."""
from fractions import Fraction


def pick_positions(rng, n, span):
    style = rng.choice(["int", "half", "quarter", "double", "cluster", "ties", "d1"])
    if style == "int":
        return [rng.randint(0, span) for _ in range(n)]
    if style == "half":
        return [rng.randint(0, 2 * span) / 2 for _ in range(n)]
    if style == "quarter":
        return [rng.randint(0, 4 * span) / 4 for _ in range(n)]
    if style == "double":
        return [rng.uniform(-0.1 * span, 1.1 * span) for _ in range(n)]
    if style == "cluster":
        c = rng.uniform(0, span)
        r = rng.choice([0.5, 2, 10, 30])
        return [c + rng.uniform(-r, r) if rng.random() < 0.8 else rng.uniform(0, span) for _ in range(n)]
    if style == "ties":
        base = [rng.randint(0, span) / rng.choice([1, 2]) for _ in range(max(1, n // 3))]
        return [rng.choice(base) for _ in range(n)]
    # d1: pairs slightly too close, so that several small violations sit behind larger ones
    out, x = [], rng.randint(0, 50) + 0.5
    while len(out) < n:
        out.append(x)
        x += rng.choice([4.998, 4.999, 5.0, 96.5, 100.0, 5.0015])
    return out


def pick_widths(rng, n):
    style = rng.choice(["const", "int", "half", "double", "mixed"])
    if style == "const":
        w = rng.choice([1, 2, 2.01, 5, 10, 20, 50])
        return [w] * n
    if style == "int":
        return [rng.randint(1, 30) for _ in range(n)]
    if style == "half":
        return [rng.randint(1, 60) / 2 for _ in range(n)]
    if style == "double":
        return [rng.uniform(0.5, 40) for _ in range(n)]
    return [rng.choice([0.5, 1, 3, 10, 54, rng.uniform(0.5, 80)]) for _ in range(n)]


def pick_ro_opts(rng, items):
    """options for removeOverlap; sometimes omitted keys"""
    o = {}
    if rng.random() < 0.04:
        return o
    ns = rng.choice([3, 3, 0, 0.5, 1, 5, 2.5])
    if rng.random() < 0.8:
        o["nodeSpacing"] = ns
    ns_eff = o.get("nodeSpacing", 3)
    mn = rng.choice(["omit", 0, None, -20, 10.5, 30])
    if mn != "omit":
        o["minPos"] = mn
    mn_eff = 0 if mn == "omit" else mn
    need = sum(w for _, w, _ in items) + ns_eff * (len(items) - 1)
    mx = rng.choice(["omit", None, "roomy", "exact", "short1", "gross", "half"])
    base = mn_eff if mn_eff is not None else 0
    if mx == "roomy":
        o["maxPos"] = base + 2 * need + 50
    elif mx == "exact":
        o["maxPos"] = base + need
    elif mx == "short1":
        o["maxPos"] = base + need - 1
    elif mx == "gross":
        o["maxPos"] = base + need / 4
    elif mx == "half":
        o["maxPos"] = base + int(need) + 0.5
    elif mx is None:
        o["maxPos"] = None
    if rng.random() < 0.1:
        o["lineSpacing"] = rng.choice([0, 1, 2, 4])
    return o


def gen_sparse_layer(rng):
    """a layer in which (almost) nothing collides at its targets: items far apart, plus a few stub pairs whose targets are closer than two
    stubs may be (stub width + line spacing) though farther apart than the label spacing alone would demand, and a few items that just
    touch.  Whatever shortcut an implementation takes for layers that "need no work" must still keep the stub pairs apart."""
    n = rng.choice([2, 3, 5, 8, 12])
    ns = rng.choice([0, 0, 0.5, 1, 1.5, 3])
    ls = rng.choice([2, 2, 2, 4, 1])
    sw = rng.choice([1, 1, 0, 2])
    items, x = [], rng.choice([0, 10, 37.5])
    for _ in range(n):
        w = rng.choice([5, 10, 20, 33.5])
        kind = rng.random()
        if kind < 0.45:          # a stub pair (or triple) closer than stubs may be
            items.append((x, sw, True))
            for _k in range(rng.choice([1, 1, 2])):
                x += sw + rng.choice([ns, ns + 0.25, (ns + ls) / 2, max(ns, ls - 0.5)])
                items.append((x, sw, True))
        elif kind < 0.6:         # a label with a stub right beside it (label spacing applies)
            items.append((x, w, False))
            x += (w + sw) / 2 + ns + rng.choice([0, 0, 0.5])
            items.append((x, sw, True))
        else:
            items.append((x, w, False))
        x += w + 40 + rng.choice([0, 3, 25.5])
    rng.shuffle(items)
    o = {"nodeSpacing": ns, "minPos": rng.choice([None, 0, -50]), "maxPos": rng.choice([None, x + 100])}
    if ls != 2 or rng.random() < 0.3:
        o["lineSpacing"] = ls
    return items, o


def gen_huge_layer(rng):
    """positions of the magnitude of epoch milliseconds (an engine fed raw timestamps): wide labels that conflict by a little — a tolerance that
    grows with the magnitude of the positions would swallow such conflicts"""
    n = rng.choice([2, 3, 5, 8])
    base = rng.choice([1.7e12, 9.4e11, 2.5e13])
    w = rng.choice([8.64e7, 3.6e6, 1000.0])
    items, x = [], base
    for _ in range(n):
        items.append((x, w, rng.random() < 0.2))
        x += w + rng.choice([-100.0, -3.0, -0.5, 0.0, 40.0, w / 2])
    rng.shuffle(items)
    return items, {"nodeSpacing": rng.choice([3, 0, 1]), "minPos": None, "maxPos": None}


def gen_offset_layer(rng):
    """a crowded layer between two bounds FAR from the origin (an axis that starts at 1e6 … 1e8) with labels of unequal widths: the wall
    weights (1e10) times such positions leave rounding noise in the block sums, and the solver then really splits blocks on removeOverlap's
    instances (in exact arithmetic it never does: C05.path_first_pass_multipliers_nonneg)"""
    base = rng.choice([1e6, 1e7, 1e8, 1e8])        # not beyond: from about 5e8 on the unchanged solver can oscillate for ever (known finding F5)
    n = rng.randint(3, 12)
    items = [(base + rng.randint(0, 300), float(rng.choice([10, 20, 40, 60, 80])), rng.random() < 0.05) for _ in range(n)]
    return items, {"nodeSpacing": rng.choice([3, 3, 3, 1, 5]), "minPos": base, "maxPos": base + rng.choice([300, 400, 600])}


def gen_layer(rng, tier):
    if rng.random() < 0.04:
        return gen_huge_layer(rng)
    if rng.random() < 0.10:
        return gen_offset_layer(rng)
    if rng.random() < 0.12:
        return gen_sparse_layer(rng)
    big = tier != "quick"
    n = rng.choice([1, 2, 3, 4, 5, 8, 12, 20, 40] + ([60] if not big else [80, 120, 200]))
    span = rng.choice([50, 200, 1000, 100000 if rng.random() < 0.2 else 1000])
    ps = pick_positions(rng, n, span)
    ws = pick_widths(rng, n)
    stubp = rng.choice([0, 0, 0.3, 0.8, 1.0])
    sw = rng.choice([0, 1, 1, 2, 5])
    items = []
    for p, w in zip(ps, ws):
        if rng.random() < stubp:
            items.append((p, sw if sw > 0 or rng.random() < 0.5 else 1, True))
        else:
            items.append((p, w, False))
    rng.shuffle(items)
    return items, pick_ro_opts(rng, items)


def gen_labels(rng, tier, nmax=None):
    big = tier != "quick"
    n = rng.choice([1, 2, 3, 4, 6, 10, 16, 25, 40] + ([60] if not big else [100, 200]))
    if nmax:
        n = min(n, nmax)
    span = rng.choice([60, 300, 1000])
    ps = pick_positions(rng, n, span)
    ws = pick_widths(rng, n)
    if rng.random() < 0.06:  # a few labels of width 0 (markers without extent: they occupy an empty interval)
        ws = [0 if rng.random() < 0.3 else w for w in ws]
    if rng.random() < 0.3:  # labels that share a position share a width (C06 interchangeability)
        seen = {}
        ws = [seen.setdefault(p, w) for p, w in zip(ps, ws)]
    return list(zip(ps, ws)), span


def gen_force_opts(rng, labels, span):
    o = {}
    if rng.random() < 0.05:
        return o                # every default
    if rng.random() < 0.7:
        o["nodeSpacing"] = rng.choice([3, 0, 0.5, 1, 5, 2.5])
    mn = rng.choice(["omit", "omit", 0, None, -20, 10.5, 30])
    if mn != "omit":
        o["minPos"] = mn
    base = 0 if mn == "omit" else (mn if mn is not None else 0)
    need = sum(w for _, w in labels) + o.get("nodeSpacing", 3) * (len(labels) - 1)
    mx = rng.choice(["omit", None, "span", "need", "need/2", "need/3", "need/6", "tight", "fit-density"] + (["zero"] if rng.random() < 0.25 else []))
    if mx == "zero":            # both bounds equal: a layer of width 0 (treated as "no layer width": everything in one layer, all of it spills)
        o["maxPos"] = base
    elif mx == "span":
        o["maxPos"] = base + span
    elif mx == "need":
        o["maxPos"] = base + need
    elif mx == "need/2":
        o["maxPos"] = base + need / 2
    elif mx == "need/3":
        o["maxPos"] = base + int(need / 3) + 1
    elif mx == "need/6":
        o["maxPos"] = base + int(need / 6) + 1
    elif mx == "tight":
        o["maxPos"] = base + max(w for _, w in labels)
    elif mx == "fit-density":
        o["maxPos"] = base + need / o.get("density", 0.85) if False else base + need * 1.25
    elif mx is None:
        o["maxPos"] = None
    if rng.random() < 0.1 and len(labels) >= 2:
        # a layer that is EXACTLY full: density 1 and a layer width equal to the required width, computed the way the code computes it on the labels
        # in axis order — whether the labels fit must not depend on the order in which the caller lists them (not even in the last binary digit)
        ns = o.get("nodeSpacing", 3)
        tot = 0
        for _p, w in sorted(labels, key=lambda l: l[0]):
            tot += w + ns
        tot -= ns
        o["density"] = 1
        o["minPos"] = 0
        import math
        # … or one unit in the last place short of it: then the labels do NOT fit, whatever order they are listed in
        o["maxPos"] = rng.choice([tot, math.nextafter(tot, 0), math.nextafter(tot, 0), math.nextafter(tot, math.inf)])
        o["algorithm"] = rng.choice(["simple", "simple", "overlap"])      # round-robin layering shows a changed layer estimate at once
    elif rng.random() < 0.6:
        o["algorithm"] = rng.choice(["overlap", "overlap", "simple", "none"])
    if rng.random() < 0.5:
        o["density"] = rng.choice([0.85, 0.75, 1, 0.5, 0.3, 0.999])
    if rng.random() < 0.5:
        o["stubWidth"] = rng.choice([1, 0, 2, 5])
    if rng.random() < 0.15:
        o["lineSpacing"] = rng.choice([0, 1, 4, 14, 2])       # the engine forwards it to removeOverlap only when the caller sets it
    if rng.random() < 0.05:
        o["layerWidth"] = rng.choice([50, 400, 1000, 10])     # not an engine option: the layer width is maxPos - minPos, whatever a shared application dict carries
    return o


def dyadic(x):
    """numbers whose arithmetic is exact in binary floating point at these magnitudes stay as they are;
    everything is sent to the exact mode as the Fraction of the float, so any value is fine"""
    return x


# ---- directed corpus (past failures first) -------------------------------------------------------
CORPUS_LAYERS = [
    # D1: the pre-repair satisfy() performed one merge per call and solve() stopped early
    ("D1-six-labels", [(100, 2.01, False), (104.998, 2.01, False), (200, 2.01, False), (204.999, 2.01, False),
                        (301.5, 2.01, False), (306.5, 2.01, False)], {"minPos": None, "nodeSpacing": 3}),
    ("D1-chain", [(0, 1, False), (0.99, 1, False), (1.985, 1, False), (2.98, 1, False), (3.975, 1, False), (4.97, 1, False)],
     {"minPos": None, "nodeSpacing": 0}),
    # F2: stub, narrow label, stub with no label spacing
    ("F2-stub-label-stub", [(10, 1, True), (10, 0.5, False), (10, 1, True)], {"minPos": None, "nodeSpacing": 0}),
    ("walls-infeasible", [(5, 10, False), (6, 10, False), (7, 10, False)], {"minPos": 0, "maxPos": 20, "nodeSpacing": 3}),
    ("exact-fit", [(50, 10, False), (50, 10, False), (50, 10, False)], {"minPos": 0, "maxPos": 36, "nodeSpacing": 3}),
    ("rounding-ties", [(0.5, 1, False), (2.5, 1, False), (4.5, 1, False)], {"minPos": None, "nodeSpacing": 0}),
    ("single", [(7.5, 3, False)], {}),
    # layers far from the origin on which the FLOAT run splits a block (wall weight 1e10 x offset 1e8 leaves rounding noise in the block sums);
    # in exact arithmetic removeOverlap's instances never split.  Found with the seeded change C01-populate-split-iterative-leftover-var.
    ("far-offset-split-3", [(1e8 + 204, 40.0, False), (1e8 + 284, 60.0, False), (1e8 + 169, 80.0, False)], {"minPos": 1e8, "maxPos": 1e8 + 300, "nodeSpacing": 3}),
    ("far-offset-split-5a", [(1e8 + 33, 10.0, False), (1e8 + 166, 20.0, False), (1e8 + 213, 40.0, False), (1e8 + 214, 10.0, False), (1e8 + 232, 80.0, False)],
     {"minPos": 1e8, "maxPos": 1e8 + 300, "nodeSpacing": 3}),
    ("far-offset-split-5b", [(1e8 + 148, 10.0, False), (1e8 + 179, 80.0, False), (1e8 + 84, 60.0, False), (1e8 + 43, 60.0, False), (1e8 + 132, 40.0, False)],
     {"minPos": 1e8, "maxPos": 1e8 + 300, "nodeSpacing": 3}),
    ("far-offset-split-5c", [(1e8 + 157, 40.0, False), (1e8 + 195, 10.0, False), (1e8 + 32, 80.0, False), (1e8 + 101, 60.0, False), (1e8 + 117, 10.0, False)],
     {"minPos": 1e8, "maxPos": 1e8 + 600, "nodeSpacing": 3}),
    ("far-offset-split-6", [(1e8 + 52, 10.0, False), (1e8 + 214, 80.0, False), (1e8 + 168, 60.0, False), (1e8 + 20, 10.0, False), (1e8 + 58, 10.0, False), (1e8 + 285, 40.0, False)],
     {"minPos": 1e8, "maxPos": 1e8 + 300, "nodeSpacing": 3}),
]
