#!/usr/bin/env python3
"""par_ingest.py <jobs> <spec> [<spec> …]   with spec = <scratch worktree>:<slug>:<Cxx,Cxx,…>
Evaluates several seeded changes IN PARALLEL without touching /repo: each job gets its own git worktree of /repo (patch applied there) and
its own copy of /verif (so that the regenerated constants and the lake build of one job cannot disturb another); checks run with
LABELLA_REPO pointing at the job's worktree.  Results are recorded in seeded/<Cxx>-<slug>/meta.json exactly as ingest_seed.py does."""
import json, os, shutil, subprocess, sys
from concurrent.futures import ThreadPoolExecutor
V = os.path.normpath(os.path.join(os.path.dirname(os.path.abspath(__file__)), ".."))
jobs = int(sys.argv[1])
specs = [a.split(":") for a in sys.argv[2:]]
ROOT = "/tmp/par_ingest"
os.makedirs(ROOT, exist_ok=True)


def sh(cmd, **kw):
    return subprocess.run(cmd, shell=True, capture_output=True, text=True, **kw)


def cls(rc, v):
    if rc == 0: return "ok"
    if rc == 1: return "VIOLATION (no-failing-input-found)" if "no-failing-input-found" in v else "VIOLATION (failing input)"
    return "infrastructure rc=%s" % rc


def one(k_spec):
    k, (wt, slug, props) = k_spec
    props = props.split(",")
    src = os.path.join(wt, "seed_out")
    meta = json.load(open(os.path.join(src, "meta.json")))
    pid = meta["property"]
    dst = os.path.join(V, "seeded", "%s-%s" % (pid, slug))
    os.makedirs(dst, exist_ok=True)
    for f in ("patch.diff", "demo.py", "meta.json"):
        shutil.copy(os.path.join(src, f), os.path.join(dst, f))
    R = os.path.join(ROOT, "repo%d" % k)
    W = os.path.join(ROOT, "verif%d" % k)
    sh("git -C /repo worktree remove --force %s" % R); shutil.rmtree(R, ignore_errors=True)
    assert sh("git -C /repo worktree add --detach %s HEAD" % R).returncode == 0
    shutil.rmtree(W, ignore_errors=True)
    sh("rsync -a --exclude replays --exclude .git --exclude seeded --exclude design-spikes %s/ %s/" % (V, W))
    demo_clean = sh("cd %s && /venv/bin/python %s/demo.py" % (R, dst), timeout=900).returncode
    assert sh("git -C %s apply %s/patch.diff" % (R, dst)).returncode == 0, "patch does not apply: " + dst
    tests = sh("cd %s && /venv/bin/python -m pytest -q -p no:cacheprovider tests 2>&1 | tail -1" % R).stdout.strip()
    demo_patched = sh("cd %s && /venv/bin/python %s/demo.py" % (R, dst), timeout=900).returncode
    checks = {}
    for p in props:
        r = sh("cd %s && LABELLA_REPO=%s VERIF_JOBS=3 ./check %s --tier quick" % (W, R, p), timeout=3000)
        v = [l for l in r.stdout.splitlines() if l.startswith("VIOLATION")]
        checks[p] = cls(r.returncode, v[0] if v else "")
    old = meta.get("ran", {}).get("checks", {})
    meta["tests_pass"] = tests.startswith("109 passed")
    meta["ran"] = {"tests": tests, "demo_clean_rc": demo_clean, "demo_patched_rc": demo_patched, "checks": dict(sorted({**old, **checks}.items())),
                   "how": "patch applied in a scratch worktree of /repo; pytest (109 must pass); demo.py must exit 1 (0 on the unchanged tree); ./check <ids> --tier quick with LABELLA_REPO pointing at the patched worktree (harness/par_ingest.py)"}
    json.dump(meta, open(os.path.join(dst, "meta.json"), "w"), indent=1)
    ok = meta["tests_pass"] and demo_clean == 0 and demo_patched == 1
    sh("git -C /repo worktree remove --force %s" % R); shutil.rmtree(W, ignore_errors=True)
    if ok:
        sh("git -C /repo worktree remove --force %s" % wt)
    return "%s %s %s: own check %s | %s" % ("CONFIRMED" if ok else "NOT-CONFIRMED(tests=%s clean=%s patched=%s)" % (tests, demo_clean, demo_patched), pid, slug, checks.get(pid), checks)


with ThreadPoolExecutor(max_workers=jobs) as ex:
    for line in ex.map(one, enumerate(specs)):
        print(line, flush=True)
