#!/usr/bin/env python3
"""apply a seeded change to /repo, confirm tests pass and its demo fails, run checks, undo.  Usage: try_seed.py <seed dir> [Cxx ...]"""
import json, os, subprocess, sys, time
from concurrent.futures import ThreadPoolExecutor
V = os.path.normpath(os.path.join(os.path.dirname(os.path.abspath(__file__)), ".."))
d = os.path.abspath(sys.argv[1])
props = sys.argv[2:] or ["C%02d" % i for i in range(1, 21)]
patch = os.path.join(d, "patch.diff")


def sh(cmd, **kw):
    return subprocess.run(cmd, shell=True, capture_output=True, text=True, **kw)


assert sh("git -C /repo status --porcelain").stdout.strip() == "", "/repo not clean"
r = sh("git -C /repo apply --check %s" % patch)
if r.returncode:
    print("patch does not apply:", r.stderr); sys.exit(2)
demo_clean = sh("cd /repo && /venv/bin/python %s/demo.py" % d, timeout=600).returncode
sh("git -C /repo apply %s" % patch)
out = {"dir": d}
try:
    t = sh("cd /repo && /venv/bin/python -m pytest -q -p no:cacheprovider tests 2>&1 | tail -1")
    out["tests"] = t.stdout.strip()
    out["demo_clean_rc"] = demo_clean
    out["demo_patched_rc"] = sh("cd /repo && /venv/bin/python %s/demo.py" % d, timeout=600).returncode

    def run(p):
        t0 = time.time()
        r = sh("cd %s && VERIF_SEED=%s ./check %s --tier quick" % (V, os.environ.get("VERIF_SEED", "0"), p), timeout=3000)
        v = [l for l in r.stdout.splitlines() if l.startswith("VIOLATION")]
        return p, r.returncode, (v[0] if v else ""), round(time.time() - t0)
    with ThreadPoolExecutor(max_workers=6) as ex:
        res = list(ex.map(run, props))
    out["checks"] = {p: {"rc": rc, "violation": v, "s": s} for p, rc, v, s in res}
finally:
    sh("git -C /repo checkout -- .")
caught = [p for p in props if out["checks"][p]["rc"] == 1]
nofound = [p for p in caught if "no-failing-input-found" in out["checks"][p]["violation"]]
infra = [p for p in props if out["checks"][p]["rc"] not in (0, 1)]
print(json.dumps({"tests": out["tests"], "demo_clean_rc": out["demo_clean_rc"], "demo_patched_rc": out["demo_patched_rc"],
                  "caught_by": caught, "of_which_no_failing_input": nofound, "infra": infra}, indent=1))
json.dump(out, open(os.path.join(d, "try_result.json"), "w"), indent=1)
