#!/venv/bin/python
"""Translator for the declarative fragments of /repo: re-reads labella/*.py (module-level values by
import, literals inside function bodies with `ast`) and regenerates lean/Labella/Gen/Constants.lean
as exact rationals / strings.  Models and theorems refer to these names, so a changed constant
re-opens exactly the proof obligations that depend on it.

Usage: extract_constants.py [--repo /repo] [--out path]   (exit 0 written/unchanged, 3 = a constant
could not be located: the previous file is kept and the caller reports a broken translator tie)."""
import ast, sys, os, json, importlib, re
from fractions import Fraction

REPO = os.environ.get("LABELLA_REPO", "/repo")
OUT = os.path.join(os.path.dirname(os.path.abspath(__file__)), "..", "lean", "Labella", "Gen", "Constants.lean")


def rat(x):
    if x is None:
        return None
    if isinstance(x, bool):
        raise TypeError("bool")
    f = Fraction(x)  # exact value of a float
    return f


def lean_rat(f):
    if f.denominator == 1:
        return "(%d : Rat)" % f.numerator if f.numerator >= 0 else "(-%d : Rat)" % (-f.numerator)
    s = "%d / %d" % (abs(f.numerator), f.denominator)
    return "(%s%s : Rat)" % ("-" if f < 0 else "", "(" + s + ")") if f < 0 else "(%s : Rat)" % s


def lean_opt_rat(x):
    return "none" if x is None else "some %s" % lean_rat(rat(x))


def parse(path):
    with open(os.path.join(REPO, path)) as fh:
        return ast.parse(fh.read())


def find_func(tree, name, cls=None):
    for node in ast.walk(tree):
        if cls and isinstance(node, ast.ClassDef) and node.name == cls:
            for sub in ast.walk(node):
                if isinstance(sub, ast.FunctionDef) and sub.name == name:
                    return sub
        if not cls and isinstance(node, ast.FunctionDef) and node.name == name:
            return node
    raise KeyError("function %s.%s" % (cls, name))


def num_literals(node):
    out = []
    for n in ast.walk(node):
        if isinstance(n, ast.Constant) and isinstance(n.value, (int, float)) and not isinstance(n.value, bool):
            out.append(n.value)
    return out


def the_one(vals, what):
    s = set(vals)
    if len(s) != 1:
        raise KeyError("%s: expected one distinct literal, found %r" % (what, sorted(s)))
    return s.pop()


SECTIONS = [('vpsc', '# ---- vpsc\nC["lagrangianTolerance"] = ("rat", rat(vpsc.Solver.LAGRANGIAN_TOLERANCE))\nC["zeroUpperBound"] = ("rat", rat(vpsc.Solver.ZERO_UPPERBOUND))\nt = parse("labella/vpsc.py")\nsolve = find_func(t, "solve", "Solver")\nC["solveCostTolerance"] = ("rat", rat(the_one([v for v in num_literals(solve)], "Solver.solve literal")))\ndfdv = find_func(t, "dfdv", "Variable")\nC["dfdvFactor"] = ("rat", rat(the_one(num_literals(dfdv), "Variable.dfdv literal")))'), ('removeOverlap', '# ---- removeOverlap\nfor k in ("lineSpacing", "nodeSpacing"):\n    C["ro_" + k] = ("rat", rat(ro.DEFAULT_OPTIONS[k]))\nfor k in ("minPos", "maxPos"):\n    C["ro_" + k] = ("optrat", ro.DEFAULT_OPTIONS[k])\nt = parse("labella/removeOverlap.py")\nf = find_func(t, "removeOverlap")\nwalls = []\nfor n in ast.walk(f):\n    if isinstance(n, ast.Call) and isinstance(n.func, ast.Attribute) and n.func.attr == "Variable" and len(n.args) >= 2:\n        if isinstance(n.args[1], ast.Constant):\n            walls.append(n.args[1].value)\n        elif isinstance(n.args[1], ast.Name) and isinstance(getattr(ro, n.args[1].id, None), (int, float)):\n            walls.append(getattr(ro, n.args[1].id))      # a module-level named constant\nif len(walls) != 2:\n    raise KeyError("removeOverlap wall variables: expected 2, found %d" % len(walls))\nC["wallWeight"] = ("rat", rat(the_one(walls, "wall weight")))\nhalves = [n for n in ast.walk(f) if isinstance(n, ast.BinOp) and isinstance(n.op, ast.Div) and isinstance(n.right, ast.Constant)]\nC["halfDivisor"] = ("rat", rat(the_one([n.right.value for n in halves], "removeOverlap divisors")))'), ('distributor / force defaults', '# ---- distributor / force defaults\nfor k in ("layerWidth", "density", "nodeSpacing", "stubWidth"):\n    C["dist_" + k] = ("rat", rat(dist.DEFAULT_OPTIONS[k]))\nC["dist_algorithm"] = ("str", dist.DEFAULT_OPTIONS["algorithm"])\nfor k in ("nodeSpacing", "density", "stubWidth"):\n    C["force_" + k] = ("rat", rat(force.DEFAULT_OPTIONS[k]))\nfor k in ("minPos", "maxPos"):\n    C["force_" + k] = ("optrat", force.DEFAULT_OPTIONS[k])\nC["force_algorithm"] = ("str", force.DEFAULT_OPTIONS["algorithm"])\nt = parse("labella/distributor.py")\nf = find_func(t, "algorithm_overlap", "Distributor")\ninner = [n for n in ast.walk(f) if isinstance(n, ast.While) and isinstance(n.test, ast.BoolOp)]\nif len(inner) != 1:\n    raise KeyError("algorithm_overlap inner loop")\nC["overlapMinLabels"] = ("rat", rat(the_one([n.comparators[0].value for n in ast.walk(inner[0].test)\n                                             if isinstance(n, ast.Compare) and isinstance(n.comparators[0], ast.Constant)],\n                                            "len(nodesInCurrentLayer) > k")))'), ('linear scale ticks', '# ---- linear scale ticks\nt = parse("labella/scale.py")\nf = find_func(t, "d3_scale_linearTickRange")\ncmps = []\nmuls = []\nfor n in ast.walk(f):\n    if isinstance(n, ast.If) and isinstance(n.test, ast.Compare) and isinstance(n.test.left, ast.Name) and n.test.left.id == "err":\n        cmps.append((n.test.comparators[0].value, type(n.test.ops[0]).__name__))\n        aug = n.body[0]\n        muls.append(aug.value.value)\norder = sorted(zip(cmps, muls))\nif len(order) != 3 or any(op != "LtE" for (_, op), _ in order):\n    raise KeyError("linearTickRange thresholds: %r" % (order,))\nC["tickErr10"], C["tickErr5"], C["tickErr2"] = [("rat", rat(c[0])) for c, _ in order]\nC["tickMul10"], C["tickMul5"], C["tickMul2"] = [("rat", rat(m)) for _, m in order]\ndm = [n for n in ast.walk(f) if isinstance(n, ast.Assign) and isinstance(n.targets[0], ast.Name) and n.targets[0].id == "m"]\nC["tickDefaultCount"] = ("rat", rat(the_one([n.value.value for n in dm], "default m")))\nf = find_func(t, "d3_scale_linearPrecision")\nC["precisionFudge"] = ("rat", rat(the_one([v for v in num_literals(f) if v not in (10, 0)], "precision fudge")))\nC["timeScaleSteps"] = ("ratlist", [rat(x) for x in scale.d3_time_scaleSteps])\nnames = {id(v): k for k, v in scale.d3_time.items() if not callable(v) or hasattr(v, "floor")}\nmeths = []\nfor iv, k in scale.d3_time_scaleLocalMethods:\n    meths.append((names[id(iv)], k))\nC["timeScaleMethods"] = ("raw", "[" + ", ".join(\'("%s", %d)\' % (n, k) for n, k in meths) + "]", "List (String × Nat)")\nf = find_func(t, "tickMethod", "TimeScale")\nC["yearMillis"] = ("rat", rat(the_one([v for v in num_literals(f) if v > 1000], "tickMethod year length")))'), ('renderer / timeline defaults', '# ---- renderer / timeline defaults\nfor k in ("layerGap", "nodeHeight"):\n    C["rend_" + k] = ("rat", rat(rend.DEFAULT_OPTIONS[k]))\nC["rend_direction"] = ("str", rend.DEFAULT_OPTIONS["direction"])\nD = tl.DEFAULT_OPTIONS\nfor side in ("left", "right", "top", "bottom"):\n    C["tl_margin_" + side] = ("rat", rat(D["margin"][side]))\n    C["tl_pad_" + side] = ("rat", rat(D["labelPadding"][side]))\nfor k in ("initialWidth", "initialHeight", "dotRadius", "layerGap"):\n    C["tl_" + k] = ("rat", rat(D[k]))\nC["tl_direction"] = ("str", D["direction"])\nC["tl_defaultWidth"] = ("rat", rat(tl.DEFAULT_WIDTH))\nt = parse("labella/timeline.py")\nf = find_func(t, "__init__", "Item")\nC["tl_itemHeight"] = ("rat", rat(the_one([v for v in num_literals(f)], "Item height")))'), ('tex accents', '# ---- tex accents\nt = parse("labella/tex.py")\nf = find_func(t, "uni2tex")\nacc = None\nfor n in ast.walk(f):\n    if isinstance(n, ast.Dict) and n.keys and all(isinstance(k, ast.Constant) and isinstance(k.value, int) for k in n.keys):\n        acc = [(k.value, v.value) for k, v in zip(n.keys, n.values)]\nif not acc:\n    raise KeyError("accent table")\nC["texAccents"] = ("raw", "[" + ", ".join("(%d, %s)" % (k, json.dumps(v)) for k, v in acc) + "]", "List (Nat × String)")'), ('utils', '# ---- utils\nt = parse("labella/utils.py")\nf = find_func(t, "int2name")\nlits = num_literals(f)\nC["nameBase"] = ("nat", the_one([v for v in lits if v > 1 and v < 60], "int2name base"))\nC["nameFirstChar"] = ("nat", the_one([v for v in lits if v >= 60], "int2name first char"))\n')]


def collect():
    sys.path.insert(0, REPO)
    for m in [k for k in sys.modules if k == "labella" or k.startswith("labella.")]:
        del sys.modules[m]
    vpsc = importlib.import_module("labella.vpsc")
    ro = importlib.import_module("labella.removeOverlap")
    dist = importlib.import_module("labella.distributor")
    force = importlib.import_module("labella.force")
    scale = importlib.import_module("labella.scale")
    rend = importlib.import_module("labella.renderer")
    tl = importlib.import_module("labella.timeline")
    C = {}  # name -> ("rat", Fraction) | ("optrat", x) | ("str", s) | ("ratlist", [...]) | raw lean text
    FAILED = []
    env = dict(locals())
    env.update(globals())
    for title, src in SECTIONS:
        try:
            exec(src, env)
        except Exception as e:      # the literal moved or changed shape: keep the previous values of this section's constants
            FAILED.append((title, "%s: %s" % (type(e).__name__, e), re.findall(r'C\["(\w+)"\]', src) + re.findall(r'C\["(\w+)" \+', src)))
    C["__failed__"] = FAILED
    return C


def render(C, old_text=""):
    failed = C.pop("__failed__", [])
    old = dict(re.findall(r"^def (\w+) : [^\n]*$", old_text, re.M) and [(m.group(1), m.group(0)) for m in re.finditer(r"^def (\w+) : [^\n]*$", old_text, re.M)])
    keep = {}
    for title, err, names in failed:
        for n in names:
            for k in [k for k in old if k == n or k.startswith(n)]:
                if k not in C:
                    keep[k] = old[k]
    render.failed = failed
    render.kept = sorted(keep)
    lines = ["/-! GENERATED by harness/extract_constants.py from the working tree of /repo — do not edit.",
             "Every value is the exact rational value of the Python literal (floats via their binary expansion). -/",
             "namespace Labella.Gen", ""]
    for k in sorted(C):
        v = C[k]
        if v[0] == "rat":
            lines.append("def %s : Rat := %s" % (k, lean_rat(v[1])))
        elif v[0] == "nat":
            if not (isinstance(v[1], int) and v[1] >= 0):
                raise KeyError("%s is not a natural number literal: %r" % (k, v[1]))
            lines.append("def %s : Nat := %d" % (k, v[1]))
        elif v[0] == "optrat":
            lines.append("def %s : Option Rat := %s" % (k, lean_opt_rat(v[1])))
        elif v[0] == "str":
            lines.append("def %s : String := %s" % (k, json.dumps(v[1])))
        elif v[0] == "ratlist":
            lines.append("def %s : List Rat := [%s]" % (k, ", ".join(lean_rat(x) for x in v[1])))
        elif v[0] == "raw":
            lines.append("def %s : %s := %s" % (k, v[2], v[1]))
    lines += [keep[k] for k in sorted(keep)]
    lines = lines[:3] + [""] + sorted(l for l in lines[3:] if l.startswith("def "))
    lines += ["", "end Labella.Gen", ""]
    return "\n".join(lines)


def main():
    out = OUT
    if "--out" in sys.argv:
        out = sys.argv[sys.argv.index("--out") + 1]
    old = None
    if os.path.exists(out):
        with open(out) as fh:
            old = fh.read()
    try:
        text = render(collect(), old or "")
    except Exception as e:  # nothing could be extracted at all: keep the previous file
        print("extract_constants: cannot locate a constant: %s: %s" % (type(e).__name__, e))
        print("UNLOCATED *")
        sys.exit(3)
    if old != text:
        os.makedirs(os.path.dirname(out), exist_ok=True)
        with open(out, "w") as fh:
            fh.write(text)
        print("extract_constants: wrote %s" % os.path.normpath(out))
    if render.failed:
        for title, err, names in render.failed:
            print("extract_constants: section '%s' could not be located (%s); previous values kept for: %s" % (title, err, ", ".join(names)))
        print("UNLOCATED " + ",".join(sorted({n for _, _, names in render.failed for n in names})))
        sys.exit(3)
    sys.exit(0)


if __name__ == "__main__":
    main()
