#!/venv/bin/python
"""Translator for the declarative fragments of /repo: re-reads labella/*.py (module-level values by
import, literals inside function bodies with `ast`) and regenerates lean/Labella/Gen/Constants.lean
as exact rationals / strings.  Models and theorems refer to these names, so a changed constant
re-opens exactly the proof obligations that depend on it.

Usage: extract_constants.py [--repo /repo] [--out path]   (exit 0 written/unchanged, 3 = a constant
could not be located: the previous file is kept and the caller reports a broken translator tie)."""
import ast, sys, os, json, importlib, re
from fractions import Fraction

REPO = os.environ.get("LABELLA_REPO", "/repo")
OUT = os.path.join(os.path.dirname(os.path.abspath(__file__)), "..", "lean", "Labella", "Gen", "Constants.lean")


def rat(x):
    if x is None:
        return None
    if isinstance(x, bool):
        raise TypeError("bool")
    f = Fraction(x)  # exact value of a float
    return f


def lean_rat(f):
    if f.denominator == 1:
        return "(%d : Rat)" % f.numerator if f.numerator >= 0 else "(-%d : Rat)" % (-f.numerator)
    s = "%d / %d" % (abs(f.numerator), f.denominator)
    return "(%s%s : Rat)" % ("-" if f < 0 else "", "(" + s + ")") if f < 0 else "(%s : Rat)" % s


def lean_opt_rat(x):
    return "none" if x is None else "some %s" % lean_rat(rat(x))


def parse(path):
    with open(os.path.join(REPO, path)) as fh:
        return ast.parse(fh.read())


def find_func(tree, name, cls=None):
    for node in ast.walk(tree):
        if cls and isinstance(node, ast.ClassDef) and node.name == cls:
            for sub in ast.walk(node):
                if isinstance(sub, ast.FunctionDef) and sub.name == name:
                    return sub
        if not cls and isinstance(node, ast.FunctionDef) and node.name == name:
            return node
    raise KeyError("function %s.%s" % (cls, name))


def num_literals(node):
    out = []
    for n in ast.walk(node):
        if isinstance(n, ast.Constant) and isinstance(n.value, (int, float)) and not isinstance(n.value, bool):
            out.append(n.value)
    return out


def the_one(vals, what):
    s = set(vals)
    if len(s) != 1:
        raise KeyError("%s: expected one distinct literal, found %r" % (what, sorted(s)))
    return s.pop()


def resolve(node, mod):
    """numeric value of an expression node: a literal, or a name / attribute bound at module level (a named constant), else None"""
    if isinstance(node, ast.Constant) and isinstance(node.value, (int, float)) and not isinstance(node.value, bool):
        return node.value
    if isinstance(node, ast.UnaryOp) and isinstance(node.op, ast.USub):
        v = resolve(node.operand, mod)
        return None if v is None else -v
    if isinstance(node, ast.Name) and mod is not None:
        v = getattr(mod, node.id, None)
        if isinstance(v, (int, float)) and not isinstance(v, bool):
            return v
    if isinstance(node, ast.Attribute) and mod is not None:         # Cls.NAME / module.NAME / self.NAME
        base = node.value
        for holder in ([getattr(mod, base.id, None)] if isinstance(base, ast.Name) else []) + \
                      [c for c in vars(mod).values() if isinstance(c, type)]:
            v = getattr(holder, node.attr, None) if holder is not None else None
            if isinstance(v, (int, float)) and not isinstance(v, bool):
                return v
    return None


def values_in(node, mod):
    """numeric literals and named module-level constants used inside a function body"""
    out = []
    for n in ast.walk(node):
        if isinstance(n, (ast.Constant, ast.Name, ast.Attribute)):
            v = resolve(n, mod)
            if v is not None:
                out.append(v)
    return out


def callees(tree, func, cls=None):
    """the function itself plus the module-level functions / methods of the same class it calls (transitively): a refactoring that
    moves a loop into a helper keeps its literals findable"""
    seen, todo = [], [func]
    names = {}
    for n in ast.walk(tree):
        if isinstance(n, ast.FunctionDef):
            names.setdefault(n.name, n)
    while todo:
        f = todo.pop()
        if f in seen:
            continue
        seen.append(f)
        for n in ast.walk(f):
            if isinstance(n, ast.Call):
                nm = n.func.attr if isinstance(n.func, ast.Attribute) else (n.func.id if isinstance(n.func, ast.Name) else None)
                if nm in names and names[nm] not in seen:
                    todo.append(names[nm])
    return seen


SECTIONS = [
 ("vpsc class constants", """
C["lagrangianTolerance"] = ("rat", rat(vpsc.Solver.LAGRANGIAN_TOLERANCE))
C["zeroUpperBound"] = ("rat", rat(vpsc.Solver.ZERO_UPPERBOUND))
"""),
 ("vpsc solve tolerance", """
t = parse("labella/vpsc.py")
fs = callees(t, find_func(t, "solve", "Solver"))
# the literal of `while abs(lastcost - cost) > 0.0001` (a Compare against a small positive number inside solve)
cands = [resolve(n.comparators[0], vpsc) for f in fs[:1] for n in ast.walk(f) if isinstance(n, ast.Compare)]
C["solveCostTolerance"] = ("rat", rat(the_one([v for v in cands if v is not None and 0 < v < 1], "Solver.solve tolerance")))
"""),
 ("vpsc dfdv factor", """
t = parse("labella/vpsc.py")
C["dfdvFactor"] = ("rat", rat(the_one(values_in(find_func(t, "dfdv", "Variable"), vpsc), "Variable.dfdv literal")))
"""),
 ("removeOverlap defaults", """
for k in ("lineSpacing", "nodeSpacing"):
    C["ro_" + k] = ("rat", rat(ro.DEFAULT_OPTIONS[k]))
for k in ("minPos", "maxPos"):
    C["ro_" + k] = ("optrat", ro.DEFAULT_OPTIONS[k])
"""),
 ("removeOverlap wall weight", """
t = parse("labella/removeOverlap.py")
walls = []
for f in callees(t, find_func(t, "removeOverlap")):
    for n in ast.walk(f):
        if isinstance(n, ast.Call) and ((isinstance(n.func, ast.Attribute) and n.func.attr == "Variable") or (isinstance(n.func, ast.Name) and n.func.id == "Variable")) and len(n.args) >= 2:
            v = resolve(n.args[1], ro)
            if v is not None:
                walls.append(v)
if len(walls) != 2:
    raise KeyError("removeOverlap wall variables: expected 2, found %d" % len(walls))
C["wallWeight"] = ("rat", rat(the_one(walls, "wall weight")))
"""),
 ("removeOverlap half divisor", """
t = parse("labella/removeOverlap.py")
halves = []
for f in callees(t, find_func(t, "removeOverlap")):
    halves += [resolve(n.right, ro) for n in ast.walk(f) if isinstance(n, ast.BinOp) and isinstance(n.op, ast.Div)]
C["halfDivisor"] = ("rat", rat(the_one([v for v in halves if v is not None], "removeOverlap divisors")))
"""),
 ("distributor / force defaults", """
for k in ("layerWidth", "density", "nodeSpacing", "stubWidth"):
    C["dist_" + k] = ("rat", rat(dist.DEFAULT_OPTIONS[k]))
C["dist_algorithm"] = ("str", dist.DEFAULT_OPTIONS["algorithm"])
for k in ("nodeSpacing", "density", "stubWidth"):
    C["force_" + k] = ("rat", rat(force.DEFAULT_OPTIONS[k]))
for k in ("minPos", "maxPos"):
    C["force_" + k] = ("optrat", force.DEFAULT_OPTIONS[k])
C["force_algorithm"] = ("str", force.DEFAULT_OPTIONS["algorithm"])
"""),
 ("distributor overlap loop", """
t = parse("labella/distributor.py")
ks = []
for f in callees(t, find_func(t, "algorithm_overlap", "Distributor")):
    for w in ast.walk(f):
        if isinstance(w, ast.While):
            for n in ast.walk(w.test):      # `len(nodesInCurrentLayer) > 2 and ...`
                if isinstance(n, ast.Compare) and isinstance(n.ops[0], ast.Gt) and isinstance(n.left, ast.Call) and getattr(n.left.func, "id", "") == "len":
                    v = resolve(n.comparators[0], dist)
                    if v is not None:
                        ks.append(v)
C["overlapMinLabels"] = ("rat", rat(the_one(ks, "len(nodesInCurrentLayer) > k")))
"""),
 ("linear tick thresholds", """
t = parse("labella/scale.py")
f = find_func(t, "d3_scale_linearTickRange")
pairs = []
for n in ast.walk(f):
    if isinstance(n, ast.If) and isinstance(n.test, ast.Compare) and len(n.test.ops) == 1 and isinstance(n.test.ops[0], ast.LtE) and n.body and isinstance(n.body[0], ast.AugAssign) and isinstance(n.body[0].op, ast.Mult):
        thr, mul = resolve(n.test.comparators[0], scale), resolve(n.body[0].value, scale)
        if thr is not None and mul is not None:
            pairs.append((thr, mul))
order = sorted(pairs)
if len(order) != 3:
    raise KeyError("linearTickRange thresholds: %r" % (order,))
C["tickErr10"], C["tickErr5"], C["tickErr2"] = [("rat", rat(c)) for c, _ in order]
C["tickMul10"], C["tickMul5"], C["tickMul2"] = [("rat", rat(m)) for _, m in order]
"""),
 ("linear tick default count", """
t = parse("labella/scale.py")
f = find_func(t, "d3_scale_linearTickRange")
dm = [resolve(n.value, scale) for n in ast.walk(f) if isinstance(n, ast.Assign) and isinstance(n.targets[0], ast.Name) and n.targets[0].id == "m"]
C["tickDefaultCount"] = ("rat", rat(the_one([v for v in dm if v is not None], "default m")))
"""),
 ("linear precision fudge", """
t = parse("labella/scale.py")
f = find_func(t, "d3_scale_linearPrecision")
C["precisionFudge"] = ("rat", rat(the_one([v for v in values_in(f, scale) if 0 < v < 1], "precision fudge")))
"""),
 ("time scale step table", """
C["timeScaleSteps"] = ("ratlist", [rat(x) for x in scale.d3_time_scaleSteps])
names = {id(v): k for k, v in scale.d3_time.items() if not callable(v) or hasattr(v, "floor")}
meths = []
for iv, k in scale.d3_time_scaleLocalMethods:
    meths.append((names[id(iv)], k))
C["timeScaleMethods"] = ("raw", "[" + ", ".join('("%s", %d)' % (n, k) for n, k in meths) + "]", "List (String × Nat)")
"""),
 ("time scale year length", """
t = parse("labella/scale.py")
f = find_func(t, "tickMethod", "TimeScale")
C["yearMillis"] = ("rat", rat(the_one([v for v in values_in(f, scale) if v > 1000], "tickMethod year length")))
"""),
 ("renderer / timeline defaults", """
for k in ("layerGap", "nodeHeight"):
    C["rend_" + k] = ("rat", rat(rend.DEFAULT_OPTIONS[k]))
C["rend_direction"] = ("str", rend.DEFAULT_OPTIONS["direction"])
D = tl.DEFAULT_OPTIONS
for side in ("left", "right", "top", "bottom"):
    C["tl_margin_" + side] = ("rat", rat(D["margin"][side]))
    C["tl_pad_" + side] = ("rat", rat(D["labelPadding"][side]))
for k in ("initialWidth", "initialHeight", "dotRadius", "layerGap"):
    C["tl_" + k] = ("rat", rat(D[k]))
C["tl_direction"] = ("str", D["direction"])
C["tl_defaultWidth"] = ("rat", rat(tl.DEFAULT_WIDTH))
"""),
 ("timeline item height", """
# behavioural: the height an item with an explicit width gets
C["tl_itemHeight"] = ("rat", rat(tl.Item(0, width=10).height))
"""),
 ("tex accents", """
t = parse("labella/tex.py")
acc = None
for n in ast.walk(t):       # the accent table: a dict literal {code point: accent command}, inside uni2tex or at module level
    if isinstance(n, ast.Dict) and len(n.keys) >= 5 and all(isinstance(k, ast.Constant) and isinstance(k.value, int) for k in n.keys) \\
            and all(isinstance(v, ast.Constant) and isinstance(v.value, str) for v in n.values):
        acc = [(k.value, v.value) for k, v in zip(n.keys, n.values)]
if not acc:
    raise KeyError("accent table")
acc = sorted(dict(acc).items())      # a dict literal: later duplicates win, order is immaterial -> canonical order
C["texAccents"] = ("raw", "[" + ", ".join("(%d, %s)" % (k, json.dumps(v)) for k, v in acc) + "]", "List (Nat × String)")
"""),
 ("utils int2name", """
# behavioural: the alphabet of int2name is read off the function itself (first letter, and the first index with a two-letter name)
utils = importlib.import_module("labella.utils")
first = utils.int2name(0)
if len(first) != 1:
    raise KeyError("int2name(0) is not one letter")
base = next(i for i in range(1, 200) if len(utils.int2name(i)) == 2)
if [utils.int2name(i) for i in range(base)] != [chr(ord(first) + i) for i in range(base)]:
    raise KeyError("int2name alphabet is not a contiguous run of characters")
C["nameBase"] = ("nat", base)
C["nameFirstChar"] = ("nat", ord(first))
"""),
]


def collect():
    sys.path.insert(0, REPO)
    for m in [k for k in sys.modules if k == "labella" or k.startswith("labella.")]:
        del sys.modules[m]
    vpsc = importlib.import_module("labella.vpsc")
    ro = importlib.import_module("labella.removeOverlap")
    dist = importlib.import_module("labella.distributor")
    force = importlib.import_module("labella.force")
    scale = importlib.import_module("labella.scale")
    rend = importlib.import_module("labella.renderer")
    tl = importlib.import_module("labella.timeline")
    C = {}  # name -> ("rat", Fraction) | ("optrat", x) | ("str", s) | ("ratlist", [...]) | raw lean text
    FAILED = []
    env = dict(locals())
    env.update(globals())
    for title, src in SECTIONS:
        try:
            exec(src, env)
        except Exception as e:      # the literal moved or changed shape: keep the previous values of this section's constants
            FAILED.append((title, "%s: %s" % (type(e).__name__, e), re.findall(r'C\["(\w+)"\]', src) + re.findall(r'C\["(\w+)" \+', src)))
    C["__failed__"] = FAILED
    return C


def render(C, old_text=""):
    failed = C.pop("__failed__", [])
    old = dict(re.findall(r"^def (\w+) : [^\n]*$", old_text, re.M) and [(m.group(1), m.group(0)) for m in re.finditer(r"^def (\w+) : [^\n]*$", old_text, re.M)])
    keep = {}
    for title, err, names in failed:
        for n in names:
            for k in [k for k in old if k == n or k.startswith(n)]:
                if k not in C:
                    keep[k] = old[k]
    render.failed = failed
    render.kept = sorted(keep)
    lines = ["/-! GENERATED by harness/extract_constants.py from the working tree of /repo — do not edit.",
             "Every value is the exact rational value of the Python literal (floats via their binary expansion). -/",
             "namespace Labella.Gen", ""]
    for k in sorted(C):
        v = C[k]
        if v[0] == "rat":
            lines.append("def %s : Rat := %s" % (k, lean_rat(v[1])))
        elif v[0] == "nat":
            if not (isinstance(v[1], int) and v[1] >= 0):
                raise KeyError("%s is not a natural number literal: %r" % (k, v[1]))
            lines.append("def %s : Nat := %d" % (k, v[1]))
        elif v[0] == "optrat":
            lines.append("def %s : Option Rat := %s" % (k, lean_opt_rat(v[1])))
        elif v[0] == "str":
            lines.append("def %s : String := %s" % (k, json.dumps(v[1])))
        elif v[0] == "ratlist":
            lines.append("def %s : List Rat := [%s]" % (k, ", ".join(lean_rat(x) for x in v[1])))
        elif v[0] == "raw":
            lines.append("def %s : %s := %s" % (k, v[2], v[1]))
    lines += [keep[k] for k in sorted(keep)]
    lines = lines[:3] + [""] + sorted(l for l in lines[3:] if l.startswith("def "))
    lines += ["", "end Labella.Gen", ""]
    return "\n".join(lines)


def main():
    out = OUT
    if "--out" in sys.argv:
        out = sys.argv[sys.argv.index("--out") + 1]
    old = None
    if os.path.exists(out):
        with open(out) as fh:
            old = fh.read()
    try:
        text = render(collect(), old or "")
    except Exception as e:  # nothing could be extracted at all: keep the previous file
        print("extract_constants: cannot locate a constant: %s: %s" % (type(e).__name__, e))
        print("UNLOCATED *")
        sys.exit(3)
    if old != text:
        os.makedirs(os.path.dirname(out), exist_ok=True)
        with open(out, "w") as fh:
            fh.write(text)
        print("extract_constants: wrote %s" % os.path.normpath(out))
    if render.failed:
        for title, err, names in render.failed:
            print("extract_constants: section '%s' could not be located (%s); previous values kept for: %s" % (title, err, ", ".join(names)))
        print("UNLOCATED " + ",".join(sorted({n for _, _, names in render.failed for n in names})))
        sys.exit(3)
    sys.exit(0)


if __name__ == "__main__":
    main()
