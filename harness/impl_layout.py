"""Runs the real layout code (labella.vpsc / removeOverlap / distributor / force) in-process and turns what
it did into driver lines.  Two arithmetic modes: `float` (ordinary numbers) and `exact`
(fractions.Fraction everywhere; the only adaptation is number coercion at `vpsc.Variable.__init__`)."""
import sys
from fractions import Fraction
from common import REPO, fr

sys.path.insert(0, REPO)
from labella import vpsc, removeOverlap as ro_mod, force as force_mod  # noqa: E402
from labella.node import Node  # noqa: E402

_orig_var_init = vpsc.Variable.__init__
_orig_solve = vpsc.Solver.solve
_orig_ro = ro_mod.removeOverlap
_state = {"exact": False, "solves": [], "layers": None}


def _var_init(self, desiredPosition, weight=None, scale=None):
    if _state["exact"]:
        if isinstance(weight, float):
            weight = Fraction(weight)
        scale = Fraction(1 if scale is None else scale)
    _orig_var_init(self, desiredPosition, weight, scale)


def _solve(self):
    r = _orig_solve(self)
    _state["solves"].append([v.position() for v in self.vs if getattr(v, "node", None)])
    return r


def _ro(nodes, options):
    before = list(nodes)
    # the target the PROPERTY prescribes, computed without the node's own parent pointer: the data position in the layer nearest the
    # axis (first call of a layout), otherwise the final position of the item of the previous layer that stands in for this one
    recs = _state["layers"]
    if recs:
        stand_in = {id(s.child): s for s in recs[-1]["after"] if getattr(s, "child", None) is not None}
        targets = {id(n): (stand_in[id(n)].currentPos if id(n) in stand_in else (n.parent.currentPos if n.parent else n.idealPos)) for n in nodes}
    else:
        targets = {id(n): n.idealPos for n in nodes}
    mark = len(_state["solves"])
    out = _orig_ro(nodes, options)
    xs = _state["solves"][mark] if len(_state["solves"]) > mark else []
    if _state["layers"] is not None:
        _state["layers"].append({"before": before, "after": list(nodes), "targets": targets, "options": dict(options or {}), "xs": xs})
    return out


vpsc.Variable.__init__ = _var_init
vpsc.Solver.solve = _solve
ro_mod.removeOverlap = _ro

RO_DEFAULT = dict(ro_mod.DEFAULT_OPTIONS)     # the documented defaults as they were at import time (a copy: the module's own dict may be altered by a defective implementation)


def conv(x, exact):
    if x is None:
        return None
    return Fraction(x) if exact else x



def mk_node(p, w, data=None, k=0):
    """a Node with axis position p and extent w.  Every other one is built the way `Timeline.get_nodes` builds its nodes: constructed with the
    bare item width, its `width` assigned afterwards (there: after the label padding has been added) — `width` is a plain attribute that callers
    may set at any time before a layout, and the layout must use what it holds THEN."""
    if k % 2 == 0:
        return Node(p, w, data=data) if data is not None else Node(p, w)
    n = Node(p, w / 2 + 1, data=data) if data is not None else Node(p, w / 2 + 1)
    n.width = w
    return n


def layer_line(mode, before, after, targets, options, xs):
    """driver line for one call of removeOverlap, as observed"""
    opts = dict(RO_DEFAULT)
    opts.update(options)
    idx = {id(n): i for i, n in enumerate(before)}
    items = ";".join("%s:%s:%s" % (fr(targets[id(n)]), fr(n.width), fr(bool(n.isStub()))) for n in before)
    order = ",".join(str(idx[id(n)]) for n in after)
    pos = ",".join(fr(n.currentPos) for n in after)
    xs_s = ",".join(fr(x) for x in xs)
    return "layer|%s|%s|%s|%s|%s|%s|%s|%s|%s" % (mode, fr(opts.get("minPos")), fr(opts.get("maxPos")), fr(opts["nodeSpacing"]),
                                                fr(opts["lineSpacing"]), items, order, pos, xs_s)


def run_layer(items, opts, mode):
    """items: list of (target, width, isStub); opts: dict for removeOverlap (may omit keys).  Returns the line."""
    exact = mode == "exact"
    _state["exact"] = exact
    _state["layers"] = []
    nodes = []
    for t, w, s in items:
        n = mk_node(conv(t, exact), conv(w, exact), k=len(nodes))
        if s:
            n.child = Node(0, 1)
        nodes.append(n)
    o = {k: conv(v, exact) for k, v in opts.items()}
    try:
        ro_mod.removeOverlap(nodes, o if o else None)        # no options at all: None, as the signature allows
        rec = _state["layers"][0]
    finally:
        _state["layers"] = None
        _state["exact"] = False
    return layer_line(mode, rec["before"], rec["after"], rec["targets"], rec["options"], rec["xs"])


FORCE_KEYS = ("nodeSpacing", "lineSpacing", "minPos", "maxPos", "algorithm", "density", "stubWidth")


def eff_force_opts(opts):
    e = dict(force_mod.DEFAULT_OPTIONS)
    e["lineSpacing"] = RO_DEFAULT["lineSpacing"]
    e.update(opts)
    return e


def observe_layers(layers, labels_ids):
    """canonical observation of a list of layers (lists of Node): the driver's `Obs` records"""
    loc = {}
    for k, layer in enumerate(layers):
        for j, n in enumerate(layer):
            loc[id(n)] = (k, j)
    out = []
    for k, layer in enumerate(layers):
        row = []
        for n in layer:
            root = n
            steps = 0
            while root.child and steps < 10000:
                root = root.child
                steps += 1
            owner = labels_ids.get(id(root), 999999)
            par = loc.get(id(n.parent)) if n.parent else None
            chi = loc.get(id(n.child)) if n.child else None
            row.append("%d:%s:%d:%s:%s:%s:%s:%s:%s" % (
                owner, fr(bool(n.isStub())), n.layerIndex if isinstance(n.layerIndex, int) and n.layerIndex >= 0 else 999999,
                fr(n.idealPos), fr(n.width),
                "none" if n.parent is None else ("%d.%d" % par if par else "999999.0"),
                "none" if not n.child else ("%d.%d" % chi if chi else "999999.0"),
                fr(n.data is root.data), fr(n.currentPos)))
        out.append(",".join(row))
    return ";".join(out)


def force_line(mode, opts, labels, layers, gl_ok, label_ids):
    e = eff_force_opts(opts)
    labs = ";".join("%s:%s" % (fr(p), fr(w)) for p, w in labels)
    return "force|%s|%s|%s|%s|%s|%s|%s|%s|%s|%s|%s" % (
        mode, fr(e["nodeSpacing"]), fr(e["lineSpacing"]), fr(e["minPos"]), fr(e["maxPos"]), e["algorithm"], fr(e["density"]),
        fr(e["stubWidth"]), labs, observe_layers(layers, label_ids), fr(gl_ok))


def run_force(labels, opts, mode, engine=None, nodes=None, want_layer_lines=True):
    """labels: list of (ideal, width); opts: dict given to Force (may omit keys).
    Returns (force_line, [layer_lines], engine, nodes)."""
    exact = mode == "exact"
    _state["exact"] = exact
    _state["layers"] = []
    try:
        src = eff_force_opts(opts) if exact else opts   # exact mode: every number explicit, as a Fraction
        o = {k: (conv(v, exact) if k != "algorithm" else v) for k, v in src.items()}
        if nodes is None:
            nodes = [mk_node(conv(p, exact), conv(w, exact), data={"i": i}, k=i) for i, (p, w) in enumerate(labels)]
        if engine is None:
            engine = force_mod.Force(o) if o else force_mod.Force()        # no options at all: the no-argument constructor
            engine.nodes(nodes)
        engine.compute()
        recs = _state["layers"]
    finally:
        _state["layers"] = None
        _state["exact"] = False
    layers = [r["after"] for r in recs]
    gl = engine.getLayers()
    gl_ok = gl is not None and len(gl) == len(layers) and all(
        len(a) == len(b) and all(x is y for x, y in zip(a, b)) for a, b in zip(gl, layers))
    ids = {id(n): i for i, n in enumerate(nodes)}
    eff = {k: (Fraction(v) if exact and k != "algorithm" and v is not None else v) for k, v in eff_force_opts(opts).items()}
    fl = force_line(mode, eff, [(n.idealPos, n.width) for n in nodes], layers, gl_ok, ids)
    lls = []
    if want_layer_lines:
        # every layer must be solved under the options the ENGINE was configured with (all set_options calls accumulated), whatever
        # the engine passed down to removeOverlap
        expect = {k: eff[k] for k in ("minPos", "maxPos", "nodeSpacing", "lineSpacing")}
        for r in recs:
            lls.append(layer_line(mode, r["before"], r["after"], r["targets"], expect, r["xs"]))
    return fl, lls, engine, nodes


# ---------------------------------------------------------------------------------------- C04: distributor
from labella import distributor as dist_mod  # noqa: E402


def run_dist(labels, dopts, mode):
    """Distributor.distribute called directly.  dopts: algorithm, layerWidth, density, nodeSpacing, stubWidth (all given)."""
    exact = mode == "exact"
    o = {k: (conv(v, exact) if k != "algorithm" else v) for k, v in dopts.items()}
    nodes = [mk_node(conv(p, exact), conv(w, exact), data={"i": i}, k=i) for i, (p, w) in enumerate(labels)]
    d = dist_mod.Distributor(o)
    layers = d.distribute(nodes)
    for k, layer in enumerate(layers):     # the engine, not the distributor, numbers the layers
        for n in layer:
            n.layerIndex = k
    ids = {id(n): i for i, n in enumerate(nodes)}
    e = dict(dist_mod.DEFAULT_OPTIONS)
    e.update(o)
    labs = ";".join("%s:%s" % (fr(n.idealPos), fr(n.width)) for n in nodes)
    return "dist|%s|%s|%s|%s|%s|%s|%s|%s" % (mode, e["algorithm"], fr(e["layerWidth"]), fr(e["density"]), fr(e["nodeSpacing"]),
                                            fr(e["stubWidth"]), labs, observe_layers(layers, ids))


# ---------------------------------------------------------------------------------------- C06: histories
def placed_labels(nodes):
    return ";".join("%s:%s:%d:%s" % (fr(n.idealPos), fr(n.width), n.layerIndex, fr(n.currentPos)) for n in nodes)


def run_history(ops, mode, want_layer_lines=False):
    """ops: list of ("new", opts) | ("nodes", labels) | ("stale-nodes",) | ("options", delta) | ("compute",) | ("empty-nodes",).
    One engine at a time; after every compute the observable result is turned into a `force` line for the
    *accumulated* options and the *current* labels.  Returns list of (line, tag)."""
    exact = mode == "exact"
    out = []
    engine, nodes, acc = None, None, None
    other = None            # (engine, nodes, acc) of the engine that is not current (two engines alive at the same time)
    for op in ops:
        if op[0] == "second-engine":
            other = (engine, nodes, acc)
            acc = dict(op[1])
            src = eff_force_opts(acc) if exact else acc
            engine = force_mod.Force({k: (conv(v, exact) if k != "algorithm" else v) for k, v in src.items()})
            nodes = None
        elif op[0] == "switch":
            (engine, nodes, acc), other = other, (engine, nodes, acc)
        elif op[0] == "new":
            acc = dict(op[1])
            src = eff_force_opts(acc) if exact else acc
            engine = force_mod.Force({k: (conv(v, exact) if k != "algorithm" else v) for k, v in src.items()}) if src else force_mod.Force(None)
            if nodes is not None and op[-1] == "keep-nodes":      # stale nodes into a fresh engine
                engine.nodes(nodes)
        elif op[0] == "nodes":
            nodes = [mk_node(conv(p, exact), conv(w, exact), data={"i": i}, k=i) for i, (p, w) in enumerate(op[1])]
            engine.nodes(nodes)
        elif op[0] == "renodes":
            engine.nodes(nodes)         # the same Node objects again (they may carry stubs / layer numbers of the last layout)
        elif op[0] == "empty-nodes":
            engine.nodes([])            # returns the current list, does not clear (documented quirk of the getter/setter)
        elif op[0] == "options":
            acc.update(op[1])
            engine.set_options({k: (conv(v, exact) if k != "algorithm" else v) for k, v in op[1].items()})
        elif op[0] == "compute":
            fl, lls, _, _ = run_force(None, acc, mode, engine=engine, nodes=nodes, want_layer_lines=want_layer_lines)
            out.append((fl, placed_labels(nodes), dict(acc), [(n.idealPos, n.width) for n in nodes]) + ((lls,) if want_layer_lines else ()))
    return out


# ---------------------------------------------------------------------------------------- C06: stateful transliteration (ehist)
def _eopts(acc):
    e = {k: Fraction(v) if (k != "algorithm" and v is not None) else v for k, v in eff_force_opts(acc).items()}
    return "~".join([fr(e["nodeSpacing"]), fr(e["lineSpacing"]), fr(e["minPos"]), fr(e["maxPos"]), e["algorithm"], fr(e["density"]), fr(e["stubWidth"])])


def run_ehist(ops):
    if any(op[0] in ("second-engine", "switch") for op in ops):
        raise ValueError("two engines alive at the same time are not expressible in the ehist protocol")
    """the history on real Force / Node objects in exact arithmetic; returns the `ehist` driver line: the operations and, after every
    compute, what getLayers() and the node objects report (data position, width, stub flag, layerIndex, currentPos, payload)"""
    _state["exact"] = True
    _state["layers"] = None
    enc, obs = [], []
    engine, nodes, acc = None, None, None
    try:
        for op in ops:
            if op[0] == "new":
                acc = dict(op[1])
                engine = force_mod.Force({k: (conv(v, True) if k != "algorithm" else v) for k, v in eff_force_opts(acc).items()})
                enc.append("E~" + _eopts(acc))
                if nodes is not None and op[-1] == "keep-nodes":
                    engine.nodes(nodes); enc.append("S")
            elif op[0] == "nodes":
                nodes = [mk_node(Fraction(p), Fraction(w), data={"i": i}, k=i) for i, (p, w) in enumerate(op[1])]
                engine.nodes(nodes)
                enc.append("N~" + ",".join("%s:%s" % (fr(Fraction(p)), fr(Fraction(w))) for p, w in op[1]))
            elif op[0] == "renodes":
                engine.nodes(nodes); enc.append("S")
            elif op[0] == "empty-nodes":
                engine.nodes([]); enc.append("N~")
            elif op[0] == "options":
                acc.update(op[1])
                engine.set_options({k: (conv(v, True) if k != "algorithm" else v) for k, v in op[1].items()})
                enc.append("O~" + _eopts(acc))
            elif op[0] == "compute":
                engine.compute()
                enc.append("C")
                layers = engine.getLayers() or []
                rows = []
                for layer in layers:
                    row = []
                    for n in layer:
                        root = n
                        k = 0
                        while root.child and k < 10000:
                            root = root.child; k += 1
                        row.append("%s:%s:%s:%d:%s:%d" % (fr(n.idealPos), fr(n.width), fr(bool(n.isStub())), n.layerIndex, fr(n.currentPos), n.data["i"]))
                    rows.append(",".join(row))
                obs.append("@".join(rows))
    finally:
        _state["exact"] = False
    return "ehist|%s|%s" % (";".join(enc), "#".join(obs))


def _obs_rows(engine):
    rows = []
    for layer in engine.getLayers() or []:
        rows.append(",".join("%s:%s:%s:%d:%s:%d" % (fr(n.idealPos), fr(n.width), fr(bool(n.isStub())), n.layerIndex, fr(n.currentPos), n.data["i"]) for n in layer))
    return "@".join(rows)


def run_mhist(ops):
    """an interleaving of operations on SEVERAL real Force objects alive at the same time, which share the caller's list objects and the Node
    objects in them, in exact arithmetic: ("new", opts) ("switch", k) ("options", delta) ("nodes", labels) ("use", b) ("compute",).
    Returns (the `mhist` driver line, [(compute number, engine, what a FRESH engine with the same accumulated options reports for fresh
    nodes with the same data in the list's current order, what this engine reported)] for the computes where the two differ)."""
    _state["exact"] = True
    _state["layers"] = None
    enc, obs, differ = [], [], []
    trace = _state.setdefault("mhist_trace", [])
    del trace[:]
    engines, accs, refs, lists = [], [], [], []
    cur = None
    cv = lambda d: {k: (conv(v, True) if k != "algorithm" else v) for k, v in d.items()}
    try:
        for op in ops:
            if op[0] == "new":
                given = dict(op[1])
                # exact mode: the default density is a float literal (0.85); left as it is, density * layerWidth would be rounded and a layer
                # that needs exactly that much would fit here and not in the model — pass its exact value explicitly
                given.setdefault("density", force_mod.DEFAULT_OPTIONS["density"])
                accs.append(dict(op[1])); engines.append(force_mod.Force(cv(given))); refs.append(None)
                cur = len(engines) - 1
                enc.append("E~" + _eopts(accs[cur]))
            elif op[0] == "switch":
                cur = op[1]; enc.append("W~%d" % op[1])
            elif op[0] == "options":
                accs[cur].update(op[1]); engines[cur].set_options(cv(op[1]))
                enc.append("O~" + _eopts(accs[cur]))
            elif op[0] == "nodes":
                x = [mk_node(Fraction(p), Fraction(w), data={"i": i}, k=i) for i, (p, w) in enumerate(op[1])]
                lists.append(x); engines[cur].nodes(x); refs[cur] = len(lists) - 1
                enc.append("N~" + ",".join("%s:%s" % (fr(Fraction(p)), fr(Fraction(w))) for p, w in op[1]))
            elif op[0] == "use":
                engines[cur].nodes(lists[op[1]]); refs[cur] = op[1]
                enc.append("L~%d" % op[1])
            elif op[0] == "rewidth":
                for n in lists[op[1]]:
                    n.width = Fraction(op[2][n.data["i"]])
                enc.append("R~%d~%s" % (op[1], ",".join(fr(Fraction(w)) for w in op[2])))
            elif op[0] == "compute":
                now = [(n.idealPos, n.width, n.data["i"]) for n in (lists[refs[cur]] if refs[cur] is not None else [])]
                engines[cur].compute()
                enc.append("C")
                got = _obs_rows(engines[cur])
                obs.append("%d>%s" % (cur, got))
                trace.append({"engine": cur, "opts": {k: (v if k == "algorithm" or v is None else str(Fraction(v))) for k, v in accs[cur].items()},
                              "nodes": [[str(p), str(w), i] for p, w, i in now], "got": got})
                fresh = force_mod.Force(cv(dict({"density": force_mod.DEFAULT_OPTIONS["density"]}, **accs[cur])))
                if now:
                    fresh.nodes([Node(p, w, data={"i": i}) for p, w, i in now])
                fresh.compute()
                want = _obs_rows(fresh)
                if want != got:
                    differ.append((len(obs) - 1, cur, want, got))
    finally:
        _state["exact"] = False
    return "mhist|%s|%s" % (";".join(enc), "#".join(obs)), differ
