"""C17 (calendar intervals), C16 (time ticks), C14 (nice, linear + time), C15 (time scale), C18 (time zone)."""
import json, os, subprocess, sys
from datetime import datetime, timedelta
import common
from common import Report, build_and_audit, drive, fields, rng_for, leanchecker, REPO, fr, VERIF, PY, Infra, time_limit

sys.path.insert(0, REPO)
EPOCH = datetime(1970, 1, 1)
MS = timedelta(milliseconds=1)
UNITS = ["second", "minute", "hour", "day", "week", "month", "year"]
LO = (datetime(1900, 1, 1) - EPOCH) // MS
HI = (datetime(2200, 12, 31, 23, 59, 59, 999000) - EPOCH) // MS
DAY = 86400000


def to_ms(d):
    q, r = divmod(d - EPOCH, MS)
    return q if not r else (d - EPOCH) / MS   # non-integral only if the code produced sub-millisecond values


def to_dt(ms):
    return EPOCH + timedelta(milliseconds=ms)


def msl(l):
    return ",".join(fr(to_ms(d)) for d in l)


# ------------------------------------------------------------------------------------------- generators
def interesting_instants(rng, n):
    """instants concentrated on month ends, leap days, year ends, week boundaries, plus uniform ones"""
    out = []
    for _ in range(n):
        c = rng.random()
        if c < 0.35:
            t = rng.randint(LO, HI)
        else:
            y = rng.randint(1900, 2200)
            kind = rng.choice(["month-end", "leap", "year-end", "sunday", "month-start"])
            if kind == "month-end":
                m = rng.randint(1, 12)
                d = (datetime(y + (m == 12), m % 12 + 1, 1) - timedelta(days=rng.choice([0, 1, 1, 2, 3]))).replace(hour=0)
            elif kind == "leap":
                yy = y - y % 4
                if yy % 100 == 0 and yy % 400 != 0:
                    yy += 4
                d = datetime(min(max(yy, 1904), 2196), 2, 29) + timedelta(days=rng.choice([-1, 0, 0, 1]))
            elif kind == "year-end":
                d = datetime(y, 12, 31) + timedelta(days=rng.choice([0, 0, 1]))
            elif kind == "sunday":
                d = datetime(y, rng.randint(1, 12), rng.randint(1, 28))
                d -= timedelta(days=(d.isoweekday() % 7) - rng.choice([0, 0, 1, 6]))
            else:
                d = datetime(y, rng.randint(1, 12), 1)
            off = rng.choice([0, 0, 1, -1, 999, rng.randint(0, DAY - 1), 3600000 * rng.randint(0, 23), 60000 * rng.randint(0, 1439)])
            t = (d - EPOCH) // MS + off
        out.append(min(max(t, LO), HI))
    return out


def gen_domain(rng):
    """a time domain with ms resolution: spans from 1 ms to 250 years"""
    a = interesting_instants(rng, 1)[0]
    style = rng.random()
    if style < 0.25:
        span = rng.choice([1, 2, 5, 9, 10, 37, 99, 100, 500, 999, 1000, 1001, 7000, 9990])
    elif style < 0.85:
        span = int(10 ** rng.uniform(0, 12.9))
    else:
        span = rng.choice([1000, 60000, 3600000, DAY, 7 * DAY, 30 * DAY, 365 * DAY]) * rng.randint(1, 60)
    b = a + span
    if b > HI:
        a, b = max(LO, a - span), a
    if a == b:
        b = a + 1
    return (a, b) if rng.random() < 0.8 else (b, a)


def run_cal_case(d3, u, t, k):
    iv = d3[u]
    dt = to_dt(t)
    fl = iv.floor(dt)
    return "cal|%s|%d|%d|%s|%s|%s|%s|%s" % (u, t, k, fr(to_ms(fl)), fr(to_ms(iv.ceil(dt))), fr(to_ms(iv.round(dt))),
                                          fr(to_ms(iv.offset(fl, k))), fr(iv._number(dt)))


# ------------------------------------------------------------------------------------------- C17
def body_c17(tier, seed, rep, only_prop=False, scale=1):
    from labella.d3_time import d3_time as d3
    rng = rng_for(seed, "c17")
    lines, metas = [], []

    def add(line, meta):
        lines.append(line); metas.append(meta)

    def guarded(fn, meta):
        try:
            with time_limit(10):
                add(fn(), meta)
        except Exception as e:
            rep.prop_fail.append(("calendar interval raised %s: %s" % (type(e).__name__, e), {"case": meta}))

    # exhaustively every day 1900-2200 (at midnight and at a random time of day), every unit
    day0, day1 = LO // DAY, HI // DAY
    stride = 1
    for dn in (range(day0, day1 + 1, stride) if common.exhaustive_here() else ()):
        tod = rng.choice([0, 0, rng.randint(0, DAY - 1), DAY - 1, 43200000])
        t = dn * DAY + tod
        if quick_skip(tier, dn):
            us = [UNITS[dn % 7]]
        else:
            us = UNITS
        for u in us:
            k = rng.choice([0, 1, 2, 3, 7, 12, 31, 59, 100, 365, 400])
            meta = {"kind": "cal", "unit": u, "t": t, "k": k}
            guarded(lambda: run_cal_case(d3, u, t, k), meta)
    # month ends / leap days / year ends with all units, more offsets
    for t in interesting_instants(rng, common.count(tier, 3000, 60000) * scale):
        for u in UNITS:
            k = rng.randint(0, 400)
            meta = {"kind": "cal", "unit": u, "t": t, "k": k}
            guarded(lambda: run_cal_case(d3, u, t, k), meta)
    # ranges (never more than ~3000 unit steps: the real range walks one unit at a time)
    for _ in range(common.count(tier, 2500, 40000) * scale):
        u = rng.choice(UNITS)
        t0 = interesting_instants(rng, 1)[0]
        length = {"second": 1000, "minute": 60000, "hour": 3600000, "day": DAY, "week": 7 * DAY, "month": 30 * DAY, "year": 365 * DAY}[u]
        t1 = min(HI, t0 + int(length * rng.choice([0, 0.5, 1, 2.5, 10, 60, 400, rng.uniform(0, 2500)])))
        dt = rng.choice([1, 1, 2, 3, 4, 5, 6, 7, 10, 12])
        # one call in four is a repeat: the same range was enumerated before and the caller edited the list it got back
        again = rng.choice([None, None, None, None, None, "reverse", "pop", "append", "clear", "other-unit", "other-unit"])
        meta = {"kind": "calrange", "unit": u, "t0": t0, "t1": t1, "dt": dt, "again": again}
        guarded(lambda: "calrange|%s|%d|%d|%d|%s" % (u, t0, t1, dt, msl(cal_range(d3, u, t0, t1, dt, again))), meta)
    answers = drive(lines)
    for line, meta, ans in zip(lines, metas, answers):
        f = fields(ans)
        bad = [k for k, v in f.items() if v == "fail" and k != "model"]
        rep.case(line, nontrivial=(f.get("onb") == "0") or (int(f.get("n", "0")) > 0), sample={"case": meta, "driver": ans})
        rep.count("kind=%s unit=%s" % (meta["kind"], meta["unit"]))
        if f["model"] != "ok":
            rep.model_fail = True
        if bad:
            # floor/ceil/round/offset/range have exactly one right answer (Props/C17 prove the model gives it): a different answer is a failing input
            rep.prop_fail.append(("calendar %s differs from the proved model: %s" % ("/".join(bad), ans), {"case": meta, "driver_line": line, "driver_answer": ans}))


def cal_range(d3, u, t0, t1, dt, again):
    """`range(start, stop, step)` of a calendar unit; with `again`, what the SECOND identical request returns after the caller edited the first answer"""
    if again == "other-unit":
        # the very same request was put to ANOTHER unit's interval just before: what one interval answered is not the other's answer
        order = ["second", "minute", "hour", "day", "week", "month", "year"]
        for v in order[order.index(u) + 1:]:        # coarser units only: the same window holds fewer of their boundaries
            d3[v].range(to_dt(t0), to_dt(t1), dt)
        return d3[u].range(to_dt(t0), to_dt(t1), dt)
    got = d3[u].range(to_dt(t0), to_dt(t1), dt)
    if again is None:
        return got
    if again == "reverse":
        got.reverse()
    elif again == "pop":
        del got[:2]
    elif again == "append":
        got.append(to_dt(t1))
    elif again == "clear":
        del got[:]
    return d3[u].range(to_dt(t0), to_dt(t1), dt)


def quick_skip(tier, dn):
    """quick tier: every day is visited, but with one unit per day (round-robin) unless the day is within two days of a month boundary"""
    if tier != "quick":
        return False
    d = to_dt(dn * DAY)
    return 3 <= d.day <= 26



# ------------------------------------------------------------------------------------------- histories (C15, C16)
def gen_time_history(rng):
    """operations on a TimeScale and its copies: ("domain", i, d0, d1) ("range", i, r0, r1) ("nice", i, m) ("copy", i) ("ticks", i, m)
    ("call", i, t)"""
    d0, d1 = gen_domain(rng)
    ops = [("domain", 0, d0, d1)]
    n = 1
    for _ in range(rng.randint(2, 7)):
        c = rng.random()
        i = rng.randrange(n)
        if c < 0.18:
            ops.append(("copy", i)); n += 1
        elif c < 0.25:
            # a second TimeScale object over the SAME inner linear scale (`TimeScale(lin)` twice, or `copy.copy(scale)`): the two are one scale
            # with two handles — what is set through one is what the other reports and maps by
            ops.append(("share", i, rng.choice(["linear", "shallow"]))); n += 1
            if rng.random() < 0.6:
                t = rng.randint(LO, HI)
                ops.append(("call", n - 1, t))
                a, b = gen_domain(rng)
                ops.append(rng.choice([("domain", i, a, b), ("range", i, rng.choice([0, -20, 7.5]), rng.choice([100, 360, 1000, 640]))]))
        elif c < 0.5:
            a, b = gen_domain(rng)
            ops.append(("domain", i, a, b))
        elif c < 0.7:
            # "ticks!": the caller edits the list it got back (it is the caller's list) — a later answer must not show the edit
            ops.append((rng.choice(["ticks", "ticks!"]), i, rng.choice([None, 10, 5, 10, 3])))
        elif c < 0.8:
            ops.append(("nice", i, rng.choice([None, 10, 5])))
        elif c < 0.84:
            # the caller reads the domain and edits the list it got back (its own list: a time scale builds it afresh for every request)
            ops.append(("domain-read!", i, rng.choice(["reverse", "clear", "append", "pad"])))
        elif c < 0.9:
            # "range!": the caller changes the list it passed before in place and passes the same object again
            ops.append((rng.choice(["range", "range!"]), i, rng.choice([0, -20, 7.5]), rng.choice([100, 360, 1000, 640])))
        else:
            ops.append(("call", i, rng.randint(LO, HI)))
    return ops


EXPECTED_DOMAINS = []
CALLED = []                  # per object: instants it was asked to map DURING the history (asked again at the end)


def run_time_history(ops, m):
    """returns per object (reported domain in ms, reported range, ticks(m) in ms) after the history"""
    from labella.scale import TimeScale, LinearScale
    import copy as _copy
    lin0 = LinearScale()
    objs = [TimeScale(lin0)]
    linear_of = {0: lin0}    # the inner linear scales the CALLER built and handed over (a copy() makes its own)
    grp = [0]                # objects over one inner linear scale form a group: one scale, several handles
    passed = {}
    expect = [None]          # per group: the domain it was last GIVEN (None once nice() has moved it): what every handle must report at the end
    CALLED[:] = [[]]
    EXPECTED_DOMAINS[:] = []
    for o in ops:
        s = objs[o[1]]
        if o[0] == "nice":
            expect[grp[o[1]]] = None
        elif o[0] == "copy":
            expect.append(expect[grp[o[1]]]); grp.append(len(expect) - 1); CALLED.append([])
        elif o[0] == "share":
            grp.append(grp[o[1]]); CALLED.append([])
            if o[2] == "linear" and o[1] in linear_of:
                linear_of[len(objs)] = linear_of[o[1]]
                objs.append(TimeScale(linear_of[o[1]]))
            else:
                if o[1] in linear_of:
                    linear_of[len(objs)] = linear_of[o[1]]
                objs.append(_copy.copy(s))
        if o[0] == "domain":
            expect[grp[o[1]]] = [o[2], o[3]]
            s.domain([to_dt(o[2]), to_dt(o[3])])
        elif o[0] in ("range", "range!"):
            lst = passed.get(o[1]) if o[0] == "range!" else None
            if lst is None:
                lst = [o[2], o[3]]
            else:
                lst[0], lst[1] = o[2], o[3]
            passed[o[1]] = lst
            s.range(lst)
        elif o[0] == "nice":
            s.nice(o[2]) if o[2] is not None else s.nice()
        elif o[0] == "domain-read!":
            got = s.domain()
            if isinstance(got, list):
                if o[2] == "reverse":
                    got.reverse()
                elif o[2] == "clear":
                    del got[:]
                elif o[2] == "append":
                    got.append(to_dt(0))
                elif len(got) == 2:
                    got[0], got[1] = got[0] - timedelta(days=400), got[1] + timedelta(days=400)
        elif o[0] == "copy":
            objs.append(s.copy())
        elif o[0] in ("ticks", "ticks!"):
            got = s.ticks(o[2]) if o[2] is not None else s.ticks()
            if o[0] == "ticks!" and isinstance(got, list):
                got.reverse()
                del got[:1]
                got.append(to_dt(0))
        elif o[0] == "call":
            s(to_dt(o[2]))
            if o[2] not in CALLED[o[1]] and len(CALLED[o[1]]) < 3:
                CALLED[o[1]].append(o[2])
    out = []
    for s in objs:
        d = [to_ms(x) for x in s.domain()]
        tk = s.ticks(m) if m is not None else s.ticks()
        out.append((d, list(s.range()), tk, s))
    EXPECTED_DOMAINS[:] = [expect[g] for g in grp]
    return out

# ------------------------------------------------------------------------------------------- C16
def body_c16(tier, seed, rep, only_prop=False, scale=1):
    from labella.scale import TimeScale
    rng = rng_for(seed, "c16")
    lines, metas = [], []
    for _ in range(common.count(tier, 20000, 200000) * scale):
        d0, d1 = gen_domain(rng)
        m = rng.choice([None, 10, 2, 3, 4, 5, 7, 12, 20, 33, 50])
        meta = {"kind": "tticks", "d0": d0, "d1": d1, "m": m}
        try:
            with time_limit(10):
                s = TimeScale().domain([to_dt(d0), to_dt(d1)])
                tk = s.ticks(m) if m is not None else s.ticks()
            lines.append("tticks|%d|%d|%s|%s" % (d0, d1, fr(10 if m is None else m), msl(tk))); metas.append(meta)
        except Exception as e:
            rep.prop_fail.append(("ticks() raised %s: %s" % (type(e).__name__, e), {"case": meta}))
    # the ticks must be those of the domain the scale reports NOW, whatever happened before to this object and to its copies
    for _ in range(common.count(tier, 1500, 20000) * scale):
        ops = gen_time_history(rng)
        used = [o[2] for o in ops if o[0] in ("ticks", "ticks!")]
        m = rng.choice(used) if used and rng.random() < 0.7 else rng.choice([None, 10, 5, 3])
        meta = {"kind": "tticks-history", "ops": ops, "m": m}
        try:
            with time_limit(10):
                res = run_time_history(ops, m)
        except Exception as e:
            rep.prop_fail.append(("ticks() raised %s after a history: %s" % (type(e).__name__, e), {"case": meta})); continue
        for k, (d, r, tk, _s) in enumerate(res):
            exp = EXPECTED_DOMAINS[k] if k < len(EXPECTED_DOMAINS) else None
            if exp is not None and list(d) != list(exp):
                rep.prop_fail.append(("after this history the scale reports the domain %s although it was given %s and only asked for ticks since (ticks are then judged against a domain nobody set)" % (d, exp), {"case": dict(meta, obj=k)}))
                continue
            if d[0] == d[1]:
                continue
            lines.append("tticks|%d|%d|%s|%s" % (d[0], d[1], fr(10 if m is None else m), msl(tk))); metas.append(dict(meta, obj=k, d0=d[0], d1=d[1]))
            rep.count("ticks-after-history")
    answers = drive(lines)
    for line, meta, ans in zip(lines, metas, answers):
        f = fields(ans)
        rep.case(line, nontrivial=int(f["n"]) >= 2, sample={"case": meta, "driver": ans})
        rep.count("method=" + f["method"])
        payload = {"case": meta, "driver_line": line, "driver_answer": ans}
        if f["model"] != "ok":
            rep.model_fail = True
            rep.model_fail_case = payload
        if f["prop"] != "ok":
            rep.prop_fail.append(("C16 tick predicate false on the implementation's ticks: " + ans, payload))
        elif f["same"] == "tie":
            rep.ties += 1
        elif f["same"] != "ok" and not only_prop:
            rep.corr_fail.append(("ticks differ from the model: " + ans, payload))


# ------------------------------------------------------------------------------------------- C15
def body_c15(tier, seed, rep, only_prop=False, scale=1):
    from labella.scale import TimeScale
    rng = rng_for(seed, "c15")
    lines, metas = [], []
    for _ in range(common.count(tier, 4000, 50000) * scale):
        d0, d1 = gen_domain(rng)
        r0 = rng.choice([0, 0, -50, 12.5, rng.uniform(-1e4, 1e4)])
        r1 = r0 + rng.choice([1, -1]) * rng.choice([100, 360, 1000, 0.5, rng.uniform(1, 1e5)])
        s = TimeScale().domain([to_dt(d0), to_dt(d1)]).range([r0, r1])
        lo, hi = min(d0, d1), max(d0, d1)
        qs = [d0, d1, rng.randint(lo, hi), rng.randint(lo, hi), min(HI, hi + rng.randint(1, hi - lo + 10)), max(LO, lo - rng.randint(1, hi - lo + 10))]
        for t in qs:
            meta = {"kind": "tscale", "d0": d0, "d1": d1, "r0": r0, "r1": r1, "t": t}
            try:
                y = s(to_dt(t))
                if lo <= t <= hi:
                    tinv = to_ms(s.invert(y))
                else:
                    tinv = t
                lines.append("tscale|%d|%d|%s|%s|%d|%s|%s" % (d0, d1, fr(r0), fr(r1), t, fr(y), fr(tinv))); metas.append(meta)
            except Exception as e:
                rep.prop_fail.append(("time scale raised %s: %s" % (type(e).__name__, e), {"case": meta}))
        # strict monotonicity and equal durations -> equal lengths, observed directly on the implementation
        a, b = sorted(rng.sample(range(lo, hi + 1), 2)) if hi - lo >= 2 else (lo, hi)
        if a != b:
            ya, yb = s(to_dt(a)), s(to_dt(b))
            inc = (r1 > r0) == (d1 > d0)
            if not ((yb > ya) if inc else (yb < ya)):
                rep.prop_fail.append(("time scale not strictly monotone", {"case": {"kind": "tscale-mono", "d0": d0, "d1": d1, "r0": r0, "r1": r1, "a": a, "b": b}}))
    # after any history of domain / range / nice / copy calls (also with a re-used list object) every scale is the affine map through
    # the domain and the range it REPORTS
    for _ in range(common.count(tier, 1200, 15000) * scale):
        ops = gen_time_history(rng)
        meta0 = {"kind": "tscale-history", "ops": ops}
        try:
            with time_limit(10):
                res = run_time_history(ops, None)
                for k, (d, r, tk, s) in enumerate(res):
                    if d[0] == d[1] or r[0] == r[1]:
                        continue
                    lo, hi = min(d), max(d)
                    w = max(1, (hi - lo) // 3)
                    for t in [d[0], d[1], rng.randint(lo, hi), max(LO, lo - w), min(HI, hi + w)] + list(CALLED[k]):      # also instants OUTSIDE the domain: an unclamped scale (and every copy of it) extends the same line
                        y = s(to_dt(t))
                        tinv = to_ms(s.invert(y))
                        lines.append("tscale|%d|%d|%s|%s|%d|%s|%s" % (d[0], d[1], fr(r[0]), fr(r[1]), t, fr(y), fr(tinv)))
                        metas.append(dict(meta0, obj=k, t=t, d0=d[0], d1=d[1], r0=r[0], r1=r[1]))
                        rep.count("value-after-history")
        except Exception as e:
            rep.prop_fail.append(("time scale raised %s after a history: %s" % (type(e).__name__, e), {"case": meta0}))
    answers = drive(lines)
    for line, meta, ans in zip(lines, metas, answers):
        f = fields(ans)
        rep.case(line, nontrivial=True, sample={"case": meta, "driver": ans})
        rep.count("inside=" + f["inside"])
        payload = {"case": meta, "driver_line": line, "driver_answer": ans}
        if f["back"] != "ok":
            rep.prop_fail.append(("invert(scale(t)) is more than 1 ms away from t: " + ans, payload))
        elif f["same"] != "ok":
            # the affine map through the end points is unique: a value away from it (beyond float error) violates C15
            rep.prop_fail.append(("time scale value differs from the affine map: " + ans, payload))


BODIES = {"C17": body_c17, "C16": body_c16, "C15": body_c15}
ASSUME = ["modelled, not verified: CPython datetime/timedelta (proleptic Gregorian calendar) — compared with the integer calendar of the model on every day 1900-2200; float arithmetic on millisecond counts (exact below 2^53)",
          "instants are exchanged as integer milliseconds since 1970-01-01T00:00 (naive); the harness converts with exact integer timedelta arithmetic"]
RULES = {
    "C17": "every day 1900-2200 (each at midnight or a random time of day; all 7 units near month boundaries, round-robin elsewhere in the quick tier, all units in the thorough tier), instants concentrated on month ends / leap days / year ends / Sundays, offsets k in 0..400, ranges with steps 1..12 of at most ~2500 unit steps; non-trivial = instant not itself a boundary, or a non-empty range; distinct by canonical line",
    "C16": "time domains of ms resolution 1900-2200, spans 1 ms to 250 years (small spans, log-uniform spans, whole multiples of units), either orientation, counts default/2..50; non-trivial = at least two ticks; distinct by canonical line",
    "C15": "time domains as in C16 with random ranges (either orientation), queries at both ends, inside and outside; plus direct strict-monotonicity probes; every case distinct input",
}


def run(pid, tier, seed, replay=None):
    rep = Report(pid, tier, seed)
    rep.model_fail = False
    st = build_and_audit(pid, rep.log)
    body = BODIES[pid]
    if replay:
        return replay_case(pid, replay)
    body(tier, seed, rep)
    if rep.model_fail:
        st["broken"].append("model-prop-fail: a property predicate is false of the model's own output")

    def search():
        before = len(rep.prop_fail)
        body(tier, seed + 7919, rep, only_prop=True, scale=3)
        if len(rep.prop_fail) > before:
            what, payload = rep.prop_fail[before]
            del rep.prop_fail[before:]
            return {"what": what, **payload}
        return None

    if tier == "thorough" and not st["broken"]:
        if not leanchecker(pid, rep.log):
            st["broken"].append("leanchecker rejected the compiled proofs")
    return rep.finish(st, ASSUME, RULES[pid], search)


def replay_case(pid, replay):
    with open(replay) as fh:
        m = json.load(fh)["case"]
    from labella.d3_time import d3_time as d3
    from labella.scale import TimeScale
    if m["kind"] == "cal":
        line = run_cal_case(d3, m["unit"], m["t"], m["k"])
    elif m["kind"] == "calrange":
        line = "calrange|%s|%d|%d|%d|%s" % (m["unit"], m["t0"], m["t1"], m["dt"], msl(cal_range(d3, m["unit"], m["t0"], m["t1"], m["dt"], m.get("again"))))
    elif m["kind"] == "tticks":
        s = TimeScale().domain([to_dt(m["d0"]), to_dt(m["d1"])])
        tk = s.ticks(m["m"]) if m["m"] is not None else s.ticks()
        line = "tticks|%d|%d|%s|%s" % (m["d0"], m["d1"], fr(10 if m["m"] is None else m["m"]), msl(tk))
    elif m["kind"] == "tticks-history":
        d, r, tk, _s = run_time_history([tuple(o) for o in m["ops"]], m["m"])[m["obj"]]
        exp = EXPECTED_DOMAINS[m["obj"]] if m["obj"] < len(EXPECTED_DOMAINS) else None
        if exp is not None and list(d) != list(exp):
            print("replay: the scale reports", d, "but was given", exp); print("VIOLATION property=%s replay=%s" % (pid, replay)); return 1
        line = "tticks|%d|%d|%s|%s" % (d[0], d[1], fr(10 if m["m"] is None else m["m"]), msl(tk))
    elif m["kind"] == "tscale-history":
        d, r, tk, s = run_time_history([tuple(o) for o in m["ops"]], None)[m["obj"]]
        y = s(to_dt(m["t"]))
        line = "tscale|%d|%d|%s|%s|%d|%s|%s" % (d[0], d[1], fr(r[0]), fr(r[1]), m["t"], fr(y), fr(to_ms(s.invert(y))))
    elif m["kind"] == "tscale":
        s = TimeScale().domain([to_dt(m["d0"]), to_dt(m["d1"])]).range([m["r0"], m["r1"]])
        y = s(to_dt(m["t"]))
        line = "tscale|%d|%d|%s|%s|%d|%s|%s" % (m["d0"], m["d1"], fr(m["r0"]), fr(m["r1"]), m["t"], fr(y), fr(to_ms(s.invert(y))))
    else:
        print("replay: unsupported case kind", m["kind"]); return 2
    ans = drive([line])[0]
    print("replay:", ans)
    bad = "fail" in ans.replace("model=fail", "")
    print("VIOLATION property=%s replay=%s" % (pid, replay) if bad else "replay: holds now")
    return 1 if bad else 0
