import subprocess, shutil, os, sys
FIXES = []
def fix(name, msg, edits): FIXES.append((name,msg,edits))

fix("01-vpsc-satisfy-loop", "fix: re-select the most violated constraint on every pass of Solver.satisfy\n\nThe loop condition of the original (`while ((v = mostViolated()) && ...)`) was\nported as a single assignment before the loop, so satisfy() performed at most one\nmerge per call and solve() could stop with constraints still violated (by up to\n~0.014 for unit weights, arbitrarily much when cycles are present).",
 [("labella/vpsc.py", """                if v.slack() >= 0:
                    self.inactive.append(v)
                else:
                    self.bs.merge(v)
""", """                if v.slack() >= 0:
                    self.inactive.append(v)
                else:
                    self.bs.merge(v)
            v = self.mostViolated()
""")])

fix("02-force-store-layers", "fix: keep the computed layers so that Force.getLayers() reports them\n\ncompute() never assigned self.layers, so getLayers() (and every metric) always\nsaw None.",
 [("labella/force.py", """        layers = self.distributor.distribute(self._nodes)
""", """        layers = self.distributor.distribute(self._nodes)
        self.layers = layers
""")])

fix("03-linearscale-copy-lists", "fix: LinearScale.copy() must not share the domain and range lists\n\nnice() rewrites the domain list in place; with the lists shared, calling nice()\non a copy silently changed the domain reported by the original (and vice versa)\nwithout rescaling it.",
 [("labella/scale.py", """        return LinearScale(
            self._domain, self._range, self._interpolate, self._clamp
        )""", """        return LinearScale(
            list(self._domain),
            list(self._range),
            self._interpolate,
            self._clamp,
        )""")])

fix("04-degenerate-domain", "fix: a degenerate domain maps everything to the start of the range\n\nd3 uninterpolates with `b = (b - a) || 1 / b`, i.e. an empty domain divides by\ninfinity; the port divided by zero (single datum, equal times).  The tick label\nprecision of a zero step is 0 instead of log(0).",
 [("labella/scale.py", """def d3_uninterpolateNumber(a, b):
    return lambda x: (x - a) / (b - a)


def d3_uninterpolateClamp(a, b):
    return lambda x: max(0, min(1, (x - a) / (b - a)))
""", """def d3_uninterpolateNumber(a, b):
    b = (b - a) or math.inf
    return lambda x: (x - a) / b


def d3_uninterpolateClamp(a, b):
    b = (b - a) or math.inf
    return lambda x: max(0, min(1, (x - a) / b))
"""), ("labella/scale.py", """def d3_scale_linearPrecision(value):
    return -math.floor(math.log(value) / math.log(10) + 0.01)""", """def d3_scale_linearPrecision(value):
    if not value:
        return 0
    return -math.floor(math.log(value) / math.log(10) + 0.01)""")])

fix("05-day-offset", "fix: step days with timedelta so that month ends are crossed correctly\n\nd3_time_day_offset advanced months from the original date and used\nreplace(day=...): offset(Jan 31, 1) raised ValueError and offset(Jan 1, 70)\nreturned Feb 12.  Every day-granularity tick range or nice() across a 29th-31st\nfailed.",
 [("labella/d3_time.py", """def d3_time_day_offset(date, offset):
    nday = date.day + offset
    ndaysthismonth = daysThisMonth(date)
    ndate = deepcopy(date)
    while nday > ndaysthismonth:
        ndate = d3_time_month_offset(date, 1)
        nday -= ndaysthismonth
        ndaysthismonth = daysThisMonth(ndate)
    ndate = ndate.replace(day=nday)
    return ndate
""", """def d3_time_day_offset(date, offset):
    return date + timedelta(days=math.floor(offset))
""")])

fix("06-millisecond-step", "fix: millisecond tick ranges need an integer step of at least one\n\nThe linear tick step for spans of about 7-10 ms is the float 1.0 (0.1 * 10) and\nrange() rejects it; sub-millisecond steps degrade to one tick per millisecond.",
 [("labella/scale.py", """    def range(self, start, stop, step):
        return list(""", """    def range(self, start, stop, step):
        step = max(1, math.floor(step))
        return list(""")])

fix("07-timezone-free", "fix: convert datetimes to milliseconds without going through local time\n\ntimestamp()/fromtimestamp() interpret naive datetimes in the process time zone,\nso floors, ticks and nice domains shifted around DST changes (e.g. under\nTZ=America/New_York the hour floor of 2021-03-14 02:30 was 03:00 and the week\nfloor of 2021-03-17 was 03-13 23:00).  Time zones are documented as ignored: use\nplain epoch arithmetic.",
 [("labella/scale.py", "from datetime import datetime\n", "from datetime import datetime\nfrom datetime import timedelta\n"),
  ("labella/scale.py", """dt2milli = lambda x: x.timestamp() * 1000.0
milli2dt = lambda x: datetime.fromtimestamp(x / 1000.0)
""", """d3_epoch = datetime(1970, 1, 1)
dt2milli = lambda x: (x - d3_epoch) / timedelta(milliseconds=1)
milli2dt = lambda x: d3_epoch + timedelta(milliseconds=x)
"""),
  ("labella/scale.py", """                    math.ceil(int(start.timestamp() * 1000) / step) * step,
                    int(stop.timestamp() * 1000),""", """                    math.ceil(int(dt2milli(start)) / step) * step,
                    int(dt2milli(stop)),"""),
  ("labella/scale.py", "extent = list(map(lambda x: x.timestamp() * 1000, extent))", "extent = list(map(dt2milli, extent))"),
  ("labella/d3_time.py", """milli2dt = lambda x: datetime.fromtimestamp(x / 1000.0)
dt2milli = lambda x: x.timestamp() * 1000.0
""", """d3_epoch = datetime(1970, 1, 1)
milli2dt = lambda x: d3_epoch + timedelta(milliseconds=x)
dt2milli = lambda x: (x - d3_epoch) / timedelta(milliseconds=1)
"""),
  ("labella/d3_time.py", "    ndate = datetime.fromtimestamp(ndate.timestamp() - diff * 24 * 3600)\n", "    ndate = ndate - timedelta(days=diff)\n"),
  ("labella/d3_time.py", """    lambda date, offset: datetime.fromtimestamp(
        date.timestamp() + math.floor(offset) * 7 * 24 * 3600
    ),""", """    lambda date, offset: date + timedelta(days=math.floor(offset) * 7),""")])

fix("08-timeline-options-none", "fix: Timeline accepts options=None\n\nThe documented default (options omitted) raised TypeError because the latex\nsub-options were looked up in None.",
 [("labella/timeline.py", """        # update latex options
        latex_opts = {k: v for k, v in DEFAULT_OPTIONS["latex"].items()}""", """        if options is None:
            options = {}
        # update latex options
        latex_opts = {k: v for k, v in DEFAULT_OPTIONS["latex"].items()}""")])

fix("09-timeline-keep-time-of-day", "fix: keep the time of day of datetime values\n\ndatetime is a subclass of date, so every datetime was recombined with midnight\nand all data of one day collapsed onto one point of the axis.",
 [("labella/timeline.py", """            if isinstance(time, datetime.date):
                time = datetime.datetime.combine(""", """            if isinstance(time, datetime.datetime):
                pass
            elif isinstance(time, datetime.date):
                time = datetime.datetime.combine(""")])

fix("10-timeline-private-defaults", "fix: every Timeline gets its own default scale and labella options\n\nThe default TimeScale and the default labella dict live in the module-level\nDEFAULT_OPTIONS and were used (and re-domained / written to) by every instance,\nso constructing a second timeline changed the export of the first.",
 [("labella/timeline.py", """        if options:
            self.options.update(options)
        self.direction = self.options["direction"]
        self.options["labella"]["direction"] = self.direction
""", """        if options:
            self.options.update(options)
        if not options or "scale" not in options:
            self.options["scale"] = TimeScale()
        self.direction = self.options["direction"]
        self.options["labella"] = dict(self.options["labella"])
        self.options["labella"]["direction"] = self.direction
""")])

fix("11-uni2tex", "fix: uni2tex applies combining accents to the preceding character and never raises\n\nA combining mark was attached to the character that follows it (IndexError at\nthe end of the text), and any character whose Unicode decomposition is not a\nplain \"base accent\" pair (ellipsis, no-break space, Angstrom sign, fractions,\nligatures, ...) raised ValueError.  Only canonical two-element decompositions\nare converted; everything else passes through unchanged.",
 [("labella/tex.py", '''    out = ""
    txt = tuple(text)
    i = 0
    while i < len(txt):
        char = text[i]
        code = ord(char)

        # combining marks
        if unicodedata.category(char) in ("Mn", "Mc") and code in accents:
            out += "\\\\%s{%s}" % (accents[code], txt[i + 1])
            i += 1
        # precomposed characters
        elif unicodedata.decomposition(char):
            base, acc = unicodedata.decomposition(char).split()
            acc = int(acc, 16)
            base = int(base, 16)
            if acc in accents:
                out += "\\\\%s{%s}" % (accents[acc], chr(base))
            else:
                out += char
        else:
            out += char
        i += 1
    return out
''', '''    out = []
    for char in text:
        code = ord(char)
        decomp = unicodedata.decomposition(char).split()

        # combining marks apply to the character that precedes them
        if unicodedata.category(char) in ("Mn", "Mc") and code in accents:
            if out:
                out[-1] = "\\\\%s{%s}" % (accents[code], out[-1])
            else:
                out.append(char)
        # precomposed characters (canonical base + accent pairs only)
        elif len(decomp) == 2 and not decomp[0].startswith("<"):
            acc = int(decomp[1], 16)
            base = int(decomp[0], 16)
            if acc in accents:
                out.append("\\\\%s{%s}" % (accents[acc], chr(base)))
            else:
                out.append(char)
        else:
            out.append(char)
    return "".join(out)
''')])

def apply(root, edits):
    for path, old, new in edits:
        p=os.path.join(root,path); s=open(p).read()
        assert s.count(old)==1, (path, old[:60], s.count(old))
        open(p,'w').write(s.replace(old,new))
def tests(root):
    r=subprocess.run(['/venv/bin/python','-m','pytest','-q','-p','no:cacheprovider','-x'],cwd=root,capture_output=True,text=True)
    return r.stdout.strip().splitlines()[-1]
out='/verif/fixes'
# individually
for name,msg,edits in FIXES:
    root='/tmp/fixwork/one'; shutil.rmtree(root,ignore_errors=True); shutil.copytree('/repo',root)
    apply(root,edits)
    d=subprocess.run(['git','diff'],cwd=root,capture_output=True,text=True).stdout
    open(f'{out}/{name}.diff','w').write(d); open(f'{out}/{name}.msg','w').write(msg+'\n')
    print(name,'alone:',tests(root), 'lines +%d -%d'%(sum(1 for l in d.splitlines() if l.startswith('+') and not l.startswith('+++')), sum(1 for l in d.splitlines() if l.startswith('-') and not l.startswith('---'))))
shutil.rmtree('/tmp/fixwork/one',ignore_errors=True)
# cumulative
root='/tmp/fixwork/all'; shutil.rmtree(root,ignore_errors=True); shutil.copytree('/repo',root)
for name,msg,edits in FIXES:
    apply(root,edits)
print('cumulative:',tests(root))
d=subprocess.run(['git','diff'],cwd=root,capture_output=True,text=True).stdout
open(f'{out}/planned-fixes.diff','w').write(d)
