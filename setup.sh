#!/bin/sh
# build the Lean library (models, proofs, property theorems) and the Mathlib-free driver from files on disk
set -e
cd "$(dirname "$0")/lean"
lake build Labella driver 2>&1 | tail -40
