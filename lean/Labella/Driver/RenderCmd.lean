import Labella.Driver.Parse
import Labella.Driver.TextCmd
import Labella.Model.Render
import Labella.Model.CalSpec
import Labella.Model.Process
/-! driver commands for the exported geometry (C07, C08, C09) -/
namespace Labella.Driver
open Labella Labella.Parse Labella.Render

def okR (b : Bool) : String := if b then "ok" else "fail"

def parseDir (s : String) : Option Dir :=
  match s with
  | "up" => some .up | "down" => some .down | "left" => some .left | "right" => some .right | _ => none

def parseRNode (s : String) : Option RNode :=
  match s.splitOn ":" with
  | [l, c, i, wd, w, h, hops] => do
    some { layer := ← parseNat l, cur := ← parseRat c, ideal := ← parseRat i, width := ← parseRat wd,
           w := ← parseRat w, h := ← parseRat h, hops := ← parseList "," parseRat hops }
  | _ => none

def parseBox (s : String) : Option Box :=
  match s.splitOn ":" with
  | [a, b, c, d] => do some { ox := ← parseRat a, oy := ← parseRat b, w := ← parseRat c, h := ← parseRat d }
  | _ => none

def parseStep (s : String) : Option Step :=
  match s.splitOn ":" with
  | ["M", x, y] => do some (.M (← parseRat x, ← parseRat y))
  | ["L", x, y] => do some (.L (← parseRat x, ← parseRat y))
  | ["C", a, b, c, d, x, y] => do some (.C (← parseRat a, ← parseRat b) (← parseRat c, ← parseRat d) (← parseRat x, ← parseRat y))
  | _ => none

def stepClose (tol : Rat) : Step → Step → Bool
  | .M p, .M q => ptCloseB tol p q
  | .L p, .L q => ptCloseB tol p q
  | .C a b p, .C c d q => ptCloseB tol a c && ptCloseB tol b d && ptCloseB tol p q
  | _, _ => false

def stepsClose (tol : Rat) (a b : List Step) : Bool := a.length == b.length && (a.zip b).all (fun p => stepClose tol p.1 p.2)

/-- `geom|dir|nodeHeight|layerGap|c08|nodes|boxes|dots|links`
nodes = the node states after layout (the emitters' input); boxes/dots/links = what one back-end printed, parsed back;
c08 = 1 when label spacing >= 3 and layer gap >= 1 (the domain of C08) -/
def geomCmd (f : List String) : Option String :=
  match f with
  | [dir, nh, lg, c08, nodes, boxes, dots, links] => do
    let o : ROpt := { dir := ← parseDir dir, nodeHeight := ← parseRat nh, layerGap := ← parseRat lg }
    let c08 ← parseBool c08
    let nodes ← parseList ";" parseRNode nodes
    let boxes ← parseList ";" parseBox boxes
    let dots ← parseList "," parseRat dots
    let links ← parseList ";" (parseList "~" parseStep) links
    let n := nodes.length
    let counts := boxes.length == n && dots.length == n && links.length == n
    -- correspondence: what was printed is what the model computes from the node states
    let ptol : Rat := 1 / 100000000 + ratAbs o.nodeHeight / 1000000000000   -- "%.8f" prints 8 decimals
    let sameBox := (nodes.zip boxes).all (fun p =>
      let org := boxOrigin o p.1
      -- sizes are printed with str(): the shortest decimal that reads back as the same double, not the double's exact value
      let near (a b : Rat) : Bool := decide (ratAbs (a - b) ≤ ratAbs b / 1000000000000000)
      -- "%i" truncates a float: when the exact coordinate is an integer (e.g. -(gap + H) + (H - h) with a non-terminating H) the float may sit
      -- a hair on either side of it, so both truncations are legitimate
      let np := nodePos o p.1
      let dl : Rat := (ratAbs np.1 + ratAbs np.2 + ratAbs o.nodeHeight + 1) / 1000000000000
      let truncNear (x obs : Rat) : Bool :=
        obs == (truncToZero x : Rat) || obs == (truncToZero (x + dl) : Rat) || obs == (truncToZero (x - dl) : Rat)
      (p.2.ox == (org.1 : Rat) || truncNear np.1 p.2.ox) && (p.2.oy == (org.2 : Rat) || truncNear np.2 p.2.oy) &&
        near p.2.w p.1.w && near p.2.h p.1.h)
    let sameDot := (nodes.zip dots).all (fun p => decide (ratAbs (p.2 - p.1.ideal) ≤ 1 / 1000000 + ratAbs p.1.ideal / 1000000000000))
    let sameLink := (nodes.zip links).all (fun p => stepsClose (ptol + ratAbs p.1.ideal / 1000000000000) (pathSteps o p.1) p.2)
    -- C07 predicates on the printed geometry
    let linkEnds := ((dots.zip links).zip boxes).all (fun p => linkEndsB o.dir (1 / 1000000 + ratAbs p.1.1 / 1000000000000) (1 + ptol) p.1.1 p.1.2 p.2)
    -- one curve per layer, and the path crosses every stub of the datum: for each layer nearer the axis than the label's, some step ends at the
    -- near edge of that layer at the stub's position and the NEXT step is the straight segment to its far edge
    let linkHops := (nodes.zip links).all (fun p =>
      (p.2.filter (fun s => match s with | .C _ _ _ => true | _ => false)).length == p.1.layer + 1 &&
      (((wayPoints o p.1).drop 1).take p.1.layer).all (fun wp =>
        match wp with
        | [near, far] =>
          let tol := ptol + ratAbs p.1.ideal / 1000000000000
          (p.2.zip (p.2.drop 1)).any (fun ss => ptCloseB tol ss.1.endPt near &&
            (match ss.2 with | .L q => ptCloseB tol q far | _ => false))
        | _ => false))
    -- C08 predicates
    let disjoint := !c08 || pairwiseDisjointB boxes
    let side := !c08 || boxes.all (onSideB o.dir (o.layerGap - 1))
    let nested := !c08 || nestedB o.dir ((nodes.map (·.layer)).zip boxes)
    -- the same on the model's own geometry
    let mboxes := nodes.map (fun nd => let org := boxOrigin o nd; ({ ox := org.1, oy := org.2, w := nd.w, h := nd.h } : Box))
    let mOK := ((nodes.zip mboxes).all (fun p => linkEndsB o.dir 0 1 p.1.ideal (pathSteps o p.1) p.2))
    some s!"geom counts={okR counts} box={okR sameBox} dot={okR sameDot} link={okR sameLink} linkends={okR linkEnds} hops={okR linkHops} disjoint={okR disjoint} side={okR side} nested={okR nested} model={okR mOK} n={n} layers={(nodes.map (·.layer)).foldl max 0 + 1}"
  | _ => none

def parseTick (s : String) : Option (Rat × List Nat) :=
  match s.splitOn ":" with
  | [p, t] => do some (← parseRat p, ← parseCps t)
  | _ => none

def parseOptCps (s : String) : Option (Option (List Nat)) :=
  if s == "-" then some none else (parseCps s).map some

def parseTriple' (s : String) : Option (Option (Nat × Nat × Nat)) :=
  if s == "-" then some none else
  match s.splitOn ":" with
  | [a, b, c] => do some (some (← parseNat a, ← parseNat b, ← parseNat c))
  | _ => none

/-- `pic|dir|svgAxis|tikzAxis|svgMain|tikzMain|svgBoxes|tikzBoxes|svgDots|tikzDots|svgLinks|tikzLinks|svgTicks|tikzTicks|svgTexts|tikzTexts|marks|decomps|svgCols|tikzCols`
the two documents describe the same picture inside the main layer -/
def picCmd (f : List String) : Option String :=
  match f with
  | [sa, ta, sm, tm, sb, tb, sd, td, sl, tl, st, tt, sx, tx, marks, decomps, sc, tc] => do
    let pair (s : String) : Option (Rat × Rat) := match s.splitOn ":" with
      | [a, b] => do some (← parseRat a, ← parseRat b) | _ => none
    let sa ← pair sa; let ta ← pair ta; let sm ← pair sm; let tm ← pair tm
    let sb ← parseList ";" parseBox sb; let tb ← parseList ";" parseBox tb
    let sd ← parseList "," parseRat sd; let td ← parseList "," parseRat td
    let sl ← parseList ";" (parseList "~" parseStep) sl; let tl ← parseList ";" (parseList "~" parseStep) tl
    let st ← parseList ";" parseTick st; let tt ← parseList ";" parseTick tt
    let sx ← parseList ";" parseOptCps sx; let tx ← parseList ";" parseOptCps tx
    let marks ← parseCps marks
    let decomps ← parseList ";" parseDecomp decomps
    let sc ← parseList ";" parseTriple' sc; let tc ← parseList ";" parseTriple' tc
    let db : Text.UDB := { isMark := fun c => marks.contains c,
                           decomp := fun c => (decomps.find? (fun d => d.1 == c)).map (fun d => (d.2.1, d.2.2)) }
    -- the TikZ back-end prints the axis length with %i: equal for integral sizes, within the 1-unit truncation otherwise
    let axis := decide (ratAbs (sa.1 - ta.1) < 1) && decide (ratAbs (sa.2 - ta.2) < 1) && (sa.1.den != 1 || sa.2.den != 1 || sa == ta)
    let main := sm == tm
    let boxes := sb == tb                                   -- both truncate the same number with %i
    let dots := sd.length == td.length && (sd.zip td).all (fun p => decide (ratAbs (p.1 - p.2) ≤ 1 / 1000000))   -- "%f" prints 6 decimals
    let links := sl == tl                                   -- the same "%.8f" strings
    let ticks := st.length == tt.length && (st.zip tt).all (fun p => decide (ratAbs (p.1.1 - p.2.1) < 1) && p.1.2 == p.2.2)
    let texts := sx.length == tx.length && (sx.zip tx).all (fun p =>
      match p.1, p.2 with
      | none, none => true
      | some a, some b => Text.uni2tex db a == b
      | _, _ => false)
    let cols := sc == tc
    some s!"pic axis={okR axis} main={okR main} boxes={okR boxes} dots={okR dots} links={okR links} ticks={okR ticks} texts={okR texts} colors={okR cols} n={sb.length}"
  | _ => none

/-- `tfmt|t|text` : the time tick label of instant t -/
def tfmtCmd (f : List String) : Option String :=
  match f with
  | [t, txt] => do
    let t ← parseInt t
    let txt ← parseCps txt
    some s!"tfmt same={okR ((Calendar.timeFormat t).toList.map Char.toNat == txt)}"
  | _ => none

end Labella.Driver

namespace Labella.Driver
open Labella Labella.Parse Labella.Render

/-- `size|dir|padL|padR|padT|padB|items|boxes|texts`
items = `width:hasText` per datum (explicit widths; the height of a label with explicit width is `Gen.tl_itemHeight`),
boxes as printed, texts = `expected>actual` code point lists (or `-`):
the box has the datum's size plus padding (for left/right the label is turned: a text label keeps its text horizontal) and shows the text verbatim -/
def sizeCmd (f : List String) : Option String :=
  match f with
  | [dir, pl, pr, pt, pb, items, boxes, texts] => do
    let dir ← parseDir dir
    let pl ← parseRat pl; let pr ← parseRat pr; let pt ← parseRat pt; let pb ← parseRat pb
    let items ← parseList ";" (fun s => match s.splitOn ":" with
      | [w, t] => do some (← parseRat w, ← parseBool t) | _ => none) items
    let boxes ← parseList ";" parseBox boxes
    let texts ← parseList ";" (fun s => match s.splitOn ">" with
      | [a, b] => do some (← parseOptCps a, ← parseOptCps b) | _ => none) texts
    let H := Gen.tl_itemHeight
    let expect (it : Rat × Bool) : Rat × Rat :=
      if dir.horizontalAxis then (it.1 + pl + pr, H + pt + pb)
      else if it.2 then (it.1 + pt + pb, H + pl + pr)
      else (H + pt + pb, it.1 + pl + pr)
    -- printed with str() (shortest round-trip decimal) after float additions: equal up to a few units in the last place
    let near (a b : Rat) : Bool := decide (ratAbs (a - b) ≤ ratAbs b / 10000000000000)
    let sizes := boxes.length == items.length && (items.zip boxes).all (fun p => near p.2.w (expect p.1).1 && near p.2.h (expect p.1).2)
    let verbatim := texts.all (fun p => p.1 == p.2)
    some s!"size sizes={okR sizes} texts={okR verbatim} n={items.length}"
  | _ => none

end Labella.Driver

namespace Labella.Driver
open Labella.Process

def parsePOp (s : String) : Option POp :=
  match s.splitOn ":" with
  | ["c", i, a, b, d] => do some (.construct (← Labella.Parse.parseNat i) ⟨a, b, d⟩)
  | ["e", i] => do some (.export (← Labella.Parse.parseNat i))
  | _ => none

/-- `proc|ops|observations` : observations of the exports (`d0:d1:dir`) against the isolated-instances model -/
def procCmd (f : List String) : Option String :=
  match f with
  | [ops, obs] => do
    let ops ← Labella.Parse.parseList ";" parsePOp ops
    let obs ← Labella.Parse.parseList ";" (fun s => match s.splitOn ":" with
      | [a, b, d] => some (some (⟨a, b, d⟩ : Args)) | _ => none) obs
    let m := outputs false PState.init ops
    let same := m == obs
    let mOK := m == expected [] ops
    let legacy := outputs true PState.init ops == expected [] ops
    some s!"proc same={okR same} model={okR mOK} legacyWouldBreak={if legacy then 0 else 1} exports={obs.length}"
  | _ => none

end Labella.Driver
