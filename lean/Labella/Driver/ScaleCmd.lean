import Labella.Driver.Parse
import Labella.Model.Scale
/-! driver commands for the linear scale (C12, C13, C14 linear part) -/
namespace Labella.Driver
open Labella Labella.Parse Labella.Scale

def okL (b : Bool) : String := if b then "ok" else "fail"

/-- `lin|clamp|a|b|r0|r1|x|y|xinv` : y = scale(x) observed, xinv = invert(y) observed -/
def linCmd (f : List String) : Option String :=
  match f with
  | [c, a, b, r0, r1, x, y, xinv] => do
    let c ← parseBool c
    let a ← parseRat a; let b ← parseRat b; let r0 ← parseRat r0; let r1 ← parseRat r1
    let x ← parseRat x; let y ← parseRat y; let xinv ← parseRat xinv
    let my := Scale.apply c a b r0 r1 x
    let rlen := ratAbs (r1 - r0)
    let dlen := ratAbs (b - a)
    -- relative float error of the affine map grows with the extrapolation factor and the offset/length ratio of both intervals
    let t := ratAbs (uninterp a b x)
    let condD := ratMax (ratAbs a) (ratMax (ratAbs b) (ratAbs x)) / dlen
    let condR := ratMax (ratAbs r0) (ratAbs r1) / rlen
    let u : Rat := 1 / 1000000000000000     -- 1e-15 ≈ 4.5 ulp
    let tol := rlen * (1 + t) * (1 + condD) * (1 + condR) * u * 8
    let same := decide (ratAbs (y - my) ≤ tol)
    let endp := (x != a || y == r0) && (x != b || y == r1)
    let inside := decide (ratMin a b ≤ x) && decide (x ≤ ratMax a b)
    let clampOK := !c || (decide (ratMin r0 r1 ≤ y) && decide (y ≤ ratMax r0 r1))
    -- round trip (unclamped, or clamped and inside): |invert(scale x) - x| small relative to the domain length
    let tolx := dlen * (1 + t) * (1 + condD) * (1 + condR) * u * 32
    let back := (c && !inside) || decide (ratAbs (xinv - x) ≤ tolx)
    some s!"lin same={okL same} endpoints={okL endp} clamp={okL clampOK} back={okL back} inside={if inside then 1 else 0}"
  | _ => none

/-- `linmono|clamp|a|b|r0|r1|x1|x2|y1|y2` with x1 < x2: strict monotonicity with the sign of (r1-r0)/(b-a) -/
def linMonoCmd (f : List String) : Option String :=
  match f with
  | [c, a, b, r0, r1, x1, x2, y1, y2] => do
    let c ← parseBool c
    let a ← parseRat a; let b ← parseRat b; let r0 ← parseRat r0; let r1 ← parseRat r1
    let x1 ← parseRat x1; let x2 ← parseRat x2; let y1 ← parseRat y1; let y2 ← parseRat y2
    let inc := decide (r0 < r1) == decide (a < b)
    let m1 := Scale.apply c a b r0 r1 x1
    let m2 := Scale.apply c a b r0 r1 x2
    -- only judged when the exact images differ by more than float resolution of the range values
    let res := ratMax (ratAbs r0) (ratAbs r1) / 100000000000000
    let judged := decide (res < ratAbs (m2 - m1))
    let ok := !judged || (if inc then decide (y1 < y2) else decide (y2 < y1))
    some s!"linmono mono={okL ok} judged={if judged then 1 else 0}"
  | _ => none

def parseStrs (s : String) : List String := if s == "" then [] else s.splitOn ";"

/-- `lticks|d0|d1|m|ticks|texts` -/
def lticksCmd (f : List String) : Option String :=
  match f with
  | [d0, d1, m, l, texts] => do
    let d0 ← parseRat d0; let d1 ← parseRat d1; let m ← parseRat m
    let l ← parseList "," parseRat l
    let texts := parseStrs texts
    let e := extent d0 d1
    let tie := tickStepTie (e.2 - e.1) m
    let step := (tickRange d0 d1 m).2.2
    let mt := Scale.ticks d0 d1 m
    -- relation: same count and values within 1e-6 step, or an end effect (impl is the model list minus/plus one end tick)
    -- absolute float resolution at the magnitude of the domain (ticks are accumulated sums: allow 2^-44 relative)
    let ftol := ratMax (ratAbs d0) (ratAbs d1) / 17592186044416
    let close (a b : List Rat) : Bool := a.length == b.length && (a.zip b).all (fun p => decide (ratAbs (p.1 - p.2) ≤ step / 1000000 + ftol))
    -- up to one tick more or less at either end (float end effects)
    let trims (x : List Rat) : List (List Rat) := [x, x.drop 1, x.dropLast, (x.drop 1).dropLast]
    let same := (trims l).any (fun a => (trims mt).any (fun b => close a b))
    let prop := ticksOKB ftol d0 d1 m l
    let form := decide (step ≤ 0) || stepFormB step   -- a degenerate domain has no ticks and no step
    let txt := textsOKB step l texts
    let mtexts := mt.map (fun x => formatFixed x (tickDecimals step))
    let mOK := ticksOKB 0 d0 d1 m mt && textsOKB step mt mtexts && form
    -- texts agree with the model up to the sign of a zero
    let normz (s : String) : String := if s.startsWith "-" && (s.drop 1).all (fun c => c == '0' || c == '.') then (s.drop 1).toString else s
    let sameTxt := !close l mt || texts.map normz == mtexts.map normz
    some s!"lticks same={if tie then "tie" else okL same} sametxt={if tie then "tie" else okL sameTxt} prop={if tie then "tie" else okL prop} form={okL form} texts={if tie then "tie" else okL txt} model={okL mOK} n={mt.length}"
  | _ => none

/-- `lnice|d0|d1|m|n0|n1` -/
def lniceCmd (f : List String) : Option String :=
  match f with
  | [d0, d1, m, n0, n1] => do
    let d0 ← parseRat d0; let d1 ← parseRat d1; let m ← parseRat m
    let n0 ← parseRat n0; let n1 ← parseRat n1
    let e := extent d0 d1
    let r := Scale.nice d0 d1 m
    let p1 := nicePass d0 d1 m
    let e1 := extent p1.1 p1.2
    let tie := tickStepTie (e.2 - e.1) m || tickStepTie (e1.2 - e1.1) m
    let step := (tickRange r.1 r.2 m).2.2
    -- relation: the float computation may land on the other side of an integer when a quotient `x/step` is within rounding of one:
    -- (1) in pass 1, as if the input end had been nudged by a relative 1e-12; (2) in pass 2, where the exact ends *are* multiples,
    -- pushing an end one further step out.  Whether the observed result is acceptable is decided by `niceOKB`, not by this relation.
    let nudges : List Rat := [0, 1 / 1000000000000, -1 / 1000000000000]
    let olo := ratMin n0 n1; let ohi := ratMax n0 n1
    -- `matches k`: the observed result is the model's (for some nudge) with at most `k` ends pushed one further step OF THE SECOND PASS out
    let matchesWith (ks : List Nat) : Bool := nudges.any (fun e0 => nudges.any (fun e1 =>
      let span := ratAbs (d1 - d0)
      let a0 := d0 + e0 * (ratAbs d0 + span)
      let a1 := d1 + e1 * (ratAbs d1 + span)
      let pp := nicePass a0 a1 m
      let rr := Scale.nice a0 a1 m
      let st2 := (tickRange pp.1 pp.2 m).2.2          -- the step the second pass rounds with
      let lo := ratMin rr.1 rr.2; let hi := ratMax rr.1 rr.2
      let endOK (obs mod outward : Rat) : Bool :=
        ks.any (fun (k : Nat) => decide (ratAbs (obs - (mod + outward * (k : Rat) * st2)) ≤ st2 / 1000000 + ratAbs mod / 281474976710656))
      decide (0 < st2) && endOK olo lo (-1) && endOK ohi hi 1))
    let exactSame := (d0 == d1 && n0 == d0 && n1 == d1) || matchesWith [0]
    let same := exactSame || matchesWith [0, 1]
    let ftol := ratMax (ratMax (ratAbs d0) (ratAbs d1)) (ratMax (ratAbs n0) (ratAbs n1)) / 281474976710656
    let prop := niceOKB ftol d0 d1 m n0 n1
    let noround := niceOKNoRoundB ftol d0 d1 m n0 n1
    let mOK := niceOKB 0 d0 d1 m r.1 r.2
    -- overshoot=1: the observed ends are the exact algorithm's with an end one further second-pass step out (a float quotient that sits on
    -- an integer): the signature of known finding F4 when the roundness clause is the only one that fails
    some s!"lnice same={if tie then "tie" else okL same} prop={okL prop} noround={okL noround} overshoot={if same && !exactSame then 1 else 0} model={okL mOK} moved={if r == (d0, d1) then 0 else 1}"
  | _ => none

def parseOp (s : String) : Option Op :=
  match s.splitOn ":" with
  | ["domain", i, a, b] => do some (.domain (← parseNat i) (← parseRat a) (← parseRat b))
  | ["range", i, a, b] => do some (.range (← parseNat i) (← parseRat a) (← parseRat b))
  | ["clamp", i, c] => do some (.clamp (← parseNat i) (← parseBool c))
  | ["inplace", i, a, b] => do some (.inplace (← parseNat i) (← parseRat a) (← parseRat b))
  | ["copy", i] => do some (.copy (← parseNat i))
  | _ => none

/-- observation of one object: `d0:d1:r0:r1:clamp:y0:y1` (reported domain/range/clamp, scale(d0), scale(d1)) -/
def parseObsS (s : String) : Option (Rat × Rat × Rat × Rat × Bool × Rat × Rat) :=
  match s.splitOn ":" with
  | [d0, d1, r0, r1, c, y0, y1] => do
    some (← parseRat d0, ← parseRat d1, ← parseRat r0, ← parseRat r1, ← parseBool c, ← parseRat y0, ← parseRat y1)
  | _ => none

/-- `lhist|ops|observations` : after the history every object reports what the model's object reports, and maps the end
points of the domain it reports to the end points of the range it reports -/
def lhistCmd (f : List String) : Option String :=
  match f with
  | [ops, obs] => do
    let ops ← parseList ";" parseOp ops
    let obs ← parseList ";" parseObsS obs
    let h := run false ops
    let same := h.objs.length == obs.length &&
      (h.objs.zip obs).all (fun p => reported h p.1 == (p.2.1, p.2.2.1, p.2.2.2.1, p.2.2.2.2.1, p.2.2.2.2.2.1))
    let coherent := obs.all (fun o =>
      let d0 := o.1; let d1 := o.2.1; let r0 := o.2.2.1; let r1 := o.2.2.2.1; let y0 := o.2.2.2.2.2.1; let y1 := o.2.2.2.2.2.2
      d0 == d1 || (y0 == r0 && y1 == r1))
    let legacy := coherentB (run true ops)
    some s!"lhist same={okL same} coherent={okL coherent} model={okL (coherentB h)} legacyWouldBreak={if legacy then 0 else 1} objs={obs.length}"
  | _ => none

end Labella.Driver
