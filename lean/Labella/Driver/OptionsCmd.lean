import Labella.Driver.Parse
import Labella.Model.Options
/-! driver command `objs` (C10): the object graph `Timeline.__init__` leaves behind — which of a timeline's option objects are the module's, the
caller's, another timeline's, or its own — compared with the transliteration `Options.construct` -/
namespace Labella.Driver
open Labella Labella.Parse Labella.Options

def nestedKeys : List String := ["margin", "labelPadding", "labella", "latex"]

/-- the caller's dicts are allocated first, each nested dict before the dict that refers to it; returns the heap, for every caller dict its id,
and for every (caller dict, key) the id of the nested object it supplied -/
def allocCallers (h : Heap) (ds : List (List String)) : Heap × List Nat × List (Nat × String × Nat) :=
  ds.zipIdx.foldl (fun (acc : Heap × List Nat × List (Nat × String × Nat)) (p : List String × Nat) =>
    let r := p.1.foldl (fun (a : Heap × Dict × List (Nat × String × Nat)) k =>
      if nestedKeys.contains k then
        let al := a.1.allocDict [("x-" ++ k, .atom "1")]
        (al.1, a.2.1 ++ [(k, .dict al.2)], a.2.2 ++ [(p.2, k, al.2)])
      else if k == "scale" then
        let al := a.1.allocScale "caller"
        (al.1, a.2.1 ++ [(k, .scale al.2)], a.2.2 ++ [(p.2, k, al.2)])
      else (a.1, a.2.1 ++ [(k, .atom "up")], a.2.2)) (acc.1, ([] : Dict), acc.2.2)
    let al := r.1.allocDict r.2.1
    (al.1, acc.2.1 ++ [al.2], r.2.2)) (h, [], [])

/-- `objs|keys,keys;keys;…|c;c;…|obs` — caller dicts (the option keys each holds), the constructions (index of the caller dict used, or `-`),
and what the real objects look like afterwards -/
def objsCmd (f : List String) : Option String :=
  match f with
  | [ds, cs, rows, keys, md] => do
    let obs := rows ++ "|" ++ keys ++ "|" ++ md
    let ds : List (List String) := if ds == "" && keys == "" then [] else (ds.splitOn ";").map (fun d => if d == "" then [] else d.splitOn ",")
    let cs ← (if cs == "" then some [] else (cs.splitOn ";").mapM (fun c => if c == "-" then some none else (parseNat c).map some))
    let a := allocCallers Heap.init ds
    let callerIds := a.2.1
    let supplied := a.2.2
    -- run the constructions
    let r := cs.zipIdx.foldl (fun (acc : Heap × List Nat) (p : Option Nat × Nat) =>
      let o := p.1.bind (fun j => callerIds[j]?)
      let c := construct acc.1 o s!"dom{p.2}"
      (c.1, acc.2 ++ [c.2])) (a.1, [])
    let h := r.1
    let tls := r.2
    let classify (i : Nat) (k : String) (v : Option Val) : String :=
      match v with
      | some (.dict o) =>
        if o < nModuleDicts then "module"
        else match supplied.find? (fun s => s.2.1 == k && s.2.2 == o && k != "scale") with
          | some s => s!"caller:{s.1}"
          | none =>
            match (tls.take i).zipIdx.find? (fun t => dget (h.dict t.1) k == some (.dict o)) with
            | some t => s!"shared:{t.2}"
            | none => "fresh"
      | some (.scale s) =>
        if s == 0 then "module"
        else match supplied.find? (fun x => x.2.1 == "scale" && x.2.2 == s) with
          | some x => s!"caller:{x.1}"
          | none =>
            match (tls.take i).zipIdx.find? (fun t => dget (h.dict t.1) k == some (.scale s)) with
            | some t => s!"shared:{t.2}"
            | none => "fresh"
      | _ => "other"
    let modelObs := ";".intercalate (tls.zipIdx.map (fun t =>
      ",".intercalate ((nestedKeys ++ ["scale"]).map (fun k => s!"{k}={classify t.2 k (dget (h.dict t.1) k)}"))))
    let callerKeys := ";".intercalate (callerIds.map (fun o => "+".intercalate ((h.dict o).map (·.1))))
    let moduleOK := (List.range nModuleDicts).all (fun i => h.dict i == Heap.init.dict i) && h.scales[0]? == some "default"
    let model := s!"{modelObs}|{callerKeys}|module={if moduleOK then "ok" else "changed"}"
    some s!"objs same={if model == obs then "ok" else "fail"} n={tls.length} callers={ds.length} model={if moduleOK then "ok" else "fail"} expect={model}"
  | _ => none

end Labella.Driver
