import Labella.Driver.Parse
import Labella.Model.CalSpec
/-! driver commands for the calendar intervals and the time scale (C14–C18) -/
namespace Labella.Driver
open Labella Labella.Parse Labella.Calendar

def okC (b : Bool) : String := if b then "ok" else "fail"

/-- an instant that may have come back non-integral (sub-millisecond) from a faulty conversion: `none` marks it -/
def parseInstant (s : String) : Option (Option Int) :=
  (parseRat s).map (fun r => if r.den == 1 then some r.num else none)

def parseUnit (s : String) : Option TUnit :=
  match s with
  | "second" => some .second | "minute" => some .minute | "hour" => some .hour | "day" => some .day
  | "week" => some .week | "month" => some .month | "year" => some .year | _ => none

/-- `cal|unit|t|k|floor|ceil|round|offset(floor,k)|number(t)` -/
def calCmd (f : List String) : Option String :=
  match f with
  | [u, t, k, fl, ce, ro, off, nu] => do
    let u ← parseUnit u
    let t ← parseInt t
    let k ← parseInt k
    let fl ← parseInstant fl; let ce ← parseInstant ce; let ro ← parseInstant ro; let off ← parseInstant off; let nu ← parseInstant nu
    let mf := floorU u t
    let spec := isBoundary u mf && decide (mf ≤ t) && isBoundary u (ceilU u t) && decide (t ≤ ceilU u t)
    some s!"cal floor={okC (fl == some mf)} ceil={okC (ce == some (ceilU u t))} round={okC (ro == some (roundU u t))} offset={okC (off == some (stepU u mf k))} number={okC (nu == some (numberU u t))} model={okC spec} onb={if t == mf then 1 else 0}"
  | _ => none

/-- `calrange|unit|t0|t1|dt|ticks` -/
def calRangeCmd (f : List String) : Option String :=
  match f with
  | [u, t0, t1, dt, l] => do
    let u ← parseUnit u
    let t0 ← parseInt t0; let t1 ← parseInt t1; let dt ← parseInt dt
    let l ← parseList "," parseInstant l
    let integral := l.all (·.isSome)
    let l := l.filterMap id
    let m := rangeU u t0 t1 dt
    let spec := m.all (fun t => isBoundary u t && decide (t0 ≤ t) && decide (t < t1)) && strictlyIncreasingB m
    some s!"calrange same={okC (integral && l == m)} model={okC spec} n={m.length}"
  | _ => none

/-- `tticks|d0|d1|m|ticks` -/
def tticksCmd (f : List String) : Option String :=
  match f with
  | [d0, d1, m, l] => do
    let d0 ← parseInt d0; let d1 ← parseInt d1; let m ← parseRat m
    let l ← parseList "," parseInstant l
    let integral := l.all (·.isSome)
    let l := l.filterMap id
    let mt := ticks d0 d1 m
    let meth := match tickMethod (min d0 d1) (max d0 d1) m with
      | .ms _ => "ms"
      | .cal u s => (repr u).pretty ++ "/" ++ showRat s
    let tie := tickTie (min d0 d1) (max d0 d1) m
    some s!"tticks same={if tie then "tie" else okC (integral && l == mt)} prop={okC (integral && ticksOKB d0 d1 m l)} model={okC (ticksOKB d0 d1 m mt)} n={mt.length} method={meth}"
  | _ => none

/-- `tnice|d0|d1|m|n0|n1` -/
def tniceCmd (f : List String) : Option String :=
  match f with
  | [d0, d1, m, n0, n1] => do
    let d0 ← parseInt d0; let d1 ← parseInt d1; let m ← parseRat m
    let n0 ← parseInstant n0; let n1 ← parseInstant n1
    let integral := n0.isSome && n1.isSome
    let n0 := n0.getD 0; let n1 := n1.getD 0
    let r := nice d0 d1 m
    let tie := tickTie (min d0 d1) (max d0 d1) m
    some s!"tnice same={if tie then "tie" else okC (integral && r == (n0, n1))} prop={okC (integral && niceOKB d0 d1 m n0 n1)} model={okC (niceOKB d0 d1 m r.1 r.2)} moved={if r == (d0, d1) then 0 else 1}"
  | _ => none

/-- `tscale|d0|d1|r0|r1|t|y|tinv` : time scale on [d0,d1] (ms) → [r0,r1]; y = scale(t) as observed; tinv = invert(y) in ms -/
def tscaleCmd (f : List String) : Option String :=
  match f with
  | [d0, d1, r0, r1, t, y, tinv] => do
    let d0 ← parseInt d0; let d1 ← parseInt d1; let r0 ← parseRat r0; let r1 ← parseRat r1
    let t ← parseRat t; let y ← parseRat y; let tinv ← parseRat tinv     -- the instant may carry microseconds (a fraction of a millisecond)
    let my := Scale.apply false d0 d1 r0 r1 t
    let tol := ratAbs (r1 - r0) / 1000000000 * (1 + ratAbs (my - r0) / ratAbs (r1 - r0))
    let same := decide (ratAbs (y - my) ≤ tol)
    let inside := decide (((min d0 d1 : Int) : Rat) ≤ t) && decide (t ≤ ((max d0 d1 : Int) : Rat))
    -- 1 ms, plus the float resolution of the range values carried back through the inverse map
    let cond := ratMax (ratAbs r0) (ratAbs r1) / ratAbs (r1 - r0)
    let backTol : Rat := 1 + ratAbs ((d1 - d0 : Int) : Rat) * cond / 1125899906842624 * 4
    let back := !inside || decide (ratAbs (tinv - t) ≤ backTol)
    some s!"tscale same={okC same} back={okC back} inside={if inside then 1 else 0}"
  | _ => none

end Labella.Driver
