import Labella.Model.Num
/-! Line-protocol parsing helpers for the driver (core Lean only). -/
namespace Labella.Parse

def parseInt (s : String) : Option Int := s.trimAscii.toString.toInt?

def parseNat (s : String) : Option Nat := s.trimAscii.toString.toNat?

/-- `num/den` or `num` -/
def parseRat (s : String) : Option Rat :=
  match s.trimAscii.toString.splitOn "/" with
  | [n] => (parseInt n).map (fun i => (i : Rat))
  | [n, d] => do
    let n ← parseInt n
    let d ← parseNat d
    if d = 0 then none else some (mkRat n d)
  | _ => none

/-- `none` or a rational -/
def parseOptRat (s : String) : Option (Option Rat) :=
  if s.trimAscii.toString == "none" then some none else (parseRat s).map some

def parseBool (s : String) : Option Bool :=
  match s.trimAscii.toString with
  | "1" => some true
  | "0" => some false
  | _ => none

def splitList (sep : String) (s : String) : List String :=
  if s.trimAscii.toString == "" then [] else s.splitOn sep

def parseList {α} (sep : String) (f : String → Option α) (s : String) : Option (List α) :=
  (splitList sep s).mapM f

def showRat (r : Rat) : String :=
  if r.den = 1 then toString r.num else toString r.num ++ "/" ++ toString r.den

def showList {α} (f : α → String) (l : List α) : String := ",".intercalate (l.map f)

end Labella.Parse
