import Labella.Driver.Parse
import Labella.Model.Text
/-! driver commands `names`, `color`, `tex` (C19, C20) -/
namespace Labella.Driver
open Labella Labella.Parse Labella.Text

def okS (b : Bool) : String := if b then "ok" else "fail"

def parseCps (s : String) : Option (List Nat) := parseList "," parseNat s

/-- strictly shortlex-increasing -/
def shortlexChain : List (List Nat) → Bool
  | a :: b :: rest => shortlexLt a b && shortlexChain (b :: rest)
  | _ => true

/-- `names|start|name;name;…` (names as code point lists): consecutive indices from `start` -/
def namesCmd (f : List String) : Option String :=
  match f with
  | [start, names] => do
    let start ← parseNat start
    let names ← parseList ";" parseCps names
    let idx := (List.range names.length).map (· + start)
    let same := (idx.zip names).all (fun p => int2name p.1 == p.2)
    let letters := names.all (fun n => !n.isEmpty && n.all isUpperAZ)
    let readback := (idx.zip names).all (fun p => name2int p.2 == p.1)
    let order := shortlexChain names
    let distinct := order   -- a strictly increasing chain has no repetition
    let mnames := idx.map int2name
    let mOK := shortlexChain mnames && (idx.zip mnames).all (fun p => name2int p.2 == p.1)
    some s!"names same={okS same} letters={okS letters} readback={okS readback} order={okS order} distinct={okS distinct} model={okS mOK} n={names.length}"
  | _ => none

def parseTriple (s : String) : Option (Nat × Nat × Nat) :=
  match s.splitOn "," with
  | [a, b, c] => do some (← parseNat a, ← parseNat b, ← parseNat c)
  | _ => none

def cpsToChars (l : List Nat) : List Char := l.map Char.ofNat

/-- parse `rgb(r, g, b)` -/
def parseRgbStr (s : List Char) : Option (Nat × Nat × Nat) :=
  let str := String.ofList s
  if str.startsWith "rgb(" && str.endsWith ")" then
    let inner := ((str.drop 4).dropEnd 1).toString
    match inner.splitOn ", " with
    | [a, b, c] => do some (← a.toNat?, ← b.toNat?, ← c.toNat?)
    | _ => none
  else none

def isUpperHexDigit (c : Char) : Bool := ('0' ≤ c && c ≤ '9') || ('A' ≤ c && c ≤ 'F')

/-- `color|code|r,g,b|rgbstr|html` -/
def colorCmd (f : List String) : Option String :=
  match f with
  | [code, rgb, rgbstr, html] => do
    let code := cpsToChars (← parseCps code)
    let rgb ← parseTriple rgb
    let rgbstr := cpsToChars (← parseCps rgbstr)
    let html := cpsToChars (← parseCps html)
    let same := hex2rgb code == some rgb && hex2rgbstr code == some rgbstr && hex2html code == html
    -- property predicates on the implementation's three outputs
    let pStr := parseRgbStr rgbstr == some rgb
    let pHtml := html.length == 6 && html.all isUpperHexDigit && hex2rgb html == some rgb
    let digits := stripHash code
    let pDouble := digits.length != 3 ||
      (match digits, html with
       | [a, b, c], [h1, h2, h3, h4, h5, h6] => upperHex a == h1 && h1 == h2 && upperHex b == h3 && h3 == h4 && upperHex c == h5 && h5 == h6
       | _, _ => false)
    let pRange := decide (rgb.1 < 256) && decide (rgb.2.1 < 256) && decide (rgb.2.2 < 256)
    some s!"color same={okS same} rgbstr={okS pStr} html={okS pHtml} double={okS pDouble} range={okS pRange}"
  | _ => none

def parseDecomp (s : String) : Option (Nat × Nat × Nat) :=
  match s.splitOn ">" with
  | [c, ba] =>
    match ba.splitOn "+" with
    | [b, a] => do some (← parseNat c, ← parseNat b, ← parseNat a)
    | _ => none
  | _ => none

/-- `tex|input|output|marks|decomps` — the last two are the slice of the Unicode database the input touches -/
def texCmd (f : List String) : Option String :=
  match f with
  | [inp, out, marks, decomps] => do
    let inp ← parseCps inp
    let out ← parseCps out
    let marks ← parseCps marks
    let decomps ← parseList ";" parseDecomp decomps
    let db : UDB := { isMark := fun c => marks.contains c,
                      decomp := fun c => (decomps.find? (fun d => d.1 == c)).map (fun d => (d.2.1, d.2.2)) }
    let toks := uni2texToks db inp
    let m := toks.flatMap render
    let same := m == out
    let ascii := !(inp.all (· < 128)) || out == inp
    let special := inp.any (fun c => c == 92 || c == 123 || c == 125)
    let expected := inp.flatMap (oneStep db)
    let back := if special then "na" else okS (parseBack out == expected)
    -- token-level statement on the model (must hold by the theorem)
    let mOK := toks.flatMap readBack == expected && (special || parseBack m == expected)
    let converted := toks.any (fun t => match t with | .accent _ _ => true | _ => false)
    some s!"tex same={okS same} ascii={okS ascii} back={back} model={okS mOK} conv={if converted then 1 else 0}"
  | _ => none

end Labella.Driver
