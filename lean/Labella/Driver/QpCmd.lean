import Labella.Driver.Parse
import Labella.Model.QP
/-! driver command `qp` (C05) -/
namespace Labella.Driver
open Labella Labella.Parse Labella.QP

def okQ (b : Bool) : String := if b then "ok" else "fail"

def parseVar (s : String) : Option Var :=
  match s.splitOn ":" with
  | [d, w, sc] => do some { d := ← parseRat d, w := ← parseRat w, s := ← parseRat sc }
  | _ => none

def parseCon (s : String) : Option Con :=
  match s.splitOn ":" with
  | [l, r, g] => do some { l := ← parseNat l, r := ← parseNat r, g := ← parseRat g }
  | _ => none

/-- `qp|vars|cons|x|reportedCost|xstar|lamstar|unsat`
x = positions returned by the solver under judgement, reportedCost = what solve() returned,
(xstar, lamstar) = candidate optimum with multipliers (untrusted hints; empty when none is available),
unsat = indices of constraints the solver flagged unsatisfiable (cyclic instances) -/
def qpCmd (f : List String) : Option String :=
  match f with
  | [vars, cons, x, rc, xs, ls, unsat] => do
    let I : Inst := { vars := ← parseList ";" parseVar vars, cons := ← parseList ";" parseCon cons }
    let x ← parseList "," parseRat x
    let rc ← parseRat rc
    let xs ← parseList "," parseRat xs
    let ls ← parseList "," parseRat ls
    let unsat ← parseList "," parseNat unsat
    let tau : Rat := 1 / 1000000
    let cx := cost I x
    let scaleTol : Rat := (1 + ratAbs cx) / 1000000000
    -- every constraint not flagged unsatisfiable holds up to tau
    let Iunflagged : Inst := { I with cons := (I.cons.zipIdx.filter (fun p => !unsat.contains p.2)).map (·.1) }
    let feas := feasibleB Iunflagged tau x
    let costOK := decide (ratAbs (rc - cx) ≤ scaleTol * 1000)
    -- certificate: accepted ⇒ xs is optimal up to scaleTol among ALL feasible points (Props/C05.check_sound)
    let cert := !xs.isEmpty && check I xs ls (1 / 1000000000) scaleTol
    let opt := if xs.isEmpty then "na" else if !cert then "nocert" else okQ (decide (cx ≤ cost I xs + scaleTol * 1000))
    -- lower bound straight from the multipliers, independent of xs
    let dualOK := xs.isEmpty || decide (dualValue I (clip ls) ≤ cx + scaleTol * 1000)
    some s!"qp feasible={okQ feas} cost={okQ costOK} optimal={opt} dual={okQ dualOK} n={I.vars.length} m={I.cons.length} flagged={unsat.length}"
  | _ => none

end Labella.Driver
