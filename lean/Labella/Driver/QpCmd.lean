import Labella.Driver.Parse
import Labella.Model.QP
import Labella.Model.Vpsc
/-! driver command `qp` (C05) -/
namespace Labella.Driver
open Labella Labella.Parse Labella.QP

def okQ (b : Bool) : String := if b then "ok" else "fail"

def parseVar (s : String) : Option Var :=
  match s.splitOn ":" with
  | [d, w, sc] => do some { d := ← parseRat d, w := ← parseRat w, s := ← parseRat sc }
  | _ => none

def parseCon (s : String) : Option Con :=
  match s.splitOn ":" with
  | [l, r, g] => do some { l := ← parseNat l, r := ← parseNat r, g := ← parseRat g }
  | _ => none

/-- `qp|vars|cons|x|reportedCost|xstar|lamstar|unsat`
x = positions returned by the solver under judgement, reportedCost = what solve() returned,
(xstar, lamstar) = candidate optimum with multipliers (untrusted hints; empty when none is available),
unsat = indices of constraints the solver flagged unsatisfiable (cyclic instances) -/
def qpCmd (f : List String) : Option String :=
  match f with
  | [vars, cons, x, rc, xs, ls, unsat] => do
    let I : Inst := { vars := ← parseList ";" parseVar vars, cons := ← parseList ";" parseCon cons }
    let x ← parseList "," parseRat x
    let rc ← parseRat rc
    let xs ← parseList "," parseRat xs
    let ls ← parseList "," parseRat ls
    let unsat ← parseList "," parseNat unsat
    let tau : Rat := 1 / 1000000
    let cx := cost I x
    -- relative tolerance, plus the floating-point resolution of the positions themselves weighed as the cost weighs them: a stiff variable
    -- (weight 1e16) far from the origin (1e6) that sits one ulp beside its target already costs 1e-4
    let res : Rat := ((I.vars.zip x).map (fun p => p.1.w * ((ratAbs p.2 + ratAbs p.1.d) / 1125899906842624) * ((ratAbs p.2 + ratAbs p.1.d) / 1125899906842624))).sum
    let scaleTol : Rat := (1 + ratAbs cx) / 1000000000 + res / 1000
    -- every constraint not flagged unsatisfiable holds up to tau
    let Iunflagged : Inst := { I with cons := (I.cons.zipIdx.filter (fun p => !unsat.contains p.2)).map (·.1) }
    let feas := feasibleB Iunflagged tau x
    let costOK := decide (ratAbs (rc - cx) ≤ scaleTol * 1000)
    -- certificate: accepted ⇒ xs is optimal up to scaleTol among ALL feasible points (Props/C05.check_sound)
    let cert0 := !xs.isEmpty && check I xs ls (1 / 1000000000) scaleTol
    -- when the supplied hint does not certify (e.g. it came from a solver that no longer splits), try the transliterated
    -- solver's own result continued until a pass performs no split.  Hints are untrusted: only `check` decides.
    let hint2 : List Rat × List Rat :=
      if cert0 || xs.isEmpty then (xs, ls)
      else
        let st0 := Vpsc.init (I.vars.map fun v => (v.d, v.w, v.s)) (I.cons.map fun c => (c.l, c.r, c.g))
        let st := Vpsc.polish 60 (200 * (I.cons.length + I.vars.length) + 1000) (Vpsc.solve 400 (200 * (I.cons.length + I.vars.length) + 1000) st0).1
        if st.err then (xs, ls) else (Vpsc.positions st, Vpsc.multipliers st)
    let xs := hint2.1
    let ls := hint2.2
    let cert := !xs.isEmpty && check I xs ls (1 / 1000000000) scaleTol
    let opt := if xs.isEmpty then "na" else if !cert then "nocert" else okQ (decide (cx ≤ cost I xs + scaleTol * 1000))
    -- lower bound straight from the multipliers, independent of xs
    let dualOK := xs.isEmpty || decide (dualValue I (clip ls) ≤ cx + scaleTol * 1000)
    some s!"qp feasible={okQ feas} cost={okQ costOK} optimal={opt} dual={okQ dualOK} n={I.vars.length} m={I.cons.length} flagged={unsat.length} hint={if cert0 then "supplied" else if cert then "model" else "none"}"
  | _ => none

end Labella.Driver

namespace Labella.Driver
open Labella Labella.Parse Labella.QP

/-- the transliterated solver (Model/Vpsc.lean) on an instance: final state and returned cost -/
def runVpsc (I : Inst) : Vpsc.St × Rat :=
  let st0 := Vpsc.init (I.vars.map fun v => (v.d, v.w, v.s)) (I.cons.map fun c => (c.l, c.r, c.g))
  Vpsc.solve 400 (200 * (I.cons.length + I.vars.length) + 1000) st0

/-- `vpsc|vars|cons|x|returnedCost|unsat` — exact-mode correspondence of `vpsc.Solver.solve` (run on Fractions by the
harness) with the transliteration: positions, returned cost and the set of constraints flagged unsatisfiable must
be EQUAL.  `same=na` when the model ran out of fuel (the harness's watchdog covers the implementation side). -/
def vpscCmd (f : List String) : Option String :=
  match f with
  | [vars, cons, x, rc, unsat] => do
    let I : Inst := { vars := ← parseList ";" parseVar vars, cons := ← parseList ";" parseCon cons }
    let x ← parseList "," parseRat x
    let rc ← parseRat rc
    let unsat ← parseList "," parseNat unsat
    let r := runVpsc I
    let st := r.1
    if st.err then some s!"vpsc same=na feasible=na n={I.vars.length} m={I.cons.length} flagged={unsat.length} blocks=0"
    else
      let mx := Vpsc.positions st
      let same := mx == x && r.2 == rc && Vpsc.flagged st == unsat
      -- the model's own result satisfies every constraint it has not flagged (Props/C05: satisfy_feasible) — evaluated here too
      let Iun : Inst := { I with cons := (I.cons.zipIdx.filter (fun p => !(Vpsc.flagged st).contains p.2)).map (·.1) }
      let feas := feasibleB Iun (-Gen.zeroUpperBound) mx
      -- the solver's own exit test evaluated on the final state (Props/C05: vpsc_solve_near_optimal): a multiplier below
      -- LAGRANGIAN_TOLERANCE still pending means `solve` stopped although a split was due (known finding F1)
      let lam := Vpsc.multipliers st
      let pending := lam.any (fun l => decide (l < Gen.lagrangianTolerance))
      some s!"vpsc same={okQ same} feasible={okQ feas} n={I.vars.length} m={I.cons.length} flagged={unsat.length} blocks={st.list.size} pending={if pending then 1 else 0}"
  | _ => none

/-- `vpscr|vars|cons|ps&ps&…|x|returnedCost|unsat` — the same for a solver object that is solved, given new desired positions
(`setDesiredPositions`) and solved again, once per list `ps`: what the LAST solve returns must be EQUAL -/
def vpscrCmd (f : List String) : Option String :=
  match f with
  | [vars, cons, pss, x, rc, unsat] => do
    let I : Inst := { vars := ← parseList ";" parseVar vars, cons := ← parseList ";" parseCon cons }
    let pss ← (pss.splitOn "&").mapM (parseList "," parseRat)
    let x ← parseList "," parseRat x
    let rc ← parseRat rc
    let unsat ← parseList "," parseNat unsat
    let st0 := Vpsc.init (I.vars.map fun v => (v.d, v.w, v.s)) (I.cons.map fun c => (c.l, c.r, c.g))
    let r := Vpsc.resolve 400 (200 * (I.cons.length + I.vars.length) + 1000) st0 pss
    let st := r.1
    if st.err then some s!"vpscr same=na feasible=na n={I.vars.length} m={I.cons.length} flagged={unsat.length} blocks=0 solves={pss.length + 1}"
    else
      let mx := Vpsc.positions st
      let same := mx == x && r.2 == rc && Vpsc.flagged st == unsat
      let Iun : Inst := { I with cons := (I.cons.zipIdx.filter (fun p => !(Vpsc.flagged st).contains p.2)).map (·.1) }
      let feas := feasibleB Iun (-Gen.zeroUpperBound) mx
      let lam := Vpsc.multipliers st
      let pending := lam.any (fun l => decide (l < Gen.lagrangianTolerance))
      some s!"vpscr same={okQ same} feasible={okQ feas} n={I.vars.length} m={I.cons.length} flagged={unsat.length} blocks={st.list.size} pending={if pending then 1 else 0} solves={pss.length + 1}"
  | _ => none

end Labella.Driver
