import Labella.Driver.Parse
import Labella.Model.Pipeline
import Labella.Model.LayoutSpec
import Labella.Model.EngineT
import Labella.Model.Vpsc
/-! driver commands `layer` and `force` (C01–C04, C06) -/
namespace Labella.Driver
open Labella Labella.Parse Labella.Layout

/-- float-mode tolerance on solver positions -/
def tau : Rat := 1 / 1000000

def parseItem (s : String) : Option LItem :=
  match s.splitOn ":" with
  | [t, w, st] => do some { target := ← parseRat t, width := ← parseRat w, stub := ← parseBool st }
  | _ => none

def okStr (b : Bool) : String := if b then "ok" else "fail"

def allClose (tol : Rat) (a b : List Rat) : Bool :=
  a.length == b.length && (a.zip b).all (fun p => decide (ratAbs (p.1 - p.2) ≤ tol))

/-- the instance `removeOverlap.py` hands to `vpsc.Solver` for the sorted items `its`: variables `[leftWall] ++ items ++ [rightWall]`
(weights 1 / wall weight), constraints in creation order (neighbour gaps, then the left wall's, then the right wall's), solved by the
transliterated GENERAL solver; returns the items' positions (walls dropped), `none` if fuel ran out -/
def vpscLayer (o : ROpts) (its : List LItem) : Option (List Rat) :=
  let nl := (leftWall o).length
  let n := its.length
  let vars : List (Rat × Rat × Rat) :=
    (leftWall o).map (fun w => (w.t, w.w, 1)) ++ its.map (fun i => (i.target, 1, 1)) ++ (rightWall o).map (fun w => (w.t, w.w, 1))
  let inner : List (Nat × Nat × Rat) := ((List.range (n - 1)).zip (gaps o its)).map (fun p => (nl + p.1, nl + p.1 + 1, p.2))
  let lw : List (Nat × Nat × Rat) := (leftGap o its).map (fun g => (0, nl, g))
  let rw : List (Nat × Nat × Rat) := (rightGap o its).map (fun g => (nl + n - 1, nl + n, g))
  let r := Vpsc.solve 400 (200 * (n + 4) + 1000) (Vpsc.init vars (inner ++ lw ++ rw))
  if r.1.err then none else some (((Vpsc.positions r.1).drop nl).take n)

/-- `layer|mode|minPos|maxPos|ns|ls|items|order|pos|xs` -/
def layerCmd (f : List String) : Option String :=
  match f with
  | [mode, mn, mx, ns, ls, items, order, pos, xs] => do
    let o : ROpts := { minPos := ← parseOptRat mn, maxPos := ← parseOptRat mx,
                       nodeSpacing := ← parseRat ns, lineSpacing := ← parseRat ls }
    let items ← parseList ";" parseItem items
    let order ← parseList "," parseNat order
    let pos ← parseList "," parseRat pos
    let xs ← parseList "," parseRat xs
    let exact := mode == "exact"
    -- float mode: the absolute tolerance grows with the magnitude of the positions (an engine fed raw epoch milliseconds works at 1e12,
    -- where one ulp is 2.4e-4): 2^-44 relative, i.e. 0.1 at 1.7e12 — exact mode compares for equality
    let mag : Rat := (items.map (fun i => ratAbs i.target + ratAbs i.width)).foldl (fun a b => if a < b then b else a) 0
    let tau : Rat := if exact then tau else tau + mag / 17592186044416
    let m := removeOverlap o items
    let its := order.map (fun i => items.getD i { target := 0, width := 0, stub := false })
    let orderOK := order == m.order
    let posOK :=
      if exact then pos == m.pos.map (fun (p : Int) => (p : Rat))
      else pos.all (fun p => p.den == 1) && allClose (1/2 + tau) pos m.xs
    let xsOK := xs.isEmpty || (if exact then xs == m.xs else allClose tau xs m.xs)
    let L := its.zip pos
    let c01 := sepAdjB o (1 + tau) L
    let c01x := xs.isEmpty || sepAdjB o tau (its.zip xs)
    let pairs := sepAllB o (1 + tau) L
    let pairsStr := if pairs then "ok" else if f2Shape o L then "f2" else "fail"
    let fits := fitsB o its
    let inDomain := fits || o.maxPos.isNone
    let delta := displacement L / refWallWeight
    -- the optimum is taken over placements in the order of the TARGETS (stable for ties: the property's order), not in whatever order the
    -- implementation chose: positions are compared item by item through the original indices
    let msorted := (sortItems items.zipIdx)
    let xrefM := if msorted.isEmpty then [] else refSolveSorted o (msorted.map (·.1))
    let refOf (i : Nat) : Rat := (((msorted.map (·.2)).zip xrefM).find? (fun p => p.1 == i)).map (·.2) |>.getD 0
    let xref := order.map refOf
    let c02 := order.length == items.length &&
      allClose (1/2 + tau + delta) pos xref && (xs.isEmpty || allClose (tau + delta) xs xref)
    let c03 := if fits then insideB o (1/2 + delta + tau) L else c01
    -- the same predicates on the model's own output (must hold by the theorems)
    let mits := m.order.map (fun i => items.getD i { target := 0, width := 0, stub := false })
    let ML := mits.zip (m.pos.map (fun (p : Int) => (p : Rat)))
    let MX := mits.zip m.xs
    let mdelta := displacement MX / refWallWeight
    let mOK := sepAdjB o (1 + eps) ML && sepAdjB o eps MX
    let mOK3 := !(fitsB o mits) || insideB o (mdelta + eps * (mits.length + 2 : Nat)) MX
    -- model against model: the chain (pool-adjacent-violators) model used by the C01–C03 theorems and the transliterated general solver
    -- (the code path the implementation really takes) give the same unrounded positions on the instance removeOverlap builds
    let vp := if mits.isEmpty || decide (60 < mits.length) then "na" else
      (match vpscLayer o mits with
       | none => "na"
       | some v => okStr (v == m.xs))
    some s!"layer vpsc={vp} order={okStr orderOK} pos={okStr posOK} xs={okStr xsOK} c01={okStr c01} c01x={okStr c01x} pairs={pairsStr} c02={if inDomain then okStr c02 else "na"} c03={okStr c03} fits={if fits then 1 else 0} model={okStr mOK} model3={okStr mOK3} blocks={(m.xs.eraseDups).length}/{m.xs.length}"
  | _ => none

def parseAlg (s : String) : Option Alg :=
  match s with
  | "overlap" => some .overlap
  | "simple" => some .simple
  | "none" => some .none
  | _ => none

def parseLoc (s : String) : Option (Option (Nat × Nat)) :=
  if s == "none" then some none else
  match s.splitOn "." with
  | [a, b] => do some (some (← parseNat a, ← parseNat b))
  | _ => none

/-- `owner:stub:layerIndex:ideal:width:parent:child:sameData:pos` -/
def parseObs (s : String) : Option (Obs × Rat) :=
  match s.splitOn ":" with
  | [ow, st, li, ide, w, pa, ch, sd, pos] => do
    some ({ owner := ← parseNat ow, stub := ← parseBool st, layerIndex := ← parseNat li,
            ideal := ← parseRat ide, width := ← parseRat w, parent := ← parseLoc pa,
            child := ← parseLoc ch, sameData := ← parseBool sd }, ← parseRat pos)
  | _ => none

def parseLabel (s : String) : Option Label :=
  match s.splitOn ":" with
  | [i, w] => do some { ideal := ← parseRat i, width := ← parseRat w }
  | _ => none

def parseFOpts (ns ls mn mx alg den sw : String) : Option FOpts := do
  some { nodeSpacing := ← parseRat ns, lineSpacing := ← parseRat ls, minPos := ← parseOptRat mn,
         maxPos := ← parseOptRat mx, algorithm := ← parseAlg alg, density := ← parseRat den,
         stubWidth := ← parseRat sw }

def refOf (x : Obs) : Ref := if x.stub then .stub x.owner x.layerIndex else .label x.owner

/-- `force|mode|ns|ls|minPos|maxPos|alg|density|stubWidth|labels|layers|getLayersOK` -/
def forceCmd (f : List String) : Option String :=
  match f with
  | [mode, ns, ls, mn, mx, alg, den, sw, labels, layers, gl] => do
    let o ← parseFOpts ns ls mn mx alg den sw
    let labels ← parseList ";" parseLabel labels
    let layers ← parseList ";" (parseList "," parseObs) layers
    let gl ← parseBool gl
    let exact := mode == "exact"
    let obs := layers.map (fun l => l.map (·.1))
    let m := compute o labels
    let implPlaced := layers.map (fun l => l.map (fun p => (refOf p.1, p.2)))
    let modelPlaced := m.map (fun l => l.map (fun p => (p.ref, (p.pos : Rat))))
    let same := implPlaced == modelPlaced
    let str := structureB labels o.stubWidth obs
    let d := o.toD
    let split := decide (1 < estimateLayers d ((sortIds labels).map (widthOf labels)))
    let slack := if exact then 0 else ratAbs (maxWidthPerLayer d) / 1000000000
    let cap := !(o.algorithm == .overlap && split) || capacityB d slack obs
    let req := requiredWidth d.nodeSpacing (labels.map (·.width))
    let tie := !exact && decide (ratAbs (req - maxWidthPerLayer d) ≤ ratAbs (maxWidthPerLayer d) / 1000000000)
    let single := tie || ((if split && o.algorithm != .none then true else decide (obs.length ≤ 1)) &&
      (!(o.algorithm == .overlap && split && decide (3 ≤ labels.length)) || decide (2 ≤ obs.length)))
    -- model-side predicates
    let mobs := modelObs labels o.stubWidth (distribute d labels)
    let mOK := structureB labels o.stubWidth mobs &&
      (!(o.algorithm == .overlap && split) || capacityB d 0 mobs)
    some s!"force same={if exact then okStr same else "na"} struct={okStr str} cap={okStr cap} single={okStr single} getLayers={okStr gl} model={okStr mOK} layers={obs.length} tie={if tie then 1 else 0}"
  | _ => none

/-- `dist|mode|alg|layerWidth|density|ns|stubWidth|labels|layers` — `Distributor.distribute` called directly -/
def distCmd (f : List String) : Option String :=
  match f with
  | [mode, alg, lw, den, ns, sw, labels, layers] => do
    let d : DOpts := { algorithm := ← parseAlg alg, layerWidth := ← parseOptRat lw, density := ← parseRat den,
                       nodeSpacing := ← parseRat ns, stubWidth := ← parseRat sw }
    let labels ← parseList ";" parseLabel labels
    let layers ← parseList ";" (parseList "," parseObs) layers
    let exact := mode == "exact"
    let obs := layers.map (fun l => l.map (·.1))
    let m := distribute d labels
    let same := obs.map (fun l => l.map refOf) == m
    let str := structureB labels d.stubWidth obs
    let split := decide (1 < estimateLayers d ((sortIds labels).map (widthOf labels)))
    let slack := if exact then 0 else ratAbs (maxWidthPerLayer d) / 1000000000
    let cap := !(d.algorithm == .overlap && split) || capacityB d slack obs
    let req := requiredWidth d.nodeSpacing (labels.map (·.width))
    let tie := !exact && decide (ratAbs (req - maxWidthPerLayer d) ≤ ratAbs (maxWidthPerLayer d) / 1000000000)
    let single := tie || ((if split && d.algorithm != .none then true else decide (obs.length ≤ 1)) &&
      (!(d.algorithm == .overlap && split && decide (3 ≤ labels.length)) || decide (2 ≤ obs.length)))
    let mobs := modelObs labels d.stubWidth m
    let mOK := structureB labels d.stubWidth mobs && (!(d.algorithm == .overlap && split) || capacityB d 0 mobs)
    some s!"dist same={if exact then okStr same else "na"} struct={okStr str} cap={okStr cap} single={okStr single} model={okStr mOK} layers={obs.length} split={if split then 1 else 0} tie={if tie then 1 else 0}"
  | _ => none

/-- `label:layer:pos` triples of the labels of a computed layout -/
def parsePlacedLabel (s : String) : Option (Rat × Rat × Nat × Rat) :=
  match s.splitOn ":" with
  | [i, w, l, p] => do some (← parseRat i, ← parseRat w, ← parseNat l, ← parseRat p)
  | _ => none

/-- `perm|placedA|placedB`: the two layouts place the same multiset of (ideal, width, layer, position) -/
def permCmd (f : List String) : Option String :=
  match f with
  | [a, b] => do
    let a ← parseList ";" parsePlacedLabel a
    let b ← parseList ";" parsePlacedLabel b
    let cnt (l : List (Rat × Rat × Nat × Rat)) (x : Rat × Rat × Nat × Rat) := (l.filter (· == x)).length
    let same := a.length == b.length && a.all (fun x => cnt a x == cnt b x)
    let interchangeable := a.all (fun x => a.all (fun y => x.1 != y.1 || x.2.1 == y.2.1))
    some s!"perm same={okStr same} hyp={if interchangeable then 1 else 0}"
  | _ => none

end Labella.Driver

namespace Labella.Driver
open Labella Labella.Parse Labella.Layout

def parseEOp (s : String) : Option EngineT.Op :=
  match s.splitOn "~" with
  | ["E", ns, ls, mn, mx, alg, den, sw] => (parseFOpts ns ls mn mx alg den sw).map EngineT.Op.newEngine
  | ["O", ns, ls, mn, mx, alg, den, sw] => (parseFOpts ns ls mn mx alg den sw).map EngineT.Op.setOptions
  | ["N", labels] => (parseList "," parseLabel labels).map EngineT.Op.freshNodes
  | ["S"] => some EngineT.Op.sameNodes
  | ["C"] => some EngineT.Op.compute
  | _ => none

/-- `ideal:width:stub:layerIndex:pos:data` -/
def parseObsT (level : Nat) (s : String) : Option EngineT.ObsT :=
  match s.splitOn ":" with
  | [ide, w, st, li, pos, da] => do
    some { ideal := ← parseRat ide, width := ← parseRat w, stub := ← parseBool st, level := level,
           layerIndex := ← parseNat li, pos := ← parseRat pos, data := ← parseNat da }
  | _ => none

def parseObsLayers (s : String) : Option (List (List EngineT.ObsT)) :=
  (splitList "@" s).zipIdx.mapM (fun p => parseList "," (parseObsT p.2) p.1)

/-- `ehist|ops|obs#obs#…` — a history of operations on real `Force` / `Node` objects (several engines sharing node objects, nodes that carry
the state of an earlier layout) replayed on the stateful transliteration `Model/EngineT.lean`: the observation after EVERY compute
(layers as reported by `getLayers()`, every item's data position, width, stub flag, reported layer index, position, payload) must be
EQUAL (exact mode).  `pure=` additionally evaluates the theorem `C06.computeT_pure` on the model side: each observation equals the pure
`Layout.compute` of the engine's options and the data of its nodes. -/
def ehistCmd (f : List String) : Option String :=
  match f with
  | [ops, obs] => do
    let ops ← parseList ";" parseEOp ops
    let obs ← (if obs.trimAscii.toString == "" then some [] else (obs.splitOn "#").mapM parseObsLayers)
    let w := EngineT.World.run ops
    let same := w.outs == obs
    some s!"ehist same={okStr same} computes={w.outs.length} implcomputes={obs.length} nodes={w.store.size}"
  | _ => none

def parseMOp (s : String) : Option EngineT.MOp :=
  match s.splitOn "~" with
  | ["E", ns, ls, mn, mx, alg, den, sw] => (parseFOpts ns ls mn mx alg den sw).map EngineT.MOp.newEngine
  | ["O", ns, ls, mn, mx, alg, den, sw] => (parseFOpts ns ls mn mx alg den sw).map EngineT.MOp.setOptions
  | ["N", labels] => (parseList "," parseLabel labels).map EngineT.MOp.freshNodes
  | ["L", b] => (parseNat b).map EngineT.MOp.useList
  | ["W", k] => (parseNat k).map EngineT.MOp.switch
  | ["C"] => some EngineT.MOp.compute
  -- the CALLER assigns `node.width = w` to the node objects of the b-th list (in creation order) between engine operations
  | ["R", b, ws] => do some (EngineT.MOp.setWidths (← parseNat b) (← parseList "," parseRat ws))
  | _ => none

/-- `mhist|ops|k>obs#k>obs#…` — an interleaving of operations on SEVERAL real `Force` objects alive at the same time that share the caller's
list objects and the `Node` objects in them, replayed on `EngineT.MWorld`: after EVERY compute, which engine computed and its observation
must be EQUAL (exact mode) -/
def mhistCmd (f : List String) : Option String :=
  match f with
  | [ops, obs] => do
    let ops ← parseList ";" parseMOp ops
    let obs ← (if obs.trimAscii.toString == "" then some [] else (obs.splitOn "#").mapM (fun o =>
      match o.splitOn ">" with
      | [k, l] => do some (← parseNat k, ← parseObsLayers l)
      | _ => none))
    let w := EngineT.MWorld.run ops
    let same := w.outs == obs
    let reordered := (w.lists.zip w.created).any (fun p => p.1 != p.2)
    some s!"mhist same={okStr same} computes={w.outs.length} implcomputes={obs.length} nodes={w.store.size} engines={w.engines.length} lists={w.lists.length} reordered={if reordered then 1 else 0}"
  | _ => none

/-- `pipe|dir|layerGap|ns~ls~mn~mx~alg~den~sw|ideal:w:h;…|layer:id:ox:oy:w:h;…` — `Timeline.compute` + an emitter against the COMPOSED model
`Pipeline.drawn` (Model/Pipeline.lean): from the nodes as `get_nodes` built them (axis position, padded drawn size) and the options, the model
computes layers, positions and every drawn box; the boxes one back-end printed (with the layer each node reports) must be EQUAL.  Used on
timelines whose numbers are dyadic, so that the floating-point run and the exact model cannot part on a rounding tie.  The predicates of
`C08.pipeline_boxes` are evaluated on the model's output. -/
def pipeCmd (f : List String) : Option String :=
  match f with
  | [dir, lg, fo, items, boxes] => do
    let dir ← (match dir with | "up" => some Render.Dir.up | "down" => some .down | "left" => some .left | "right" => some .right | _ => none)
    let lg ← parseRat lg
    let fo ← (match fo.splitOn "~" with
      | [ns, ls, mn, mx, alg, den, sw] => parseFOpts ns ls mn mx alg den sw
      | _ => none)
    let items ← parseList ";" (fun s => match s.splitOn ":" with
      | [i, w, h] => do some ({ ideal := ← parseRat i, w := ← parseRat w, h := ← parseRat h } : Pipeline.PItem)
      | _ => none) items
    let boxes ← parseList ";" (fun s => match s.splitOn ":" with
      | [l, id, ox, oy, w, h] => do some ((← parseNat l, ← parseNat id), (← parseRat ox, ← parseRat oy, ← parseRat w, ← parseRat h))
      | _ => none) boxes
    let d := Pipeline.drawn dir lg fo items
    let key (p : (Nat × Nat) × (Rat × Rat × Rat × Rat)) := p.1.2
    let model := (d.map (fun x => ((x.layer, x.id), (x.box.ox, x.box.oy, x.box.w, x.box.h)))).mergeSort (fun a b => key a ≤ key b)
    let impl := boxes.mergeSort (fun a b => key a ≤ key b)
    let same := model == impl
    let sameLayers := model.map (·.1) == impl.map (·.1)
    let c08 := decide (3 ≤ fo.nodeSpacing) && decide (0 ≤ fo.lineSpacing) && decide (0 ≤ fo.stubWidth) && decide (1 ≤ lg)
    let mOK := !c08 || (Render.pairwiseDisjointB (d.map (·.box)) && (d.all (fun x => Render.onSideB dir (lg - 1) x.box)) &&
      Render.nestedB dir (d.map (fun x => (x.layer, x.box))))
    some s!"pipe same={okStr same} layers={okStr sameLayers} model={okStr mOK} n={items.length} nlayers={(d.map (·.layer)).foldl max 0 + 1} c08={if c08 then 1 else 0}"
  | _ => none

end Labella.Driver
