import Labella.Model.Options
/-! # Helper lemmas for the object-graph model of `Timeline.__init__` (`Model/Options.lean`), used by `Props/C10.lean`

* association-list dicts: `dget` / `dhas` / `dset` / `dupdate`;
* heap operations: `Heap.dict` after `allocDict` / `setDict` / `allocScale`;
* a decomposition of `construct` into named steps and the specification `constructFrom_spec` of everything after the `options is None` test. -/
namespace Labella.Options

theorem filterMap_congr_mem {α β : Type _} {f g : α → Option β} {l : List α} (h : ∀ a, a ∈ l → f a = g a) :
    l.filterMap f = l.filterMap g := by
  induction l with
  | nil => rfl
  | cons a l ih =>
    rw [List.filterMap_cons, List.filterMap_cons, h a (by simp), ih (fun b hb => h b (List.mem_cons_of_mem _ hb))]

/-! ### dicts -/

theorem dget_nil (k : String) : dget [] k = none := rfl

theorem dget_cons (p : String × Val) (d : Dict) (k : String) :
    dget (p :: d) k = if p.1 = k then some p.2 else dget d k := by
  unfold dget
  by_cases h : p.1 = k <;> simp [h]

theorem dhas_nil (k : String) : dhas [] k = false := rfl

theorem dhas_cons (p : String × Val) (d : Dict) (k : String) :
    dhas (p :: d) k = (p.1 == k || dhas d k) := by
  simp [dhas, List.any_cons]

theorem dhas_eq_true_iff (d : Dict) (k : String) : dhas d k = true ↔ ∃ v, (k, v) ∈ d := by
  induction d with
  | nil => simp [dhas_nil]
  | cons p d ih =>
    rw [dhas_cons, Bool.or_eq_true, ih]
    constructor
    · rintro (h | ⟨v, hv⟩)
      · exact ⟨p.2, by simp at h; subst h; simp⟩
      · exact ⟨v, List.mem_cons_of_mem _ hv⟩
    · rintro ⟨v, hv⟩
      rcases List.mem_cons.1 hv with h | h
      · left; subst h; simp
      · exact Or.inr ⟨v, h⟩

theorem not_mem_of_dhas_false {d : Dict} {k : String} (h : dhas d k = false) (v : Val) : (k, v) ∉ d := by
  intro hm
  have := (dhas_eq_true_iff d k).2 ⟨v, hm⟩
  rw [h] at this; cases this

theorem dget_eq_none_of_dhas_false {d : Dict} {k : String} (h : dhas d k = false) : dget d k = none := by
  induction d with
  | nil => rfl
  | cons p d ih =>
    rw [dhas_cons, Bool.or_eq_false_iff] at h
    have h1 : ¬ p.1 = k := by simpa using h.1
    rw [dget_cons, if_neg h1, ih h.2]

theorem mem_of_dget_eq_some {d : Dict} {k : String} {v : Val} (h : dget d k = some v) : (k, v) ∈ d := by
  induction d with
  | nil => cases h
  | cons p d ih =>
    rw [dget_cons] at h
    split at h
    · rename_i hk
      cases h; subst hk; simp
    · exact List.mem_cons_of_mem _ (ih h)

theorem dhas_of_dget_eq_some {d : Dict} {k : String} {v : Val} (h : dget d k = some v) : dhas d k = true :=
  (dhas_eq_true_iff d k).2 ⟨v, mem_of_dget_eq_some h⟩

theorem exists_dget_of_dhas {d : Dict} {k : String} (h : dhas d k = true) : ∃ v, dget d k = some v := by
  induction d with
  | nil => cases h
  | cons p d ih =>
    rw [dget_cons]
    by_cases hk : p.1 = k
    · exact ⟨p.2, by rw [if_pos hk]⟩
    · rw [if_neg hk]
      rw [dhas_cons] at h
      simp [hk] at h
      exact ih h

/-- well-formed dict: no key occurs twice (what a Python dict guarantees) -/
def DictWF (d : Dict) : Prop := (d.map Prod.fst).Nodup

instance (d : Dict) : Decidable (DictWF d) := inferInstanceAs (Decidable (d.map Prod.fst).Nodup)

theorem dget_of_mem_of_wf {d : Dict} (hwf : DictWF d) {k : String} {v : Val} (h : (k, v) ∈ d) : dget d k = some v := by
  induction d with
  | nil => cases h
  | cons p d ih =>
    unfold DictWF at hwf
    rw [List.map_cons, List.nodup_cons] at hwf
    rw [dget_cons]
    rcases List.mem_cons.1 h with h | h
    · subst h; simp
    · have : ¬ p.1 = k := by
        intro hk
        apply hwf.1
        rw [hk]
        exact List.mem_map.2 ⟨(k, v), h, rfl⟩
      rw [if_neg this]
      exact ih hwf.2 h

/-- lookups in the dict produced by mapping the `dset` replacement function -/
theorem dget_map_set (d : Dict) (k : String) (v : Val) (k' : String) :
    dget (d.map (fun p => if p.1 == k then (k, v) else p)) k' =
      if k = k' then (if dhas d k then some v else none) else dget d k' := by
  induction d with
  | nil => simp [dget_nil, dhas_nil]
  | cons p d ih =>
    rw [List.map_cons, dget_cons, ih, dhas_cons, dget_cons]
    by_cases h1 : p.1 = k
    · subst h1
      by_cases h2 : p.1 = k' <;> simp [h2]
    · by_cases h2 : k = k'
      · subst h2
        simp [h1]
      · simp [h1, h2]

theorem dget_append (d e : Dict) (k : String) : dget (d ++ e) k = (dget d k).or (dget e k) := by
  induction d with
  | nil => simp [dget_nil]
  | cons p d ih =>
    rw [List.cons_append, dget_cons, dget_cons, ih]
    split <;> simp

theorem dget_dset (d : Dict) (k : String) (v : Val) (k' : String) :
    dget (dset d k v) k' = if k = k' then some v else dget d k' := by
  unfold dset
  by_cases h : dhas d k = true
  · rw [if_pos h, dget_map_set, h]; simp
  · rw [if_neg h, dget_append]
    have h' : dhas d k = false := by simpa using h
    by_cases hk : k = k'
    · subst hk
      rw [dget_eq_none_of_dhas_false h', dget_cons]; simp
    · rw [dget_cons, if_neg hk, if_neg hk, dget_nil]; simp

theorem dget_dset_self (d : Dict) (k : String) (v : Val) : dget (dset d k v) k = some v := by
  rw [dget_dset, if_pos rfl]

theorem dget_dset_ne (d : Dict) {k k' : String} (v : Val) (h : k ≠ k') : dget (dset d k v) k' = dget d k' := by
  rw [dget_dset, if_neg h]

theorem mem_dset {d : Dict} {k : String} {v : Val} {p : String × Val} (h : p ∈ dset d k v) : p ∈ d ∨ p = (k, v) := by
  unfold dset at h
  split at h
  · rcases List.mem_map.1 h with ⟨q, hq, rfl⟩
    split
    · exact Or.inr rfl
    · exact Or.inl hq
  · rcases List.mem_append.1 h with h | h
    · exact Or.inl h
    · exact Or.inr (by simpa using h)

/-- entries with another key survive a `dset` -/
theorem mem_dset_of_ne {d : Dict} {k : String} {v : Val} {p : String × Val} (h : p ∈ d) (hk : p.1 ≠ k) : p ∈ dset d k v := by
  unfold dset
  split
  · exact List.mem_map.2 ⟨p, h, by simp [hk]⟩
  · exact List.mem_append.2 (Or.inl h)

theorem mem_dset_iff_of_ne {d : Dict} {k : String} {v : Val} {p : String × Val} (hk : p.1 ≠ k) : p ∈ dset d k v ↔ p ∈ d := by
  constructor
  · intro h
    rcases mem_dset h with h | h
    · exact h
    · subst h; exact absurd rfl hk
  · intro h; exact mem_dset_of_ne h hk

theorem dhas_dset (d : Dict) (k : String) (v : Val) (k' : String) :
    dhas (dset d k v) k' = (dhas d k' || decide (k = k')) := by
  by_cases hk : k = k'
  · subst hk
    simp [dhas_of_dget_eq_some (dget_dset_self d k v)]
  · simp only [hk, decide_false, Bool.or_false]
    cases hd : dhas d k' with
    | true =>
      rcases (dhas_eq_true_iff d k').1 hd with ⟨w, hw⟩
      exact (dhas_eq_true_iff _ k').2 ⟨w, mem_dset_of_ne hw (fun h => hk h.symm)⟩
    | false =>
      cases hd' : dhas (dset d k v) k' with
      | false => rfl
      | true =>
        rcases (dhas_eq_true_iff _ k').1 hd' with ⟨w, hw⟩
        rcases mem_dset hw with h | h
        · exact absurd h (not_mem_of_dhas_false hd w)
        · cases h; exact absurd rfl hk

theorem dupdate_nil (d : Dict) : dupdate d [] = d := rfl
theorem dupdate_cons (d : Dict) (p : String × Val) (e : Dict) : dupdate d (p :: e) = dupdate (dset d p.1 p.2) e := rfl

theorem mem_dupdate {d e : Dict} {p : String × Val} (h : p ∈ dupdate d e) : p ∈ d ∨ p ∈ e := by
  induction e generalizing d with
  | nil => exact Or.inl h
  | cons q e ih =>
    rw [dupdate_cons] at h
    rcases ih h with h | h
    · rcases mem_dset h with h | h
      · exact Or.inl h
      · exact Or.inr (by subst h; simp)
    · exact Or.inr (List.mem_cons_of_mem _ h)

theorem dget_dupdate_of_not_has {d e : Dict} {k : String} (h : dhas e k = false) : dget (dupdate d e) k = dget d k := by
  induction e generalizing d with
  | nil => rfl
  | cons q e ih =>
    rw [dhas_cons, Bool.or_eq_false_iff] at h
    have h1 : q.1 ≠ k := by simpa using h.1
    rw [dupdate_cons, ih h.2, dget_dset_ne _ _ h1]

/-- where a looked-up value of `d.update(e)` comes from -/
theorem dget_dupdate_cases {d e : Dict} {k : String} {v : Val} (h : dget (dupdate d e) k = some v) :
    (dhas e k = false ∧ dget d k = some v) ∨ (k, v) ∈ e := by
  induction e generalizing d with
  | nil => exact Or.inl ⟨rfl, h⟩
  | cons q e ih =>
    rw [dupdate_cons] at h
    rcases ih h with ⟨h1, h2⟩ | h1
    · rw [dget_dset] at h2
      split at h2
      · rename_i hk
        cases h2
        right; subst hk; simp
      · rename_i hk
        left
        refine ⟨?_, h2⟩
        rw [dhas_cons, h1]; simp [hk]
    · exact Or.inr (List.mem_cons_of_mem _ h1)

/-! ### heap operations -/

theorem Heap.dict_allocDict (h : Heap) (d : Dict) (j : Nat) :
    (h.allocDict d).1.dict j = if j = h.dicts.size then d else h.dict j := by
  simp only [Heap.dict, Heap.allocDict, Array.getD_eq_getD_getElem?, Array.getElem?_push]
  split <;> simp_all

theorem Heap.dict_allocDict_lt (h : Heap) (d : Dict) {j : Nat} (hj : j < h.dicts.size) : (h.allocDict d).1.dict j = h.dict j := by
  rw [Heap.dict_allocDict, if_neg (Nat.ne_of_lt hj)]

theorem Heap.dict_allocDict_new (h : Heap) (d : Dict) : (h.allocDict d).1.dict h.dicts.size = d := by
  rw [Heap.dict_allocDict, if_pos rfl]

@[simp] theorem Heap.allocDict_snd (h : Heap) (d : Dict) : (h.allocDict d).2 = h.dicts.size := rfl
@[simp] theorem Heap.size_allocDict (h : Heap) (d : Dict) : (h.allocDict d).1.dicts.size = h.dicts.size + 1 := by
  simp [Heap.allocDict]
@[simp] theorem Heap.scales_allocDict (h : Heap) (d : Dict) : (h.allocDict d).1.scales = h.scales := rfl

theorem Heap.dict_setDict (h : Heap) (o : Nat) (d : Dict) (j : Nat) :
    (h.setDict o d).dict j = if j = o ∧ o < h.dicts.size then d else h.dict j := by
  simp only [Heap.dict, Heap.setDict, Array.getD_eq_getD_getElem?, Array.getElem?_setIfInBounds]
  by_cases h1 : o = j
  · subst h1
    by_cases h2 : o < h.dicts.size <;> simp [h2]
  · have : ¬ (j = o ∧ o < h.dicts.size) := fun hh => h1 hh.1.symm
    simp [h1, this]

theorem Heap.dict_setDict_ne (h : Heap) {o j : Nat} (d : Dict) (hj : j ≠ o) : (h.setDict o d).dict j = h.dict j := by
  rw [Heap.dict_setDict, if_neg (fun hh => hj hh.1)]

theorem Heap.dict_setDict_eq (h : Heap) {o : Nat} (d : Dict) (ho : o < h.dicts.size) : (h.setDict o d).dict o = d := by
  rw [Heap.dict_setDict, if_pos ⟨rfl, ho⟩]

@[simp] theorem Heap.size_setDict (h : Heap) (o : Nat) (d : Dict) : (h.setDict o d).dicts.size = h.dicts.size := by
  simp [Heap.setDict]
@[simp] theorem Heap.scales_setDict (h : Heap) (o : Nat) (d : Dict) : (h.setDict o d).scales = h.scales := rfl

@[simp] theorem Heap.dicts_allocScale (h : Heap) (t : String) : (h.allocScale t).1.dicts = h.dicts := rfl
@[simp] theorem Heap.dict_allocScale (h : Heap) (t : String) (j : Nat) : (h.allocScale t).1.dict j = h.dict j := rfl
@[simp] theorem Heap.allocScale_snd (h : Heap) (t : String) : (h.allocScale t).2 = h.scales.size := rfl
@[simp] theorem Heap.scales_allocScale (h : Heap) (t : String) : (h.allocScale t).1.scales = h.scales.push t := rfl

/-! ### `construct`, step by step -/

/-- `match x with | some (.dict l) => A l | _ => B` as a function (so that the steps below and `construct` can be compared syntactically) -/
def caseDict {α : Sort u} (x : Option Val) (A : Nat → α) (B : α) : α := match x with | some (.dict l) => A l | _ => B
/-- `match x with | some (.scale s) => A s | _ => B` as a function -/
def caseScale {α : Sort u} (x : Option Val) (A : Nat → α) (B : α) : α := match x with | some (.scale s) => A s | _ => B

/-- the `match … with | some (.dict l) => … | _ => …` expressions inside `construct` (its auxiliary matcher `construct.match_3`) -/
theorem construct_match_dict {α : Sort u} (x : Option Val) (A : Nat → α) (B : α) :
    construct.match_3 (fun _ => α) x A (fun _ => B) = caseDict x A B := by
  cases x with | none => rfl | some v => cases v <;> rfl
/-- the `match … with | some (.scale s) => … | _ => …` expression inside `construct` (its auxiliary matcher `construct.match_6`) -/
theorem construct_match_scale {α : Sort u} (x : Option Val) (A : Nat → α) (B : α) :
    construct.match_6 (fun _ => α) x A (fun _ => B) = caseScale x A B := by
  cases x with | none => rfl | some v => cases v <;> rfl

theorem caseScale_cases {α : Sort u} (x : Option Val) (A : Nat → α) (B : α) :
    (∃ s, x = some (.scale s) ∧ caseScale x A B = A s) ∨ ((∀ s, x ≠ some (.scale s)) ∧ caseScale x A B = B) := by
  cases x with
  | none => exact Or.inr ⟨fun s hs => (by cases hs), rfl⟩
  | some v =>
    cases v with
    | scale s => exact Or.inl ⟨s, rfl, rfl⟩
    | atom a => exact Or.inr ⟨fun s hs => (by cases hs), rfl⟩
    | dict l => exact Or.inr ⟨fun s hs => (by cases hs), rfl⟩

/-- `latex_opts`: a copy of the module's latex dict, updated with the caller's `latex` dict if there is one -/
def latexOf (h : Heap) (o : Nat) : Dict :=
  caseDict (dget (h.dict o) "latex") (fun l => dupdate (h.dict idLatex) (h.dict l)) (h.dict idLatex)

/-- `options["latex"] = latex_opts` (a new dict object, id = the old number of dicts) -/
def writeBack (h : Heap) (o : Nat) : Heap :=
  let r := h.allocDict (latexOf h o)
  r.1.setDict o (dset (r.1.dict o) "latex" (.dict r.2))

/-- `self.options = shallow copy of DEFAULT_OPTIONS; self.options.update(options)` (id = the old number of dicts) -/
def mkSelf (h : Heap) (o : Nat) : Heap := (h.allocDict (dupdate (h.dict idDefaults) (h.dict o))).1

/-- `if "scale" not in options: self.options["scale"] = TimeScale()` -/
def freshScale (h : Heap) (o S : Nat) : Heap :=
  if dhas (h.dict o) "scale" then h else
    let r := h.allocScale "fresh"
    r.1.setDict S (dset (r.1.dict S) "scale" (.scale r.2))

/-- `self.options["labella"] = dict(self.options["labella"]); self.options["labella"]["direction"] = self.direction` -/
def ownLabella (h : Heap) (S : Nat) : Heap :=
  let labSrc := caseDict (dget (h.dict S) "labella") (fun l => h.dict l) []
  let dir := (dget (h.dict S) "direction").getD (.atom "right")
  let r := h.allocDict (dset labSrc "direction" dir)
  r.1.setDict S (dset (r.1.dict S) "labella" (.dict r.2))

/-- `init_axis`: the timeline's scale object gets the data's domain -/
def setDomain (h : Heap) (S : Nat) (dom : String) : Heap :=
  caseScale (dget (h.dict S) "scale") (fun s => { h with scales := h.scales.setIfInBounds s dom }) h

/-- everything after `if options is None: options = {}` -/
def constructFrom (h : Heap) (o : Nat) (dom : String) : Heap × Nat :=
  let h2 := writeBack h o
  let S := h2.dicts.size
  let h3 := mkSelf h2 o
  let h4 := freshScale h3 o S
  let h5 := ownLabella h4 S
  (setDomain h5 S dom, S)

theorem construct_some (h : Heap) (o : Nat) (dom : String) : construct h (some o) dom = constructFrom h o dom := by
  unfold construct
  simp -zeta only [construct_match_dict, construct_match_scale]
  rfl
theorem construct_none (h : Heap) (dom : String) :
    construct h none dom = constructFrom (h.allocDict []).1 h.dicts.size dom := by
  unfold construct
  simp -zeta only [construct_match_dict, construct_match_scale]
  rfl

/-! #### the single steps -/

@[simp] theorem size_writeBack (h : Heap) (o : Nat) : (writeBack h o).dicts.size = h.dicts.size + 1 := by
  simp [writeBack]
@[simp] theorem scales_writeBack (h : Heap) (o : Nat) : (writeBack h o).scales = h.scales := rfl
theorem dict_writeBack (h : Heap) (o : Nat) (j : Nat) :
    (writeBack h o).dict j =
      if j = o ∧ o < h.dicts.size + 1 then dset ((h.allocDict (latexOf h o)).1.dict o) "latex" (.dict h.dicts.size)
      else if j = h.dicts.size then latexOf h o else h.dict j := by
  simp only [writeBack, Heap.dict_setDict, Heap.size_allocDict, Heap.allocDict_snd]
  split
  · rfl
  · rw [Heap.dict_allocDict]
theorem dict_writeBack_self (h : Heap) {o : Nat} (ho : o < h.dicts.size) :
    (writeBack h o).dict o = dset (h.dict o) "latex" (.dict h.dicts.size) := by
  rw [dict_writeBack, if_pos ⟨rfl, by omega⟩, Heap.dict_allocDict_lt _ _ ho]
theorem dict_writeBack_ne (h : Heap) {o j : Nat} (hj : j ≠ o) (hlt : j < h.dicts.size) : (writeBack h o).dict j = h.dict j := by
  rw [dict_writeBack, if_neg (fun hh => hj hh.1), if_neg (Nat.ne_of_lt hlt)]
theorem dict_writeBack_new (h : Heap) {o : Nat} (ho : o < h.dicts.size) : (writeBack h o).dict h.dicts.size = latexOf h o := by
  rw [dict_writeBack, if_neg (fun hh => by omega), if_pos rfl]

@[simp] theorem size_mkSelf (h : Heap) (o : Nat) : (mkSelf h o).dicts.size = h.dicts.size + 1 := by simp [mkSelf]
@[simp] theorem scales_mkSelf (h : Heap) (o : Nat) : (mkSelf h o).scales = h.scales := rfl
theorem dict_mkSelf_lt (h : Heap) (o : Nat) {j : Nat} (hj : j < h.dicts.size) : (mkSelf h o).dict j = h.dict j :=
  Heap.dict_allocDict_lt _ _ hj
theorem dict_mkSelf_new (h : Heap) (o : Nat) : (mkSelf h o).dict h.dicts.size = dupdate (h.dict idDefaults) (h.dict o) :=
  Heap.dict_allocDict_new _ _

@[simp] theorem size_freshScale (h : Heap) (o S : Nat) : (freshScale h o S).dicts.size = h.dicts.size := by
  unfold freshScale; split <;> simp
theorem dict_freshScale_ne (h : Heap) (o : Nat) {S j : Nat} (hj : j ≠ S) : (freshScale h o S).dict j = h.dict j := by
  unfold freshScale; split
  · rfl
  · simp only [Heap.dict_setDict_ne _ _ hj, Heap.dict_allocScale]
theorem freshScale_of_has (h : Heap) {o : Nat} (S : Nat) (hs : dhas (h.dict o) "scale" = true) : freshScale h o S = h := by
  unfold freshScale; rw [if_pos hs]
theorem dict_freshScale_self_of_not_has (h : Heap) {o S : Nat} (hs : dhas (h.dict o) "scale" = false) (hS : S < h.dicts.size) :
    (freshScale h o S).dict S = dset (h.dict S) "scale" (.scale h.scales.size) := by
  unfold freshScale; rw [if_neg (by simp [hs])]
  simp only [Heap.allocScale_snd, Heap.dict_allocScale]
  rw [Heap.dict_setDict_eq _ _ (by simpa using hS)]
theorem scales_freshScale_of_not_has (h : Heap) {o : Nat} (S : Nat) (hs : dhas (h.dict o) "scale" = false) :
    (freshScale h o S).scales = h.scales.push "fresh" := by
  unfold freshScale; rw [if_neg (by simp [hs])]; rfl

@[simp] theorem size_ownLabella (h : Heap) (S : Nat) : (ownLabella h S).dicts.size = h.dicts.size + 1 := by simp [ownLabella]
@[simp] theorem scales_ownLabella (h : Heap) (S : Nat) : (ownLabella h S).scales = h.scales := rfl
theorem dict_ownLabella_ne (h : Heap) {S j : Nat} (hj : j ≠ S) (hlt : j < h.dicts.size) : (ownLabella h S).dict j = h.dict j := by
  simp only [ownLabella, Heap.dict_setDict_ne _ _ hj, Heap.dict_allocDict_lt _ _ hlt]
theorem dict_ownLabella_self (h : Heap) {S : Nat} (hS : S < h.dicts.size) :
    (ownLabella h S).dict S = dset (h.dict S) "labella" (.dict h.dicts.size) := by
  simp only [ownLabella, Heap.allocDict_snd]
  rw [Heap.dict_setDict_eq _ _ (by simp; omega), Heap.dict_allocDict_lt _ _ hS]

@[simp] theorem dicts_setDomain (h : Heap) (S : Nat) (dom : String) : (setDomain h S dom).dicts = h.dicts := by
  unfold setDomain
  rcases caseScale_cases (dget (h.dict S) "scale") (fun s => { h with scales := h.scales.setIfInBounds s dom }) h with ⟨s, _, h2⟩ | ⟨_, h2⟩ <;>
    rw [h2]
@[simp] theorem dict_setDomain (h : Heap) (S : Nat) (dom : String) (j : Nat) : (setDomain h S dom).dict j = h.dict j := by
  simp [Heap.dict]
@[simp] theorem size_scales_setDomain (h : Heap) (S : Nat) (dom : String) : (setDomain h S dom).scales.size = h.scales.size := by
  unfold setDomain
  rcases caseScale_cases (dget (h.dict S) "scale") (fun s => { h with scales := h.scales.setIfInBounds s dom }) h with ⟨s, _, h2⟩ | ⟨_, h2⟩ <;>
    rw [h2] <;> simp
/-- `init_axis` writes at most the scale object the timeline's `scale` entry refers to -/
theorem scales_setDomain_ne (h : Heap) (S : Nat) (dom : String) {s : Nat} (hs : dget (h.dict S) "scale" ≠ some (.scale s)) :
    (setDomain h S dom).scales[s]? = h.scales[s]? := by
  unfold setDomain
  rcases caseScale_cases (dget (h.dict S) "scale") (fun s => { h with scales := h.scales.setIfInBounds s dom }) h with ⟨s', hs', h2⟩ | ⟨_, h2⟩ <;>
    rw [h2]
  have : s' ≠ s := by rintro rfl; exact hs hs'
  simp [this]

/-! #### the constructor after `if options is None: options = {}`: with `n` dicts before, the new objects are `n` (the merged latex dict),
`n + 1` (`self.options`) and `n + 2` (the timeline's own `labella` dict) -/

section From
variable (h : Heap) (o : Nat) (dom : String)

@[simp] theorem constructFrom_snd : (constructFrom h o dom).2 = h.dicts.size + 1 := by simp [constructFrom]
@[simp] theorem size_constructFrom : (constructFrom h o dom).1.dicts.size = h.dicts.size + 3 := by simp [constructFrom]

theorem constructFrom_fst :
    (constructFrom h o dom).1 =
      setDomain (ownLabella (freshScale (mkSelf (writeBack h o) o) o (h.dicts.size + 1)) (h.dicts.size + 1)) (h.dicts.size + 1) dom := by
  simp [constructFrom]

variable {h o}

theorem dict_constructFrom_ne {j : Nat} (hj : j < h.dicts.size) (hne : j ≠ o) : (constructFrom h o dom).1.dict j = h.dict j := by
  rw [constructFrom_fst, dict_setDomain, dict_ownLabella_ne _ (by omega) (by simp; omega), dict_freshScale_ne _ _ (by omega),
    dict_mkSelf_lt _ _ (by simp; omega), dict_writeBack_ne _ hne hj]

theorem dict_constructFrom_caller (ho : o < h.dicts.size) :
    (constructFrom h o dom).1.dict o = dset (h.dict o) "latex" (.dict h.dicts.size) := by
  rw [constructFrom_fst, dict_setDomain, dict_ownLabella_ne _ (by omega) (by simp; omega), dict_freshScale_ne _ _ (by omega),
    dict_mkSelf_lt _ _ (by simp; omega), dict_writeBack_self _ ho]

theorem dict_constructFrom_latex (ho : o < h.dicts.size) : (constructFrom h o dom).1.dict h.dicts.size = latexOf h o := by
  rw [constructFrom_fst, dict_setDomain, dict_ownLabella_ne _ (by omega) (by simp; omega), dict_freshScale_ne _ _ (by omega),
    dict_mkSelf_lt _ _ (by simp), dict_writeBack_new _ ho]

/-- the caller's dict as the later steps see it -/
theorem dict_mkSelf_writeBack_caller (ho : o < h.dicts.size) :
    (mkSelf (writeBack h o) o).dict o = dset (h.dict o) "latex" (.dict h.dicts.size) := by
  rw [dict_mkSelf_lt _ _ (by simp; omega), dict_writeBack_self _ ho]

theorem dhas_scale_mkSelf_writeBack (ho : o < h.dicts.size) :
    dhas ((mkSelf (writeBack h o) o).dict o) "scale" = dhas (h.dict o) "scale" := by
  rw [dict_mkSelf_writeBack_caller ho, dhas_dset]
  simp

theorem dict_mkSelf_writeBack_self :
    (mkSelf (writeBack h o) o).dict (h.dicts.size + 1) = dupdate ((writeBack h o).dict idDefaults) ((writeBack h o).dict o) := by
  have := dict_mkSelf_new (writeBack h o) o
  rwa [size_writeBack] at this

/-- `self.options` right before `init_axis` -/
theorem dict_constructFrom_self :
    (constructFrom h o dom).1.dict (h.dicts.size + 1) =
      dset ((freshScale (mkSelf (writeBack h o) o) o (h.dicts.size + 1)).dict (h.dicts.size + 1)) "labella" (.dict (h.dicts.size + 2)) := by
  rw [constructFrom_fst, dict_setDomain, dict_ownLabella_self _ (by simp)]
  simp

theorem mem_writeBack_dict {j : Nat} (hj : j < h.dicts.size) {p : String × Val} (hp : p ∈ (writeBack h o).dict j) :
    p ∈ h.dict j ∨ p = ("latex", .dict h.dicts.size) := by
  by_cases hjo : j = o
  · subst hjo
    rw [dict_writeBack_self _ hj] at hp
    exact mem_dset hp
  · rw [dict_writeBack_ne _ hjo hj] at hp
    exact Or.inl hp

/-- where the entries of `self.options` come from -/
theorem mem_dict_constructFrom_self (ho : o < h.dicts.size) (h0 : idDefaults < h.dicts.size) {p : String × Val}
    (hp : p ∈ (constructFrom h o dom).1.dict (h.dicts.size + 1)) :
    p ∈ h.dict idDefaults ∨ p ∈ h.dict o ∨ p = ("latex", .dict h.dicts.size) ∨ p = ("labella", .dict (h.dicts.size + 2)) ∨
      p = ("scale", .scale h.scales.size) := by
  rw [dict_constructFrom_self] at hp
  rcases mem_dset hp with hp | hp
  · have key : p ∈ (mkSelf (writeBack h o) o).dict (h.dicts.size + 1) → p ∈ h.dict idDefaults ∨ p ∈ h.dict o ∨ p = ("latex", .dict h.dicts.size) := by
      intro hp
      rw [dict_mkSelf_writeBack_self] at hp
      rcases mem_dupdate hp with hp | hp
      · rcases mem_writeBack_dict h0 hp with hp | hp
        · exact Or.inl hp
        · exact Or.inr (Or.inr hp)
      · rcases mem_writeBack_dict ho hp with hp | hp
        · exact Or.inr (Or.inl hp)
        · exact Or.inr (Or.inr hp)
    cases hs : dhas ((mkSelf (writeBack h o) o).dict o) "scale" with
    | true =>
      rw [freshScale_of_has _ _ hs] at hp
      rcases key hp with hp | hp | hp
      · exact Or.inl hp
      · exact Or.inr (Or.inl hp)
      · exact Or.inr (Or.inr (Or.inl hp))
    | false =>
      rw [dict_freshScale_self_of_not_has _ hs (by simp)] at hp
      rcases mem_dset hp with hp | hp
      · rcases key hp with hp | hp | hp
        · exact Or.inl hp
        · exact Or.inr (Or.inl hp)
        · exact Or.inr (Or.inr (Or.inl hp))
      · exact Or.inr (Or.inr (Or.inr (Or.inr (by simpa using hp))))
  · exact Or.inr (Or.inr (Or.inr (Or.inl hp)))

/-! scales -/

theorem scales_constructFrom_size_le : h.scales.size ≤ (constructFrom h o dom).1.scales.size := by
  rw [constructFrom_fst, size_scales_setDomain, scales_ownLabella]
  cases hs : dhas ((mkSelf (writeBack h o) o).dict o) "scale" with
  | true => rw [freshScale_of_has _ _ hs]; simp
  | false => rw [scales_freshScale_of_not_has _ _ hs]; simp

/-- the timeline's `scale` entry right before `init_axis`, if the caller gave none -/
theorem dget_scale_constructFrom_of_not_has (ho : o < h.dicts.size) (hs : dhas (h.dict o) "scale" = false) :
    dget ((constructFrom h o dom).1.dict (h.dicts.size + 1)) "scale" = some (.scale h.scales.size) := by
  have hs' := hs
  rw [← dhas_scale_mkSelf_writeBack ho] at hs'
  rw [dict_constructFrom_self, dget_dset_ne _ _ (by decide), dict_freshScale_self_of_not_has _ hs' (by simp), dget_dset_self]
  simp

theorem scales_constructFrom_size_of_not_has (ho : o < h.dicts.size) (hs : dhas (h.dict o) "scale" = false) :
    (constructFrom h o dom).1.scales.size = h.scales.size + 1 := by
  have hs' := hs
  rw [← dhas_scale_mkSelf_writeBack ho] at hs'
  rw [constructFrom_fst, size_scales_setDomain, scales_ownLabella, scales_freshScale_of_not_has _ _ hs']
  simp

/-- an existing scale object is written only if the caller's dict has it under `scale` -/
theorem scales_constructFrom_of_not_mem (ho : o < h.dicts.size) {s : Nat} (hlt : s < h.scales.size)
    (hs : ("scale", Val.scale s) ∉ h.dict o) :
    (constructFrom h o dom).1.scales[s]? = h.scales[s]? := by
  have hd : dget ((constructFrom h o dom).1.dict (h.dicts.size + 1)) "scale" ≠ some (.scale s) := by
    cases hh : dhas (h.dict o) "scale" with
    | false =>
      rw [dget_scale_constructFrom_of_not_has dom ho hh]
      intro he; cases he; omega
    | true =>
      have hh' := hh
      rw [← dhas_scale_mkSelf_writeBack ho] at hh'
      rw [dict_constructFrom_self, dget_dset_ne _ _ (by decide), freshScale_of_has _ _ hh', dict_mkSelf_writeBack_self]
      intro he
      rcases dget_dupdate_cases he with ⟨h1, _⟩ | h1
      · rw [← dict_mkSelf_lt (writeBack h o) o (by simp; omega), hh'] at h1
        cases h1
      · rcases mem_writeBack_dict ho h1 with h1 | h1
        · exact hs h1
        · exact absurd (congrArg Prod.fst h1) (show ¬ "scale" = "latex" by decide)
  have h6 := scales_setDomain_ne (ownLabella (freshScale (mkSelf (writeBack h o) o) o (h.dicts.size + 1)) (h.dicts.size + 1)) (h.dicts.size + 1) dom
    (s := s) (by rw [constructFrom_fst, dict_setDomain] at hd; exact hd)
  rw [constructFrom_fst, h6, scales_ownLabella]
  cases hh : dhas ((mkSelf (writeBack h o) o).dict o) "scale" with
  | true => rw [freshScale_of_has _ _ hh]; simp
  | false =>
    rw [scales_freshScale_of_not_has _ _ hh]
    simp [Array.getElem?_push, Nat.ne_of_lt hlt]

end From

/-! ### `construct` itself -/

/-- `construct` is `constructFrom` on the caller's dict, or on a new empty dict if the caller gave none -/
theorem construct_eq_from (h : Heap) (opts : Option Nat) (dom : String) (ho : ∀ o, opts = some o → o < h.dicts.size) :
    ∃ h0 o, construct h opts dom = constructFrom h0 o dom ∧ o < h0.dicts.size ∧ h.dicts.size ≤ h0.dicts.size ∧
      (∀ j, j < h.dicts.size → h0.dict j = h.dict j) ∧ h0.scales = h.scales ∧
      ((opts = some o ∧ h0 = h) ∨ (opts = none ∧ o = h.dicts.size ∧ h0.dict o = [] ∧ h0.dicts.size = h.dicts.size + 1)) := by
  cases opts with
  | some o =>
    exact ⟨h, o, construct_some h o dom, ho o rfl, Nat.le_refl _, fun _ _ => rfl, rfl, Or.inl ⟨rfl, rfl⟩⟩
  | none =>
    refine ⟨(h.allocDict []).1, h.dicts.size, construct_none h dom, by simp, by simp, fun j hj => Heap.dict_allocDict_lt _ _ hj, rfl,
      Or.inr ⟨rfl, rfl, Heap.dict_allocDict_new _ _, by simp⟩⟩

section Construct
variable {h : Heap} {opts : Option Nat} (dom : String) (ho : ∀ o, opts = some o → o < h.dicts.size)
include ho

theorem construct_snd_ge : h.dicts.size + 1 ≤ (construct h opts dom).2 := by
  obtain ⟨h0, o, he, _, hle, _⟩ := construct_eq_from h opts dom ho
  rw [he]; simp; omega

theorem construct_snd_lt : (construct h opts dom).2 < (construct h opts dom).1.dicts.size := by
  obtain ⟨h0, o, he, _⟩ := construct_eq_from h opts dom ho
  rw [he]; simp

theorem construct_size_ge : h.dicts.size + 3 ≤ (construct h opts dom).1.dicts.size := by
  obtain ⟨h0, o, he, _, hle, _⟩ := construct_eq_from h opts dom ho
  rw [he]; simp; omega

/-- no existing dict other than the caller's is written -/
theorem construct_dict_of_ne {j : Nat} (hj : j < h.dicts.size) (hne : opts ≠ some j) : (construct h opts dom).1.dict j = h.dict j := by
  obtain ⟨h0, o, he, ho', hle, hsame, _, hc⟩ := construct_eq_from h opts dom ho
  rw [he, dict_constructFrom_ne dom (by omega) ?_, hsame j hj]
  rintro rfl
  rcases hc with ⟨h1, _⟩ | ⟨_, h1, _⟩
  · exact hne h1
  · omega

/-- the caller's dict is written at `latex` only, and points to a new dict there -/
theorem construct_dict_caller {o : Nat} (hopts : opts = some o) :
    ∃ L, h.dicts.size ≤ L ∧ L < (construct h opts dom).1.dicts.size ∧ (construct h opts dom).1.dict o = dset (h.dict o) "latex" (.dict L) := by
  subst hopts
  rw [construct_some]
  exact ⟨h.dicts.size, Nat.le_refl _, by simp, dict_constructFrom_caller dom (ho o rfl)⟩

theorem construct_scales_size_le : h.scales.size ≤ (construct h opts dom).1.scales.size := by
  obtain ⟨h0, o, he, _, _, _, hsc, _⟩ := construct_eq_from h opts dom ho
  rw [he, ← hsc]; exact scales_constructFrom_size_le dom

/-- an existing scale object is written only if it occurs under `scale` in the caller's dict -/
theorem construct_scales_of_not_mem {s : Nat} (hlt : s < h.scales.size) (hs : ∀ o, opts = some o → ("scale", Val.scale s) ∉ h.dict o) :
    (construct h opts dom).1.scales[s]? = h.scales[s]? := by
  obtain ⟨h0, o, he, ho', _, _, hsc, hc⟩ := construct_eq_from h opts dom ho
  rw [he, ← hsc]
  apply scales_constructFrom_of_not_mem dom ho' (by rw [hsc]; exact hlt)
  rcases hc with ⟨h1, h2⟩ | ⟨_, _, h2, _⟩
  · rw [h2]; exact hs o h1
  · rw [h2]; simp

/-- without a `scale` entry in the caller's dict, the timeline's scale is a new object -/
theorem construct_fresh_scale (hs : ∀ o, opts = some o → dhas (h.dict o) "scale" = false) :
    dget ((construct h opts dom).1.dict (construct h opts dom).2) "scale" = some (.scale h.scales.size) ∧
      (construct h opts dom).1.scales.size = h.scales.size + 1 := by
  obtain ⟨h0, o, he, ho', _, _, hsc, hc⟩ := construct_eq_from h opts dom ho
  have hs0 : dhas (h0.dict o) "scale" = false := by
    rcases hc with ⟨h1, h2⟩ | ⟨_, _, h2, _⟩
    · rw [h2]; exact hs o h1
    · rw [h2]; rfl
  rw [he, constructFrom_snd, ← hsc]
  exact ⟨dget_scale_constructFrom_of_not_has dom ho' hs0, scales_constructFrom_size_of_not_has dom ho' hs0⟩

/-- where the entries of the timeline's options dict come from: the module's `DEFAULT_OPTIONS`, the caller's dict, or new objects -/
theorem mem_construct_self (h0 : idDefaults < h.dicts.size) {p : String × Val}
    (hp : p ∈ (construct h opts dom).1.dict (construct h opts dom).2) :
    p ∈ h.dict idDefaults ∨ (∃ o, opts = some o ∧ p ∈ h.dict o) ∨
      (∃ r, p.2 = .dict r ∧ h.dicts.size ≤ r ∧ r < (construct h opts dom).1.dicts.size) ∨ (∃ s, p.2 = .scale s) := by
  obtain ⟨h1, o, he, ho', hle, hsame, hsc, hc⟩ := construct_eq_from h opts dom ho
  rw [he, constructFrom_snd] at hp
  rw [he, size_constructFrom]
  rcases mem_dict_constructFrom_self dom ho' (by omega) hp with hp | hp | hp | hp | hp
  · rw [hsame _ h0] at hp; exact Or.inl hp
  · rcases hc with ⟨h2, h3⟩ | ⟨_, _, h3, _⟩
    · rw [h3] at hp; exact Or.inr (Or.inl ⟨o, h2, hp⟩)
    · rw [h3] at hp; cases hp
  · exact Or.inr (Or.inr (Or.inl ⟨h1.dicts.size, by rw [hp], hle, by omega⟩))
  · exact Or.inr (Or.inr (Or.inl ⟨h1.dicts.size + 2, by rw [hp], by omega, by omega⟩))
  · exact Or.inr (Or.inr (Or.inr ⟨_, by rw [hp]⟩))

end Construct

/-- two heaps give a timeline the same view if they agree on its options dict, on the dicts that one refers to, and on its scale -/
theorem view_congr {h h' : Heap} {S : Nat} (hd : h'.dict S = h.dict S)
    (hrefs : ∀ k r, (k, Val.dict r) ∈ h.dict S → h'.dict r = h.dict r)
    (hs : ∀ s, dget (h.dict S) "scale" = some (.scale s) → h'.scales[s]? = h.scales[s]?) :
    view h' S = view h S := by
  unfold view
  simp only [hd]
  refine Prod.ext rfl (Prod.ext ?_ ?_)
  · apply filterMap_congr_mem
    rintro ⟨k, v⟩ hp
    cases v with
    | atom _ => rfl
    | scale _ => rfl
    | dict r => simp only [hrefs k r hp]
  · show caseScale (dget (h.dict S) "scale") (fun s => h'.scales[s]?) none = caseScale (dget (h.dict S) "scale") (fun s => h.scales[s]?) none
    rcases caseScale_cases (dget (h.dict S) "scale") (fun s => h'.scales[s]?) none with ⟨s, h1, h2⟩ | ⟨h1, h2⟩
    · rw [h1]; exact hs s h1
    · rw [h2]
      rcases caseScale_cases (dget (h.dict S) "scale") (fun s => h.scales[s]?) none with ⟨s, h3, _⟩ | ⟨_, h4⟩
      · exact absurd h3 (h1 s)
      · rw [h4]

end Labella.Options
