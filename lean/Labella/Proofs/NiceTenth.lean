import Labella.Model.Scale
import Labella.Proofs.TickLemmas
import Mathlib.Algebra.Order.Field.Rat
import Mathlib.Tactic.Ring
import Mathlib.Tactic.Linarith
import Mathlib.Tactic.FieldSimp
import Mathlib.Tactic.Positivity
import Mathlib.Tactic.NormNum
/-! Helper lemmas for `Props/C14.lean`: the ends of a nice (linear) domain are integer multiples of one tenth of the
tick step of the nice domain itself.

The ends are multiples of the second pass's step `a`; the final step `b` is again of the form `{1,2,5}·10^k`, with
`a ≤ b < 20·a`.  Of the possible ratios `b / a ∈ {1, 2, 5/2, 4, 5, 10}` only `4` (`5·10^k → 2·10^(k+1)`) would break
divisibility of `a` by `b / 10`, and it is unreachable for a requested count `m ≥ 1` (`hard_case_impossible`). -/
namespace Labella.Scale
open Labella

/-! ### sharp thresholds of `tickStep` -/

/-- lower thresholds: once `span / m` passes `10^i / err_c`, the step is at least `c · 10^i` -/
theorem tickStep_ge_of_err (span m : ℚ) (i : Int) (hs : 0 < span) (hm : 0 < m) :
    (m * pow10 i ≤ Gen.tickErr2 * span → 2 * pow10 i ≤ tickStep span m) ∧
    (m * pow10 i ≤ Gen.tickErr5 * span → 5 * pow10 i ≤ tickStep span m) ∧
    (m * pow10 i ≤ Gen.tickErr10 * span → 10 * pow10 i ≤ tickStep span m) := by
  obtain ⟨k, err, hk, -, he, hlo, hhi, c⟩ := tickStep_cases span m hs hm
  have e10 : Gen.tickErr10 = 5404319552844595 / 36028797018963968 := rfl
  have e5 : Gen.tickErr5 = 3152519739159347 / 9007199254740992 := rfl
  have e2 : Gen.tickErr2 = 3 / 4 := rfl
  rw [e10, e5, e2] at c ⊢
  have hPi := pow10_pos i
  have hPk := pow10_pos k
  -- in all three cases `m * pow10 i ≤ (3/4) * span`
  have key : ∀ E : ℚ, E ≤ 3 / 4 → m * pow10 i ≤ E * span →
      (i = k ∧ err ≤ E) ∨ 10 * pow10 i ≤ pow10 k := by
    intro E hE h
    have h1 : m * pow10 i < m * pow10 (k + 1) := by
      rw [pow10_succ]
      have : err * span < 10 * err * span := by nlinarith
      nlinarith
    have h2 : pow10 i < pow10 (k + 1) := lt_of_mul_lt_mul_left h1 hm.le
    have h3 : i < k + 1 := (pow10_lt_iff _ _).mp h2
    rcases lt_or_eq_of_le (show i ≤ k by omega) with hlt | heq
    · right
      have : pow10 (i + 1) ≤ pow10 k := (pow10_le_iff _ _).mpr (by omega)
      rwa [pow10_succ] at this
    · left
      refine ⟨heq, ?_⟩
      rw [heq, he] at h
      exact le_of_mul_le_mul_right h hs
  have hge : pow10 k ≤ tickStep span m := by
    rcases c with ⟨_, t⟩ | ⟨_, _, t⟩ | ⟨_, _, t⟩ | ⟨_, t⟩ <;> rw [t] <;> linarith
  refine ⟨fun h => ?_, fun h => ?_, fun h => ?_⟩
  · rcases key _ (by norm_num) h with ⟨rfl, herr⟩ | hfar
    · rcases c with ⟨_, t⟩ | ⟨_, _, t⟩ | ⟨_, _, t⟩ | ⟨a, t⟩
      · rw [t]; linarith
      · rw [t]; linarith
      · rw [t]
      · linarith
    · linarith
  · rcases key _ (by norm_num) h with ⟨rfl, herr⟩ | hfar
    · rcases c with ⟨_, t⟩ | ⟨_, _, t⟩ | ⟨a, _, t⟩ | ⟨a, t⟩
      · rw [t]; linarith
      · rw [t]
      · linarith
      · linarith
    · linarith
  · rcases key _ (by norm_num) h with ⟨rfl, herr⟩ | hfar
    · rcases c with ⟨_, t⟩ | ⟨a, _, t⟩ | ⟨a, _, t⟩ | ⟨a, t⟩
      · rw [t]
      · linarith
      · linarith
      · linarith
    · linarith

/-- upper threshold: while `span / m` stays below `10^j / (3/4)`, the step is at most `10^j` -/
theorem tickStep_le_of_err2 (span m : ℚ) (j : Int) (hs : 0 < span) (hm : 0 < m)
    (h : Gen.tickErr2 * span < m * pow10 j) : tickStep span m ≤ pow10 j := by
  obtain ⟨k, err, hk, -, he, hlo, hhi, c⟩ := tickStep_cases span m hs hm
  have e2 : Gen.tickErr2 = 3 / 4 := rfl
  rw [e2] at c h
  have hPj := pow10_pos j
  have hPk := pow10_pos k
  -- `k ≤ j`
  have h1 : m * pow10 k < m * pow10 (j + 1) := by
    rw [pow10_succ, he]
    nlinarith
  have h2 : pow10 k < pow10 (j + 1) := lt_of_mul_lt_mul_left h1 hm.le
  have h3 : k < j + 1 := (pow10_lt_iff _ _).mp h2
  rcases lt_or_eq_of_le (show k ≤ j by omega) with hlt | heq
  · have hkj : pow10 (k + 1) ≤ pow10 j := (pow10_le_iff _ _).mpr (by omega)
    rw [pow10_succ] at hkj
    rcases c with ⟨_, t⟩ | ⟨_, _, t⟩ | ⟨_, _, t⟩ | ⟨_, t⟩ <;> rw [t] <;> linarith
  · subst heq
    have herr : 3 / 4 < err := by
      rw [he] at h
      exact lt_of_mul_lt_mul_right h hs.le
    rcases c with ⟨a, t⟩ | ⟨_, a, t⟩ | ⟨_, a, t⟩ | ⟨_, t⟩
    · have : Gen.tickErr10 ≤ 3 / 4 := by
        have e10 : Gen.tickErr10 = 5404319552844595 / 36028797018963968 := rfl
        rw [e10]; norm_num
      linarith
    · have : Gen.tickErr5 ≤ 3 / 4 := by
        have e5 : Gen.tickErr5 = 3152519739159347 / 9007199254740992 := rfl
        rw [e5]; norm_num
      linarith
    · linarith
    · rw [t]

/-! ### numbers of the form `{1,2,5}·10^k` -/

/-- a `{1,2,5}·10^j` number below `5·10^i` is `2·10^i` or at most `10^i` -/
theorem form_lt_five (x : ℚ) (i : Int)
    (hx : ∃ j : Int, x = pow10 j ∨ x = 2 * pow10 j ∨ x = 5 * pow10 j) (h : x < 5 * pow10 i) :
    x = 2 * pow10 i ∨ x ≤ pow10 i := by
  obtain ⟨j, hj⟩ := hx
  have hPi := pow10_pos i
  have hPj := pow10_pos j
  have h1 : pow10 j < pow10 (i + 1) := by
    rw [pow10_succ]
    rcases hj with e | e | e <;> rw [e] at h <;> linarith
  have h2 : j < i + 1 := (pow10_lt_iff _ _).mp h1
  rcases lt_or_eq_of_le (show j ≤ i by omega) with hlt | heq
  · right
    have h3 : pow10 (j + 1) ≤ pow10 i := (pow10_le_iff _ _).mpr (by omega)
    rw [pow10_succ] at h3
    rcases hj with e | e | e <;> rw [e] <;> linarith
  · subst heq
    rcases hj with e | e | e
    · right; rw [e]
    · left; exact e
    · rw [e] at h; linarith

/-- `a`, `b` of the form `{1,2,5}·10^k` with `a ≤ b < 20·a`: `a` is an integer multiple of `b / 10`, unless
`a = 5·10^i` and `b = 2·10^(i+1)` -/
theorem tenth_of_forms (a b : ℚ)
    (ha : ∃ k : Int, a = pow10 k ∨ a = 2 * pow10 k ∨ a = 5 * pow10 k)
    (hb : ∃ k : Int, b = pow10 k ∨ b = 2 * pow10 k ∨ b = 5 * pow10 k)
    (hab : a ≤ b) (hb20 : b < 20 * a)
    (hard : ∀ i : Int, a = 5 * pow10 i → b = 2 * pow10 (i + 1) → False) :
    ∃ w : Int, a = (w : ℚ) * (b / 10) := by
  obtain ⟨i, hi⟩ := ha
  obtain ⟨j, hj⟩ := hb
  have hPi := pow10_pos i
  have hPj := pow10_pos j
  have hij : i ≤ j := by
    have : pow10 i < pow10 (j + 1) := by
      rw [pow10_succ]
      rcases hi with e | e | e <;> rcases hj with f | f | f <;> rw [e, f] at hab <;> linarith
    have := (pow10_lt_iff _ _).mp this
    omega
  have hji : j < i + 2 := by
    have : pow10 j < pow10 (i + 1 + 1) := by
      rw [pow10_succ, pow10_succ]
      rcases hi with e | e | e <;> rcases hj with f | f | f <;> rw [e, f] at hb20 <;> linarith
    have := (pow10_lt_iff _ _).mp this
    omega
  rcases (show j = i ∨ j = i + 1 by omega) with rfl | rfl
  · rcases hi with e | e | e <;> rcases hj with f | f | f
    · exact ⟨10, by rw [e, f]; push_cast; ring⟩
    · exact ⟨5, by rw [e, f]; push_cast; ring⟩
    · exact ⟨2, by rw [e, f]; push_cast; ring⟩
    · rw [e, f] at hab; linarith
    · exact ⟨10, by rw [e, f]; push_cast; ring⟩
    · exact ⟨4, by rw [e, f]; push_cast; ring⟩
    · rw [e, f] at hab; linarith
    · rw [e, f] at hab; linarith
    · exact ⟨10, by rw [e, f]; push_cast; ring⟩
  · have hs := pow10_succ i
    rcases hi with e | e | e <;> rcases hj with f | f | f
    · exact ⟨1, by rw [e, f, hs]; push_cast; ring⟩
    · rw [e, f, hs] at hb20; linarith
    · rw [e, f, hs] at hb20; linarith
    · exact ⟨2, by rw [e, f, hs]; push_cast; ring⟩
    · exact ⟨1, by rw [e, f, hs]; push_cast; ring⟩
    · rw [e, f, hs] at hb20; linarith
    · exact ⟨5, by rw [e, f, hs]; push_cast; ring⟩
    · exact (hard i e f).elim
    · exact ⟨1, by rw [e, f, hs]; push_cast; ring⟩

/-! ### the ratio `4` is unreachable -/

/-- The arithmetic core: first pass with step `s1 ∈ {5P, 2P, ≤ P}` (`P = 10^i`) on `[d0, d1]` gives `[p1, p2]`; the second pass
with step `5P` gives `[n1, n2]`; the third step cannot be `20P` when `m ≥ 1`. -/
theorem hard_case_impossible (m P d0 d1 p1 p2 n1 n2 s1 : ℚ) (u v K0 K1 : Int)
    (hm : 1 ≤ m) (hP : 0 < P)
    -- pass 1
    (hp1 : p1 = (u : ℚ) * s1) (hp2 : p2 = (v : ℚ) * s1)
    (h1a : d0 - p1 < s1) (h1b : p2 - d1 < s1)
    (hs1 : s1 = 5 * P ∨ (s1 = 2 * P ∧ (d1 - d0) * Gen.tickErr5 < m * P) ∨
      (s1 ≤ P ∧ (d1 - d0) * Gen.tickErr2 < m * P))
    -- pass 2, step `5P`
    (hn1 : n1 = (K0 : ℚ) * (5 * P)) (hn2 : n2 = (K1 : ℚ) * (5 * P))
    (h2a : n1 ≤ p1) (h2b : p1 - n1 < 5 * P) (h2c : p2 ≤ n2) (h2d : n2 - p2 < 5 * P)
    (hA : (p2 - p1) * Gen.tickErr10 < m * P)
    -- step 3 is `2·10P`
    (hB : m * (10 * P) ≤ Gen.tickErr2 * (n2 - n1)) : False := by
  have e10 : Gen.tickErr10 = 5404319552844595 / 36028797018963968 := rfl
  have e5 : Gen.tickErr5 = 3152519739159347 / 9007199254740992 := rfl
  have e2 : Gen.tickErr2 = 3 / 4 := rfl
  rw [e10] at hA
  rw [e2] at hB
  rw [e5, e2] at hs1
  have hmP : P ≤ m * P := by nlinarith
  rcases hs1 with h5 | ⟨h2, hC⟩ | ⟨h1, hD⟩
  · -- the first step is already `5P`: the second pass changes nothing
    subst h5
    have a1 : (K0 : ℚ) * (5 * P) ≤ (u : ℚ) * (5 * P) := by rw [← hn1, ← hp1]; exact h2a
    have a2 : (u : ℚ) * (5 * P) < ((K0 + 1 : Int) : ℚ) * (5 * P) := by
      push_cast; rw [← hp1]; linarith
    have b1 : (v : ℚ) * (5 * P) ≤ (K1 : ℚ) * (5 * P) := by rw [← hn2, ← hp2]; exact h2c
    have b2 : ((K1 - 1 : Int) : ℚ) * (5 * P) < (v : ℚ) * (5 * P) := by
      push_cast; rw [← hp2]; linarith
    have h5P : 0 < 5 * P := by linarith
    have a1' : K0 ≤ u := by exact_mod_cast le_of_mul_le_mul_right a1 h5P
    have a2' : u < K0 + 1 := by exact_mod_cast lt_of_mul_lt_mul_right a2 h5P.le
    have b1' : v ≤ K1 := by exact_mod_cast le_of_mul_le_mul_right b1 h5P
    have b2' : K1 - 1 < v := by exact_mod_cast lt_of_mul_lt_mul_right b2 h5P.le
    have eu : u = K0 := by omega
    have ev : v = K1 := by omega
    subst eu ev
    rw [← hn1] at hp1
    rw [← hn2] at hp2
    rw [hp1, hp2] at hA
    linarith
  · -- the first step is `2P`
    subst h2
    rw [hp1, hn1] at h2a h2b
    rw [hp2, hn2] at h2c h2d
    rw [hp1] at h1a
    rw [hp2] at h1b
    rw [hn1, hn2] at hB
    have c1 : ((5 * K0 : Int) : ℚ) * P ≤ ((2 * u : Int) : ℚ) * P := by push_cast; linarith
    have c2 : ((2 * u : Int) : ℚ) * P < ((5 * K0 + 5 : Int) : ℚ) * P := by push_cast; linarith
    have c3 : ((5 * K1 - 5 : Int) : ℚ) * P < ((2 * v : Int) : ℚ) * P := by push_cast; linarith
    have c4 : ((2 * v : Int) : ℚ) * P ≤ ((5 * K1 : Int) : ℚ) * P := by push_cast; linarith
    have c5 : ((2 : Int) : ℚ) * P < ((K1 - K0 : Int) : ℚ) * P := by push_cast; linarith
    have c6 : ((v - u : Int) : ℚ) * P < ((4 : Int) : ℚ) * P := by push_cast; linarith
    have c1' : 5 * K0 ≤ 2 * u := by exact_mod_cast le_of_mul_le_mul_right c1 hP
    have c2' : 2 * u < 5 * K0 + 5 := by exact_mod_cast lt_of_mul_lt_mul_right c2 hP.le
    have c3' : 5 * K1 - 5 < 2 * v := by exact_mod_cast lt_of_mul_lt_mul_right c3 hP.le
    have c4' : 2 * v ≤ 5 * K1 := by exact_mod_cast le_of_mul_le_mul_right c4 hP
    have c5' : 2 < K1 - K0 := by exact_mod_cast lt_of_mul_lt_mul_right c5 hP.le
    have c6' : v - u < 4 := by exact_mod_cast lt_of_mul_lt_mul_right c6 hP.le
    omega
  · -- the first step is at most `P`
    linarith

/-! ### the theorem on `nice` -/

/-- increasing domain: both ends of the nice domain are integer multiples of a tenth of the step of the nice domain -/
theorem nice_tenth_of_lt (d0 d1 m : ℚ) (hd : d0 < d1) (hm : 1 ≤ m) :
    (nice d0 d1 m).1 < (nice d0 d1 m).2 ∧
    ∃ k0 k1 : Int,
      (nice d0 d1 m).1 = (k0 : ℚ) * (tickStep ((nice d0 d1 m).2 - (nice d0 d1 m).1) m / 10) ∧
      (nice d0 d1 m).2 = (k1 : ℚ) * (tickStep ((nice d0 d1 m).2 - (nice d0 d1 m).1) m / 10) := by
  have hm0 : 0 < m := by linarith
  -- pass 1
  obtain ⟨a1, a2, a3, a4, u, v, au, av⟩ := nicePass_lt_props d0 d1 m hd hm0
  set p1 := (nicePass d0 d1 m).1 with hp1
  set p2 := (nicePass d0 d1 m).2 with hp2
  have hp : p1 < p2 := by linarith
  -- pass 2
  obtain ⟨b1, b2, b3, b4, K0, K1, bK0, bK1⟩ := nicePass_lt_props p1 p2 m hp hm0
  rw [← nice_eq] at b1 b2 b3 b4 bK0 bK1
  set n1 := (nice d0 d1 m).1 with hn1
  set n2 := (nice d0 d1 m).2 with hn2
  have hn : n1 < n2 := by linarith
  refine ⟨hn, ?_⟩
  have hs0 : 0 < d1 - d0 := sub_pos.mpr hd
  have hs1 : 0 < p2 - p1 := sub_pos.mpr hp
  have hs2 : 0 < n2 - n1 := sub_pos.mpr hn
  set st1 := tickStep (d1 - d0) m with hst1
  set a := tickStep (p2 - p1) m with ha
  set b := tickStep (n2 - n1) m with hb
  have st1_pos : 0 < st1 := tickStep_pos _ _ hs0 hm0
  have a_pos : 0 < a := tickStep_pos _ _ hs1 hm0
  have m01 : st1 ≤ a := tickStep_mono _ _ m hs0 (by linarith) hm0
  have m12 : a ≤ b := tickStep_mono _ _ m hs1 (by linarith) hm0
  -- `b < 20 a`
  have hb20 : b < 20 * a := by
    have ba := (tickStep_bounds (p2 - p1) m hs1 hm0).1
    have bb := (tickStep_bounds (n2 - n1) m hs2 hm0).2
    rw [← ha] at ba
    rw [← hb] at bb
    have h1 : a ≤ m * a := by nlinarith
    have h2 : m * b < m * (20 * a) := by nlinarith
    exact lt_of_mul_lt_mul_left h2 hm0.le
  obtain ⟨w, hw⟩ := tenth_of_forms a b (tickStep_form _ _ hs1 hm0) (tickStep_form _ _ hs2 hm0) m12 hb20 (by
    intro i ea eb
    have hP := pow10_pos i
    -- (A) the second span is short
    have hA : (p2 - p1) * Gen.tickErr10 < m * pow10 i := by
      by_contra hcon
      have := (tickStep_ge_of_err (p2 - p1) m i hs1 hm0).2.2 (by linarith)
      rw [← ha, ea] at this
      linarith
    -- (B) the third span is long
    have hB : m * (10 * pow10 i) ≤ Gen.tickErr2 * (n2 - n1) := by
      by_contra hcon
      have := tickStep_le_of_err2 (n2 - n1) m (i + 1) hs2 hm0 (by rw [pow10_succ]; linarith)
      rw [← hb, eb] at this
      have := pow10_pos (i + 1)
      linarith
    -- the first step
    have hs1c : st1 = 5 * pow10 i ∨ (st1 = 2 * pow10 i ∧ (d1 - d0) * Gen.tickErr5 < m * pow10 i) ∨
        (st1 ≤ pow10 i ∧ (d1 - d0) * Gen.tickErr2 < m * pow10 i) := by
      rcases lt_or_eq_of_le (show st1 ≤ 5 * pow10 i by rw [← ea]; exact m01) with hlt | heq
      · right
        have hC : (d1 - d0) * Gen.tickErr5 < m * pow10 i := by
          by_contra hcon
          have := (tickStep_ge_of_err (d1 - d0) m i hs0 hm0).2.1 (by linarith)
          rw [← hst1] at this
          linarith
        rcases form_lt_five st1 i (tickStep_form _ _ hs0 hm0) hlt with h2 | h1
        · exact Or.inl ⟨h2, hC⟩
        · right
          refine ⟨h1, ?_⟩
          by_contra hcon
          have := (tickStep_ge_of_err (d1 - d0) m i hs0 hm0).1 (by linarith)
          rw [← hst1] at this
          linarith
      · exact Or.inl heq
    rw [ea] at bK0 bK1 b3 b4
    exact hard_case_impossible m (pow10 i) d0 d1 p1 p2 n1 n2 st1 u v K0 K1 hm hP au av a3 a4 hs1c
      bK0 bK1 b1 b3 b2 b4 hA hB)
  refine ⟨K0 * w, K1 * w, ?_, ?_⟩
  · rw [bK0]; push_cast; rw [mul_assoc, ← hw]
  · rw [bK1]; push_cast; rw [mul_assoc, ← hw]

/-! ### descending domains mirror ascending ones -/

theorem nicePass_swap (d0 d1 m : ℚ) (h : d1 < d0) (hm : 0 < m) :
    nicePass d0 d1 m = ((nicePass d1 d0 m).2, (nicePass d1 d0 m).1) := by
  rw [nicePass_of_gt d0 d1 m h hm, nicePass_of_lt d1 d0 m h hm]

theorem nice_swap (d0 d1 m : ℚ) (h : d1 < d0) (hm : 0 < m) :
    nice d0 d1 m = ((nice d1 d0 m).2, (nice d1 d0 m).1) := by
  obtain ⟨a1, a2, -⟩ := nicePass_lt_props d1 d0 m h hm
  have hp : (nicePass d1 d0 m).1 < (nicePass d1 d0 m).2 := by linarith
  rw [nice_eq, nice_eq, nicePass_swap d0 d1 m h hm]
  exact nicePass_swap _ _ m hp hm

/-- decreasing domain: the same statement, with the span taken as first end minus second end -/
theorem nice_tenth_of_gt (d0 d1 m : ℚ) (hd : d1 < d0) (hm : 1 ≤ m) :
    (nice d0 d1 m).2 < (nice d0 d1 m).1 ∧
    ∃ k0 k1 : Int,
      (nice d0 d1 m).1 = (k0 : ℚ) * (tickStep ((nice d0 d1 m).1 - (nice d0 d1 m).2) m / 10) ∧
      (nice d0 d1 m).2 = (k1 : ℚ) * (tickStep ((nice d0 d1 m).1 - (nice d0 d1 m).2) m / 10) := by
  have hm0 : 0 < m := by linarith
  obtain ⟨hn, k0, k1, e0, e1⟩ := nice_tenth_of_lt d1 d0 m hd hm
  rw [nice_swap d0 d1 m hd hm0]
  exact ⟨hn, k1, k0, e1, e0⟩

end Labella.Scale
