import Labella.Model.Chain
import Mathlib.Algebra.Order.Field.Rat
import Mathlib.Algebra.BigOperators.Group.List.Basic
import Mathlib.Tactic.Ring
import Mathlib.Tactic.Linarith
import Mathlib.Tactic.FieldSimp
import Mathlib.Tactic.Positivity
/-! Pooling keeps the prefix-residual invariant (helper lemmas for C01/C02/C05). -/
namespace Labella.Chain

/-- residual of item `i` against level `m` -/
def resid (m : ℚ) (i : Item) : ℚ := i.w * (m - i.t)

def residSum (m : ℚ) (b : Block) : ℚ := (b.map (resid m)).sum

def PosW (b : Block) : Prop := ∀ i ∈ b, 0 < i.w

/-- prefix-residual invariant: every prefix "wants" to be to the right of the block mean -/
def PM (b : Block) : Prop := ∀ k, residSum b.mean (b.take k) ≤ 0

theorem residSum_eq (m : ℚ) (b : Block) : residSum m b = m * b.sumW - b.sumWT := by
  induction b with
  | nil => simp [residSum, Block.sumW, Block.sumWT]
  | cons i b ih =>
    simp only [residSum, Block.sumW, Block.sumWT, List.map_cons, List.sum_cons] at *
    rw [ih]; unfold resid; ring

theorem sumW_pos {b : Block} (hb : b ≠ []) (hw : PosW b) : 0 < b.sumW := by
  induction b with
  | nil => exact absurd rfl hb
  | cons i b ih =>
    simp only [Block.sumW, List.map_cons, List.sum_cons]
    have hi : 0 < i.w := hw i (by simp)
    by_cases hb' : b = []
    · subst hb'; simpa using hi
    · have := ih hb' (fun j hj => hw j (by simp [hj]))
      simp only [Block.sumW] at this; linarith

theorem sumW_nonneg {b : Block} (hw : PosW b) : 0 ≤ b.sumW := by
  by_cases hb : b = []
  · subst hb; simp [Block.sumW]
  · exact (sumW_pos hb hw).le

theorem residSum_mean {b : Block} (hb : b ≠ []) (hw : PosW b) : residSum b.mean b = 0 := by
  rw [residSum_eq]; unfold Block.mean
  have := sumW_pos hb hw
  field_simp; ring

theorem residSum_shift (m m' : ℚ) (b : Block) :
    residSum m' b = residSum m b + (m' - m) * b.sumW := by
  rw [residSum_eq, residSum_eq]; ring

theorem sumW_append (a b : Block) : (a ++ b).sumW = a.sumW + b.sumW := by
  simp [Block.sumW]
theorem sumWT_append (a b : Block) : (a ++ b).sumWT = a.sumWT + b.sumWT := by
  simp [Block.sumWT]
theorem residSum_append (m : ℚ) (a b : Block) : residSum m (a ++ b) = residSum m a + residSum m b := by
  simp [residSum]

theorem mean_append_between {a b : Block} (ha : a ≠ []) (hb : b ≠ []) (hwa : PosW a) (hwb : PosW b)
    (h : b.mean ≤ a.mean) : b.mean ≤ (a ++ b).mean ∧ (a ++ b).mean ≤ a.mean := by
  have hA := sumW_pos ha hwa
  have hB := sumW_pos hb hwb
  have e1 : a.sumWT = a.mean * a.sumW := by unfold Block.mean; field_simp
  have e2 : b.sumWT = b.mean * b.sumW := by unfold Block.mean; field_simp
  have hm : (a ++ b).mean = (a.mean * a.sumW + b.mean * b.sumW) / (a.sumW + b.sumW) := by
    show (a ++ b).sumWT / (a ++ b).sumW = _
    rw [sumW_append, sumWT_append, ← e1, ← e2]
  rw [hm]
  constructor
  · rw [le_div_iff₀ (by linarith)]; nlinarith
  · rw [div_le_iff₀ (by linarith)]; nlinarith

theorem PosW_take {b : Block} (hw : PosW b) (k : ℕ) : PosW (b.take k) :=
  fun i hi => hw i (List.mem_of_mem_take hi)
theorem PosW_drop {b : Block} (hw : PosW b) (k : ℕ) : PosW (b.drop k) :=
  fun i hi => hw i (List.mem_of_mem_drop hi)

theorem PM_append {a b : Block} (ha : a ≠ []) (hb : b ≠ []) (hwa : PosW a) (hwb : PosW b)
    (pa : PM a) (pb : PM b) (h : b.mean ≤ a.mean) : PM (a ++ b) := by
  obtain ⟨hlo, hhi⟩ := mean_append_between ha hb hwa hwb h
  intro k
  set m' := (a ++ b).mean with hm'
  rw [List.take_append]
  rw [residSum_append]
  by_cases hk : k ≤ a.length
  · -- prefix inside a
    have : b.take (k - a.length) = [] := by
      have : k - a.length = 0 := by omega
      simp [this]
    rw [this]
    have h1 := pa k
    rw [residSum_shift a.mean m' (a.take k)]
    have h2 : 0 ≤ Block.sumW (a.take k) := sumW_nonneg (PosW_take hwa k)
    simp only [residSum, List.map_nil, List.sum_nil, add_zero]
    simp only [residSum] at h1
    nlinarith
  · -- prefix = a ++ (prefix of b); use the complementary suffix of b
    have hk' : a.length ≤ k := by omega
    have hta : a.take k = a := List.take_of_length_le hk'
    rw [hta]
    set j := k - a.length
    have hwhole : residSum m' (a ++ b) = 0 := by
      have hne : a ++ b ≠ [] := by simp [ha]
      have hw : PosW (a ++ b) := by
        intro i hi; rcases List.mem_append.mp hi with h | h
        · exact hwa i h
        · exact hwb i h
      exact residSum_mean hne hw
    rw [residSum_append] at hwhole
    have hsplit : residSum m' b = residSum m' (b.take j) + residSum m' (b.drop j) := by
      rw [← residSum_append, List.take_append_drop]
    -- suffix resid ≥ 0
    have hsuf : 0 ≤ residSum m' (b.drop j) := by
      rw [residSum_shift b.mean m' (b.drop j)]
      have hbm : residSum b.mean b = 0 := residSum_mean hb hwb
      have hsp : residSum b.mean b = residSum b.mean (b.take j) + residSum b.mean (b.drop j) := by
        rw [← residSum_append, List.take_append_drop]
      have := pb j
      have hW : 0 ≤ Block.sumW (b.drop j) := sumW_nonneg (PosW_drop hwb j)
      nlinarith
    linarith

end Labella.Chain
