import Labella.Proofs.LayoutSep
import Labella.Proofs.PermLemmas
import Labella.Proofs.EngineTLemmas
import Labella.Props.C04
/-! End-to-end helpers for C01–C03: what `removeOverlap` proves of one layer holds of every layer of
`Layout.compute`, and of what the stateful engine reports after any history. -/
namespace Labella.Layout
open Labella Labella.Chain

/-! ### `placeLayers`, layer by layer -/

theorem placeLayers_length (o : FOpts) (labels : List Label) :
    ∀ (ls : List (List Ref)) (prev : Option (List Placed)), (placeLayers o labels prev ls).length = ls.length := by
  intro ls
  induction ls with
  | nil => intro prev; simp [placeLayers]
  | cons l ls ih => intro prev; simp [placeLayers, ih]

/-- layer `j` is `placeLayer` of the `j`-th distributed layer against the placed layer before it -/
theorem placeLayers_getElem? (o : FOpts) (labels : List Label) :
    ∀ (ls : List (List Ref)) (prev : Option (List Placed)) (j : Nat),
    (placeLayers o labels prev ls)[j]? =
      ls[j]?.map (placeLayer o labels (if j = 0 then prev else (placeLayers o labels prev ls)[j - 1]?)) := by
  intro ls
  induction ls with
  | nil => intro prev j; simp [placeLayers]
  | cons l ls ih =>
    intro prev j
    cases j with
    | zero => simp [placeLayers]
    | succ k =>
      simp only [placeLayers, List.getElem?_cons_succ, Nat.add_sub_cancel, Nat.add_one_ne_zero, if_false]
      rw [ih (some (placeLayer o labels prev l)) k]
      cases k with
      | zero => simp
      | succ k' => simp

/-- the items `removeOverlap` is given for layer `j` of `compute o labels` -/
def layerItems (o : FOpts) (labels : List Label) (j : Nat) : List LItem :=
  ((distribute o.toD labels).getD j []).map
    (layerItem o labels (if j = 0 then none else (compute o labels)[j - 1]?))

theorem sortItems_nil : sortItems ([] : List (LItem × Nat)) = [] := by
  simp [sortItems]

/-- one placed layer, viewed as (item handed to `removeOverlap`, reported position), is `removeOverlap`'s sorted
item list zipped with its reported positions -/
theorem placeLayer_view (o : FOpts) (labels : List Label) (prev : Option (List Placed)) (layer : List Ref) :
    (placeLayer o labels prev layer).map (fun p => (layerItem o labels prev p.ref, (p.pos : ℚ)))
      = ((sortItems (layer.map (layerItem o labels prev)).zipIdx).map (·.1)).zip
          ((removeOverlap o.toR (layer.map (layerItem o labels prev))).pos.map (fun (p : Int) => (p : ℚ))) := by
  simp only [placeLayer]
  rw [List.map_zipWith]
  have hord : (removeOverlap o.toR (layer.map (layerItem o labels prev))).order
      = (sortItems (layer.map (layerItem o labels prev)).zipIdx).map (·.2) := rfl
  rw [hord, List.zip_eq_zipWith, List.zipWith_map_left, List.zipWith_map_left, List.zipWith_map_right]
  apply zipWith_congr_of_mem
  intro q hq p
  have hq' : q ∈ (layer.map (layerItem o labels prev)).zipIdx := (sort_perm' _).subset hq
  have hget := List.mem_zipIdx_iff_getElem?.1 hq'
  rw [List.getElem?_map] at hget
  cases hl : layer[q.2]? with
  | none => rw [hl] at hget; simp at hget
  | some r =>
    rw [hl] at hget
    simp only [Option.map_some, Option.some.injEq] at hget
    simp [List.getD, hl, hget]

/-- **the layer view of a computed layout**: layer `j`, every item paired with the item `removeOverlap` was given for
it, is `removeOverlap`'s sorted list zipped with its reported positions -/
theorem compute_view (o : FOpts) (labels : List Label) (j : Nat) :
    ((compute o labels).getD j []).map
        (fun p => (layerItem o labels (if j = 0 then none else (compute o labels)[j - 1]?) p.ref, (p.pos : ℚ)))
      = ((sortItems (layerItems o labels j).zipIdx).map (·.1)).zip
          ((removeOverlap o.toR (layerItems o labels j)).pos.map (fun (p : Int) => (p : ℚ))) := by
  have h := placeLayers_getElem? o labels (distribute o.toD labels) none j
  change (compute o labels)[j]? = _ at h
  have hprev : (if j = 0 then none else (placeLayers o labels none (distribute o.toD labels))[j - 1]?)
      = (if j = 0 then none else (compute o labels)[j - 1]?) := rfl
  rw [hprev] at h
  unfold layerItems
  rw [List.getD_eq_getElem?_getD, List.getD_eq_getElem?_getD, h]
  cases (distribute o.toD labels)[j]? with
  | none => simp [sortItems_nil]
  | some layer =>
    simp only [Option.map_some, Option.getD_some]
    exact placeLayer_view o labels _ layer

/-! ### label ids of a computed layout are indices into the label list -/

theorem mem_labelIds_of_mem {D : List (List Ref)} {layer : List Ref} (hl : layer ∈ D) {i : Nat}
    (hi : Ref.label i ∈ layer) : i ∈ labelIds D := by
  unfold labelIds
  rw [List.mem_filterMap]
  exact ⟨Ref.label i, List.mem_flatten.2 ⟨layer, hl, hi⟩, rfl⟩

theorem labelIds_drop_subset (D : List (List Ref)) (k : Nat) : ∀ i ∈ labelIds (D.drop k), i ∈ labelIds D := by
  intro i hi
  unfold labelIds at *
  rw [List.mem_filterMap] at *
  obtain ⟨r, hr, e⟩ := hi
  obtain ⟨layer, hl, hrl⟩ := List.mem_flatten.1 hr
  exact ⟨r, List.mem_flatten.2 ⟨layer, List.mem_of_mem_drop hl, hrl⟩, e⟩

theorem distribute_ids_lt (o : DOpts) (labels : List Label) :
    ∀ layer ∈ distribute o labels, ∀ r ∈ layer, r.id < labels.length := by
  intro layer hl r hr
  have hcons := C04.distribute_conserves o labels
  have hlt : ∀ i ∈ labelIds (distribute o labels), i < labels.length := by
    intro i hi
    simpa using hcons.subset hi
  cases r with
  | label i => exact hlt i (mem_labelIds_of_mem hl hr)
  | stub i lv =>
    obtain ⟨j, hj, e⟩ := List.mem_iff_getElem.1 hl
    have hget : (distribute o labels)[j]? = some layer := by
      rw [List.getElem?_eq_getElem hj, e]
    have hst := C04.stubs_exact o labels j layer hget
    have hmem : (i, lv) ∈ stubsOf layer := by
      unfold stubsOf
      rw [List.mem_filterMap]
      exact ⟨Ref.stub i lv, hr, rfl⟩
    have := hst.subset hmem
    rw [List.mem_map] at this
    obtain ⟨i', hi', e'⟩ := this
    simp only [Prod.mk.injEq] at e'
    rw [← e'.1]
    exact hlt i' (labelIds_drop_subset _ _ i' hi')

theorem placeLayer_refs (o : FOpts) (labels : List Label) (prev : Option (List Placed)) (layer : List Ref) :
    ∀ p ∈ placeLayer o labels prev layer, p.ref ∈ layer := by
  intro p hp
  simp only [placeLayer] at hp
  rw [← List.map_uncurry_zip_eq_zipWith, List.mem_map] at hp
  obtain ⟨⟨idx, q⟩, hz, e⟩ := hp
  have hidx := (List.of_mem_zip hz).1
  have hlt := removeOverlap_order_lt _ _ idx hidx
  rw [List.length_map] at hlt
  subst e
  simp [Function.uncurry, List.getD, hlt]

theorem placeLayers_refs (o : FOpts) (labels : List Label) :
    ∀ (ls : List (List Ref)) (prev : Option (List Placed)) (n : Nat), (∀ l ∈ ls, ∀ r ∈ l, r.id < n) →
    ∀ layer ∈ placeLayers o labels prev ls, ∀ p ∈ layer, p.ref.id < n := by
  intro ls
  induction ls with
  | nil => intro prev n _ layer hl; simp [placeLayers] at hl
  | cons l ls ih =>
    intro prev n h layer hl p hp
    simp only [placeLayers, List.mem_cons] at hl
    rcases hl with rfl | hl
    · exact h l (by simp) _ (placeLayer_refs o labels prev l p hp)
    · exact ih _ n (fun l' hl' => h l' (by simp [hl'])) layer hl p hp

theorem compute_ids_lt (o : FOpts) (labels : List Label) :
    ∀ layer ∈ compute o labels, ∀ p ∈ layer, p.ref.id < labels.length :=
  placeLayers_refs o labels _ none labels.length (distribute_ids_lt o.toD labels)

/-! ### walls: the general (each bound optional) form of `walls_near_bounds'` -/

theorem SepBy_getElem {e : ℚ} : ∀ (gs xs : List ℚ), SepBy e gs xs →
    ∀ (i : ℕ) (h1 : i < gs.length) (h2 : i + 1 < xs.length), gs[i] - e ≤ xs[i + 1] - xs[i] := by
  intro gs
  induction gs with
  | nil => intro xs _ i h1; simp at h1
  | cons g gs ih =>
    intro xs h i h1 h2
    cases xs with
    | nil => simp at h2
    | cons a xs =>
      cases xs with
      | nil => simp at h2
      | cons b xs =>
        cases i with
        | zero => exact h.1
        | succ i =>
          have := ih (b :: xs) h.2 i (by simpa using h1) (by simpa using h2)
          simpa using this

theorem cost_self (vs : List Item) : cost vs (vs.map (·.t)) = 0 := by
  induction vs with
  | nil => simp [cost]
  | cons v vs ih => rw [List.map_cons, cost_cons, ih]; simp

theorem toVar_nonneg (its : List LItem) : ∀ v ∈ its.map toVar, 0 ≤ v.w := by
  intro v hv
  simp only [List.mem_map] at hv
  obtain ⟨i, _, rfl⟩ := hv
  simp [toVar]

theorem leftWall_nonneg (o : ROpts) : ∀ v ∈ leftWall o, 0 ≤ v.w := by
  intro v hv
  exact (chainVars_pos o [] v (by simp [chainVars, hv])).le

theorem rightWall_nonneg (o : ROpts) : ∀ v ∈ rightWall o, 0 ≤ v.w := by
  intro v hv
  exact (chainVars_pos o [] v (by simp [chainVars, hv])).le

theorem chainVars_length (o : ROpts) (its : List LItem) :
    (chainVars o its).length = (leftWall o).length + its.length + (rightWall o).length := by
  simp only [chainVars, List.length_append, List.length_map]

/-- **If they fit, the walls stay at the bounds** (each bound optional): whenever some placement `zs` of the items keeps all
gaps with the walls standing exactly at the bounds, the walls' share of the solver's cost is at most `K = Σ (zᵢ − tᵢ)²` -/
theorem walls_cost_le (o : ROpts) (its : List LItem) (h : its ≠ []) (zs : List ℚ) (hz : zs.length = its.length)
    (hfeas : SepBy 0 (chainGaps o its) ((leftWall o).map (·.t) ++ zs ++ (rightWall o).map (·.t))) :
    cost (leftWall o) ((solve Layout.eps (chainVars o its) (chainGaps o its)).take (leftWall o).length)
      + cost (rightWall o)
          ((solve Layout.eps (chainVars o its) (chainGaps o its)).drop ((leftWall o).length + its.length))
      ≤ cost (its.map toVar) zs := by
  have hpos := chainVars_pos o its
  have hlens := chain_lengths o h
  have hvl := chainVars_length o its
  have hopt := solve_optimal' Layout.eps eps_nonneg' (chainVars o its) (chainGaps o its) hlens hpos
    ((leftWall o).map (·.t) ++ zs ++ (rightWall o).map (·.t)) (by rw [hvl]; simp only [List.length_append, List.length_map, hz]) hfeas
  have hal := solve_length' Layout.eps (chainVars o its) (chainGaps o its) hlens
  rw [hvl] at hal
  have hwd := wdist_nonneg (fun v hv => (hpos v hv).le)
    (solve Layout.eps (chainVars o its) (chainGaps o its))
    ((leftWall o).map (·.t) ++ zs ++ (rightWall o).map (·.t))
  generalize solve Layout.eps (chainVars o its) (chainGaps o its) = all at *
  have hsplit : all = (all.take (leftWall o).length ++ (all.drop (leftWall o).length).take its.length)
      ++ all.drop ((leftWall o).length + its.length) := by
    rw [← List.drop_drop, List.append_assoc, List.take_append_drop, List.take_append_drop]
  have hc1 : cost (chainVars o its) all
      = cost (leftWall o) (all.take (leftWall o).length)
        + cost (its.map toVar) ((all.drop (leftWall o).length).take its.length)
        + cost (rightWall o) (all.drop ((leftWall o).length + its.length)) := by
    conv_lhs => rw [hsplit]
    unfold chainVars
    rw [cost_append' _ _ _ _ (by simp; omega), cost_append' _ _ _ _ (by simp; omega)]
  have hc2 : cost (chainVars o its) ((leftWall o).map (·.t) ++ zs ++ (rightWall o).map (·.t))
      = cost (its.map toVar) zs := by
    unfold chainVars
    rw [cost_append' _ _ _ _ (by simp [hz]), cost_append' _ _ _ _ (by simp), cost_self, cost_self]
    ring
  have hm := cost_nonneg (toVar_nonneg its) ((all.drop (leftWall o).length).take its.length)
  rw [hc1, hc2] at hopt
  linarith

/-! ### inside the bounds -/

theorem SepBy_getElem? {e : ℚ} : ∀ (gs xs : List ℚ), SepBy e gs xs →
    ∀ (i : ℕ) (g a b : ℚ), gs[i]? = some g → xs[i]? = some a → xs[i + 1]? = some b → g - e ≤ b - a := by
  intro gs
  induction gs with
  | nil => intro xs _ i g a b h1; simp at h1
  | cons g' gs ih =>
    intro xs h i g a b h1 h2 h3
    cases xs with
    | nil => simp at h2
    | cons x xs =>
      cases xs with
      | nil => simp at h3
      | cons y xs =>
        cases i with
        | zero =>
          simp only [List.getElem?_cons_zero, List.getElem?_cons_succ, Option.some.injEq] at h1 h2 h3
          subst h1 h2 h3
          exact h.1
        | succ i =>
          simp only [List.getElem?_cons_succ] at h1 h2 h3
          exact ih (y :: xs) h.2 i g a b h1 h2 h3

theorem spacing_nonneg (o : ROpts) (hns : 0 ≤ o.nodeSpacing) (hls : 0 ≤ o.lineSpacing) (a b : LItem) :
    0 ≤ spacing o a b := by
  unfold spacing; split <;> assumption

/-- left edges hardly decrease along a separated layer -/
theorem left_edges (o : ROpts) (e : ℚ) (he : 0 ≤ e) (hns : 0 ≤ o.nodeSpacing) (hls : 0 ≤ o.lineSpacing) :
    ∀ (L : List (LItem × ℚ)) (B : ℚ), sepAdjB o e L = true → (∀ p ∈ L, 0 ≤ p.1.width) →
    (∀ p, L.head? = some p → B ≤ p.2 - p.1.width / 2) →
    ∀ p ∈ L, B - e * (L.length : ℚ) + e ≤ p.2 - p.1.width / 2 := by
  intro L
  induction L with
  | nil => intro B _ _ _ p hp; cases hp
  | cons a rest ih =>
    intro B hs hw hh p hp
    have ha := hh a rfl
    have hlen : ((a :: rest).length : ℚ) = (rest.length : ℚ) + 1 := by
      rw [List.length_cons]; push_cast; ring
    have hn : (0 : ℚ) ≤ e * (rest.length : ℚ) := mul_nonneg he (Nat.cast_nonneg _)
    rw [hlen]
    rcases List.mem_cons.1 hp with rfl | hp
    · nlinarith
    · cases rest with
      | nil => cases hp
      | cons b rest' =>
        have hs' := hs
        simp only [sepAdjB, Bool.and_eq_true, decide_eq_true_eq] at hs'
        obtain ⟨⟨_, hgap⟩, hrest⟩ := hs'
        have hsp := spacing_nonneg o hns hls a.1 b.1
        have hwa := hw a (by simp)
        unfold gap at hgap
        rw [halfDivisor_eq'] at hgap
        have hb : B - e ≤ b.2 - b.1.width / 2 := by linarith
        have := ih (B - e) hrest (fun q hq => hw q (by simp [hq]))
          (by intro q hq; simp only [List.head?_cons, Option.some.injEq] at hq; subst hq; exact hb) p hp
        linarith

/-- right edges hardly increase backwards along a separated layer -/
theorem right_edges (o : ROpts) (e : ℚ) (he : 0 ≤ e) (hns : 0 ≤ o.nodeSpacing) (hls : 0 ≤ o.lineSpacing) :
    ∀ (L : List (LItem × ℚ)) (C : ℚ), sepAdjB o e L = true → (∀ p ∈ L, 0 ≤ p.1.width) →
    (∀ p, L.getLast? = some p → p.2 + p.1.width / 2 ≤ C) →
    ∀ p ∈ L, p.2 + p.1.width / 2 ≤ C + e * (L.length : ℚ) - e := by
  intro L
  induction L with
  | nil => intro C _ _ _ p hp; cases hp
  | cons a rest ih =>
    intro C hs hw hh p hp
    have hlen : ((a :: rest).length : ℚ) = (rest.length : ℚ) + 1 := by
      rw [List.length_cons]; push_cast; ring
    rw [hlen]
    cases rest with
    | nil =>
      simp only [List.mem_singleton] at hp
      subst hp
      have := hh p rfl
      simp only [List.length_nil, Nat.cast_zero]
      linarith
    | cons b rest' =>
      have hs' := hs
      simp only [sepAdjB, Bool.and_eq_true, decide_eq_true_eq] at hs'
      obtain ⟨⟨_, hgap⟩, hrest⟩ := hs'
      have hsp := spacing_nonneg o hns hls a.1 b.1
      have hwb := hw b (by simp)
      unfold gap at hgap
      rw [halfDivisor_eq'] at hgap
      have hih := ih C hrest (fun q hq => hw q (by simp [hq]))
        (by intro q hq; exact hh q (by rw [List.getLast?_cons_cons]; exact hq))
      rcases List.mem_cons.1 hp with rfl | hp
      · have := hih b (by simp)
        linarith
      · have := hih p hp
        linarith

theorem insideB_iff (o : ROpts) (tol : ℚ) (l : List (LItem × ℚ)) :
    insideB o tol l = true ↔
      (∀ a, o.minPos = some a → ∀ p ∈ l, a - tol ≤ p.2 - p.1.width / 2) ∧
      (∀ b, o.maxPos = some b → ∀ p ∈ l, p.2 + p.1.width / 2 ≤ b + tol) := by
  unfold insideB
  rw [List.all_eq_true]
  constructor
  · intro h
    refine ⟨fun a ha p hp => ?_, fun b hb p hp => ?_⟩
    · have := h p hp
      rw [ha] at this
      simp only [Bool.and_eq_true, decide_eq_true_eq] at this
      exact this.1
    · have := h p hp
      rw [hb] at this
      simp only [Bool.and_eq_true, decide_eq_true_eq] at this
      exact this.2
  · rintro ⟨h1, h2⟩ p hp
    rw [Bool.and_eq_true]
    constructor
    · cases ha : o.minPos with
      | none => rfl
      | some a => simpa using h1 a ha p hp
    · cases hb : o.maxPos with
      | none => rfl
      | some b => simpa using h2 b hb p hp

/-- rounding moves an item by at most one half -/
theorem insideB_round (o : ROpts) (tol : ℚ) (its : List LItem) (xs : List ℚ)
    (h : insideB o tol (its.zip xs) = true) :
    insideB o (tol + 1 / 2) (its.zip (xs.map (fun x => ((roundHalfEven x : Int) : ℚ)))) = true := by
  rw [insideB_iff] at h ⊢
  have key : ∀ p ∈ its.zip (xs.map (fun x => ((roundHalfEven x : Int) : ℚ))),
      ∃ q ∈ its.zip xs, q.1 = p.1 ∧ p.2 = ((roundHalfEven q.2 : Int) : ℚ) := by
    intro p hp
    rw [List.zip_map_right, List.mem_map] at hp
    obtain ⟨q, hq, rfl⟩ := hp
    exact ⟨q, hq, rfl, rfl⟩
  refine ⟨fun a ha p hp => ?_, fun b hb p hp => ?_⟩
  · obtain ⟨q, hq, e1, e2⟩ := key p hp
    have := h.1 a ha q hq
    have hr := abs_le.mp (round_close' q.2)
    rw [e2, ← e1]; linarith [hr.1]
  · obtain ⟨q, hq, e1, e2⟩ := key p hp
    have := h.2 b hb q hq
    have hr := abs_le.mp (round_close' q.2)
    rw [e2, ← e1]; linarith [hr.2]

theorem sq_le_of_wall {W x d : ℚ} (hW : 0 < W) (hd : 0 ≤ d) (h : W * x * x ≤ W * d * d) : -d ≤ x ∧ x ≤ d := by
  have h' : x * x ≤ d * d := by
    have : W * (x * x) ≤ W * (d * d) := by linarith [mul_assoc W x x, mul_assoc W d d]
    exact le_of_mul_le_mul_left this hW
  constructor
  · by_contra hc
    have hc' := not_le.mp hc
    nlinarith
  · by_contra hc
    have hc' := not_le.mp hc
    nlinarith

/-- **C03 on the solver's own positions, each bound optional**: if some placement `zs` keeps all gaps with the walls exactly at the
bounds (the items fit) and costs `K = Σ (zᵢ − tᵢ)² ≤ W·d²`, every item lies inside the bounds up to `d + n·eps` -/
theorem inside_unrounded (o : ROpts) (its : List LItem) (h : its ≠ [])
    (hs : its.Pairwise (fun a b => a.target ≤ b.target))
    (hw : ∀ i ∈ its, 0 ≤ i.width) (hns : 0 ≤ o.nodeSpacing) (hls : 0 ≤ o.lineSpacing)
    (zs : List ℚ) (hz : zs.length = its.length)
    (hfeas : SepBy 0 (chainGaps o its) ((leftWall o).map (·.t) ++ zs ++ (rightWall o).map (·.t)))
    (d : ℚ) (hd : 0 ≤ d) (hK : cost (its.map toVar) zs ≤ Gen.wallWeight * d * d) :
    insideB o (d + (its.length : ℚ) * Layout.eps) (its.zip (solveSorted o its)) = true := by
  rw [insideB_iff]
  have hsep := sep_unrounded' o its hs
  have hwL : ∀ p ∈ its.zip (solveSorted o its), 0 ≤ p.1.width := fun p hp => hw p.1 (List.of_mem_zip hp).1
  have hxl := solveSorted_length' o its h
  have hlenL : (its.zip (solveSorted o its)).length = its.length := by simp [hxl]
  have hcost := walls_cost_le o its h zs hz hfeas
  have hall := solve_feasible' Layout.eps eps_nonneg' (chainVars o its) (chainGaps o its) (chainVars_pos o its)
  have hal := solve_length' Layout.eps (chainVars o its) (chainGaps o its) (chain_lengths o h)
  rw [chainVars_length] at hal
  have hxs : solveSorted o its
      = ((solve Layout.eps (chainVars o its) (chainGaps o its)).drop (leftWall o).length).take its.length := rfl
  generalize solve Layout.eps (chainVars o its) (chainGaps o its) = all at *
  have hc1 := cost_nonneg (leftWall_nonneg o) (all.take (leftWall o).length)
  have hc2 := cost_nonneg (rightWall_nonneg o) (all.drop ((leftWall o).length + its.length))
  have hn : 0 < its.length := List.length_pos_iff.mpr h
  constructor
  · intro lo hlo p hp
    have hlw : leftWall o = [({ w := Gen.wallWeight, t := lo } : Item)] := by simp [leftWall, hlo]
    rw [hlw] at hal hxs hc1 hc2 hcost
    simp only [List.length_singleton] at hal hxs hc1 hc2 hcost
    obtain ⟨x0, x1, tl, rfl⟩ : ∃ x0 x1 tl, all = x0 :: x1 :: tl := by
      match all, hal with
      | [], hal => simp at hal; omega
      | [_], hal => simp at hal; omega
      | x0 :: x1 :: tl, _ => exact ⟨x0, x1, tl, rfl⟩
    obtain ⟨f, rest, rfl⟩ : ∃ f rest, its = f :: rest := by
      cases its with
      | nil => exact absurd rfl h
      | cons f rest => exact ⟨f, rest, rfl⟩
    have hG : chainGaps o (f :: rest) = (f.width / 2) :: (gaps o (f :: rest) ++ rightGap o (f :: rest)) := by
      simp [chainGaps, leftGap, hlo, halfDivisor_eq']
    rw [hG] at hall
    have h01 : f.width / 2 - Layout.eps ≤ x1 - x0 := hall.1
    simp only [List.take_succ_cons, List.take_zero, cost_cons] at hcost hc1
    have hc0 : cost [] ([] : List ℚ) = 0 := by simp [cost]
    rw [hc0] at hcost hc1
    have hx0 := (sq_le_of_wall wallWeight_pos' hd (by linarith : Gen.wallWeight * (x0 - lo) * (x0 - lo) ≤ Gen.wallWeight * d * d)).1
    have hxs' : solveSorted o (f :: rest) = x1 :: tl.take rest.length := by
      rw [hxs]; simp
    rw [hxs'] at hsep hwL hp hlenL
    have := left_edges o Layout.eps eps_nonneg' hns hls _ (lo - d - Layout.eps) hsep hwL
      (by
        intro q hq
        simp only [List.zip_cons_cons, List.head?_cons, Option.some.injEq] at hq
        subst hq
        simp only
        linarith) p hp
    rw [hlenL] at this
    linarith
  · intro hi hhi p hp
    have hrw : rightWall o = [({ w := Gen.wallWeight, t := hi } : Item)] := by simp [rightWall, hhi]
    rw [hrw] at hal hc2 hcost
    simp only [List.length_singleton] at hal
    -- the last two entries of the chain
    have hlast : ∃ y xr, all[(leftWall o).length + its.length - 1]? = some y ∧
        all[(leftWall o).length + its.length - 1 + 1]? = some xr ∧
        all.drop ((leftWall o).length + its.length) = [xr] := by
      have h1 : (leftWall o).length + its.length - 1 < all.length := by omega
      have h2 : (leftWall o).length + its.length - 1 + 1 < all.length := by omega
      refine ⟨all[(leftWall o).length + its.length - 1], all[(leftWall o).length + its.length - 1 + 1],
        List.getElem?_eq_getElem h1, List.getElem?_eq_getElem h2, ?_⟩
      have h3 : (leftWall o).length + its.length - 1 + 1 = (leftWall o).length + its.length := by omega
      apply List.ext_getElem
      · simp; omega
      · intro i hi1 hi2
        simp only [List.length_singleton] at hi2
        have : i = 0 := by omega
        subst this
        simp [h3]
    obtain ⟨y, xr, hy, hxr, hdrop⟩ := hlast
    rw [hdrop] at hcost hc2
    obtain ⟨l, hl⟩ : ∃ l, its.getLast? = some l := by
      cases hgl : its.getLast? with
      | none => exact absurd (List.getLast?_eq_none_iff.mp hgl) h
      | some l => exact ⟨l, rfl⟩
    have hG : (chainGaps o its)[(leftWall o).length + its.length - 1]? = some (l.width / 2) := by
      have hlg : (leftGap o its ++ gaps o its).length = (leftWall o).length + its.length - 1 := by
        rw [List.length_append, leftGap_length o h, gaps_length]; omega
      unfold chainGaps
      rw [List.getElem?_append_right (by omega), hlg]
      simp [rightGap, hhi, hl, halfDivisor_eq']
    have hyx : l.width / 2 - Layout.eps ≤ xr - y := SepBy_getElem? _ _ hall _ _ _ _ hG hy hxr
    simp only [cost_cons] at hcost hc2
    have hc0 : cost [] ([] : List ℚ) = 0 := by simp [cost]
    rw [hc0] at hcost hc2
    have hxr' := (sq_le_of_wall wallWeight_pos' hd (by linarith : Gen.wallWeight * (xr - hi) * (xr - hi) ≤ Gen.wallWeight * d * d)).2
    have := right_edges o Layout.eps eps_nonneg' hns hls _ (hi + d + Layout.eps) hsep hwL
      (by
        intro q hq
        rw [List.getLast?_eq_getElem?, hlenL] at hq
        rw [List.getElem?_zip_eq_some] at hq
        obtain ⟨hq1, hq2⟩ := hq
        have e1 : q.1 = l := by
          rw [List.getLast?_eq_getElem?] at hl
          rw [hl] at hq1
          exact (Option.some.inj hq1).symm
        have e2 : q.2 = y := by
          rw [hxs, List.getElem?_take_of_lt (by omega), List.getElem?_drop] at hq2
          have h4 : (leftWall o).length + (its.length - 1) = (leftWall o).length + its.length - 1 := by omega
          rw [h4, hy] at hq2
          exact (Option.some.inj hq2).symm
        rw [e1, e2]
        linarith) p hp
    rw [hlenL] at this
    linarith

/-! ### `removeOverlap` in terms of its sorted item list -/

theorem solveSorted_nil (o : ROpts) : solveSorted o [] = [] := by
  simp [solveSorted]

theorem removeOverlap_pos_eq (o : ROpts) (items : List LItem) :
    (removeOverlap o items).pos.map (fun (p : Int) => (p : ℚ))
      = (solveSorted o ((sortItems items.zipIdx).map (·.1))).map (fun x => ((roundHalfEven x : Int) : ℚ)) := by
  simp only [removeOverlap]
  split
  · rename_i hemp
    rw [List.isEmpty_iff] at hemp
    rw [hemp, solveSorted_nil]; rfl
  · simp only [List.map_map]; rfl

theorem zip_solveSorted_fst (o : ROpts) (S : List LItem) (f : ℚ → ℚ) :
    (S.zip ((solveSorted o S).map f)).map (·.1) = S := by
  by_cases h : S = []
  · subst h; rfl
  · rw [List.map_fst_zip]
    rw [List.length_map, solveSorted_length' o S h]

theorem zip_solveSorted_snd (o : ROpts) (S : List LItem) (f : ℚ → ℚ) :
    (S.zip ((solveSorted o S).map f)).map (·.2) = (solveSorted o S).map f := by
  by_cases h : S = []
  · subst h; simp [solveSorted_nil]
  · rw [List.map_snd_zip]
    rw [List.length_map, solveSorted_length' o S h]

theorem forall₂_zip_round (its : List LItem) (xs : List ℚ) (h : its.length = xs.length) :
    List.Forall₂ (fun (p : LItem × ℚ) x => |p.2 - x| ≤ 1 / 2)
      (its.zip (xs.map (fun x => ((roundHalfEven x : Int) : ℚ)))) xs := by
  induction its generalizing xs with
  | nil =>
    cases xs with
    | nil => exact List.Forall₂.nil
    | cons x xs => simp at h
  | cons a its ih =>
    cases xs with
    | nil => simp at h
    | cons x xs =>
      simp only [List.map_cons, List.zip_cons_cons]
      exact List.Forall₂.cons (round_close' x) (ih xs (by simpa using h))

theorem layerItem_width_nonneg (o : FOpts) (labels : List Label) (hw : ∀ l ∈ labels, 0 ≤ l.width)
    (hsw : 0 ≤ o.stubWidth) (prev : Option (List Placed)) (r : Ref) : 0 ≤ (layerItem o labels prev r).width := by
  simp only [layerItem]
  split
  · exact hsw
  · unfold widthOf
    cases hl : labels[r.id]? with
    | none => simp
    | some l => simpa using hw l (List.mem_of_getElem? hl)

theorem sorted_width_nonneg (o : FOpts) (labels : List Label) (hw : ∀ l ∈ labels, 0 ≤ l.width)
    (hsw : 0 ≤ o.stubWidth) (j : Nat) :
    ∀ i ∈ (sortItems (layerItems o labels j).zipIdx).map (·.1), 0 ≤ i.width := by
  intro i hi
  have := (sortItems_map_fst_perm (layerItems o labels j)).subset hi
  unfold layerItems at this
  obtain ⟨r, _, rfl⟩ := List.mem_map.1 this
  exact layerItem_width_nonneg o labels hw hsw _ r

/-! ### "the items fit" (`fitsB`) is exactly: some placement keeps every gap with the walls at the bounds -/

theorem prefixSums_head? (s : ℚ) (gs : List ℚ) : (prefixSums s gs).head? = some s := by
  obtain ⟨t, ht⟩ := prefixSums_cons s gs
  rw [ht]; rfl

theorem prefixSums_getLast? (s : ℚ) (gs : List ℚ) : (prefixSums s gs).getLast? = some (s + gs.sum) := by
  induction gs generalizing s with
  | nil => simp [prefixSums]
  | cons g gs ih =>
    obtain ⟨t, ht⟩ := prefixSums_cons (s + g) gs
    have := ih (s + g)
    rw [ht] at this
    simp only [prefixSums, ht, List.getLast?_cons_cons, this, List.sum_cons]
    congr 1; ring

theorem SepBy_prefixSums (s : ℚ) (gs : List ℚ) : SepBy 0 gs (prefixSums s gs) := by
  induction gs generalizing s with
  | nil => exact SepBy_nil_left _ _
  | cons g gs ih =>
    obtain ⟨t, ht⟩ := prefixSums_cons (s + g) gs
    have := ih (s + g)
    rw [ht] at this
    simp only [prefixSums, ht, SepBy]
    exact ⟨by linarith, this⟩

theorem SepBy_cons_of {e g a : ℚ} {gs xs : List ℚ} (h1 : ∀ b, xs.head? = some b → g - e ≤ b - a)
    (h2 : SepBy e gs xs) : SepBy e (g :: gs) (a :: xs) := by
  cases xs with
  | nil => exact SepBy_single _ _ _
  | cons b xs => exact ⟨h1 b rfl, h2⟩

theorem SepBy_concat_of {e g y : ℚ} : ∀ {gs xs : List ℚ}, gs.length + 1 = xs.length → SepBy e gs xs →
    (∀ b, xs.getLast? = some b → g - e ≤ y - b) → SepBy e (gs ++ [g]) (xs ++ [y]) := by
  intro gs
  induction gs with
  | nil =>
    intro xs hl _ h
    match xs, hl with
    | [b], _ => exact ⟨h b rfl, trivial⟩
  | cons g' gs ih =>
    intro xs hl hs h
    match xs, hl, hs, h with
    | a :: b :: xs, hl, hs, h =>
      simp only [List.cons_append, SepBy]
      refine ⟨hs.1, ?_⟩
      have := ih (xs := b :: xs) (by simpa using hl) hs.2 (by
        intro c hc; exact h c (by rw [List.getLast?_cons_cons]; exact hc))
      simpa using this

theorem SepBy_sum_le : ∀ (gs xs : List ℚ), SepBy 0 gs xs → gs.length + 1 = xs.length →
    ∀ a b, xs.head? = some a → xs.getLast? = some b → gs.sum ≤ b - a := by
  intro gs
  induction gs with
  | nil =>
    intro xs _ hl a b ha hb
    match xs, hl, ha, hb with
    | [c], _, ha, hb =>
      simp only [List.head?_cons, List.getLast?_singleton, Option.some.injEq] at ha hb
      subst ha hb; simp
  | cons g gs ih =>
    intro xs hs hl a b ha hb
    match xs, hl, hs, ha, hb with
    | c :: c' :: xs, hl, hs, ha, hb =>
      simp only [List.head?_cons, Option.some.injEq] at ha
      subst ha
      rw [List.getLast?_cons_cons] at hb
      have := ih (c' :: xs) hs.2 (by simpa using hl) c' b rfl hb
      have h1 := hs.1
      simp only [List.sum_cons]
      linarith

/-- the placement that packs the items as tightly as the gaps allow, starting at `s` -/
def packedFrom (o : ROpts) (s : ℚ) (its : List LItem) : List ℚ := prefixSums s (gaps o its)

theorem packedFrom_length (o : ROpts) (s : ℚ) {its : List LItem} (h : its ≠ []) :
    (packedFrom o s its).length = its.length := by
  have : 0 < its.length := List.length_pos_iff.mpr h
  unfold packedFrom
  rw [prefixSums_length, gaps_length]; omega

/-- **the items fit iff some placement keeps every gap with the walls standing exactly at the bounds** -/
theorem fitsB_iff_feasible (o : ROpts) (its : List LItem) (h : its ≠ []) :
    fitsB o its = true ↔ ∃ zs : List ℚ, zs.length = its.length ∧
      SepBy 0 (chainGaps o its) ((leftWall o).map (·.t) ++ zs ++ (rightWall o).map (·.t)) := by
  obtain ⟨f, hf⟩ : ∃ f, its.head? = some f := by
    cases its with
    | nil => exact absurd rfl h
    | cons f rest => exact ⟨f, rfl⟩
  obtain ⟨l, hl⟩ : ∃ l, its.getLast? = some l := by
    cases hgl : its.getLast? with
    | none => exact absurd (List.getLast?_eq_none_iff.mp hgl) h
    | some l => exact ⟨l, rfl⟩
  have hgl := gaps_length o its
  have hn : 0 < its.length := List.length_pos_iff.mpr h
  cases hlo : o.minPos with
  | none =>
    cases hhi : o.maxPos with
    | none =>
      have e : fitsB o its = true := by simp [fitsB, hlo]
      simp only [e, true_iff]
      refine ⟨packedFrom o 0 its, packedFrom_length o 0 h, ?_⟩
      simp only [chainGaps, leftGap, rightGap, leftWall, rightWall, hlo, hhi, List.map_nil, List.nil_append,
        List.append_nil]
      exact SepBy_prefixSums _ _
    | some hi =>
      have e : fitsB o its = true := by simp [fitsB, hlo]
      simp only [e, true_iff]
      refine ⟨packedFrom o (hi - l.width / 2 - (gaps o its).sum) its, packedFrom_length o _ h, ?_⟩
      simp only [chainGaps, leftGap, rightGap, leftWall, rightWall, hlo, hhi, hl, List.map_nil, List.nil_append,
        List.map_cons, halfDivisor_eq']
      apply SepBy_concat_of
      · unfold packedFrom; rw [prefixSums_length]
      · exact SepBy_prefixSums _ _
      · intro b hb
        unfold packedFrom at hb
        rw [prefixSums_getLast?] at hb
        have := Option.some.inj hb
        linarith
  | some lo =>
    cases hhi : o.maxPos with
    | none =>
      have e : fitsB o its = true := by simp [fitsB, hlo, hhi]
      simp only [e, true_iff]
      refine ⟨packedFrom o (lo + f.width / 2) its, packedFrom_length o _ h, ?_⟩
      simp only [chainGaps, leftGap, rightGap, leftWall, rightWall, hlo, hhi, hf, List.map_nil, List.append_nil,
        List.map_cons, halfDivisor_eq', List.singleton_append]
      apply SepBy_cons_of
      · intro b hb
        unfold packedFrom at hb
        rw [prefixSums_head?] at hb
        have := Option.some.inj hb
        linarith
      · exact SepBy_prefixSums _ _
    | some hi =>
      have e : fitsB o its = decide (neededWidth o its ≤ hi - lo) := by simp [fitsB, hlo, hhi]
      have enw : neededWidth o its = (gaps o its).sum + f.width / 2 + l.width / 2 := by
        simp [neededWidth, hf, hl]
      rw [e, decide_eq_true_eq, enw]
      simp only [chainGaps, leftGap, rightGap, leftWall, rightWall, hlo, hhi, hf, hl,
        List.map_cons, List.map_nil, halfDivisor_eq', List.cons_append, List.nil_append]
      constructor
      · intro hfit
        refine ⟨packedFrom o (lo + f.width / 2) its, packedFrom_length o _ h, ?_⟩
        apply SepBy_cons_of
        · intro b hb
          have hpl := packedFrom_length o (lo + f.width / 2) h
          unfold packedFrom at hb hpl
          obtain ⟨t, ht⟩ := prefixSums_cons (lo + f.width / 2) (gaps o its)
          rw [ht] at hb
          simp only [List.cons_append, List.head?_cons, Option.some.injEq] at hb
          linarith
        · apply SepBy_concat_of
          · unfold packedFrom; rw [prefixSums_length]
          · exact SepBy_prefixSums _ _
          · intro b hb
            unfold packedFrom at hb
            rw [prefixSums_getLast?] at hb
            have := Option.some.inj hb
            linarith
      · rintro ⟨zs, hz, hs⟩
        have := SepBy_sum_le _ _ hs (by simp [hgl, hz]; omega) lo hi rfl (by rw [List.getLast?_cons, List.getLast?_concat]; rfl)
        simp only [List.sum_cons, List.sum_append, List.sum_nil] at this
        linarith

end Labella.Layout

namespace Labella.EngineT
open Labella Labella.Layout

/-! ### the pure observation, layer by layer -/

theorem observePure_getElem? (o : FOpts) (labels : List Label) (datas : List Nat) (L : List (List Placed)) (j : Nat) :
    (observePure o labels datas L)[j]? = L[j]?.map (List.map (obsP o labels datas j)) := by
  rw [observePure_eq, List.getElem?_map, List.getElem?_zipIdx]
  cases L[j]? <;> simp

theorem find?_congr_mem {α : Type} {p q : α → Bool} : ∀ (l : List α), (∀ a ∈ l, p a = q a) → l.find? p = l.find? q := by
  intro l
  induction l with
  | nil => intro _; rfl
  | cons a t ih =>
    intro h
    simp only [List.find?_cons, h a (by simp)]
    rw [ih (fun b hb => h b (by simp [hb]))]

/-- looking an item up in the previous observed layer by its payload finds the stand-in the pure model finds by label id
(payloads of distinct labels are distinct) -/
theorem find_data_pure (o : FOpts) (labels : List Label) (datas : List Nat) (hnd : datas.Nodup) (lvl lvl' : Nat)
    (ps : List Placed) (pl : Placed) (hps : ∀ p ∈ ps, p.ref.id < datas.length) (hpl : pl.ref.id < datas.length) :
    ((ps.map (obsP o labels datas lvl)).find? (fun y => y.data == (obsP o labels datas lvl' pl).data)).map (·.pos)
      = (ps.find? (fun p => p.ref.id == pl.ref.id)).map (fun p => (p.pos : ℚ)) := by
  rw [List.find?_map, Option.map_map]
  have hc : ps.find? ((fun y => y.data == (obsP o labels datas lvl' pl).data) ∘ obsP o labels datas lvl)
      = ps.find? (fun p => p.ref.id == pl.ref.id) := by
    apply find?_congr_mem
    intro p hp
    have h1 := hps p hp
    simp only [Function.comp, obsP, List.getD, List.getElem?_eq_getElem h1, List.getElem?_eq_getElem hpl,
      Option.getD_some]
    rw [Bool.eq_iff_iff]
    simp only [beq_iff_eq]
    exact hnd.getElem_inj_iff
  rw [hc]
  rfl

theorem observePure_data_mem (o : FOpts) (labels : List Label) (datas : List Nat) (L : List (List Placed))
    (hid : ∀ layer ∈ L, ∀ p ∈ layer, p.ref.id < datas.length) :
    ∀ l ∈ observePure o labels datas L, ∀ x ∈ l, x.data ∈ datas := by
  intro l hl x hx
  obtain ⟨j, hj, e⟩ := List.mem_iff_getElem.1 hl
  have hget : (observePure o labels datas L)[j]? = some l := by rw [List.getElem?_eq_getElem hj, e]
  rw [observePure_getElem?] at hget
  cases hL : L[j]? with
  | none => rw [hL] at hget; simp at hget
  | some layer =>
    rw [hL] at hget
    simp only [Option.map_some, Option.some.injEq] at hget
    subst hget
    obtain ⟨pl, hpl, rfl⟩ := List.mem_map.1 hx
    have hlt := hid layer (List.mem_of_getElem? hL) pl hpl
    simp only [obsP, List.getD, List.getElem?_eq_getElem hlt, Option.getD_some]
    exact List.getElem_mem hlt

/-- renaming payloads by a map that separates the payloads present does not change what a lookup by payload finds -/
theorem find_data_relabel (g : Nat → Nat) (ps : List ObsT) (x : ObsT)
    (hinj : ∀ y ∈ ps, g y.data = g x.data → y.data = x.data) :
    ((ps.map (fun y => { y with data := g y.data })).find? (fun y => y.data == g x.data)).map (·.pos)
      = (ps.find? (fun y => y.data == x.data)).map (·.pos) := by
  rw [List.find?_map, Option.map_map]
  have hc : ps.find? ((fun y => y.data == g x.data) ∘ (fun y : ObsT => { y with data := g y.data }))
      = ps.find? (fun y => y.data == x.data) := by
    apply find?_congr_mem
    intro y hy
    simp only [Function.comp]
    rw [Bool.eq_iff_iff]
    simp only [beq_iff_eq]
    exact ⟨hinj y hy, fun h => by rw [h]⟩
  rw [hc]
  rfl

/-! ### histories: payloads identify the label nodes -/

theorem mkNode_frame (s : Store) (ideal width : Rat) (d : Nat) : Frame s (mkNode s ideal width d).1 := by
  unfold mkNode
  refine ⟨by simp, ?_, ?_, ?_, ?_⟩ <;> intro i hi
  · rw [get_push_lt _ _ _ hi]
  · rw [get_push_lt _ _ _ hi]
  · rw [get_push_lt _ _ _ hi]
  · rw [get_push_lt _ _ _ hi]; exact id

theorem freshNodes_fold_data : ∀ (ls : List Label) (acc : Store × List Nat),
    GoodN acc.1 acc.2 → (∀ i ∈ acc.2, (get acc.1 i).data = i) →
    ∀ i ∈ (ls.foldl (fun (acc : Store × List Nat) l =>
        ((mkNode acc.1 l.ideal l.width acc.1.size).1, acc.2 ++ [(mkNode acc.1 l.ideal l.width acc.1.size).2])) acc).2,
      (get (ls.foldl (fun (acc : Store × List Nat) l =>
        ((mkNode acc.1 l.ideal l.width acc.1.size).1, acc.2 ++ [(mkNode acc.1 l.ideal l.width acc.1.size).2])) acc).1 i).data = i := by
  intro ls
  induction ls with
  | nil => intro acc _ hd; exact hd
  | cons l rest ih =>
    intro acc h hd
    rw [List.foldl_cons]
    apply ih
    · exact (freshNodes_fold [l] acc h).1
    · intro i hi
      rcases List.mem_append.1 hi with hi | hi
      · simp only [mkNode]
        rw [get_push_lt _ _ _ (h.lt i hi)]
        exact hd i hi
      · simp only [List.mem_singleton] at hi
        subst hi
        simp only [mkNode]
        rw [get_push_size]

/-- what every reachable world satisfies: the engine's nodes and the last batch of node objects are good, the engine's nodes
are among the last batch, and the payload of each of them is its own identity (so distinct labels carry distinct payloads) -/
structure WInv (w : World) : Prop where
  nodes : GoodN w.store w.engine.nodes
  last : GoodN w.store w.last
  sub : ∀ i ∈ w.engine.nodes, i ∈ w.last
  data : ∀ i ∈ w.last, (get w.store i).data = i

theorem WInv.step {w : World} (h : WInv w) (op : Op) : WInv (w.step op) := by
  cases op with
  | newEngine o => exact ⟨GoodN.nil _, h.last, (by intro i hi; cases hi), h.data⟩
  | setOptions o => exact ⟨h.nodes, h.last, h.sub, h.data⟩
  | freshNodes ls =>
    simp only [World.step]
    split
    · exact h
    · have a := (freshNodes_fold ls (w.store, []) (GoodN.nil _)).1
      have d := freshNodes_fold_data ls (w.store, []) (GoodN.nil _) (by intro i hi; cases hi)
      exact ⟨a, a, fun i hi => hi, d⟩
  | sameNodes =>
    simp only [World.step]
    split
    · exact h
    · exact ⟨h.last, h.last, fun i hi => hi, h.data⟩
  | compute =>
    have hf := computeT_frame w.engine w.store
    refine ⟨computeT_goodN _ _ h.nodes, h.last.frame hf, ?_, ?_⟩
    · intro i hi
      exact h.sub i ((computeT_nodes w.engine w.store).1.subset hi)
    · intro i hi
      exact (hf.data i (h.last.lt i hi)).trans (h.data i hi)

theorem world_inv (ops : List Op) : WInv (World.run ops) := by
  unfold World.run
  have key : ∀ (ops : List Op) (w : World), WInv w → WInv (ops.foldl World.step w) := by
    intro ops
    induction ops with
    | nil => intro w h; exact h
    | cons op rest ih => intro w h; rw [List.foldl_cons]; exact ih _ (h.step op)
  exact key ops World.init ⟨GoodN.nil _, GoodN.nil _, (by intro i hi; cases hi), (by intro i hi; cases hi)⟩

theorem WInv.datas_eq {w : World} (h : WInv w) :
    w.engine.nodes.map (fun i => (get w.store i).data) = w.engine.nodes := by
  conv_rhs => rw [← List.map_id w.engine.nodes]
  apply List.map_congr_left
  intro i hi
  exact h.data i (h.sub i hi)

theorem WInv.datas_nodup {w : World} (h : WInv w) :
    (w.engine.nodes.map (fun i => (get w.store i).data)).Nodup := by
  rw [h.datas_eq]; exact h.nodes.nodup

end Labella.EngineT
