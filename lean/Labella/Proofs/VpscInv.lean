import Labella.Model.Vpsc
import Mathlib.Logic.Relation
/-! # Invariants of the transliterated VPSC solver (`Model/Vpsc.lean`)

Definitions only (the statements the C05 feasibility theorem is built from); lemmas live in `Proofs/Vpsc*.lean`.

* `Frame st st'`  — what every operation of the solver preserves: the problem data (desired positions, weights,
  scales, adjacency lists, constraint ends and gaps), the sizes of the stores, and a raised `err` flag;
* `CoreEq st st'` — operations that touch only multipliers, position statistics and the block list;
* `Inv st`        — the structural invariant: active constraints are tight in their offsets, blocks are exactly the
  connected components of the graph of active constraints, that graph is a forest (every active constraint is a
  bridge), and a block's `vars` list holds exactly the variables whose `block` field names it;
* `Covered st x`  — every constraint other than `x` is active, flagged unsatisfiable, or listed in `inactive`;
* `Feasible st`   — every constraint not flagged unsatisfiable has slack `≥ ZERO_UPPERBOUND`. -/
namespace Labella.Vpsc

/-- `u` and `v` are the two ends of an active constraint other than `x` -/
def Adj (st : St) (x : Option Nat) (u v : Nat) : Prop :=
  ∃ ci, ci < st.cs.size ∧ some ci ≠ x ∧ (getC st ci).active = true ∧
    (((getC st ci).l = u ∧ (getC st ci).r = v) ∨ ((getC st ci).l = v ∧ (getC st ci).r = u))

/-- connected by active constraints other than `x` -/
def Conn (st : St) (x : Option Nat) : Nat → Nat → Prop := Relation.ReflTransGen (Adj st x)

structure Frame (st st' : St) : Prop where
  vsize : st'.vs.size = st.vs.size
  csize : st'.cs.size = st.cs.size
  bsize : st.bs.size ≤ st'.bs.size
  vstat : ∀ i, (getV st' i).d = (getV st i).d ∧ (getV st' i).w = (getV st i).w ∧ (getV st' i).s = (getV st i).s ∧
    (getV st' i).cOut = (getV st i).cOut ∧ (getV st' i).cIn = (getV st i).cIn
  cstat : ∀ i, (getC st' i).l = (getC st i).l ∧ (getC st' i).r = (getC st i).r ∧ (getC st' i).g = (getC st i).g
  errmono : st.err = true → st'.err = true

structure CoreEq (st st' : St) : Prop extends Frame st st' where
  vs_eq : st'.vs = st.vs
  inactive_eq : st'.inactive = st.inactive
  flags : ∀ i, (getC st' i).active = (getC st i).active ∧ (getC st' i).unsat = (getC st i).unsat
  bvars : ∀ b, (getB st' b).vars = (getB st b).vars

/-- well-formedness of the problem data and of the index fields -/
structure WF (st : St) : Prop where
  lr : ∀ ci, ci < st.cs.size → (getC st ci).l < st.vs.size ∧ (getC st ci).r < st.vs.size
  out_mem : ∀ ci, ci < st.cs.size → ci ∈ (getV st (getC st ci).l).cOut
  in_mem : ∀ ci, ci < st.cs.size → ci ∈ (getV st (getC st ci).r).cIn
  out_sound : ∀ v, v < st.vs.size → ∀ ci ∈ (getV st v).cOut, ci < st.cs.size ∧ (getC st ci).l = v
  in_sound : ∀ v, v < st.vs.size → ∀ ci ∈ (getV st v).cIn, ci < st.cs.size ∧ (getC st ci).r = v
  scale_ne : ∀ v, v < st.vs.size → (getV st v).s ≠ 0
  block_lt : ∀ v, v < st.vs.size → (getV st v).block < st.bs.size
  inactive_lt : ∀ ci ∈ st.inactive.toList, ci < st.cs.size

structure Inv (st : St) : Prop where
  wf : WF st
  /-- an active constraint is tight in the offsets of its two ends -/
  tight : ∀ ci, ci < st.cs.size → (getC st ci).active = true →
    (getV st (getC st ci).r).offset - (getV st (getC st ci).l).offset = (getC st ci).g
  /-- two variables carry the same block id iff active constraints connect them -/
  comps : ∀ u v, u < st.vs.size → v < st.vs.size →
    ((getV st u).block = (getV st v).block ↔ Conn st none u v)
  /-- every active constraint is a bridge: the active graph is a forest -/
  forest : ∀ ci, ci < st.cs.size → (getC st ci).active = true →
    ¬ Conn st (some ci) (getC st ci).l (getC st ci).r
  /-- the `vars` list of a block that some variable points to holds exactly the variables pointing to it -/
  members : ∀ v, v < st.vs.size → ∀ u,
    (u ∈ (getB st (getV st v).block).vars ↔ (u < st.vs.size ∧ (getV st u).block = (getV st v).block))

def Covered (st : St) (x : Option Nat) : Prop :=
  ∀ ci, ci < st.cs.size → some ci ≠ x →
    (getC st ci).active = true ∨ (getC st ci).unsat = true ∨ ci ∈ st.inactive.toList

def Feasible (st : St) : Prop :=
  ∀ ci, ci < st.cs.size → (getC st ci).unsat = false → Gen.zeroUpperBound ≤ slack st ci

/-- the `vars` list of every block some variable points to has no duplicates (needed by `mergeAcross`, which shifts a variable once per
occurrence in the list) -/
def VarsNodup (st : St) : Prop := ∀ v, v < st.vs.size → (getB st (getV st v).block).vars.Nodup

/-- the adjacency lists hold every constraint once (`populateSplitBlock` visits a neighbour once per occurrence) -/
def AdjNodup (st : St) : Prop := ∀ v, v < st.vs.size → (getV st v).cOut.Nodup ∧ (getV st v).cIn.Nodup

/-- `Blocks._list` enumerates, without repetition, exactly the blocks some variable points to, and every listed block knows
its own index (`blockInd`) -/
structure ListInv (st : St) : Prop where
  nodup : st.list.toList.Nodup
  covers : ∀ v, v < st.vs.size → (getV st v).block ∈ st.list.toList
  inuse : ∀ b ∈ st.list.toList, ∃ v, v < st.vs.size ∧ (getV st v).block = b
  ind : ∀ k (h : k < st.list.size), (getB st st.list[k]).ind = k

/-- the three sums `PositionStats` keeps, recomputed from the variables listed in the block -/
def sumAB (st : St) (b : B) : Rat :=
  (b.vars.map (fun i => (getV st i).w * (b.scale / (getV st i).s) * ((getV st i).offset / (getV st i).s))).sum
def sumAD (st : St) (b : B) : Rat :=
  (b.vars.map (fun i => (getV st i).w * (b.scale / (getV st i).s) * (getV st i).d)).sum
def sumA2 (st : St) (b : B) : Rat :=
  (b.vars.map (fun i => (getV st i).w * (b.scale / (getV st i).s) * (b.scale / (getV st i).s))).sum

/-- the position statistics of every block in use are those of its variables, and its position is the weighted optimum -/
def StatsInv (st : St) : Prop :=
  ∀ v, v < st.vs.size →
    (getB st (getV st v).block).scale ≠ 0 ∧
    (getB st (getV st v).block).AB = sumAB st (getB st (getV st v).block) ∧
    (getB st (getV st v).block).AD = sumAD st (getB st (getV st v).block) ∧
    (getB st (getV st v).block).A2 = sumA2 st (getB st (getV st v).block) ∧
    (getB st (getV st v).block).posn = getPosn (getB st (getV st v).block)

end Labella.Vpsc
