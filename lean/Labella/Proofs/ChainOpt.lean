import Labella.Proofs.ChainLoop
import Mathlib.Tactic.NormNum
import Mathlib.Tactic.Abel
/-! optimality of the pooled solution: Abel summation against the prefix-residual invariant -/
namespace Labella.Chain

def dot (l : List (ℚ × ℚ)) : ℚ := (l.map fun p => p.1 * p.2).sum
def sumR (l : List (ℚ × ℚ)) : ℚ := (l.map Prod.snd).sum
def lastZ (z : ℚ) : List (ℚ × ℚ) → ℚ
  | [] => z
  | p :: l => lastZ p.1 l
def Mono : ℚ → List (ℚ × ℚ) → Prop
  | _, [] => True
  | z, p :: l => z ≤ p.1 ∧ Mono p.1 l

theorem abel (l : List (ℚ × ℚ)) (z c : ℚ) (hc : c ≤ 0) (hm : Mono z l)
    (hpre : ∀ k, c + sumR (l.take k) ≤ 0) :
    lastZ z l * (c + sumR l) ≤ c * z + dot l := by
  induction l generalizing z c with
  | nil => simp [lastZ, sumR, dot]; linarith [mul_comm z c]
  | cons p l ih =>
    obtain ⟨z1, r1⟩ := p
    simp only [Mono] at hm
    have hc' : c + r1 ≤ 0 := by
      have := hpre 1
      simpa [sumR] using this
    have hpre' : ∀ k, (c + r1) + sumR (l.take k) ≤ 0 := by
      intro k
      have := hpre (k + 1)
      simp only [List.take_succ_cons, sumR, List.map_cons, List.sum_cons] at this
      simp only [sumR]; linarith
    have := ih z1 (c + r1) hc' hm.2 hpre'
    simp only [lastZ, sumR, dot, List.map_cons, List.sum_cons] at *
    nlinarith [hm.1]

/-- nondecreasing list -/
def Nondecr : List ℚ → Prop
  | [] => True
  | [_] => True
  | a :: b :: l => a ≤ b ∧ Nondecr (b :: l)

theorem Nondecr.tail {a : ℚ} {l : List ℚ} (h : Nondecr (a :: l)) : Nondecr l := by
  cases l with
  | nil => trivial
  | cons b l => exact h.2

theorem Mono_of_Nondecr (z : ℚ) (zs rs : List ℚ) (h : Nondecr (z :: zs)) : Mono z (zs.zip rs) := by
  induction zs generalizing z rs with
  | nil => simp [Mono]
  | cons a zs ih =>
    cases rs with
    | nil => simp [Mono]
    | cons r rs =>
      simp only [List.zip_cons_cons, Mono]
      exact ⟨h.1, ih a rs h.2⟩

theorem Nondecr_append_left {l1 l2 : List ℚ} (h : Nondecr (l1 ++ l2)) : Nondecr l1 := by
  induction l1 with
  | nil => trivial
  | cons a l1 ih =>
    cases l1 with
    | nil => trivial
    | cons b l1 =>
      simp only [List.cons_append, Nondecr] at h ⊢
      exact ⟨h.1, ih h.2⟩

theorem Nondecr_append_right {l1 l2 : List ℚ} (h : Nondecr (l1 ++ l2)) : Nondecr l2 := by
  induction l1 with
  | nil => simpa using h
  | cons a l1 ih => exact ih (Nondecr.tail h)

/-- Σ zᵢ rᵢ ≥ 0 for nondecreasing z, prefix sums of r ≤ 0, total 0 -/
theorem abel0 (zs rs : List ℚ) (hlen : zs.length = rs.length) (hz : Nondecr zs)
    (hpre : ∀ k, (rs.take k).sum ≤ 0) (htot : rs.sum = 0) :
    0 ≤ ((zs.zip rs).map fun p => p.1 * p.2).sum := by
  cases zs with
  | nil => simp
  | cons z zs' =>
    have hsnd : ∀ (a b : List ℚ), a.length = b.length → (a.zip b).map Prod.snd = b := by
      intro a b h; exact List.map_snd_zip (by omega)
    have hm : Mono z ((z :: zs').zip rs) := by
      cases rs with
      | nil => simp [Mono]
      | cons r rs' =>
        simp only [List.zip_cons_cons, Mono]
        exact ⟨le_refl _, Mono_of_Nondecr z zs' rs' hz⟩
    have hpre' : ∀ k, (0:ℚ) + sumR (((z :: zs').zip rs).take k) ≤ 0 := by
      intro k
      have : (((z :: zs').zip rs).take k).map Prod.snd = rs.take k := by
        have : ((z :: zs').zip rs).take k = ((z :: zs').take k).zip (rs.take k) := by
          simp only [List.zip]; exact List.take_zipWith
        rw [this, List.map_snd_zip]
        simp only [List.length_take]; omega
      simp only [sumR, this, zero_add]; exact hpre k
    have h := abel ((z :: zs').zip rs) z 0 (le_refl _) hm hpre'
    have hs : sumR ((z :: zs').zip rs) = 0 := by
      simp only [sumR]; rw [hsnd _ _ hlen]; exact htot
    rw [hs] at h
    simp only [dot] at h
    linarith

def cost2 (items : List Item) (ys : List ℚ) : ℚ :=
  ((items.zip ys).map fun p => p.1.w * (p.2 - p.1.t)^2).sum

/-- weighted squared distance between two placements -/
def dist2 (items : List Item) (ys zs : List ℚ) : ℚ :=
  ((items.zip (ys.zip zs)).map fun p => p.1.w * (p.2.2 - p.2.1)^2).sum

def constCost (m : ℚ) (b : Block) : ℚ := (b.map fun i => i.w * (m - i.t)^2).sum
def sqTo (m : ℚ) (b : Block) (zs : List ℚ) : ℚ := ((b.zip zs).map fun p => p.1.w * (p.2 - m)^2).sum
def dotzr (m : ℚ) (b : Block) (zs : List ℚ) : ℚ := ((zs.zip (b.map (resid m))).map fun p => p.1 * p.2).sum

theorem cost_split (m : ℚ) (b : Block) (zs : List ℚ) (hlen : zs.length = b.length) :
    cost2 b zs = constCost m b + sqTo m b zs + 2 * dotzr m b zs - 2 * m * residSum m b := by
  induction b generalizing zs with
  | nil => simp [cost2, constCost, sqTo, dotzr, residSum]
  | cons i b ih =>
    cases zs with
    | nil => simp at hlen
    | cons z zs =>
      have := ih zs (by simpa using hlen)
      simp only [cost2, constCost, sqTo, dotzr, residSum, List.zip_cons_cons, List.map_cons, List.sum_cons] at *
      rw [this]; simp only [resid]; ring

theorem cost_const (m : ℚ) (b : Block) : cost2 b (b.map fun _ => m) = constCost m b := by
  induction b with
  | nil => simp [cost2, constCost]
  | cons i b ih =>
    simp only [cost2, constCost, List.map_cons, List.zip_cons_cons, List.sum_cons] at *
    rw [ih]

theorem dist2_const (m : ℚ) (b : Block) (zs : List ℚ) :
    dist2 b (b.map fun _ => m) zs = sqTo m b zs := by
  induction b generalizing zs with
  | nil => simp [dist2, sqTo]
  | cons i b ih =>
    cases zs with
    | nil => simp [dist2, sqTo]
    | cons z zs =>
      have := ih zs
      simp only [dist2, sqTo, List.map_cons, List.zip_cons_cons, List.sum_cons] at *
      rw [this]

theorem block_optimal {b : Block} (hb : b ≠ []) (hw : PosW b) (pm : PM b)
    (zs : List ℚ) (hlen : zs.length = b.length) (hz : Nondecr zs) :
    cost2 b (b.map fun _ => b.mean) + dist2 b (b.map fun _ => b.mean) zs ≤ cost2 b zs := by
  rw [cost_split b.mean b zs hlen, cost_const, dist2_const]
  have hpre : ∀ k, ((b.map (resid b.mean)).take k).sum ≤ 0 := by
    intro k
    have := pm k
    simpa [residSum, List.map_take] using this
  have htot : (b.map (resid b.mean)).sum = 0 := by
    have := residSum_mean hb hw
    simpa [residSum] using this
  have := abel0 zs (b.map (resid b.mean)) (by simpa using hlen) hz hpre htot
  have h0 : residSum b.mean b = 0 := residSum_mean hb hw
  simp only [dotzr, h0]
  linarith

/-- the placement produced from a block list: every item sits at its block's weighted mean -/
def expandQ (bs : List Block) : List ℚ := bs.flatMap (fun b => b.map (fun _ => b.mean))

theorem cost_append (a b : List Item) (ya yb : List ℚ) (h : ya.length = a.length) :
    cost2 (a ++ b) (ya ++ yb) = cost2 a ya + cost2 b yb := by
  simp only [cost2]
  rw [List.zip_append (by omega)]
  simp

theorem dist2_append (a b : List Item) (ya yb za zb : List ℚ) (h1 : ya.length = a.length) (h2 : za.length = a.length) :
    dist2 (a ++ b) (ya ++ yb) (za ++ zb) = dist2 a ya za + dist2 b yb zb := by
  simp only [dist2]
  rw [List.zip_append (l₁ := ya) (by omega), List.zip_append (by simp; omega)]
  simp

theorem chain_optimal {bs : List Block} (hwf : WF bs) (zs : List ℚ)
    (hlen : zs.length = bs.flatten.length) (hz : Nondecr zs) :
    cost2 bs.flatten (expandQ bs) + dist2 bs.flatten (expandQ bs) zs ≤ cost2 bs.flatten zs := by
  induction bs generalizing zs with
  | nil => simp [cost2, dist2, expandQ]
  | cons b bs ih =>
    obtain ⟨hb, hw, pm⟩ := hwf b (by simp)
    have hwf' : WF bs := fun c hc => hwf c (by simp [hc])
    rw [List.flatten_cons, List.length_append] at hlen
    have hsplit : zs = zs.take b.length ++ zs.drop b.length := (List.take_append_drop _ _).symm
    have hl1 : (zs.take b.length).length = b.length := by rw [List.length_take]; omega
    have hl2 : (zs.drop b.length).length = bs.flatten.length := by rw [List.length_drop]; omega
    have hz1 : Nondecr (zs.take b.length) := by rw [hsplit] at hz; exact Nondecr_append_left hz
    have hz2 : Nondecr (zs.drop b.length) := by rw [hsplit] at hz; exact Nondecr_append_right hz
    have e : expandQ (b :: bs) = (b.map fun _ => b.mean) ++ expandQ bs := by simp [expandQ]
    have hb1 := block_optimal hb hw pm (zs.take b.length) hl1 hz1
    have hb2 := ih hwf' (zs.drop b.length) hl2 hz2
    rw [List.flatten_cons, e]
    conv_rhs => rw [hsplit]
    conv_lhs => rw [hsplit]
    rw [cost_append _ _ _ _ (by simp), cost_append _ _ _ _ hl1,
      dist2_append _ _ _ _ _ _ (by simp) hl1]
    linarith


end Labella.Chain
