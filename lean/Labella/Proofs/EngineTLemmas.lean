import Labella.Model.EngineT
import Labella.Proofs.LayoutSep
import Labella.Proofs.DistributeLemmas
import Labella.Proofs.PermLemmas
import Labella.Proofs.EngineTPure
import Mathlib.Data.List.Basic
import Mathlib.Data.List.Nodup
import Mathlib.Data.List.Perm.Basic
/-! # Helper lemmas for C06: the stateful engine `EngineT.computeT` computes the pure `Layout.compute`

§0 store primitives, §1 `removeStub`, §2 the stub-creation loops against ghost layers of `(node id, Ref)` pairs,
§3 the pure loops are `withStubs` / `simpleLayers`, §4 `distributeT`, §5 `removeOverlapT`, §6 the per-layer loop,
§7 `computeT`, §8 histories. -/
namespace Labella.EngineT
open Labella Labella.Layout

/-! ## §0 store primitives -/

@[simp] theorem size_set (s : Store) (i : Nat) (n : N) : (set s i n).size = s.size := by
  simp [set]

theorem get_set (s : Store) (i j : Nat) (n : N) :
    get (set s i n) j = if i = j ∧ i < s.size then n else get s j := by
  unfold get set
  rw [Array.getD_eq_getD_getElem?, Array.getD_eq_getD_getElem?, Array.getElem?_setIfInBounds]
  by_cases h : i = j
  · subst h
    by_cases h2 : i < s.size
    · simp [h2]
    · simp [h2]
  · simp [h]

theorem get_set_self (s : Store) (i : Nat) (n : N) (h : i < s.size) : get (set s i n) i = n := by
  rw [get_set]; simp [h]

theorem get_set_ne (s : Store) (i j : Nat) (n : N) (h : i ≠ j) : get (set s i n) j = get s j := by
  rw [get_set]; simp [h]

theorem get_ge (s : Store) (i : Nat) (h : s.size ≤ i) : get s i = default := by
  unfold get
  rw [Array.getD_eq_getD_getElem?]
  simp [h]

theorem get_push_lt (s : Store) (n : N) (i : Nat) (h : i < s.size) : get (s.push n) i = get s i := by
  unfold get
  rw [Array.getD_eq_getD_getElem?, Array.getD_eq_getD_getElem?, Array.getElem?_push]
  simp [Nat.ne_of_lt h]

theorem get_push_size (s : Store) (n : N) : get (s.push n) s.size = n := by
  unfold get
  rw [Array.getD_eq_getD_getElem?, Array.getElem?_push]
  simp

/-- `set`ting a record that differs only in a field `f` does not change another field `g` -/
theorem get_set_field {β : Type} (g : N → β) (s : Store) (i j : Nat) (n : N) (h : g n = g (get s i)) :
    g (get (set s i n) j) = g (get s j) := by
  rw [get_set]
  split
  · next hh => rw [h, hh.1]
  · rfl

/-! ## §1 `removeStub` -/

/-- what `removeStub` (and folds of it) may do to a store -/
structure RS (s s' : Store) : Prop where
  size : s'.size = s.size
  ideal : ∀ k, (get s' k).ideal = (get s k).ideal
  width : ∀ k, (get s' k).width = (get s k).width
  cur : ∀ k, (get s' k).cur = (get s k).cur
  layerIndex : ∀ k, (get s' k).layerIndex = (get s k).layerIndex
  data : ∀ k, (get s' k).data = (get s k).data
  child : ∀ k, (get s' k).child = none ∨ (get s' k).child = (get s k).child
  parent : ∀ k, (get s' k).parent = none ∨ (get s' k).parent = (get s k).parent

theorem RS.refl (s : Store) : RS s s :=
  ⟨rfl, fun _ => rfl, fun _ => rfl, fun _ => rfl, fun _ => rfl, fun _ => rfl, fun _ => Or.inr rfl, fun _ => Or.inr rfl⟩

theorem RS.trans {a b c : Store} (h1 : RS a b) (h2 : RS b c) : RS a c where
  size := h2.size.trans h1.size
  ideal k := (h2.ideal k).trans (h1.ideal k)
  width k := (h2.width k).trans (h1.width k)
  cur k := (h2.cur k).trans (h1.cur k)
  layerIndex k := (h2.layerIndex k).trans (h1.layerIndex k)
  data k := (h2.data k).trans (h1.data k)
  child k := by
    rcases h2.child k with h | h
    · exact Or.inl h
    · rw [h]; exact h1.child k
  parent k := by
    rcases h2.parent k with h | h
    · exact Or.inl h
    · rw [h]; exact h1.parent k

theorem removeStub_RS (s : Store) (i : Nat) : RS s (removeStub s i) ∧ (get (removeStub s i) i).parent = none := by
  unfold removeStub
  cases hp : (get s i).parent with
  | none => exact ⟨RS.refl s, hp⟩
  | some p =>
    simp only
    have hi : i < s.size := by
      by_contra hc
      rw [get_ge s i (Nat.le_of_not_lt hc)] at hp
      cases hp
    refine ⟨⟨by simp, ?_, ?_, ?_, ?_, ?_, ?_, ?_⟩, ?_⟩
    · intro k
      rw [get_set_field (·.ideal) _ _ _ _ (by rfl), get_set_field (·.ideal) _ _ _ _ (by rfl)]
    · intro k
      rw [get_set_field (·.width) _ _ _ _ (by rfl), get_set_field (·.width) _ _ _ _ (by rfl)]
    · intro k
      rw [get_set_field (·.cur) _ _ _ _ (by rfl), get_set_field (·.cur) _ _ _ _ (by rfl)]
    · intro k
      rw [get_set_field (·.layerIndex) _ _ _ _ (by rfl), get_set_field (·.layerIndex) _ _ _ _ (by rfl)]
    · intro k
      rw [get_set_field (·.data) _ _ _ _ (by rfl), get_set_field (·.data) _ _ _ _ (by rfl)]
    · intro k
      rw [get_set_field (·.child) _ _ _ _ (by rfl), get_set]
      split
      · exact Or.inl rfl
      · exact Or.inr rfl
    · intro k
      rw [get_set]
      split
      · exact Or.inl rfl
      · rw [get_set_field (·.parent) _ _ _ _ (by rfl)]; exact Or.inr rfl
    · rw [get_set_self _ _ _ (by simpa using hi)]

theorem removeStub_fold (nodes : List Nat) (s : Store) :
    RS s (nodes.foldl removeStub s) ∧ ∀ i ∈ nodes, (get (nodes.foldl removeStub s) i).parent = none := by
  induction nodes generalizing s with
  | nil => exact ⟨RS.refl s, by simp⟩
  | cons a t ih =>
    rw [List.foldl_cons]
    obtain ⟨h1, h2⟩ := removeStub_RS s a
    obtain ⟨h3, h4⟩ := ih (removeStub s a)
    refine ⟨h1.trans h3, ?_⟩
    intro i hi
    rcases List.mem_cons.1 hi with rfl | hi
    · rcases h3.parent i with h | h
      · exact h
      · rw [h, h2]
    · exact h4 i hi


/-! ## §2 the stub-creation loops against ghost layers

The layers of node ids are shadowed by layers of `(node id, Ref)` pairs: the first projection is what the stateful code
builds, the second what the pure model describes. -/

abbrev GL := List (List (Nat × Ref))
def projT (G : GL) : List (List Nat) := G.map (List.map Prod.fst)
def projP (G : GL) : List (List Ref) := G.map (List.map Prod.snd)

/-! ### list helpers -/

theorem getD_modify_append {α : Type} (G : List (List α)) (j m : Nat) (a : α) :
    (G.modify j (· ++ [a])).getD m [] = if m = j ∧ j < G.length then G.getD j [] ++ [a] else G.getD m [] := by
  rw [List.getD_eq_getElem?_getD, List.getD_eq_getElem?_getD, List.getD_eq_getElem?_getD, List.getElem?_modify]
  by_cases h : m = j
  · subst h
    by_cases h2 : m < G.length
    · simp [h2]
    · simp [h2]
  · have h' : ¬ j = m := fun e => h e.symm
    simp [h, h']

theorem mem_getD_modify_append {α : Type} (G : List (List α)) (j m : Nat) (a x : α) :
    x ∈ (G.modify j (· ++ [a])).getD m [] ↔ x ∈ G.getD m [] ∨ (m = j ∧ j < G.length ∧ x = a) := by
  rw [getD_modify_append]
  split
  · next h =>
    obtain ⟨rfl, h2⟩ := h
    simp [h2]
  · next h =>
    constructor
    · exact Or.inl
    · rintro (h1 | ⟨h1, h2, _⟩)
      · exact h1
      · exact absurd ⟨h1, h2⟩ h

theorem flatten_modify_append_perm {α : Type} (G : List (List α)) (j : Nat) (a : α) (h : j < G.length) :
    (G.modify j (· ++ [a])).flatten.Perm (a :: G.flatten) := by
  induction G generalizing j with
  | nil => simp at h
  | cons l G ih =>
    cases j with
    | zero =>
      simp only [List.modify_zero_cons, List.flatten_cons, List.append_assoc, List.singleton_append]
      exact List.perm_middle
    | succ j =>
      simp only [List.modify_succ_cons, List.flatten_cons]
      have := ih j (by simpa using h)
      exact (this.append_left l).trans List.perm_middle

theorem map_modify_append {α β : Type} (f : α → β) (G : List (List α)) (j : Nat) (a : α) :
    (G.modify j (· ++ [a])).map (List.map f) = (G.map (List.map f)).modify j (· ++ [f a]) := by
  induction G generalizing j with
  | nil => simp
  | cons l G ih =>
    cases j with
    | zero => simp
    | succ j => simp [ih]

theorem mem_flatten_of_mem_getD {α : Type} {G : List (List α)} {m : Nat} {x : α} (h : x ∈ G.getD m []) :
    x ∈ G.flatten := by
  rw [List.getD_eq_getElem?_getD] at h
  cases hm : G[m]? with
  | none => simp [hm] at h
  | some l =>
    rw [hm] at h
    exact List.mem_flatten.2 ⟨l, List.mem_of_getElem? hm, h⟩

theorem exists_getD_of_mem_flatten {α : Type} {G : List (List α)} {x : α} (h : x ∈ G.flatten) :
    ∃ m, x ∈ G.getD m [] := by
  obtain ⟨l, hl, hx⟩ := List.mem_flatten.1 h
  obtain ⟨m, hm⟩ := List.mem_iff_getElem?.1 hl
  exact ⟨m, by rw [List.getD_eq_getElem?_getD, hm]; exact hx⟩

theorem lt_length_of_mem_getD {α : Type} {G : List (List α)} {m : Nat} {x : α} (h : x ∈ G.getD m []) :
    m < G.length := by
  by_contra hc
  rw [List.getD_eq_getElem?_getD, List.getElem?_eq_none (Nat.le_of_not_lt hc)] at h
  simp at h

/-- with distinct keys over all layers an item is determined by its key, and so is its layer -/
theorem layer_unique {α β : Type} (f : α → β) :
    ∀ (G : List (List α)), (G.flatten.map f).Nodup → ∀ (m m' : Nat) (x y : α),
      x ∈ G.getD m [] → y ∈ G.getD m' [] → f x = f y → x = y ∧ m = m' := by
  intro G
  induction G with
  | nil => intro _ m m' x y hx; simp at hx
  | cons l G ih =>
    intro hn m m' x y hx hy hf
    rw [List.flatten_cons, List.map_append, List.nodup_append] at hn
    obtain ⟨h1, h2, h3⟩ := hn
    cases m with
    | zero =>
      cases m' with
      | zero =>
        simp only [List.getD_cons_zero] at hx hy
        exact ⟨List.inj_on_of_nodup_map h1 hx hy hf, rfl⟩
      | succ m' =>
        simp only [List.getD_cons_zero, List.getD_cons_succ] at hx hy
        exact absurd hf (h3 _ (List.mem_map_of_mem hx) _ (List.mem_map_of_mem (mem_flatten_of_mem_getD hy)))
    | succ m =>
      cases m' with
      | zero =>
        simp only [List.getD_cons_zero, List.getD_cons_succ] at hx hy
        exact absurd hf.symm (h3 _ (List.mem_map_of_mem hy) _ (List.mem_map_of_mem (mem_flatten_of_mem_getD hx)))
      | succ m' =>
        simp only [List.getD_cons_succ] at hx hy
        obtain ⟨e1, e2⟩ := ih h2 m m' x y hx hy hf
        exact ⟨e1, by rw [e2]⟩

/-! ### `createStub` -/

/-- the node has a parent link -/
def HP (s : Store) (i : Nat) : Prop := (get s i).parent ≠ none

theorem createStub_snd (s : Store) (i : Nat) (w : Rat) : (createStub s i w).2 = s.size := rfl

theorem createStub_size (s : Store) (i : Nat) (w : Rat) : (createStub s i w).1.size = s.size + 1 := by
  simp [createStub]

theorem createStub_new (s : Store) (i : Nat) (w : Rat) (hi : i < s.size) :
    get (createStub s i w).1 s.size =
      { ideal := (get s i).ideal, width := w, cur := (get s i).cur, layerIndex := 0, parent := none,
        child := some i, data := (get s i).data } := by
  unfold createStub
  simp only
  rw [get_set_ne _ _ _ _ (Nat.ne_of_lt hi), get_push_size]

theorem createStub_self (s : Store) (i : Nat) (w : Rat) (hi : i < s.size) :
    get (createStub s i w).1 i = { get s i with parent := some s.size } := by
  unfold createStub
  simp only
  rw [get_set_self _ _ _ (by simp; omega), get_push_lt _ _ _ hi]

theorem createStub_other (s : Store) (i : Nat) (w : Rat) (k : Nat) (h1 : k ≠ i) (h2 : k ≠ s.size) :
    get (createStub s i w).1 k = get s k := by
  unfold createStub
  simp only
  rw [get_set_ne _ _ _ _ (Ne.symm h1)]
  rcases Nat.lt_or_ge k s.size with h | h
  · exact get_push_lt _ _ _ h
  · rw [get_ge _ _ h, get_ge _ _ (by simp; omega)]

/-- the old records after `createStub`: only the `parent` of the node itself changes -/
theorem createStub_old (s : Store) (i : Nat) (w : Rat) (hi : i < s.size) (k : Nat) (hk : k < s.size) :
    (get (createStub s i w).1 k).ideal = (get s k).ideal ∧ (get (createStub s i w).1 k).width = (get s k).width ∧
    (get (createStub s i w).1 k).data = (get s k).data ∧ (get (createStub s i w).1 k).child = (get s k).child ∧
    (get (createStub s i w).1 k).cur = (get s k).cur ∧ (get (createStub s i w).1 k).layerIndex = (get s k).layerIndex ∧
    (get (createStub s i w).1 k).parent = if k = i then some s.size else (get s k).parent := by
  by_cases h : k = i
  · subst h
    rw [createStub_self s k w hi]
    simp
  · rw [createStub_other s i w k h (Nat.ne_of_lt hk)]
    simp [h]

theorem createStub_HP (s : Store) (i : Nat) (w : Rat) (hi : i < s.size) :
    HP (createStub s i w).1 i ∧ ∀ k, HP s k → HP (createStub s i w).1 k := by
  constructor
  · unfold HP; rw [createStub_self s i w hi]; simp
  · intro k hk
    unfold HP at *
    by_cases h : k = i
    · subst h; rw [createStub_self s k w hi]; simp
    · by_cases h2 : k = s.size
      · subst h2
        rw [get_ge s _ (Nat.le_refl _)] at hk
        exact absurd rfl hk
      · rwa [createStub_other s i w k h h2]


/-! ### the invariant linking store, ghost layers and the data of the labels -/

/-- what holds of store and ghost layers at every moment of the distributor's loops: node ids distinct and allocated,
every node carries the data position / payload of the label it stands for, the width and stub flag of its `Ref`,
and every parent link that is set points to the stand-in of the same label one layer below -/
structure SInv (labels : List Label) (datas : List Nat) (sw : Rat) (s : Store) (G : GL) : Prop where
  nodup : (G.flatten.map Prod.fst).Nodup
  lt : ∀ x ∈ G.flatten, x.1 < s.size
  ideal : ∀ x ∈ G.flatten, (get s x.1).ideal = idealOf labels x.2.id
  data : ∀ x ∈ G.flatten, (get s x.1).data = datas.getD x.2.id 0
  width : ∀ x ∈ G.flatten, (get s x.1).width = if x.2.isStub then sw else widthOf labels x.2.id
  stub : ∀ x ∈ G.flatten, (get s x.1).child.isSome = x.2.isStub
  par : ∀ m, ∀ x ∈ G.getD m [], ∀ p, (get s x.1).parent = some p →
    ∃ m' y, m = m' + 1 ∧ y ∈ G.getD m' [] ∧ y.1 = p ∧ y.2.id = x.2.id

section loops
variable {labels : List Label} {datas : List Nat} {sw : Rat}

/-- one `createStub` + append -/
theorem SInv.step {s : Store} {G : GL} (h : SInv labels datas sw s G) (j cur : Nat) (rc : Ref)
    (hc : (cur, rc) ∈ G.getD (j + 1) []) :
    SInv labels datas sw (createStub s cur sw).1 (G.modify j (· ++ [((createStub s cur sw).2, Ref.stub rc.id j)])) := by
  have hj : j < G.length := by have := lt_length_of_mem_getD hc; omega
  have hcur : cur < s.size := h.lt _ (mem_flatten_of_mem_getD hc)
  have hperm := flatten_modify_append_perm G j ((createStub s cur sw).2, Ref.stub rc.id j) hj
  have hmem : ∀ x, x ∈ (G.modify j (· ++ [((createStub s cur sw).2, Ref.stub rc.id j)])).flatten →
      x = (s.size, Ref.stub rc.id j) ∨ x ∈ G.flatten := by
    intro x hx
    have := hperm.subset hx
    simpa [createStub_snd] using this
  refine ⟨?_, ?_, ?_, ?_, ?_, ?_, ?_⟩
  · rw [(hperm.map Prod.fst).nodup_iff, List.map_cons, List.nodup_cons]
    refine ⟨?_, h.nodup⟩
    intro hin
    obtain ⟨x, hx, hxe⟩ := List.mem_map.1 hin
    have := h.lt x hx
    rw [createStub_snd] at hxe
    omega
  · intro x hx
    rw [createStub_size]
    rcases hmem x hx with rfl | hx
    · exact Nat.lt_succ_self _
    · exact Nat.lt_succ_of_lt (h.lt x hx)
  · intro x hx
    rcases hmem x hx with rfl | hx
    · rw [createStub_new s cur sw hcur]
      exact h.ideal _ (mem_flatten_of_mem_getD hc)
    · rw [(createStub_old s cur sw hcur x.1 (h.lt x hx)).1]; exact h.ideal x hx
  · intro x hx
    rcases hmem x hx with rfl | hx
    · rw [createStub_new s cur sw hcur]
      exact h.data _ (mem_flatten_of_mem_getD hc)
    · rw [(createStub_old s cur sw hcur x.1 (h.lt x hx)).2.2.1]; exact h.data x hx
  · intro x hx
    rcases hmem x hx with rfl | hx
    · rw [createStub_new s cur sw hcur]; simp [Ref.isStub]
    · rw [(createStub_old s cur sw hcur x.1 (h.lt x hx)).2.1]; exact h.width x hx
  · intro x hx
    rcases hmem x hx with rfl | hx
    · rw [createStub_new s cur sw hcur]; simp [Ref.isStub]
    · rw [(createStub_old s cur sw hcur x.1 (h.lt x hx)).2.2.2.1]; exact h.stub x hx
  · intro m x hx p hp
    rcases (mem_getD_modify_append G j m _ x).1 hx with hx | ⟨_, _, rfl⟩
    · have hxl := h.lt x (mem_flatten_of_mem_getD hx)
      rw [(createStub_old s cur sw hcur x.1 hxl).2.2.2.2.2.2] at hp
      by_cases hxc : x.1 = cur
      · obtain ⟨e1, e2⟩ := layer_unique Prod.fst G h.nodup m (j + 1) x (cur, rc) hx hc hxc
        subst e2
        refine ⟨j, (s.size, Ref.stub rc.id j), rfl, ?_, ?_, ?_⟩
        · rw [mem_getD_modify_append]; right; exact ⟨rfl, hj, by rw [createStub_snd]⟩
        · rw [if_pos hxc] at hp; simpa using hp
        · rw [e1]; rfl
      · rw [if_neg hxc] at hp
        obtain ⟨m', y, e, hy, hy1, hy2⟩ := h.par m x hx p hp
        exact ⟨m', y, e, (mem_getD_modify_append G j m' _ y).2 (Or.inl hy), hy1, hy2⟩
    · rw [createStub_snd, createStub_new s cur sw hcur] at hp
      cases hp

/-! ### `stubChain` -/

def stubChainG (w : Rat) (k : Nat) : Nat → Store → GL → Nat → Store × GL
  | 0, s, G, _ => (s, G)
  | j + 1, s, G, cur =>
    let r := createStub s cur w
    stubChainG w k j r.1 (G.modify j (· ++ [(r.2, Ref.stub k j)])) r.2

theorem stubChainG_T (w : Rat) (k : Nat) : ∀ (j : Nat) (s : Store) (G : GL) (cur : Nat),
    stubChain w j s (projT G) cur = ((stubChainG w k j s G cur).1, projT (stubChainG w k j s G cur).2) := by
  intro j
  induction j with
  | zero => intro s G cur; rfl
  | succ j ih =>
    intro s G cur
    rw [stubChain, stubChainG]
    rw [← ih]
    unfold projT
    rw [map_modify_append]

theorem stubChainG_P (w : Rat) (k : Nat) : ∀ (j : Nat) (s : Store) (G : GL) (cur : Nat),
    projP (stubChainG w k j s G cur).2 = stubChainP k j (projP G) := by
  intro j
  induction j with
  | zero => intro s G cur; rfl
  | succ j ih =>
    intro s G cur
    rw [stubChainP, stubChainG]
    rw [ih]
    unfold projP
    rw [map_modify_append]

theorem stubChainG_inv (k : Nat) : ∀ (j : Nat) (s : Store) (G : GL) (cur : Nat) (rc : Ref),
    SInv labels datas sw s G → (cur, rc) ∈ G.getD j [] → rc.id = k →
    SInv labels datas sw (stubChainG sw k j s G cur).1 (stubChainG sw k j s G cur).2 := by
  intro j
  induction j with
  | zero => intro s G cur rc h _ _; exact h
  | succ j ih =>
    intro s G cur rc h hc hk
    rw [stubChainG]
    have hj : j < G.length := by have := lt_length_of_mem_getD hc; omega
    have h1 := h.step j cur rc hc
    rw [hk] at h1
    refine ih _ _ _ (Ref.stub k j) h1 ?_ rfl
    rw [mem_getD_modify_append]
    right
    exact ⟨rfl, hj, rfl⟩

/-- progress facts of one chain -/
theorem stubChainG_prog (w : Rat) (k : Nat) : ∀ (j : Nat) (s : Store) (G : GL) (cur : Nat), cur < s.size →
    (∀ m, ∀ x ∈ G.getD m [], x ∈ (stubChainG w k j s G cur).2.getD m []) ∧
    (∀ i, HP s i → HP (stubChainG w k j s G cur).1 i) ∧
    (0 < j → HP (stubChainG w k j s G cur).1 cur) ∧
    (∀ m, ∀ x ∈ (stubChainG w k j s G cur).2.getD (m + 1) [],
      x ∈ G.getD (m + 1) [] ∨ HP (stubChainG w k j s G cur).1 x.1) ∧
    (∀ m, ∀ x ∈ (stubChainG w k j s G cur).2.getD m [], x ∈ G.getD m [] ∨ (x.2.isStub = true ∧ s.size ≤ x.1)) ∧
    (stubChainG w k j s G cur).2.length = G.length ∧
    s.size ≤ (stubChainG w k j s G cur).1.size ∧
    (∀ i, i < s.size → i ≠ cur → get (stubChainG w k j s G cur).1 i = get s i) := by
  intro j
  induction j with
  | zero =>
    intro s G cur _
    refine ⟨fun _ _ h => h, fun _ h => h, fun h => absurd h (Nat.lt_irrefl 0), fun _ _ h => Or.inl h,
      fun _ _ h => Or.inl h, rfl, Nat.le_refl _, fun _ _ _ => rfl⟩
  | succ j ih =>
    intro s G cur hcur
    rw [stubChainG]
    obtain ⟨a, b, c, d, e, f, g, hfr⟩ := ih (createStub s cur w).1
      (G.modify j (· ++ [((createStub s cur w).2, Ref.stub k j)])) (createStub s cur w).2
      (by rw [createStub_size, createStub_snd]; exact Nat.lt_succ_self _)
    obtain ⟨hp1, hp2⟩ := createStub_HP s cur w hcur
    refine ⟨?_, ?_, ?_, ?_, ?_, ?_, ?_, ?_⟩
    · intro m x hx
      exact a m x ((mem_getD_modify_append G j m _ x).2 (Or.inl hx))
    · intro i hi
      exact b i (hp2 i hi)
    · intro _
      exact b cur hp1
    · intro m x hx
      rcases d m x hx with hx | hx
      · rcases (mem_getD_modify_append G j (m + 1) _ x).1 hx with hx | ⟨e1, _, rfl⟩
        · exact Or.inl hx
        · right
          exact c (by omega)
      · exact Or.inr hx
    · intro m x hx
      rcases e m x hx with hx | ⟨hx, hx2⟩
      · rcases (mem_getD_modify_append G j m _ x).1 hx with hx | ⟨_, _, rfl⟩
        · exact Or.inl hx
        · right; exact ⟨rfl, by rw [createStub_snd]⟩
      · right
        rw [createStub_size] at hx2
        exact ⟨hx, by omega⟩
    · rw [f, List.length_modify]
    · rw [createStub_size] at g; omega
    · intro i hi hne
      rw [hfr i (by rw [createStub_size]; omega) (by rw [createStub_snd]; omega)]
      exact createStub_other s cur w i hne (Nat.ne_of_lt hi)


/-- progress between two moments of a loop that only appends stubs -/
structure Prog (s : Store) (G : GL) (s' : Store) (G' : GL) : Prop where
  ext : ∀ m, ∀ x ∈ G.getD m [], x ∈ G'.getD m []
  hp : ∀ i, HP s i → HP s' i
  new : ∀ m, ∀ x ∈ G'.getD (m + 1) [], x ∈ G.getD (m + 1) [] ∨ HP s' x.1
  len : G'.length = G.length

theorem Prog.refl (s : Store) (G : GL) : Prog s G s G :=
  ⟨fun _ _ h => h, fun _ h => h, fun _ _ h => Or.inl h, rfl⟩

theorem Prog.trans {s s' s'' : Store} {G G' G'' : GL} (h1 : Prog s G s' G') (h2 : Prog s' G' s'' G'') :
    Prog s G s'' G'' where
  ext m x hx := h2.ext m x (h1.ext m x hx)
  hp i hi := h2.hp i (h1.hp i hi)
  new m x hx := by
    rcases h2.new m x hx with hx | hx
    · rcases h1.new m x hx with hx | hx
      · exact Or.inl hx
      · exact Or.inr (h2.hp _ hx)
    · exact Or.inr hx
  len := h2.len.trans h1.len

theorem stubChainG_Prog (w : Rat) (k j : Nat) (s : Store) (G : GL) (cur : Nat) (hcur : cur < s.size) :
    Prog s G (stubChainG w k j s G cur).1 (stubChainG w k j s G cur).2 := by
  obtain ⟨a, b, _, d, _, f, _, _⟩ := stubChainG_prog w k j s G cur hcur
  exact ⟨a, b, d, f⟩

/-! ### the loops of `algorithm_overlap` -/

def layerStepG (w : Rat) (top : Nat) (acc : Store × GL) (x : Nat × Ref) : Store × GL :=
  if x.2.isStub then acc else stubChainG w x.2.id top acc.1 acc.2 x.1

def layerStepT (w : Rat) (top : Nat) (acc : Store × List (List Nat)) (node : Nat) : Store × List (List Nat) :=
  if isStub acc.1 node then acc else stubChain w top acc.1 acc.2 node

def overlapStubsG (w : Rat) : Nat → Store → GL → Store × GL
  | 0, s, G => (s, G)
  | i + 1, s, G =>
    let r := (G.getD (i + 1) []).foldl (layerStepG w (i + 1)) (s, G)
    overlapStubsG w i r.1 r.2

theorem projT_getD (G : GL) (m : Nat) : (projT G).getD m [] = (G.getD m []).map Prod.fst := by
  unfold projT
  rw [List.getD_eq_getElem?_getD, List.getD_eq_getElem?_getD, List.getElem?_map]
  cases G[m]? <;> rfl

theorem projP_getD (G : GL) (m : Nat) : (projP G).getD m [] = (G.getD m []).map Prod.snd := by
  unfold projP
  rw [List.getD_eq_getElem?_getD, List.getD_eq_getElem?_getD, List.getElem?_map]
  cases G[m]? <;> rfl

theorem layerFold (top : Nat) (htop : 0 < top) : ∀ (todo : List (Nat × Ref)) (s : Store) (G : GL),
    SInv labels datas sw s G → (∀ x ∈ todo, x ∈ G.getD top []) →
    SInv labels datas sw (todo.foldl (layerStepG sw top) (s, G)).1 (todo.foldl (layerStepG sw top) (s, G)).2 ∧
    Prog s G (todo.foldl (layerStepG sw top) (s, G)).1 (todo.foldl (layerStepG sw top) (s, G)).2 ∧
    (∀ x ∈ todo, x.2.isStub = false → HP (todo.foldl (layerStepG sw top) (s, G)).1 x.1) ∧
    (todo.map Prod.fst).foldl (layerStepT sw top) (s, projT G) =
      ((todo.foldl (layerStepG sw top) (s, G)).1, projT (todo.foldl (layerStepG sw top) (s, G)).2) ∧
    projP (todo.foldl (layerStepG sw top) (s, G)).2 = (todo.map Prod.snd).foldl (layerStepP top) (projP G) := by
  intro todo
  induction todo with
  | nil => intro s G h _; exact ⟨h, Prog.refl s G, by simp, rfl, rfl⟩
  | cons x rest ih =>
    intro s G h hsub
    have hx : x ∈ G.getD top [] := hsub x (by simp)
    have hxs : isStub s x.1 = x.2.isStub := h.stub x (mem_flatten_of_mem_getD hx)
    simp only [List.foldl_cons, List.map_cons]
    by_cases hst : x.2.isStub = true
    · have e1 : layerStepG sw top (s, G) x = (s, G) := by simp [layerStepG, hst]
      have e2 : layerStepT sw top (s, projT G) x.1 = (s, projT G) := by simp [layerStepT, hxs, hst]
      have e3 : layerStepP top (projP G) x.2 = projP G := by simp [layerStepP, hst]
      rw [e1, e2, e3]
      obtain ⟨a, b, c, d, e⟩ := ih s G h (fun y hy => hsub y (by simp [hy]))
      refine ⟨a, b, ?_, d, e⟩
      intro y hy hys
      rcases List.mem_cons.1 hy with rfl | hy
      · rw [hst] at hys; cases hys
      · exact c y hy hys
    · have hst' : x.2.isStub = false := by simpa using hst
      have hxl : x.1 < s.size := h.lt x (mem_flatten_of_mem_getD hx)
      have e1 : layerStepG sw top (s, G) x = stubChainG sw x.2.id top s G x.1 := by simp [layerStepG, hst']
      have e2 : layerStepT sw top (s, projT G) x.1 =
          ((stubChainG sw x.2.id top s G x.1).1, projT (stubChainG sw x.2.id top s G x.1).2) := by
        simp only [layerStepT, hxs, hst', Bool.false_eq_true, if_false]
        exact stubChainG_T sw x.2.id top s G x.1
      have e3 : layerStepP top (projP G) x.2 = projP (stubChainG sw x.2.id top s G x.1).2 := by
        simp only [layerStepP, hst', Bool.false_eq_true, if_false]
        exact (stubChainG_P sw x.2.id top s G x.1).symm
      rw [e1, e2, e3]
      have hinv := stubChainG_inv (labels := labels) (datas := datas) (sw := sw) x.2.id top s G x.1 x.2 h hx rfl
      have hprog := stubChainG_Prog sw x.2.id top s G x.1 hxl
      have hhp := (stubChainG_prog sw x.2.id top s G x.1 hxl).2.2.1 htop
      obtain ⟨a, b, c, d, e⟩ := ih _ _ hinv (fun y hy => hprog.ext top y (hsub y (by simp [hy])))
      refine ⟨a, hprog.trans b, ?_, d, e⟩
      intro y hy hys
      rcases List.mem_cons.1 hy with rfl | hy
      · exact b.hp _ hhp
      · exact c y hy hys

/-- completeness at counter `i`: every stub above layer 0 and every item above layer `i` has its parent link -/
def Comp (i : Nat) (s : Store) (G : GL) : Prop :=
  ∀ m, ∀ x ∈ G.getD (m + 1) [], (x.2.isStub = true ∨ i < m + 1) → HP s x.1

theorem overlapStubsG_spec : ∀ (i : Nat) (s : Store) (G : GL),
    SInv labels datas sw s G → Comp i s G →
    SInv labels datas sw (overlapStubsG sw i s G).1 (overlapStubsG sw i s G).2 ∧
    Comp 0 (overlapStubsG sw i s G).1 (overlapStubsG sw i s G).2 ∧
    overlapStubs sw i s (projT G) = ((overlapStubsG sw i s G).1, projT (overlapStubsG sw i s G).2) ∧
    projP (overlapStubsG sw i s G).2 = overlapStubsP i (projP G) := by
  intro i
  induction i with
  | zero => intro s G h hc; exact ⟨h, hc, rfl, rfl⟩
  | succ i ih =>
    intro s G h hc
    rw [overlapStubsG, overlapStubs, overlapStubsP]
    obtain ⟨a, b, c, d, e⟩ := layerFold (labels := labels) (datas := datas) (sw := sw) (i + 1) (Nat.succ_pos i)
      (G.getD (i + 1) []) s G h (fun x hx => hx)
    have hcomp : Comp i ((G.getD (i + 1) []).foldl (layerStepG sw (i + 1)) (s, G)).1
        ((G.getD (i + 1) []).foldl (layerStepG sw (i + 1)) (s, G)).2 := by
      intro m x hx hcond
      rcases b.new m x hx with hx' | hx'
      · by_cases hst : x.2.isStub = true
        · exact b.hp _ (hc m x hx' (Or.inl hst))
        · have hst' : x.2.isStub = false := by simpa using hst
          rcases hcond with hcond | hcond
          · exact absurd hcond hst
          · by_cases hm : m = i
            · subst hm
              exact c x hx' hst'
            · exact b.hp _ (hc m x hx' (Or.inr (by omega)))
      · exact hx'
    obtain ⟨a', b', c', d'⟩ := ih _ _ a hcomp
    refine ⟨a', b', ?_, ?_⟩
    · rw [← c']
      have : (fun (acc : Store × List (List Nat)) node =>
          if isStub acc.1 node then acc else stubChain sw (i + 1) acc.1 acc.2 node) = layerStepT sw (i + 1) := rfl
      rw [this, projT_getD, d]
    · rw [d', e, projP_getD]


/-! ### the loop of `algorithm_simple` -/

/-- an engine node that has not been placed yet: an allocated, parentless label carrying the data of label `k` -/
structure IsLabel (labels : List Label) (datas : List Nat) (s : Store) (node k : Nat) : Prop where
  lt : node < s.size
  ideal : (get s node).ideal = idealOf labels k
  width : (get s node).width = widthOf labels k
  data : (get s node).data = datas.getD k 0
  child : (get s node).child = none
  parent : (get s node).parent = none

theorem SInv.addLabel {s : Store} {G : GL} (h : SInv labels datas sw s G) (md node k : Nat)
    (hl : IsLabel labels datas s node k) (hfresh : node ∉ G.flatten.map Prod.fst) (hmd : md < G.length) :
    SInv labels datas sw s (G.modify md (· ++ [(node, Ref.label k)])) := by
  have hperm := flatten_modify_append_perm G md (node, Ref.label k) hmd
  have hmem : ∀ x, x ∈ (G.modify md (· ++ [(node, Ref.label k)])).flatten →
      x = (node, Ref.label k) ∨ x ∈ G.flatten := by
    intro x hx
    simpa using hperm.subset hx
  refine ⟨?_, ?_, ?_, ?_, ?_, ?_, ?_⟩
  · rw [(hperm.map Prod.fst).nodup_iff, List.map_cons, List.nodup_cons]
    exact ⟨hfresh, h.nodup⟩
  · intro x hx
    rcases hmem x hx with rfl | hx
    · exact hl.lt
    · exact h.lt x hx
  · intro x hx
    rcases hmem x hx with rfl | hx
    · exact hl.ideal
    · exact h.ideal x hx
  · intro x hx
    rcases hmem x hx with rfl | hx
    · exact hl.data
    · exact h.data x hx
  · intro x hx
    rcases hmem x hx with rfl | hx
    · simpa [Ref.isStub, Ref.id] using hl.width
    · exact h.width x hx
  · intro x hx
    rcases hmem x hx with rfl | hx
    · simp [Ref.isStub, hl.child]
    · exact h.stub x hx
  · intro m x hx p hp
    rcases (mem_getD_modify_append G md m _ x).1 hx with hx | ⟨_, _, rfl⟩
    · obtain ⟨m', y, e, hy, hy1, hy2⟩ := h.par m x hx p hp
      exact ⟨m', y, e, (mem_getD_modify_append G md m' _ y).2 (Or.inl hy), hy1, hy2⟩
    · rw [hl.parent] at hp
      cases hp

def simpleStepG (w : Rat) (nl : Nat) (acc : Store × GL) (p : (Nat × Nat) × Nat) : Store × GL :=
  stubChainG w p.1.2 (p.2 % nl) acc.1 (acc.2.modify (p.2 % nl) (· ++ [(p.1.1, Ref.label p.1.2)])) p.1.1

def simpleStepT (w : Rat) (nl : Nat) (acc : Store × List (List Nat)) (p : Nat × Nat) : Store × List (List Nat) :=
  stubChain w (p.2 % nl) acc.1 (acc.2.modify (p.2 % nl) (· ++ [p.1])) p.1

theorem simpleLoop_eq (w : Rat) (nl : Nat) (nodes : List Nat) (s : Store) :
    simpleLoop w nl nodes s = nodes.zipIdx.foldl (simpleStepT w nl) (s, List.replicate nl []) := rfl

theorem simpleFold (nl : Nat) (hnl : 0 < nl) : ∀ (todo : List ((Nat × Nat) × Nat)) (s : Store) (G : GL),
    SInv labels datas sw s G → G.length = nl → Comp 0 s G →
    (todo.map (fun p => p.1.1)).Nodup →
    (∀ p ∈ todo, IsLabel labels datas s p.1.1 p.1.2 ∧ p.1.1 ∉ G.flatten.map Prod.fst) →
    SInv labels datas sw (todo.foldl (simpleStepG sw nl) (s, G)).1 (todo.foldl (simpleStepG sw nl) (s, G)).2 ∧
    Comp 0 (todo.foldl (simpleStepG sw nl) (s, G)).1 (todo.foldl (simpleStepG sw nl) (s, G)).2 ∧
    (todo.map (fun p => (p.1.1, p.2))).foldl (simpleStepT sw nl) (s, projT G) =
      ((todo.foldl (simpleStepG sw nl) (s, G)).1, projT (todo.foldl (simpleStepG sw nl) (s, G)).2) ∧
    projP (todo.foldl (simpleStepG sw nl) (s, G)).2 =
      (todo.map (fun p => (p.1.2, p.2))).foldl (simpleStepP nl) (projP G) := by
  intro todo
  induction todo with
  | nil => intro s G h _ hc _ _; exact ⟨h, hc, rfl, rfl⟩
  | cons p rest ih =>
    intro s G h hlen hc hnd hlab
    simp only [List.foldl_cons, List.map_cons]
    obtain ⟨hl, hfresh⟩ := hlab p (by simp)
    have hmd : p.2 % nl < G.length := by rw [hlen]; exact Nat.mod_lt _ hnl
    have h1 := h.addLabel (p.2 % nl) p.1.1 p.1.2 hl hfresh hmd
    have hin : (p.1.1, Ref.label p.1.2) ∈ (G.modify (p.2 % nl) (· ++ [(p.1.1, Ref.label p.1.2)])).getD (p.2 % nl) [] := by
      rw [mem_getD_modify_append]; right; exact ⟨rfl, hmd, rfl⟩
    have e1 : simpleStepG sw nl (s, G) p =
        stubChainG sw p.1.2 (p.2 % nl) s (G.modify (p.2 % nl) (· ++ [(p.1.1, Ref.label p.1.2)])) p.1.1 := rfl
    have e2 : simpleStepT sw nl (s, projT G) (p.1.1, p.2) =
        ((simpleStepG sw nl (s, G) p).1, projT (simpleStepG sw nl (s, G) p).2) := by
      rw [e1, ← stubChainG_T]
      unfold simpleStepT projT
      simp only
      rw [map_modify_append]
    have e3 : simpleStepP nl (projP G) (p.1.2, p.2) = projP (simpleStepG sw nl (s, G) p).2 := by
      rw [e1, stubChainG_P]
      unfold simpleStepP projP
      simp only
      rw [map_modify_append]
    rw [e2, e3]
    have hinv := stubChainG_inv (labels := labels) (datas := datas) (sw := sw) p.1.2 (p.2 % nl) s _ p.1.1
      (Ref.label p.1.2) h1 hin rfl
    obtain ⟨pa, pb, pc, pd, pe, pf, pg, ph⟩ := stubChainG_prog sw p.1.2 (p.2 % nl) s
      (G.modify (p.2 % nl) (· ++ [(p.1.1, Ref.label p.1.2)])) p.1.1 hl.lt
    rw [← e1] at hinv pa pb pc pd pe pf pg ph
    clear e2 e3
    generalize simpleStepG sw nl (s, G) p = r1 at *
    have hnd' := List.nodup_cons.1 hnd
    refine ih _ _ hinv ?_ ?_ hnd'.2 ?_
    · rw [pf, List.length_modify, hlen]
    · intro m x hx _
      rcases pd m x hx with hx | hx
      · rcases (mem_getD_modify_append G _ _ _ x).1 hx with hx | ⟨e, _, rfl⟩
        · exact pb _ (hc m x hx (Or.inr (Nat.succ_pos m)))
        · exact pc (by omega)
      · exact hx
    · intro q hq
      obtain ⟨hql, hqf⟩ := hlab q (by simp [hq])
      have hne : q.1.1 ≠ p.1.1 := by
        intro e
        exact hnd'.1 (List.mem_map.2 ⟨q, hq, e⟩)
      have hrec := ph q.1.1 hql.lt hne
      refine ⟨⟨Nat.lt_of_lt_of_le hql.lt pg, ?_, ?_, ?_, ?_, ?_⟩, ?_⟩
      · rw [hrec]; exact hql.ideal
      · rw [hrec]; exact hql.width
      · rw [hrec]; exact hql.data
      · rw [hrec]; exact hql.child
      · rw [hrec]; exact hql.parent
      · intro hmem
        obtain ⟨x, hx, hxe⟩ := List.mem_map.1 hmem
        obtain ⟨m, hxm⟩ := exists_getD_of_mem_flatten hx
        rcases pe m x hxm with hx' | ⟨_, hx'⟩
        · rcases (mem_getD_modify_append G _ _ _ x).1 hx' with hx' | ⟨_, _, rfl⟩
          · exact hqf (by rw [← hxe]; exact List.mem_map_of_mem (mem_flatten_of_mem_getD hx'))
          · exact hne hxe.symm
        · have := hql.lt
          omega

end loops


/-! ### frame: nothing the engine does changes data position, width, payload of an existing node or turns a label into a stub -/

structure Frame (s s' : Store) : Prop where
  size : s.size ≤ s'.size
  ideal : ∀ i, i < s.size → (get s' i).ideal = (get s i).ideal
  width : ∀ i, i < s.size → (get s' i).width = (get s i).width
  data : ∀ i, i < s.size → (get s' i).data = (get s i).data
  child : ∀ i, i < s.size → (get s i).child = none → (get s' i).child = none

theorem Frame.refl (s : Store) : Frame s s :=
  ⟨Nat.le_refl _, fun _ _ => rfl, fun _ _ => rfl, fun _ _ => rfl, fun _ _ h => h⟩

theorem Frame.trans {a b c : Store} (h1 : Frame a b) (h2 : Frame b c) : Frame a c where
  size := Nat.le_trans h1.size h2.size
  ideal i hi := (h2.ideal i (Nat.lt_of_lt_of_le hi h1.size)).trans (h1.ideal i hi)
  width i hi := (h2.width i (Nat.lt_of_lt_of_le hi h1.size)).trans (h1.width i hi)
  data i hi := (h2.data i (Nat.lt_of_lt_of_le hi h1.size)).trans (h1.data i hi)
  child i hi hc := h2.child i (Nat.lt_of_lt_of_le hi h1.size) (h1.child i hi hc)

theorem RS.frame {s s' : Store} (h : RS s s') : Frame s s' where
  size := by rw [h.size]
  ideal i _ := h.ideal i
  width i _ := h.width i
  data i _ := h.data i
  child i _ hc := by
    rcases h.child i with h' | h'
    · exact h'
    · rw [h', hc]

theorem createStub_frame (s : Store) (i : Nat) (w : Rat) : Frame s (createStub s i w).1 := by
  have key : ∀ k, k < s.size → (get (createStub s i w).1 k).ideal = (get s k).ideal ∧
      (get (createStub s i w).1 k).width = (get s k).width ∧ (get (createStub s i w).1 k).data = (get s k).data ∧
      (get (createStub s i w).1 k).child = (get s k).child := by
    intro k hk
    by_cases hi : i < s.size
    · obtain ⟨a, b, c, d, _⟩ := createStub_old s i w hi k hk
      exact ⟨a, b, c, d⟩
    · rw [createStub_other s i w k (by omega) (by omega)]
      exact ⟨rfl, rfl, rfl, rfl⟩
  refine ⟨by rw [createStub_size]; omega, fun k hk => (key k hk).1, fun k hk => (key k hk).2.1,
    fun k hk => (key k hk).2.2.1, fun k hk hc => ?_⟩
  rw [(key k hk).2.2.2, hc]

theorem stubChain_frame (w : Rat) : ∀ (j : Nat) (s : Store) (layers : List (List Nat)) (cur : Nat),
    Frame s (stubChain w j s layers cur).1 := by
  intro j
  induction j with
  | zero => intro s layers cur; exact Frame.refl s
  | succ j ih =>
    intro s layers cur
    rw [stubChain]
    exact (createStub_frame s cur w).trans (ih _ _ _)

theorem foldl_frame {α : Type} (f : Store × List (List Nat) → α → Store × List (List Nat))
    (hf : ∀ acc x, Frame acc.1 (f acc x).1) : ∀ (l : List α) (acc : Store × List (List Nat)),
    Frame acc.1 (l.foldl f acc).1 := by
  intro l
  induction l with
  | nil => intro acc; exact Frame.refl _
  | cons x rest ih => intro acc; rw [List.foldl_cons]; exact (hf acc x).trans (ih _)

theorem overlapStubs_frame (w : Rat) : ∀ (i : Nat) (s : Store) (layers : List (List Nat)),
    Frame s (overlapStubs w i s layers).1 := by
  intro i
  induction i with
  | zero => intro s layers; exact Frame.refl s
  | succ i ih =>
    intro s layers
    rw [overlapStubs]
    refine Frame.trans ?_ (ih _ _)
    refine foldl_frame _ ?_ _ (s, layers)
    intro acc x
    split
    · exact Frame.refl _
    · exact stubChain_frame _ _ _ _ _

theorem simpleLoop_frame (w : Rat) (nl : Nat) (nodes : List Nat) (s : Store) :
    Frame s (simpleLoop w nl nodes s).1 := by
  unfold simpleLoop
  refine foldl_frame _ ?_ _ (s, List.replicate nl [])
  intro acc x
  exact stubChain_frame _ _ _ _ _

theorem distributeT_frame (o : DOpts) (s : Store) (nodes : List Nat) : Frame s (distributeT o s nodes).1 := by
  unfold distributeT
  split
  · exact Frame.refl s
  · split
    · exact Frame.refl s
    · simp only
      split
      · exact Frame.refl s
      · split
        · exact simpleLoop_frame _ _ _ _
        · exact overlapStubs_frame _ _ _ _


/-! ## §4 `distributeT` -/

theorem distributeT_nil (o : DOpts) (s : Store) : distributeT o s [] = (s, [], false) := by
  simp [distributeT]

theorem distributeT_none (o : DOpts) (s : Store) (nodes : List Nat) (hne : nodes ≠ []) (h : o.algorithm = .none) :
    distributeT o s nodes = (s, [nodes], true) := by
  unfold distributeT
  rw [h]
  simp [hne]

theorem distributeT_single (o : DOpts) (s : Store) (nodes : List Nat) (hne : nodes ≠ []) (h : o.algorithm ≠ .none)
    (hnl : estimateLayers o ((sortIds (labelsOf s nodes)).map (widthOf (labelsOf s nodes))) ≤ 1) :
    distributeT o s nodes = (s, [(sortIds (labelsOf s nodes)).map (fun k => nodes.getD k 0)], false) := by
  unfold distributeT
  rcases o with ⟨alg, a, b, c, d⟩
  cases alg <;> simp_all

theorem distributeT_simple (o : DOpts) (s : Store) (nodes : List Nat) (hne : nodes ≠ []) (h : o.algorithm = .simple)
    (hnl : ¬ estimateLayers o ((sortIds (labelsOf s nodes)).map (widthOf (labelsOf s nodes))) ≤ 1) :
    distributeT o s nodes =
      ((simpleLoop o.stubWidth (estimateLayers o ((sortIds (labelsOf s nodes)).map (widthOf (labelsOf s nodes)))).toNat
          ((sortIds (labelsOf s nodes)).map (fun k => nodes.getD k 0)) s).1,
       (simpleLoop o.stubWidth (estimateLayers o ((sortIds (labelsOf s nodes)).map (widthOf (labelsOf s nodes)))).toNat
          ((sortIds (labelsOf s nodes)).map (fun k => nodes.getD k 0)) s).2, false) := by
  unfold distributeT
  rcases o with ⟨alg, a, b, c, d⟩
  cases alg <;> simp_all

theorem distributeT_overlap (o : DOpts) (s : Store) (nodes : List Nat) (hne : nodes ≠ []) (h : o.algorithm = .overlap)
    (hnl : ¬ estimateLayers o ((sortIds (labelsOf s nodes)).map (widthOf (labelsOf s nodes))) ≤ 1) :
    distributeT o s nodes =
      ((overlapStubs o.stubWidth
          ((overlapLayers (labelsOf s nodes) o (maxWidthPerLayer o) ((sortIds (labelsOf s nodes)).length + 1)
            (sortIds (labelsOf s nodes))).length - 1) s
          ((overlapLayers (labelsOf s nodes) o (maxWidthPerLayer o) ((sortIds (labelsOf s nodes)).length + 1)
            (sortIds (labelsOf s nodes))).map (fun l => l.map (fun k => nodes.getD k 0)))).1,
       (overlapStubs o.stubWidth
          ((overlapLayers (labelsOf s nodes) o (maxWidthPerLayer o) ((sortIds (labelsOf s nodes)).length + 1)
            (sortIds (labelsOf s nodes))).length - 1) s
          ((overlapLayers (labelsOf s nodes) o (maxWidthPerLayer o) ((sortIds (labelsOf s nodes)).length + 1)
            (sortIds (labelsOf s nodes))).map (fun l => l.map (fun k => nodes.getD k 0)))).2, false) := by
  unfold distributeT
  rcases o with ⟨alg, a, b, c, d⟩
  cases alg <;> simp_all


/-- the engine's node list after the stale stubs have been unlinked -/
structure Clean (s : Store) (nodes : List Nat) : Prop where
  lt : ∀ i ∈ nodes, i < s.size
  nodup : nodes.Nodup
  child : ∀ i ∈ nodes, (get s i).child = none
  parent : ∀ i ∈ nodes, (get s i).parent = none

def datasOf (s : Store) (nodes : List Nat) : List Nat := nodes.map (fun i => (get s i).data)

theorem getD_mem {nodes : List Nat} {k : Nat} (hk : k < nodes.length) : nodes.getD k 0 ∈ nodes := by
  rw [List.getD_eq_getElem?_getD, List.getElem?_eq_getElem hk]
  exact List.getElem_mem hk

theorem isLabel_of_clean {s : Store} {nodes : List Nat} (hc : Clean s nodes) (k : Nat) (hk : k < nodes.length) :
    IsLabel (labelsOf s nodes) (datasOf s nodes) s (nodes.getD k 0) k := by
  have hm := getD_mem hk
  refine ⟨hc.lt _ hm, ?_, ?_, ?_, hc.child _ hm, hc.parent _ hm⟩
  · simp [idealOf, labelsOf, hk]
  · simp [widthOf, labelsOf, hk]
  · simp [datasOf, hk]

theorem getD_inj {nodes : List Nat} (hn : nodes.Nodup) {k k' : Nat} (hk : k < nodes.length) (hk' : k' < nodes.length)
    (h : nodes.getD k 0 = nodes.getD k' 0) : k = k' := by
  rw [List.getD_eq_getElem?_getD, List.getD_eq_getElem?_getD, List.getElem?_eq_getElem hk,
    List.getElem?_eq_getElem hk'] at h
  exact (hn.getElem_inj_iff).1 (by simpa using h)

/-- ghost layers consisting of labels only -/
def labelGL (nodes : List Nat) (L : List (List Nat)) : GL :=
  L.map (List.map (fun k => (nodes.getD k 0, Ref.label k)))

theorem projT_labelGL (nodes : List Nat) (L : List (List Nat)) :
    projT (labelGL nodes L) = L.map (List.map (fun k => nodes.getD k 0)) := by
  simp [projT, labelGL, Function.comp_def]

theorem projP_labelGL (nodes : List Nat) (L : List (List Nat)) :
    projP (labelGL nodes L) = L.map (List.map Ref.label) := by
  simp [projP, labelGL, Function.comp_def]

theorem flatten_labelGL (nodes : List Nat) (L : List (List Nat)) :
    (labelGL nodes L).flatten = L.flatten.map (fun k => (nodes.getD k 0, Ref.label k)) := by
  unfold labelGL
  rw [List.map_flatten]

theorem nodup_map_getD {nodes : List Nat} (hn : nodes.Nodup) {ids : List Nat} (hid : ids.Nodup)
    (hlt : ∀ k ∈ ids, k < nodes.length) : (ids.map (fun k => nodes.getD k 0)).Nodup := by
  refine List.Nodup.map_on ?_ hid
  intro a ha b hb hab
  exact getD_inj hn (hlt a ha) (hlt b hb) hab

theorem SInv_labelGL {s : Store} {nodes : List Nat} (hc : Clean s nodes) (sw : Rat) (L : List (List Nat))
    (hn : L.flatten.Nodup) (hlt : ∀ k ∈ L.flatten, k < nodes.length) :
    SInv (labelsOf s nodes) (datasOf s nodes) sw s (labelGL nodes L) := by
  have hmem : ∀ x ∈ (labelGL nodes L).flatten, ∃ k, k < nodes.length ∧ x = (nodes.getD k 0, Ref.label k) := by
    intro x hx
    rw [flatten_labelGL] at hx
    obtain ⟨k, hk, rfl⟩ := List.mem_map.1 hx
    exact ⟨k, hlt k hk, rfl⟩
  refine ⟨?_, ?_, ?_, ?_, ?_, ?_, ?_⟩
  · rw [flatten_labelGL, List.map_map]
    exact nodup_map_getD hc.nodup hn hlt
  · intro x hx
    obtain ⟨k, hk, rfl⟩ := hmem x hx
    exact (isLabel_of_clean hc k hk).lt
  · intro x hx
    obtain ⟨k, hk, rfl⟩ := hmem x hx
    exact (isLabel_of_clean hc k hk).ideal
  · intro x hx
    obtain ⟨k, hk, rfl⟩ := hmem x hx
    exact (isLabel_of_clean hc k hk).data
  · intro x hx
    obtain ⟨k, hk, rfl⟩ := hmem x hx
    simpa [Ref.isStub, Ref.id] using (isLabel_of_clean hc k hk).width
  · intro x hx
    obtain ⟨k, hk, rfl⟩ := hmem x hx
    show (get s (nodes.getD k 0)).child.isSome = false
    rw [(isLabel_of_clean hc k hk).child]; rfl
  · intro m x hx p hp
    obtain ⟨k, hk, rfl⟩ := hmem x (mem_flatten_of_mem_getD hx)
    rw [(isLabel_of_clean hc k hk).parent] at hp
    cases hp

theorem labelGL_no_stub (nodes : List Nat) (L : List (List Nat)) (m : Nat) :
    ∀ x ∈ (labelGL nodes L).getD m [], x.2.isStub = false := by
  intro x hx
  have := mem_flatten_of_mem_getD hx
  rw [flatten_labelGL] at this
  obtain ⟨k, _, rfl⟩ := List.mem_map.1 this
  rfl

theorem range_map_getD (nodes : List Nat) : (List.range nodes.length).map (fun k => nodes.getD k 0) = nodes := by
  apply List.ext_getElem
  · simp
  · intro i h1 h2
    simp [List.getD_eq_getElem?_getD, List.getElem?_eq_getElem h2]

theorem labelsOf_length (s : Store) (nodes : List Nat) : (labelsOf s nodes).length = nodes.length := by
  simp [labelsOf]

theorem SInv_single {s : Store} {nodes : List Nat} (hc : Clean s nodes) (sw : Rat) (ids : List Nat)
    (hp : ids.Perm (List.range nodes.length)) :
    projT (labelGL nodes [ids]) = [ids.map (fun k => nodes.getD k 0)] ∧
    projP (labelGL nodes [ids]) = [ids.map Ref.label] ∧
    SInv (labelsOf s nodes) (datasOf s nodes) sw s (labelGL nodes [ids]) ∧
    Comp 0 s (labelGL nodes [ids]) ∧ (∀ l ∈ projP (labelGL nodes [ids]), (l.map Ref.id).Nodup) := by
  have hn : ids.Nodup := hp.nodup_iff.2 List.nodup_range
  have hlt : ∀ k ∈ ids, k < nodes.length := fun k hk => List.mem_range.1 (hp.subset hk)
  refine ⟨by rw [projT_labelGL]; rfl, by rw [projP_labelGL]; rfl,
    SInv_labelGL hc sw [ids] (by simpa using hn) (by simpa using hlt), ?_, ?_⟩
  · intro m x hx
    simp [labelGL] at hx
  · intro l hl
    rw [projP_labelGL] at hl
    simp only [List.map_cons, List.map_nil, List.mem_singleton] at hl
    subst hl
    rw [List.map_map]
    have : (Ref.id ∘ Ref.label) = id := by funext k; rfl
    rw [this, List.map_id]
    exact hn

theorem distributeT_spec (o : DOpts) (s : Store) (nodes : List Nat) (hc : Clean s nodes) :
    ∃ G : GL, (distributeT o s nodes).2.1 = projT G ∧ distribute o (labelsOf s nodes) = projP G ∧
      SInv (labelsOf s nodes) (datasOf s nodes) o.stubWidth (distributeT o s nodes).1 G ∧
      Comp 0 (distributeT o s nodes).1 G ∧ (∀ l ∈ projP G, (l.map Ref.id).Nodup) := by
  by_cases hne : nodes = []
  · subst hne
    refine ⟨[], ?_, ?_, ?_, ?_, ?_⟩
    · rw [distributeT_nil]; rfl
    · simp [labelsOf, distribute_nil, projP]
    · rw [distributeT_nil]
      exact ⟨by simp, by simp, by simp, by simp, by simp, by simp, by simp⟩
    · intro m x hx; simp at hx
    · simp [projP]
  have hlne : labelsOf s nodes ≠ [] := by
    intro h
    apply hne
    have := congrArg List.length h
    rw [labelsOf_length] at this
    exact List.length_eq_zero_iff.1 this
  by_cases hnone : o.algorithm = .none
  · obtain ⟨a, b, c, d, e⟩ := SInv_single hc o.stubWidth (List.range nodes.length) (List.Perm.refl _)
    refine ⟨_, ?_, ?_, ?_, ?_, e⟩
    · rw [distributeT_none o s nodes hne hnone, a, range_map_getD]
    · rw [distribute_none o _ hlne hnone, b, labelsOf_length]
    · rw [distributeT_none o s nodes hne hnone]; exact c
    · rw [distributeT_none o s nodes hne hnone]; exact d
  have hperm := sortIds_perm (labelsOf s nodes)
  rw [labelsOf_length] at hperm
  have hidn : (sortIds (labelsOf s nodes)).Nodup := hperm.nodup_iff.2 List.nodup_range
  have hidlt : ∀ k ∈ sortIds (labelsOf s nodes), k < nodes.length := fun k hk => List.mem_range.1 (hperm.subset hk)
  by_cases hnl : estimateLayers o ((sortIds (labelsOf s nodes)).map (widthOf (labelsOf s nodes))) ≤ 1
  · obtain ⟨a, b, c, d, e⟩ := SInv_single hc o.stubWidth (sortIds (labelsOf s nodes)) hperm
    refine ⟨_, ?_, ?_, ?_, ?_, e⟩
    · rw [distributeT_single o s nodes hne hnone hnl, a]
    · rw [distribute_single o _ hlne hnone hnl, b]
    · rw [distributeT_single o s nodes hne hnone hnl]; exact c
    · rw [distributeT_single o s nodes hne hnone hnl]; exact d
  have halg : o.algorithm = .simple ∨ o.algorithm = .overlap := by
    cases h : o.algorithm <;> simp_all
  rcases halg with halg | halg
  · -- `algorithm_simple`
    rw [distributeT_simple o s nodes hne halg hnl, distribute_simple o _ hlne halg hnl]
    generalize hnlv : (estimateLayers o ((sortIds (labelsOf s nodes)).map (widthOf (labelsOf s nodes)))).toNat = nl
    have hnlpos : 0 < nl := by rw [← hnlv]; omega
    let todo : List ((Nat × Nat) × Nat) :=
      ((sortIds (labelsOf s nodes)).map (fun k => (nodes.getD k 0, k))).zipIdx
    have hfst : todo.map (fun p => p.1) = (sortIds (labelsOf s nodes)).map (fun k => (nodes.getD k 0, k)) :=
      List.zipIdx_map_fst 0 _
    have hG0 : SInv (labelsOf s nodes) (datasOf s nodes) o.stubWidth s (List.replicate nl []) := by
      have hfl : (List.replicate nl ([] : List (Nat × Ref))).flatten = [] := by simp
      have hgd : ∀ m, (List.replicate nl ([] : List (Nat × Ref))).getD m [] = [] := by
        intro m
        rw [List.getD_eq_getElem?_getD, List.getElem?_replicate]
        split <;> rfl
      refine ⟨by rw [hfl]; simp, by rw [hfl]; simp, by rw [hfl]; simp, by rw [hfl]; simp, by rw [hfl]; simp,
        by rw [hfl]; simp, ?_⟩
      intro m x hx
      rw [hgd] at hx
      cases hx
    have hC0 : Comp 0 s (List.replicate nl ([] : List (Nat × Ref))) := by
      intro m x hx
      rw [List.getD_eq_getElem?_getD, List.getElem?_replicate] at hx
      split at hx <;> cases hx
    obtain ⟨a, b, c, d⟩ := simpleFold (labels := labelsOf s nodes) (datas := datasOf s nodes) (sw := o.stubWidth)
      nl hnlpos todo s (List.replicate nl []) hG0 (by simp) hC0
      (by
        have : todo.map (fun p => p.1.1) = (todo.map (fun p => p.1)).map Prod.fst := by rw [List.map_map]; rfl
        rw [this, hfst, List.map_map]
        exact nodup_map_getD hc.nodup hidn hidlt)
      (by
        intro p hp
        have : p.1 ∈ todo.map (fun p => p.1) := List.mem_map_of_mem hp
        rw [hfst] at this
        obtain ⟨k, hk, e⟩ := List.mem_map.1 this
        rw [← e]
        exact ⟨isLabel_of_clean hc k (hidlt k hk), by simp⟩)
    have hT : simpleLoop o.stubWidth nl ((sortIds (labelsOf s nodes)).map (fun k => nodes.getD k 0)) s =
        ((todo.foldl (simpleStepG o.stubWidth nl) (s, List.replicate nl [])).1,
          projT (todo.foldl (simpleStepG o.stubWidth nl) (s, List.replicate nl [])).2) := by
      rw [simpleLoop_eq]
      have e1 : ((sortIds (labelsOf s nodes)).map (fun k => nodes.getD k 0)).zipIdx =
          todo.map (fun p => (p.1.1, p.2)) := by
        have : (sortIds (labelsOf s nodes)).map (fun k => nodes.getD k 0) =
            ((sortIds (labelsOf s nodes)).map (fun k => (nodes.getD k 0, k))).map Prod.fst := by
          rw [List.map_map]; rfl
        rw [this, List.zipIdx_map]
        rfl
      have e2 : projT (List.replicate nl ([] : List (Nat × Ref))) = List.replicate nl [] := by
        simp [projT]
      rw [e1, ← e2, c]
    have hP : projP (todo.foldl (simpleStepG o.stubWidth nl) (s, List.replicate nl [])).2 =
        simpleLayers (sortIds (labelsOf s nodes)) nl := by
      rw [d, ← simpleLoopP_simpleLayers _ _ hnlpos]
      have e1 : (sortIds (labelsOf s nodes)).zipIdx = todo.map (fun p => (p.1.2, p.2)) := by
        have : sortIds (labelsOf s nodes) =
            ((sortIds (labelsOf s nodes)).map (fun k => (nodes.getD k 0, k))).map Prod.snd := by
          rw [List.map_map]; simp [Function.comp_def]
        conv => lhs; rw [this, List.zipIdx_map]
        rfl
      have e2 : projP (List.replicate nl ([] : List (Nat × Ref))) = List.replicate nl [] := by
        simp [projP]
      rw [e1, e2]
    rw [hT]
    refine ⟨(todo.foldl (simpleStepG o.stubWidth nl) (s, List.replicate nl [])).2, rfl, hP.symm, a, b, ?_⟩
    rw [hP]
    exact simpleLayers_ids_nodup _ _ hidn
  · -- `algorithm_overlap`
    rw [distributeT_overlap o s nodes hne halg hnl, distribute_overlap o _ hlne halg hnl]
    generalize hL : overlapLayers (labelsOf s nodes) o (maxWidthPerLayer o) ((sortIds (labelsOf s nodes)).length + 1)
      (sortIds (labelsOf s nodes)) = L
    have hLp : L.flatten.Perm (sortIds (labelsOf s nodes)) := by rw [← hL]; exact overlapLayers_perm _ _ _ _ _
    have hLn : L.flatten.Nodup := hLp.nodup_iff.2 hidn
    have hLlt : ∀ k ∈ L.flatten, k < nodes.length := fun k hk => hidlt k (hLp.subset hk)
    have h0 := SInv_labelGL hc o.stubWidth L hLn hLlt
    have hC : Comp (L.length - 1) s (labelGL nodes L) := by
      intro m x hx hcond
      have h1 := labelGL_no_stub nodes L (m + 1) x hx
      have h2 := lt_length_of_mem_getD hx
      rw [labelGL, List.length_map] at h2
      rcases hcond with hcond | hcond
      · rw [h1] at hcond; cases hcond
      · omega
    obtain ⟨a, b, c, d⟩ := overlapStubsG_spec (L.length - 1) s (labelGL nodes L) h0 hC
    rw [projT_labelGL] at c
    rw [projP_labelGL, overlapStubsP_withStubs] at d
    rw [c]
    refine ⟨(overlapStubsG o.stubWidth (L.length - 1) s (labelGL nodes L)).2, rfl, d.symm, a, b, ?_⟩
    rw [d]
    exact withStubs_ids_nodup L hLn


/-! ## §5 `removeOverlapT` on one layer -/

/-- only `cur` / `layerIndex` differ -/
structure CL (s s' : Store) : Prop where
  size : s'.size = s.size
  ideal : ∀ i, (get s' i).ideal = (get s i).ideal
  width : ∀ i, (get s' i).width = (get s i).width
  data : ∀ i, (get s' i).data = (get s i).data
  child : ∀ i, (get s' i).child = (get s i).child
  parent : ∀ i, (get s' i).parent = (get s i).parent

theorem CL.refl (s : Store) : CL s s := ⟨rfl, fun _ => rfl, fun _ => rfl, fun _ => rfl, fun _ => rfl, fun _ => rfl⟩

theorem CL.trans {a b c : Store} (h1 : CL a b) (h2 : CL b c) : CL a c where
  size := h2.size.trans h1.size
  ideal i := (h2.ideal i).trans (h1.ideal i)
  width i := (h2.width i).trans (h1.width i)
  data i := (h2.data i).trans (h1.data i)
  child i := (h2.child i).trans (h1.child i)
  parent i := (h2.parent i).trans (h1.parent i)

theorem CL.frame {s s' : Store} (h : CL s s') : Frame s s' where
  size := by rw [h.size]
  ideal i _ := h.ideal i
  width i _ := h.width i
  data i _ := h.data i
  child i _ hc := by rw [h.child i, hc]

theorem CL_setCur (s : Store) (i : Nat) (c : Rat) : CL s (set s i { get s i with cur := c }) := by
  refine ⟨by simp, ?_, ?_, ?_, ?_, ?_⟩ <;> intro k
  · exact get_set_field (·.ideal) _ _ _ _ (by rfl)
  · exact get_set_field (·.width) _ _ _ _ (by rfl)
  · exact get_set_field (·.data) _ _ _ _ (by rfl)
  · exact get_set_field (·.child) _ _ _ _ (by rfl)
  · exact get_set_field (·.parent) _ _ _ _ (by rfl)

theorem CL_setLayerIndex (s : Store) (i : Nat) (j : Nat) : CL s (set s i { get s i with layerIndex := j }) := by
  refine ⟨by simp, ?_, ?_, ?_, ?_, ?_⟩ <;> intro k
  · exact get_set_field (·.ideal) _ _ _ _ (by rfl)
  · exact get_set_field (·.width) _ _ _ _ (by rfl)
  · exact get_set_field (·.data) _ _ _ _ (by rfl)
  · exact get_set_field (·.child) _ _ _ _ (by rfl)
  · exact get_set_field (·.parent) _ _ _ _ (by rfl)

theorem foldl_setLayerIndex (j : Nat) : ∀ (l : List Nat) (s : Store),
    CL s (l.foldl (fun s i => set s i { get s i with layerIndex := j }) s) ∧
    (∀ i, (get (l.foldl (fun s i => set s i { get s i with layerIndex := j }) s) i).cur = (get s i).cur) ∧
    (∀ i, i ∉ l → get (l.foldl (fun s i => set s i { get s i with layerIndex := j }) s) i = get s i) ∧
    (∀ i ∈ l, i < s.size →
      (get (l.foldl (fun s i => set s i { get s i with layerIndex := j }) s) i).layerIndex = j) := by
  intro l
  induction l with
  | nil => intro s; exact ⟨CL.refl s, fun _ => rfl, fun _ _ => rfl, by simp⟩
  | cons a rest ih =>
    intro s
    rw [List.foldl_cons]
    obtain ⟨h1, h2, h3, h4⟩ := ih (set s a { get s a with layerIndex := j })
    refine ⟨(CL_setLayerIndex s a j).trans h1, ?_, ?_, ?_⟩
    · intro i
      rw [h2 i]
      exact get_set_field (·.cur) _ _ _ _ (by rfl)
    · intro i hi
      rw [List.mem_cons, not_or] at hi
      rw [h3 i hi.2, get_set_ne _ _ _ _ (Ne.symm hi.1)]
    · intro i hi hlt
      by_cases hmem : i ∈ rest
      · exact h4 i hmem (by simpa using hlt)
      · rw [h3 i hmem]
        rcases List.mem_cons.1 hi with rfl | hi
        · rw [get_set_self _ _ _ hlt]
        · exact absurd hi hmem

theorem foldl_setCur : ∀ (l : List (Nat × Int)) (s : Store),
    CL s (l.foldl (fun s (p : Nat × Int) => set s p.1 { get s p.1 with cur := (p.2 : Rat) }) s) ∧
    (∀ i, (get (l.foldl (fun s (p : Nat × Int) => set s p.1 { get s p.1 with cur := (p.2 : Rat) }) s) i).layerIndex
      = (get s i).layerIndex) ∧
    (∀ i, i ∉ l.map Prod.fst →
      get (l.foldl (fun s (p : Nat × Int) => set s p.1 { get s p.1 with cur := (p.2 : Rat) }) s) i = get s i) ∧
    ((l.map Prod.fst).Nodup → ∀ p ∈ l, p.1 < s.size →
      (get (l.foldl (fun s (p : Nat × Int) => set s p.1 { get s p.1 with cur := (p.2 : Rat) }) s) p.1).cur = (p.2 : Rat)) := by
  intro l
  induction l with
  | nil => intro s; exact ⟨CL.refl s, fun _ => rfl, fun _ _ => rfl, by simp⟩
  | cons a rest ih =>
    intro s
    rw [List.foldl_cons]
    obtain ⟨h1, h2, h3, h4⟩ := ih (set s a.1 { get s a.1 with cur := (a.2 : Rat) })
    refine ⟨(CL_setCur s a.1 _).trans h1, ?_, ?_, ?_⟩
    · intro i
      rw [h2 i]
      exact get_set_field (·.layerIndex) _ _ _ _ (by rfl)
    · intro i hi
      rw [List.map_cons, List.mem_cons, not_or] at hi
      rw [h3 i hi.2, get_set_ne _ _ _ _ (Ne.symm hi.1)]
    · intro hn p hp hlt
      rw [List.map_cons, List.nodup_cons] at hn
      rcases List.mem_cons.1 hp with rfl | hp
      · rw [h3 _ hn.1, get_set_self _ _ _ hlt]
      · exact h4 hn.2 p hp (by simpa using hlt)

theorem removeOverlap_order_perm (o : ROpts) (items : List LItem) :
    (removeOverlap o items).order.Perm (List.range items.length) := by
  unfold removeOverlap
  simp only
  have hp := (sort_perm' items.zipIdx).map (·.2)
  rw [List.zipIdx_map_snd, ← List.range_eq_range'] at hp
  exact hp

theorem removeOverlap_pos_length (o : ROpts) (items : List LItem) :
    (removeOverlap o items).pos.length = items.length := by
  have hl : ((sortItems items.zipIdx).map (·.1)).length = items.length := by
    rw [List.length_map, (sort_perm' items.zipIdx).length_eq, List.length_zipIdx]
  unfold removeOverlap
  simp only [List.length_map]
  split
  · next h =>
    rw [List.isEmpty_iff] at h
    rw [h] at hl
    simpa using hl
  · next h =>
    rw [solveSorted_length' _ _ (by simpa using h), hl]

/-- the item the stateful code hands to the solver for node `i` -/
def itemT (s : Store) (i : Nat) : LItem :=
  { target := (match (get s i).parent with
      | some p => (get s p).cur
      | none => (get s i).ideal),
    width := (get s i).width, stub := isStub s i }

theorem removeOverlapT_eq (o : ROpts) (s : Store) (layer : List Nat) :
    removeOverlapT o s layer =
      (((((removeOverlap o (layer.map (itemT s))).order.map (fun k => layer.getD k 0)).zip
          (removeOverlap o (layer.map (itemT s))).pos).foldl
          (fun s (p : Nat × Int) => set s p.1 { get s p.1 with cur := (p.2 : Rat) }) s),
        (removeOverlap o (layer.map (itemT s))).order.map (fun k => layer.getD k 0)) := by
  unfold removeOverlapT
  split
  · next h =>
    rw [List.isEmpty_iff] at h
    subst h
    simp [removeOverlap, sortItems]
  · rfl

theorem itemT_congr {s s' : Store} (h : CL s s') (hcur : ∀ i, (get s' i).cur = (get s i).cur) (i : Nat) :
    itemT s' i = itemT s i := by
  unfold itemT isStub
  rw [h.parent i, h.ideal i, h.width i, h.child i]
  cases (get s i).parent with
  | none => rfl
  | some p => simp only [hcur p]

theorem removeOverlapT_spec (o : FOpts) (labels : List Label) (prev : Option (List Placed)) (s : Store) (j : Nat)
    (g : List (Nat × Ref)) (hn : (g.map Prod.fst).Nodup) (hlt : ∀ x ∈ g, x.1 < s.size)
    (hitems : ∀ x ∈ g, itemT s x.1 = layerItem o labels prev x.2) :
    ∃ Z : List ((Nat × Ref) × Int),
      (Z.map (fun z => z.1)).Perm g ∧
      (removeOverlapT o.toR ((g.map Prod.fst).foldl (fun s i => set s i { get s i with layerIndex := j }) s)
        (g.map Prod.fst)).2 = Z.map (fun z => z.1.1) ∧
      placeLayer o labels prev (g.map Prod.snd) = Z.map (fun z => ⟨z.1.2, z.2⟩) ∧
      CL s (removeOverlapT o.toR ((g.map Prod.fst).foldl (fun s i => set s i { get s i with layerIndex := j }) s)
        (g.map Prod.fst)).1 ∧
      (∀ i, i ∉ g.map Prod.fst →
        get (removeOverlapT o.toR ((g.map Prod.fst).foldl (fun s i => set s i { get s i with layerIndex := j }) s)
          (g.map Prod.fst)).1 i = get s i) ∧
      (∀ z ∈ Z,
        (get (removeOverlapT o.toR ((g.map Prod.fst).foldl (fun s i => set s i { get s i with layerIndex := j }) s)
          (g.map Prod.fst)).1 z.1.1).cur = (z.2 : Rat) ∧
        (get (removeOverlapT o.toR ((g.map Prod.fst).foldl (fun s i => set s i { get s i with layerIndex := j }) s)
          (g.map Prod.fst)).1 z.1.1).layerIndex = j) := by
  obtain ⟨l1, l2, l3, l4⟩ := foldl_setLayerIndex j (g.map Prod.fst) s
  generalize (g.map Prod.fst).foldl (fun s i => set s i { get s i with layerIndex := j }) s = s1 at *
  have hitems1 : (g.map Prod.fst).map (itemT s1) = (g.map Prod.snd).map (layerItem o labels prev) := by
    rw [List.map_map, List.map_map]
    apply List.map_congr_left
    intro x hx
    simp only [Function.comp]
    rw [itemT_congr l1 l2, hitems x hx]
  rw [removeOverlapT_eq, hitems1]
  unfold placeLayer
  generalize hout : removeOverlap o.toR ((g.map Prod.snd).map (layerItem o labels prev)) = out
  have hperm : out.order.Perm (List.range g.length) := by
    have := removeOverlap_order_perm o.toR ((g.map Prod.snd).map (layerItem o labels prev))
    rwa [hout, List.length_map, List.length_map] at this
  have hpos : out.pos.length = g.length := by
    have := removeOverlap_pos_length o.toR ((g.map Prod.snd).map (layerItem o labels prev))
    rwa [hout, List.length_map, List.length_map] at this
  let g' : List (Nat × Ref) := out.order.map (fun k => g.getD k (0, Ref.label 0))
  have hg'len : g'.length = out.pos.length := by
    simp only [g', List.length_map]
    rw [hperm.length_eq, List.length_range, hpos]
  have hg'perm : g'.Perm g := by
    have h1 := hperm.map (fun k => g.getD k (0, Ref.label 0))
    have h2 : (List.range g.length).map (fun k => g.getD k (0, Ref.label 0)) = g := by
      apply List.ext_getElem
      · simp
      · intro i h1 h2
        simp [List.getD_eq_getElem?_getD, List.getElem?_eq_getElem h2]
    rwa [h2] at h1
  have hfst : g'.map Prod.fst = out.order.map (fun k => (g.map Prod.fst).getD k 0) := by
    simp only [g', List.map_map]
    apply List.map_congr_left
    intro k _
    simp only [Function.comp]
    rw [List.getD_eq_getElem?_getD, List.getD_eq_getElem?_getD, List.getElem?_map]
    cases g[k]? <;> rfl
  have hsnd : g'.map Prod.snd = out.order.map (fun k => (g.map Prod.snd).getD k (Ref.label 0)) := by
    simp only [g', List.map_map]
    apply List.map_congr_left
    intro k _
    simp only [Function.comp]
    rw [List.getD_eq_getElem?_getD, List.getD_eq_getElem?_getD, List.getElem?_map]
    cases g[k]? <;> rfl
  have hZ1 : (g'.zip out.pos).map (fun z => z.1) = g' := List.map_fst_zip (by omega)
  obtain ⟨c1, c2, c3, c4⟩ := foldl_setCur (((g'.zip out.pos)).map (fun z => (z.1.1, z.2))) s1
  have hzipeq : (out.order.map (fun k => (g.map Prod.fst).getD k 0)).zip out.pos =
      (g'.zip out.pos).map (fun z => (z.1.1, z.2)) := by
    rw [← hfst, List.zip_map_left]
    rfl
  have hmapfst : ((g'.zip out.pos).map (fun z => (z.1.1, z.2))).map Prod.fst = g'.map Prod.fst := by
    rw [List.map_map]
    conv => rhs; rw [← hZ1, List.map_map]
    rfl
  refine ⟨g'.zip out.pos, ?_, ?_, ?_, ?_, ?_, ?_⟩
  · rw [hZ1]; exact hg'perm
  · simp only
    rw [← hfst]
    conv => lhs; rw [← hZ1, List.map_map]
    rfl
  · show List.zipWith (fun idx p => ({ ref := (g.map Prod.snd).getD idx (Ref.label 0), pos := p } : Placed))
      out.order out.pos = _
    have e : List.zipWith (fun idx p => ({ ref := (g.map Prod.snd).getD idx (Ref.label 0), pos := p } : Placed))
        out.order out.pos = List.zipWith (fun r p => ({ ref := r, pos := p } : Placed))
          (out.order.map (fun k => (g.map Prod.snd).getD k (Ref.label 0))) out.pos := by
      rw [List.zipWith_map_left]
    rw [e, ← hsnd, List.zipWith_map_left, List.zip_eq_zipWith, List.map_zipWith]
  · simp only
    rw [hzipeq]
    exact l1.trans c1
  · intro i hi
    simp only
    rw [hzipeq, c3 i (by rw [hmapfst]; intro h; exact hi ((hg'perm.map Prod.fst).subset h)), l3 i hi]
  · intro z hz
    simp only
    rw [hzipeq]
    have hz1 : z.1 ∈ g := hg'perm.subset (by rw [← hZ1]; exact List.mem_map_of_mem hz)
    have hzlt : z.1.1 < s1.size := by rw [l1.size]; exact hlt _ hz1
    constructor
    · exact c4 (by rw [hmapfst]; exact (hg'perm.map Prod.fst).nodup_iff.2 hn) (z.1.1, z.2)
        (List.mem_map.2 ⟨z, hz, rfl⟩) hzlt
    · rw [c2]
      exact l4 _ (List.mem_map_of_mem hz1) (hlt _ hz1)


/-! ## §6 the per-layer loop of `Force.compute` -/

def placeT (o : FOpts) : Nat → Store → List (List Nat) → Store × List (List Nat)
  | _, s, [] => (s, [])
  | j, s, l :: ls =>
    ((placeT o (j + 1)
        (removeOverlapT o.toR (l.foldl (fun s i => set s i { get s i with layerIndex := j }) s) l).1 ls).1,
      (removeOverlapT o.toR (l.foldl (fun s i => set s i { get s i with layerIndex := j }) s) l).2 ::
        (placeT o (j + 1)
          (removeOverlapT o.toR (l.foldl (fun s i => set s i { get s i with layerIndex := j }) s) l).1 ls).2)

theorem computeT_fold_eq (o : FOpts) : ∀ (layers : List (List Nat)) (j : Nat) (s : Store) (acc : List (List Nat)),
    (layers.zipIdx j).foldl (fun (acc : Store × List (List Nat)) (p : List Nat × Nat) =>
      let s := p.1.foldl (fun s i => set s i { get s i with layerIndex := p.2 }) acc.1
      let ro := removeOverlapT o.toR s p.1
      (ro.1, acc.2 ++ [ro.2])) (s, acc) = ((placeT o j s layers).1, acc ++ (placeT o j s layers).2) := by
  intro layers
  induction layers with
  | nil => intro j s acc; simp [placeT]
  | cons l ls ih =>
    intro j s acc
    rw [List.zipIdx_cons, List.foldl_cons]
    simp only
    rw [ih, placeT]
    simp

def obsT (s : Store) (lvl : Nat) (i : Nat) : ObsT :=
  { ideal := (get s i).ideal, width := (get s i).width, stub := isStub s i, level := lvl,
    layerIndex := (get s i).layerIndex, pos := (get s i).cur, data := (get s i).data }

def obsP (o : FOpts) (labels : List Label) (datas : List Nat) (lvl : Nat) (pl : Placed) : ObsT :=
  { ideal := idealOf labels pl.ref.id, width := if pl.ref.isStub then o.stubWidth else widthOf labels pl.ref.id,
    stub := pl.ref.isStub, level := lvl, layerIndex := lvl, pos := (pl.pos : Rat), data := datas.getD pl.ref.id 0 }

theorem observe_eq (s : Store) (layers : List (List Nat)) :
    observe s layers = (layers.zipIdx 0).map (fun p => p.1.map (obsT s p.2)) := rfl

theorem observePure_eq (o : FOpts) (labels : List Label) (datas : List Nat) (layers : List (List Placed)) :
    observePure o labels datas layers = (layers.zipIdx 0).map (fun p => p.1.map (obsP o labels datas p.2)) := rfl

theorem find?_unique {α : Type} (p : α → Bool) : ∀ (l : List α) (a : α), a ∈ l → p a = true →
    (∀ b ∈ l, p b = true → b = a) → l.find? p = some a := by
  intro l
  induction l with
  | nil => intro a ha; cases ha
  | cons b t ih =>
    intro a ha hpa hu
    by_cases hb : p b = true
    · rw [List.find?_cons_of_pos hb, hu b (by simp) hb]
    · rw [List.find?_cons_of_neg hb]
      rcases List.mem_cons.1 ha with rfl | ha
      · exact absurd hpa hb
      · exact ih a ha hpa (fun c hc hpc => hu c (by simp [hc]) hpc)

/-- the state between two layers: what the distributor established, plus: the targets of the next layer's items, read through
their `parent` links, are what the pure model finds in the layer just placed -/
structure PInv (o : FOpts) (labels : List Label) (datas : List Nat) (s : Store) (prev : Option (List Placed))
    (G : GL) : Prop where
  nodup : (G.flatten.map Prod.fst).Nodup
  lt : ∀ x ∈ G.flatten, x.1 < s.size
  ideal : ∀ x ∈ G.flatten, (get s x.1).ideal = idealOf labels x.2.id
  data : ∀ x ∈ G.flatten, (get s x.1).data = datas.getD x.2.id 0
  width : ∀ x ∈ G.flatten, (get s x.1).width = if x.2.isStub then o.stubWidth else widthOf labels x.2.id
  stub : ∀ x ∈ G.flatten, (get s x.1).child.isSome = x.2.isStub
  idn : ∀ l ∈ G, (l.map (fun x => x.2.id)).Nodup
  link : ∀ m, ∀ x ∈ G.getD (m + 1) [], ∃ y ∈ G.getD m [], (get s x.1).parent = some y.1 ∧ y.2.id = x.2.id
  head : ∀ x ∈ G.getD 0 [], (itemT s x.1).target = (layerItem o labels prev x.2).target

theorem PInv.items {o : FOpts} {labels : List Label} {datas : List Nat} {s : Store} {prev : Option (List Placed)}
    {g : List (Nat × Ref)} {rest : GL} (h : PInv o labels datas s prev (g :: rest)) :
    ∀ x ∈ g, itemT s x.1 = layerItem o labels prev x.2 := by
  intro x hx
  have hxf : x ∈ (g :: rest).flatten := by simp [hx]
  have h1 := h.head x (by simpa using hx)
  have h2 := h.width x hxf
  have h3 := h.stub x hxf
  unfold itemT layerItem at *
  simp only at h1
  simp only [LItem.mk.injEq]
  exact ⟨h1, h2, h3⟩

theorem placeT_spec (o : FOpts) (labels : List Label) (datas : List Nat) :
    ∀ (G : GL) (j : Nat) (s : Store) (prev : Option (List Placed)), PInv o labels datas s prev G →
    (((placeT o j s (projT G)).2.zipIdx j).map (fun p => p.1.map (obsT (placeT o j s (projT G)).1 p.2)) =
      ((placeLayers o labels prev (projP G)).zipIdx j).map (fun p => p.1.map (obsP o labels datas p.2))) ∧
    CL s (placeT o j s (projT G)).1 ∧
    (∀ i, i ∉ G.flatten.map Prod.fst → get (placeT o j s (projT G)).1 i = get s i) := by
  intro G
  induction G with
  | nil =>
    intro j s prev _
    exact ⟨rfl, CL.refl s, fun _ _ => rfl⟩
  | cons g rest ih =>
    intro j s prev h
    have hnd := h.nodup
    rw [List.flatten_cons, List.map_append, List.nodup_append] at hnd
    obtain ⟨hnd1, hnd2, hnd3⟩ := hnd
    have hgf : ∀ x ∈ g, x ∈ (g :: rest).flatten := fun x hx => by simp [hx]
    have hrf : ∀ x ∈ rest.flatten, x ∈ (g :: rest).flatten := fun x hx => by simp [hx]
    obtain ⟨Z, z1, z2, z3, z4, z5, z6⟩ := removeOverlapT_spec o labels prev s j g hnd1
      (fun x hx => h.lt x (hgf x hx)) h.items
    have hproj : projT (g :: rest) = g.map Prod.fst :: projT rest := rfl
    have hprojP : projP (g :: rest) = g.map Prod.snd :: projP rest := rfl
    rw [hproj, hprojP, placeT, placeLayers]
    simp only
    generalize hro : removeOverlapT o.toR
      ((g.map Prod.fst).foldl (fun s i => set s i { get s i with layerIndex := j }) s) (g.map Prod.fst) = ro at *
    generalize hpl : placeLayer o labels prev (g.map Prod.snd) = placed at *
    have hZg : ∀ z ∈ Z, z.1 ∈ g := fun z hz => z1.subset (List.mem_map_of_mem (f := fun z => z.1) hz)
    -- the invariant for the remaining layers
    have hinv : PInv o labels datas ro.1 (some placed) rest := by
      refine ⟨hnd2, ?_, ?_, ?_, ?_, ?_, ?_, ?_, ?_⟩
      · intro x hx; rw [z4.size]; exact h.lt x (hrf x hx)
      · intro x hx; rw [z4.ideal]; exact h.ideal x (hrf x hx)
      · intro x hx; rw [z4.data]; exact h.data x (hrf x hx)
      · intro x hx; rw [z4.width]; exact h.width x (hrf x hx)
      · intro x hx; rw [z4.child]; exact h.stub x (hrf x hx)
      · intro l hl; exact h.idn l (by simp [hl])
      · intro m x hx
        obtain ⟨y, hy, hy1, hy2⟩ := h.link (m + 1) x (by simpa using hx)
        exact ⟨y, by simpa using hy, by rw [z4.parent]; exact hy1, hy2⟩
      · intro x hx
        obtain ⟨y, hy, hy1, hy2⟩ := h.link 0 x (by simpa using hx)
        have hyg : y ∈ g := by simpa using hy
        obtain ⟨z, hz, hzy⟩ := List.mem_map.1 (z1.symm.subset hyg)
        have hcur := (z6 z hz).1
        have htT : (itemT ro.1 x.1).target = (z.2 : Rat) := by
          unfold itemT
          simp only
          rw [z4.parent, hy1]
          simp only
          rw [← hzy]; exact hcur
        rw [htT]
        have hidn : (Z.map (fun z => z.1.2.id)).Nodup := by
          have := (z1.map (fun x : Nat × Ref => x.2.id)).nodup_iff.2 (h.idn g (by simp))
          rwa [List.map_map] at this
        have hfind : placed.find? (fun p => p.ref.id == x.2.id) = some ⟨z.1.2, z.2⟩ := by
          rw [z3]
          refine find?_unique _ _ _ (List.mem_map.2 ⟨z, hz, rfl⟩) ?_ ?_
          · simp only [beq_iff_eq]; rw [hzy]; exact hy2
          · intro b hb hpb
            obtain ⟨z', hz', rfl⟩ := List.mem_map.1 hb
            simp only [beq_iff_eq] at hpb
            have : z' = z := by
              refine List.inj_on_of_nodup_map hidn hz' hz ?_
              rw [hpb, hzy, hy2]
            rw [this]
        unfold layerItem
        simp only [hfind, Option.map_some, Option.getD_some]
    obtain ⟨a, b, c⟩ := ih (j + 1) ro.1 (some placed) hinv
    refine ⟨?_, z4.trans b, ?_⟩
    · rw [List.zipIdx_cons, List.zipIdx_cons, List.map_cons, List.map_cons, a]
      congr 1
      simp only
      rw [z2, z3, List.map_map, List.map_map]
      apply List.map_congr_left
      intro z hz
      have hzg := hZg z hz
      have hnotin : z.1.1 ∉ rest.flatten.map Prod.fst := by
        intro hin
        exact hnd3 _ (List.mem_map_of_mem hzg) _ hin rfl
      have hzf := hgf _ hzg
      simp only [Function.comp, obsT, obsP, isStub]
      rw [c _ hnotin, (z6 z hz).1, (z6 z hz).2, z4.ideal, z4.width, z4.child, z4.data,
        h.ideal _ hzf, h.width _ hzf, h.stub _ hzf, h.data _ hzf]
    · intro i hi
      rw [List.flatten_cons, List.map_append, List.mem_append, not_or] at hi
      rw [c i hi.2, z5 i hi.1]


/-! ## §7 `computeT` -/

theorem removeOverlapT_CL (o : ROpts) (s : Store) (layer : List Nat) : CL s (removeOverlapT o s layer).1 := by
  rw [removeOverlapT_eq]
  exact (foldl_setCur _ s).1

theorem placeT_CL (o : FOpts) : ∀ (layers : List (List Nat)) (j : Nat) (s : Store), CL s (placeT o j s layers).1 := by
  intro layers
  induction layers with
  | nil => intro j s; exact CL.refl s
  | cons l ls ih =>
    intro j s
    rw [placeT]
    exact ((foldl_setLayerIndex j l s).1.trans (removeOverlapT_CL _ _ _)).trans (ih _ _)

theorem computeT_eq (e : Engine) (s : Store) :
    computeT e s =
      ({ e with
          nodes := if (distributeT e.opts.toD (e.nodes.foldl removeStub s) e.nodes).2.2 then
              (placeT e.opts 0 (distributeT e.opts.toD (e.nodes.foldl removeStub s) e.nodes).1
                (distributeT e.opts.toD (e.nodes.foldl removeStub s) e.nodes).2.1).2.headD e.nodes
            else e.nodes,
          layers := some (placeT e.opts 0 (distributeT e.opts.toD (e.nodes.foldl removeStub s) e.nodes).1
                (distributeT e.opts.toD (e.nodes.foldl removeStub s) e.nodes).2.1).2 },
        (placeT e.opts 0 (distributeT e.opts.toD (e.nodes.foldl removeStub s) e.nodes).1
                (distributeT e.opts.toD (e.nodes.foldl removeStub s) e.nodes).2.1).1) := by
  unfold computeT
  simp only
  have := computeT_fold_eq e.opts (distributeT e.opts.toD (e.nodes.foldl removeStub s) e.nodes).2.1 0
    (distributeT e.opts.toD (e.nodes.foldl removeStub s) e.nodes).1 []
  simp only [List.nil_append] at this
  rw [this]

theorem computeT_frame (e : Engine) (s : Store) : Frame s (computeT e s).2 := by
  rw [computeT_eq]
  exact ((removeStub_fold e.nodes s).1.frame.trans (distributeT_frame _ _ _)).trans (placeT_CL _ _ _ _).frame

theorem distributeT_flag (o : DOpts) (s : Store) (nodes : List Nat) (h : o.algorithm ≠ .none) :
    (distributeT o s nodes).2.2 = false := by
  by_cases hne : nodes = []
  · subst hne; rw [distributeT_nil]
  by_cases hnl : estimateLayers o ((sortIds (labelsOf s nodes)).map (widthOf (labelsOf s nodes))) ≤ 1
  · rw [distributeT_single o s nodes hne h hnl]
  have halg : o.algorithm = .simple ∨ o.algorithm = .overlap := by
    cases h' : o.algorithm <;> simp_all
  rcases halg with halg | halg
  · rw [distributeT_simple o s nodes hne halg hnl]
  · rw [distributeT_overlap o s nodes hne halg hnl]

theorem removeOverlapT_perm (o : ROpts) (s : Store) (layer : List Nat) : (removeOverlapT o s layer).2.Perm layer := by
  rw [removeOverlapT_eq]
  simp only
  have h := (removeOverlap_order_perm o (layer.map (itemT s))).map (fun k => layer.getD k 0)
  rw [List.length_map, range_map_getD] at h
  exact h

theorem computeT_nodes (e : Engine) (s : Store) :
    (computeT e s).1.nodes.Perm e.nodes ∧ (e.opts.algorithm ≠ .none → (computeT e s).1.nodes = e.nodes) := by
  rw [computeT_eq]
  simp only
  by_cases h : e.opts.algorithm = .none
  · refine ⟨?_, fun h' => absurd h h'⟩
    by_cases hne : e.nodes = []
    · rw [hne, distributeT_nil]; simp
    · rw [distributeT_none _ _ _ hne (show e.opts.toD.algorithm = .none from h)]
      simp only [if_true, placeT, List.headD_cons]
      exact removeOverlapT_perm _ _ _
  · have := distributeT_flag e.opts.toD (e.nodes.foldl removeStub s) e.nodes h
    rw [this]
    simp

theorem clean_of_good (s : Store) (nodes : List Nat) (hlt : ∀ i ∈ nodes, i < s.size) (hn : nodes.Nodup)
    (hl : ∀ i ∈ nodes, (get s i).child = none) :
    Clean (nodes.foldl removeStub s) nodes ∧ labelsOf (nodes.foldl removeStub s) nodes = labelsOf s nodes ∧
    datasOf (nodes.foldl removeStub s) nodes = nodes.map (fun i => (get s i).data) := by
  obtain ⟨h1, h2⟩ := removeStub_fold nodes s
  refine ⟨⟨fun i hi => by rw [h1.size]; exact hlt i hi, hn, ?_, h2⟩, ?_, ?_⟩
  · intro i hi
    rcases h1.child i with h | h
    · exact h
    · rw [h]; exact hl i hi
  · unfold labelsOf
    apply List.map_congr_left
    intro i _
    rw [h1.ideal, h1.width]
  · unfold datasOf
    apply List.map_congr_left
    intro i _
    rw [h1.data]

theorem PInv_of_SInv {o : FOpts} {labels : List Label} {datas : List Nat} {s : Store} {G : GL}
    (h : SInv labels datas o.stubWidth s G) (hc : Comp 0 s G) (hid : ∀ l ∈ projP G, (l.map Ref.id).Nodup) :
    PInv o labels datas s none G := by
  refine ⟨h.nodup, h.lt, h.ideal, h.data, h.width, h.stub, ?_, ?_, ?_⟩
  · intro l hl
    have := hid (l.map Prod.snd) (List.mem_map_of_mem hl)
    rwa [List.map_map] at this
  · intro m x hx
    have hp := hc m x hx (Or.inr (Nat.succ_pos m))
    unfold HP at hp
    cases hpar : (get s x.1).parent with
    | none => exact absurd hpar hp
    | some p =>
      obtain ⟨m', y, e, hy, hy1, hy2⟩ := h.par (m + 1) x hx p hpar
      have : m' = m := by omega
      subst this
      exact ⟨y, hy, by rw [hy1], hy2⟩
  · intro x hx
    have hpar : (get s x.1).parent = none := by
      cases hpar : (get s x.1).parent with
      | none => rfl
      | some p =>
        obtain ⟨m', y, e, _⟩ := h.par 0 x hx p hpar
        omega
    unfold itemT layerItem
    simp only [hpar]
    exact h.ideal x (mem_flatten_of_mem_getD hx)

theorem computeT_observe (e : Engine) (s : Store) (hlt : ∀ i ∈ e.nodes, i < s.size) (hn : e.nodes.Nodup)
    (hl : ∀ i ∈ e.nodes, (get s i).child = none) :
    observe (computeT e s).2 ((computeT e s).1.layers.getD []) =
      observePure e.opts (labelsOf s e.nodes) (e.nodes.map (fun i => (get s i).data))
        (Layout.compute e.opts (labelsOf s e.nodes)) := by
  obtain ⟨hc, hlab, hdat⟩ := clean_of_good s e.nodes hlt hn hl
  obtain ⟨G, g1, g2, g3, g4, g5⟩ := distributeT_spec e.opts.toD (e.nodes.foldl removeStub s) e.nodes hc
  rw [hlab] at g2 g3
  rw [hdat] at g3
  have hinv := PInv_of_SInv (o := e.opts) g3 g4 g5
  have := (placeT_spec e.opts (labelsOf s e.nodes) (e.nodes.map (fun i => (get s i).data)) G 0 _ none hinv).1
  rw [computeT_eq]
  simp only [Option.getD_some]
  rw [observe_eq, observePure_eq, g1, this]
  unfold Layout.compute
  rw [g2]


/-! ## §8 histories -/

/-- the nodes exist, are pairwise distinct and are labels -/
structure GoodN (s : Store) (nodes : List Nat) : Prop where
  lt : ∀ i ∈ nodes, i < s.size
  nodup : nodes.Nodup
  label : ∀ i ∈ nodes, (get s i).child = none

theorem GoodN.nil (s : Store) : GoodN s [] := ⟨by simp, List.nodup_nil, by simp⟩

theorem GoodN.frame {s s' : Store} {L : List Nat} (h : GoodN s L) (hf : Frame s s') : GoodN s' L :=
  ⟨fun i hi => Nat.lt_of_lt_of_le (h.lt i hi) hf.size, h.nodup, fun i hi => hf.child i (h.lt i hi) (h.label i hi)⟩

theorem GoodN.perm {s : Store} {L L' : List Nat} (h : GoodN s L) (hp : L'.Perm L) : GoodN s L' :=
  ⟨fun i hi => h.lt i (hp.subset hi), hp.nodup_iff.2 h.nodup, fun i hi => h.label i (hp.subset hi)⟩

theorem computeT_goodN (e : Engine) (s : Store) (h : GoodN s e.nodes) :
    GoodN (computeT e s).2 (computeT e s).1.nodes :=
  (h.frame (computeT_frame e s)).perm (computeT_nodes e s).1

theorem freshNodes_fold : ∀ (ls : List Label) (acc : Store × List Nat),
    GoodN acc.1 acc.2 →
    GoodN (ls.foldl (fun (acc : Store × List Nat) l =>
        ((mkNode acc.1 l.ideal l.width acc.1.size).1, acc.2 ++ [(mkNode acc.1 l.ideal l.width acc.1.size).2])) acc).1
      (ls.foldl (fun (acc : Store × List Nat) l =>
        ((mkNode acc.1 l.ideal l.width acc.1.size).1, acc.2 ++ [(mkNode acc.1 l.ideal l.width acc.1.size).2])) acc).2 ∧
    Frame acc.1 (ls.foldl (fun (acc : Store × List Nat) l =>
        ((mkNode acc.1 l.ideal l.width acc.1.size).1, acc.2 ++ [(mkNode acc.1 l.ideal l.width acc.1.size).2])) acc).1 := by
  intro ls
  induction ls with
  | nil => intro acc h; exact ⟨h, Frame.refl _⟩
  | cons l rest ih =>
    intro acc h
    rw [List.foldl_cons]
    have hfr : Frame acc.1 (mkNode acc.1 l.ideal l.width acc.1.size).1 := by
      unfold mkNode
      refine ⟨by simp, ?_, ?_, ?_, ?_⟩ <;> intro i hi
      · rw [get_push_lt _ _ _ hi]
      · rw [get_push_lt _ _ _ hi]
      · rw [get_push_lt _ _ _ hi]
      · rw [get_push_lt _ _ _ hi]; exact id
    have hstep : GoodN (mkNode acc.1 l.ideal l.width acc.1.size).1
        (acc.2 ++ [(mkNode acc.1 l.ideal l.width acc.1.size).2]) := by
      have h' := h.frame hfr
      refine ⟨?_, ?_, ?_⟩
      · intro i hi
        rcases List.mem_append.1 hi with hi | hi
        · exact h'.lt i hi
        · simp only [List.mem_singleton] at hi
          subst hi
          simp [mkNode]
      · rw [List.nodup_append]
        refine ⟨h.nodup, List.nodup_singleton _, ?_⟩
        intro a ha b hb
        simp only [List.mem_singleton] at hb
        subst hb
        have := h.lt a ha
        simp only [mkNode]
        omega
      · intro i hi
        rcases List.mem_append.1 hi with hi | hi
        · exact h'.label i hi
        · simp only [List.mem_singleton] at hi
          subst hi
          simp only [mkNode]
          rw [get_push_size]
    obtain ⟨a, b⟩ := ih ((mkNode acc.1 l.ideal l.width acc.1.size).1,
      acc.2 ++ [(mkNode acc.1 l.ideal l.width acc.1.size).2]) hstep
    exact ⟨a, hfr.trans b⟩

theorem world_goodN (ops : List Op) :
    GoodN (World.run ops).store (World.run ops).engine.nodes ∧ GoodN (World.run ops).store (World.run ops).last := by
  unfold World.run
  have key : ∀ (ops : List Op) (w : World), (GoodN w.store w.engine.nodes ∧ GoodN w.store w.last) →
      GoodN (ops.foldl World.step w).store (ops.foldl World.step w).engine.nodes ∧
      GoodN (ops.foldl World.step w).store (ops.foldl World.step w).last := by
    intro ops
    induction ops with
    | nil => intro w h; exact h
    | cons op rest ih =>
      intro w h
      rw [List.foldl_cons]
      apply ih
      cases op with
      | newEngine o => exact ⟨GoodN.nil _, h.2⟩
      | setOptions o => exact h
      | freshNodes ls =>
        simp only [World.step]
        split
        · exact h
        · obtain ⟨a, _⟩ := freshNodes_fold ls (w.store, []) (GoodN.nil _)
          exact ⟨a, a⟩
      | sameNodes =>
        simp only [World.step]
        split
        · exact h
        · exact ⟨h.2, h.2⟩
      | compute =>
        exact ⟨computeT_goodN _ _ h.1, h.2.frame (computeT_frame _ _)⟩
  exact key ops World.init ⟨GoodN.nil _, GoodN.nil _⟩

end Labella.EngineT
