import Labella.Proofs.VpscFrame
import Mathlib.Logic.Relation
import Mathlib.Algebra.Order.Field.Rat
import Mathlib.Tactic.Linarith
import Mathlib.Tactic.Ring
/-! # Section M: merging two blocks across a constraint (`Blocks.merge`, `Block.mergeAcross`)

`mergeBlocks st ci` activates the constraint `ci`, moves every variable listed in the smaller block's `vars` into
the other block and removes the emptied block from the block list.  `Inv` is preserved **provided the `vars`
lists are duplicate-free** (`VarsNodup`, defined in `VpscInv.lean`): `mergeAcross` shifts the offset of a variable
once per occurrence in the list, so without that hypothesis `tight` fails for the newly activated constraint
(counterexample in `REPORT.md` of section M).  `VarsNodup` is preserved too (`mergeBlocks_varsNodup`).

Uses from section F: `removeBlock_coreEq`, `Inv.of_coreEq`, `VarsNodup.of_coreEq`. -/
namespace Labella.Vpsc

/-! ## 1. generic graph lemmas -/

/-- reachability after adding the edge `x — y` (both directions) to a relation -/
private theorem rtg_add_edge {α : Type} {R R' : α → α → Prop} {x y : α}
    (h : ∀ a b, R' a b ↔ (R a b ∨ (a = x ∧ b = y) ∨ (a = y ∧ b = x))) (u v : α) :
    Relation.ReflTransGen R' u v ↔
      (Relation.ReflTransGen R u v ∨ (Relation.ReflTransGen R u x ∧ Relation.ReflTransGen R y v) ∨
        (Relation.ReflTransGen R u y ∧ Relation.ReflTransGen R x v)) := by
  constructor
  · intro p
    induction p with
    | refl => exact Or.inl Relation.ReflTransGen.refl
    | tail _ hwv ih =>
      rcases (h _ _).1 hwv with hr | ⟨rfl, rfl⟩ | ⟨rfl, rfl⟩
      · rcases ih with a | ⟨a, b⟩ | ⟨a, b⟩
        · exact Or.inl (a.tail hr)
        · exact Or.inr (Or.inl ⟨a, b.tail hr⟩)
        · exact Or.inr (Or.inr ⟨a, b.tail hr⟩)
      · rcases ih with a | ⟨a, _⟩ | ⟨a, _⟩
        · exact Or.inr (Or.inl ⟨a, Relation.ReflTransGen.refl⟩)
        · exact Or.inr (Or.inl ⟨a, Relation.ReflTransGen.refl⟩)
        · exact Or.inl a
      · rcases ih with a | ⟨a, _⟩ | ⟨a, _⟩
        · exact Or.inr (Or.inr ⟨a, Relation.ReflTransGen.refl⟩)
        · exact Or.inl a
        · exact Or.inr (Or.inr ⟨a, Relation.ReflTransGen.refl⟩)
  · have hmono : ∀ a b, Relation.ReflTransGen R a b → Relation.ReflTransGen R' a b :=
      fun a b p => Relation.ReflTransGen.mono (fun a b r => (h a b).2 (Or.inl r)) a b p
    have hxy : R' x y := (h x y).2 (Or.inr (Or.inl ⟨rfl, rfl⟩))
    have hyx : R' y x := (h y x).2 (Or.inr (Or.inr ⟨rfl, rfl⟩))
    rintro (a | ⟨a, b⟩ | ⟨a, b⟩)
    · exact hmono _ _ a
    · exact ((hmono _ _ a).tail hxy).trans (hmono _ _ b)
    · exact ((hmono _ _ a).tail hyx).trans (hmono _ _ b)

private theorem Adj.symm {st : St} {x : Option Nat} {u v : Nat} (h : Adj st x u v) : Adj st x v u := by
  obtain ⟨ci, h1, h2, h3, h4⟩ := h
  exact ⟨ci, h1, h2, h3, h4.symm⟩

private theorem Conn.symm {st : St} {x : Option Nat} {u v : Nat} (h : Conn st x u v) : Conn st x v u := by
  induction h with
  | refl => exact Relation.ReflTransGen.refl
  | tail _ hwv ih => exact Relation.ReflTransGen.head hwv.symm ih

private theorem Adj.to_none {st : St} {x : Option Nat} {u v : Nat} (h : Adj st x u v) : Adj st none u v := by
  obtain ⟨ci, h1, _, h3, h4⟩ := h
  exact ⟨ci, h1, by simp, h3, h4⟩

private theorem Conn.to_none {st : St} {x : Option Nat} {u v : Nat} (h : Conn st x u v) : Conn st none u v :=
  Relation.ReflTransGen.mono (fun _ _ => Adj.to_none) _ _ h

/-! ## 2. the effect of `mergeAcross` -/

/-- the loop body of `mergeAcross` -/
def mstep (sb : Nat) (dist : Rat) (st : St) (i : Nat) : St :=
  addVariable (setV st i { getV st i with offset := (getV st i).offset + dist }) sb i

/-- what `mergeAcross` does to a moved variable -/
def moved (sb : Nat) (dist : Rat) (v : V) : V := { v with offset := v.offset + dist, block := sb }

theorem mstep_cs (sb : Nat) (d : Rat) (st : St) (i : Nat) : (mstep sb d st i).cs = st.cs := rfl
theorem mstep_list (sb : Nat) (d : Rat) (st : St) (i : Nat) : (mstep sb d st i).list = st.list := rfl
theorem mstep_inactive (sb : Nat) (d : Rat) (st : St) (i : Nat) : (mstep sb d st i).inactive = st.inactive := rfl
theorem mstep_err (sb : Nat) (d : Rat) (st : St) (i : Nat) : (mstep sb d st i).err = st.err := rfl
theorem mstep_vs_size (sb : Nat) (d : Rat) (st : St) (i : Nat) : (mstep sb d st i).vs.size = st.vs.size := by
  simp [mstep, addVariable]
theorem mstep_bs_size (sb : Nat) (d : Rat) (st : St) (i : Nat) : (mstep sb d st i).bs.size = st.bs.size := by
  simp [mstep, addVariable]

theorem getV_mstep (sb : Nat) (d : Rat) (st : St) (i u : Nat) :
    getV (mstep sb d st i) u = if u = i ∧ i < st.vs.size then moved sb d (getV st i) else getV st u := by
  unfold mstep addVariable moved
  simp only [getV_setB, getV_setV, setV_vs_size]
  by_cases hi : i < st.vs.size
  · by_cases hu : u = i
    · simp [hi, hu]
    · simp [hi, hu]
  · simp [hi]

theorem vars_mstep (sb : Nat) (d : Rat) (st : St) (i k : Nat) :
    (getB (mstep sb d st i) k).vars =
      if k = sb ∧ sb < st.bs.size then (getB st sb).vars ++ [i] else (getB st k).vars := by
  unfold mstep addVariable
  simp only [getB_setB, getB_setV, setV_bs]
  by_cases h : k = sb ∧ sb < st.bs.size
  · simp [h, addStats]
  · simp [h]

theorem foldl_mstep_fields (sb : Nat) (d : Rat) (l : List Nat) (st : St) :
    (l.foldl (mstep sb d) st).cs = st.cs ∧ (l.foldl (mstep sb d) st).list = st.list ∧
    (l.foldl (mstep sb d) st).inactive = st.inactive ∧ (l.foldl (mstep sb d) st).err = st.err ∧
    (l.foldl (mstep sb d) st).vs.size = st.vs.size ∧ (l.foldl (mstep sb d) st).bs.size = st.bs.size := by
  induction l generalizing st with
  | nil => simp
  | cons i t ih =>
    simp only [List.foldl_cons]
    obtain ⟨h1, h2, h3, h4, h5, h6⟩ := ih (mstep sb d st i)
    exact ⟨h1.trans (mstep_cs ..), h2.trans (mstep_list ..), h3.trans (mstep_inactive ..), h4.trans (mstep_err ..),
      h5.trans (mstep_vs_size ..), h6.trans (mstep_bs_size ..)⟩

theorem getV_foldl_mstep (sb : Nat) (d : Rat) (l : List Nat) (hl : l.Nodup) (st : St) (u : Nat) :
    getV (l.foldl (mstep sb d) st) u =
      if u ∈ l ∧ u < st.vs.size then moved sb d (getV st u) else getV st u := by
  induction l generalizing st with
  | nil => simp
  | cons i t ih =>
    simp only [List.foldl_cons]
    obtain ⟨hit, ht⟩ := List.nodup_cons.1 hl
    rw [ih ht, getV_mstep, mstep_vs_size]
    by_cases hu : u = i
    · subst hu
      by_cases hs : u < st.vs.size
      · simp [hit, hs]
      · simp [hs]
    · have : ¬ (u = i ∧ i < st.vs.size) := fun h => hu h.1
      simp [hu]

theorem vars_foldl_mstep (sb : Nat) (d : Rat) (l : List Nat) (st : St) (k : Nat) :
    (getB (l.foldl (mstep sb d) st) k).vars =
      if k = sb ∧ sb < st.bs.size then (getB st sb).vars ++ l else (getB st k).vars := by
  induction l generalizing st with
  | nil =>
    by_cases h : k = sb ∧ sb < st.bs.size
    · simp [h.1]
    · simp [h]
  | cons i t ih =>
    simp only [List.foldl_cons]
    rw [ih, mstep_bs_size]
    simp only [vars_mstep]
    by_cases h : k = sb ∧ sb < st.bs.size
    · simp [h]
    · simp [h]

theorem mergeAcross_eq (st : St) (sb b ci : Nat) (dist : Rat) :
    mergeAcross st sb b ci dist =
      (let st1 := setC st ci { getC st ci with active := true }
       let st2 := (getB st b).vars.foldl (mstep sb dist) st1
       setB st2 sb { getB st2 sb with posn := getPosn (getB st2 sb) }) := rfl

/-- the net effect of `mergeAcross st sb b ci d` -/
structure MergeEff (st st' : St) (sb b ci : Nat) (d : Rat) : Prop where
  vsize : st'.vs.size = st.vs.size
  csize : st'.cs.size = st.cs.size
  bsize : st'.bs.size = st.bs.size
  inactive : st'.inactive = st.inactive
  err : st'.err = st.err
  gv : ∀ u, getV st' u =
    if u < st.vs.size ∧ (getV st u).block = b then moved sb d (getV st u) else getV st u
  gc : ∀ j, getC st' j = if j = ci then { getC st ci with active := true } else getC st j
  varsSelf : (getB st' sb).vars = (getB st sb).vars ++ (getB st b).vars
  varsOther : ∀ k, k ≠ sb → (getB st' k).vars = (getB st k).vars

theorem mergeAcross_eff (st : St) (sb b ci : Nat) (d : Rat) (hinv : Inv st) (hnd : VarsNodup st)
    (hci : ci < st.cs.size) (hself : sb < st.bs.size) (y : Nat) (hy : y < st.vs.size)
    (hyb : (getV st y).block = b) : MergeEff st (mergeAcross st sb b ci d) sb b ci d := by
  rw [mergeAcross_eq]
  have hl : (getB (setC st ci { getC st ci with active := true }) b).vars.Nodup := by
    rw [getB_setC, ← hyb]; exact hnd y hy
  obtain ⟨f1, f2, f3, f4, f5, f6⟩ := foldl_mstep_fields sb d (getB st b).vars
    (setC st ci { getC st ci with active := true })
  refine ⟨?_, ?_, ?_, ?_, ?_, ?_, ?_, ?_, ?_⟩
  · simp only [setB_vs]; rw [f5]; simp
  · simp only [setB_cs]; rw [f1]; simp
  · simp only [setB_bs_size]; rw [f6]; simp
  · simp only [setB_inactive]; rw [f3]; simp
  · simp only [setB_err]; rw [f4]; simp
  · intro u
    simp only [getV_setB]
    rw [getV_foldl_mstep sb d _ (by rw [getB_setC] at hl; exact hl)]
    simp only [getV_setC, setC_vs]
    have hm := hinv.members y hy u
    rw [hyb] at hm
    by_cases hu : u < st.vs.size ∧ (getV st u).block = b
    · simp [hm.2 hu, hu.1, hu.2]
    · have : ¬ u ∈ (getB st b).vars := fun h => hu (hm.1 h)
      simp [this, hu]
  · intro j
    simp only [getC_setB]
    have : ∀ s : St, getC s j = s.cs.getD j default := fun _ => rfl
    rw [this, f1, ← this, getC_setC]
    simp [hci]
  · simp only [getB_setB]
    rw [f6]
    simp only [setC_bs, hself, and_self, if_true]
    rw [vars_foldl_mstep]
    simp [hself]
  · intro k hk
    simp only [getB_setB]
    rw [if_neg (fun h => hk h.1), vars_foldl_mstep, if_neg (fun h => hk h.1)]
    simp

/-! ## 3. the invariant after `mergeAcross` -/

/-- `mergeAcross` in the situation `Blocks.merge` calls it: `x` is the end of `ci` inside the surviving block
`sb`, `y` its end inside the block `b` that is moved, `d` makes `ci` tight -/
structure MergeCtx (st st' : St) (sb b ci : Nat) (d : Rat) (x y : Nat) : Prop
    extends MergeEff st st' sb b ci d where
  inv : Inv st
  nd : VarsNodup st
  hci : ci < st.cs.size
  ha : (getC st ci).active = false
  hx : x < st.vs.size
  hy : y < st.vs.size
  hxs : (getV st x).block = sb
  hyb : (getV st y).block = b
  hne : sb ≠ b
  hd : ((getC st ci).l = x ∧ (getC st ci).r = y ∧
          (getV st y).offset + d - (getV st x).offset = (getC st ci).g) ∨
       ((getC st ci).l = y ∧ (getC st ci).r = x ∧
          (getV st x).offset - ((getV st y).offset + d) = (getC st ci).g)

namespace MergeCtx
variable {st st' : St} {sb b ci : Nat} {d : Rat} {x y : Nat}

theorem blk (M : MergeCtx st st' sb b ci d x y) (u : Nat) :
    (getV st' u).block = if u < st.vs.size ∧ (getV st u).block = b then sb else (getV st u).block := by
  rw [M.gv]; split <;> rfl

theorem off (M : MergeCtx st st' sb b ci d x y) (u : Nat) :
    (getV st' u).offset =
      if u < st.vs.size ∧ (getV st u).block = b then (getV st u).offset + d else (getV st u).offset := by
  rw [M.gv]; split <;> rfl

theorem vstat (M : MergeCtx st st' sb b ci d x y) (u : Nat) :
    (getV st' u).d = (getV st u).d ∧ (getV st' u).w = (getV st u).w ∧ (getV st' u).s = (getV st u).s ∧
    (getV st' u).cOut = (getV st u).cOut ∧ (getV st' u).cIn = (getV st u).cIn := by
  rw [M.gv]; split <;> exact ⟨rfl, rfl, rfl, rfl, rfl⟩

theorem cstat (M : MergeCtx st st' sb b ci d x y) (j : Nat) :
    (getC st' j).l = (getC st j).l ∧ (getC st' j).r = (getC st j).r ∧ (getC st' j).g = (getC st j).g := by
  rw [M.gc]; split
  · next h => subst h; exact ⟨rfl, rfl, rfl⟩
  · exact ⟨rfl, rfl, rfl⟩

theorem cunsat (M : MergeCtx st st' sb b ci d x y) (j : Nat) : (getC st' j).unsat = (getC st j).unsat := by
  rw [M.gc]; split
  · next h => subst h; rfl
  · rfl

theorem cactive_ne (M : MergeCtx st st' sb b ci d x y) (j : Nat) (h : j ≠ ci) :
    (getC st' j).active = (getC st j).active := by
  rw [M.gc, if_neg h]

theorem cactive_ci (M : MergeCtx st st' sb b ci d x y) : (getC st' ci).active = true := by
  rw [M.gc, if_pos rfl]

theorem frame (M : MergeCtx st st' sb b ci d x y) : Frame st st' :=
  ⟨M.vsize, M.csize, Nat.le_of_eq M.bsize.symm, M.vstat, M.cstat, fun h => M.err ▸ h⟩

theorem ends (M : MergeCtx st st' sb b ci d x y) :
    ((getC st ci).l = x ∧ (getC st ci).r = y) ∨ ((getC st ci).l = y ∧ (getC st ci).r = x) := by
  rcases M.hd with ⟨h1, h2, _⟩ | ⟨h1, h2, _⟩
  · exact Or.inl ⟨h1, h2⟩
  · exact Or.inr ⟨h1, h2⟩

theorem adj (M : MergeCtx st st' sb b ci d x y) (z : Option Nat) (u v : Nat) :
    Adj st' z u v ↔ (Adj st z u v ∨ (some ci ≠ z ∧ ((u = x ∧ v = y) ∨ (u = y ∧ v = x)))) := by
  constructor
  · rintro ⟨j, hj, hz, hact, he⟩
    by_cases hjc : j = ci
    · subst hjc
      right
      refine ⟨hz, ?_⟩
      rw [(M.cstat j).1, (M.cstat j).2.1] at he
      rcases M.ends with ⟨e1, e2⟩ | ⟨e1, e2⟩
      · rw [e1, e2] at he
        rcases he with ⟨rfl, rfl⟩ | ⟨rfl, rfl⟩
        · exact Or.inl ⟨rfl, rfl⟩
        · exact Or.inr ⟨rfl, rfl⟩
      · rw [e1, e2] at he
        rcases he with ⟨rfl, rfl⟩ | ⟨rfl, rfl⟩
        · exact Or.inr ⟨rfl, rfl⟩
        · exact Or.inl ⟨rfl, rfl⟩
    · left
      rw [M.cactive_ne j hjc] at hact
      rw [(M.cstat j).1, (M.cstat j).2.1] at he
      exact ⟨j, M.csize ▸ hj, hz, hact, he⟩
  · rintro (⟨j, hj, hz, hact, he⟩ | ⟨hz, he⟩)
    · have hjc : j ≠ ci := by
        rintro rfl
        rw [M.ha] at hact; exact Bool.false_ne_true hact
      refine ⟨j, M.csize.symm ▸ hj, hz, ?_, ?_⟩
      · rw [M.cactive_ne j hjc]; exact hact
      · rw [(M.cstat j).1, (M.cstat j).2.1]; exact he
    · refine ⟨ci, M.csize.symm ▸ M.hci, hz, M.cactive_ci, ?_⟩
      rw [(M.cstat ci).1, (M.cstat ci).2.1]
      rcases M.ends with ⟨e1, e2⟩ | ⟨e1, e2⟩
      · rw [e1, e2]
        rcases he with ⟨rfl, rfl⟩ | ⟨rfl, rfl⟩
        · exact Or.inl ⟨rfl, rfl⟩
        · exact Or.inr ⟨rfl, rfl⟩
      · rw [e1, e2]
        rcases he with ⟨rfl, rfl⟩ | ⟨rfl, rfl⟩
        · exact Or.inr ⟨rfl, rfl⟩
        · exact Or.inl ⟨rfl, rfl⟩

/-- excluding the inactive constraint `ci` changes nothing in the old graph -/
theorem adj_old_ci (M : MergeCtx st st' sb b ci d x y) (u v : Nat) :
    Adj st (some ci) u v ↔ Adj st none u v := by
  constructor
  · exact Adj.to_none
  · rintro ⟨j, hj, _, hact, he⟩
    refine ⟨j, hj, ?_, hact, he⟩
    intro h
    have : j = ci := Option.some.inj h
    subst this
    rw [M.ha] at hact; exact Bool.false_ne_true hact

theorem conn_ne (M : MergeCtx st st' sb b ci d x y) (z : Option Nat) (hz : some ci ≠ z) (u v : Nat) :
    Conn st' z u v ↔ (Conn st z u v ∨ (Conn st z u x ∧ Conn st z y v) ∨ (Conn st z u y ∧ Conn st z x v)) :=
  rtg_add_edge (fun a c => by rw [M.adj z a c]; simp [hz]) u v

theorem conn_ci (M : MergeCtx st st' sb b ci d x y) (u v : Nat) :
    Conn st' (some ci) u v ↔ Conn st none u v := by
  have e : Adj st' (some ci) = Adj st none := by
    funext a c
    apply propext
    rw [M.adj (some ci) a c, M.adj_old_ci]
    simp
  unfold Conn
  rw [e]

/-- the two blocks are different components of the old graph -/
theorem not_conn_xy (M : MergeCtx st st' sb b ci d x y) : ¬ Conn st none x y := by
  intro h
  have := (M.inv.comps x y M.hx M.hy).2 h
  rw [M.hxs, M.hyb] at this
  exact M.hne this

theorem wf (M : MergeCtx st st' sb b ci d x y) : WF st' := by
  have W := M.inv.wf
  refine ⟨?_, ?_, ?_, ?_, ?_, ?_, ?_, ?_⟩
  · intro j hj
    rw [M.csize] at hj
    rw [(M.cstat j).1, (M.cstat j).2.1, M.vsize]
    exact W.lr j hj
  · intro j hj
    rw [M.csize] at hj
    rw [(M.cstat j).1, (M.vstat _).2.2.2.1]
    exact W.out_mem j hj
  · intro j hj
    rw [M.csize] at hj
    rw [(M.cstat j).2.1, (M.vstat _).2.2.2.2]
    exact W.in_mem j hj
  · intro v hv j hj
    rw [M.vsize] at hv
    rw [(M.vstat _).2.2.2.1] at hj
    rw [M.csize, (M.cstat j).1]
    exact W.out_sound v hv j hj
  · intro v hv j hj
    rw [M.vsize] at hv
    rw [(M.vstat _).2.2.2.2] at hj
    rw [M.csize, (M.cstat j).2.1]
    exact W.in_sound v hv j hj
  · intro v hv
    rw [M.vsize] at hv
    rw [(M.vstat v).2.2.1]
    exact W.scale_ne v hv
  · intro v hv
    rw [M.vsize] at hv
    rw [M.blk, M.bsize]
    split
    · rw [← M.hxs]; exact W.block_lt x M.hx
    · exact W.block_lt v hv
  · intro j hj
    rw [M.inactive] at hj
    rw [M.csize]
    exact W.inactive_lt j hj

theorem tight (M : MergeCtx st st' sb b ci d x y) (j : Nat) (hj : j < st'.cs.size)
    (hact : (getC st' j).active = true) :
    (getV st' (getC st' j).r).offset - (getV st' (getC st' j).l).offset = (getC st' j).g := by
  rw [M.csize] at hj
  rw [(M.cstat j).1, (M.cstat j).2.1, (M.cstat j).2.2, M.off, M.off]
  have hxb : ¬ (x < st.vs.size ∧ (getV st x).block = b) := fun h => M.hne (M.hxs.symm.trans h.2)
  have hyb : y < st.vs.size ∧ (getV st y).block = b := ⟨M.hy, M.hyb⟩
  by_cases hjc : j = ci
  · subst hjc
    rcases M.hd with ⟨e1, e2, e3⟩ | ⟨e1, e2, e3⟩
    · rw [e1, e2, if_neg hxb, if_pos hyb]; exact e3
    · rw [e1, e2, if_neg hxb, if_pos hyb]; exact e3
  · rw [M.cactive_ne j hjc] at hact
    obtain ⟨hl, hr⟩ := M.inv.wf.lr j hj
    have hc : Conn st none (getC st j).l (getC st j).r :=
      Relation.ReflTransGen.single ⟨j, hj, by simp, hact, Or.inl ⟨rfl, rfl⟩⟩
    have hb := (M.inv.comps _ _ hl hr).2 hc
    have ht := M.inv.tight j hj hact
    by_cases h : (getV st (getC st j).l).block = b
    · rw [if_pos ⟨hr, hb ▸ h⟩, if_pos ⟨hl, h⟩]; linarith
    · rw [if_neg (fun h' => h (hb ▸ h'.2)), if_neg (fun h' => h h'.2)]; exact ht

theorem comps (M : MergeCtx st st' sb b ci d x y) (u v : Nat) (hu : u < st'.vs.size) (hv : v < st'.vs.size) :
    (getV st' u).block = (getV st' v).block ↔ Conn st' none u v := by
  rw [M.vsize] at hu hv
  rw [M.conn_ne none (by simp) u v, ← M.inv.comps u v hu hv, ← M.inv.comps u x hu M.hx,
    ← M.inv.comps y v M.hy hv, ← M.inv.comps u y hu M.hy, ← M.inv.comps x v M.hx hv,
    M.blk, M.blk, M.hxs, M.hyb]
  have := M.hne
  simp only [hu, hv, true_and]
  split_ifs <;> omega

theorem forest (M : MergeCtx st st' sb b ci d x y) (j : Nat) (hj : j < st'.cs.size)
    (hact : (getC st' j).active = true) : ¬ Conn st' (some j) (getC st' j).l (getC st' j).r := by
  rw [M.csize] at hj
  rw [(M.cstat j).1, (M.cstat j).2.1]
  by_cases hjc : j = ci
  · subst hjc
    rw [M.conn_ci]
    rcases M.ends with ⟨e1, e2⟩ | ⟨e1, e2⟩
    · rw [e1, e2]; exact M.not_conn_xy
    · rw [e1, e2]; exact fun h => M.not_conn_xy h.symm
  · rw [M.cactive_ne j hjc] at hact
    have hne : some ci ≠ some j := fun h => hjc (Option.some.inj h).symm
    rw [M.conn_ne (some j) hne]
    have hlr : Conn st none (getC st j).l (getC st j).r :=
      Relation.ReflTransGen.single ⟨j, hj, by simp, hact, Or.inl ⟨rfl, rfl⟩⟩
    rintro (h | ⟨h1, h2⟩ | ⟨h1, h2⟩)
    · exact M.inv.forest j hj hact h
    · -- x ~ l — r ~ y in the old graph
      exact M.not_conn_xy ((h1.to_none.symm.trans hlr).trans h2.to_none.symm)
    · exact M.not_conn_xy (h2.to_none.trans (hlr.symm.trans h1.to_none))

theorem mem_vars_sb (M : MergeCtx st st' sb b ci d x y) (u : Nat) :
    u ∈ (getB st sb).vars ↔ (u < st.vs.size ∧ (getV st u).block = sb) := by
  have := M.inv.members x M.hx u
  rwa [M.hxs] at this

theorem mem_vars_b (M : MergeCtx st st' sb b ci d x y) (u : Nat) :
    u ∈ (getB st b).vars ↔ (u < st.vs.size ∧ (getV st u).block = b) := by
  have := M.inv.members y M.hy u
  rwa [M.hyb] at this

theorem members (M : MergeCtx st st' sb b ci d x y) (v : Nat) (hv : v < st'.vs.size) (u : Nat) :
    u ∈ (getB st' (getV st' v).block).vars ↔ (u < st'.vs.size ∧ (getV st' u).block = (getV st' v).block) := by
  rw [M.vsize] at hv ⊢
  have hne := M.hne
  by_cases hs : (getV st' v).block = sb
  · rw [hs, M.varsSelf, List.mem_append, M.mem_vars_sb, M.mem_vars_b, M.blk]
    split_ifs <;> omega
  · rw [M.varsOther _ hs]
    have hvb : (getV st' v).block = (getV st v).block := by
      rw [M.blk] at hs ⊢
      split_ifs at hs ⊢ <;> first | rfl | omega
    rw [hvb] at hs ⊢
    have hvb' : (getV st v).block ≠ b := by
      intro h
      have := M.blk v
      rw [if_pos ⟨hv, h⟩] at this
      exact hs (hvb ▸ this)
    rw [M.inv.members v hv u, M.blk]
    split_ifs <;> omega

theorem varsNodup (M : MergeCtx st st' sb b ci d x y) : VarsNodup st' := by
  intro v hv
  rw [M.vsize] at hv
  by_cases hs : (getV st' v).block = sb
  · rw [hs, M.varsSelf, List.nodup_append]
    refine ⟨?_, ?_, ?_⟩
    · have := M.nd x M.hx; rwa [M.hxs] at this
    · have := M.nd y M.hy; rwa [M.hyb] at this
    · intro a ha c hc hac
      subst hac
      exact M.hne (((M.mem_vars_sb a).1 ha).2.symm.trans ((M.mem_vars_b a).1 hc).2)
  · rw [M.varsOther _ hs]
    have hvb : (getV st' v).block = (getV st v).block := by
      rw [M.blk] at hs ⊢
      split_ifs at hs ⊢ <;> first | rfl | omega
    rw [hvb]
    exact M.nd v hv

theorem inv' (M : MergeCtx st st' sb b ci d x y) : Inv st' :=
  ⟨M.wf, M.tight, M.comps, M.forest, M.members⟩

end MergeCtx

/-! ## 4. `Blocks.merge` -/

/-- `mergeBlocks` is a `mergeAcross` in the situation described by `MergeCtx`, followed by `Blocks.remove` -/
theorem mergeBlocks_ctx (st : St) (ci : Nat) (hinv : Inv st) (hnd : VarsNodup st) (hci : ci < st.cs.size)
    (ha : (getC st ci).active = false)
    (hb : (getV st (getC st ci).l).block ≠ (getV st (getC st ci).r).block) :
    ∃ sb b d x y, mergeBlocks st ci = removeBlock (mergeAcross st sb b ci d) b ∧
      MergeCtx st (mergeAcross st sb b ci d) sb b ci d x y := by
  obtain ⟨hl, hr⟩ := hinv.wf.lr ci hci
  unfold mergeBlocks
  simp only
  split
  · refine ⟨_, _, _, (getC st ci).r, (getC st ci).l, rfl, ?_⟩
    exact { toMergeEff := mergeAcross_eff st _ _ ci _ hinv hnd hci (hinv.wf.block_lt _ hr) _ hl rfl
            inv := hinv, nd := hnd, hci := hci, ha := ha, hx := hr, hy := hl, hxs := rfl, hyb := rfl
            hne := fun h => hb h.symm
            hd := Or.inr ⟨rfl, rfl, by ring⟩ }
  · refine ⟨_, _, _, (getC st ci).l, (getC st ci).r, rfl, ?_⟩
    exact { toMergeEff := mergeAcross_eff st _ _ ci _ hinv hnd hci (hinv.wf.block_lt _ hl) _ hr rfl
            inv := hinv, nd := hnd, hci := hci, ha := ha, hx := hl, hy := hr, hxs := rfl, hyb := rfl
            hne := hb
            hd := Or.inl ⟨rfl, rfl, by ring⟩ }

theorem mergeBlocks_inv (st : St) (ci : Nat) (hinv : Inv st) (hnd : VarsNodup st) (hci : ci < st.cs.size)
    (ha : (getC st ci).active = false)
    (hb : (getV st (getC st ci).l).block ≠ (getV st (getC st ci).r).block) :
    Inv (mergeBlocks st ci) ∧ Frame st (mergeBlocks st ci) ∧ (mergeBlocks st ci).inactive = st.inactive ∧
    (getC (mergeBlocks st ci) ci).active = true ∧
    (∀ c, c ≠ ci → (getC (mergeBlocks st ci) c).active = (getC st c).active) ∧
    (∀ c, (getC (mergeBlocks st ci) c).unsat = (getC st c).unsat) := by
  obtain ⟨sb, b, d, x, y, e, M⟩ := mergeBlocks_ctx st ci hinv hnd hci ha hb
  rw [e]
  have E := removeBlock_coreEq (mergeAcross st sb b ci d) b
  refine ⟨Inv.of_coreEq E M.inv', M.frame.trans E.toFrame, E.inactive_eq.trans M.inactive, ?_, ?_, ?_⟩
  · rw [(E.flags ci).1]; exact M.cactive_ci
  · intro c hc
    rw [(E.flags c).1]; exact M.cactive_ne c hc
  · intro c
    rw [(E.flags c).2]; exact M.cunsat c

theorem mergeBlocks_varsNodup (st : St) (ci : Nat) (hinv : Inv st) (hnd : VarsNodup st) (hci : ci < st.cs.size)
    (ha : (getC st ci).active = false)
    (hb : (getV st (getC st ci).l).block ≠ (getV st (getC st ci).r).block) : VarsNodup (mergeBlocks st ci) := by
  obtain ⟨sb, b, d, x, y, e, M⟩ := mergeBlocks_ctx st ci hinv hnd hci ha hb
  rw [e]
  exact VarsNodup.of_coreEq (removeBlock_coreEq (mergeAcross st sb b ci d) b) M.varsNodup

end Labella.Vpsc
