import Labella.Proofs.VpscList
import Labella.Proofs.VpscCost
/-! # Incremental use of the solver: `setDesiredPositions` followed by `solve` on the SAME state (`Vpsc.setDesired`, `Vpsc.resolve`)

`setDesired` overwrites the desired positions `d` of the variables and nothing else.  Of the invariants of the solver state
(`Inv`, `VarsNodup`, `AdjNodup`, `ListInv`, `Covered`, `StatsInv`) only `StatsInv` mentions `d` (through the sum `AD` and the block
position `posn`), so after `setDesired` the statistics are STALE.  The next `solve` starts with `satisfy`, which starts with
`blocksSplit`, which starts by calling `updateWeightedPosition` on every listed block: that function recomputes `AB`, `AD`, `A2` from
scratch over the `vars` list of the block (and `posn` from them) — it reads nothing of the old statistics but `scale` and `vars`.
Hence the weak invariant `ScaleInv` (the scale of every block in use is nonzero) is enough at the entry of `solve`:

* `DEq st st'`            — `st'` is `st` with other desired positions; `setDesired_dEq`;
* `Inv.of_dEq` …          — the `d`-free invariants are transported along `DEq`;
* `foldl_uwp_statsInv`    — the position update at the start of `blocksSplit` turns `ScaleInv` into `StatsInv`;
* `solve_specW`           — the conclusions of `solve_spec2'` from `ScaleInv` instead of `StatsInv`;
* `resolve_good`          — induction over the list of target updates. -/
namespace Labella.Vpsc

/-! ## `setDesired` -/

/-- `st'` is `st` with other desired positions -/
structure DEq (st st' : St) : Prop where
  cs_eq : st'.cs = st.cs
  bs_eq : st'.bs = st.bs
  list_eq : st'.list = st.list
  inactive_eq : st'.inactive = st.inactive
  err_eq : st'.err = st.err
  vsize : st'.vs.size = st.vs.size
  vfix : ∀ i, (getV st' i).w = (getV st i).w ∧ (getV st' i).s = (getV st i).s ∧
    (getV st' i).offset = (getV st i).offset ∧ (getV st' i).block = (getV st i).block ∧
    (getV st' i).cOut = (getV st i).cOut ∧ (getV st' i).cIn = (getV st i).cIn

theorem setDesired_getV (st : St) (ps : List Rat) (i : Nat) :
    getV (setDesired st ps) i =
      if i < st.vs.size then { getV st i with d := ps.getD i (getV st i).d } else getV st i := by
  unfold getV setDesired
  simp only [Array.getD_eq_getD_getElem?, Array.getElem?_mapIdx]
  by_cases h : i < st.vs.size
  · simp [h]
  · simp [h]

theorem setDesired_dEq (st : St) (ps : List Rat) : DEq st (setDesired st ps) := by
  refine ⟨rfl, rfl, rfl, rfl, rfl, by simp [setDesired], fun i => ?_⟩
  rw [setDesired_getV]
  split <;> exact ⟨rfl, rfl, rfl, rfl, rfl, rfl⟩

theorem setDesired_d (st : St) (ps : List Rat) (i : Nat) (hi : i < st.vs.size) :
    (getV (setDesired st ps) i).d = ps.getD i (getV st i).d := by
  rw [setDesired_getV, if_pos hi]

theorem DEq.getC {st st' : St} (h : DEq st st') (i : Nat) : getC st' i = getC st i := by
  unfold Vpsc.getC; rw [h.cs_eq]

theorem DEq.getB {st st' : St} (h : DEq st st') (i : Nat) : getB st' i = getB st i := by
  unfold Vpsc.getB; rw [h.bs_eq]

theorem DEq.adj {st st' : St} (h : DEq st st') (x : Option Nat) : Adj st' x = Adj st x := by
  funext u w
  simp only [Adj, h.getC, h.cs_eq]

theorem DEq.conn {st st' : St} (h : DEq st st') (x : Option Nat) : Conn st' x = Conn st x := by
  unfold Conn; rw [h.adj]

theorem Inv.of_dEq {st st' : St} (h : DEq st st') (hi : Inv st) : Inv st' := by
  have hB := h.getB
  have hC := h.getC
  have hvs := h.vsize
  have hbs : st'.bs.size = st.bs.size := by rw [h.bs_eq]
  have hcs : st'.cs.size = st.cs.size := by rw [h.cs_eq]
  have hin : st'.inactive = st.inactive := h.inactive_eq
  have hs : ∀ i, (getV st' i).s = (getV st i).s := fun i => (h.vfix i).2.1
  have ho : ∀ i, (getV st' i).offset = (getV st i).offset := fun i => (h.vfix i).2.2.1
  have hk : ∀ i, (getV st' i).block = (getV st i).block := fun i => (h.vfix i).2.2.2.1
  have hco : ∀ i, (getV st' i).cOut = (getV st i).cOut := fun i => (h.vfix i).2.2.2.2.1
  have hci : ∀ i, (getV st' i).cIn = (getV st i).cIn := fun i => (h.vfix i).2.2.2.2.2
  have hc := h.conn
  refine ⟨⟨?_, ?_, ?_, ?_, ?_, ?_, ?_, ?_⟩, ?_, ?_, ?_, ?_⟩
  · simpa only [hB, hC, hvs, hbs, hcs, hin, hs, ho, hk, hco, hci, hc] using hi.wf.lr
  · simpa only [hB, hC, hvs, hbs, hcs, hin, hs, ho, hk, hco, hci, hc] using hi.wf.out_mem
  · simpa only [hB, hC, hvs, hbs, hcs, hin, hs, ho, hk, hco, hci, hc] using hi.wf.in_mem
  · simpa only [hB, hC, hvs, hbs, hcs, hin, hs, ho, hk, hco, hci, hc] using hi.wf.out_sound
  · simpa only [hB, hC, hvs, hbs, hcs, hin, hs, ho, hk, hco, hci, hc] using hi.wf.in_sound
  · simpa only [hB, hC, hvs, hbs, hcs, hin, hs, ho, hk, hco, hci, hc] using hi.wf.scale_ne
  · simpa only [hB, hC, hvs, hbs, hcs, hin, hs, ho, hk, hco, hci, hc] using hi.wf.block_lt
  · simpa only [hB, hC, hvs, hbs, hcs, hin, hs, ho, hk, hco, hci, hc] using hi.wf.inactive_lt
  · simpa only [hB, hC, hvs, hbs, hcs, hin, hs, ho, hk, hco, hci, hc] using hi.tight
  · simpa only [hB, hC, hvs, hbs, hcs, hin, hs, ho, hk, hco, hci, hc] using hi.comps
  · simpa only [hB, hC, hvs, hbs, hcs, hin, hs, ho, hk, hco, hci, hc] using hi.forest
  · simpa only [hB, hC, hvs, hbs, hcs, hin, hs, ho, hk, hco, hci, hc] using hi.members

theorem VarsNodup.of_dEq {st st' : St} (h : DEq st st') (hn : VarsNodup st) : VarsNodup st' := by
  intro v hv
  rw [(h.vfix v).2.2.2.1, h.getB]
  exact hn v (by rw [h.vsize] at hv; exact hv)

theorem AdjNodup.of_dEq {st st' : St} (h : DEq st st') (hn : AdjNodup st) : AdjNodup st' := by
  intro v hv
  rw [(h.vfix v).2.2.2.2.1, (h.vfix v).2.2.2.2.2]
  exact hn v (by rw [h.vsize] at hv; exact hv)

theorem Covered.of_dEq {st st' : St} {x : Option Nat} (h : DEq st st') (hc : Covered st x) : Covered st' x := by
  intro ci hci hne
  rw [h.cs_eq] at hci
  rw [h.getC, h.inactive_eq]
  exact hc ci hci hne

theorem ListInv.of_dEq {st st' : St} (h : DEq st st') (hl : ListInv st) : ListInv st' := by
  have hk : ∀ i, (getV st' i).block = (getV st i).block := fun i => (h.vfix i).2.2.2.1
  refine ⟨?_, ?_, ?_, ?_⟩
  · rw [h.list_eq]; exact hl.nodup
  · intro v hv
    rw [h.vsize] at hv
    rw [h.list_eq, hk]; exact hl.covers v hv
  · intro b hb
    rw [h.list_eq] at hb
    obtain ⟨v, hv, e⟩ := hl.inuse b hb
    exact ⟨v, by rw [h.vsize]; exact hv, by rw [hk]; exact e⟩
  · intro k hk'
    have hk'' : k < st.list.size := by rw [h.list_eq] at hk'; exact hk'
    have : st'.list[k] = st.list[k] := by simp only [h.list_eq]
    rw [this, h.getB]; exact hl.ind k hk''

/-! ## the weak form of `StatsInv` that survives `setDesired` -/

/-- the scale of every block in use is nonzero (the only part of `StatsInv` that `updateWeightedPosition` does not recompute) -/
def ScaleInv (st : St) : Prop := ∀ v, v < st.vs.size → (getB st (getV st v).block).scale ≠ 0

theorem StatsInv.scaleInv {st : St} (h : StatsInv st) : ScaleInv st := fun v hv => (h v hv).1

theorem ScaleInv.of_dEq {st st' : St} (h : DEq st st') (hs : ScaleInv st) : ScaleInv st' := by
  intro v hv
  rw [(h.vfix v).2.2.2.1, h.getB]
  exact hs v (by rw [h.vsize] at hv; exact hv)

/-! ## `updateWeightedPosition` recomputes the statistics from the `vars` list -/

theorem uwp_scale (st : St) (b x : Nat) : (getB (updateWeightedPosition st b) x).scale = (getB st x).scale := by
  rw [updateWeightedPosition_getB]
  split
  · next h =>
    simp only
    rw [(foldl_addStats st _ _).2.1, h.1]
  · rfl

theorem uwp_bs_size (st : St) (b : Nat) : (updateWeightedPosition st b).bs.size = st.bs.size := by
  simp [updateWeightedPosition]

theorem uwp_statsB_self (st : St) (b : Nat) (hb : b < st.bs.size) (hs : (getB st b).scale ≠ 0) :
    StatsB (updateWeightedPosition st b) b := by
  have hV : ∀ i, getV (updateWeightedPosition st b) i = getV st i := fun _ => rfl
  show StatsOK _ (getB _ _)
  rw [updateWeightedPosition_getB, if_pos ⟨rfl, hb⟩]
  obtain ⟨f1, f2, _, f4, f5, f6⟩ := foldl_addStats st (getB st b).vars { getB st b with AB := 0, AD := 0, A2 := 0 }
  refine ⟨?_, ?_, ?_, ?_, rfl⟩
  · simp only; rw [f2]; exact hs
  · simp only [sumAB, hV]; rw [f4, f1, f2]; simp
  · simp only [sumAD, hV]; rw [f5, f1, f2]; simp
  · simp only [sumA2, hV]; rw [f6, f1, f2]; simp

theorem uwp_statsB_keep (st : St) (b x : Nat) (h : StatsB st x) : StatsB (updateWeightedPosition st b) x := by
  by_cases hx : x = b ∧ b < st.bs.size
  · obtain ⟨rfl, hb⟩ := hx
    exact uwp_statsB_self st x hb h.1
  · refine StatsB.congr (st := st) (b := x) ?_ (fun i _ => VSame.rfl' _) h
    rw [updateWeightedPosition_getB, if_neg hx]
    exact BSame.rfl' _

theorem foldl_uwp_statsB (l : List Nat) : ∀ (st : St) (x : Nat),
    ((x ∈ l ∧ x < st.bs.size ∧ (getB st x).scale ≠ 0) ∨ StatsB st x) →
    StatsB (l.foldl (fun st b => updateWeightedPosition st b) st) x := by
  induction l with
  | nil =>
    intro st x h
    rcases h with ⟨h, _⟩ | h
    · cases h
    · exact h
  | cons a t ih =>
    intro st x h
    rw [List.foldl_cons]
    apply ih
    rcases h with ⟨hm, hlt, hsc⟩ | h
    · rcases List.mem_cons.1 hm with rfl | hm
      · exact Or.inr (uwp_statsB_self st x hlt hsc)
      · exact Or.inl ⟨hm, by rw [uwp_bs_size]; exact hlt, by rw [uwp_scale]; exact hsc⟩
    · exact Or.inr (uwp_statsB_keep st a x h)

/-- the position update at the start of `Blocks.split` restores `StatsInv` from `ScaleInv` -/
theorem foldl_uwp_statsInv (st : St) (hinv : Inv st) (hL : ListInv st) (hS : ScaleInv st) :
    StatsInv (st.list.foldl (fun st b => updateWeightedPosition st b) st) := by
  have hce := blocksSplit_pre_coreEq st
  intro v hv
  rw [hce.vsize] at hv
  rw [FrameAux.getV_of_coreEq hce]
  rw [← Array.foldl_toList]
  exact foldl_uwp_statsB _ st _ (Or.inl ⟨hL.covers v hv, hinv.wf.block_lt v hv, hS v hv⟩)

/-! ## `blocksSplit`, `satisfy`, `solve` entered with stale statistics -/

theorem blocksSplit_lsW (st : St) (hinv : Inv st) (hnd : VarsNodup st) (hadj : AdjNodup st) (hcov : Covered st none)
    (hL : ListInv st) (hS : ScaleInv st) (herr : (blocksSplit st).err = false) :
    ListInv (blocksSplit st) ∧ StatsInv (blocksSplit st) := by
  have hce := blocksSplit_pre_coreEq st
  have hpreL : ListInv (st.list.foldl (fun st b => updateWeightedPosition st b) st) := by
    rw [← Array.foldl_toList]
    refine foldl_invS (fun s => ListInv s) _ _ _ hL ?_
    intro s b _ hs
    exact hs.of_indEq (updateWeightedPosition_indEq s b)
  have hpreS := foldl_uwp_statsInv st hinv hL hS
  unfold blocksSplit at herr ⊢
  exact splitLoop_ls _ _ _ _ _ (hinv.of_coreEq hce) (hnd.of_coreEq hce) (hadj.of_frame hce.toFrame)
    (hcov.of_coreEq hce) hpreL hpreS herr

theorem satisfy_lsW (fuel : Nat) (st : St) (hinv : Inv st) (hnd : VarsNodup st) (hadj : AdjNodup st)
    (hcov : Covered st none) (hL : ListInv st) (hS : ScaleInv st) (herr : (satisfy fuel st).err = false) :
    ListInv (satisfy fuel st) ∧ StatsInv (satisfy fuel st) := by
  have herr1 : (blocksSplit st).err = false := by
    cases h : (blocksSplit st).err with
    | false => rfl
    | true =>
      have : (satisfy fuel st).err = true := by
        unfold satisfy
        apply satisfyLoop_errmono
        rw [mv_err]
        exact h
      rw [this] at herr; cases herr
  obtain ⟨t1, t2, t3, t4⟩ := blocksSplit_inv st hinv hnd hadj hcov herr1
  obtain ⟨l1, s1⟩ := blocksSplit_lsW st hinv hnd hadj hcov hL hS herr1
  unfold satisfy at herr ⊢
  exact satisfyLoop_ls fuel (blocksSplit st) t1 t2 (hadj.of_frame t4) t3 l1 s1 herr

theorem solve_lsW (fuel sfuel : Nat) (st : St) (hinv : Inv st) (hnd : VarsNodup st) (hadj : AdjNodup st)
    (hcov : Covered st none) (hL : ListInv st) (hS : ScaleInv st) (herr : (solve fuel sfuel st).1.err = false) :
    ListInv (solve fuel sfuel st).1 ∧ StatsInv (solve fuel sfuel st).1 := by
  unfold solve at herr ⊢
  have herr1 : (satisfy sfuel st).err = false := by
    cases h : (satisfy sfuel st).err with
    | false => rfl
    | true => rw [solveLoop_errmono fuel sfuel _ _ _ h] at herr; cases herr
  obtain ⟨t1, t2, t3, _, t5⟩ := satisfy_spec sfuel st hinv hnd hadj hcov herr1
  obtain ⟨l1, s1⟩ := satisfy_lsW sfuel st hinv hnd hadj hcov hL hS herr1
  exact solveLoop_ls fuel sfuel (satisfy sfuel st) maxsize (cost (satisfy sfuel st)) t1 t2 (hadj.of_frame t5) t3 l1 s1 herr

/-- `solve_spec2'` for a state whose block statistics may be stale (`ScaleInv` instead of `StatsInv`) -/
theorem solve_specW (fuel sfuel : Nat) (st : St) (hinv : Inv st) (hnd : VarsNodup st) (hadj : AdjNodup st)
    (hL : ListInv st) (hS : ScaleInv st) (hcov : Covered st none) (herr : (solve fuel sfuel st).1.err = false) :
    Inv2 (solve fuel sfuel st).1 ∧ Covered (solve fuel sfuel st).1 none ∧ Feasible (solve fuel sfuel st).1 ∧
    Frame st (solve fuel sfuel st).1 ∧ (solve fuel sfuel st).2 = cost (solve fuel sfuel st).1 := by
  obtain ⟨u1, u2, u3, u4, u5, u6⟩ := solve_spec fuel sfuel st hinv hnd hadj hcov herr
  obtain ⟨l1, s1⟩ := solve_lsW fuel sfuel st hinv hnd hadj hcov hL hS herr
  exact ⟨⟨u1, u2, hadj.of_frame u5, l1, s1⟩, u3, u4, u5, u6⟩

theorem solve_errmono (fuel sfuel : Nat) (st : St) (h : st.err = true) : (solve fuel sfuel st).1.err = true := by
  unfold solve
  exact solveLoop_errmono fuel sfuel _ _ _ (satisfy_errmono sfuel st h)

/-! ## the problem data carried by a state -/

/-- the state holds the instance `(vars, cons)`: desired positions, weights, scales; constraint ends and gaps -/
structure Data (vars : List (Rat × Rat × Rat)) (cons : List (Nat × Nat × Rat)) (st : St) : Prop where
  vsize : st.vs.size = vars.length
  csize : st.cs.size = cons.length
  vdat : ∀ i (h : i < vars.length), (getV st i).d = vars[i].1 ∧ (getV st i).w = vars[i].2.1 ∧ (getV st i).s = vars[i].2.2
  cdat : ∀ i (h : i < cons.length), (getC st i).l = cons[i].1 ∧ (getC st i).r = cons[i].2.1 ∧ (getC st i).g = cons[i].2.2

theorem Data.of_frame {vars : List (Rat × Rat × Rat)} {cons : List (Nat × Nat × Rat)} {st st' : St}
    (f : Frame st st') (h : Data vars cons st) : Data vars cons st' where
  vsize := f.vsize.trans h.vsize
  csize := f.csize.trans h.csize
  vdat := fun i hi => by
    obtain ⟨a1, a2, a3⟩ := h.vdat i hi
    obtain ⟨b1, b2, b3, _⟩ := f.vstat i
    exact ⟨b1.trans a1, b2.trans a2, b3.trans a3⟩
  cdat := fun i hi => by
    obtain ⟨a1, a2, a3⟩ := h.cdat i hi
    obtain ⟨b1, b2, b3⟩ := f.cstat i
    exact ⟨b1.trans a1, b2.trans a2, b3.trans a3⟩

theorem init_data (vars : List (Rat × Rat × Rat)) (cons : List (Nat × Nat × Rat))
    (hidx : ∀ c ∈ cons, c.1 < vars.length ∧ c.2.1 < vars.length) (hs : ∀ v ∈ vars, v.2.2 ≠ 0) :
    Data vars cons (init vars cons) := by
  obtain ⟨_, _, _, i4, i5, i6, i7⟩ := init_inv vars cons hidx hs
  exact ⟨i4, i5, i6, i7⟩

/-- the instance after `setDesiredPositions(ps)`: entry `i` of `ps` (when there is one) replaces the desired position of variable `i` -/
def retarget (vars : List (Rat × Rat × Rat)) (ps : List Rat) : List (Rat × Rat × Rat) :=
  vars.zipIdx.map (fun (p : (Rat × Rat × Rat) × Nat) => (ps.getD p.2 p.1.1, p.1.2.1, p.1.2.2))

theorem retarget_length (vars : List (Rat × Rat × Rat)) (ps : List Rat) : (retarget vars ps).length = vars.length := by
  simp [retarget]

theorem retarget_getElem (vars : List (Rat × Rat × Rat)) (ps : List Rat) (i : Nat) (h : i < vars.length) :
    (retarget vars ps)[i]'(by rw [retarget_length]; exact h) = (ps.getD i vars[i].1, vars[i].2.1, vars[i].2.2) := by
  simp [retarget]

theorem Data.setDesired {vars : List (Rat × Rat × Rat)} {cons : List (Nat × Nat × Rat)} {st : St}
    (h : Data vars cons st) (ps : List Rat) : Data (retarget vars ps) cons (setDesired st ps) := by
  have hd := setDesired_dEq st ps
  refine ⟨?_, ?_, ?_, ?_⟩
  · rw [hd.vsize, retarget_length]; exact h.vsize
  · rw [hd.cs_eq]; exact h.csize
  · intro i hi
    have hi' : i < vars.length := by rw [retarget_length] at hi; exact hi
    obtain ⟨a1, a2, a3⟩ := h.vdat i hi'
    rw [retarget_getElem vars ps i hi', setDesired_d st ps i (by rw [h.vsize]; exact hi'), (hd.vfix i).1, (hd.vfix i).2.1]
    exact ⟨by rw [a1], a2, a3⟩
  · intro i hi
    rw [hd.getC]
    exact h.cdat i hi

/-- the instance after a sequence of target updates -/
theorem foldl_retarget_snd (pss : List (List Rat)) : ∀ vars : List (Rat × Rat × Rat),
    (pss.foldl retarget vars).length = vars.length ∧
    ∀ i (h : i < vars.length) (h' : i < (pss.foldl retarget vars).length),
      (pss.foldl retarget vars)[i].2 = vars[i].2 := by
  induction pss with
  | nil => intro vars; exact ⟨rfl, fun _ _ _ => rfl⟩
  | cons ps t ih =>
    intro vars
    rw [List.foldl_cons]
    obtain ⟨h1, h2⟩ := ih (retarget vars ps)
    refine ⟨h1.trans (retarget_length _ _), fun i h h' => ?_⟩
    rw [h2 i (by rw [retarget_length]; exact h) h', retarget_getElem vars ps i h]

/-! ## `resolve` -/

/-- what holds of the pair `solve` returns -/
structure Good (vars : List (Rat × Rat × Rat)) (cons : List (Nat × Nat × Rat)) (r : St × Rat) : Prop where
  inv2 : Inv2 r.1
  cov : Covered r.1 none
  feas : Feasible r.1
  cost : r.2 = cost r.1
  data : Data vars cons r.1

theorem solve_good (vars : List (Rat × Rat × Rat)) (cons : List (Nat × Nat × Rat)) (fuel sfuel : Nat) (st : St)
    (hinv : Inv st) (hnd : VarsNodup st) (hadj : AdjNodup st) (hL : ListInv st) (hS : ScaleInv st) (hcov : Covered st none)
    (hd : Data vars cons st) (herr : (solve fuel sfuel st).1.err = false) : Good vars cons (solve fuel sfuel st) := by
  obtain ⟨h1, h2, h3, h4, h5⟩ := solve_specW fuel sfuel st hinv hnd hadj hL hS hcov herr
  exact ⟨h1, h2, h3, h5, hd.of_frame h4⟩

/-- one more `setDesiredPositions(ps); solve()` on a good state -/
theorem resolve_step_good (vars : List (Rat × Rat × Rat)) (cons : List (Nat × Nat × Rat)) (fuel sfuel : Nat)
    (r : St × Rat) (ps : List Rat) (h : Good vars cons r) (herr : (solve fuel sfuel (setDesired r.1 ps)).1.err = false) :
    Good (retarget vars ps) cons (solve fuel sfuel (setDesired r.1 ps)) := by
  have hd := setDesired_dEq r.1 ps
  exact solve_good _ cons fuel sfuel _ (h.inv2.inv.of_dEq hd) (h.inv2.nd.of_dEq hd) (h.inv2.adj.of_dEq hd)
    (h.inv2.list.of_dEq hd) (h.inv2.stats.scaleInv.of_dEq hd) (h.cov.of_dEq hd) (h.data.setDesired ps) herr

theorem resolve_fold_errmono (fuel sfuel : Nat) (pss : List (List Rat)) : ∀ r : St × Rat, r.1.err = true →
    (pss.foldl (fun r ps => solve fuel sfuel (setDesired r.1 ps)) r).1.err = true := by
  induction pss with
  | nil => intro r h; exact h
  | cons ps t ih =>
    intro r h
    rw [List.foldl_cons]
    exact ih _ (solve_errmono fuel sfuel _ h)

theorem resolve_fold_good (cons : List (Nat × Nat × Rat)) (fuel sfuel : Nat) (pss : List (List Rat)) :
    ∀ (vars : List (Rat × Rat × Rat)) (r : St × Rat), Good vars cons r →
    (pss.foldl (fun r ps => solve fuel sfuel (setDesired r.1 ps)) r).1.err = false →
    Good (pss.foldl retarget vars) cons (pss.foldl (fun r ps => solve fuel sfuel (setDesired r.1 ps)) r) := by
  induction pss with
  | nil => intro vars r h _; exact h
  | cons ps t ih =>
    intro vars r h herr
    rw [List.foldl_cons] at herr ⊢
    rw [List.foldl_cons]
    have herr1 : (solve fuel sfuel (setDesired r.1 ps)).1.err = false := by
      cases hh : (solve fuel sfuel (setDesired r.1 ps)).1.err with
      | false => rfl
      | true => rw [resolve_fold_errmono fuel sfuel t _ hh] at herr; cases herr
    exact ih _ _ (resolve_step_good vars cons fuel sfuel r ps h herr1) herr

/-- the first `solve` of a run of `resolve` that ended without `err` ended without `err` -/
theorem resolve_first_err (fuel sfuel : Nat) (st : St) (pss : List (List Rat))
    (herr : (resolve fuel sfuel st pss).1.err = false) : (solve fuel sfuel st).1.err = false := by
  cases hh : (solve fuel sfuel st).1.err with
  | false => rfl
  | true =>
    unfold resolve at herr
    rw [resolve_fold_errmono fuel sfuel pss _ hh] at herr; cases herr

/-- **`resolve` from the initial state**: the final pair satisfies every invariant, is feasible, returns its own cost, and holds the given
instance with the desired positions as last set -/
theorem resolve_good (vars : List (Rat × Rat × Rat)) (cons : List (Nat × Nat × Rat))
    (hidx : ∀ c ∈ cons, c.1 < vars.length ∧ c.2.1 < vars.length) (hs : ∀ v ∈ vars, v.2.2 ≠ 0) (fuel sfuel : Nat)
    (pss : List (List Rat)) (herr : (resolve fuel sfuel (init vars cons) pss).1.err = false) :
    Good (pss.foldl retarget vars) cons (resolve fuel sfuel (init vars cons) pss) := by
  obtain ⟨hI2, hcov⟩ := init_inv2 vars cons hidx hs
  have h0 : Good vars cons (solve fuel sfuel (init vars cons)) :=
    solve_good vars cons fuel sfuel _ hI2.inv hI2.nd hI2.adj hI2.list hI2.stats.scaleInv hcov
      (init_data vars cons hidx hs) (resolve_first_err fuel sfuel _ pss herr)
  exact resolve_fold_good cons fuel sfuel pss vars _ h0 herr

end Labella.Vpsc
