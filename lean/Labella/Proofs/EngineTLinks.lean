import Labella.Proofs.EngineTLemmas
/-! # The `parent` / `child` LINKS the stateful engine leaves behind (helpers for the pointer half of C04)

`Proofs/EngineTLemmas.lean` relates the stateful run to the pure one through ghost layers of `(node id, Ref)` pairs and the
invariant `SInv` (which knows where a `parent` link points, but nothing about `child` links).  Here:
§1 a second invariant `LInv` about the links (`parent`/`child` are inverse to each other, a `child` link points to the stand-in
of the same label one layer above, label items are the engine's nodes, stub items are freshly allocated) is carried through the
same loops (the same ghost witnesses), §2 `distributeT`, §3 the per-layer loop (`layerIndex`, the reported layers),
§4 the LOCAL description `LocalLinks` of the pointer structure after `computeT`, purely in terms of the store's fields. -/
namespace Labella.EngineT
open Labella Labella.Layout

/-! ## §1 the link invariant through the distributor's loops -/

/-- `n0` = the size of the store when the distributor started (everything allocated since is a stub of this layout) -/
structure LInv (nodes : List Nat) (n0 : Nat) (s : Store) (G : GL) : Prop where
  size : n0 ≤ s.size
  lab : ∀ x ∈ G.flatten, x.2.isStub = false → x.2.id < nodes.length ∧ x.1 = nodes.getD x.2.id 0
  stubNew : ∀ x ∈ G.flatten, x.2.isStub = true → n0 ≤ x.1
  pc : ∀ x ∈ G.flatten, ∀ p, (get s x.1).parent = some p → (get s p).child = some x.1
  cd : ∀ m, ∀ x ∈ G.getD m [], ∀ c, (get s x.1).child = some c →
    ∃ y ∈ G.getD (m + 1) [], y.1 = c ∧ y.2.id = x.2.id

section loops
variable {labels : List Label} {datas : List Nat} {sw : Rat} {nodes : List Nat} {n0 : Nat}

/-- one `createStub` + append -/
theorem LInv.step {s : Store} {G : GL} (h : SInv labels datas sw s G) (hl : LInv nodes n0 s G) (j cur : Nat) (rc : Ref)
    (hc : (cur, rc) ∈ G.getD (j + 1) []) :
    LInv nodes n0 (createStub s cur sw).1 (G.modify j (· ++ [((createStub s cur sw).2, Ref.stub rc.id j)])) := by
  have hj : j < G.length := by have := lt_length_of_mem_getD hc; omega
  have hcur : cur < s.size := h.lt _ (mem_flatten_of_mem_getD hc)
  have hperm := flatten_modify_append_perm G j ((createStub s cur sw).2, Ref.stub rc.id j) hj
  have hmem : ∀ x, x ∈ (G.modify j (· ++ [((createStub s cur sw).2, Ref.stub rc.id j)])).flatten →
      x = (s.size, Ref.stub rc.id j) ∨ x ∈ G.flatten := by
    intro x hx
    have := hperm.subset hx
    simpa [createStub_snd] using this
  refine ⟨?_, ?_, ?_, ?_, ?_⟩
  · rw [createStub_size]; exact Nat.le_succ_of_le hl.size
  · intro x hx hst
    rcases hmem x hx with rfl | hx
    · simp [Ref.isStub] at hst
    · exact hl.lab x hx hst
  · intro x hx hst
    rcases hmem x hx with rfl | hx
    · exact hl.size
    · exact hl.stubNew x hx hst
  · intro x hx p hp
    rcases hmem x hx with rfl | hx
    · rw [createStub_new s cur sw hcur] at hp
      cases hp
    · have hxl := h.lt x hx
      rw [(createStub_old s cur sw hcur x.1 hxl).2.2.2.2.2.2] at hp
      by_cases hxc : x.1 = cur
      · rw [if_pos hxc] at hp
        have : p = s.size := by simpa using hp.symm
        subst this
        rw [createStub_new s cur sw hcur, hxc]
      · rw [if_neg hxc] at hp
        obtain ⟨m, hxm⟩ := exists_getD_of_mem_flatten hx
        obtain ⟨m', y, _, hy, hy1, _⟩ := h.par m x hxm p hp
        have hpl : p < s.size := by rw [← hy1]; exact h.lt y (mem_flatten_of_mem_getD hy)
        rw [(createStub_old s cur sw hcur p hpl).2.2.2.1]
        exact hl.pc x hx p hp
  · intro m x hx c hcx
    rcases (mem_getD_modify_append G j m _ x).1 hx with hx | ⟨hm, _, rfl⟩
    · have hxl := h.lt x (mem_flatten_of_mem_getD hx)
      rw [(createStub_old s cur sw hcur x.1 hxl).2.2.2.1] at hcx
      obtain ⟨y, hy, hy1, hy2⟩ := hl.cd m x hx c hcx
      exact ⟨y, (mem_getD_modify_append G j (m + 1) _ y).2 (Or.inl hy), hy1, hy2⟩
    · rw [createStub_snd, createStub_new s cur sw hcur] at hcx
      have : c = cur := by simpa using hcx.symm
      subst this hm
      exact ⟨(c, rc), (mem_getD_modify_append G m (m + 1) _ _).2 (Or.inl hc), rfl, rfl⟩

theorem stubChainG_linv (k : Nat) : ∀ (j : Nat) (s : Store) (G : GL) (cur : Nat) (rc : Ref),
    SInv labels datas sw s G → LInv nodes n0 s G → (cur, rc) ∈ G.getD j [] → rc.id = k →
    LInv nodes n0 (stubChainG sw k j s G cur).1 (stubChainG sw k j s G cur).2 := by
  intro j
  induction j with
  | zero => intro s G cur rc _ h _ _; exact h
  | succ j ih =>
    intro s G cur rc h hl hc hk
    rw [stubChainG]
    have hj : j < G.length := by have := lt_length_of_mem_getD hc; omega
    have h1 := h.step j cur rc hc
    have h2 := hl.step h j cur rc hc
    rw [hk] at h1 h2
    refine ih _ _ _ (Ref.stub k j) h1 h2 ?_ rfl
    rw [mem_getD_modify_append]
    right
    exact ⟨rfl, hj, rfl⟩

theorem layerFold_linv (top : Nat) : ∀ (todo : List (Nat × Ref)) (s : Store) (G : GL),
    SInv labels datas sw s G → LInv nodes n0 s G → (∀ x ∈ todo, x ∈ G.getD top []) →
    LInv nodes n0 (todo.foldl (layerStepG sw top) (s, G)).1 (todo.foldl (layerStepG sw top) (s, G)).2 := by
  intro todo
  induction todo with
  | nil => intro s G _ hl _; exact hl
  | cons x rest ih =>
    intro s G h hl hsub
    have hx : x ∈ G.getD top [] := hsub x (by simp)
    simp only [List.foldl_cons]
    by_cases hst : x.2.isStub = true
    · have e1 : layerStepG sw top (s, G) x = (s, G) := by simp [layerStepG, hst]
      rw [e1]
      exact ih s G h hl (fun y hy => hsub y (by simp [hy]))
    · have hst' : x.2.isStub = false := by simpa using hst
      have hxl : x.1 < s.size := h.lt x (mem_flatten_of_mem_getD hx)
      have e1 : layerStepG sw top (s, G) x = stubChainG sw x.2.id top s G x.1 := by simp [layerStepG, hst']
      rw [e1]
      have hinv := stubChainG_inv (labels := labels) (datas := datas) (sw := sw) x.2.id top s G x.1 x.2 h hx rfl
      have hlinv := stubChainG_linv (labels := labels) (datas := datas) (sw := sw) (nodes := nodes) (n0 := n0)
        x.2.id top s G x.1 x.2 h hl hx rfl
      have hprog := stubChainG_Prog sw x.2.id top s G x.1 hxl
      exact ih _ _ hinv hlinv (fun y hy => hprog.ext top y (hsub y (by simp [hy])))

theorem overlapStubsG_linv : ∀ (i : Nat) (s : Store) (G : GL),
    SInv labels datas sw s G → LInv nodes n0 s G →
    LInv nodes n0 (overlapStubsG sw i s G).1 (overlapStubsG sw i s G).2 := by
  intro i
  induction i with
  | zero => intro s G _ hl; exact hl
  | succ i ih =>
    intro s G h hl
    rw [overlapStubsG]
    obtain ⟨a, _⟩ := layerFold (labels := labels) (datas := datas) (sw := sw) (i + 1) (Nat.succ_pos i)
      (G.getD (i + 1) []) s G h (fun x hx => hx)
    have b := layerFold_linv (labels := labels) (datas := datas) (sw := sw) (nodes := nodes) (n0 := n0) (i + 1)
      (G.getD (i + 1) []) s G h hl (fun x hx => hx)
    exact ih _ _ a b

theorem LInv.addLabel {s : Store} {G : GL} (hl : LInv nodes n0 s G) (md node k : Nat)
    (hlab : IsLabel labels datas s node k) (hk : k < nodes.length) (hnode : node = nodes.getD k 0) (hmd : md < G.length) :
    LInv nodes n0 s (G.modify md (· ++ [(node, Ref.label k)])) := by
  have hperm := flatten_modify_append_perm G md (node, Ref.label k) hmd
  have hmem : ∀ x, x ∈ (G.modify md (· ++ [(node, Ref.label k)])).flatten →
      x = (node, Ref.label k) ∨ x ∈ G.flatten := by
    intro x hx
    simpa using hperm.subset hx
  refine ⟨hl.size, ?_, ?_, ?_, ?_⟩
  · intro x hx hst
    rcases hmem x hx with rfl | hx
    · exact ⟨hk, hnode⟩
    · exact hl.lab x hx hst
  · intro x hx hst
    rcases hmem x hx with rfl | hx
    · simp [Ref.isStub] at hst
    · exact hl.stubNew x hx hst
  · intro x hx p hp
    rcases hmem x hx with rfl | hx
    · rw [hlab.parent] at hp; cases hp
    · exact hl.pc x hx p hp
  · intro m x hx c hcx
    rcases (mem_getD_modify_append G md m _ x).1 hx with hx | ⟨_, _, rfl⟩
    · obtain ⟨y, hy, hy1, hy2⟩ := hl.cd m x hx c hcx
      exact ⟨y, (mem_getD_modify_append G md (m + 1) _ y).2 (Or.inl hy), hy1, hy2⟩
    · rw [hlab.child] at hcx; cases hcx

theorem simpleFold_linv (nl : Nat) (hnl : 0 < nl) : ∀ (todo : List ((Nat × Nat) × Nat)) (s : Store) (G : GL),
    SInv labels datas sw s G → LInv nodes n0 s G → G.length = nl →
    (todo.map (fun p => p.1.1)).Nodup →
    (∀ p ∈ todo, IsLabel labels datas s p.1.1 p.1.2 ∧ p.1.1 ∉ G.flatten.map Prod.fst) →
    (∀ p ∈ todo, p.1.2 < nodes.length ∧ p.1.1 = nodes.getD p.1.2 0) →
    LInv nodes n0 (todo.foldl (simpleStepG sw nl) (s, G)).1 (todo.foldl (simpleStepG sw nl) (s, G)).2 := by
  intro todo
  induction todo with
  | nil => intro s G _ hl _ _ _ _; exact hl
  | cons p rest ih =>
    intro s G h hli hlen hnd hlab hnodes
    simp only [List.foldl_cons]
    obtain ⟨hl, hfresh⟩ := hlab p (by simp)
    obtain ⟨hpk, hpn⟩ := hnodes p (by simp)
    have hmd : p.2 % nl < G.length := by rw [hlen]; exact Nat.mod_lt _ hnl
    have h1 := h.addLabel (p.2 % nl) p.1.1 p.1.2 hl hfresh hmd
    have h1l := hli.addLabel (labels := labels) (datas := datas) (p.2 % nl) p.1.1 p.1.2 hl hpk hpn hmd
    have hin : (p.1.1, Ref.label p.1.2) ∈ (G.modify (p.2 % nl) (· ++ [(p.1.1, Ref.label p.1.2)])).getD (p.2 % nl) [] := by
      rw [mem_getD_modify_append]; right; exact ⟨rfl, hmd, rfl⟩
    have e1 : simpleStepG sw nl (s, G) p =
        stubChainG sw p.1.2 (p.2 % nl) s (G.modify (p.2 % nl) (· ++ [(p.1.1, Ref.label p.1.2)])) p.1.1 := rfl
    have hinv := stubChainG_inv (labels := labels) (datas := datas) (sw := sw) p.1.2 (p.2 % nl) s _ p.1.1
      (Ref.label p.1.2) h1 hin rfl
    have hlinv := stubChainG_linv (labels := labels) (datas := datas) (sw := sw) (nodes := nodes) (n0 := n0)
      p.1.2 (p.2 % nl) s _ p.1.1 (Ref.label p.1.2) h1 h1l hin rfl
    obtain ⟨pa, pb, pc, pd, pe, pf, pg, ph⟩ := stubChainG_prog sw p.1.2 (p.2 % nl) s
      (G.modify (p.2 % nl) (· ++ [(p.1.1, Ref.label p.1.2)])) p.1.1 hl.lt
    rw [← e1] at hinv hlinv pa pb pc pd pe pf pg ph
    generalize simpleStepG sw nl (s, G) p = r1 at *
    have hnd' := List.nodup_cons.1 hnd
    refine ih _ _ hinv hlinv ?_ hnd'.2 ?_ (fun q hq => hnodes q (by simp [hq]))
    · rw [pf, List.length_modify, hlen]
    · intro q hq
      obtain ⟨hql, hqf⟩ := hlab q (by simp [hq])
      have hne : q.1.1 ≠ p.1.1 := by
        intro e
        exact hnd'.1 (List.mem_map.2 ⟨q, hq, e⟩)
      have hrec := ph q.1.1 hql.lt hne
      refine ⟨⟨Nat.lt_of_lt_of_le hql.lt pg, ?_, ?_, ?_, ?_, ?_⟩, ?_⟩
      · rw [hrec]; exact hql.ideal
      · rw [hrec]; exact hql.width
      · rw [hrec]; exact hql.data
      · rw [hrec]; exact hql.child
      · rw [hrec]; exact hql.parent
      · intro hmem
        obtain ⟨x, hx, hxe⟩ := List.mem_map.1 hmem
        obtain ⟨m, hxm⟩ := exists_getD_of_mem_flatten hx
        rcases pe m x hxm with hx' | ⟨_, hx'⟩
        · rcases (mem_getD_modify_append G _ _ _ x).1 hx' with hx' | ⟨_, _, rfl⟩
          · exact hqf (by rw [← hxe]; exact List.mem_map_of_mem (mem_flatten_of_mem_getD hx'))
          · exact hne hxe.symm
        · have := hql.lt
          omega

end loops

/-! ## §2 `distributeT` -/

theorem LInv_labelGL {s : Store} {nodes : List Nat} (hc : Clean s nodes) (L : List (List Nat))
    (hlt : ∀ k ∈ L.flatten, k < nodes.length) : LInv nodes s.size s (labelGL nodes L) := by
  have hmem : ∀ x ∈ (labelGL nodes L).flatten, ∃ k, k < nodes.length ∧ x = (nodes.getD k 0, Ref.label k) := by
    intro x hx
    rw [flatten_labelGL] at hx
    obtain ⟨k, hk, rfl⟩ := List.mem_map.1 hx
    exact ⟨k, hlt k hk, rfl⟩
  refine ⟨Nat.le_refl _, ?_, ?_, ?_, ?_⟩
  · intro x hx _
    obtain ⟨k, hk, rfl⟩ := hmem x hx
    exact ⟨hk, rfl⟩
  · intro x hx hst
    obtain ⟨k, hk, rfl⟩ := hmem x hx
    simp [Ref.isStub] at hst
  · intro x hx p hp
    obtain ⟨k, hk, rfl⟩ := hmem x hx
    rw [(isLabel_of_clean hc k hk).parent] at hp
    cases hp
  · intro m x hx c hcx
    obtain ⟨k, hk, rfl⟩ := hmem x (mem_flatten_of_mem_getD hx)
    rw [(isLabel_of_clean hc k hk).child] at hcx
    cases hcx

/-- `distributeT_spec` again, with the same ghost witnesses, and the link invariant in addition -/
theorem distributeT_links (o : DOpts) (s : Store) (nodes : List Nat) (hc : Clean s nodes) :
    ∃ G : GL, (distributeT o s nodes).2.1 = projT G ∧ distribute o (labelsOf s nodes) = projP G ∧
      SInv (labelsOf s nodes) (datasOf s nodes) o.stubWidth (distributeT o s nodes).1 G ∧
      Comp 0 (distributeT o s nodes).1 G ∧ (∀ l ∈ projP G, (l.map Ref.id).Nodup) ∧
      LInv nodes s.size (distributeT o s nodes).1 G := by
  by_cases hne : nodes = []
  · subst hne
    refine ⟨[], ?_, ?_, ?_, ?_, ?_, ?_⟩
    · rw [distributeT_nil]; rfl
    · simp [labelsOf, distribute_nil, projP]
    · rw [distributeT_nil]
      exact ⟨by simp, by simp, by simp, by simp, by simp, by simp, by simp⟩
    · intro m x hx; simp at hx
    · simp [projP]
    · rw [distributeT_nil]
      exact ⟨Nat.le_refl _, by simp, by simp, by simp, by simp⟩
  have hlne : labelsOf s nodes ≠ [] := by
    intro h
    apply hne
    have := congrArg List.length h
    rw [labelsOf_length] at this
    exact List.length_eq_zero_iff.1 this
  by_cases hnone : o.algorithm = .none
  · obtain ⟨a, b, c, d, e⟩ := SInv_single hc o.stubWidth (List.range nodes.length) (List.Perm.refl _)
    refine ⟨_, ?_, ?_, ?_, ?_, e, ?_⟩
    · rw [distributeT_none o s nodes hne hnone, a, range_map_getD]
    · rw [distribute_none o _ hlne hnone, b, labelsOf_length]
    · rw [distributeT_none o s nodes hne hnone]; exact c
    · rw [distributeT_none o s nodes hne hnone]; exact d
    · rw [distributeT_none o s nodes hne hnone]
      exact LInv_labelGL hc _ (by simp)
  have hperm := sortIds_perm (labelsOf s nodes)
  rw [labelsOf_length] at hperm
  have hidn : (sortIds (labelsOf s nodes)).Nodup := hperm.nodup_iff.2 List.nodup_range
  have hidlt : ∀ k ∈ sortIds (labelsOf s nodes), k < nodes.length := fun k hk => List.mem_range.1 (hperm.subset hk)
  by_cases hnl : estimateLayers o ((sortIds (labelsOf s nodes)).map (widthOf (labelsOf s nodes))) ≤ 1
  · obtain ⟨a, b, c, d, e⟩ := SInv_single hc o.stubWidth (sortIds (labelsOf s nodes)) hperm
    refine ⟨_, ?_, ?_, ?_, ?_, e, ?_⟩
    · rw [distributeT_single o s nodes hne hnone hnl, a]
    · rw [distribute_single o _ hlne hnone hnl, b]
    · rw [distributeT_single o s nodes hne hnone hnl]; exact c
    · rw [distributeT_single o s nodes hne hnone hnl]; exact d
    · rw [distributeT_single o s nodes hne hnone hnl]
      exact LInv_labelGL hc _ (by simpa using hidlt)
  have halg : o.algorithm = .simple ∨ o.algorithm = .overlap := by
    cases h : o.algorithm <;> simp_all
  rcases halg with halg | halg
  · -- `algorithm_simple`
    rw [distributeT_simple o s nodes hne halg hnl, distribute_simple o _ hlne halg hnl]
    generalize hnlv : (estimateLayers o ((sortIds (labelsOf s nodes)).map (widthOf (labelsOf s nodes)))).toNat = nl
    have hnlpos : 0 < nl := by rw [← hnlv]; omega
    let todo : List ((Nat × Nat) × Nat) :=
      ((sortIds (labelsOf s nodes)).map (fun k => (nodes.getD k 0, k))).zipIdx
    have hfst : todo.map (fun p => p.1) = (sortIds (labelsOf s nodes)).map (fun k => (nodes.getD k 0, k)) :=
      List.zipIdx_map_fst 0 _
    have hG0 : SInv (labelsOf s nodes) (datasOf s nodes) o.stubWidth s (List.replicate nl []) := by
      have hfl : (List.replicate nl ([] : List (Nat × Ref))).flatten = [] := by simp
      have hgd : ∀ m, (List.replicate nl ([] : List (Nat × Ref))).getD m [] = [] := by
        intro m
        rw [List.getD_eq_getElem?_getD, List.getElem?_replicate]
        split <;> rfl
      refine ⟨by rw [hfl]; simp, by rw [hfl]; simp, by rw [hfl]; simp, by rw [hfl]; simp, by rw [hfl]; simp,
        by rw [hfl]; simp, ?_⟩
      intro m x hx
      rw [hgd] at hx
      cases hx
    have hL0 : LInv nodes s.size s (List.replicate nl ([] : List (Nat × Ref))) := by
      have hfl : (List.replicate nl ([] : List (Nat × Ref))).flatten = [] := by simp
      have hgd : ∀ m, (List.replicate nl ([] : List (Nat × Ref))).getD m [] = [] := by
        intro m
        rw [List.getD_eq_getElem?_getD, List.getElem?_replicate]
        split <;> rfl
      refine ⟨Nat.le_refl _, by rw [hfl]; simp, by rw [hfl]; simp, by rw [hfl]; simp, ?_⟩
      intro m x hx
      rw [hgd] at hx
      cases hx
    have hC0 : Comp 0 s (List.replicate nl ([] : List (Nat × Ref))) := by
      intro m x hx
      rw [List.getD_eq_getElem?_getD, List.getElem?_replicate] at hx
      split at hx <;> cases hx
    have hndT : (todo.map (fun p => p.1.1)).Nodup := by
      have : todo.map (fun p => p.1.1) = (todo.map (fun p => p.1)).map Prod.fst := by rw [List.map_map]; rfl
      rw [this, hfst, List.map_map]
      exact nodup_map_getD hc.nodup hidn hidlt
    have hlabT : ∀ p ∈ todo, IsLabel (labelsOf s nodes) (datasOf s nodes) s p.1.1 p.1.2 ∧
        p.1.1 ∉ (List.replicate nl ([] : List (Nat × Ref))).flatten.map Prod.fst := by
      intro p hp
      have : p.1 ∈ todo.map (fun p => p.1) := List.mem_map_of_mem hp
      rw [hfst] at this
      obtain ⟨k, hk, e⟩ := List.mem_map.1 this
      rw [← e]
      exact ⟨isLabel_of_clean hc k (hidlt k hk), by simp⟩
    have hnodesT : ∀ p ∈ todo, p.1.2 < nodes.length ∧ p.1.1 = nodes.getD p.1.2 0 := by
      intro p hp
      have : p.1 ∈ todo.map (fun p => p.1) := List.mem_map_of_mem hp
      rw [hfst] at this
      obtain ⟨k, hk, e⟩ := List.mem_map.1 this
      rw [← e]
      exact ⟨hidlt k hk, rfl⟩
    obtain ⟨a, b, c, d⟩ := simpleFold (labels := labelsOf s nodes) (datas := datasOf s nodes) (sw := o.stubWidth)
      nl hnlpos todo s (List.replicate nl []) hG0 (by simp) hC0 hndT hlabT
    have aL := simpleFold_linv (labels := labelsOf s nodes) (datas := datasOf s nodes) (sw := o.stubWidth)
      (nodes := nodes) (n0 := s.size) nl hnlpos todo s (List.replicate nl []) hG0 hL0 (by simp) hndT hlabT hnodesT
    have hT : simpleLoop o.stubWidth nl ((sortIds (labelsOf s nodes)).map (fun k => nodes.getD k 0)) s =
        ((todo.foldl (simpleStepG o.stubWidth nl) (s, List.replicate nl [])).1,
          projT (todo.foldl (simpleStepG o.stubWidth nl) (s, List.replicate nl [])).2) := by
      rw [simpleLoop_eq]
      have e1 : ((sortIds (labelsOf s nodes)).map (fun k => nodes.getD k 0)).zipIdx =
          todo.map (fun p => (p.1.1, p.2)) := by
        have : (sortIds (labelsOf s nodes)).map (fun k => nodes.getD k 0) =
            ((sortIds (labelsOf s nodes)).map (fun k => (nodes.getD k 0, k))).map Prod.fst := by
          rw [List.map_map]; rfl
        rw [this, List.zipIdx_map]
        rfl
      have e2 : projT (List.replicate nl ([] : List (Nat × Ref))) = List.replicate nl [] := by
        simp [projT]
      rw [e1, ← e2, c]
    have hP : projP (todo.foldl (simpleStepG o.stubWidth nl) (s, List.replicate nl [])).2 =
        simpleLayers (sortIds (labelsOf s nodes)) nl := by
      rw [d, ← simpleLoopP_simpleLayers _ _ hnlpos]
      have e1 : (sortIds (labelsOf s nodes)).zipIdx = todo.map (fun p => (p.1.2, p.2)) := by
        have : sortIds (labelsOf s nodes) =
            ((sortIds (labelsOf s nodes)).map (fun k => (nodes.getD k 0, k))).map Prod.snd := by
          rw [List.map_map]; simp [Function.comp_def]
        conv => lhs; rw [this, List.zipIdx_map]
        rfl
      have e2 : projP (List.replicate nl ([] : List (Nat × Ref))) = List.replicate nl [] := by
        simp [projP]
      rw [e1, e2]
    rw [hT]
    refine ⟨(todo.foldl (simpleStepG o.stubWidth nl) (s, List.replicate nl [])).2, rfl, hP.symm, a, b, ?_, aL⟩
    rw [hP]
    exact simpleLayers_ids_nodup _ _ hidn
  · -- `algorithm_overlap`
    rw [distributeT_overlap o s nodes hne halg hnl, distribute_overlap o _ hlne halg hnl]
    generalize hL : overlapLayers (labelsOf s nodes) o (maxWidthPerLayer o) ((sortIds (labelsOf s nodes)).length + 1)
      (sortIds (labelsOf s nodes)) = L
    have hLp : L.flatten.Perm (sortIds (labelsOf s nodes)) := by rw [← hL]; exact overlapLayers_perm _ _ _ _ _
    have hLn : L.flatten.Nodup := hLp.nodup_iff.2 hidn
    have hLlt : ∀ k ∈ L.flatten, k < nodes.length := fun k hk => hidlt k (hLp.subset hk)
    have h0 := SInv_labelGL hc o.stubWidth L hLn hLlt
    have h0L := LInv_labelGL hc L hLlt
    have hC : Comp (L.length - 1) s (labelGL nodes L) := by
      intro m x hx hcond
      have h1 := labelGL_no_stub nodes L (m + 1) x hx
      have h2 := lt_length_of_mem_getD hx
      rw [labelGL, List.length_map] at h2
      rcases hcond with hcond | hcond
      · rw [h1] at hcond; cases hcond
      · omega
    obtain ⟨a, b, c, d⟩ := overlapStubsG_spec (L.length - 1) s (labelGL nodes L) h0 hC
    have aL := overlapStubsG_linv (L.length - 1) s (labelGL nodes L) h0 h0L
    rw [projT_labelGL] at c
    rw [projP_labelGL, overlapStubsP_withStubs] at d
    rw [c]
    refine ⟨(overlapStubsG o.stubWidth (L.length - 1) s (labelGL nodes L)).2, rfl, d.symm, a, b, ?_, aL⟩
    rw [d]
    exact withStubs_ids_nodup L hLn

/-! ## §3 the per-layer loop: `layerIndex`, and the reported layers are the distributed ones (each sorted in place) -/

theorem removeOverlapT_layerIndex (o : ROpts) (s : Store) (layer : List Nat) (i : Nat) :
    (get (removeOverlapT o s layer).1 i).layerIndex = (get s i).layerIndex := by
  rw [removeOverlapT_eq]
  exact (foldl_setCur _ s).2.1 i

theorem placeT_layerIndex_other (o : FOpts) : ∀ (layers : List (List Nat)) (j : Nat) (s : Store) (i : Nat),
    i ∉ layers.flatten → (get (placeT o j s layers).1 i).layerIndex = (get s i).layerIndex := by
  intro layers
  induction layers with
  | nil => intro j s i _; rfl
  | cons l ls ih =>
    intro j s i hi
    rw [List.flatten_cons, List.mem_append, not_or] at hi
    rw [placeT]
    simp only
    rw [ih _ _ _ hi.2, removeOverlapT_layerIndex, (foldl_setLayerIndex j l s).2.2.1 i hi.1]

theorem placeT_layerIndex (o : FOpts) : ∀ (layers : List (List Nat)) (j : Nat) (s : Store),
    layers.flatten.Nodup → (∀ x ∈ layers.flatten, x < s.size) →
    ∀ m, ∀ x ∈ layers.getD m [], (get (placeT o j s layers).1 x).layerIndex = j + m := by
  intro layers
  induction layers with
  | nil => intro j s _ _ m x hx; simp at hx
  | cons l ls ih =>
    intro j s hnd hlt m x hx
    rw [List.flatten_cons, List.nodup_append] at hnd
    obtain ⟨_, hnd2, hnd3⟩ := hnd
    rw [placeT]
    simp only
    cases m with
    | zero =>
      simp only [List.getD_cons_zero] at hx
      have hnot : x ∉ ls.flatten := fun hin => hnd3 x hx x hin rfl
      rw [placeT_layerIndex_other o ls _ _ x hnot, removeOverlapT_layerIndex,
        (foldl_setLayerIndex j l s).2.2.2 x hx (hlt x (by simp [hx]))]
      rfl
    | succ m =>
      simp only [List.getD_cons_succ] at hx
      have hsz : (removeOverlapT o.toR (l.foldl (fun s i => set s i { get s i with layerIndex := j }) s) l).1.size
          = s.size := by
        rw [(removeOverlapT_CL _ _ _).size, (foldl_setLayerIndex j l s).1.size]
      rw [ih (j + 1) _ hnd2 (fun y hy => by rw [hsz]; exact hlt y (by simp [hy])) m x hx]
      omega

theorem placeT_getD (o : FOpts) : ∀ (layers : List (List Nat)) (j : Nat) (s : Store) (m : Nat),
    ((placeT o j s layers).2.getD m []).Perm (layers.getD m []) := by
  intro layers
  induction layers with
  | nil => intro j s m; simp [placeT]
  | cons l ls ih =>
    intro j s m
    rw [placeT]
    cases m with
    | zero =>
      simp only [List.getD_cons_zero]
      exact removeOverlapT_perm _ _ _
    | succ m =>
      simp only [List.getD_cons_succ]
      exact ih _ _ m

theorem placeT_flatten (o : FOpts) : ∀ (layers : List (List Nat)) (j : Nat) (s : Store),
    (placeT o j s layers).2.flatten.Perm layers.flatten := by
  intro layers
  induction layers with
  | nil => intro j s; simp [placeT]
  | cons l ls ih =>
    intro j s
    rw [placeT]
    simp only [List.flatten_cons]
    exact (removeOverlapT_perm _ _ _).append (ih _ _)

theorem placeT_length (o : FOpts) : ∀ (layers : List (List Nat)) (j : Nat) (s : Store),
    (placeT o j s layers).2.length = layers.length := by
  intro layers
  induction layers with
  | nil => intro j s; simp [placeT]
  | cons l ls ih =>
    intro j s
    rw [placeT]
    simp only [List.length_cons, ih]

/-! ## §4 the local description of the links after a layout -/

/-- The pointer structure of a finished layout, stated about the FIELDS of the store only (`layers` = what the engine reports,
`nodes` = the engine's nodes, `sw` = the configured stub width). -/
structure LocalLinks (s : Store) (layers : List (List Nat)) (nodes : List Nat) (sw : Rat) : Prop where
  /-- no item is reported twice (neither within a layer nor in two layers) -/
  nodup : layers.flatten.Nodup
  /-- every engine node is reported -/
  cover : ∀ i ∈ nodes, i ∈ layers.flatten
  /-- a reported item is an engine node exactly if it is not a stub -/
  kind : ∀ x ∈ layers.flatten, (x ∈ nodes ↔ (get s x).child = none)
  /-- every item reports the layer it is in -/
  layerIndex : ∀ m, ∀ x ∈ layers.getD m [], (get s x).layerIndex = m
  /-- items of the axis layer have no parent -/
  root : ∀ x ∈ layers.getD 0 [], (get s x).parent = none
  /-- an item of layer `m + 1` has a parent: an item of layer `m`, whose `child` is the item, a stub of the configured width
  carrying the same data position and payload -/
  up : ∀ m, ∀ x ∈ layers.getD (m + 1) [], ∃ p ∈ layers.getD m [], (get s x).parent = some p ∧ (get s p).child = some x ∧
    (get s p).ideal = (get s x).ideal ∧ (get s p).data = (get s x).data ∧ (get s p).width = sw
  /-- the `child` of a stub item of layer `m` is an item of layer `m + 1` whose `parent` is the stub -/
  down : ∀ m, ∀ x ∈ layers.getD m [], ∀ c, (get s x).child = some c →
    c ∈ layers.getD (m + 1) [] ∧ (get s c).parent = some x

theorem projT_flatten (G : GL) : (projT G).flatten = G.flatten.map Prod.fst := by
  unfold projT
  rw [List.map_flatten]

theorem projP_flatten (G : GL) : (projP G).flatten = G.flatten.map Prod.snd := by
  unfold projP
  rw [List.map_flatten]

theorem mem_projT_getD {G : GL} {m x : Nat} : x ∈ (projT G).getD m [] ↔ ∃ r, (x, r) ∈ G.getD m [] := by
  rw [projT_getD, List.mem_map]
  constructor
  · rintro ⟨⟨a, r⟩, h, rfl⟩; exact ⟨r, h⟩
  · rintro ⟨r, h⟩; exact ⟨(x, r), h, rfl⟩

theorem getD_mem_of_lt {α : Type} {G : List (List α)} {m : Nat} (h : m < G.length) : G.getD m [] ∈ G := by
  rw [List.getD_eq_getElem?_getD, List.getElem?_eq_getElem h]
  exact List.getElem_mem h

/-- every input label is placed as a label (the statement of `C04.distribute_conserves`) -/
theorem labelIds_distribute (o : DOpts) (labels : List Label) :
    (labelIds (distribute o labels)).Perm (List.range labels.length) := by
  rcases distribute_cases o labels with ⟨hnil, e⟩ | ⟨_, ids, hp, e⟩ | ⟨_, _, nl, hnl, e⟩ | ⟨_, _, _, e⟩
  · subst hnil; rw [e]; exact List.Perm.refl _
  · rw [e, labelIds_eq]
    simpa [labs_map_label] using hp
  · rw [e]
    exact (labelIds_simpleLayers _ nl (by omega)).trans (sortIds_perm labels)
  · rw [e, labelIds_withStubs]
    exact (overlapLayers_perm labels o _ _ _).trans (sortIds_perm labels)

theorem localLinks_of_ghost {labels : List Label} {datas : List Nat} {o : FOpts} {nodes : List Nat} {n0 : Nat}
    {sd sf : Store} {G : GL} {layers : List (List Nat)}
    (h : SInv labels datas o.stubWidth sd G) (hp : PInv o labels datas sd none G) (hl : LInv nodes n0 sd G)
    (hnodes : ∀ i ∈ nodes, i < n0) (hcov : ∀ k, k < nodes.length → ∃ x ∈ G.flatten, x.2 = Ref.label k)
    (hcl : CL sd sf) (hmem : ∀ m x, x ∈ layers.getD m [] ↔ x ∈ (projT G).getD m [])
    (hperm : layers.flatten.Perm (projT G).flatten)
    (hli : ∀ m, ∀ x ∈ layers.getD m [], (get sf x).layerIndex = m) :
    LocalLinks sf layers nodes o.stubWidth := by
  have hflat : ∀ x, x ∈ layers.flatten → ∃ r, (x, r) ∈ G.flatten := by
    intro x hx
    have := hperm.subset hx
    rw [projT_flatten] at this
    obtain ⟨⟨a, r⟩, har, rfl⟩ := List.mem_map.1 this
    exact ⟨r, har⟩
  have hget : ∀ {m x}, x ∈ layers.getD m [] → ∃ r, (x, r) ∈ G.getD m [] := fun hx => mem_projT_getD.1 ((hmem _ _).1 hx)
  have hput : ∀ {m x r}, (x, r) ∈ G.getD m [] → x ∈ layers.getD m [] := fun hx => (hmem _ _).2 (mem_projT_getD.2 ⟨_, hx⟩)
  refine ⟨?_, ?_, ?_, hli, ?_, ?_, ?_⟩
  · rw [hperm.nodup_iff, projT_flatten]; exact h.nodup
  · intro i hi
    obtain ⟨k, hk, rfl⟩ := List.mem_iff_getElem.1 hi
    obtain ⟨x, hx, hx2⟩ := hcov k hk
    have hst : x.2.isStub = false := by rw [hx2]; rfl
    obtain ⟨_, hx1⟩ := hl.lab x hx hst
    rw [hx2] at hx1
    simp only [Ref.id] at hx1
    rw [List.getD_eq_getElem?_getD, List.getElem?_eq_getElem hk, Option.getD_some] at hx1
    rw [← hx1]
    apply hperm.symm.subset
    rw [projT_flatten]
    exact List.mem_map_of_mem hx
  · intro x hx
    obtain ⟨r, hxr⟩ := hflat x hx
    have hs := h.stub _ hxr
    simp only at hs
    rw [hcl.child]
    cases hr : r.isStub with
    | false =>
      rw [hr] at hs
      have hnone : (get sd x).child = none := by
        cases hch : (get sd x).child with
        | none => rfl
        | some c => rw [hch] at hs; cases hs
      obtain ⟨hk, hx1⟩ := hl.lab _ hxr hr
      simp only at hx1
      refine ⟨fun _ => hnone, fun _ => ?_⟩
      rw [hx1]
      exact getD_mem hk
    | true =>
      rw [hr] at hs
      have hge := hl.stubNew _ hxr hr
      simp only at hge
      constructor
      · intro hin
        have := hnodes x hin
        omega
      · intro hnone
        rw [hnone] at hs
        cases hs
  · intro x hx
    obtain ⟨r, hxr⟩ := hget hx
    rw [hcl.parent]
    cases hpar : (get sd x).parent with
    | none => rfl
    | some p =>
      obtain ⟨m', y, e, _⟩ := h.par 0 (x, r) hxr p hpar
      omega
  · intro m x hx
    obtain ⟨r, hxr⟩ := hget hx
    obtain ⟨y, hy, hy1, hy2⟩ := hp.link m (x, r) hxr
    have hxf := mem_flatten_of_mem_getD hxr
    have hyf := mem_flatten_of_mem_getD hy
    have hch := hl.pc (x, r) hxf y.1 hy1
    simp only at hch hy1 hy2
    have hys : y.2.isStub = true := by
      have := h.stub y hyf
      rw [hch] at this
      exact this.symm
    refine ⟨y.1, hput hy, ?_, ?_, ?_, ?_, ?_⟩
    · rw [hcl.parent]; exact hy1
    · rw [hcl.child]; exact hch
    · rw [hcl.ideal, hcl.ideal, h.ideal y hyf, h.ideal _ hxf, hy2]
    · rw [hcl.data, hcl.data, h.data y hyf, h.data _ hxf, hy2]
    · rw [hcl.width, h.width y hyf, if_pos hys]
  · intro m x hx c hc
    obtain ⟨r, hxr⟩ := hget hx
    rw [hcl.child] at hc
    obtain ⟨y, hy, hy1, hy2⟩ := hl.cd m (x, r) hxr c hc
    obtain ⟨z, hz, hz1, hz2⟩ := hp.link m y hy
    have hml : m < G.length := lt_length_of_mem_getD hxr
    have hidn := hp.idn _ (getD_mem_of_lt hml)
    have hzx : z = (x, r) := List.inj_on_of_nodup_map hidn hz hxr (by rw [hz2, hy2])
    subst hy1
    refine ⟨hput hy, ?_⟩
    rw [hcl.parent, hz1, hzx]

theorem computeT_localLinks (e : Engine) (s : Store) (hlt : ∀ i ∈ e.nodes, i < s.size) (hn : e.nodes.Nodup)
    (hl : ∀ i ∈ e.nodes, (get s i).child = none) :
    LocalLinks (computeT e s).2 ((computeT e s).1.layers.getD []) e.nodes e.opts.stubWidth := by
  obtain ⟨hc, hlab, hdat⟩ := clean_of_good s e.nodes hlt hn hl
  obtain ⟨G, g1, g2, g3, g4, g5, g6⟩ := distributeT_links e.opts.toD (e.nodes.foldl removeStub s) e.nodes hc
  have hinv := PInv_of_SInv (o := e.opts) g3 g4 g5
  have hsz : (e.nodes.foldl removeStub s).size = s.size := (removeStub_fold e.nodes s).1.size
  rw [computeT_eq]
  simp only [Option.getD_some]
  rw [g1]
  have hnd : (projT G).flatten.Nodup := by rw [projT_flatten]; exact g3.nodup
  have hltG : ∀ x ∈ (projT G).flatten, x < (distributeT e.opts.toD (e.nodes.foldl removeStub s) e.nodes).1.size := by
    intro x hx
    rw [projT_flatten] at hx
    obtain ⟨y, hy, rfl⟩ := List.mem_map.1 hx
    exact g3.lt y hy
  refine localLinks_of_ghost (o := e.opts) g3 hinv g6 (fun i hi => by rw [hsz]; exact hlt i hi) ?_
    (placeT_CL _ _ _ _) (fun m x => (placeT_getD _ _ _ _ m).mem_iff) (placeT_flatten _ _ _ _) ?_
  · intro k hk
    have hk' : k ∈ labelIds (distribute e.opts.toD (labelsOf (e.nodes.foldl removeStub s) e.nodes)) := by
      apply (labelIds_distribute _ _).symm.subset
      rw [labelsOf_length]
      exact List.mem_range.2 hk
    rw [g2] at hk'
    unfold labelIds at hk'
    obtain ⟨r, hr, hrk⟩ := List.mem_filterMap.1 hk'
    rw [projP_flatten] at hr
    obtain ⟨x, hx, rfl⟩ := List.mem_map.1 hr
    refine ⟨x, hx, ?_⟩
    cases hx2 : x.2 with
    | label i => rw [hx2] at hrk; simp only [Option.some.injEq] at hrk; rw [hrk]
    | stub i lv => rw [hx2] at hrk; cases hrk
  · intro m x hx
    have hx' := (placeT_getD e.opts (projT G) 0 _ m).subset hx
    have := placeT_layerIndex e.opts (projT G) 0 _ hnd hltG m x hx'
    rw [this]
    omega

end Labella.EngineT
