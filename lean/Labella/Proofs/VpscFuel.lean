import Labella.Proofs.VpscList
import Labella.Proofs.VpscKKT
/-! # Fuel of the transliterated VPSC solver is immaterial

* Part 1 (`satisfyLoop_fuel_mono`, `satisfy_fuel_mono`, `solveLoop_fuel_mono`, `solve_fuel_mono`): a run that ended with
  `err = false` is independent of the fuel it was given — more fuel returns the very same state.  No invariant is needed.
* Part 2: under the structural invariant the recursive tree traversals (`computeLm`, `findPath`,
  `isActiveDirectedPathBetween`, `populateSplitBlock`) never run out of their fuel `travFuel st = st.vs.size + 2`: the
  active graph is a forest, so a traversal that never walks straight back follows a simple path.
* Part 3: `blockSplit`, `findMinLM`, the split pass `blocksSplit` raise no `err`; `err` after `satisfy` / `solve` can therefore
  only come from `satisfyLoop` / `solveLoop` reaching fuel `0`. -/
namespace Labella.Vpsc

/-! ## Part 1: fuel monotonicity -/

theorem satisfyLoop_fuel_mono : ∀ (fuel : Nat) (st : St) (mv : Option Nat), (satisfyLoop fuel st mv).err = false →
    ∀ k, satisfyLoop (fuel + k) st mv = satisfyLoop fuel st mv
  | 0, st, mv, h, _ => by rw [satisfyLoop] at h; cases h
  | fuel + 1, st, none, _, k => by
    rw [show fuel + 1 + k = (fuel + k) + 1 by omega, satisfyLoop, satisfyLoop]
  | fuel + 1, st, some v, h, k => by
    rw [show fuel + 1 + k = (fuel + k) + 1 by omega, satisfyLoop_succ]
    rw [satisfyLoop_succ] at h ⊢
    split
    · next hc =>
      rw [if_pos hc] at h
      split
      · next h2 =>
        rw [if_pos h2] at h
        exact satisfyLoop_fuel_mono fuel _ _ h k
      · rfl
    · rfl

theorem satisfy_fuel_add (sfuel : Nat) (st : St) (h : (satisfy sfuel st).err = false) (k : Nat) :
    satisfy (sfuel + k) st = satisfy sfuel st := by
  unfold satisfy at h ⊢
  exact satisfyLoop_fuel_mono sfuel _ _ h k

/-- a `satisfy` pass that did not run out of fuel returns the same state with any larger fuel -/
theorem satisfy_fuel_mono (sfuel : Nat) (st : St) (h : (satisfy sfuel st).err = false) :
    ∀ sfuel', sfuel ≤ sfuel' → satisfy sfuel' st = satisfy sfuel st := by
  intro sfuel' hle
  obtain ⟨k, rfl⟩ := Nat.exists_eq_add_of_le hle
  exact satisfy_fuel_add sfuel st h k

/-- contrapositive: if `satisfy` raises `err` with some fuel, it raises it with every smaller fuel -/
theorem satisfy_err_antimono (sfuel : Nat) (st : St) (h : (satisfy sfuel st).err = true) :
    ∀ sfuel', sfuel' ≤ sfuel → (satisfy sfuel' st).err = true := by
  intro sfuel' hle
  cases h' : (satisfy sfuel' st).err with
  | true => rfl
  | false =>
    rw [satisfy_fuel_mono sfuel' st h' sfuel hle, h'] at h
    cases h

theorem solveLoop_fuel_mono : ∀ (fuel sfuel : Nat) (st : St) (lc c : Rat), (solveLoop fuel sfuel st lc c).1.err = false →
    ∀ k j, solveLoop (fuel + k) (sfuel + j) st lc c = solveLoop fuel sfuel st lc c
  | 0, _, st, _, _, h, _, _ => by rw [solveLoop] at h; cases h
  | fuel + 1, sfuel, st, lc, c, h, k, j => by
    rw [show fuel + 1 + k = (fuel + k) + 1 by omega]
    rw [solveLoop] at h ⊢
    rw [solveLoop]
    split
    · next hc =>
      rw [if_pos hc] at h
      have herr1 : (satisfy sfuel st).err = false := by
        cases h1 : (satisfy sfuel st).err with
        | false => rfl
        | true => rw [solveLoop_errmono fuel sfuel _ _ _ h1] at h; cases h
      rw [satisfy_fuel_add sfuel st herr1 j]
      exact solveLoop_fuel_mono fuel sfuel _ _ _ h k j
    · rfl

theorem solve_fuel_add (fuel sfuel : Nat) (st : St) (h : (solve fuel sfuel st).1.err = false) (k j : Nat) :
    solve (fuel + k) (sfuel + j) st = solve fuel sfuel st := by
  unfold solve at h ⊢
  have herr1 : (satisfy sfuel st).err = false := by
    cases h1 : (satisfy sfuel st).err with
    | false => rfl
    | true => rw [solveLoop_errmono fuel sfuel _ _ _ h1] at h; cases h
  rw [satisfy_fuel_add sfuel st herr1 j]
  exact solveLoop_fuel_mono fuel sfuel _ _ _ h k j

/-- a `solve` run that did not run out of fuel returns the same state and cost with any larger fuels -/
theorem solve_fuel_mono (fuel sfuel : Nat) (st : St) (h : (solve fuel sfuel st).1.err = false) :
    ∀ fuel', fuel ≤ fuel' → ∀ sfuel', sfuel ≤ sfuel' → solve fuel' sfuel' st = solve fuel sfuel st := by
  intro fuel' hle sfuel' hle'
  obtain ⟨k, rfl⟩ := Nat.exists_eq_add_of_le hle
  obtain ⟨j, rfl⟩ := Nat.exists_eq_add_of_le hle'
  exact solve_fuel_add fuel sfuel st h k j

/-- contrapositive: if `solve` raises `err`, it raises it with all smaller fuels -/
theorem solve_err_antimono (fuel sfuel : Nat) (st : St) (h : (solve fuel sfuel st).1.err = true) :
    ∀ fuel', fuel' ≤ fuel → ∀ sfuel', sfuel' ≤ sfuel → (solve fuel' sfuel' st).1.err = true := by
  intro fuel' hle sfuel' hle'
  cases h' : (solve fuel' sfuel' st).1.err with
  | true => rfl
  | false =>
    rw [solve_fuel_mono fuel' sfuel' st h' fuel hle sfuel hle', h'] at h
    cases h

/-! ## Part 2: the tree traversals have enough fuel

Ghost parameter: the list `v :: anc` of the variables on the path from the current variable `v` back to the root of the
traversal.  It is a simple path of the active graph; a simple path holds at most `vs.size` variables. -/

/-- consecutive elements are joined by active constraints -/
def PChain (s0 : St) : List Nat → Prop
  | [] => True
  | [_] => True
  | a :: b :: t => Adj s0 none a b ∧ PChain s0 (b :: t)

/-- a simple path of the active graph -/
structure SPath (s0 : St) (p : List Nat) : Prop where
  nodup : p.Nodup
  lt : ∀ a ∈ p, a < s0.vs.size
  chain : PChain s0 p

theorem SPath.length_le {s0 : St} {p : List Nat} (h : SPath s0 p) : p.length ≤ s0.vs.size := by
  have hs : p ⊆ List.range s0.vs.size := fun a ha => List.mem_range.2 (h.lt a ha)
  have := (List.subperm_of_subset h.nodup hs).length_le
  simpa using this

theorem SPath.single {s0 : St} {v : Nat} (hv : v < s0.vs.size) : SPath s0 [v] :=
  ⟨by simp, by simpa using hv, trivial⟩

/-- a chain that avoids `v` stays connected when a constraint with end `v` is removed -/
theorem PChain.conn_avoid {s0 : St} {c v w : Nat}
    (hlr : ((getC s0 c).l = v ∧ (getC s0 c).r = w) ∨ ((getC s0 c).l = w ∧ (getC s0 c).r = v)) :
    ∀ (p : List Nat) (u : Nat), PChain s0 (u :: p) → v ∉ u :: p → ∀ a ∈ u :: p, Conn s0 (some c) u a := by
  intro p
  induction p with
  | nil =>
    intro u _ _ a ha
    rw [List.mem_singleton] at ha
    subst ha
    exact Conn.reflS _ _ _
  | cons b t ih =>
    intro u hch hv a ha
    obtain ⟨hadj, hch'⟩ := hch
    have hvu : v ≠ u := fun e => hv (e ▸ List.mem_cons_self)
    have hvb : v ≠ b := fun e => hv (e ▸ List.mem_cons_of_mem _ List.mem_cons_self)
    have hv' : v ∉ b :: t := fun h => hv (List.mem_cons_of_mem _ h)
    have hadj' : Adj s0 (some c) u b := by
      obtain ⟨c1, h1, _, h3, h4⟩ := hadj
      refine ⟨c1, h1, ?_, h3, h4⟩
      intro e
      have e' : c1 = c := by simpa using e
      subst e'
      rcases hlr with ⟨a1, a2⟩ | ⟨a1, a2⟩ <;> rcases h4 with ⟨b1, b2⟩ | ⟨b1, b2⟩
      · exact hvu (a1.symm.trans b1)
      · exact hvb (a1.symm.trans b1)
      · exact hvb (a2.symm.trans b2)
      · exact hvu (a2.symm.trans b2)
    rcases List.mem_cons.1 ha with rfl | ha'
    · exact Conn.reflS _ _ _
    · exact hadj'.connS.trans (ih b hch' hv' a ha')

/-- in a forest, a step from the head `v` of a simple path across a constraint other than the one towards its predecessor
leads to a variable that is not on the path -/
theorem SPath.extend {s0 : St} (hwf : WFd s0) (hf : Forest s0) {v : Nat} {anc : List Nat} (hp : SPath s0 (v :: anc))
    {c w : Nat} (he : IsEdge s0 c v w) (hlink : ∀ u t, anc = u :: t → Adj s0 (some c) v u) :
    SPath s0 (w :: v :: anc) := by
  have hfresh : w ∉ v :: anc := by
    intro hmem
    rcases List.mem_cons.1 hmem with rfl | hmem'
    · exact he.bridge hf (Conn.reflS _ _ _)
    · cases anc with
      | nil => cases hmem'
      | cons u t =>
        have h1 := hlink u t rfl
        have hv : v ∉ u :: t := (List.nodup_cons.1 hp.nodup).1
        have h2 := PChain.conn_avoid he.2.2 t u hp.chain.2 hv w hmem'
        exact he.bridge hf (h1.connS.trans h2)
  refine ⟨List.nodup_cons.2 ⟨hfresh, hp.nodup⟩, ?_, ?_, hp.chain⟩
  · intro a ha
    rcases List.mem_cons.1 ha with rfl | ha'
    · exact (hwf.adj_lt (he.adj (x := none) (by simp))).2
    · exact hp.lt a ha'
  · exact (he.symm.adj (by simp))

/-- the link to the predecessor `u` of `v` is not the constraint `c` that leads from `v` to some `w ≠ u` -/
theorem SPath.link_undirected {s0 : St} {v : Nat} {anc : List Nat} (hp : SPath s0 (v :: anc))
    {c w : Nat} (he : IsEdge s0 c v w) (hne : anc.head? ≠ some w) : ∀ u t, anc = u :: t → Adj s0 (some c) v u := by
  intro u t e
  subst e
  have hwu : w ≠ u := fun e => hne (by simp [e])
  have hvu : v ≠ u := fun e => (List.nodup_cons.1 hp.nodup).1 (e ▸ List.mem_cons_self)
  obtain ⟨c1, h1, _, h3, h4⟩ := hp.chain.1
  refine ⟨c1, h1, ?_, h3, h4⟩
  intro e
  have e' : c1 = c := by simpa using e
  subst e'
  rcases he.2.2 with ⟨a1, a2⟩ | ⟨a1, a2⟩ <;> rcases h4 with ⟨b1, b2⟩ | ⟨b1, b2⟩
  · exact hwu (a2.symm.trans b2)
  · exact hvu (a1.symm.trans b1)
  · exact hvu (a2.symm.trans b2)
  · exact hwu (a1.symm.trans b1)

theorem neighbours_of_coreEq {st st' : St} (h : CoreEq st st') (v : Nat) : neighbours st' v = neighbours st v := by
  have hV := FrameAux.getV_of_coreEq h
  have hl : ∀ i, (getC st' i).l = (getC st i).l := fun i => (h.cstat i).1
  have hr : ∀ i, (getC st' i).r = (getC st i).r := fun i => (h.cstat i).2.1
  simp only [neighbours, hV, hl, hr]

open FrameAux in
/-- `computeLm` does not run out of fuel: `s0` is the state the traversal started in, `st` the current one (multipliers
have been written), `v :: anc` the path back to the root -/
theorem computeLm_noerr_aux {s0 : St} (hwf : WFd s0) (hf : Forest s0) (track : Bool) : ∀ (fuel : Nat) (st : St)
    (m : Option Nat) (v : Nat) (anc : List Nat), CoreEq s0 st → st.err = false → SPath s0 (v :: anc) →
    s0.vs.size ≤ fuel + anc.length → (computeLm fuel st track m v anc.head?).1.err = false := by
  intro fuel
  induction fuel with
  | zero =>
    intro st m v anc _ _ hp hfuel
    have := hp.length_le
    simp only [List.length_cons] at this
    omega
  | succ fuel ih =>
    intro st m v anc hce herr hp hfuel
    rw [computeLm_succ]
    simp only
    have hnb : neighbours st v = neighbours s0 v := neighbours_of_coreEq hce v
    have hv : v < s0.vs.size := hp.lt v List.mem_cons_self
    refine (foldl_inv (fun acc : St × Option Nat × Rat => CoreEq s0 acc.1 ∧ acc.1.err = false) _ _ _
      ⟨hce, herr⟩ ?_).2
    rintro acc ⟨c, w⟩ hx ⟨hce1, herr1⟩
    rw [hnb] at hx
    unfold lmStep
    simp only
    split
    · next hcond =>
      rw [Bool.and_eq_true, bne_iff_ne] at hcond
      obtain ⟨hact, hprev⟩ := hcond
      rw [(hce1.flags c).1] at hact
      obtain ⟨hc, _, hlr⟩ := hwf.nb_sound hv hx
      have hedge : IsEdge s0 c v w := ⟨hc, hact, hlr⟩
      have hp' := hp.extend hwf hf hedge (hp.link_undirected hedge hprev)
      have hsub := ih acc.1 acc.2.1 w (v :: anc) hce1 herr1 hp' (by simp only [List.length_cons]; omega)
      simp only [List.head?_cons] at hsub
      exact ⟨(hce1.trans (computeLm_coreEq _ _ _ _ _ _)).trans (coreEq_setC _ _ _ rfl rfl rfl rfl rfl), hsub⟩
    · exact ⟨hce1, herr1⟩

/-- (a) `computeLm` with the fuel the solver gives it never runs out of fuel -/
theorem computeLm_noerr (st : St) (hinv : Inv st) (herr : st.err = false) (track : Bool) (m : Option Nat) (v : Nat)
    (hv : v < st.vs.size) : (computeLm (travFuel st) st track m v none).1.err = false :=
  computeLm_noerr_aux hinv.wf.toWFd hinv.forest track (travFuel st) st m v [] (CoreEq.refl st) herr (SPath.single hv)
    (by simp [travFuel])

/-- `findPath` does not run out of fuel -/
theorem findPath_noerr_aux {st : St} (hwf : WFd st) (hf : Forest st) (tgt : Nat) : ∀ (fuel : Nat)
    (m : Option Nat) (v : Nat) (anc : List Nat), SPath st (v :: anc) →
    st.vs.size ≤ fuel + anc.length → findPath fuel st m v anc.head? tgt ≠ none := by
  intro fuel
  induction fuel with
  | zero =>
    intro m v anc hp hfuel
    have := hp.length_le
    simp only [List.length_cons] at this
    omega
  | succ fuel ih =>
    intro m v anc hp hfuel
    rw [findPath_succ]
    have hv : v < st.vs.size := hp.lt v List.mem_cons_self
    refine foldl_invS (fun acc : Option (Bool × Option Nat) => acc ≠ none) _ _ _ (by simp) ?_
    rintro acc ⟨c, w⟩ hx hacc
    unfold fstep
    cases acc with
    | none => exact absurd rfl hacc
    | some a =>
      obtain ⟨found, ma⟩ := a
      simp only
      split
      · next hcond =>
        rw [Bool.and_eq_true, bne_iff_ne] at hcond
        obtain ⟨hact, hprev⟩ := hcond
        split
        · simp
        · obtain ⟨hc, _, hlr⟩ := hwf.nb_sound hv hx
          have hedge : IsEdge st c v w := ⟨hc, hact, hlr⟩
          have hp' := hp.extend hwf hf hedge (hp.link_undirected hedge hprev)
          have hsub := ih ma w (v :: anc) hp' (by simp only [List.length_cons]; omega)
          simp only [List.head?_cons] at hsub
          split
          · simp [onSub]
          · generalize findPath fuel st ma w (some v) tgt = sub at hsub
            match sub, hsub with
            | none, hsub => exact absurd rfl hsub
            | some (false, m1), _ => simp [onSub]
            | some (true, m1), _ => simp [onSub]
      · simp

/-- (a) `findPath` with the fuel the solver gives it never runs out of fuel -/
theorem findPath_noerr (st : St) (hinv : Inv st) (m : Option Nat) (l r : Nat) (hl : l < st.vs.size) :
    findPath (travFuel st) st m l none r ≠ none :=
  findPath_noerr_aux hinv.wf.toWFd hinv.forest r (travFuel st) m l [] (SPath.single hl) (by simp [travFuel])

/-- `isActiveDirectedPathBetween` does not run out of fuel; the path back to the root is directed -/
theorem isADPB_noerr_aux {st : St} (hwf : WFd st) (hf : Forest st) (tgt : Nat) : ∀ (fuel : Nat) (u : Nat) (anc : List Nat),
    SPath st (u :: anc) →
    (∀ p t, anc = p :: t → ∃ c', c' < st.cs.size ∧ (getC st c').active = true ∧ (getC st c').l = p ∧ (getC st c').r = u) →
    st.vs.size ≤ fuel + anc.length → isActiveDirectedPathBetween fuel st u tgt ≠ none := by
  intro fuel
  induction fuel with
  | zero =>
    intro u anc hp _ hfuel
    have := hp.length_le
    simp only [List.length_cons] at this
    omega
  | succ fuel ih =>
    intro u anc hp hdir hfuel
    rw [isActiveDirectedPathBetween]
    have hu : u < st.vs.size := hp.lt u List.mem_cons_self
    split
    · simp
    · refine foldl_invS (fun acc : Option Bool => acc ≠ none) _ _ _ (by simp) ?_
      intro acc c hx hacc
      rw [List.mem_reverse] at hx
      match acc, hacc with
      | none, hacc => exact absurd rfl hacc
      | some true, _ => simp
      | some false, _ =>
        simp only
        split
        · next hact =>
          obtain ⟨hc, hl⟩ := hwf.out_sound u hu c hx
          have hedge : IsEdge st c u (getC st c).r := ⟨hc, hact, Or.inl ⟨hl, rfl⟩⟩
          have hlink : ∀ p t, anc = p :: t → Adj st (some c) u p := by
            intro p t e
            obtain ⟨c', h1, h2, h3, h4⟩ := hdir p t e
            have hpu : u ≠ p := by
              intro e'
              subst e
              exact (List.nodup_cons.1 hp.nodup).1 (e' ▸ List.mem_cons_self)
            refine ⟨c', h1, ?_, h2, Or.inr ⟨h3, h4⟩⟩
            intro e'
            have e'' : c' = c := by simpa using e'
            subst e''
            exact hpu (hl.symm.trans h3)
          have hp' := hp.extend hwf hf hedge hlink
          refine ih (getC st c).r (u :: anc) hp' ?_ (by simp only [List.length_cons]; omega)
          intro p t e
          simp only [List.cons.injEq] at e
          obtain ⟨rfl, _⟩ := e
          exact ⟨c, hc, hact, hl, rfl⟩
        · simp

/-- (a) `isActiveDirectedPathBetween` with the fuel the solver gives it never runs out of fuel -/
theorem isActiveDirectedPathBetween_noerr (st : St) (hinv : Inv st) (u v : Nat) (hu : u < st.vs.size) :
    isActiveDirectedPathBetween (travFuel st) st u v ≠ none :=
  isADPB_noerr_aux hinv.wf.toWFd hinv.forest v (travFuel st) u [] (SPath.single hu) (by simp) (by simp [travFuel])

/-! ## Part 3: `populateSplitBlock`, `blockSplit`, `findMinLM` -/

/-- same constraint graph (constraints identical, adjacency lists identical) -/
structure GEq (s0 s : St) : Prop where
  cs_eq : s.cs = s0.cs
  vsize : s.vs.size = s0.vs.size
  adj : ∀ u, (getV s u).cOut = (getV s0 u).cOut ∧ (getV s u).cIn = (getV s0 u).cIn

theorem GEq.refl (s : St) : GEq s s := ⟨rfl, rfl, fun _ => ⟨rfl, rfl⟩⟩

theorem GEq.trans {a b c : St} (h1 : GEq a b) (h2 : GEq b c) : GEq a c :=
  ⟨h2.cs_eq.trans h1.cs_eq, h2.vsize.trans h1.vsize,
    fun u => ⟨(h2.adj u).1.trans (h1.adj u).1, (h2.adj u).2.trans (h1.adj u).2⟩⟩

theorem GEq.getC {s0 s : St} (h : GEq s0 s) (c : Nat) : getC s c = getC s0 c := getC_of_cs_eq h.cs_eq c

theorem GEq.neighbours {s0 s : St} (h : GEq s0 s) (v : Nat) : neighbours s v = neighbours s0 v := by
  unfold Vpsc.neighbours
  simp only [h.getC, (h.adj v).1, (h.adj v).2]

theorem GEq.wfd {s0 s : St} (h : GEq s0 s) (hwf : WFd s0) : WFd s := by
  have hc := h.getC
  have hsz : s.cs.size = s0.cs.size := by rw [h.cs_eq]
  refine ⟨?_, ?_, ?_, ?_, ?_⟩
  · intro c hcl; rw [hc, h.vsize]; exact hwf.lr c (hsz ▸ hcl)
  · intro c hcl; rw [hc, (h.adj _).1]; exact hwf.out_mem c (hsz ▸ hcl)
  · intro c hcl; rw [hc, (h.adj _).2]; exact hwf.in_mem c (hsz ▸ hcl)
  · intro v hv c hcm
    rw [(h.adj _).1] at hcm
    rw [hc, hsz]; exact hwf.out_sound v (h.vsize ▸ hv) c hcm
  · intro v hv c hcm
    rw [(h.adj _).2] at hcm
    rw [hc, hsz]; exact hwf.in_sound v (h.vsize ▸ hv) c hcm

theorem GEq.forest {s0 s : St} (h : GEq s0 s) (hf : Forest s0) : Forest s := by
  intro c hc hac
  rw [h.getC] at hac ⊢
  rw [conn_of_cs_eq h.cs_eq]
  exact hf c (by rw [← h.cs_eq]; exact hc) hac

theorem visit_geq (s : St) (b v c w : Nat) : GEq s (visit s b v c w) := by
  refine ⟨visit_cs s b v c w, visit_vs_size s b v c w, fun u => ?_⟩
  by_cases hu : u = w
  · subst hu
    simp only [visit, getV_addVariable, getV_setV, setV_vs_size]
    split_ifs <;> exact ⟨rfl, rfl⟩
  · rw [visit_getV_other _ _ _ _ _ _ hu]; exact ⟨rfl, rfl⟩

theorem populate_geq (b : Nat) : ∀ (fuel : Nat) (s : St) (v : Nat) (prev : Option Nat),
    GEq s (populateSplitBlock fuel s b v prev) := by
  intro fuel
  induction fuel with
  | zero => intro s v prev; exact ⟨rfl, rfl, fun _ => ⟨rfl, rfl⟩⟩
  | succ fuel ih =>
    intro s v prev
    rw [populate_succ]
    refine foldl_invS (fun acc : St => GEq s acc) _ _ _ (GEq.refl s) ?_
    intro acc x _ hacc
    unfold pstep
    split
    · exact (hacc.trans (visit_geq _ _ _ _ _)).trans (ih _ _ _)
    · exact hacc

theorem newBlock_geq (s : St) (i : Nat) : GEq s (newBlock s i).1 := by
  refine ⟨by simp [newBlock_fst, addVariable], by simp [newBlock_fst, addVariable], fun u => ?_⟩
  rw [newBlock_fst]
  simp only [getV_addVariable, getV_pushB, getV_setV, pushB_vs, setV_vs_size]
  by_cases hu : u = i
  · subst hu
    split_ifs <;> exact ⟨rfl, rfl⟩
  · rw [if_neg (fun h => hu h.1), if_neg (fun h => hu h.1)]; exact ⟨rfl, rfl⟩

/-- `populateSplitBlock` does not run out of fuel -/
theorem populate_noerr_aux {s0 : St} (hwf : WFd s0) (hf : Forest s0) (b : Nat) : ∀ (fuel : Nat) (s : St)
    (v : Nat) (anc : List Nat), GEq s0 s → s.err = false → SPath s0 (v :: anc) →
    s0.vs.size ≤ fuel + anc.length → (populateSplitBlock fuel s b v anc.head?).err = false := by
  intro fuel
  induction fuel with
  | zero =>
    intro s v anc _ _ hp hfuel
    have := hp.length_le
    simp only [List.length_cons] at this
    omega
  | succ fuel ih =>
    intro s v anc hg herr hp hfuel
    rw [populate_succ, hg.neighbours]
    have hv : v < s0.vs.size := hp.lt v List.mem_cons_self
    refine (foldl_invS (fun acc : St => GEq s0 acc ∧ acc.err = false) _ _ _ ⟨hg, herr⟩ ?_).2
    rintro acc ⟨c, w⟩ hx ⟨hg1, herr1⟩
    unfold pstep
    simp only
    split
    · next hcond =>
      rw [Bool.and_eq_true, bne_iff_ne, hg1.getC] at hcond
      obtain ⟨hact, hprev⟩ := hcond
      obtain ⟨hc, _, hlr⟩ := hwf.nb_sound hv hx
      have hedge : IsEdge s0 c v w := ⟨hc, hact, hlr⟩
      have hp' := hp.extend hwf hf hedge (hp.link_undirected hedge hprev)
      have hg2 : GEq s0 (visit acc b v c w) := hg1.trans (visit_geq _ _ _ _ _)
      have hsub := ih (visit acc b v c w) w (v :: anc) hg2 (by rw [visit_err]; exact herr1) hp'
        (by simp only [List.length_cons]; omega)
      simp only [List.head?_cons] at hsub
      exact ⟨hg2.trans (populate_geq _ _ _ _ _), hsub⟩
    · exact ⟨hg1, herr1⟩

theorem createSplitBlock_noerr (s : St) (start : Nat) (hwf : WFd s) (hf : Forest s) (hstart : start < s.vs.size)
    (herr : s.err = false) : (createSplitBlock s start).1.err = false ∧ GEq s (createSplitBlock s start).1 := by
  rw [createSplitBlock_fst]
  have hg := newBlock_geq s start
  refine ⟨?_, hg.trans (populate_geq _ _ _ _ _)⟩
  exact populate_noerr_aux hwf hf s.bs.size (travFuel s) (newBlock s start).1 start [] hg herr (SPath.single hstart)
    (by simp [travFuel])

/-- (a) `Block.split` never runs out of fuel (only the graph part of the invariant is needed) -/
theorem blockSplit_noerr' (st : St) (ci : Nat) (hwf : WFd st) (hf : Forest st) (hci : ci < st.cs.size)
    (herr : st.err = false) : (blockSplit st ci).1.err = false := by
  rw [blockSplit_fst]
  have hC0 : ∀ c, getC (setC st ci { getC st ci with active := false }) c =
      if c = ci then { getC st ci with active := false } else getC st c := by
    intro c; rw [getC_setC]
    by_cases h : c = ci
    · rw [if_pos ⟨h, hci⟩, if_pos h]
    · rw [if_neg (fun hh => h hh.1), if_neg h]
  have hl0 : (getC (setC st ci { getC st ci with active := false }) ci).l = (getC st ci).l := by rw [hC0, if_pos rfl]
  have hr0 : (getC (setC st ci { getC st ci with active := false }) ci).r = (getC st ci).r := by rw [hC0, if_pos rfl]
  rw [hl0, hr0]
  generalize hs0 : setC st ci { getC st ci with active := false } = s0 at *
  have hV0 : ∀ u, getV s0 u = getV st u := by intro u; rw [← hs0]; rfl
  have hsz0 : s0.cs.size = st.cs.size := by rw [← hs0]; simp
  have hvs0 : s0.vs.size = st.vs.size := by rw [← hs0]; rfl
  have herr0 : s0.err = false := by rw [← hs0]; exact herr
  have hcs : ∀ c, (getC s0 c).l = (getC st c).l ∧ (getC s0 c).r = (getC st c).r ∧
      ((getC s0 c).active = true → (getC st c).active = true) := by
    intro c; rw [hC0]
    by_cases h : c = ci
    · subst h; simp
    · simp [h]
  have hadjm : ∀ x u v, Adj s0 x u v → Adj st x u v := by
    rintro x u v ⟨c, hc, hx, hac, hlr⟩
    rw [(hcs c).1, (hcs c).2.1] at hlr
    exact ⟨c, hsz0 ▸ hc, hx, (hcs c).2.2 hac, hlr⟩
  have hwf0 : WFd s0 := by
    refine ⟨?_, ?_, ?_, ?_, ?_⟩
    · intro c hc; rw [(hcs c).1, (hcs c).2.1, hvs0]; exact hwf.lr c (hsz0 ▸ hc)
    · intro c hc; rw [(hcs c).1, hV0]; exact hwf.out_mem c (hsz0 ▸ hc)
    · intro c hc; rw [(hcs c).2.1, hV0]; exact hwf.in_mem c (hsz0 ▸ hc)
    · intro v hv c hcm; rw [hV0] at hcm; rw [(hcs c).1, hsz0]; exact hwf.out_sound v (hvs0 ▸ hv) c hcm
    · intro v hv c hcm; rw [hV0] at hcm; rw [(hcs c).2.1, hsz0]; exact hwf.in_sound v (hvs0 ▸ hv) c hcm
  have hf0 : Forest s0 := by
    intro c hc hac
    rw [(hcs c).1, (hcs c).2.1]
    exact fun h => hf c (hsz0 ▸ hc) ((hcs c).2.2 hac) (conn_monoS (hadjm (some c)) h)
  obtain ⟨hl, hr⟩ := hwf.lr ci hci
  obtain ⟨e1, g1⟩ := createSplitBlock_noerr s0 (getC st ci).l hwf0 hf0 (hvs0 ▸ hl) herr0
  exact (createSplitBlock_noerr _ (getC st ci).r (g1.wfd hwf0) (g1.forest hf0) (by rw [g1.vsize, hvs0]; exact hr) e1).1

/-- (a) `Block.split` never runs out of fuel -/
theorem blockSplit_noerr (st : St) (ci : Nat) (hinv : Inv st) (hci : ci < st.cs.size) (herr : st.err = false) :
    (blockSplit st ci).1.err = false :=
  blockSplit_noerr' st ci hinv.wf.toWFd hinv.forest hci herr

theorem neighbours_ge (st : St) (v : Nat) (h : st.vs.size ≤ v) : neighbours st v = [] := by
  unfold neighbours
  rw [getV_geS st v h]
  rfl

/-- `computeLm` with the fuel the solver gives it never runs out of fuel, whatever the start variable -/
theorem computeLm_noerr' (st : St) (hinv : Inv st) (herr : st.err = false) (track : Bool) (m : Option Nat) (v : Nat) :
    (computeLm (travFuel st) st track m v none).1.err = false := by
  by_cases hv : v < st.vs.size
  · exact computeLm_noerr st hinv herr track m v hv
  · rw [show travFuel st = (st.vs.size + 1) + 1 from rfl, FrameAux.computeLm_succ,
      neighbours_ge st v (Nat.le_of_not_lt hv)]
    exact herr

/-- (a) `findMinLM` of a block that lists at least one variable never runs out of fuel -/
theorem findMinLM_noerr (st : St) (hinv : Inv st) (herr : st.err = false) (b : Nat) (hne : (getB st b).vars ≠ []) :
    (findMinLM st b).1.err = false := by
  unfold findMinLM
  split
  · next h => exact absurd h hne
  · exact computeLm_noerr' st hinv herr true none _

/-- the `vars` list of a block in use is not empty -/
theorem vars_ne_nil_of_inuse (st : St) (hinv : Inv st) (v : Nat) (hv : v < st.vs.size) :
    (getB st (getV st v).block).vars ≠ [] := by
  have := (hinv.members v hv v).2 ⟨hv, rfl⟩
  exact List.ne_nil_of_mem this

/-- (a) `findMinLM` of a block in use never runs out of fuel -/
theorem findMinLM_noerr_inuse (st : St) (hinv : Inv st) (herr : st.err = false) (v : Nat) (hv : v < st.vs.size) :
    (findMinLM st (getV st v).block).1.err = false :=
  findMinLM_noerr st hinv herr _ (vars_ne_nil_of_inuse st hinv v hv)

/-! ## Part 4: the operations that take no fuel keep `err` as it is; one iteration of the `satisfy` loop raises no `err` -/

theorem removeSet_err (st : St) (b : Nat) : (removeSet st b).err = st.err := by
  unfold removeSet
  simp only
  split <;> rfl

theorem removeBlock_err (st : St) (b : Nat) : (removeBlock st b).err = st.err := by
  unfold removeBlock
  exact removeSet_err st b

theorem insertBlock_err (st : St) (b : Nat) : (insertBlock st b).err = st.err := rfl

theorem updateWeightedPosition_err (st : St) (b : Nat) : (updateWeightedPosition st b).err = st.err := rfl

theorem foldl_err_eq' {α : Type} (f : St → α → St) (hf : ∀ st x, (f st x).err = st.err) (l : List α) (st : St) :
    (l.foldl f st).err = st.err := by
  induction l generalizing st with
  | nil => rfl
  | cons a l ih => simp only [List.foldl_cons]; rw [ih, hf]

theorem mergeAcross_err' (st : St) (self b ci : Nat) (dist : Rat) : (mergeAcross st self b ci dist).err = st.err := by
  unfold mergeAcross
  simp only [setB_err]
  rw [foldl_err_eq']
  · rfl
  · intro s x; rfl

theorem mergeBlocks_err (st : St) (ci : Nat) : (mergeBlocks st ci).err = st.err := by
  unfold mergeBlocks
  dsimp only
  split <;> rw [removeBlock_err, mergeAcross_err']

theorem splitBranch_err (st1 : St) (v sc lb : Nat) : (splitBranch st1 v sc lb).err = (blockSplit st1 sc).1.err := by
  have h : (removeBlock (insertBlock (insertBlock (blockSplit st1 sc).1 (blockSplit st1 sc).2.1) (blockSplit st1 sc).2.2)
      lb).err = (blockSplit st1 sc).1.err := by
    rw [removeBlock_err, insertBlock_err, insertBlock_err]
  unfold splitBranch
  dsimp only
  generalize removeBlock (insertBlock (insertBlock (blockSplit st1 sc).1 (blockSplit st1 sc).2.1) (blockSplit st1 sc).2.2)
    lb = sb at h ⊢
  split
  · exact h
  · rw [mergeBlocks_err]; exact h

/-- one iteration of the `satisfy` loop (up to the next `mostViolated()`) never runs out of fuel -/
theorem satStep_noerr (st : St) (v : Nat) (hinv : Inv st) (hv : v < st.cs.size) (herr : st.err = false) :
    (satStep st v).2 = true ∧ (satStep st v).1.err = false := by
  obtain ⟨hl, hr⟩ := hinv.wf.lr v hv
  unfold satStep
  dsimp only
  split
  · exact ⟨rfl, by rw [mergeBlocks_err]; exact herr⟩
  · have h1 := isActiveDirectedPathBetween_noerr st hinv (getC st v).r (getC st v).l hr
    split
    · next h => exact absurd h h1
    · exact ⟨rfl, herr⟩
    · have e1 := computeLm_noerr' st hinv herr false none (getC st v).l
      have hce := computeLm_coreEq (travFuel st) st false none (getC st v).l none
      generalize (computeLm (travFuel st) st false none (getC st v).l none).1 = st1 at hce e1 ⊢
      have i1 : Inv st1 := hinv.of_coreEq hce
      have htf : travFuel st = travFuel st1 := by unfold travFuel; rw [hce.vsize]
      have h2 := findPath_noerr st1 i1 none (getC st v).l (getC st v).r (by rw [hce.vsize]; exact hl)
      rw [htf]
      split
      · next h => exact absurd h h2
      · exact ⟨rfl, e1⟩
      · next b sc hfp =>
        obtain ⟨p1, _, _⟩ := findPath_sep st1 i1 (getC st v).l (getC st v).r (by rw [hce.vsize]; exact hl) _ b sc hfp
        exact ⟨rfl, by rw [splitBranch_err]; exact blockSplit_noerr st1 sc i1 p1 e1⟩

/-! ## Part 5: the split pass `Blocks.split` raises no `err` -/

theorem getB_ge (st : St) (b : Nat) (h : st.bs.size ≤ b) : getB st b = default := by
  unfold getB
  simp [Array.getD, Nat.not_lt.2 h]

theorem lt_of_vars_ne_nil {st : St} {b : Nat} (h : (getB st b).vars ≠ []) : b < st.bs.size := by
  by_contra hn
  rw [getB_ge st b (Nat.le_of_not_lt hn)] at h
  exact h rfl

theorem splitOne_err (st : St) (ci : Nat) : (splitOne st ci).err = (blockSplit st ci).1.err := by
  unfold splitOne
  dsimp only
  rw [removeSet_err, insertBlock_err, insertBlock_err]

theorem insertBlock_list (st : St) (b : Nat) : (insertBlock st b).list = st.list.push b := rfl

theorem removeSet_list_size (st : St) (b : Nat) : (removeSet st b).list.size = st.list.size := by
  unfold removeSet
  simp only
  split
  · simp
  · rfl

theorem removeSet_list_mem (st : St) (b x : Nat) (hx : x ∈ (removeSet st b).list.toList) : x ∈ st.list.toList := by
  unfold removeSet at hx
  simp only at hx
  split at hx
  · simp only [setB_list, Array.toList_setIfInBounds] at hx
    rcases List.mem_or_eq_of_mem_set hx with h | h
    · exact h
    · have hpos : 0 < st.list.size := by
        by_contra hn
        have : st.list.toList = [] := by
          have : st.list.size = 0 := by omega
          simpa using this
        rw [this] at hx
        simp at hx
      rw [h]
      exact (FrameAux.natArr_mem_toList_iff _ _).2 ⟨st.list.size - 1, by omega, rfl⟩
  · exact hx

theorem blockSplit_list (st : St) (ci : Nat) (hinv : Inv st) (hci : ci < st.cs.size) :
    (blockSplit st ci).1.list = st.list := by
  obtain ⟨hl, hr⟩ := hinv.wf.lr ci hci
  exact (blockSplit_steps st ci (hinv.wf.scale_ne _ hl) (hinv.wf.scale_ne _ hr)).facts.list_eq

theorem splitL0_false (st : St) (ci : Nat) (L0 : Array Nat) : splitL0 st ci L0 false = L0 := by
  simp [splitL0]

theorem splitL0_true_size (st : St) (ci : Nat) (L0 : Array Nat) (hinv : Inv st) (hci : ci < st.cs.size) :
    (splitL0 st ci L0 true).size = st.list.size + 2 := by
  simp only [splitL0, if_true]
  rw [removeSet_list_size, insertBlock_list, insertBlock_list, blockSplit_list st ci hinv hci]
  simp

theorem splitL0_true_mem (st : St) (ci : Nat) (L0 : Array Nat) (hinv : Inv st) (hci : ci < st.cs.size) (x : Nat)
    (hx : x ∈ (splitL0 st ci L0 true).toList) : x ∈ st.list.toList ∨ x = st.bs.size ∨ x = st.bs.size + 1 := by
  simp only [splitL0, if_true] at hx
  have := removeSet_list_mem _ _ _ hx
  rw [insertBlock_list, insertBlock_list, blockSplit_list st ci hinv hci, (blockSplit_ids st ci).1,
    (blockSplit_ids st ci).2] at this
  simpa [or_assoc] using this

theorem splitOne_getB (st : St) (ci b : Nat) : (getB (splitOne st ci) b).vars = (getB (blockSplit st ci).1 b).vars :=
  (splitOne_coreEq st ci).bvars b

theorem splitOne_vars (st : St) (ci : Nat) (hinv : Inv st) (hci : ci < st.cs.size) (ha : (getC st ci).active = true)
    (herr : (blockSplit st ci).1.err = false) :
    (∀ b, b < st.bs.size → (getB (splitOne st ci) b).vars = (getB st b).vars) ∧
    (getB (splitOne st ci) st.bs.size).vars ≠ [] ∧ (getB (splitOne st ci) (st.bs.size + 1)).vars ≠ [] := by
  have D := blockSplit_desc st ci hinv hci ha herr
  refine ⟨fun b hb => ?_, ?_, ?_⟩
  · rw [splitOne_getB, D.bother b (by omega) (by omega)]
  · rw [splitOne_getB]
    exact List.ne_nil_of_mem ((D.varsL _).2 (Conn.reflS _ _ _))
  · rw [splitOne_getB]
    exact List.ne_nil_of_mem ((D.varsR _).2 (Conn.reflS _ _ _))

/-- the loop of `Blocks.split` does not run out of fuel: every listed block lists a variable (so `findMinLM` finds a start),
and the list the `for` statement iterates over grows by two entries at most once (while it is still `self._list`) -/
theorem splitLoop_noerr : ∀ (fuel : Nat) (st : St) (L0 : Array Nat) (al : Bool) (i : Nat), Inv st → VarsNodup st →
    AdjNodup st → Covered st none → st.err = false → (∀ b ∈ L0.toList, (getB st b).vars ≠ []) →
    (al = true → st.list = L0) → i ≤ L0.size → L0.size + (if al = true then 3 else 1) ≤ fuel + i →
    (splitLoop fuel st L0 al i).err = false
  | 0, st, L0, al, i, _, _, _, _, _, _, _, hi, hf => by
    exfalso
    cases al <;> simp at hf <;> omega
  | fuel + 1, st, L0, al, i, hinv, hnd, hadj, hcov, herr, hne, hal, hi, hf => by
    rw [splitLoop_succ]
    split
    · next hlt =>
      have hmem : L0[i] ∈ L0.toList := by simp
      have hce := findMinLM_coreEq st L0[i]
      have hq := findMinLM_quiet st L0[i]
      have hsome := findMinLM_some st hinv.wf L0[i]
      have e1 := findMinLM_noerr st hinv herr L0[i] (hne _ hmem)
      generalize findMinLM st L0[i] = fm at *
      have i1 : Inv fm.1 := hinv.of_coreEq hce
      have n1 : VarsNodup fm.1 := hnd.of_coreEq hce
      have c1 : Covered fm.1 none := hcov.of_coreEq hce
      have a1 : AdjNodup fm.1 := hadj.of_frame hce.toFrame
      have hne1 : ∀ b ∈ L0.toList, (getB fm.1 b).vars ≠ [] := fun b hb => by rw [hq.getB]; exact hne b hb
      have hal1 : al = true → fm.1.list = L0 := fun h => hq.list_eq.trans (hal h)
      have hf' : L0.size + (if al = true then 3 else 1) ≤ fuel + (i + 1) := by omega
      split
      · exact splitLoop_noerr fuel fm.1 L0 al (i + 1) i1 n1 a1 c1 e1 hne1 hal1 (by omega) hf'
      · next ci hm =>
        obtain ⟨hci, hact⟩ := hsome ci hm
        have hci1 : ci < fm.1.cs.size := by rw [hce.csize]; exact hci
        have hact1 : (getC fm.1 ci).active = true := (hce.flags ci).1.trans hact
        split
        · have eb := blockSplit_noerr fm.1 ci i1 hci1 e1
          have es : (splitOne fm.1 ci).err = false := by rw [splitOne_err]; exact eb
          obtain ⟨p1, p2, p3, p4⟩ := splitOne_spec fm.1 ci i1 n1 a1 c1 hci1 hact1 es
          obtain ⟨v1, v2, v3⟩ := splitOne_vars fm.1 ci i1 hci1 hact1 eb
          have hold : ∀ b ∈ L0.toList, (getB (splitOne fm.1 ci) b).vars ≠ [] := fun b hb => by
            rw [v1 b (lt_of_vars_ne_nil (hne1 b hb))]; exact hne1 b hb
          cases al with
          | false =>
            rw [splitL0_false]
            exact splitLoop_noerr fuel _ L0 false (i + 1) p1 p2 (a1.of_frame p4) p3 es hold (by simp) (by omega)
              (by simpa using hf')
          | true =>
            have hl := hal1 rfl
            refine splitLoop_noerr fuel _ _ false (i + 1) p1 p2 (a1.of_frame p4) p3 es ?_ (by simp) ?_ ?_
            · intro b hb
              rcases splitL0_true_mem fm.1 ci L0 i1 hci1 b hb with h | h | h
              · rw [hl] at h; exact hold b h
              · rw [h]; exact v2
              · rw [h]; exact v3
            · rw [splitL0_true_size fm.1 ci L0 i1 hci1, hl]; omega
            · rw [splitL0_true_size fm.1 ci L0 i1 hci1, hl]
              simp only [if_true] at hf'
              simp only [Bool.false_eq_true, if_false]
              omega
        · exact splitLoop_noerr fuel fm.1 L0 al (i + 1) i1 n1 a1 c1 e1 hne1 hal1 (by omega) hf'
    · exact herr

theorem foldl_uwp_err (l : List Nat) (st : St) :
    (l.foldl (fun st b => updateWeightedPosition st b) st).err = st.err :=
  foldl_err_eq' (fun st b => updateWeightedPosition st b) (fun _ _ => rfl) l st


theorem foldl_uwp_ls_list (l : List Nat) : ∀ st : St, ListInv st →
    ListInv (l.foldl (fun st b => updateWeightedPosition st b) st) := by
  induction l with
  | nil => intro st hL; exact hL
  | cons a t ih =>
    intro st hL
    rw [List.foldl_cons]
    exact ih _ (hL.of_indEq (updateWeightedPosition_indEq st a))

/-- (a) the split pass of `satisfy` raises no `err` -/
theorem blocksSplit_noerr (st : St) (hinv : Inv st) (hnd : VarsNodup st) (hadj : AdjNodup st) (hcov : Covered st none)
    (hL : ListInv st) (herr : st.err = false) : (blocksSplit st).err = false := by
  have hce := blocksSplit_pre_coreEq st
  have hpre : ListInv (st.list.foldl (fun st b => updateWeightedPosition st b) st) := by
    rw [← Array.foldl_toList]
    exact (foldl_uwp_ls_list _ st hL)
  have herr' : (st.list.foldl (fun st b => updateWeightedPosition st b) st).err = false := by
    rw [← Array.foldl_toList, foldl_uwp_err]; exact herr
  unfold blocksSplit
  generalize st.list.foldl (fun st b => updateWeightedPosition st b) st = s1 at *
  have i1 : Inv s1 := hinv.of_coreEq hce
  refine splitLoop_noerr _ s1 s1.list true 0 i1 (hnd.of_coreEq hce) (hadj.of_frame hce.toFrame) (hcov.of_coreEq hce)
    herr' ?_ (fun _ => rfl) (Nat.zero_le _) (by simp)
  intro b hb
  obtain ⟨v, hv, e⟩ := hpre.inuse b hb
  rw [← e]
  exact vars_ne_nil_of_inuse s1 i1 v hv

/-! ## Part 6: `err` after `satisfy` comes from `satisfyLoop` reaching fuel `0`, and from nowhere else

The loop of `Solver.satisfy` without fuel: `satCond` is the test of the `while` statement, `satNext` its body followed by the
next `mostViolated()`.  Neither involves the loop fuel.  Under the invariants the body never raises `err` (`satStep_noerr`), the
split pass before the loop does not either (`blocksSplit_noerr`), hence `satisfy n` raises `err` exactly when the test of the
`while` statement is still true at the start of each of the first `n` iterations. -/

/-- the test of the `while` loop of `Solver.satisfy` -/
def satCond (p : St × Option Nat) : Bool :=
  match p.2 with
  | none => false
  | some v => slack p.1 v < Gen.zeroUpperBound && !(getC p.1 v).active

/-- the body of the `while` loop of `Solver.satisfy`, followed by the next `mostViolated()` -/
def satNext (p : St × Option Nat) : St × Option Nat :=
  match p.2 with
  | none => p
  | some v => mostViolated (satStep p.1 v).1

/-- `k` iterations of the loop body (no test, no fuel) -/
def satIter : Nat → St × Option Nat → St × Option Nat
  | 0, p => p
  | k + 1, p => satIter k (satNext p)

theorem satisfyLoop_err_iff : ∀ (n : Nat) (st0 : St), Inv st0 → VarsNodup st0 → AdjNodup st0 → Covered st0 none →
    st0.err = false →
    ((satisfyLoop n (mostViolated st0).1 (mostViolated st0).2).err = true ↔
      ∀ k, k < n → satCond (satIter k (mostViolated st0)) = true)
  | 0, st0, _, _, _, _, _ => by
    rw [satisfyLoop]
    exact ⟨fun _ k hk => absurd hk (Nat.not_lt_zero k), fun _ => rfl⟩
  | n + 1, st0, hinv, hnd, hadj, hcov, herr => by
    have herr0 : (mostViolated st0).1.err = false := by rw [mv_err]; exact herr
    cases hmv : (mostViolated st0).2 with
    | none =>
      rw [satisfyLoop, herr0]
      constructor
      · intro h; cases h
      · intro h
        have := h 0 (Nat.succ_pos n)
        simp [satIter, satCond, hmv] at this
    | some v =>
      rw [satisfyLoop_succ]
      have h0 : satCond (satIter 0 (mostViolated st0)) =
          (slack (mostViolated st0).1 v < Gen.zeroUpperBound && !(getC (mostViolated st0).1 v).active) := by
        rw [satIter]; unfold satCond; rw [hmv]
      by_cases hc : (slack (mostViolated st0).1 v < Gen.zeroUpperBound && !(getC (mostViolated st0).1 v).active) = true
      · rw [if_pos hc]
        obtain ⟨is, ns, as, cs, hv, hact⟩ := mv_pre st0 hinv hnd hadj hcov v hmv hc
        obtain ⟨s2, serr⟩ := satStep_noerr (mostViolated st0).1 v is hv herr0
        rw [if_pos s2]
        obtain ⟨t1, t2, t3, t4⟩ := satStep_spec (mostViolated st0).1 v is ns as cs hv hact serr
        have ih := satisfyLoop_err_iff n (satStep (mostViolated st0).1 v).1 t1 t2 (as.of_frame t4) t3 serr
        have hnext : satNext (mostViolated st0) = mostViolated (satStep (mostViolated st0).1 v).1 := by
          simp only [satNext, hmv]
        rw [ih]
        constructor
        · intro h k hk
          cases k with
          | zero => rw [h0]; exact hc
          | succ k =>
            rw [satIter, hnext]
            exact h k (Nat.lt_of_succ_lt_succ hk)
        · intro h k hk
          have := h (k + 1) (Nat.succ_lt_succ hk)
          rw [satIter, hnext] at this
          exact this
      · rw [if_neg hc, herr0]
        constructor
        · intro h; cases h
        · intro h
          have := h 0 (Nat.succ_pos n)
          rw [h0] at this
          exact absurd this hc

/-- the state and pending constraint the `while` loop of `satisfy` is entered with -/
def satStart (st : St) : St × Option Nat := mostViolated (blocksSplit st)

/-- **(b), strong form.**  In a state that satisfies the invariants, `satisfy n` raises `err` if and only if the test of its `while`
loop is still true at the start of each of the first `n` iterations: the only source of `err` is the loop fuel. -/
theorem satisfy_err_iff (n : Nat) (st : St) (h : Inv2 st) (hcov : Covered st none) (herr : st.err = false) :
    (satisfy n st).err = true ↔ ∀ k, k < n → satCond (satIter k (satStart st)) = true := by
  have e1 := blocksSplit_noerr st h.inv h.nd h.adj hcov h.list herr
  obtain ⟨t1, t2, t3, t4⟩ := blocksSplit_inv st h.inv h.nd h.adj hcov e1
  unfold satisfy satStart
  exact satisfyLoop_err_iff n (blocksSplit st) t1 t2 (h.adj.of_frame t4) t3 e1

/-- when the test of the `while` loop first fails at iteration `k < n`, `satisfyLoop n` returns the state of that iteration -/
theorem satisfyLoop_eq_iter : ∀ (n : Nat) (st0 : St), Inv st0 → VarsNodup st0 → AdjNodup st0 → Covered st0 none →
    st0.err = false → ∀ k, k < n → (∀ j, j < k → satCond (satIter j (mostViolated st0)) = true) →
    satCond (satIter k (mostViolated st0)) = false →
    satisfyLoop n (mostViolated st0).1 (mostViolated st0).2 = (satIter k (mostViolated st0)).1
  | 0, _, _, _, _, _, _, k, hk, _, _ => absurd hk (Nat.not_lt_zero k)
  | n + 1, st0, hinv, hnd, hadj, hcov, herr, k, hk, hbefore, hstop => by
    have herr0 : (mostViolated st0).1.err = false := by rw [mv_err]; exact herr
    cases hmv : (mostViolated st0).2 with
    | none =>
      rw [satisfyLoop]
      cases k with
      | zero => rfl
      | succ k =>
        have := hbefore 0 (Nat.succ_pos k)
        simp [satIter, satCond, hmv] at this
    | some v =>
      rw [satisfyLoop_succ]
      have h0 : satCond (satIter 0 (mostViolated st0)) =
          (slack (mostViolated st0).1 v < Gen.zeroUpperBound && !(getC (mostViolated st0).1 v).active) := by
        rw [satIter]; unfold satCond; rw [hmv]
      by_cases hc : (slack (mostViolated st0).1 v < Gen.zeroUpperBound && !(getC (mostViolated st0).1 v).active) = true
      · rw [if_pos hc]
        obtain ⟨is, ns, as, cs, hv, hact⟩ := mv_pre st0 hinv hnd hadj hcov v hmv hc
        obtain ⟨s2, serr⟩ := satStep_noerr (mostViolated st0).1 v is hv herr0
        rw [if_pos s2]
        obtain ⟨t1, t2, t3, t4⟩ := satStep_spec (mostViolated st0).1 v is ns as cs hv hact serr
        have hnext : satNext (mostViolated st0) = mostViolated (satStep (mostViolated st0).1 v).1 := by
          simp only [satNext, hmv]
        cases k with
        | zero =>
          rw [h0, hc] at hstop
          cases hstop
        | succ k =>
          rw [satIter, hnext] at hstop ⊢
          refine satisfyLoop_eq_iter n (satStep (mostViolated st0).1 v).1 t1 t2 (as.of_frame t4) t3 serr k
            (Nat.lt_of_succ_lt_succ hk) ?_ hstop
          intro j hj
          have := hbefore (j + 1) (Nat.succ_lt_succ hj)
          rw [satIter, hnext] at this
          exact this
      · rw [if_neg hc]
        cases k with
        | zero => rfl
        | succ k =>
          have := hbefore 0 (Nat.succ_pos k)
          rw [h0] at this
          exact absurd this hc

/-- … and then `satisfy n` returns the state the fuel-free loop stops in, whatever `n` (beyond the number of iterations) -/
theorem satisfy_eq_iter (n : Nat) (st : St) (h : Inv2 st) (hcov : Covered st none) (herr : st.err = false) (k : Nat)
    (hk : k < n) (hbefore : ∀ j, j < k → satCond (satIter j (satStart st)) = true)
    (hstop : satCond (satIter k (satStart st)) = false) : satisfy n st = (satIter k (satStart st)).1 := by
  have e1 := blocksSplit_noerr st h.inv h.nd h.adj hcov h.list herr
  obtain ⟨t1, t2, t3, t4⟩ := blocksSplit_inv st h.inv h.nd h.adj hcov e1
  unfold satisfy
  exact satisfyLoop_eq_iter n (blocksSplit st) t1 t2 (h.adj.of_frame t4) t3 e1 k hk hbefore hstop

/-! ## Part 7: `err` after `solve` comes from `solveLoop` or from the `satisfyLoop` of one of its passes -/

/-- the test of the `while` loop of `Solver.solve`, on (state, lastcost, cost) -/
def solveCond (p : St × Rat × Rat) : Bool := decide (ratAbs (p.2.1 - p.2.2) > Gen.solveCostTolerance)

/-- the body of the `while` loop of `Solver.solve` -/
def solveNext (sfuel : Nat) (p : St × Rat × Rat) : St × Rat × Rat :=
  (satisfy sfuel p.1, p.2.2, cost (satisfy sfuel p.1))

def solveIter (sfuel : Nat) : Nat → St × Rat × Rat → St × Rat × Rat
  | 0, p => p
  | k + 1, p => solveIter sfuel k (solveNext sfuel p)

/-- what the `while` loop of `Solver.solve` is entered with -/
def solveStart (sfuel : Nat) (st : St) : St × Rat × Rat := (satisfy sfuel st, maxsize, cost (satisfy sfuel st))

theorem satisfy_inv2 (sfuel : Nat) (st : St) (h : Inv2 st) (hcov : Covered st none)
    (herr : (satisfy sfuel st).err = false) : Inv2 (satisfy sfuel st) ∧ Covered (satisfy sfuel st) none := by
  obtain ⟨t1, t2, t3, _, t5⟩ := satisfy_spec sfuel st h.inv h.nd h.adj hcov herr
  obtain ⟨l1, s1⟩ := satisfy_ls sfuel st h.inv h.nd h.adj hcov h.list h.stats herr
  exact ⟨⟨t1, t2, h.adj.of_frame t5, l1, s1⟩, t3⟩

theorem solveLoop_err_cases (sfuel : Nat) : ∀ (n : Nat) (st : St) (lc c : Rat), Inv2 st → Covered st none →
    st.err = false → (solveLoop n sfuel st lc c).1.err = true →
    (∃ st', Inv2 st' ∧ Covered st' none ∧ st'.err = false ∧ (satisfy sfuel st').err = true) ∨
    (∀ k, k < n → solveCond (solveIter sfuel k (st, lc, c)) = true)
  | 0, _, _, _, _, _, _, _ => Or.inr (fun k hk => absurd hk (Nat.not_lt_zero k))
  | n + 1, st, lc, c, h, hcov, herr, he => by
    rw [solveLoop] at he
    by_cases hc : ratAbs (lc - c) > Gen.solveCostTolerance
    · rw [if_pos hc] at he
      cases h1 : (satisfy sfuel st).err with
      | true => exact Or.inl ⟨st, h, hcov, herr, h1⟩
      | false =>
        obtain ⟨h2, hcov2⟩ := satisfy_inv2 sfuel st h hcov h1
        rcases solveLoop_err_cases sfuel n (satisfy sfuel st) c (cost (satisfy sfuel st)) h2 hcov2 h1 he with hl | hr
        · exact Or.inl hl
        · refine Or.inr (fun k hk => ?_)
          cases k with
          | zero => simpa [solveIter, solveCond] using hc
          | succ k => exact hr k (Nat.lt_of_succ_lt_succ hk)
    · rw [if_neg hc] at he
      rw [herr] at he
      cases he

/-- **(c), strong form.**  If `solve fuel sfuel` raises `err` from a state that satisfies the invariants, then either one of its
`satisfy` passes — entered in a state that satisfies all invariants, with `err = false` — found the test of its `while` loop true at
the start of each of its `sfuel` iterations, or the test of the `while` loop of `solve` itself was true at the start of each of
its `fuel` iterations.  No traversal and no split pass contributes. -/
theorem solve_err_only_from_loops (fuel sfuel : Nat) (st : St) (h : Inv2 st) (hcov : Covered st none) (herr : st.err = false)
    (he : (solve fuel sfuel st).1.err = true) :
    (∃ st', Inv2 st' ∧ Covered st' none ∧ st'.err = false ∧
        ∀ k, k < sfuel → satCond (satIter k (satStart st')) = true) ∨
    (∀ k, k < fuel → solveCond (solveIter sfuel k (solveStart sfuel st)) = true) := by
  have key : (∃ st', Inv2 st' ∧ Covered st' none ∧ st'.err = false ∧ (satisfy sfuel st').err = true) ∨
      (∀ k, k < fuel → solveCond (solveIter sfuel k (solveStart sfuel st)) = true) := by
    unfold solve at he
    cases h1 : (satisfy sfuel st).err with
    | true => exact Or.inl ⟨st, h, hcov, herr, h1⟩
    | false =>
      obtain ⟨h2, hcov2⟩ := satisfy_inv2 sfuel st h hcov h1
      exact solveLoop_err_cases sfuel fuel (satisfy sfuel st) maxsize (cost (satisfy sfuel st)) h2 hcov2 h1 he
  rcases key with ⟨st', a1, a2, a3, a4⟩ | hr
  · exact Or.inl ⟨st', a1, a2, a3, (satisfy_err_iff sfuel st' a1 a2 a3).1 a4⟩
  · exact Or.inr hr

/-- conversely, if the test of the `while` loop of `solve` is true at the start of each of the first `fuel` iterations,
`solve fuel` raises `err` (whatever the state) -/
theorem solveLoop_err_of_cond (sfuel : Nat) : ∀ (n : Nat) (st : St) (lc c : Rat),
    (∀ k, k < n → solveCond (solveIter sfuel k (st, lc, c)) = true) → (solveLoop n sfuel st lc c).1.err = true
  | 0, _, _, _, _ => by rw [solveLoop]
  | n + 1, st, lc, c, h => by
    rw [solveLoop]
    have h0 := h 0 (Nat.succ_pos n)
    have hc : ratAbs (lc - c) > Gen.solveCostTolerance := by simpa [solveIter, solveCond] using h0
    rw [if_pos hc]
    exact solveLoop_err_of_cond sfuel n _ _ _ (fun k hk => h (k + 1) (Nat.succ_lt_succ hk))

/-! ## Part 8: recomputing the multipliers (`multipliers`, `lmState`) raises no `err` -/

theorem lmState_noerr (st : St) (hinv : Inv st) (hL : ListInv st) (herr : st.err = false) : (lmState st).err = false := by
  unfold lmState
  rw [← Array.foldl_toList]
  refine (foldl_invS (fun acc : St => CoreEq st acc ∧ Quiet st acc ∧ acc.err = false) _ _ _
    ⟨CoreEq.refl st, Quiet.refl st, herr⟩ ?_).2.2
  rintro acc b hb ⟨hce, hq, he⟩
  obtain ⟨v, hv, e⟩ := hL.inuse b hb
  have hne : (getB acc b).vars ≠ [] := by
    rw [hq.getB, ← e]; exact vars_ne_nil_of_inuse st hinv v hv
  exact ⟨hce.trans (findMinLM_coreEq acc b), hq.trans (findMinLM_quiet acc b),
    findMinLM_noerr acc (hinv.of_coreEq hce) he b hne⟩

end Labella.Vpsc
