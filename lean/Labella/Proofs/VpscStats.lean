import Labella.Proofs.VpscFrame
import Labella.Proofs.VpscMerge
import Labella.Proofs.VpscSplit
import Mathlib.Algebra.Order.Field.Rat
import Mathlib.Algebra.BigOperators.Group.List.Basic
import Mathlib.Tactic.Ring
import Mathlib.Tactic.Linarith
/-! # Position statistics of a single block (`StatsB`) and the elementary operations that keep them exact

`StatsInv st` says `StatsB st b` for every block `b` some variable points to.  This file has the congruence lemma
(`StatsOK.congr`: the statistics of a block depend on the block object and on the data of the variables it lists only) and
the effect of `setV` / `addVariable` / `newBlock` on them. -/
namespace Labella.Vpsc

/-- the statistics stored in the block object `x` are those of the variables it lists (read in `st`) -/
def StatsOK (st : St) (x : B) : Prop :=
  x.scale ≠ 0 ∧ x.AB = sumAB st x ∧ x.AD = sumAD st x ∧ x.A2 = sumA2 st x ∧ x.posn = getPosn x

/-- … for the block with id `b` -/
def StatsB (st : St) (b : Nat) : Prop := StatsOK st (getB st b)

theorem statsInv_iff (st : St) : StatsInv st ↔ ∀ v, v < st.vs.size → StatsB st (getV st v).block := Iff.rfl

/-- the data of a variable the statistics read -/
def VSame (v v' : V) : Prop := v'.w = v.w ∧ v'.s = v.s ∧ v'.offset = v.offset ∧ v'.d = v.d

theorem VSame.rfl' (v : V) : VSame v v := ⟨rfl, rfl, rfl, rfl⟩

/-- the fields of a block object the statistics read (everything but `ind`) -/
def BSame (x y : B) : Prop :=
  y.vars = x.vars ∧ y.scale = x.scale ∧ y.AB = x.AB ∧ y.AD = x.AD ∧ y.A2 = x.A2 ∧ y.posn = x.posn

theorem BSame.rfl' (x : B) : BSame x x := ⟨rfl, rfl, rfl, rfl, rfl, rfl⟩

theorem BSame.trans {x y z : B} (h1 : BSame x y) (h2 : BSame y z) : BSame x z :=
  ⟨h2.1.trans h1.1, h2.2.1.trans h1.2.1, h2.2.2.1.trans h1.2.2.1, h2.2.2.2.1.trans h1.2.2.2.1,
    h2.2.2.2.2.1.trans h1.2.2.2.2.1, h2.2.2.2.2.2.trans h1.2.2.2.2.2⟩

theorem BSame.setInd (x : B) (k : Nat) : BSame x { x with ind := k } := ⟨rfl, rfl, rfl, rfl, rfl, rfl⟩

theorem sums_congr {st st' : St} {x y : B} (hB : BSame x y) (hV : ∀ i ∈ x.vars, VSame (getV st i) (getV st' i)) :
    sumAB st' y = sumAB st x ∧ sumAD st' y = sumAD st x ∧ sumA2 st' y = sumA2 st x := by
  obtain ⟨h1, h2, _⟩ := hB
  unfold sumAB sumAD sumA2
  rw [h1, h2]
  refine ⟨?_, ?_, ?_⟩ <;>
  · congr 1
    apply List.map_congr_left
    intro i hi
    obtain ⟨a, b, c, d⟩ := hV i hi
    simp only [a, b, c, d]

theorem StatsOK.congr {st st' : St} {x y : B} (hB : BSame x y) (hV : ∀ i ∈ x.vars, VSame (getV st i) (getV st' i))
    (h : StatsOK st x) : StatsOK st' y := by
  obtain ⟨e1, e2, e3⟩ := sums_congr hB hV
  obtain ⟨h1, h2, h3, h4, h5, h6⟩ := hB
  obtain ⟨g1, g2, g3, g4, g5⟩ := h
  refine ⟨by rw [h2]; exact g1, by rw [h3, e1]; exact g2, by rw [h4, e2]; exact g3, by rw [h5, e3]; exact g4, ?_⟩
  rw [h6, g5]
  unfold getPosn
  rw [h3, h4, h5]

theorem StatsB.congr {st st' : St} {b b' : Nat} (hB : BSame (getB st b) (getB st' b'))
    (hV : ∀ i ∈ (getB st b).vars, VSame (getV st i) (getV st' i)) (h : StatsB st b) : StatsB st' b' :=
  StatsOK.congr hB hV h

/-- changing a variable the block does not list -/
theorem setV_statsB (s : St) (b w : Nat) (v' : V) (hw : w ∉ (getB s b).vars) (h : StatsB s b) : StatsB (setV s w v') b := by
  refine StatsB.congr (st := s) (b := b) (BSame.rfl' _) (fun i hi => ?_) h
  rw [getV_setV, if_neg]
  · exact VSame.rfl' _
  · rintro ⟨rfl, _⟩; exact hw hi

/-- `Block.addVariable` of a variable the block does not list yet -/
theorem addVariable_statsB (s : St) (b w : Nat) (hb : b < s.bs.size) (hw : w ∉ (getB s b).vars) (h : StatsB s b) :
    StatsB (addVariable s b w) b := by
  obtain ⟨g1, g2, g3, g4, _⟩ := h
  have hV : ∀ i, i ∈ (getB s b).vars → getV (addVariable s b w) i = getV s i := by
    intro i hi
    rw [getV_addVariable, if_neg]
    rintro ⟨rfl, _⟩; exact hw hi
  have hB : getB (addVariable s b w) b =
      { addStats (getB s b) (getV (addVariable s b w) w) with
        vars := (getB s b).vars ++ [w], posn := getPosn (addStats (getB s b) (getV (addVariable s b w) w)) } := by
    simp only [addVariable, getB_setB, getB_setV, setV_bs, getV_setB]
    rw [if_pos ⟨trivial, hb⟩]
    rfl
  unfold StatsB StatsOK
  rw [hB]
  have hsum : ∀ f : V → Rat, (((getB s b).vars ++ [w]).map (fun i => f (getV (addVariable s b w) i))).sum =
      ((getB s b).vars.map (fun i => f (getV s i))).sum + f (getV (addVariable s b w) w) := by
    intro f
    rw [List.map_append, List.sum_append]
    congr 1
    · congr 1
      apply List.map_congr_left
      intro i hi
      rw [hV i hi]
    · simp
  refine ⟨g1, ?_, ?_, ?_, rfl⟩
  · have := hsum (fun v => v.w * ((getB s b).scale / v.s) * (v.offset / v.s))
    simp only [sumAB, addStats] at this ⊢
    rw [this, g2]
    rfl
  · have := hsum (fun v => v.w * ((getB s b).scale / v.s) * v.d)
    simp only [sumAD, addStats] at this ⊢
    rw [this, g3]
    rfl
  · have := hsum (fun v => v.w * ((getB s b).scale / v.s) * ((getB s b).scale / v.s))
    simp only [sumA2, addStats] at this ⊢
    rw [this, g4]
    rfl

/-- `addVariable` leaves the other blocks alone when they do not list the variable -/
theorem addVariable_statsB_ne (s : St) (b w b' : Nat) (hne : b' ≠ b) (hw : w ∉ (getB s b').vars) (h : StatsB s b') :
    StatsB (addVariable s b w) b' := by
  refine StatsB.congr (st := s) (b := b') ?_ (fun i hi => ?_) h
  · rw [getB_addVariable_ne _ _ _ _ hne]; exact BSame.rfl' _
  · rw [getV_addVariable, if_neg]
    · exact VSame.rfl' _
    · rintro ⟨rfl, _⟩; exact hw hi


/-! ## Steps that touch neither the variables, nor the block objects, nor the block list -/

structure Quiet (st st' : St) : Prop where
  vs_eq : st'.vs = st.vs
  bs_eq : st'.bs = st.bs
  list_eq : st'.list = st.list

theorem Quiet.refl (st : St) : Quiet st st := ⟨rfl, rfl, rfl⟩

theorem Quiet.trans {a b c : St} (h1 : Quiet a b) (h2 : Quiet b c) : Quiet a c :=
  ⟨h2.vs_eq.trans h1.vs_eq, h2.bs_eq.trans h1.bs_eq, h2.list_eq.trans h1.list_eq⟩

theorem Quiet.getV {st st' : St} (h : Quiet st st') (i : Nat) : getV st' i = getV st i := by
  unfold Vpsc.getV; rw [h.vs_eq]

theorem Quiet.getB {st st' : St} (h : Quiet st st') (i : Nat) : getB st' i = getB st i := by
  unfold Vpsc.getB; rw [h.bs_eq]

theorem StatsInv.of_quiet {st st' : St} (h : Quiet st st') (hs : StatsInv st) : StatsInv st' := by
  intro v hv
  rw [h.vs_eq] at hv
  have := hs v hv
  refine StatsB.congr (st := st) (b := (Vpsc.getV st v).block) ?_ (fun i _ => ?_) this
  · rw [h.getV, h.getB]; exact BSame.rfl' _
  · rw [h.getV]; exact VSame.rfl' _

theorem ListInv.of_quiet {st st' : St} (h : Quiet st st') (hl : ListInv st) : ListInv st' := by
  have hV := h.getV
  have hB := h.getB
  refine ⟨?_, ?_, ?_, ?_⟩
  · rw [h.list_eq]; exact hl.nodup
  · intro v hv
    rw [h.vs_eq] at hv
    rw [h.list_eq, hV]; exact hl.covers v hv
  · intro b hb
    rw [h.list_eq] at hb
    obtain ⟨v, hv, e⟩ := hl.inuse b hb
    exact ⟨v, by rw [h.vs_eq]; exact hv, by rw [hV]; exact e⟩
  · intro k hk
    have hk' : k < st.list.size := by rw [h.list_eq] at hk; exact hk
    have : st'.list[k] = st.list[k] := by simp only [h.list_eq]
    rw [this, hB]; exact hl.ind k hk'

theorem quiet_setC (st : St) (ci : Nat) (c : C) : Quiet st (setC st ci c) := ⟨rfl, rfl, rfl⟩
theorem quiet_setInactive (st : St) (l : Array Nat) : Quiet st { st with inactive := l } := ⟨rfl, rfl, rfl⟩
theorem quiet_setErr (st : St) (e : Bool) : Quiet st { st with err := e } := ⟨rfl, rfl, rfl⟩

theorem computeLm_quiet (track : Bool) (fuel : Nat) : ∀ (st : St) (m : Option Nat) (v : Nat) (u : Option Nat),
    Quiet st (computeLm fuel st track m v u).1 := by
  induction fuel with
  | zero =>
    intro st m v u
    rw [computeLm]
    exact quiet_setErr st true
  | succ fuel ih =>
    intro st m v u
    rw [FrameAux.computeLm_succ]
    simp only
    refine FrameAux.foldl_inv (fun acc : St × Option Nat × Rat => Quiet st acc.1) _ _ _ (Quiet.refl st) ?_
    intro acc p _ hq
    unfold FrameAux.lmStep
    simp only
    split
    · exact (hq.trans (ih _ _ _ _)).trans (quiet_setC _ _ _)
    · exact hq

theorem findMinLM_quiet (st : St) (b : Nat) : Quiet st (findMinLM st b).1 := by
  unfold findMinLM
  split
  · exact quiet_setErr st true
  · exact computeLm_quiet _ _ _ _ _ _

theorem mostViolated_quiet (st : St) : Quiet st (mostViolated st).1 := by
  obtain ⟨h1, _, h3, h4, _⟩ := mostViolated_spec st
  exact ⟨h1, h3, h4⟩

/-! ## Steps that leave the variables and the statistics alone (they may change `ind` fields and the block list) -/

structure StatEq (st st' : St) : Prop where
  vs_eq : st'.vs = st.vs
  bsame : ∀ b, BSame (getB st b) (getB st' b)

theorem StatEq.refl (st : St) : StatEq st st := ⟨rfl, fun _ => BSame.rfl' _⟩

theorem StatEq.trans {a b c : St} (h1 : StatEq a b) (h2 : StatEq b c) : StatEq a c :=
  ⟨h2.vs_eq.trans h1.vs_eq, fun x => (h1.bsame x).trans (h2.bsame x)⟩

theorem StatEq.getV {st st' : St} (h : StatEq st st') (i : Nat) : getV st' i = getV st i := by
  unfold Vpsc.getV; rw [h.vs_eq]

theorem StatsInv.of_statEq {st st' : St} (h : StatEq st st') (hs : StatsInv st) : StatsInv st' := by
  intro v hv
  rw [h.vs_eq] at hv
  have := hs v hv
  refine StatsB.congr (st := st) (b := (Vpsc.getV st v).block) ?_ (fun i _ => ?_) this
  · rw [h.getV]; exact h.bsame _
  · rw [h.getV]; exact VSame.rfl' _

theorem statEq_setList (st : St) (l : Array Nat) : StatEq st { st with list := l } := ⟨rfl, fun _ => BSame.rfl' _⟩

theorem statEq_setB_ind (st : St) (b k : Nat) : StatEq st (setB st b { getB st b with ind := k }) := by
  refine ⟨rfl, fun x => ?_⟩
  rw [getB_setB]
  split
  · next h => rw [h.1]; exact BSame.setInd _ _
  · exact BSame.rfl' _

theorem insertBlock_statEq (st : St) (b : Nat) : StatEq st (insertBlock st b) := by
  unfold insertBlock
  exact (statEq_setB_ind st b _).trans (statEq_setList _ _)

theorem removeSet_statEq (st : St) (b : Nat) : StatEq st (removeSet st b) := by
  unfold removeSet
  simp only
  split
  · exact (statEq_setList st _).trans (statEq_setB_ind _ _ _)
  · exact StatEq.refl st

theorem removeBlock_statEq (st : St) (b : Nat) : StatEq st (removeBlock st b) := by
  unfold removeBlock
  exact (removeSet_statEq st b).trans (statEq_setList _ _)

end Labella.Vpsc
