import Labella.Proofs.VpscFrame
import Labella.Proofs.VpscSplit
import Mathlib.Algebra.Order.Field.Rat
import Mathlib.Algebra.BigOperators.Group.List.Basic
import Mathlib.Algebra.BigOperators.Group.Finset.Basic
import Mathlib.Algebra.BigOperators.Ring.Finset
import Mathlib.Tactic.Ring
import Mathlib.Tactic.Linarith
import Mathlib.Tactic.FieldSimp
/-! # Optimality half of C05, part 1: states that differ only in multipliers; the sums `netVx`

`LmOnly s0 s`: `s` is `s0` up to the `lm` fields of the constraints and the `err` flag (what `computeLm` does).
`netVx s0 s x i` = `Σ_c lam_c · (s_i·[r_c = i] − s_i·[l_c = i])` over the constraints other than `x`, with the multipliers read
from `s` and everything else from `s0`. -/
namespace Labella.Vpsc
namespace KKT
open FrameAux

/-! ## `LmOnly` -/

structure LmOnly (s0 s : St) : Prop where
  core : CoreEq s0 s
  bs_eq : s.bs = s0.bs

theorem LmOnly.refl (s : St) : LmOnly s s := ⟨CoreEq.refl s, rfl⟩

theorem LmOnly.trans {a b c : St} (h1 : LmOnly a b) (h2 : LmOnly b c) : LmOnly a c :=
  ⟨h1.core.trans h2.core, h2.bs_eq.trans h1.bs_eq⟩

theorem LmOnly.getV {s0 s : St} (h : LmOnly s0 s) (i : Nat) : getV s i = getV s0 i := getV_of_coreEq h.core i

theorem LmOnly.getB {s0 s : St} (h : LmOnly s0 s) (b : Nat) : getB s b = getB s0 b := by
  unfold Vpsc.getB; rw [h.bs_eq]

theorem LmOnly.l {s0 s : St} (h : LmOnly s0 s) (c : Nat) : (getC s c).l = (getC s0 c).l := (h.core.cstat c).1
theorem LmOnly.r {s0 s : St} (h : LmOnly s0 s) (c : Nat) : (getC s c).r = (getC s0 c).r := (h.core.cstat c).2.1
theorem LmOnly.g {s0 s : St} (h : LmOnly s0 s) (c : Nat) : (getC s c).g = (getC s0 c).g := (h.core.cstat c).2.2
theorem LmOnly.active {s0 s : St} (h : LmOnly s0 s) (c : Nat) : (getC s c).active = (getC s0 c).active :=
  (h.core.flags c).1

theorem LmOnly.position {s0 s : St} (h : LmOnly s0 s) (i : Nat) : position s i = position s0 i := by
  unfold Vpsc.position
  simp only [h.getV, h.getB]

theorem LmOnly.dfdv {s0 s : St} (h : LmOnly s0 s) (i : Nat) : dfdv s i = dfdv s0 i := by
  unfold Vpsc.dfdv
  simp only [h.getV, h.position]

theorem LmOnly.neighbours {s0 s : St} (h : LmOnly s0 s) (i : Nat) : neighbours s i = neighbours s0 i := by
  unfold Vpsc.neighbours
  simp only [h.getV, h.l, h.r]

theorem LmOnly.setLm {s0 s : St} (h : LmOnly s0 s) (c : Nat) (x : Rat) :
    LmOnly s0 (setC s c { getC s c with lm := x }) :=
  ⟨h.core.trans (coreEq_setC _ _ _ rfl rfl rfl rfl rfl), h.bs_eq⟩

theorem LmOnly.setErr {s0 s : St} (h : LmOnly s0 s) : LmOnly s0 { s with err := true } :=
  ⟨h.core.trans (coreEq_err _ true (fun _ => rfl)), h.bs_eq⟩

theorem lmStep_bs (track : Bool) (fuel : Nat)
    (ih : ∀ (st : St) (m : Option Nat) (v : Nat) (u : Option Nat), (computeLm fuel st track m v u).1.bs = st.bs)
    (v : Nat) (u : Option Nat) (acc : St × Option Nat × Rat) (p : Nat × Nat) :
    (lmStep fuel track v u acc p).1.bs = acc.1.bs := by
  unfold lmStep
  simp only
  split
  · simp only [setC_bs]
    exact ih _ _ _ _
  · rfl

theorem computeLm_bs (track : Bool) (fuel : Nat) : ∀ (st : St) (m : Option Nat) (v : Nat) (u : Option Nat),
    (computeLm fuel st track m v u).1.bs = st.bs := by
  induction fuel with
  | zero => intro st m v u; rw [computeLm]
  | succ fuel ih =>
    intro st m v u
    rw [computeLm_succ]
    simp only
    exact foldl_inv (fun acc : St × Option Nat × Rat => acc.1.bs = st.bs) _ _ _ rfl
      (fun acc p _ h => (lmStep_bs track fuel ih v u acc p).trans h)

theorem computeLm_lmOnly (fuel : Nat) (st : St) (track : Bool) (m : Option Nat) (v : Nat) (u : Option Nat) :
    LmOnly st (computeLm fuel st track m v u).1 :=
  ⟨computeLm_coreEq fuel st track m v u, computeLm_bs track fuel st m v u⟩

/-! ## the sums -/

/-- `∂ slack_c / ∂ x_i` -/
def coef (s0 : St) (i c : Nat) : Rat :=
  (if (getC s0 c).r = i then (getV s0 i).s else 0) - (if (getC s0 c).l = i then (getV s0 i).s else 0)

/-- the multiplier of `c` as stored in `s` (0 for a constraint that is not active) -/
def lam (s0 s : St) (c : Nat) : Rat := if (getC s0 c).active then (getC s c).lm else 0

def netVx (s0 s : St) (x : Option Nat) (i : Nat) : Rat :=
  ((List.range s0.cs.size).map fun c => if some c = x then 0 else lam s0 s c * coef s0 i c).sum

theorem lam_inactive {s0 s : St} {c : Nat} (h : (getC s0 c).active = false) : lam s0 s c = 0 := by
  simp [lam, h]

theorem lam_active {s0 s : St} {c : Nat} (h : (getC s0 c).active = true) : lam s0 s c = (getC s c).lm := by
  simp [lam, h]

theorem coef_zero {s0 : St} {i c : Nat} (hl : (getC s0 c).l ≠ i) (hr : (getC s0 c).r ≠ i) : coef s0 i c = 0 := by
  simp [coef, hl, hr]

/-- `netVx` only looks at the multipliers of the active constraints (other than `x`) that end in `i` -/
theorem netVx_congr {s0 s s' : St} {x : Option Nat} {i : Nat}
    (h : ∀ c, c < s0.cs.size → some c ≠ x → (getC s0 c).active = true → ((getC s0 c).l = i ∨ (getC s0 c).r = i) →
      (getC s' c).lm = (getC s c).lm) :
    netVx s0 s' x i = netVx s0 s x i := by
  unfold netVx
  congr 1
  apply List.map_congr_left
  intro c hc
  rw [List.mem_range] at hc
  by_cases hx : some c = x
  · simp [hx]
  · rw [if_neg hx, if_neg hx]
    by_cases ha : (getC s0 c).active = true
    · by_cases hi : (getC s0 c).l = i ∨ (getC s0 c).r = i
      · rw [lam_active ha, lam_active ha, h c hc hx ha hi]
      · rw [not_or] at hi
        rw [coef_zero hi.1 hi.2]; simp
    · have ha' : (getC s0 c).active = false := by simpa using ha
      rw [lam_inactive ha', lam_inactive ha']

theorem sum_range_split (m : Nat) (f : Nat → Rat) (c : Nat) (hc : c < m) :
    ((List.range m).map f).sum = ((List.range m).map fun c' => if c' = c then 0 else f c').sum + f c := by
  induction m with
  | zero => exact absurd hc (Nat.not_lt_zero c)
  | succ m ih =>
    rw [List.sum_range_succ, List.sum_range_succ]
    by_cases h : c = m
    · subst h
      have : (List.range c).map (fun c' => if c' = c then 0 else f c') = (List.range c).map f := by
        apply List.map_congr_left
        intro a ha
        rw [List.mem_range] at ha
        rw [if_neg (by omega)]
      rw [this]; simp
    · have hc' : c < m := by omega
      rw [ih hc', if_neg (fun e => h e.symm)]
      ring

/-- taking the constraint `c` out of the sum -/
theorem netVx_split (s0 s : St) (i c : Nat) (hc : c < s0.cs.size) :
    netVx s0 s none i = netVx s0 s (some c) i + lam s0 s c * coef s0 i c := by
  unfold netVx
  rw [sum_range_split _ _ c hc]
  congr 2
  apply List.map_congr_left
  intro a _
  simp only [reduceCtorEq, if_false, Option.some.injEq]

/-! ## sums over the adjacency lists -/

theorem sum_filter_ite (L : List Nat) (p : Nat → Prop) [DecidablePred p] (g : Nat → Rat) :
    (L.map fun c => if p c then g c else 0).sum = ((L.filter (fun c => decide (p c))).map g).sum := by
  induction L with
  | nil => rfl
  | cons a t ih =>
    by_cases h : p a
    · simp [h, ih]
    · simp [h, ih]

theorem sum_map_sub' {α : Type} (l : List α) (f g : α → Rat) :
    (l.map fun p => f p - g p).sum = (l.map f).sum - (l.map g).sum := by
  induction l with
  | nil => simp
  | cons a t ih => simp only [List.map_cons, List.sum_cons, ih]; ring

theorem sum_map_neg' {α : Type} (l : List α) (f : α → Rat) :
    (l.map fun p => - f p).sum = - (l.map f).sum := by
  induction l with
  | nil => simp
  | cons a t ih => simp only [List.map_cons, List.sum_cons, ih]; ring

theorem cOut_perm {s0 : St} (hwf : WF s0) (hadj : AdjNodup s0) {v : Nat} (hv : v < s0.vs.size) :
    List.Perm (getV s0 v).cOut ((List.range s0.cs.size).filter (fun c => decide ((getC s0 c).l = v))) := by
  rw [List.perm_ext_iff_of_nodup (hadj v hv).1 (List.nodup_range.filter _)]
  intro c
  rw [List.mem_filter, List.mem_range, decide_eq_true_eq]
  constructor
  · exact fun h => hwf.out_sound v hv c h
  · rintro ⟨h1, h2⟩
    rw [← h2]; exact hwf.out_mem c h1

theorem cIn_perm {s0 : St} (hwf : WF s0) (hadj : AdjNodup s0) {v : Nat} (hv : v < s0.vs.size) :
    List.Perm (getV s0 v).cIn ((List.range s0.cs.size).filter (fun c => decide ((getC s0 c).r = v))) := by
  rw [List.perm_ext_iff_of_nodup (hadj v hv).2 (List.nodup_range.filter _)]
  intro c
  rw [List.mem_filter, List.mem_range, decide_eq_true_eq]
  constructor
  · exact fun h => hwf.in_sound v hv c h
  · rintro ⟨h1, h2⟩
    rw [← h2]; exact hwf.in_mem c h1

theorem no_self_loop {s0 : St} (hf : Forest s0) {c : Nat} (hc : c < s0.cs.size) (ha : (getC s0 c).active = true) :
    (getC s0 c).l ≠ (getC s0 c).r := by
  intro h
  apply hf c hc ha
  rw [h]
  exact Conn.reflS _ _ _

/-- a sum over the neighbour list of `v` is the sum over all constraints -/
theorem nbr_sum {s0 : St} (hwf : WF s0) (hadj : AdjNodup s0) (hf : Forest s0) {v : Nat} (hv : v < s0.vs.size)
    (f : Nat → Rat) (hf0 : ∀ c, (getC s0 c).active = false → f c = 0) :
    ((neighbours s0 v).map fun p => f p.1 * coef s0 v p.1).sum =
      ((List.range s0.cs.size).map fun c => f c * coef s0 v c).sum := by
  have hR : ((List.range s0.cs.size).map fun c => f c * coef s0 v c).sum =
      (((getV s0 v).cIn).map fun c => f c * (getV s0 v).s).sum - (((getV s0 v).cOut).map fun c => f c * (getV s0 v).s).sum := by
    have e : ∀ c, f c * coef s0 v c =
        (if (getC s0 c).r = v then f c * (getV s0 v).s else 0) - (if (getC s0 c).l = v then f c * (getV s0 v).s else 0) := by
      intro c
      unfold coef
      split_ifs <;> ring
    simp only [e]
    rw [sum_map_sub', sum_filter_ite, sum_filter_ite]
    rw [((cIn_perm hwf hadj hv).map _).sum_eq, ((cOut_perm hwf hadj hv).map _).sum_eq]
  rw [hR]
  unfold neighbours
  simp only [List.map_append, List.sum_append, List.map_map]
  have h1 : ((getV s0 v).cOut.map ((fun p : Nat × Nat => f p.1 * coef s0 v p.1) ∘ fun c => (c, (getC s0 c).r))).sum =
      - (((getV s0 v).cOut).map fun c => f c * (getV s0 v).s).sum := by
    rw [← sum_map_neg']
    congr 1
    apply List.map_congr_left
    intro c hc
    obtain ⟨hc1, hc2⟩ := hwf.out_sound v hv c hc
    simp only [Function.comp]
    by_cases ha : (getC s0 c).active = true
    · have := no_self_loop hf hc1 ha
      rw [hc2] at this
      unfold coef
      rw [if_neg (fun e => this e.symm), if_pos hc2]
      ring
    · have ha' : (getC s0 c).active = false := by simpa using ha
      rw [hf0 c ha']; simp
  have h2 : ((getV s0 v).cIn.map ((fun p : Nat × Nat => f p.1 * coef s0 v p.1) ∘ fun c => (c, (getC s0 c).l))).sum =
      (((getV s0 v).cIn).map fun c => f c * (getV s0 v).s).sum := by
    congr 1
    apply List.map_congr_left
    intro c hc
    obtain ⟨hc1, hc2⟩ := hwf.in_sound v hv c hc
    simp only [Function.comp]
    by_cases ha : (getC s0 c).active = true
    · have := no_self_loop hf hc1 ha
      rw [hc2] at this
      unfold coef
      rw [if_pos hc2, if_neg this]
      ring
    · have ha' : (getC s0 c).active = false := by simpa using ha
      rw [hf0 c ha']; simp
  rw [h1, h2]
  ring

/-! ## the tree below a variable -/

/-- `pe` is the constraint through which the traversal reached `v` from `u` (none at the root) -/
def ParentOK (s0 : St) (v : Nat) (u pe : Option Nat) : Prop :=
  (u = none ∧ pe = none) ∨ ∃ p e, u = some p ∧ pe = some e ∧ IsEdge s0 e p v

theorem nb_edge {s0 : St} (hwf : WFd s0) {v c w : Nat} (hv : v < s0.vs.size) (hm : (c, w) ∈ neighbours s0 v)
    (ha : (getC s0 c).active = true) : IsEdge s0 c v w := by
  obtain ⟨h1, _, h3⟩ := hwf.nb_sound hv hm
  exact ⟨h1, ha, h3⟩

/-- among the active neighbours of `v`, the parent variable is reached exactly through the parent constraint -/
theorem parent_iff {s0 : St} (hf : Forest s0) {v c w : Nat} {u pe : Option Nat} (hp : ParentOK s0 v u pe)
    (he : IsEdge s0 c v w) : u ≠ some w ↔ some c ≠ pe := by
  rcases hp with ⟨rfl, rfl⟩ | ⟨p, e, rfl, rfl, hpe⟩
  · simp
  · simp only [ne_eq, Option.some.injEq]
    constructor
    · intro hpw hce
      subst hce
      apply hpw
      rcases he.2.2 with ⟨a1, a2⟩ | ⟨a1, a2⟩ <;> rcases hpe.2.2 with ⟨b1, b2⟩ | ⟨b1, b2⟩ <;> omega
    · intro hce hpw
      subst hpw
      have hadj : Adj s0 (some e) v p := he.adj (by simpa using hce)
      exact hpe.bridge hf hadj.connS.symmS

/-- what lies below the child `w` (across `c`) lies in the region of `v` and is not `v` -/
theorem child_region {s0 : St} (hf : Forest s0) {v c w x : Nat} {u pe : Option Nat} (hp : ParentOK s0 v u pe)
    (he : IsEdge s0 c v w) (hne : some c ≠ pe) (h : Conn s0 (some c) w x) : Conn s0 pe v x ∧ x ≠ v := by
  refine ⟨?_, ?_⟩
  · rcases hp with ⟨_, rfl⟩ | ⟨p, e, _, rfl, hpe⟩
    · exact (he.adj (by simp)).connS.transS h.to_noneS
    · exact sub_nested hf hpe he (by simpa using fun e' => hne (by rw [e'])) h
  · rintro rfl
    exact he.bridge hf h.symmS

/-- every variable of the region of `v` other than `v` lies below one of the children -/
theorem region_cover {s0 : St} (hwf : WFd s0) (hf : Forest s0) {pe : Option Nat} {v x : Nat} (hv : v < s0.vs.size)
    (h : Conn s0 pe v x) :
    x = v ∨ ∃ p ∈ neighbours s0 v, (getC s0 p.1).active = true ∧ some p.1 ≠ pe ∧ Conn s0 (some p.1) p.2 x := by
  induction h with
  | refl => exact Or.inl rfl
  | @tail y z _ hyz ih =>
    rcases ih with rfl | ⟨⟨c, w⟩, hm, ha, hne, hc⟩
    · obtain ⟨c', hm', ha', _, hx'⟩ := hwf.nb_complete hyz
      exact Or.inr ⟨(c', z), hm', ha', hx', Conn.reflS _ _ _⟩
    · obtain ⟨c', hc', hx', ha', hlr'⟩ := hyz
      by_cases hcc : c' = c
      · subst hcc
        have he := nb_edge hwf hv hm ha
        simp only at he hc
        have hyv : y ≠ v := by
          rintro rfl
          exact he.bridge hf hc.symmS
        left
        rcases he.2.2 with ⟨a1, a2⟩ | ⟨a1, a2⟩ <;> rcases hlr' with ⟨b1, b2⟩ | ⟨b1, b2⟩ <;> omega
      · right
        exact ⟨(c, w), hm, ha, hne, Relation.ReflTransGen.tail hc ⟨c', hc', by simpa using hcc, ha', hlr'⟩⟩

/-- the other end of a constraint (other than `c`) that has one end below `w` is below `w` too -/
theorem incident_below {s0 : St} {c w c2 y x : Nat} (hc2 : c2 < s0.cs.size) (ha : (getC s0 c2).active = true)
    (hne : c2 ≠ c) (hy : (getC s0 c2).l = y ∨ (getC s0 c2).r = y) (hx : (getC s0 c2).l = x ∨ (getC s0 c2).r = x)
    (h : Conn s0 (some c) w y) : Conn s0 (some c) w x := by
  by_cases hxy : x = y
  · rw [hxy]; exact h
  · refine Relation.ReflTransGen.tail h ⟨c2, hc2, by simpa using hne, ha, ?_⟩
    rcases hy with hy | hy <;> rcases hx with hx | hx
    · exact absurd (hx.symm.trans hy) hxy
    · exact Or.inl ⟨hy, hx⟩
    · exact Or.inr ⟨hx, hy⟩
    · exact absurd (hx.symm.trans hy) hxy

/-- the constraints `computeLm` writes when called on `v` with parent constraint `pe` -/
def Touched (s0 : St) (pe : Option Nat) (v c2 : Nat) : Prop :=
  (getC s0 c2).active = true ∧ some c2 ≠ pe ∧ (Conn s0 pe v (getC s0 c2).l ∨ Conn s0 pe v (getC s0 c2).r)

/-- … and while the entries `pre` of the neighbour list of `v` are processed -/
def TouchedPre (s0 : St) (pe : Option Nat) (pre : List (Nat × Nat)) (c2 : Nat) : Prop :=
  (getC s0 c2).active = true ∧ ∃ p ∈ pre, (getC s0 p.1).active = true ∧ some p.1 ≠ pe ∧
    (Conn s0 (some p.1) p.2 (getC s0 c2).l ∨ Conn s0 (some p.1) p.2 (getC s0 c2).r)

theorem touched_of_pre {s0 : St} (hwf : WFd s0) (hf : Forest s0) {v : Nat} (hv : v < s0.vs.size) {u pe : Option Nat}
    (hp : ParentOK s0 v u pe) {c2 : Nat} (h : TouchedPre s0 pe (neighbours s0 v) c2) : Touched s0 pe v c2 := by
  obtain ⟨ha2, ⟨c, w⟩, hm, ha, hne, hends⟩ := h
  have he := nb_edge hwf hv hm ha
  simp only at hne hends
  have hc2 : c2 < s0.cs.size := FrameAux.active_lt s0 c2 ha2
  refine ⟨ha2, ?_, ?_⟩
  · rintro rfl
    rcases hp with ⟨_, h0⟩ | ⟨p, e, _, h0, hpe⟩
    · exact absurd h0 (by simp)
    · simp only [Option.some.injEq] at h0
      subst h0
      -- both ends of the parent constraint would be below `w`
      have hne' : c2 ≠ c := fun e' => hne (by rw [e'])
      have hvb : Conn s0 (some c) w v := by
        rcases hends with h | h
        · exact incident_below hc2 ha2 hne' (Or.inl rfl) (by rcases hpe.2.2 with ⟨_, b⟩ | ⟨b, _⟩ <;> [exact Or.inr b; exact Or.inl b]) h
        · exact incident_below hc2 ha2 hne' (Or.inr rfl) (by rcases hpe.2.2 with ⟨_, b⟩ | ⟨b, _⟩ <;> [exact Or.inr b; exact Or.inl b]) h
      exact he.bridge hf hvb.symmS
  · rcases hends with h | h
    · exact Or.inl (child_region hf hp he hne h).1
    · exact Or.inr (child_region hf hp he hne h).1

/-- a constraint that ends in `x`, where `x` is neither `v` nor below `w`, is neither `c` nor written below `w` -/
theorem step_stable {s0 : St} {v c w x c2 : Nat} (he : IsEdge s0 c v w) (hx : ¬ Conn s0 (some c) w x) (hxv : x ≠ v)
    (hc2 : c2 < s0.cs.size) (ha : (getC s0 c2).active = true) (hi : (getC s0 c2).l = x ∨ (getC s0 c2).r = x) :
    c2 ≠ c ∧ ¬ Touched s0 (some c) w c2 := by
  have hne : c2 ≠ c := by
    rintro rfl
    have : x = w := by
      rcases he.2.2 with ⟨a1, a2⟩ | ⟨a1, a2⟩ <;> rcases hi with b | b <;> omega
    subst this
    exact hx (Conn.reflS _ _ _)
  refine ⟨hne, ?_⟩
  rintro ⟨_, _, h | h⟩
  · exact hx (incident_below hc2 ha hne (Or.inl rfl) hi h)
  · exact hx (incident_below hc2 ha hne (Or.inr rfl) hi h)

end KKT
end Labella.Vpsc
