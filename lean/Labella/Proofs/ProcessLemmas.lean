import Labella.Model.Process
import Labella.Proofs.TimeTickLemmas
/-! Lemmas about the process model (C10): in the non-shared model cells are only appended. -/
namespace Labella.Process

/-- arguments of the latest construction of `i` in `past` -/
def latest (past : List POp) (i : Nat) : Option Args :=
  past.reverse.findSome? (fun p => match p with
    | .construct j a => if j == i then some a else none
    | .export _ => none)

/-- what an export of `i` shows in state `s` -/
def out (s : PState) (i : Nat) : Option Args :=
  match lookup s i with
  | none => none
  | some (sc, di) =>
    let d := s.scales.getD sc ("", "")
    some { d0 := d.1, d1 := d.2, dir := s.dicts.getD di "" }

theorem pstep_export (shared : Bool) (s : PState) (i : Nat) : pstep shared s (.export i) = (s, out s i) := by
  simp only [pstep, out]
  split <;> rename_i h <;> simp only [h]

def Bounded (s : PState) : Prop := ∀ t ∈ s.tls, t.2.1 < s.scales.length ∧ t.2.2 < s.dicts.length

structure Inv (s : PState) (past : List POp) : Prop where
  bound : Bounded s
  look : ∀ i, out s i = latest past i

theorem lookup_bound {s : PState} (hb : Bounded s) {i sc di : Nat} (h : lookup s i = some (sc, di)) :
    sc < s.scales.length ∧ di < s.dicts.length := by
  unfold lookup at h
  cases hf : s.tls.reverse.find? (fun t => t.1 == i) with
  | none => rw [hf] at h; simp at h
  | some t =>
    rw [hf] at h
    simp only [Option.map_some, Option.some.injEq, Prod.mk.injEq] at h
    have hm := List.mem_of_find?_eq_some hf
    rw [List.mem_reverse] at hm
    have := hb t hm
    rw [h.1, h.2] at this
    exact this

def cstep (s : PState) (j : Nat) (a : Args) : PState :=
  { scales := s.scales ++ [(a.d0, a.d1)], dicts := s.dicts ++ [a.dir],
    tls := s.tls ++ [(j, s.scales.length, s.dicts.length)] }

theorem pstep_construct (s : PState) (j : Nat) (a : Args) : pstep false s (.construct j a) = (cstep s j a, none) := rfl

theorem lookup_cstep (s : PState) (j : Nat) (a : Args) (i : Nat) :
    lookup (cstep s j a) i = if j == i then some (s.scales.length, s.dicts.length) else lookup s i := by
  unfold lookup cstep
  simp only [List.reverse_append, List.reverse_cons, List.reverse_nil, List.nil_append, List.cons_append,
    List.find?_cons]
  split <;> simp_all

theorem latest_append_construct (past : List POp) (j : Nat) (a : Args) (i : Nat) :
    latest (past ++ [.construct j a]) i = if j == i then some a else latest past i := by
  unfold latest
  simp only [List.reverse_append, List.reverse_cons, List.reverse_nil, List.nil_append, List.cons_append,
    List.findSome?_cons]
  split <;> simp_all

theorem latest_append_export (past : List POp) (j : Nat) (i : Nat) :
    latest (past ++ [.export j]) i = latest past i := by
  unfold latest
  simp only [List.reverse_append, List.reverse_cons, List.reverse_nil, List.nil_append, List.cons_append,
    List.findSome?_cons]

theorem bounded_cstep {s : PState} (hb : Bounded s) (j : Nat) (a : Args) : Bounded (cstep s j a) := by
  intro t ht
  simp only [cstep, List.mem_append, List.mem_singleton, List.length_append, List.length_cons, List.length_nil] at ht ⊢
  rcases ht with ht | rfl
  · have := hb t ht; omega
  · simp

theorem out_cstep {s : PState} (hb : Bounded s) (j : Nat) (a : Args) (i : Nat) :
    out (cstep s j a) i = if j == i then some a else out s i := by
  unfold out
  rw [lookup_cstep]
  by_cases hji : (j == i) = true
  · simp only [hji, if_true]
    simp [cstep]
  · simp only [hji]
    cases hl : lookup s i with
    | none => rfl
    | some p =>
      obtain ⟨sc, di⟩ := p
      obtain ⟨h1, h2⟩ := lookup_bound hb hl
      simp only [cstep, Bool.false_eq_true, if_false]
      rw [List.getD_eq_getElem?_getD, List.getD_eq_getElem?_getD, List.getElem?_append_left h1,
        List.getElem?_append_left h2, ← List.getD_eq_getElem?_getD, ← List.getD_eq_getElem?_getD]

theorem inv_init : Inv PState.init [] := by
  constructor
  · intro t ht; simp [PState.init] at ht
  · intro i; rfl

theorem inv_construct {s : PState} {past : List POp} (h : Inv s past) (j : Nat) (a : Args) :
    Inv (cstep s j a) (past ++ [.construct j a]) := by
  constructor
  · exact bounded_cstep h.bound j a
  · intro i
    rw [out_cstep h.bound, latest_append_construct, h.look]

theorem inv_export {s : PState} {past : List POp} (h : Inv s past) (j : Nat) :
    Inv s (past ++ [.export j]) := by
  constructor
  · exact h.bound
  · intro i
    rw [latest_append_export, h.look]

theorem outputs_eq_expected (ops : List POp) : ∀ (s : PState) (past : List POp), Inv s past →
    outputs false s ops = expected past ops := by
  induction ops with
  | nil => intro s past _; rfl
  | cons op rest ih =>
    intro s past h
    cases op with
    | construct j a =>
      simp only [outputs, expected, pstep_construct]
      exact ih _ _ (inv_construct h j a)
    | «export» j =>
      simp only [outputs, expected, pstep_export]
      rw [ih _ _ (inv_export h j), h.look]
      rfl

end Labella.Process

/-! ### degenerate time domain (C11) -/
namespace Labella.Calendar
open Labella

theorem bisectRight_steps_zero : bisectRight Gen.timeScaleSteps 0 = 0 := by
  unfold bisectRight Gen.timeScaleSteps
  rw [List.takeWhile_cons]
  have : ¬ ((1000 : Rat) ≤ 0) := by decide
  simp [this]

theorem linStep_self (d m : Rat) : linStep d d m = 0 := by
  simp [linStep, Scale.tickRange, Scale.extent, Rat.sub_self]

theorem tickMethod_self (t : Int) (m : Rat) : tickMethod t t m = .ms 0 := by
  unfold tickMethod
  have h0 : (((t - t : Int) : Rat) / m) = 0 := by
    rw [Int.sub_self, Rat.div_def, Rat.intCast_zero, Rat.zero_mul]
  simp only [h0, bisectRight_steps_zero, linStep_self]
  rfl

theorem msRange_single (t : Int) : msRange t (t + 1) 1 = [t] := by
  unfold msRange
  have hf : (1 : Rat).floor = 1 := by decide
  simp only [hf]
  obtain ⟨h0, h1⟩ := ceil_div_mul t 1 (by omega)
  have hc : ((t : Rat) / ((1 : Int) : Rat)).ceil = t := by omega
  have hc' : ((t : Rat) / 1).ceil = t := by simpa using hc
  have e : (t + 1 - t).toNat = 1 := by omega
  simp [hc', e]
  omega

theorem ticks_degenerate (t : Int) (m : Rat) : ticks t t m = [t] := by
  unfold ticks
  simp only [Int.min_self, Int.max_self, tickMethod_self]
  have : effSkip 0 = 1 := by decide
  rw [this]
  exact msRange_single t

theorem nice_degenerate (t : Int) (m : Rat) : nice t t m = (t, t) := by
  unfold nice
  simp only [Int.min_self, Int.max_self, tickMethod_self]
  have : ¬ ((1 : Rat) < 0) := by decide
  simp [mSkip, mFloor, mCeil, this]

end Labella.Calendar
