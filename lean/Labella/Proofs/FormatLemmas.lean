import Labella.Model.Scale
import Batteries.Data.String.Lemmas
import Std.Data.String.ToNat
import Mathlib.Algebra.Order.Field.Rat
import Mathlib.Tactic.Ring
import Mathlib.Tactic.Linarith
import Mathlib.Tactic.FieldSimp
import Mathlib.Tactic.NormNum
import Mathlib.Data.List.Nodup
/-! Helper lemmas for `Props/C13`: `parseDecimal` reads the text produced by `formatFixed` back as the printed value.

The `String`-level facts needed (legacy `String.splitOn "."`, `startsWith "-"`, `drop 1`, `toNat?` of a zero-padded
digit string) are reduced to `List Char` facts here. -/
set_option linter.deprecated false

namespace String

theorem dot_get : Pos.Raw.get "." 0 = '.' := by
  have := get_of_valid [] ['.']
  simpa using this
theorem dot_next : Pos.Raw.next "." 0 = ⟨'.'.utf8Size⟩ := by
  have := next_of_valid [] '.' []
  simpa using this
theorem dot_atEnd : Pos.Raw.atEnd "." ⟨'.'.utf8Size⟩ = true := by
  have := (atEnd_of_valid ['.'] []).2 rfl
  simpa using this

/-- the loop of the (legacy) `String.splitOn` for the separator `"."`, on valid positions -/
theorem splitOnAux_dot (l m r : List Char) (acc : List String) :
    splitOnAux (ofList (l ++ m ++ r)) "." ⟨utf8Len l⟩ ⟨utf8Len l + utf8Len m⟩ 0 acc =
      acc.reverse ++ (List.splitOnPPrepend (· == '.') r m.reverse).map ofList := by
  induction r generalizing l m acc with
  | nil =>
    rw [splitOnAux]
    have h1 : Pos.Raw.atEnd (ofList (l ++ m ++ [])) ⟨utf8Len l + utf8Len m⟩ = true := by
      have := (atEnd_of_valid (l ++ m) []).2 rfl
      simpa using this
    rw [if_pos h1]
    have := extract_of_valid l m []
    simp only [this]
    simp
  | cons c r ih =>
    rw [splitOnAux]
    have h1 : ¬ Pos.Raw.atEnd (ofList (l ++ m ++ c :: r)) ⟨utf8Len l + utf8Len m⟩ = true := by
      have := (atEnd_of_valid (l ++ m) (c :: r))
      simp at this
      simpa using this
    rw [if_neg h1]
    have hg : Pos.Raw.get (ofList (l ++ m ++ c :: r)) ⟨utf8Len l + utf8Len m⟩ = c := by
      simpa using get_of_valid (l ++ m) (c :: r)
    have hn : Pos.Raw.next (ofList (l ++ m ++ c :: r)) ⟨utf8Len l + utf8Len m⟩ =
        ⟨utf8Len l + utf8Len m + c.utf8Size⟩ := by
      simpa using next_of_valid (l ++ m) c r
    have hu : (⟨utf8Len l + utf8Len m⟩ : Pos.Raw).unoffsetBy 0 = ⟨utf8Len l + utf8Len m⟩ := by simp
    rw [hg, dot_get, hu, hn]
    simp only [dot_next, dot_atEnd, if_true]
    by_cases hc : c = '.'
    · subst hc
      have hu2 : (⟨utf8Len l + utf8Len m + '.'.utf8Size⟩ : Pos.Raw).unoffsetBy ⟨'.'.utf8Size⟩ =
          ⟨utf8Len l + utf8Len m⟩ := by
        simp [Pos.Raw.ext_iff]
      have he := extract_of_valid l m ('.' :: r)
      simp only [beq_self_eq_true, if_true, hu2, he]
      have := ih (l ++ m ++ ['.']) [] (ofList m :: acc)
      simp only [List.append_assoc, List.cons_append, List.nil_append, utf8Len_append, utf8Len_cons,
        utf8Len_nil, Nat.add_zero, Nat.zero_add, List.append_nil] at this
      simp only [List.append_assoc, Nat.add_assoc] at this ⊢
      rw [this]
      simp [List.splitOnPPrepend_cons_eq_if]
    · have hb : (c == '.') = false := by simpa using hc
      simp only [hb, Bool.false_eq_true, if_false]
      have := ih l (m ++ [c]) acc
      simp only [List.append_assoc, List.cons_append, List.nil_append, utf8Len_append, utf8Len_cons,
        utf8Len_nil, Nat.zero_add] at this
      simp only [List.append_assoc, Nat.add_assoc] at this ⊢
      rw [this]
      simp [List.splitOnPPrepend_cons_eq_if, hb]

/-- `s.splitOn "."` splits the character list at the dots -/
theorem splitOn_dot (s : String) : s.splitOn "." = (s.toList.splitOnP (· == '.')).map ofList := by
  have := splitOnAux_dot [] [] s.toList []
  simpa [splitOn] using this

end String

namespace Labella.Scale
open Labella

theorem toNat?_ofList_digits (l : List Char) (h : ∀ c ∈ l, c.isDigit = true) (hne : l ≠ []) :
    (String.ofList l).toNat? = some (Nat.ofDigitChars 10 l 0) := by
  have h1 : (String.ofList l).isNat = true :=
    String.isNat_of_isDigit (by simpa using hne) (by simpa using h)
  rw [String.toNat?_eq_some_ofDigitChars h1]
  have : List.filter (fun x => x != '_') l = l := by
    rw [List.filter_eq_self]
    intro c hc
    have := h c hc
    rcases eq_or_ne c '_' with rfl | h2
    · simp [Char.isDigit] at this
    · simpa using h2
  simp [this]

/-- the fractional digits: `fp` left-padded with zeros to width `d` -/
def padL (d fp : Nat) : List Char := List.replicate (d - (Nat.toDigits 10 fp).length) '0' ++ Nat.toDigits 10 fp

theorem isDigit_toDigits {n : Nat} {c : Char} (hc : c ∈ Nat.toDigits 10 n) : c.isDigit = true :=
  Nat.isDigit_of_mem_toDigits (by omega) (by omega) hc

theorem isDigit_padL {d fp : Nat} {c : Char} (hc : c ∈ padL d fp) : c.isDigit = true := by
  rw [padL, List.mem_append] at hc
  rcases hc with hc | hc
  · rw [List.mem_replicate] at hc; rw [hc.2]; decide
  · exact isDigit_toDigits hc

theorem padL_ne_nil (d fp : Nat) : padL d fp ≠ [] := by
  simp [padL, Nat.toDigits_ne_nil]

theorem length_padL {d fp : Nat} (hd : 0 < d) (h : fp < 10 ^ d) : (padL d fp).length = d := by
  have := (Nat.length_toDigits_le_iff (b := 10) (n := fp) (by omega) hd).2 h
  simp [padL]; omega

theorem ofDigitChars_padL (d fp : Nat) : Nat.ofDigitChars 10 (padL d fp) 0 = fp := by
  rw [padL, Nat.ofDigitChars_append, Nat.ofDigitChars_replicate_zero, Nat.mul_zero,
    Nat.ofDigitChars_ten_toDigits]

theorem not_dot_of_isDigit {c : Char} (h : c.isDigit = true) : (c == '.') = false := by
  rcases eq_or_ne c '.' with rfl | h2
  · simp [Char.isDigit] at h
  · simpa using h2

/-- the list of characters `parseDecimal` accepts, with its value -/
theorem parseDecimal_of_toList (s : String) (neg : Bool) (ip fp d : Nat) (hfp : fp < 10 ^ d)
    (hs : s.toList = (if neg then ['-'] else []) ++ Nat.toDigits 10 ip ++
      (if d = 0 then [] else '.' :: padL d fp)) :
    parseDecimal s = some (if neg then -((ip : Rat) + (fp : Rat) / (10 : Rat) ^ d)
      else ((ip : Rat) + (fp : Rat) / (10 : Rat) ^ d)) := by
  obtain ⟨c0, t0, h0⟩ := List.exists_cons_of_ne_nil (Nat.toDigits_ne_nil (n := ip) (b := 10))
  have hc0 : c0.isDigit = true := isDigit_toDigits (n := ip) (by rw [h0]; simp)
  have hneg : s.startsWith "-" = neg := by
    cases neg
    · rw [String.startsWith_string_eq_false_iff, hs, h0]
      simp
      rintro rfl
      simp [Char.isDigit] at hc0
    · rw [String.startsWith_string_iff, hs]
      simp
  have hbody : (if s.startsWith "-" = true then (s.drop 1).toString else s) =
      String.ofList (Nat.toDigits 10 ip ++ (if d = 0 then [] else '.' :: padL d fp)) := by
    rw [hneg, ← String.toList_inj, String.toList_ofList]
    cases neg
    · simpa using hs
    · simp [String.Slice.toString_eq, hs]
  unfold parseDecimal
  simp only [hbody, String.splitOn_dot, String.toList_ofList]
  have hnd : ∀ x ∈ Nat.toDigits 10 ip, (x == '.') = false := fun x hx => not_dot_of_isDigit (isDigit_toDigits hx)
  have hip : (String.ofList (Nat.toDigits 10 ip)).toNat? = some ip := by
    rw [← Nat.repr_eq_ofList_toDigits]; exact Nat.toNat?_repr ip
  by_cases hd : d = 0
  · subst hd
    have : fp = 0 := by simpa using hfp
    subst this
    simp only [if_true, List.append_nil, List.splitOnP_eq_singleton hnd, List.map_cons, List.map_nil, hip, hneg]
    cases neg <;> simp
  · have hnd2 : ∀ x ∈ padL d fp, (x == '.') = false := fun x hx => not_dot_of_isDigit (isDigit_padL hx)
    have hfp2 : (String.ofList (padL d fp)).toNat? = some fp := by
      rw [toNat?_ofList_digits _ (fun c hc => isDigit_padL hc) (padL_ne_nil d fp), ofDigitChars_padL]
    simp only [if_neg hd, List.splitOnP_append_cons_of_forall_mem hnd '.' (by simp),
      List.splitOnP_eq_singleton hnd2, List.map_cons, List.map_nil, hip, hfp2, hneg,
      String.length_ofList, length_padL (Nat.pos_of_ne_zero hd) hfp]
    cases neg <;> simp


/-- the characters `formatFixed` prints: optional sign (iff the scaled integer is negative), integer part,
and for `d > 0` a dot followed by exactly `d` fractional digits -/
theorem toList_formatFixed (x : ℚ) (d : ℕ) :
    (formatFixed x d).toList =
      (if decide (roundHalfEven (x * (10 : ℚ) ^ d) < 0) then ['-'] else []) ++
        Nat.toDigits 10 ((roundHalfEven (x * (10 : ℚ) ^ d)).natAbs / 10 ^ d) ++
        (if d = 0 then [] else '.' :: padL d ((roundHalfEven (x * (10 : ℚ) ^ d)).natAbs % 10 ^ d)) := by
  unfold formatFixed padL
  simp only [Nat.toString_eq_repr, String.toList_append, Nat.toList_repr]
  generalize roundHalfEven (x * (10 : ℚ) ^ d) = z
  by_cases hd : d = 0
  · by_cases hn : z < 0 <;> simp [hd, hn]
  · by_cases hn : z < 0 <;> simp [hd, hn, ← String.length_toList]

/-- the text of a number reads back as the number rounded to `d` decimals -/
theorem parseDecimal_formatFixed (x : ℚ) (d : ℕ) :
    parseDecimal (formatFixed x d) = some (fixedValue d x) := by
  have hpos : 0 < 10 ^ d := Nat.pos_of_ne_zero (by positivity)
  rw [parseDecimal_of_toList _ _ _ _ d (Nat.mod_lt _ hpos) (toList_formatFixed x d)]
  unfold fixedValue
  generalize roundHalfEven (x * (10 : ℚ) ^ d) = z
  have h10 : ((10 : ℚ) ^ d) ≠ 0 := by positivity
  have hn : ((z.natAbs / 10 ^ d : ℕ) : ℚ) + ((z.natAbs % 10 ^ d : ℕ) : ℚ) / (10 : ℚ) ^ d =
      (z.natAbs : ℚ) / (10 : ℚ) ^ d := by
    have := Nat.div_add_mod z.natAbs (10 ^ d)
    have h2 : ((10 ^ d * (z.natAbs / 10 ^ d) + z.natAbs % 10 ^ d : ℕ) : ℚ) = (z.natAbs : ℚ) := by
      rw [this]
    push_cast at h2
    field_simp
    linarith
  rw [hn]
  congr 1
  by_cases hz : z < 0
  · have : ((z.natAbs : ℤ) : ℚ) = -(z : ℚ) := by
      rw [← Int.cast_neg]; congr 1; omega
    rw [Int.cast_natCast] at this
    simp [hz, this, neg_div]
  · have : ((z.natAbs : ℤ) : ℚ) = (z : ℚ) := by
      congr 1; omega
    rw [Int.cast_natCast] at this
    simp [hz, this]

/-- a predicate holds along `l.zip (l.map f)` when it holds at every `(x, f x)` -/
theorem zip_map_all (l : List ℚ) (f : ℚ → String) (P : ℚ × String → Bool) (h : ∀ x ∈ l, P (x, f x) = true) :
    (l.zip (l.map f)).all P = true := by
  induction l with
  | nil => simp
  | cons a l ih =>
    simp only [List.map_cons, List.zip_cons_cons, List.all_cons, Bool.and_eq_true]
    exact ⟨h a (by simp), ih (fun x hx => h x (by simp [hx]))⟩

/-- texts that read back as the (pairwise distinct) numbers they were made from pass `textsOKB` -/
theorem textsOKB_map (step : ℚ) (hstep : 0 ≤ step) (l : List ℚ) (hnd : l.Nodup) (f : ℚ → String)
    (hf : ∀ x ∈ l, parseDecimal (f x) = some x) : textsOKB step l (l.map f) = true := by
  unfold textsOKB
  simp only [Bool.and_eq_true]
  refine ⟨⟨by simp, ?_⟩, ?_⟩
  · simp only [List.length_map, List.all_eq_true, List.mem_range, Bool.or_eq_true, beq_iff_eq,
      bne_iff_ne, ne_eq]
    intro i hi j hj
    by_cases hij : i = j
    · exact Or.inl hij
    · right
      rw [List.getElem?_map, List.getElem?_map, List.getElem?_eq_getElem hi, List.getElem?_eq_getElem hj]
      simp only [Option.map_some, Option.some.injEq]
      intro h
      have h1 := hf _ (List.getElem_mem hi)
      have h2 := hf _ (List.getElem_mem hj)
      rw [h, h2, Option.some.injEq] at h1
      exact hij ((hnd.getElem_inj_iff).1 h1.symm)
  · apply zip_map_all
    intro x hx
    simp only [hf x hx, sub_self, decide_eq_true_eq]
    have : ratAbs 0 = 0 := by simp [ratAbs]
    rw [this]; exact div_nonneg hstep (by norm_num)

end Labella.Scale
