import Labella.Proofs.ChainSolve
import Labella.Proofs.Rounding
import Labella.Model.LayoutSpec
/-! `removeOverlap`: the chain instance it builds, slices of `SepBy`, the Bool predicates (helpers for C01/C03) -/
namespace Labella.Layout
open Labella Labella.Chain

/-! ### constants -/

theorem eps_nonneg' : 0 ≤ Layout.eps := by
  unfold Layout.eps Gen.zeroUpperBound; norm_num

theorem wallWeight_pos' : 0 < Gen.wallWeight := by
  unfold Gen.wallWeight; norm_num

theorem halfDivisor_eq' : Gen.halfDivisor = 2 := rfl

/-! ### sorting -/

theorem sort_sorted' (items : List (LItem × Nat)) :
    (sortItems items).Pairwise (fun a b => a.1.target ≤ b.1.target) := by
  have h := List.pairwise_mergeSort
    (le := fun (a b : LItem × Nat) => decide (a.1.target ≤ b.1.target))
    (by intro a b c hab hbc; simp only [decide_eq_true_eq] at *; exact le_trans hab hbc)
    (by intro a b; simp only [Bool.or_eq_true, decide_eq_true_eq]; exact le_total _ _) items
  exact h.imp (by intro a b hab; simpa using hab)

theorem sort_perm' (items : List (LItem × Nat)) : (sortItems items).Perm items :=
  List.mergeSort_perm _ _

/-! ### slices of `SepBy` -/

theorem SepBy_nil_left (e : ℚ) (xs : List ℚ) : SepBy e [] xs := by simp [SepBy]

theorem SepBy_nil_right (e : ℚ) (gs : List ℚ) : SepBy e gs [] := by cases gs <;> simp [SepBy]

theorem SepBy_single (e : ℚ) (gs : List ℚ) (a : ℚ) : SepBy e gs [a] := by cases gs <;> simp [SepBy]

theorem SepBy_drop1 {e g : ℚ} {gs xs : List ℚ} (h : SepBy e (g :: gs) xs) : SepBy e gs (xs.drop 1) := by
  cases xs with
  | nil => exact SepBy_nil_right _ _
  | cons a xs =>
    cases xs with
    | nil => exact SepBy_nil_right _ _
    | cons b xs => exact h.2

theorem SepBy_take {e : ℚ} {gs xs : List ℚ} (k : ℕ) (h : SepBy e gs xs) : SepBy e gs (xs.take k) := by
  induction gs generalizing xs k with
  | nil => exact SepBy_nil_left _ _
  | cons g gs ih =>
    cases xs with
    | nil => simpa using SepBy_nil_right _ _
    | cons a xs =>
      cases xs with
      | nil =>
        cases k with
        | zero => exact SepBy_nil_right _ _
        | succ k => simpa using SepBy_single _ _ _
      | cons b xs =>
        cases k with
        | zero => exact SepBy_nil_right _ _
        | succ k =>
          cases k with
          | zero => exact SepBy_single _ _ _
          | succ k =>
            have := ih (k := k + 1) h.2
            simp only [List.take_succ_cons, SepBy] at this ⊢
            exact ⟨h.1, this⟩

theorem SepBy_append_left {e : ℚ} {gs r xs : List ℚ} (h : SepBy e (gs ++ r) xs) : SepBy e gs xs := by
  induction gs generalizing xs with
  | nil => exact SepBy_nil_left _ _
  | cons g gs ih =>
    cases xs with
    | nil => exact SepBy_nil_right _ _
    | cons a xs =>
      cases xs with
      | nil => exact SepBy_single _ _ _
      | cons b xs =>
        simp only [List.cons_append, SepBy] at h ⊢
        exact ⟨h.1, ih h.2⟩

/-! ### the chain instance -/

theorem chainVars_pos (o : ROpts) (its : List LItem) : ∀ v ∈ chainVars o its, 0 < v.w := by
  intro v hv
  simp only [chainVars, List.mem_append, List.mem_map] at hv
  rcases hv with (hv | ⟨i, _, rfl⟩) | hv
  · unfold leftWall at hv
    split at hv
    · simp only [List.mem_singleton] at hv; subst hv; exact wallWeight_pos'
    · simp at hv
  · simp [toVar]
  · unfold rightWall at hv
    split at hv
    · simp only [List.mem_singleton] at hv; subst hv; exact wallWeight_pos'
    · simp at hv

theorem gaps_length (o : ROpts) (its : List LItem) : (gaps o its).length = its.length - 1 := by
  induction its with
  | nil => simp [gaps]
  | cons a its ih =>
    cases its with
    | nil => simp [gaps]
    | cons b its => simp [gaps] at *; omega

theorem leftGap_length (o : ROpts) {its : List LItem} (h : its ≠ []) :
    (leftGap o its).length = (leftWall o).length := by
  cases its with
  | nil => exact absurd rfl h
  | cons f its =>
    unfold leftGap leftWall
    cases o.minPos <;> simp

theorem rightGap_length (o : ROpts) {its : List LItem} (h : its ≠ []) :
    (rightGap o its).length = (rightWall o).length := by
  unfold rightGap rightWall
  cases hl : its.getLast? with
  | none => exact absurd (List.getLast?_eq_none_iff.mp hl) h
  | some l => cases o.maxPos <;> simp

theorem chain_lengths (o : ROpts) {its : List LItem} (h : its ≠ []) :
    (chainGaps o its).length + 1 = (chainVars o its).length := by
  have : 0 < its.length := List.length_pos_iff.mpr h
  simp only [chainGaps, chainVars, List.length_append, List.length_map, gaps_length,
    leftGap_length o h, rightGap_length o h]
  omega

theorem leftWall_length_le (o : ROpts) : (leftWall o).length ≤ 1 := by
  unfold leftWall; cases o.minPos <;> simp

theorem rightWall_length_le (o : ROpts) : (rightWall o).length ≤ 1 := by
  unfold rightWall; cases o.maxPos <;> simp

theorem solveSorted_length' (o : ROpts) (its : List LItem) (h : its ≠ []) :
    (solveSorted o its).length = its.length := by
  unfold solveSorted
  rw [List.length_take, List.length_drop, solve_length' _ _ _ (chain_lengths o h)]
  simp only [chainVars, List.length_append, List.length_map]
  omega

theorem solveSorted_SepBy (o : ROpts) (its : List LItem) :
    SepBy Layout.eps (gaps o its) (solveSorted o its) := by
  have hall : SepBy Layout.eps (chainGaps o its)
      (solve Layout.eps (chainVars o its) (chainGaps o its)) :=
    solve_feasible' _ eps_nonneg' _ _ (chainVars_pos o its)
  unfold solveSorted
  generalize solve Layout.eps (chainVars o its) (chainGaps o its) = all at hall ⊢
  apply SepBy_take
  cases its with
  | nil => exact SepBy_nil_left _ _
  | cons f its =>
    apply SepBy_append_left (r := rightGap o (f :: its))
    unfold chainGaps at hall
    rw [List.append_assoc] at hall
    unfold leftGap leftWall at *
    cases hm : o.minPos with
    | none =>
      simp only [hm, List.length_nil, List.drop_zero, List.nil_append] at hall ⊢
      exact hall
    | some m =>
      simp only [hm, List.head?_cons, List.length_singleton, List.singleton_append] at hall ⊢
      exact SepBy_drop1 hall

/-! ### the Bool predicates -/

theorem sepAdjB_of_SepBy (o : ROpts) (e : ℚ) (its : List LItem) (xs : List ℚ)
    (hs : its.Pairwise (fun a b => a.target ≤ b.target)) (h : SepBy e (gaps o its) xs) :
    sepAdjB o e (its.zip xs) = true := by
  induction its generalizing xs with
  | nil => simp [sepAdjB]
  | cons a its ih =>
    cases its with
    | nil => cases xs <;> simp [sepAdjB]
    | cons b its =>
      cases xs with
      | nil => simp [sepAdjB]
      | cons x xs =>
        cases xs with
        | nil => simp [sepAdjB]
        | cons y xs =>
          simp only [gaps, SepBy] at h
          have hab : a.target ≤ b.target := (List.pairwise_cons.mp hs).1 b (by simp)
          have := ih (y :: xs) (List.pairwise_cons.mp hs).2 h.2
          simp only [List.zip_cons_cons, sepAdjB, Bool.and_eq_true, decide_eq_true_eq] at this ⊢
          exact ⟨⟨hab, h.1⟩, this⟩

theorem sepAdjB_round (o : ROpts) (tol : ℚ) (its : List LItem) (xs : List ℚ)
    (h : sepAdjB o tol (its.zip xs) = true) :
    sepAdjB o (1 + tol) (its.zip (xs.map (fun x => ((roundHalfEven x : Int) : ℚ)))) = true := by
  induction its generalizing xs with
  | nil => simp [sepAdjB]
  | cons a its ih =>
    cases its with
    | nil => cases xs <;> simp [sepAdjB]
    | cons b its =>
      cases xs with
      | nil => simp [sepAdjB]
      | cons x xs =>
        cases xs with
        | nil => simp [sepAdjB]
        | cons y xs =>
          simp only [List.zip_cons_cons, sepAdjB, Bool.and_eq_true, decide_eq_true_eq] at h
          have := ih (y :: xs) (by simpa using h.2)
          simp only [List.map_cons, List.zip_cons_cons, sepAdjB, Bool.and_eq_true,
            decide_eq_true_eq] at this ⊢
          refine ⟨⟨h.1.1, ?_⟩, this⟩
          have := round_diff x y
          linarith [h.1.2]

theorem sepAdjB_tail {o : ROpts} {tol : ℚ} {a : LItem × ℚ} {rest : List (LItem × ℚ)}
    (h : sepAdjB o tol (a :: rest) = true) : sepAdjB o tol rest = true := by
  cases rest with
  | nil => simp [sepAdjB]
  | cons b rest =>
    simp only [sepAdjB, Bool.and_eq_true] at h
    exact h.2

theorem sep_unrounded' (o : ROpts) (its : List LItem)
    (hs : its.Pairwise (fun a b => a.target ≤ b.target)) :
    sepAdjB o Layout.eps (its.zip (solveSorted o its)) = true :=
  sepAdjB_of_SepBy o _ its _ hs (solveSorted_SepBy o its)

theorem sep_rounded' (o : ROpts) (its : List LItem)
    (hs : its.Pairwise (fun a b => a.target ≤ b.target)) :
    sepAdjB o (1 + Layout.eps)
      (its.zip ((solveSorted o its).map (fun x => ((roundHalfEven x : Int) : ℚ)))) = true :=
  sepAdjB_round _ _ _ _ (sep_unrounded' o its hs)

theorem removeOverlap_sepAdj (o : ROpts) (items : List LItem) :
    sepAdjB o (1 + Layout.eps) (((sortItems items.zipIdx).map (·.1)).zip
      ((removeOverlap o items).pos.map (fun (p : Int) => (p : ℚ)))) = true := by
  have hs : ((sortItems items.zipIdx).map (·.1)).Pairwise (fun a b => a.target ≤ b.target) := by
    rw [List.pairwise_map]; exact sort_sorted' _
  simp only [removeOverlap]
  split
  · rename_i hemp
    rw [List.isEmpty_iff] at hemp
    rw [hemp]; simp [sepAdjB]
  · simp only [List.map_map]
    exact sep_rounded' o _ hs

/-! ### from neighbours to any pair -/

theorem gap_triangle (o : ROpts) (a b c : LItem) (hw : 0 ≤ c.width) (hns : 0 ≤ o.nodeSpacing)
    (hls : 0 ≤ o.lineSpacing)
    (hF2 : c.stub = false → o.lineSpacing ≤ 2 * o.nodeSpacing + c.width) :
    gap o a b ≤ gap o a c + gap o c b := by
  unfold gap spacing
  rw [halfDivisor_eq']
  cases hc : c.stub
  · have h3 := hF2 hc
    cases ha : a.stub <;> cases hb : b.stub <;>
      simp only [Bool.and_true, Bool.and_false, Bool.and_self,
        if_true, if_false, Bool.false_eq_true] <;> linarith
  · cases ha : a.stub <;> cases hb : b.stub <;>
      simp only [Bool.and_true, Bool.and_false, Bool.and_self,
        if_true, if_false, Bool.false_eq_true] <;> linarith

theorem head_pairs (o : ROpts) (tol : ℚ) (htol : 0 ≤ tol) (hns : 0 ≤ o.nodeSpacing)
    (hls : 0 ≤ o.lineSpacing) (a : LItem × ℚ) (rest : List (LItem × ℚ))
    (hadj : sepAdjB o tol (a :: rest) = true)
    (hw : ∀ p ∈ rest, 0 ≤ p.1.width)
    (hF2 : ∀ p ∈ rest, p.1.stub = false → o.lineSpacing ≤ 2 * o.nodeSpacing + p.1.width) :
    ∀ b ∈ rest, a.1.target ≤ b.1.target ∧ gap o a.1 b.1 - tol * (rest.length : ℚ) ≤ b.2 - a.2 := by
  induction rest generalizing a with
  | nil => intro b hb; simp at hb
  | cons c rest ih =>
    simp only [sepAdjB, Bool.and_eq_true, decide_eq_true_eq] at hadj
    obtain ⟨⟨hac, hgap⟩, hadj'⟩ := hadj
    have hn : (0 : ℚ) ≤ tol * (rest.length : ℚ) := mul_nonneg htol (Nat.cast_nonneg _)
    have hlen : ((c :: rest).length : ℚ) = (rest.length : ℚ) + 1 := by
      rw [List.length_cons]; push_cast; ring
    intro b hb
    rw [hlen]
    rcases List.mem_cons.mp hb with rfl | hb
    · exact ⟨hac, by nlinarith⟩
    · obtain ⟨hcb, hgcb⟩ := ih c hadj' (fun p hp => hw p (by simp [hp]))
        (fun p hp => hF2 p (by simp [hp])) b hb
      have htri := gap_triangle o a.1 b.1 c.1 (hw c (by simp)) hns hls (hF2 c (by simp))
      exact ⟨le_trans hac hcb, by nlinarith⟩

theorem any_pair' (o : ROpts) (tol : ℚ) (htol : 0 ≤ tol) (hns : 0 ≤ o.nodeSpacing)
    (hls : 0 ≤ o.lineSpacing) (L : List (LItem × ℚ)) (T : ℚ) (hT : tol * (L.length : ℚ) ≤ T)
    (hadj : sepAdjB o tol L = true)
    (hw : ∀ p ∈ L, 0 ≤ p.1.width)
    (hF2 : ∀ p ∈ L, p.1.stub = false → o.lineSpacing ≤ 2 * o.nodeSpacing + p.1.width) :
    sepAllB o T L = true := by
  induction L with
  | nil => simp [sepAllB]
  | cons a rest ih =>
    have hlen : ((a :: rest).length : ℚ) = (rest.length : ℚ) + 1 := by
      rw [List.length_cons]; push_cast; ring
    rw [hlen] at hT
    have hw' : ∀ p ∈ rest, 0 ≤ p.1.width := fun p hp => hw p (by simp [hp])
    have hF2' : ∀ p ∈ rest, p.1.stub = false → o.lineSpacing ≤ 2 * o.nodeSpacing + p.1.width :=
      fun p hp => hF2 p (by simp [hp])
    simp only [sepAllB, Bool.and_eq_true, List.all_eq_true]
    refine ⟨?_, ih (by nlinarith) (sepAdjB_tail hadj) hw' hF2'⟩
    intro b hb
    obtain ⟨h1, h2⟩ := head_pairs o tol htol hns hls a rest hadj hw' hF2' b hb
    simp only [pairOKB, Bool.and_eq_true, decide_eq_true_eq]
    exact ⟨h1, by nlinarith⟩

/-! ### walls -/

theorem cost_cons (v : Item) (vs : List Item) (x : ℚ) (xs : List ℚ) :
    cost (v :: vs) (x :: xs) = v.w * (x - v.t) * (x - v.t) + cost vs xs := by
  simp [cost]

theorem cost_append' (a b : List Item) (ya yb : List ℚ) (h : ya.length = a.length) :
    cost (a ++ b) (ya ++ yb) = cost a ya + cost b yb := by
  simp only [cost]
  rw [List.zip_append (by omega)]
  simp

theorem cost_nonneg {vars : List Item} (hw : ∀ v ∈ vars, 0 ≤ v.w) (xs : List ℚ) :
    0 ≤ cost vars xs := by
  induction vars generalizing xs with
  | nil => simp [cost]
  | cons v vars ih =>
    cases xs with
    | nil => simp [cost]
    | cons x xs =>
      rw [cost_cons]
      have h1 := ih (fun u hu => hw u (by simp [hu])) xs
      have h2 : 0 ≤ v.w * (x - v.t) * (x - v.t) := by
        rw [mul_assoc]; exact mul_nonneg (hw v (by simp)) (mul_self_nonneg _)
      linarith

theorem wdist_nonneg {vars : List Item} (hw : ∀ v ∈ vars, 0 ≤ v.w) (xs zs : List ℚ) :
    0 ≤ wdist vars xs zs := by
  induction vars generalizing xs zs with
  | nil => simp [wdist]
  | cons v vars ih =>
    cases xs with
    | nil => simp [wdist]
    | cons x xs =>
      cases zs with
      | nil => simp [wdist]
      | cons z zs =>
        have h1 := ih (fun u hu => hw u (by simp [hu])) xs zs
        have h2 : 0 ≤ v.w * (z - x) * (z - x) := by
          rw [mul_assoc]; exact mul_nonneg (hw v (by simp)) (mul_self_nonneg _)
        simp only [wdist, List.zip_cons_cons, List.map_cons, List.sum_cons] at h1 ⊢
        linarith

theorem exists_ends (l : List ℚ) (n : ℕ) (h : l.length = n + 2) :
    ∃ x0 mid xl, l = x0 :: (mid ++ [xl]) ∧ mid.length = n := by
  cases l with
  | nil => simp at h
  | cons x0 t =>
    have ht : t ≠ [] := by intro h'; subst h'; simp at h
    refine ⟨x0, t.dropLast, t.getLast ht, ?_, ?_⟩
    · rw [List.dropLast_append_getLast]
    · simp only [List.length_cons] at h
      rw [List.length_dropLast]; omega

theorem walls_near_bounds' (its : List LItem) (lo hi : ℚ) (ns ls : ℚ) (h : its ≠ [])
    (zs : List ℚ) (hz : zs.length = its.length)
    (hfeas : SepBy 0 (chainGaps ⟨some lo, some hi, ns, ls⟩ its) (lo :: zs ++ [hi])) :
    Gen.wallWeight *
        ((solve Layout.eps (chainVars ⟨some lo, some hi, ns, ls⟩ its)
          (chainGaps ⟨some lo, some hi, ns, ls⟩ its)).headD 0 - lo) *
        ((solve Layout.eps (chainVars ⟨some lo, some hi, ns, ls⟩ its)
          (chainGaps ⟨some lo, some hi, ns, ls⟩ its)).headD 0 - lo)
      + Gen.wallWeight *
        ((solve Layout.eps (chainVars ⟨some lo, some hi, ns, ls⟩ its)
          (chainGaps ⟨some lo, some hi, ns, ls⟩ its)).getLastD 0 - hi) *
        ((solve Layout.eps (chainVars ⟨some lo, some hi, ns, ls⟩ its)
          (chainGaps ⟨some lo, some hi, ns, ls⟩ its)).getLastD 0 - hi)
      ≤ cost (its.map toVar) zs := by
  set o : ROpts := ⟨some lo, some hi, ns, ls⟩ with ho
  have hvars : chainVars o its
      = ({ w := Gen.wallWeight, t := lo } : Item) ::
          (its.map toVar ++ [({ w := Gen.wallWeight, t := hi } : Item)]) := by
    simp [chainVars, leftWall, rightWall, ho]
  have hpos := chainVars_pos o its
  have hlens := chain_lengths o h
  have hvl : (chainVars o its).length = its.length + 2 := by
    rw [hvars]; simp
  have hopt := solve_optimal' Layout.eps eps_nonneg' (chainVars o its) (chainGaps o its) hlens hpos
    (lo :: zs ++ [hi]) (by rw [hvl]; simp [hz]) hfeas
  have hal := solve_length' Layout.eps (chainVars o its) (chainGaps o its) hlens
  rw [hvl] at hal
  obtain ⟨x0, mid, xl, hall, hmid⟩ := exists_ends _ _ hal
  rw [hall] at hopt ⊢
  have hwd := wdist_nonneg (fun v hv => (hpos v hv).le) (x0 :: (mid ++ [xl])) (lo :: (zs ++ [hi]))
  have hitems : ∀ v ∈ its.map toVar, 0 ≤ v.w := by
    intro v hv
    simp only [List.mem_map] at hv
    obtain ⟨i, _, rfl⟩ := hv
    simp [toVar]
  have hmidc := cost_nonneg hitems mid
  rw [hvars] at hopt hwd
  rw [List.cons_append, cost_cons, cost_cons, cost_append' _ _ _ _ (by rw [List.length_map]; omega),
    cost_append' _ _ _ _ (by rw [List.length_map]; omega), cost_cons, cost_cons] at hopt
  simp only [cost, List.zip_nil_right, List.map_nil, List.sum_nil, sub_self, mul_zero,
    add_zero, zero_add] at hopt
  simp only [cost] at hmidc ⊢
  have hlast : (x0 :: (mid ++ [xl])).getLastD 0 = xl := by
    simp [List.getLastD]
  rw [hlast]
  simp only [List.headD_cons]
  linarith

end Labella.Layout
