import Labella.Model.Pipeline
import Labella.Proofs.SortEval
/-! Kernel-evaluable twin of `Pipeline.drawn` (every merge sort replaced by the equal stable insertion sort, through `compute'`),
for closed `decide +kernel` examples. -/
namespace Labella.Pipeline
open Labella Labella.Layout Labella.Render

/-- `drawn` over `compute'` -/
def drawn' (dir : Dir) (layerGap : Rat) (fo : FOpts) (items : List PItem) : List Drawn :=
  let L := Layout.compute' fo (labelsOf dir items)
  L.zipIdx.flatMap (fun lk => lk.1.zipIdx.filterMap (fun pi =>
    if pi.1.ref.isStub then none else
      let n := rnode dir items L lk.2 pi.1.ref.id pi.1.pos
      some { layer := lk.2, idx := pi.2, id := pi.1.ref.id, node := n, box := modelBox (ropt dir layerGap items) n }))

theorem drawn'_eq (dir : Dir) (layerGap : Rat) (fo : FOpts) (items : List PItem) :
    drawn' dir layerGap fo items = drawn dir layerGap fo items := by
  unfold drawn' drawn
  rw [compute'_eq]

end Labella.Pipeline
