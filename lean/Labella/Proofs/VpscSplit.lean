import Labella.Proofs.VpscBasic
import Mathlib.Logic.Relation
import Mathlib.Tactic.Linarith
/-! # Section S: `blockSplit` preserves the invariant; the constraint `findPath` picks separates `l` from `r` -/
namespace Labella.Vpsc

/-! ## generic graph lemmas -/

theorem Adj.symmS {st : St} {x : Option Nat} {u v : Nat} (h : Adj st x u v) : Adj st x v u := by
  obtain ⟨c, hc, hx, ha, h⟩ := h
  exact ⟨c, hc, hx, ha, h.symm⟩

theorem Conn.symmS {st : St} {x : Option Nat} {u v : Nat} (h : Conn st x u v) : Conn st x v u := by
  induction h with
  | refl => exact Relation.ReflTransGen.refl
  | tail _ hyz ih => exact Relation.ReflTransGen.head hyz.symmS ih

theorem Conn.transS {st : St} {x : Option Nat} {u v w : Nat} (h1 : Conn st x u v) (h2 : Conn st x v w) :
    Conn st x u w := Relation.ReflTransGen.trans h1 h2

theorem Conn.reflS (st : St) (x : Option Nat) (u : Nat) : Conn st x u u := Relation.ReflTransGen.refl

theorem Adj.connS {st : St} {x : Option Nat} {u v : Nat} (h : Adj st x u v) : Conn st x u v :=
  Relation.ReflTransGen.single h

theorem Adj.to_noneS {st : St} {x : Option Nat} {u v : Nat} (h : Adj st x u v) : Adj st none u v := by
  obtain ⟨c, hc, _, ha, h⟩ := h
  exact ⟨c, hc, by simp, ha, h⟩

theorem Conn.to_noneS {st : St} {x : Option Nat} {u v : Nat} (h : Conn st x u v) : Conn st none u v := by
  induction h with
  | refl => exact Relation.ReflTransGen.refl
  | tail _ hyz ih => exact Relation.ReflTransGen.tail ih hyz.to_noneS

theorem Adj.ltS {st : St} (hwf : WF st) {x : Option Nat} {u v : Nat} (h : Adj st x u v) :
    u < st.vs.size ∧ v < st.vs.size := by
  obtain ⟨c, hc, _, _, h⟩ := h
  have := hwf.lr c hc
  rcases h with ⟨rfl, rfl⟩ | ⟨rfl, rfl⟩
  · exact this
  · exact this.symm

/-- a path either avoids `e` or reaches both ends of `e` -/
theorem conn_cases {st : St} {x : Option Nat} {a b : Nat} (h : Conn st x a b) (e : Nat) :
    Conn st (some e) a b ∨ (Conn st x a (getC st e).l ∧ Conn st x a (getC st e).r) := by
  induction h with
  | refl => exact Or.inl (Conn.reflS _ _ _)
  | @tail y z hay hyz ih =>
    rcases ih with ih | ih
    · obtain ⟨c, hc, hx, ha, hlr⟩ := hyz
      by_cases hce : c = e
      · right
        subst hce
        have hz : Conn st x a z := Relation.ReflTransGen.tail hay ⟨c, hc, hx, ha, hlr⟩
        rcases hlr with ⟨h1, h2⟩ | ⟨h1, h2⟩
        · rw [h1, h2]; exact ⟨hay, hz⟩
        · rw [h1, h2]; exact ⟨hz, hay⟩
      · left
        exact Relation.ReflTransGen.tail ih ⟨c, hc, by simpa using hce, ha, hlr⟩
    · exact Or.inr ih

/-- `e` is an active constraint with ends `p` and `v` -/
def IsEdge (st : St) (e p v : Nat) : Prop :=
  e < st.cs.size ∧ (getC st e).active = true ∧
    (((getC st e).l = p ∧ (getC st e).r = v) ∨ ((getC st e).l = v ∧ (getC st e).r = p))

/-- every active constraint is a bridge (`Inv.forest`) -/
def Forest (st : St) : Prop := ∀ ci, ci < st.cs.size → (getC st ci).active = true →
  ¬ Conn st (some ci) (getC st ci).l (getC st ci).r

theorem IsEdge.adj {st : St} {e p v : Nat} (h : IsEdge st e p v) {x : Option Nat} (hx : some e ≠ x) : Adj st x p v :=
  ⟨e, h.1, hx, h.2.1, h.2.2⟩

theorem IsEdge.symm {st : St} {e p v : Nat} (h : IsEdge st e p v) : IsEdge st e v p := ⟨h.1, h.2.1, h.2.2.symm⟩

theorem IsEdge.bridge {st : St} (hf : Forest st) {e p v : Nat} (h : IsEdge st e p v) : ¬ Conn st (some e) p v := by
  intro hc
  have := hf e h.1 h.2.1
  rcases h.2.2 with ⟨h1, h2⟩ | ⟨h1, h2⟩
  · rw [h1, h2] at this; exact this hc
  · rw [h1, h2] at this; exact this hc.symmS

/-- the subtrees hanging off `v` across two different constraints are disjoint -/
theorem sub_disjoint {st : St} (hf : Forest st) {c c' v w w' u : Nat} (hc : IsEdge st c v w) (hc' : IsEdge st c' v w')
    (hne : c ≠ c') (h1 : Conn st (some c) w u) (h2 : Conn st (some c') w' u) : False := by
  rcases conn_cases h1 c' with h | ⟨ha, hb⟩
  · have hadj : Adj st (some c') v w := hc.adj (by simpa using hne)
    exact hc'.bridge hf (hadj.connS.trans (h.trans h2.symmS))
  · rcases hc'.2.2 with ⟨a1, _⟩ | ⟨_, a2⟩
    · rw [a1] at ha; exact hc.bridge hf ha.symmS
    · rw [a2] at hb; exact hc.bridge hf hb.symmS

/-- the subtree hanging off `w` across `c'` lies inside the subtree hanging off `v` across `c` -/
theorem sub_nested {st : St} (hf : Forest st) {c c' v w w' u : Nat} (hc : IsEdge st c v w) (hc' : IsEdge st c' w w')
    (hne : c ≠ c') (h : Conn st (some c') w' u) : Conn st (some c) w u := by
  rcases conn_cases h c with h' | ⟨ha, hb⟩
  · have hadj : Adj st (some c) w w' := hc'.adj (by simpa using fun e => hne e.symm)
    exact hadj.connS.trans h'
  · exfalso
    rcases hc.2.2 with ⟨_, a2⟩ | ⟨a1, _⟩
    · rw [a2] at hb; exact hc'.bridge hf hb.symmS
    · rw [a1] at ha; exact hc'.bridge hf ha.symmS

theorem mem_neighbours {st : St} {v c w : Nat} : (c, w) ∈ neighbours st v ↔
    (c ∈ (getV st v).cOut ∧ w = (getC st c).r) ∨ (c ∈ (getV st v).cIn ∧ w = (getC st c).l) := by
  unfold neighbours
  simp only [List.mem_append, List.mem_map, Prod.mk.injEq]
  constructor
  · rintro (⟨a, ha, rfl, rfl⟩ | ⟨a, ha, rfl, rfl⟩)
    · exact Or.inl ⟨ha, rfl⟩
    · exact Or.inr ⟨ha, rfl⟩
  · rintro (⟨ha, rfl⟩ | ⟨ha, rfl⟩)
    · exact Or.inl ⟨c, ha, rfl, rfl⟩
    · exact Or.inr ⟨c, ha, rfl, rfl⟩

/-- the part of `WF` that concerns the constraint graph -/
structure WFd (st : St) : Prop where
  lr : ∀ ci, ci < st.cs.size → (getC st ci).l < st.vs.size ∧ (getC st ci).r < st.vs.size
  out_mem : ∀ ci, ci < st.cs.size → ci ∈ (getV st (getC st ci).l).cOut
  in_mem : ∀ ci, ci < st.cs.size → ci ∈ (getV st (getC st ci).r).cIn
  out_sound : ∀ v, v < st.vs.size → ∀ ci ∈ (getV st v).cOut, ci < st.cs.size ∧ (getC st ci).l = v
  in_sound : ∀ v, v < st.vs.size → ∀ ci ∈ (getV st v).cIn, ci < st.cs.size ∧ (getC st ci).r = v

theorem WF.toWFd {st : St} (h : WF st) : WFd st := ⟨h.lr, h.out_mem, h.in_mem, h.out_sound, h.in_sound⟩

theorem WFd.nb_sound {st : St} (hwf : WFd st) {v c w : Nat} (hv : v < st.vs.size) (h : (c, w) ∈ neighbours st v) :
    c < st.cs.size ∧ w < st.vs.size ∧
      (((getC st c).l = v ∧ (getC st c).r = w) ∨ ((getC st c).l = w ∧ (getC st c).r = v)) := by
  rcases mem_neighbours.1 h with ⟨hc, rfl⟩ | ⟨hc, rfl⟩
  · obtain ⟨h1, h2⟩ := hwf.out_sound v hv c hc
    exact ⟨h1, (hwf.lr c h1).2, Or.inl ⟨h2, rfl⟩⟩
  · obtain ⟨h1, h2⟩ := hwf.in_sound v hv c hc
    exact ⟨h1, (hwf.lr c h1).1, Or.inr ⟨rfl, h2⟩⟩

theorem WFd.nb_complete {st : St} (hwf : WFd st) {x : Option Nat} {v w : Nat} (h : Adj st x v w) :
    ∃ c, (c, w) ∈ neighbours st v ∧ (getC st c).active = true ∧ c < st.cs.size ∧ some c ≠ x := by
  obtain ⟨c, hc, hx, ha, hlr⟩ := h
  refine ⟨c, mem_neighbours.2 ?_, ha, hc, hx⟩
  rcases hlr with ⟨rfl, rfl⟩ | ⟨rfl, rfl⟩
  · exact Or.inl ⟨hwf.out_mem c hc, rfl⟩
  · exact Or.inr ⟨hwf.in_mem c hc, rfl⟩

theorem WFd.adj_lt {st : St} (hwf : WFd st) {x : Option Nat} {u v : Nat} (h : Adj st x u v) :
    u < st.vs.size ∧ v < st.vs.size := by
  obtain ⟨c, hc, _, _, h⟩ := h
  have := hwf.lr c hc
  rcases h with ⟨rfl, rfl⟩ | ⟨rfl, rfl⟩
  · exact this
  · exact this.symm


/-! ## store lemmas for `addVariable`, `newBlock`, one visiting step -/

theorem getV_addVariable (st : St) (b i j : Nat) : getV (addVariable st b i) j =
    if j = i ∧ i < st.vs.size then { getV st i with block := b } else getV st j := by
  simp only [addVariable, getV_setB, getV_setV]

theorem getB_addVariable_ne (st : St) (b i j : Nat) (h : j ≠ b) : getB (addVariable st b i) j = getB st j := by
  simp only [addVariable, getB_setB, getB_setV]
  rw [if_neg (fun hh => h hh.1)]

theorem getB_addVariable_vars (st : St) (b i : Nat) (h : b < st.bs.size) :
    (getB (addVariable st b i) b).vars = (getB st b).vars ++ [i] := by
  simp only [addVariable, getB_setB, getB_setV, setV_bs]
  rw [if_pos ⟨trivial, h⟩]
  rfl

/-- one step of `populateSplitBlock`: give `w` its offset relative to `v` across `c` and move it into block `b` -/
def visit (s : St) (b v c w : Nat) : St :=
  addVariable (setV s w { getV s w with
    offset := if w == (getC s c).r then (getV s v).offset + (getC s c).g else (getV s v).offset - (getC s c).g }) b w

/-- the step function of the fold in `populateSplitBlock (fuel+1)` -/
def pstep (fuel b v : Nat) (prev : Option Nat) (st : St) (p : Nat × Nat) : St :=
  if (getC st p.1).active && prev != some p.2 then populateSplitBlock fuel (visit st b v p.1 p.2) b p.2 (some v) else st

theorem populate_succ (fuel : Nat) (st : St) (b v : Nat) (prev : Option Nat) :
    populateSplitBlock (fuel + 1) st b v prev = (neighbours st v).foldl (pstep fuel b v prev) st := rfl

theorem visit_getV_self (s : St) (b v c w : Nat) (hw : w < s.vs.size) :
    getV (visit s b v c w) w = { getV s w with
      offset := if w == (getC s c).r then (getV s v).offset + (getC s c).g else (getV s v).offset - (getC s c).g,
      block := b } := by
  simp only [visit, getV_addVariable, getV_setV, setV_vs_size]
  rw [if_pos ⟨trivial, hw⟩, if_pos ⟨trivial, hw⟩]

theorem visit_getV_other (s : St) (b v c w u : Nat) (hu : u ≠ w) : getV (visit s b v c w) u = getV s u := by
  simp only [visit, getV_addVariable, getV_setV, setV_vs_size]
  rw [if_neg (fun hh => hu hh.1), if_neg (fun hh => hu hh.1)]

theorem visit_getB_other (s : St) (b v c w b' : Nat) (h : b' ≠ b) : getB (visit s b v c w) b' = getB s b' := by
  simp only [visit, getB_addVariable_ne _ _ _ _ h, getB_setV]

theorem visit_vars (s : St) (b v c w : Nat) (h : b < s.bs.size) :
    (getB (visit s b v c w) b).vars = (getB s b).vars ++ [w] := by
  simp only [visit]
  rw [getB_addVariable_vars _ _ _ (by simpa using h)]
  simp only [getB_setV]

theorem visit_cs (s : St) (b v c w : Nat) : (visit s b v c w).cs = s.cs := by simp [visit, addVariable]
theorem visit_vs_size (s : St) (b v c w : Nat) : (visit s b v c w).vs.size = s.vs.size := by simp [visit, addVariable]
theorem visit_bs_size (s : St) (b v c w : Nat) : (visit s b v c w).bs.size = s.bs.size := by simp [visit, addVariable]
theorem visit_list (s : St) (b v c w : Nat) : (visit s b v c w).list = s.list := by simp [visit, addVariable]
theorem visit_inactive (s : St) (b v c w : Nat) : (visit s b v c w).inactive = s.inactive := by simp [visit, addVariable]
theorem visit_err (s : St) (b v c w : Nat) : (visit s b v c w).err = s.err := by simp [visit, addVariable]


/-! ## the traversal `populateSplitBlock` -/

def Tight (st : St) : Prop := ∀ ci, ci < st.cs.size → (getC st ci).active = true →
  (getV st (getC st ci).r).offset - (getV st (getC st ci).l).offset = (getC st ci).g

/-- what holds of every state `s` met while block `b` is being populated from `start`, relative to the state `s0` before
`createSplitBlock`: visited variables (those whose `block` is `b`) are reachable from `start` and shifted by `δ` -/
structure TI (s0 : St) (b : Nat) (δ : Rat) (start : Nat) (s : St) : Prop where
  cs_eq : s.cs = s0.cs
  vsize : s.vs.size = s0.vs.size
  bsize : s.bs.size = s0.bs.size + 1
  blt : b < s.bs.size
  list_eq : s.list = s0.list
  inactive_eq : s.inactive = s0.inactive
  vstat : ∀ u, (getV s u).d = (getV s0 u).d ∧ (getV s u).w = (getV s0 u).w ∧ (getV s u).s = (getV s0 u).s ∧
    (getV s u).cOut = (getV s0 u).cOut ∧ (getV s u).cIn = (getV s0 u).cIn
  vdyn : ∀ u, ((getV s u).block = (getV s0 u).block ∧ (getV s u).offset = (getV s0 u).offset) ∨
    ((getV s u).block = b ∧ (getV s u).offset = (getV s0 u).offset - δ)
  reach : ∀ u, (getV s u).block = b → u < s0.vs.size ∧ Conn s0 none start u
  bother : ∀ b', b' ≠ b → getB s b' = getB s0 b'
  bvars : ∀ u, u ∈ (getB s b).vars ↔ (getV s u).block = b

section Trav
variable {s0 : St} {b : Nat} {δ : Rat} {start : Nat}

theorem TI.getC {s : St} (h : TI s0 b δ start s) (c : Nat) : getC s c = getC s0 c := by
  unfold Vpsc.getC; rw [h.cs_eq]

theorem TI.neighbours {s : St} (h : TI s0 b δ start s) (v : Nat) : neighbours s v = neighbours s0 v := by
  unfold Vpsc.neighbours
  simp only [h.getC, (h.vstat v).2.2.2.1, (h.vstat v).2.2.2.2]

theorem TI.off {s : St} (h : TI s0 b δ start s) (hfresh : ∀ u, (getV s0 u).block ≠ b) {v : Nat}
    (hv : (getV s v).block = b) : (getV s v).offset = (getV s0 v).offset - δ := by
  rcases h.vdyn v with ⟨h1, _⟩ | ⟨_, h2⟩
  · exact absurd (h1.symm.trans hv) (hfresh v)
  · exact h2

theorem visit_TI {s : St} (hs : TI s0 b δ start s) (hwf : WFd s0) (ht : Tight s0) (hfresh : ∀ u, (getV s0 u).block ≠ b)
    {v c w : Nat} (hv : (getV s v).block = b) (hmem : (c, w) ∈ neighbours s0 v) (hact : (getC s0 c).active = true) :
    TI s0 b δ start (visit s b v c w) ∧ (getV (visit s b v c w) w).block = b := by
  obtain ⟨hv0, hcv⟩ := hs.reach v hv
  obtain ⟨hc, hw, hlr⟩ := hwf.nb_sound hv0 hmem
  have hw' : w < s.vs.size := by rw [hs.vsize]; exact hw
  have hoff := hs.off hfresh hv
  have htc := ht c hc hact
  have hself := visit_getV_self s b v c w hw'
  have hadj : Adj s0 none v w := ⟨c, hc, by simp, hact, hlr⟩
  have hoffw : (getV (visit s b v c w) w).offset = (getV s0 w).offset - δ := by
    rw [hself]
    simp only [hs.getC]
    rcases hlr with ⟨h1, h2⟩ | ⟨h1, h2⟩
    · rw [h2, beq_self_eq_true, if_pos rfl, hoff]
      rw [h1, h2] at htc
      linarith
    · rw [h1, h2] at htc
      rw [h2]
      by_cases hwv : w = v
      · subst hwv
        rw [beq_self_eq_true, if_pos rfl, hoff]
        linarith
      · have : (w == v) = false := by simpa using hwv
        rw [this, hoff]
        simp only [Bool.false_eq_true, if_false]
        linarith
  have hblk : (getV (visit s b v c w) w).block = b := by rw [hself]
  refine ⟨⟨?_, ?_, ?_, ?_, ?_, ?_, ?_, ?_, ?_, ?_, ?_⟩, hblk⟩
  · rw [visit_cs]; exact hs.cs_eq
  · rw [visit_vs_size]; exact hs.vsize
  · rw [visit_bs_size]; exact hs.bsize
  · rw [visit_bs_size]; exact hs.blt
  · rw [visit_list]; exact hs.list_eq
  · rw [visit_inactive]; exact hs.inactive_eq
  · intro u
    by_cases hu : u = w
    · subst hu
      rw [hself]
      exact hs.vstat u
    · rw [visit_getV_other _ _ _ _ _ _ hu]; exact hs.vstat u
  · intro u
    by_cases hu : u = w
    · subst hu
      exact Or.inr ⟨hblk, hoffw⟩
    · rw [visit_getV_other _ _ _ _ _ _ hu]; exact hs.vdyn u
  · intro u hub
    by_cases hu : u = w
    · subst hu
      exact ⟨hw, hcv.trans hadj.connS⟩
    · rw [visit_getV_other _ _ _ _ _ _ hu] at hub; exact hs.reach u hub
  · intro b' hb'
    rw [visit_getB_other _ _ _ _ _ _ hb']; exact hs.bother b' hb'
  · intro u
    rw [visit_vars _ _ _ _ _ hs.blt, List.mem_append, hs.bvars u, List.mem_singleton]
    by_cases hu : u = w
    · subst hu
      simp [hblk]
    · rw [visit_getV_other _ _ _ _ _ _ hu]
      simp [hu]


theorem foldl_err_sticky {α : Type} (f : St → α → St) (hf : ∀ a x, a.err = true → (f a x).err = true) :
    ∀ (l : List α) (a : St), a.err = true → (l.foldl f a).err = true := by
  intro l
  induction l with
  | nil => intro a h; exact h
  | cons x l ih => intro a h; exact ih _ (hf a x h)

theorem populate_err_sticky (fuel : Nat) : ∀ (s : St) (b v : Nat) (prev : Option Nat), s.err = true →
    (populateSplitBlock fuel s b v prev).err = true := by
  induction fuel with
  | zero => intro s b v prev _; rfl
  | succ fuel ih =>
    intro s b v prev h
    rw [populate_succ]
    refine foldl_err_sticky _ ?_ _ _ h
    intro a x ha
    unfold pstep
    split
    · exact ih _ _ _ _ (by rw [visit_err]; exact ha)
    · exact ha

theorem pstep_err_sticky (fuel b v : Nat) (prev : Option Nat) (a : St) (x : Nat × Nat) (ha : a.err = true) :
    (pstep fuel b v prev a x).err = true := by
  unfold pstep
  split
  · exact populate_err_sticky _ _ _ _ _ (by rw [visit_err]; exact ha)
  · exact ha

theorem err_false_of_foldl {fuel b v : Nat} {prev : Option Nat} {l : List (Nat × Nat)} {a : St}
    (h : (l.foldl (pstep fuel b v prev) a).err = false) : a.err = false := by
  cases hh : a.err with
  | false => rfl
  | true =>
    have := foldl_err_sticky _ (pstep_err_sticky fuel b v prev) l a hh
    rw [this] at h
    exact h

structure Post1 (s0 : St) (b : Nat) (δ : Rat) (start : Nat) (s : St) (prev : Option Nat) (pre : List (Nat × Nat))
    (s' : St) : Prop where
  ti : TI s0 b δ start s'
  mono : ∀ u, (getV s u).block = b → (getV s' u).block = b
  done : ∀ p ∈ pre, (getC s0 p.1).active = true → prev ≠ some p.2 → (getV s' p.2).block = b
  closed : ∀ u, (getV s u).block ≠ b → (getV s' u).block = b → ∀ w, Adj s0 none u w → (getV s' w).block = b

theorem visit_mono {s : St} {v c w u : Nat} (hw : (getV (visit s b v c w) w).block = b)
    (hu : (getV s u).block = b) : (getV (visit s b v c w) u).block = b := by
  by_cases h : u = w
  · subst h; exact hw
  · rw [visit_getV_other _ _ _ _ _ _ h]; exact hu

theorem post1_step (hwf : WFd s0) (ht : Tight s0) (hfresh : ∀ u, (getV s0 u).block ≠ b) {fuel : Nat}
    (ih : ∀ (s : St) (v : Nat) (prev : Option Nat), TI s0 b δ start s → (getV s v).block = b →
      (populateSplitBlock fuel s b v prev).err = false →
      Post1 s0 b δ start s prev (neighbours s0 v) (populateSplitBlock fuel s b v prev))
    {s : St} {v : Nat} {prev : Option Nat} (hv : (getV s v).block = b)
    {pre : List (Nat × Nat)} {acc : St} (hacc : Post1 s0 b δ start s prev pre acc) {x : Nat × Nat}
    (hx : x ∈ neighbours s0 v) (herr : (pstep fuel b v prev acc x).err = false) :
    Post1 s0 b δ start s prev (pre ++ [x]) (pstep fuel b v prev acc x) := by
  obtain ⟨c, w⟩ := x
  unfold pstep at herr ⊢
  simp only at herr ⊢
  by_cases hcond : ((getC acc c).active && prev != some w) = true
  · rw [if_pos hcond] at herr ⊢
    rw [Bool.and_eq_true, hacc.ti.getC, bne_iff_ne] at hcond
    obtain ⟨hact, hprev⟩ := hcond
    have hvacc := hacc.mono v hv
    obtain ⟨hti2, hw2⟩ := visit_TI hacc.ti hwf ht hfresh hvacc hx hact
    have hp := ih _ w (some v) hti2 hw2 herr
    have hv0 := (hacc.ti.reach v hvacc).1
    have hmono : ∀ u, (getV acc u).block = b →
        (getV (populateSplitBlock fuel (visit acc b v c w) b w (some v)) u).block = b :=
      fun u hu => hp.mono u (visit_mono hw2 hu)
    refine ⟨hp.ti, fun u hu => hmono u (hacc.mono u hu), ?_, ?_⟩
    · intro p hp' ha hpr
      rcases List.mem_append.1 hp' with h | h
      · exact hmono _ (hacc.done p h ha hpr)
      · rw [List.mem_singleton] at h
        subst h
        exact hp.mono _ hw2
    · intro u hus hu' w' hadj
      by_cases hua : (getV acc u).block = b
      · exact hmono _ (hacc.closed u hus hua w' hadj)
      · by_cases huw : u = w
        · subst huw
          by_cases hwv : w' = v
          · subst hwv; exact hmono _ hvacc
          · obtain ⟨c', hm', ha', _, _⟩ := hwf.nb_complete hadj
            exact hp.done (c', w') hm' ha' (by simpa using fun h => hwv h.symm)
        · refine hp.closed u ?_ hu' w' hadj
          rw [visit_getV_other _ _ _ _ _ _ huw]; exact hua
  · rw [if_neg hcond] at herr ⊢
    refine ⟨hacc.ti, hacc.mono, ?_, hacc.closed⟩
    intro p hp' ha hpr
    rcases List.mem_append.1 hp' with h | h
    · exact hacc.done p h ha hpr
    · rw [List.mem_singleton] at h
      subst h
      exfalso
      apply hcond
      rw [Bool.and_eq_true, hacc.ti.getC, bne_iff_ne]
      exact ⟨ha, hpr⟩

theorem post1_fold (hwf : WFd s0) (ht : Tight s0) (hfresh : ∀ u, (getV s0 u).block ≠ b) {fuel : Nat}
    (ih : ∀ (s : St) (v : Nat) (prev : Option Nat), TI s0 b δ start s → (getV s v).block = b →
      (populateSplitBlock fuel s b v prev).err = false →
      Post1 s0 b δ start s prev (neighbours s0 v) (populateSplitBlock fuel s b v prev))
    {s : St} {v : Nat} {prev : Option Nat} (hv : (getV s v).block = b) :
    ∀ (suf pre : List (Nat × Nat)) (acc : St), (∀ x ∈ suf, x ∈ neighbours s0 v) →
      Post1 s0 b δ start s prev pre acc → (suf.foldl (pstep fuel b v prev) acc).err = false →
      Post1 s0 b δ start s prev (pre ++ suf) (suf.foldl (pstep fuel b v prev) acc) := by
  intro suf
  induction suf with
  | nil => intro pre acc _ h _; simpa using h
  | cons x suf ihl =>
    intro pre acc hmem hacc herr
    rw [List.foldl_cons] at herr ⊢
    have h1 := post1_step hwf ht hfresh ih hv hacc (hmem x (List.mem_cons_self ..)) (err_false_of_foldl herr)
    have := ihl (pre ++ [x]) _ (fun y hy => hmem y (List.mem_cons_of_mem _ hy)) h1 herr
    rwa [List.append_assoc, List.singleton_append] at this

theorem post1 (hwf : WFd s0) (ht : Tight s0) (hfresh : ∀ u, (getV s0 u).block ≠ b) (fuel : Nat) :
    ∀ (s : St) (v : Nat) (prev : Option Nat), TI s0 b δ start s → (getV s v).block = b →
      (populateSplitBlock fuel s b v prev).err = false →
      Post1 s0 b δ start s prev (neighbours s0 v) (populateSplitBlock fuel s b v prev) := by
  induction fuel with
  | zero => intro s v prev _ _ herr; exact absurd herr (by simp [populateSplitBlock])
  | succ fuel ih =>
    intro s v prev hs hv herr
    rw [populate_succ, hs.neighbours] at herr ⊢
    have h0 : Post1 s0 b δ start s prev [] s :=
      ⟨hs, fun _ h => h, fun p hp => absurd hp (List.not_mem_nil), fun u h1 h2 => absurd h2 h1⟩
    have := post1_fold hwf ht hfresh ih hv (neighbours s0 v) [] s (fun _ h => h) h0 herr
    rwa [List.nil_append] at this

/-! ### no variable is visited twice (needs the forest property and duplicate-free adjacency lists) -/

/-- nothing beyond the neighbours the call at `v` is going to visit has been visited yet -/
def Pre (s0 : St) (b : Nat) (s : St) (v : Nat) (prev : Option Nat) : Prop :=
  ∀ c w, (c, w) ∈ neighbours s0 v → (getC s0 c).active = true → prev ≠ some w →
    ∀ u, Conn s0 (some c) w u → (getV s u).block ≠ b

/-- two active entries of a neighbour list are different constraints -/
def NbDistinct (s0 : St) (p q : Nat × Nat) : Prop :=
  (getC s0 p.1).active = true → (getC s0 q.1).active = true → p.1 ≠ q.1

structure PostN (s0 : St) (b : Nat) (s : St) (prev : Option Nat) (pre : List (Nat × Nat)) (s' : St) : Prop where
  n1 : ∀ u, (getV s u).block ≠ b → (getV s' u).block = b →
    ∃ p ∈ pre, (getC s0 p.1).active = true ∧ prev ≠ some p.2 ∧ Conn s0 (some p.1) p.2 u
  n2 : (getB s' b).vars.Nodup

theorem neighbours_pairwise (hwf : WFd s0) (hf : Forest s0) (hadj : AdjNodup s0) {v : Nat} (hv : v < s0.vs.size) :
    (neighbours s0 v).Pairwise (NbDistinct s0) := by
  unfold neighbours
  obtain ⟨ho, hi⟩ := hadj v hv
  rw [List.pairwise_append]
  refine ⟨?_, ?_, ?_⟩
  · rw [List.pairwise_map]
    exact List.Pairwise.imp (fun {a c} h => fun _ _ => h) ho
  · rw [List.pairwise_map]
    exact List.Pairwise.imp (fun {a c} h => fun _ _ => h) hi
  · intro p hp q hq hpa _ hpq
    rw [List.mem_map] at hp hq
    obtain ⟨c, hc, rfl⟩ := hp
    obtain ⟨c', hc', rfl⟩ := hq
    simp only at hpq hpa
    subst hpq
    obtain ⟨h1, h2⟩ := hwf.out_sound v hv c hc
    obtain ⟨_, h3⟩ := hwf.in_sound v hv c hc'
    have he : IsEdge s0 c v v := ⟨h1, hpa, Or.inl ⟨h2, h3⟩⟩
    exact he.bridge hf (Conn.reflS _ _ _)

theorem post2_step (hwf : WFd s0) (ht : Tight s0) (hfresh : ∀ u, (getV s0 u).block ≠ b) (hf : Forest s0) {fuel : Nat}
    (ih : ∀ (s : St) (v : Nat) (prev : Option Nat), TI s0 b δ start s → (getV s v).block = b → Pre s0 b s v prev →
      (getB s b).vars.Nodup → (populateSplitBlock fuel s b v prev).err = false →
      PostN s0 b s prev (neighbours s0 v) (populateSplitBlock fuel s b v prev))
    {s : St} {v : Nat} {prev : Option Nat} (hv : (getV s v).block = b) (hpre : Pre s0 b s v prev)
    {pre : List (Nat × Nat)} {acc : St} (hacc : Post1 s0 b δ start s prev pre acc) (haccN : PostN s0 b s prev pre acc)
    (hpm : ∀ p ∈ pre, p ∈ neighbours s0 v)
    {x : Nat × Nat} (hx : x ∈ neighbours s0 v) (hdist : ∀ p ∈ pre, NbDistinct s0 p x)
    (herr : (pstep fuel b v prev acc x).err = false) :
    PostN s0 b s prev (pre ++ [x]) (pstep fuel b v prev acc x) := by
  obtain ⟨c, w⟩ := x
  unfold pstep at herr ⊢
  simp only at herr ⊢
  by_cases hcond : ((getC acc c).active && prev != some w) = true
  · rw [if_pos hcond] at herr ⊢
    rw [Bool.and_eq_true, hacc.ti.getC, bne_iff_ne] at hcond
    obtain ⟨hact, hprev⟩ := hcond
    have hvacc := hacc.mono v hv
    have hv0 := (hacc.ti.reach v hvacc).1
    obtain ⟨hc, hw, hlr⟩ := hwf.nb_sound hv0 hx
    have hedge : IsEdge s0 c v w := ⟨hc, hact, hlr⟩
    obtain ⟨hti2, hw2⟩ := visit_TI hacc.ti hwf ht hfresh hvacc hx hact
    -- an already visited `u` is not in the subtree beyond `c`
    have hbeyond : ∀ u, Conn s0 (some c) w u → (getV acc u).block ≠ b := by
      intro u hu hub
      by_cases hus : (getV s u).block = b
      · exact hpre c w hx hact hprev u hu hus
      · obtain ⟨⟨ci, wi⟩, hpi, hai, _, hci⟩ := haccN.n1 u hus hub
        have hne : ci ≠ c := hdist _ hpi hai hact
        obtain ⟨hci1, _, hlri⟩ := hwf.nb_sound hv0 (hpm _ hpi)
        exact sub_disjoint hf hedge ⟨hci1, hai, hlri⟩ (fun e => hne e.symm) hu hci
    have hwacc : (getV acc w).block ≠ b := hbeyond w (Conn.reflS _ _ _)
    have hnd2 : (getB (visit acc b v c w) b).vars.Nodup := by
      rw [visit_vars _ _ _ _ _ hacc.ti.blt, List.nodup_append]
      refine ⟨haccN.n2, by simp, ?_⟩
      intro a ha a' ha'
      rw [List.mem_singleton] at ha'
      subst ha'
      rintro rfl
      exact hwacc ((hacc.ti.bvars a).1 ha)
    have hpre2 : Pre s0 b (visit acc b v c w) w (some v) := by
      intro c' w' hm' ha' hpr' u hu
      obtain ⟨hc'1, _, hlr'⟩ := hwf.nb_sound hw hm'
      have hedge' : IsEdge s0 c' w w' := ⟨hc'1, ha', hlr'⟩
      have hne : c ≠ c' := by
        rintro rfl
        apply hpr'
        congr 1
        rcases hlr with ⟨a1, a2⟩ | ⟨a1, a2⟩ <;> rcases hlr' with ⟨b1, b2⟩ | ⟨b1, b2⟩ <;> omega
      have huw : u ≠ w := by
        rintro rfl
        exact hedge'.bridge hf hu.symmS
      rw [visit_getV_other _ _ _ _ _ _ huw]
      exact hbeyond u (sub_nested hf hedge hedge' hne hu)
    have hp1 := post1 hwf ht hfresh fuel _ w (some v) hti2 hw2 herr
    have hpN := ih _ w (some v) hti2 hw2 hpre2 hnd2 herr
    refine ⟨?_, hpN.n2⟩
    intro u hus hu'
    by_cases hua : (getV acc u).block = b
    · obtain ⟨p, hp, h⟩ := haccN.n1 u hus hua
      exact ⟨p, List.mem_append_left _ hp, h⟩
    · refine ⟨(c, w), List.mem_append_right _ (List.mem_singleton_self _), hact, hprev, ?_⟩
      by_cases huw : u = w
      · subst huw; exact Conn.reflS _ _ _
      · have hu2 : (getV (visit acc b v c w) u).block ≠ b := by
          rw [visit_getV_other _ _ _ _ _ _ huw]; exact hua
        obtain ⟨⟨c', w'⟩, hm', ha', hpr', hcu⟩ := hpN.n1 u hu2 hu'
        obtain ⟨hc'1, _, hlr'⟩ := hwf.nb_sound hw hm'
        have hne : c ≠ c' := by
          rintro rfl
          apply hpr'
          congr 1
          rcases hlr with ⟨a1, a2⟩ | ⟨a1, a2⟩ <;> rcases hlr' with ⟨b1, b2⟩ | ⟨b1, b2⟩ <;> omega
        exact sub_nested hf hedge ⟨hc'1, ha', hlr'⟩ hne hcu
  · rw [if_neg hcond] at herr ⊢
    refine ⟨?_, haccN.n2⟩
    intro u hus hu'
    obtain ⟨p, hp, h⟩ := haccN.n1 u hus hu'
    exact ⟨p, List.mem_append_left _ hp, h⟩

theorem post2_fold (hwf : WFd s0) (ht : Tight s0) (hfresh : ∀ u, (getV s0 u).block ≠ b) (hf : Forest s0) {fuel : Nat}
    (ih : ∀ (s : St) (v : Nat) (prev : Option Nat), TI s0 b δ start s → (getV s v).block = b → Pre s0 b s v prev →
      (getB s b).vars.Nodup → (populateSplitBlock fuel s b v prev).err = false →
      PostN s0 b s prev (neighbours s0 v) (populateSplitBlock fuel s b v prev))
    {s : St} {v : Nat} {prev : Option Nat} (hv : (getV s v).block = b) (hpre : Pre s0 b s v prev) :
    ∀ (suf pre : List (Nat × Nat)) (acc : St), (∀ x ∈ suf, x ∈ neighbours s0 v) → (∀ x ∈ pre, x ∈ neighbours s0 v) →
      suf.Pairwise (NbDistinct s0) → (∀ p ∈ pre, ∀ q ∈ suf, NbDistinct s0 p q) →
      Post1 s0 b δ start s prev pre acc → PostN s0 b s prev pre acc →
      (suf.foldl (pstep fuel b v prev) acc).err = false →
      PostN s0 b s prev (pre ++ suf) (suf.foldl (pstep fuel b v prev) acc) := by
  intro suf
  induction suf with
  | nil => intro pre acc _ _ _ _ _ h _; simpa using h
  | cons x suf ihl =>
    intro pre acc hmem hpm hpw hd hacc haccN herr
    rw [List.foldl_cons] at herr ⊢
    rw [List.pairwise_cons] at hpw
    have hx := hmem x (List.mem_cons_self ..)
    have herr1 := err_false_of_foldl herr
    have h1 := post1_step hwf ht hfresh (post1 hwf ht hfresh fuel) hv hacc hx herr1
    have hN := post2_step hwf ht hfresh hf ih hv hpre hacc haccN hpm hx
      (fun p hp => hd p hp x (List.mem_cons_self ..)) herr1
    have := ihl (pre ++ [x]) _ (fun y hy => hmem y (List.mem_cons_of_mem _ hy))
      (fun y hy => by
        rcases List.mem_append.1 hy with h | h
        · exact hpm y h
        · rw [List.mem_singleton] at h; subst h; exact hx)
      hpw.2
      (fun p hp q hq => by
        rcases List.mem_append.1 hp with h | h
        · exact hd p h q (List.mem_cons_of_mem _ hq)
        · rw [List.mem_singleton] at h; subst h; exact hpw.1 q hq)
      h1 hN herr
    rwa [List.append_assoc, List.singleton_append] at this

theorem post2 (hwf : WFd s0) (ht : Tight s0) (hfresh : ∀ u, (getV s0 u).block ≠ b) (hf : Forest s0) (hadj : AdjNodup s0)
    (fuel : Nat) :
    ∀ (s : St) (v : Nat) (prev : Option Nat), TI s0 b δ start s → (getV s v).block = b → Pre s0 b s v prev →
      (getB s b).vars.Nodup → (populateSplitBlock fuel s b v prev).err = false →
      PostN s0 b s prev (neighbours s0 v) (populateSplitBlock fuel s b v prev) := by
  induction fuel with
  | zero => intro s v prev _ _ _ _ herr; exact absurd herr (by simp [populateSplitBlock])
  | succ fuel ih =>
    intro s v prev hs hv hpre hnd herr
    rw [populate_succ, hs.neighbours] at herr ⊢
    have hv0 := (hs.reach v hv).1
    have h0 : Post1 s0 b δ start s prev [] s :=
      ⟨hs, fun _ h => h, fun p hp => absurd hp (List.not_mem_nil), fun u h1 h2 => absurd h2 h1⟩
    have h0N : PostN s0 b s prev [] s := ⟨fun u h1 h2 => absurd h2 h1, hnd⟩
    have := post2_fold hwf ht hfresh hf ih hv hpre (neighbours s0 v) [] s (fun _ h => h)
      (fun p hp => absurd hp (List.not_mem_nil)) (neighbours_pairwise hwf hf hadj hv0)
      (fun p hp => absurd hp (List.not_mem_nil)) h0 h0N herr
    rwa [List.nil_append] at this

end Trav

/-! ## `newBlock` and `createSplitBlock` -/

def pushB (st : St) (x : B) : St := { st with bs := st.bs.push x }

@[simp] theorem getV_pushB (st : St) (x : B) (j : Nat) : getV (pushB st x) j = getV st j := rfl
@[simp] theorem getC_pushB (st : St) (x : B) (j : Nat) : getC (pushB st x) j = getC st j := rfl
@[simp] theorem pushB_vs (st : St) (x : B) : (pushB st x).vs = st.vs := rfl
@[simp] theorem pushB_cs (st : St) (x : B) : (pushB st x).cs = st.cs := rfl
@[simp] theorem pushB_list (st : St) (x : B) : (pushB st x).list = st.list := rfl
@[simp] theorem pushB_inactive (st : St) (x : B) : (pushB st x).inactive = st.inactive := rfl
@[simp] theorem pushB_err (st : St) (x : B) : (pushB st x).err = st.err := rfl
@[simp] theorem pushB_bs_size (st : St) (x : B) : (pushB st x).bs.size = st.bs.size + 1 := by simp [pushB]

theorem getB_pushB (st : St) (x : B) (j : Nat) : getB (pushB st x) j = if j = st.bs.size then x else getB st j := by
  unfold getB pushB
  simp only [Array.getD_eq_getD_getElem?, Array.getElem?_push]
  by_cases h : j = st.bs.size
  · simp [h]
  · simp [h]

theorem newBlock_fst (s : St) (i : Nat) : (newBlock s i).1 =
    addVariable (pushB (setV s i { getV s i with offset := 0 })
      { vars := [], scale := (getV (setV s i { getV s i with offset := 0 }) i).s, AB := 0, AD := 0, A2 := 0, posn := 0, ind := 0 })
      s.bs.size i := rfl

theorem newBlock_snd (s : St) (i : Nat) : (newBlock s i).2 = s.bs.size := rfl

theorem newBlock_getV (s : St) (i u : Nat) (hi : i < s.vs.size) : getV (newBlock s i).1 u =
    if u = i then { getV s i with offset := 0, block := s.bs.size } else getV s u := by
  rw [newBlock_fst, getV_addVariable]
  simp only [pushB_vs, setV_vs_size, getV_pushB, getV_setV]
  by_cases h : u = i
  · subst h; simp [hi]
  · simp [h]

theorem newBlock_getB_ne (s : St) (i b' : Nat) (h : b' ≠ s.bs.size) : getB (newBlock s i).1 b' = getB s b' := by
  rw [newBlock_fst, getB_addVariable_ne _ _ _ _ h, getB_pushB, setV_bs, if_neg h, getB_setV]

theorem newBlock_vars (s : St) (i : Nat) : (getB (newBlock s i).1 s.bs.size).vars = [i] := by
  rw [newBlock_fst, getB_addVariable_vars _ _ _ (by simp), getB_pushB]
  simp

theorem newBlock_TI (s : St) (start : Nat) (hstart : start < s.vs.size) (hfresh : ∀ u, (getV s u).block ≠ s.bs.size) :
    TI s s.bs.size (getV s start).offset start (newBlock s start).1 := by
  have hV := fun u => newBlock_getV s start u hstart
  refine ⟨?_, ?_, ?_, ?_, ?_, ?_, ?_, ?_, ?_, ?_, ?_⟩
  · simp [newBlock_fst, addVariable]
  · simp [newBlock_fst, addVariable]
  · simp [newBlock_fst, addVariable]
  · simp [newBlock_fst, addVariable]
  · simp [newBlock_fst, addVariable]
  · simp [newBlock_fst, addVariable]
  · intro u
    rw [hV]
    by_cases h : u = start
    · subst h; simp
    · simp [h]
  · intro u
    rw [hV]
    by_cases h : u = start
    · subst h; right; simp
    · left; simp [h]
  · intro u hu
    rw [hV] at hu
    by_cases h : u = start
    · subst h; exact ⟨hstart, Conn.reflS _ _ _⟩
    · rw [if_neg h] at hu; exact absurd hu (hfresh u)
  · intro b' hb'
    exact newBlock_getB_ne s start b' hb'
  · intro u
    rw [newBlock_vars, hV, List.mem_singleton]
    by_cases h : u = start
    · subst h; simp
    · simp [h, hfresh u]

/-- the effect of `createSplitBlock s start` (when it does not run out of fuel) -/
structure CSB (s : St) (start : Nat) (s' : St) : Prop where
  cs_eq : s'.cs = s.cs
  vsize : s'.vs.size = s.vs.size
  bsize : s'.bs.size = s.bs.size + 1
  list_eq : s'.list = s.list
  inactive_eq : s'.inactive = s.inactive
  err0 : s.err = false
  vstat : ∀ u, (getV s' u).d = (getV s u).d ∧ (getV s' u).w = (getV s u).w ∧ (getV s' u).s = (getV s u).s ∧
    (getV s' u).cOut = (getV s u).cOut ∧ (getV s' u).cIn = (getV s u).cIn
  inC : ∀ u, Conn s none start u → u < s.vs.size ∧ (getV s' u).block = s.bs.size ∧
    (getV s' u).offset = (getV s u).offset - (getV s start).offset
  outC : ∀ u, ¬ Conn s none start u → (getV s' u).block = (getV s u).block ∧ (getV s' u).offset = (getV s u).offset
  bother : ∀ b', b' ≠ s.bs.size → getB s' b' = getB s b'
  bvars : ∀ u, u ∈ (getB s' s.bs.size).vars ↔ Conn s none start u

theorem createSplitBlock_snd (s : St) (start : Nat) : (createSplitBlock s start).2 = s.bs.size := rfl

theorem createSplitBlock_fst (s : St) (start : Nat) : (createSplitBlock s start).1 =
    populateSplitBlock (travFuel s) (newBlock s start).1 s.bs.size start none := rfl

theorem createSplitBlock_effect (s : St) (start : Nat) (hwf : WFd s) (ht : Tight s) (hstart : start < s.vs.size)
    (hfresh : ∀ u, (getV s u).block ≠ s.bs.size) (herr : (createSplitBlock s start).1.err = false) :
    CSB s start (createSplitBlock s start).1 := by
  rw [createSplitBlock_fst] at herr ⊢
  have hti := newBlock_TI s start hstart hfresh
  have hV := fun u => newBlock_getV s start u hstart
  have hvs : (getV (newBlock s start).1 start).block = s.bs.size := by rw [hV]; simp
  have hp := post1 hwf ht hfresh (travFuel s) _ start none hti hvs herr
  have hvis : ∀ u, (getV (populateSplitBlock (travFuel s) (newBlock s start).1 s.bs.size start none) u).block = s.bs.size ↔
      Conn s none start u := by
    intro u
    constructor
    · intro h; exact (hp.ti.reach u h).2
    · intro h
      induction h with
      | refl => exact hp.mono _ hvs
      | @tail y z _ hyz ih =>
        by_cases hy : y = start
        · subst hy
          obtain ⟨c, hm, ha, _, _⟩ := hwf.nb_complete hyz
          exact hp.done (c, z) hm ha (by simp)
        · refine hp.closed y ?_ ih z hyz
          rw [hV, if_neg hy]; exact hfresh y
  have herr0 : (newBlock s start).1.err = false := by
    cases hh : (newBlock s start).1.err with
    | false => rfl
    | true =>
      have := populate_err_sticky (travFuel s) _ s.bs.size start none hh
      rw [this] at herr; exact herr
  refine ⟨hp.ti.cs_eq, hp.ti.vsize, hp.ti.bsize, hp.ti.list_eq, hp.ti.inactive_eq, ?_, hp.ti.vstat, ?_, ?_, hp.ti.bother, ?_⟩
  · simpa [newBlock_fst, addVariable] using herr0
  · intro u hu
    have hb := (hvis u).2 hu
    exact ⟨(hp.ti.reach u hb).1, hb, hp.ti.off hfresh hb⟩
  · intro u hu
    rcases hp.ti.vdyn u with h | h
    · exact h
    · exact absurd ((hvis u).1 h.1) hu
  · intro u
    rw [hp.ti.bvars u, hvis u]


theorem createSplitBlock_nodup (s : St) (start : Nat) (hwf : WFd s) (ht : Tight s) (hstart : start < s.vs.size)
    (hfresh : ∀ u, (getV s u).block ≠ s.bs.size) (hf : Forest s) (hadj : AdjNodup s)
    (herr : (createSplitBlock s start).1.err = false) :
    (getB (createSplitBlock s start).1 s.bs.size).vars.Nodup := by
  rw [createSplitBlock_fst] at herr ⊢
  have hti := newBlock_TI s start hstart hfresh
  have hV := fun u => newBlock_getV s start u hstart
  have hvs : (getV (newBlock s start).1 start).block = s.bs.size := by rw [hV]; simp
  have hpre : Pre s s.bs.size (newBlock s start).1 start none := by
    intro c w hm hac _ u hu hub
    obtain ⟨hc, _, hlr⟩ := hwf.nb_sound hstart hm
    have hedge : IsEdge s c start w := ⟨hc, hac, hlr⟩
    rw [hV] at hub
    by_cases h : u = start
    · subst h; exact hedge.bridge hf hu.symmS
    · rw [if_neg h] at hub; exact hfresh u hub
  have hnd : (getB (newBlock s start).1 s.bs.size).vars.Nodup := by rw [newBlock_vars]; simp
  exact (post2 hwf ht hfresh hf hadj (travFuel s) _ start none hti hvs hpre hnd herr).n2

theorem conn_monoS {s s' : St} {x x' : Option Nat} (h : ∀ u v, Adj s x u v → Adj s' x' u v) {u v : Nat}
    (hc : Conn s x u v) : Conn s' x' u v := by
  induction hc with
  | refl => exact Relation.ReflTransGen.refl
  | tail _ hyz ih => exact Relation.ReflTransGen.tail ih (h _ _ hyz)

theorem adj_of_cs_eq {s s' : St} (h : s'.cs = s.cs) (x : Option Nat) (u v : Nat) : Adj s' x u v ↔ Adj s x u v := by
  unfold Adj getC; rw [h]

theorem conn_of_cs_eq {s s' : St} (h : s'.cs = s.cs) (x : Option Nat) (u v : Nat) : Conn s' x u v ↔ Conn s x u v :=
  ⟨conn_monoS (fun u v => (adj_of_cs_eq h x u v).1), conn_monoS (fun u v => (adj_of_cs_eq h x u v).2)⟩

theorem getC_of_cs_eq {s s' : St} (h : s'.cs = s.cs) (c : Nat) : getC s' c = getC s c := by
  unfold getC; rw [h]

theorem createSplitBlock_err_sticky (s : St) (start : Nat) (h : s.err = true) : (createSplitBlock s start).1.err = true := by
  rw [createSplitBlock_fst]
  apply populate_err_sticky
  simpa [newBlock_fst, addVariable] using h

theorem CSB.wfd {s s' : St} {start : Nat} (h : CSB s start s') (hwf : WFd s) : WFd s' := by
  have hc := getC_of_cs_eq h.cs_eq
  have hsz : s'.cs.size = s.cs.size := by rw [h.cs_eq]
  refine ⟨?_, ?_, ?_, ?_, ?_⟩
  · intro c hcl; rw [hc, h.vsize]; exact hwf.lr c (hsz ▸ hcl)
  · intro c hcl; rw [hc, (h.vstat _).2.2.2.1]; exact hwf.out_mem c (hsz ▸ hcl)
  · intro c hcl; rw [hc, (h.vstat _).2.2.2.2]; exact hwf.in_mem c (hsz ▸ hcl)
  · intro v hv c hcm
    rw [(h.vstat _).2.2.2.1] at hcm
    rw [hc, hsz]; exact hwf.out_sound v (h.vsize ▸ hv) c hcm
  · intro v hv c hcm
    rw [(h.vstat _).2.2.2.2] at hcm
    rw [hc, hsz]; exact hwf.in_sound v (h.vsize ▸ hv) c hcm

theorem CSB.tight {s s' : St} {start : Nat} (h : CSB s start s') (ht : Tight s) : Tight s' := by
  intro c hcl hact
  have hc := getC_of_cs_eq h.cs_eq c
  have hsz : s'.cs.size = s.cs.size := by rw [h.cs_eq]
  rw [hc] at hact ⊢
  rw [hsz] at hcl
  have htc := ht c hcl hact
  have hadj : Adj s none (getC s c).l (getC s c).r := ⟨c, hcl, by simp, hact, Or.inl ⟨rfl, rfl⟩⟩
  by_cases hl : Conn s none start (getC s c).l
  · have hr : Conn s none start (getC s c).r := hl.trans hadj.connS
    rw [(h.inC _ hl).2.2, (h.inC _ hr).2.2]; linarith
  · have hr : ¬ Conn s none start (getC s c).r := fun hr => hl (hr.trans hadj.symmS.connS)
    rw [(h.outC _ hl).2, (h.outC _ hr).2]; exact htc

/-- description of the state after `blockSplit st ci` in terms of `st` -/
structure SplitDesc (st : St) (ci : Nat) (s' : St) : Prop where
  csize : s'.cs.size = st.cs.size
  vsize : s'.vs.size = st.vs.size
  bsize : s'.bs.size = st.bs.size + 2
  inactive_eq : s'.inactive = st.inactive
  err0 : st.err = false
  cstat : ∀ c, (getC s' c).l = (getC st c).l ∧ (getC s' c).r = (getC st c).r ∧ (getC s' c).g = (getC st c).g ∧
    (getC s' c).unsat = (getC st c).unsat ∧ (c ≠ ci → (getC s' c).active = (getC st c).active)
  cact : (getC s' ci).active = false
  vstat : ∀ u, (getV s' u).d = (getV st u).d ∧ (getV s' u).w = (getV st u).w ∧ (getV s' u).s = (getV st u).s ∧
    (getV s' u).cOut = (getV st u).cOut ∧ (getV s' u).cIn = (getV st u).cIn
  adj_none : ∀ u v, Adj s' none u v ↔ Adj st (some ci) u v
  adj_mono : ∀ x u v, Adj s' x u v → Adj st x u v
  inL : ∀ u, Conn st (some ci) (getC st ci).l u → u < st.vs.size ∧ (getV s' u).block = st.bs.size ∧
    (getV s' u).offset = (getV st u).offset - (getV st (getC st ci).l).offset
  inR : ∀ u, Conn st (some ci) (getC st ci).r u → u < st.vs.size ∧ (getV s' u).block = st.bs.size + 1 ∧
    (getV s' u).offset = (getV st u).offset - (getV st (getC st ci).r).offset
  out : ∀ u, ¬ Conn st (some ci) (getC st ci).l u → ¬ Conn st (some ci) (getC st ci).r u →
    (getV s' u).block = (getV st u).block ∧ (getV s' u).offset = (getV st u).offset
  bother : ∀ b', b' ≠ st.bs.size → b' ≠ st.bs.size + 1 → getB s' b' = getB st b'
  varsL : ∀ u, u ∈ (getB s' st.bs.size).vars ↔ Conn st (some ci) (getC st ci).l u
  varsR : ∀ u, u ∈ (getB s' (st.bs.size + 1)).vars ↔ Conn st (some ci) (getC st ci).r u
  ndL : AdjNodup st → (getB s' st.bs.size).vars.Nodup
  ndR : AdjNodup st → (getB s' (st.bs.size + 1)).vars.Nodup

theorem getV_geS (st : St) (u : Nat) (h : st.vs.size ≤ u) : getV st u = default := by
  unfold getV
  simp [Array.getD, Nat.not_lt.2 h]

theorem Inv.block_lt_all {st : St} (hinv : Inv st) {v0 : Nat} (hv0 : v0 < st.vs.size) (u : Nat) :
    (getV st u).block < st.bs.size := by
  by_cases hu : u < st.vs.size
  · exact hinv.wf.block_lt u hu
  · rw [getV_geS st u (Nat.not_lt.1 hu)]
    exact Nat.lt_of_le_of_lt (Nat.zero_le _) (hinv.wf.block_lt v0 hv0)

theorem blockSplit_fst (st : St) (ci : Nat) : (blockSplit st ci).1 =
    (createSplitBlock (createSplitBlock (setC st ci { getC st ci with active := false })
      (getC (setC st ci { getC st ci with active := false }) ci).l).1
      (getC (setC st ci { getC st ci with active := false }) ci).r).1 := by
  simp only [blockSplit]

theorem blockSplit_desc (st : St) (ci : Nat) (hinv : Inv st) (hci : ci < st.cs.size)
    (ha : (getC st ci).active = true) (herr : (blockSplit st ci).1.err = false) :
    SplitDesc st ci (blockSplit st ci).1 := by
  rw [blockSplit_fst] at herr ⊢
  have hC0 : ∀ c, getC (setC st ci { getC st ci with active := false }) c =
      if c = ci then { getC st ci with active := false } else getC st c := by
    intro c; rw [getC_setC]
    by_cases h : c = ci
    · rw [if_pos ⟨h, hci⟩, if_pos h]
    · rw [if_neg (fun hh => h hh.1), if_neg h]
  have hl0 : (getC (setC st ci { getC st ci with active := false }) ci).l = (getC st ci).l := by rw [hC0, if_pos rfl]
  have hr0 : (getC (setC st ci { getC st ci with active := false }) ci).r = (getC st ci).r := by rw [hC0, if_pos rfl]
  rw [hl0, hr0] at herr ⊢
  generalize hs0 : setC st ci { getC st ci with active := false } = s0 at *
  have hV0 : ∀ u, getV s0 u = getV st u := by intro u; rw [← hs0]; rfl
  have hB0 : ∀ b', getB s0 b' = getB st b' := by intro u; rw [← hs0]; rfl
  have hsz0 : s0.cs.size = st.cs.size := by rw [← hs0]; simp
  have hvs0 : s0.vs.size = st.vs.size := by rw [← hs0]; rfl
  have hbs0 : s0.bs.size = st.bs.size := by rw [← hs0]; rfl
  have hcs : ∀ c, (getC s0 c).l = (getC st c).l ∧ (getC s0 c).r = (getC st c).r ∧ (getC s0 c).g = (getC st c).g ∧
      (getC s0 c).unsat = (getC st c).unsat ∧ (c ≠ ci → (getC s0 c).active = (getC st c).active) := by
    intro c; rw [hC0]
    by_cases h : c = ci
    · subst h; simp
    · simp [h]
  have hact0 : (getC s0 ci).active = false := by rw [hC0, if_pos rfl]
  have hadjm : ∀ x u v, Adj s0 x u v → Adj st x u v := by
    rintro x u v ⟨c, hc, hx, hac, hlr⟩
    have hne : c ≠ ci := by rintro rfl; rw [hact0] at hac; exact Bool.noConfusion hac
    rw [(hcs c).1, (hcs c).2.1] at hlr
    rw [(hcs c).2.2.2.2 hne] at hac
    exact ⟨c, hsz0 ▸ hc, hx, hac, hlr⟩
  have hadjn : ∀ u v, Adj s0 none u v ↔ Adj st (some ci) u v := by
    intro u v
    constructor
    · rintro ⟨c, hc, hx, hac, hlr⟩
      have hne : c ≠ ci := by rintro rfl; rw [hact0] at hac; exact Bool.noConfusion hac
      rw [(hcs c).1, (hcs c).2.1] at hlr
      rw [(hcs c).2.2.2.2 hne] at hac
      exact ⟨c, hsz0 ▸ hc, by simpa using hne, hac, hlr⟩
    · rintro ⟨c, hc, hx, hac, hlr⟩
      have hne : c ≠ ci := by simpa using hx
      rw [← (hcs c).1, ← (hcs c).2.1] at hlr
      rw [← (hcs c).2.2.2.2 hne] at hac
      exact ⟨c, hsz0.symm ▸ hc, by simp, hac, hlr⟩
  have hconn0 : ∀ u v, Conn s0 none u v ↔ Conn st (some ci) u v := fun u v =>
    ⟨conn_monoS (fun u v => (hadjn u v).1), conn_monoS (fun u v => (hadjn u v).2)⟩
  have hwf0 : WFd s0 := by
    have hw := hinv.wf
    refine ⟨?_, ?_, ?_, ?_, ?_⟩
    · intro c hc; rw [(hcs c).1, (hcs c).2.1, hvs0]; exact hw.lr c (hsz0 ▸ hc)
    · intro c hc; rw [(hcs c).1, hV0]; exact hw.out_mem c (hsz0 ▸ hc)
    · intro c hc; rw [(hcs c).2.1, hV0]; exact hw.in_mem c (hsz0 ▸ hc)
    · intro v hv c hcm; rw [hV0] at hcm; rw [(hcs c).1, hsz0]; exact hw.out_sound v (hvs0 ▸ hv) c hcm
    · intro v hv c hcm; rw [hV0] at hcm; rw [(hcs c).2.1, hsz0]; exact hw.in_sound v (hvs0 ▸ hv) c hcm
  have ht0 : Tight s0 := by
    intro c hc hac
    have hne : c ≠ ci := by rintro rfl; rw [hact0] at hac; exact Bool.noConfusion hac
    rw [(hcs c).2.2.2.2 hne] at hac
    rw [(hcs c).1, (hcs c).2.1, (hcs c).2.2.1, hV0, hV0]
    exact hinv.tight c (hsz0 ▸ hc) hac
  obtain ⟨hl, hr⟩ := hinv.wf.lr ci hci
  have hblt : ∀ u, (getV st u).block < st.bs.size := hinv.block_lt_all hl
  -- first traversal
  have herr1 : (createSplitBlock s0 (getC st ci).l).1.err = false := by
    cases hh : (createSplitBlock s0 (getC st ci).l).1.err with
    | false => rfl
    | true => rw [createSplitBlock_err_sticky _ _ hh] at herr; exact herr
  have h1 := createSplitBlock_effect s0 (getC st ci).l hwf0 ht0 (hvs0 ▸ hl)
    (fun u => by rw [hV0, hbs0]; exact Nat.ne_of_lt (hblt u)) herr1
  have hf0 : Forest s0 := by
    intro c hc hac
    have hne : c ≠ ci := by rintro rfl; rw [hact0] at hac; exact Bool.noConfusion hac
    rw [(hcs c).2.2.2.2 hne] at hac
    rw [(hcs c).1, (hcs c).2.1]
    exact fun h => hinv.forest c (hsz0 ▸ hc) hac (conn_monoS (hadjm (some c)) h)
  have hadj0 : AdjNodup st → AdjNodup s0 := by
    intro h v hv; rw [hV0]; exact h v (hvs0 ▸ hv)
  have hnd1 : AdjNodup st → (getB (createSplitBlock s0 (getC st ci).l).1 s0.bs.size).vars.Nodup := fun h =>
    createSplitBlock_nodup s0 (getC st ci).l hwf0 ht0 (hvs0 ▸ hl)
      (fun u => by rw [hV0, hbs0]; exact Nat.ne_of_lt (hblt u)) hf0 (hadj0 h) herr1
  generalize (createSplitBlock s0 (getC st ci).l).1 = s1 at *
  have hwf1 := h1.wfd hwf0
  have ht1 := h1.tight ht0
  have hfresh1 : ∀ u, (getV s1 u).block ≠ s1.bs.size := by
    intro u
    rw [h1.bsize, hbs0]
    by_cases hu : Conn s0 none (getC st ci).l u
    · rw [(h1.inC u hu).2.1, hbs0]; exact Nat.ne_of_lt (Nat.lt_succ_self _)
    · rw [(h1.outC u hu).1, hV0]; exact Nat.ne_of_lt (Nat.lt_succ_of_lt (hblt u))
  have h2 := createSplitBlock_effect s1 (getC st ci).r hwf1 ht1 (by rw [h1.vsize, hvs0]; exact hr) hfresh1 herr
  have hf1 : Forest s1 := by
    intro c hc hac
    rw [getC_of_cs_eq h1.cs_eq] at hac ⊢
    rw [conn_of_cs_eq h1.cs_eq]
    exact hf0 c (by rw [← h1.cs_eq]; exact hc) hac
  have hadj1 : AdjNodup st → AdjNodup s1 := by
    intro h v hv
    rw [(h1.vstat v).2.2.2.1, (h1.vstat v).2.2.2.2]
    exact hadj0 h v (h1.vsize ▸ hv)
  have hnd2 : AdjNodup st → (getB (createSplitBlock s1 (getC st ci).r).1 s1.bs.size).vars.Nodup := fun h =>
    createSplitBlock_nodup s1 (getC st ci).r hwf1 ht1 (by rw [h1.vsize, hvs0]; exact hr) hfresh1 hf1 (hadj1 h) herr
  generalize (createSplitBlock s1 (getC st ci).r).1 = s2 at *
  have hconn1 : ∀ u v, Conn s1 none u v ↔ Conn st (some ci) u v := fun u v =>
    (conn_of_cs_eq h1.cs_eq none u v).trans (hconn0 u v)
  have hdisj : ∀ u, Conn st (some ci) (getC st ci).l u → Conn st (some ci) (getC st ci).r u → False :=
    fun u h1' h2' => hinv.forest ci hci ha (h1'.trans h2'.symmS)
  have hgc2 : ∀ c, getC s2 c = getC s0 c := fun c => (getC_of_cs_eq h2.cs_eq c).trans (getC_of_cs_eq h1.cs_eq c)
  refine ⟨?_, ?_, ?_, ?_, ?_, ?_, ?_, ?_, ?_, ?_, ?_, ?_, ?_, ?_, ?_, ?_, ?_, ?_⟩
  · rw [h2.cs_eq, h1.cs_eq, hsz0]
  · rw [h2.vsize, h1.vsize, hvs0]
  · rw [h2.bsize, h1.bsize, hbs0]
  · rw [h2.inactive_eq, h1.inactive_eq, ← hs0]; rfl
  · have := h1.err0; rw [← hs0] at this; exact this
  · intro c; rw [hgc2]; exact hcs c
  · rw [hgc2]; exact hact0
  · intro u
    obtain ⟨a1, a2, a3, a4, a5⟩ := h2.vstat u
    obtain ⟨b1, b2, b3, b4, b5⟩ := h1.vstat u
    rw [hV0] at b1 b2 b3 b4 b5
    exact ⟨a1.trans b1, a2.trans b2, a3.trans b3, a4.trans b4, a5.trans b5⟩
  · intro u v
    rw [adj_of_cs_eq h2.cs_eq, adj_of_cs_eq h1.cs_eq]; exact hadjn u v
  · intro x u v h
    rw [adj_of_cs_eq h2.cs_eq, adj_of_cs_eq h1.cs_eq] at h; exact hadjm x u v h
  · intro u hu
    have hnr : ¬ Conn s1 none (getC st ci).r u := fun h => hdisj u hu ((hconn1 _ _).1 h)
    obtain ⟨e1, e2⟩ := h2.outC u hnr
    obtain ⟨f1, f2, f3⟩ := h1.inC u ((hconn0 _ _).2 hu)
    rw [hV0, hV0] at f3
    exact ⟨hvs0 ▸ f1, by rw [e1, f2, hbs0], by rw [e2, f3]⟩
  · intro u hu
    have hnl : ¬ Conn s0 none (getC st ci).l u := fun h => hdisj u ((hconn0 _ _).1 h) hu
    have hnlr : ¬ Conn s0 none (getC st ci).l (getC st ci).r := fun h => hinv.forest ci hci ha ((hconn0 _ _).1 h)
    obtain ⟨f1, f2, f3⟩ := h2.inC u ((hconn1 _ _).2 hu)
    rw [(h1.outC u hnl).2, (h1.outC _ hnlr).2, hV0, hV0] at f3
    rw [h1.vsize, hvs0] at f1
    exact ⟨f1, by rw [f2, h1.bsize, hbs0], f3⟩
  · intro u hnl hnr
    obtain ⟨e1, e2⟩ := h2.outC u (fun h => hnr ((hconn1 _ _).1 h))
    obtain ⟨f1, f2⟩ := h1.outC u (fun h => hnl ((hconn0 _ _).1 h))
    rw [hV0] at f1 f2
    exact ⟨e1.trans f1, e2.trans f2⟩
  · intro b' hb1 hb2
    rw [h2.bother b' (by rw [h1.bsize, hbs0]; exact hb2), h1.bother b' (by rw [hbs0]; exact hb1), hB0]
  · intro u
    rw [h2.bother _ (by rw [h1.bsize, hbs0]; exact Nat.ne_of_lt (Nat.lt_succ_self _)), ← hbs0, h1.bvars u, hconn0]
  · intro u
    have := h2.bvars u
    rw [h1.bsize, hbs0] at this
    rw [this, hconn1]
  · intro h
    rw [h2.bother _ (by rw [h1.bsize, hbs0]; exact Nat.ne_of_lt (Nat.lt_succ_self _)), ← hbs0]
    exact hnd1 h
  · intro h
    have := hnd2 h
    rw [h1.bsize, hbs0] at this
    exact this


/-- the component of `l` splits into the two components of `l` and `r` when the constraint `ci` is removed -/
theorem conn_cover {st : St} {ci u : Nat} (h : Conn st none (getC st ci).l u) :
    Conn st (some ci) (getC st ci).l u ∨ Conn st (some ci) (getC st ci).r u := by
  induction h with
  | refl => exact Or.inl (Conn.reflS _ _ _)
  | @tail y z _ hyz ih =>
    obtain ⟨c, hc, hx, hac, hlr⟩ := hyz
    by_cases hce : c = ci
    · subst hce
      rcases hlr with ⟨_, h2⟩ | ⟨h1, _⟩
      · right; rw [h2]; exact Conn.reflS _ _ _
      · left; rw [h1]; exact Conn.reflS _ _ _
    · have hadj : Adj st (some ci) y z := ⟨c, hc, by simpa using hce, hac, hlr⟩
      rcases ih with ih | ih
      · exact Or.inl (ih.trans hadj.connS)
      · exact Or.inr (ih.trans hadj.connS)

theorem blockSplit_inv (st : St) (ci : Nat) (hinv : Inv st) (hci : ci < st.cs.size)
    (ha : (getC st ci).active = true) (herr : (blockSplit st ci).1.err = false) :
    Inv (blockSplit st ci).1 ∧ Frame st (blockSplit st ci).1 ∧ (blockSplit st ci).1.inactive = st.inactive ∧
    (getC (blockSplit st ci).1 ci).active = false ∧
    (∀ c, c ≠ ci → (getC (blockSplit st ci).1 c).active = (getC st c).active) ∧
    (∀ c, (getC (blockSplit st ci).1 c).unsat = (getC st c).unsat) ∧
    (∀ u v, Conn (blockSplit st ci).1 none u v ↔ Conn st (some ci) u v) := by
  have D := blockSplit_desc st ci hinv hci ha herr
  generalize (blockSplit st ci).1 = s' at *
  have hw := hinv.wf
  obtain ⟨hl, hr⟩ := hw.lr ci hci
  have hblt : ∀ u, (getV st u).block < st.bs.size := hinv.block_lt_all hl
  have hconn : ∀ u v, Conn s' none u v ↔ Conn st (some ci) u v := fun u v =>
    ⟨conn_monoS (fun u v => (D.adj_none u v).1), conn_monoS (fun u v => (D.adj_none u v).2)⟩
  have hdisj : ∀ u, Conn st (some ci) (getC st ci).l u → Conn st (some ci) (getC st ci).r u → False :=
    fun u h1' h2' => hinv.forest ci hci ha (h1'.trans h2'.symmS)
  have hadjlr : Adj st none (getC st ci).l (getC st ci).r := ⟨ci, hci, by simp, ha, Or.inl ⟨rfl, rfl⟩⟩
  have tri : ∀ u, (Conn st (some ci) (getC st ci).l u ∧ ¬ Conn st (some ci) (getC st ci).r u ∧
        (getV s' u).block = st.bs.size) ∨
      (Conn st (some ci) (getC st ci).r u ∧ ¬ Conn st (some ci) (getC st ci).l u ∧
        (getV s' u).block = st.bs.size + 1) ∨
      (¬ Conn st (some ci) (getC st ci).l u ∧ ¬ Conn st (some ci) (getC st ci).r u ∧
        (getV s' u).block = (getV st u).block ∧ (getV st u).block < st.bs.size) := by
    intro u
    by_cases h1 : Conn st (some ci) (getC st ci).l u
    · exact Or.inl ⟨h1, fun h2 => hdisj u h1 h2, (D.inL u h1).2.1⟩
    · by_cases h2 : Conn st (some ci) (getC st ci).r u
      · exact Or.inr (Or.inl ⟨h2, h1, (D.inR u h2).2.1⟩)
      · exact Or.inr (Or.inr ⟨h1, h2, (D.out u h1 h2).1, hblt u⟩)
  -- a variable outside both new components is not connected (in the old graph) to one inside
  have hsepL : ∀ u v, Conn st (some ci) (getC st ci).l u → Conn st none u v →
      Conn st (some ci) (getC st ci).l v ∨ Conn st (some ci) (getC st ci).r v :=
    fun u v h1 h2 => conn_cover (h1.to_noneS.trans h2)
  have hsepR : ∀ u v, Conn st (some ci) (getC st ci).r u → Conn st none u v →
      Conn st (some ci) (getC st ci).l v ∨ Conn st (some ci) (getC st ci).r v :=
    fun u v h1 h2 => conn_cover (hadjlr.connS.trans (h1.to_noneS.trans h2))
  have hcomps : ∀ u v, u < st.vs.size → v < st.vs.size →
      ((getV s' u).block = (getV s' v).block ↔ Conn st (some ci) u v) := by
    intro u v hu hv
    rcases tri u with ⟨a1, a2, a3⟩ | ⟨a1, a2, a3⟩ | ⟨a1, a2, a3, a4⟩ <;>
      rcases tri v with ⟨b1, b2, b3⟩ | ⟨b1, b2, b3⟩ | ⟨b1, b2, b3, b4⟩
    · exact ⟨fun _ => a1.symmS.trans b1, fun _ => by rw [a3, b3]⟩
    · exact ⟨fun h => by omega, fun h => absurd (a1.trans h) b2⟩
    · exact ⟨fun h => by omega, fun h => absurd (a1.trans h) b1⟩
    · exact ⟨fun h => by omega, fun h => absurd (a1.trans h) b2⟩
    · exact ⟨fun _ => a1.symmS.trans b1, fun _ => by rw [a3, b3]⟩
    · exact ⟨fun h => by omega, fun h => absurd (a1.trans h) b2⟩
    · exact ⟨fun h => by omega, fun h => absurd (b1.trans h.symmS) a1⟩
    · exact ⟨fun h => by omega, fun h => absurd (b1.trans h.symmS) a2⟩
    · rw [a3, b3, hinv.comps u v hu hv]
      constructor
      · intro h
        rcases conn_cases h ci with h' | ⟨h', _⟩
        · exact h'
        · rcases conn_cover h'.symmS with h'' | h''
          · exact absurd h'' a1
          · exact absurd h'' a2
      · exact Conn.to_noneS
  have hcst : ∀ c, (getC s' c).l = (getC st c).l ∧ (getC s' c).r = (getC st c).r ∧ (getC s' c).g = (getC st c).g :=
    fun c => ⟨(D.cstat c).1, (D.cstat c).2.1, (D.cstat c).2.2.1⟩
  have hactive : ∀ c, (getC s' c).active = true → c ≠ ci ∧ (getC st c).active = true := by
    intro c hc
    have hne : c ≠ ci := by rintro rfl; rw [D.cact] at hc; exact Bool.noConfusion hc
    exact ⟨hne, by rw [← (D.cstat c).2.2.2.2 hne]; exact hc⟩
  have hframe : Frame st s' := by
    refine ⟨D.vsize, D.csize, by rw [D.bsize]; omega, D.vstat, hcst, ?_⟩
    intro h; rw [D.err0] at h; exact Bool.noConfusion h
  refine ⟨⟨⟨?_, ?_, ?_, ?_, ?_, ?_, ?_, ?_⟩, ?_, ?_, ?_, ?_⟩, hframe, D.inactive_eq, D.cact,
    fun c hc => (D.cstat c).2.2.2.2 hc, fun c => (D.cstat c).2.2.2.1, hconn⟩
  · intro c hc; rw [(hcst c).1, (hcst c).2.1, D.vsize]; exact hw.lr c (D.csize ▸ hc)
  · intro c hc; rw [(hcst c).1, (D.vstat _).2.2.2.1]; exact hw.out_mem c (D.csize ▸ hc)
  · intro c hc; rw [(hcst c).2.1, (D.vstat _).2.2.2.2]; exact hw.in_mem c (D.csize ▸ hc)
  · intro v hv c hcm; rw [(D.vstat _).2.2.2.1] at hcm; rw [(hcst c).1, D.csize]; exact hw.out_sound v (D.vsize ▸ hv) c hcm
  · intro v hv c hcm; rw [(D.vstat _).2.2.2.2] at hcm; rw [(hcst c).2.1, D.csize]; exact hw.in_sound v (D.vsize ▸ hv) c hcm
  · intro v hv; rw [(D.vstat v).2.2.1]; exact hw.scale_ne v (D.vsize ▸ hv)
  · intro v hv
    rw [D.bsize]
    rcases tri v with ⟨_, _, a3⟩ | ⟨_, _, a3⟩ | ⟨_, _, a3, a4⟩ <;> omega
  · intro c hc; rw [D.inactive_eq] at hc; rw [D.csize]; exact hw.inactive_lt c hc
  · -- tight
    intro c hc hac
    obtain ⟨hne, hac'⟩ := hactive c hac
    rw [D.csize] at hc
    rw [(hcst c).1, (hcst c).2.1, (hcst c).2.2]
    have htc := hinv.tight c hc hac'
    have hadj : Adj st (some ci) (getC st c).l (getC st c).r := ⟨c, hc, by simpa using hne, hac', Or.inl ⟨rfl, rfl⟩⟩
    by_cases h1 : Conn st (some ci) (getC st ci).l (getC st c).l
    · rw [(D.inL _ h1).2.2, (D.inL _ (h1.trans hadj.connS)).2.2]; linarith
    · by_cases h2 : Conn st (some ci) (getC st ci).r (getC st c).l
      · rw [(D.inR _ h2).2.2, (D.inR _ (h2.trans hadj.connS)).2.2]; linarith
      · have h1' : ¬ Conn st (some ci) (getC st ci).l (getC st c).r := fun h => h1 (h.trans hadj.symmS.connS)
        have h2' : ¬ Conn st (some ci) (getC st ci).r (getC st c).r := fun h => h2 (h.trans hadj.symmS.connS)
        rw [(D.out _ h1 h2).2, (D.out _ h1' h2').2]; exact htc
  · -- comps
    intro u v hu hv
    rw [D.vsize] at hu hv
    rw [hconn]; exact hcomps u v hu hv
  · -- forest
    intro c hc hac
    obtain ⟨_, hac'⟩ := hactive c hac
    rw [(hcst c).1, (hcst c).2.1]
    exact fun h => hinv.forest c (D.csize ▸ hc) hac' (conn_monoS (D.adj_mono (some c)) h)
  · -- members
    intro v hv u
    rw [D.vsize] at hv ⊢
    rcases tri v with ⟨a1, a2, a3⟩ | ⟨a1, a2, a3⟩ | ⟨a1, a2, a3, a4⟩
    · rw [a3, D.varsL]
      constructor
      · intro h; exact ⟨(D.inL u h).1, (D.inL u h).2.1⟩
      · rintro ⟨_, h⟩
        rcases tri u with ⟨b1, _, _⟩ | ⟨_, _, b3⟩ | ⟨_, _, b3, b4⟩
        · exact b1
        · omega
        · omega
    · rw [a3, D.varsR]
      constructor
      · intro h; exact ⟨(D.inR u h).1, (D.inR u h).2.1⟩
      · rintro ⟨_, h⟩
        rcases tri u with ⟨_, _, b3⟩ | ⟨b1, _, _⟩ | ⟨_, _, b3, b4⟩
        · omega
        · exact b1
        · omega
    · rw [a3, D.bother _ (Nat.ne_of_lt a4) (Nat.ne_of_lt (Nat.lt_succ_of_lt a4)), hinv.members v hv u]
      constructor
      · rintro ⟨hu, hb⟩
        refine ⟨hu, ?_⟩
        have hcuv := (hinv.comps u v hu hv).1 hb
        rcases tri u with ⟨b1, _, _⟩ | ⟨b1, _, _⟩ | ⟨_, _, b3, _⟩
        · rcases hsepL u v b1 hcuv with h | h
          · exact absurd h a1
          · exact absurd h a2
        · rcases hsepR u v b1 hcuv with h | h
          · exact absurd h a1
          · exact absurd h a2
        · rw [b3]; exact hb
      · rintro ⟨hu, hb⟩
        refine ⟨hu, ?_⟩
        rcases tri u with ⟨_, _, b3⟩ | ⟨_, _, b3⟩ | ⟨_, _, b3, _⟩
        · omega
        · omega
        · rw [← b3]; exact hb


/-! ## `findPath` -/

def pick (st : St) (c w : Nat) (m' : Option Nat) : Option Nat :=
  if (getC st c).r == w then
    (match m' with
     | none => some c
     | some mi => if (getC st c).lm < (getC st mi).lm then some c else some mi)
  else m'

def onSub (st : St) (c w : Nat) (sub : Option (Bool × Option Nat)) : Option (Bool × Option Nat) :=
  match sub with
  | none => none
  | some (false, m') => some (false, m')
  | some (true, m') => some (true, pick st c w m')

def fstep (fuel : Nat) (st : St) (v : Nat) (prev : Option Nat) (tgt : Nat) (acc : Option (Bool × Option Nat))
    (p : Nat × Nat) : Option (Bool × Option Nat) :=
  match acc with
  | none => none
  | some (found, m) =>
    if (getC st p.1).active && prev != some p.2 then
      if found then some (found, m)
      else onSub st p.1 p.2 (if p.2 == tgt then some (true, m) else findPath fuel st m p.2 (some v) tgt)
    else some (found, m)

theorem findPath_succ (fuel : Nat) (st : St) (m : Option Nat) (v : Nat) (prev : Option Nat) (tgt : Nat) :
    findPath (fuel + 1) st m v prev tgt = (neighbours st v).foldl (fstep fuel st v prev tgt) (some (false, m)) := rfl

theorem pick_cases (st : St) (c w : Nat) (m' : Option Nat) : pick st c w m' = m' ∨ pick st c w m' = some c := by
  unfold pick
  split
  · split
    · exact Or.inr rfl
    · split
      · exact Or.inr rfl
      · exact Or.inl rfl
  · exact Or.inl rfl


theorem foldl_invS {α β : Type} (P : β → Prop) (f : β → α → β) :
    ∀ (l : List α) (a : β), P a → (∀ a x, x ∈ l → P a → P (f a x)) → P (l.foldl f a) := by
  intro l
  induction l with
  | nil => intro a h _; exact h
  | cons x l ih =>
    intro a h hf
    exact ih _ (hf a x (List.mem_cons_self ..) h) (fun a y hy => hf a y (List.mem_cons_of_mem _ hy))

def GoodM (st : St) (m m' : Option Nat) (v tgt : Nat) : Prop :=
  m' = m ∨ ∃ e, m' = some e ∧ e < st.cs.size ∧ (getC st e).active = true ∧ ¬ Conn st (some e) v tgt

def FP (st : St) (m : Option Nat) (v : Nat) (prev : Option Nat) (tgt : Nat) (res : Option (Bool × Option Nat)) : Prop :=
  ∀ fo m', res = some (fo, m') → (fo = false → m' = m) ∧
    (fo = true → GoodM st m m' v tgt ∧ ∀ p e, prev = some p → IsEdge st e p v → Conn st (some e) v tgt)

theorem found_step {st : St} (hinv : Inv st) {v c w tgt : Nat} {prev : Option Nat} {m m1 : Option Nat}
    (hc : IsEdge st c v w) (hprev : prev ≠ some w) (hcw : Conn st (some c) w tgt) (hA1 : GoodM st m m1 w tgt) :
    GoodM st m (pick st c w m1) v tgt ∧ ∀ p e, prev = some p → IsEdge st e p v → Conn st (some e) v tgt := by
  have hbr := hc.bridge hinv.forest
  constructor
  · rcases pick_cases st c w m1 with h | h
    · rw [h]
      rcases hA1 with h1 | ⟨e1, h1, h2, h3, h4⟩
      · exact Or.inl h1
      · refine Or.inr ⟨e1, h1, h2, h3, fun hcon => ?_⟩
        have hne : c ≠ e1 := by rintro rfl; exact h4 hcw
        have hadj : Adj st (some e1) v w := hc.adj (by simpa using hne)
        exact h4 (hadj.symmS.connS.trans hcon)
    · rw [h]
      exact Or.inr ⟨c, rfl, hc.1, hc.2.1, fun hcon => hbr (hcon.trans hcw.symmS)⟩
  · intro p e hp he
    have hne : c ≠ e := by
      rintro rfl
      apply hprev
      rw [hp]
      congr 1
      rcases hc.2.2 with ⟨a1, a2⟩ | ⟨a1, a2⟩ <;> rcases he.2.2 with ⟨b1, b2⟩ | ⟨b1, b2⟩ <;> omega
    have hadj : Adj st (some e) v w := hc.adj (by simpa using hne)
    rcases conn_cases hcw e with h | ⟨h1, h2⟩
    · exact hadj.connS.trans h
    · exfalso
      rcases he.2.2 with ⟨_, b2⟩ | ⟨b1, _⟩
      · rw [b2] at h2; exact hbr h2.symmS
      · rw [b1] at h1; exact hbr h1.symmS

theorem fstep_FP {st : St} (hinv : Inv st) {fuel : Nat}
    (ih : ∀ m v prev tgt, v < st.vs.size → FP st m v prev tgt (findPath fuel st m v prev tgt))
    {m : Option Nat} {v : Nat} {prev : Option Nat} {tgt : Nat} (hv : v < st.vs.size)
    {acc : Option (Bool × Option Nat)} (hacc : FP st m v prev tgt acc) {x : Nat × Nat} (hx : x ∈ neighbours st v) :
    FP st m v prev tgt (fstep fuel st v prev tgt acc x) := by
  obtain ⟨c, w⟩ := x
  unfold fstep
  cases acc with
  | none => intro fo m' h; cases h
  | some a =>
    obtain ⟨found, ma⟩ := a
    simp only
    by_cases hcond : ((getC st c).active && prev != some w) = true
    · rw [if_pos hcond]
      rw [Bool.and_eq_true, bne_iff_ne] at hcond
      obtain ⟨hact, hprev⟩ := hcond
      cases found with
      | true => rw [if_pos rfl]; exact hacc
      | false =>
        simp only [Bool.false_eq_true, if_false]
        have hma : ma = m := (hacc false ma rfl).1 rfl
        subst hma
        obtain ⟨hc, hw, hlr⟩ := hinv.wf.toWFd.nb_sound hv hx
        have hedge : IsEdge st c v w := ⟨hc, hact, hlr⟩
        by_cases hwt : w = tgt
        · subst hwt
          rw [beq_self_eq_true, if_pos rfl]
          intro fo m' h
          simp only [onSub, Option.some.injEq, Prod.mk.injEq] at h
          obtain ⟨rfl, rfl⟩ := h
          exact ⟨fun h => Bool.noConfusion h, fun _ => found_step hinv hedge hprev (Conn.reflS _ _ _) (Or.inl rfl)⟩
        · have : (w == tgt) = false := by simpa using hwt
          rw [this]
          simp only [Bool.false_eq_true, if_false]
          have hsub := ih ma w (some v) tgt hw
          generalize findPath fuel st ma w (some v) tgt = sub at hsub
          match sub, hsub with
          | none, _ => intro fo m' h; simp [onSub] at h
          | some (false, m1), hsub =>
            intro fo m' h
            simp only [onSub, Option.some.injEq, Prod.mk.injEq] at h
            obtain ⟨rfl, rfl⟩ := h
            exact ⟨fun _ => (hsub false m1 rfl).1 rfl, fun h => Bool.noConfusion h⟩
          | some (true, m1), hsub =>
            intro fo m' h
            simp only [onSub, Option.some.injEq, Prod.mk.injEq] at h
            obtain ⟨rfl, rfl⟩ := h
            obtain ⟨hA1, hB1⟩ := (hsub true m1 rfl).2 rfl
            have hcw := hB1 v c rfl hedge
            exact ⟨fun h => Bool.noConfusion h, fun _ => found_step hinv hedge hprev hcw hA1⟩
    · rw [if_neg hcond]; exact hacc

theorem findPath_spec {st : St} (hinv : Inv st) (fuel : Nat) :
    ∀ m v prev tgt, v < st.vs.size → FP st m v prev tgt (findPath fuel st m v prev tgt) := by
  induction fuel with
  | zero => intro m v prev tgt _ fo m' h; simp [findPath] at h
  | succ fuel ih =>
    intro m v prev tgt hv
    rw [findPath_succ]
    refine foldl_invS (FP st m v prev tgt) _ _ _ ?_ ?_
    · intro fo m' h
      simp only [Option.some.injEq, Prod.mk.injEq] at h
      obtain ⟨rfl, rfl⟩ := h
      exact ⟨fun _ => rfl, fun h => Bool.noConfusion h⟩
    · intro a x hx ha
      exact fstep_FP hinv ih hv ha hx

/-- the constraint chosen on the active path from `l` to `r` separates them: without it they are not connected -/
theorem findPath_sep (st : St) (hinv : Inv st) (l r : Nat) (hl : l < st.vs.size) (fuel : Nat) (b : Bool) (sc : Nat)
    (h : findPath fuel st none l none r = some (b, some sc)) :
    sc < st.cs.size ∧ (getC st sc).active = true ∧ ¬ Conn st (some sc) l r := by
  have hsp := findPath_spec hinv fuel none l none r hl b (some sc) h
  cases b with
  | false => exact absurd (hsp.1 rfl) (by simp)
  | true =>
    rcases (hsp.2 rfl).1 with h1 | ⟨e, h1, h2, h3, h4⟩
    · exact absurd h1 (by simp)
    · simp only [Option.some.injEq] at h1
      subst h1
      exact ⟨h2, h3, h4⟩


theorem blockSplit_varsNodup (st : St) (ci : Nat) (hinv : Inv st) (hnd : VarsNodup st) (hadj : AdjNodup st) (hci : ci < st.cs.size)
    (ha : (getC st ci).active = true) (herr : (blockSplit st ci).1.err = false) : VarsNodup (blockSplit st ci).1 := by
  have D := blockSplit_desc st ci hinv hci ha herr
  generalize (blockSplit st ci).1 = s' at *
  intro v hv
  rw [D.vsize] at hv
  by_cases h1 : Conn st (some ci) (getC st ci).l v
  · rw [(D.inL v h1).2.1]; exact D.ndL hadj
  · by_cases h2 : Conn st (some ci) (getC st ci).r v
    · rw [(D.inR v h2).2.1]; exact D.ndR hadj
    · have hb := hinv.wf.block_lt v hv
      rw [(D.out v h1 h2).1, D.bother _ (Nat.ne_of_lt hb) (Nat.ne_of_lt (Nat.lt_succ_of_lt hb))]
      exact hnd v hv

end Labella.Vpsc
