import Labella.Model.LayoutSpec
import Labella.Proofs.LayoutSep
import Labella.Proofs.DistributeLemmas
import Mathlib.Data.List.Perm.Basic
import Mathlib.Data.List.Nodup
/-! Helper lemmas for C06: the layout pipeline is equivariant under relabelling of the label indices. -/
namespace Labella.Layout
open Labella

/-! ### relabelling -/

def Ref.rename (π : Nat → Nat) : Ref → Ref
  | .label i => .label (π i)
  | .stub i l => .stub (π i) l

def Ref.level : Ref → Nat
  | .label _ => 0
  | .stub _ l => l

def Placed.rename (π : Nat → Nat) (p : Placed) : Placed := { ref := p.ref.rename π, pos := p.pos }

@[simp] theorem Ref.rename_id (π : Nat → Nat) (r : Ref) : (r.rename π).id = π r.id := by
  cases r <;> rfl

@[simp] theorem Ref.rename_isStub (π : Nat → Nat) (r : Ref) : (r.rename π).isStub = r.isStub := by
  cases r <;> rfl

@[simp] theorem Ref.rename_level (π : Nat → Nat) (r : Ref) : (r.rename π).level = r.level := by
  cases r <;> rfl

/-- `π` relabels the indices of `l1` into indices of `l2` carrying the same label -/
structure Relabel (l1 l2 : List Label) (π : Nat → Nat) : Prop where
  inj : Function.Injective π
  get : ∀ i, l2[π i]? = l1[i]?

section rel
variable {l1 l2 : List Label} {π : Nat → Nat} (R : Relabel l1 l2 π)
include R

theorem idealOf_rel (i : Nat) : idealOf l2 (π i) = idealOf l1 i := by
  unfold idealOf; rw [R.get]

theorem widthOf_rel (i : Nat) : widthOf l2 (π i) = widthOf l1 i := by
  unfold widthOf; rw [R.get]

theorem overlaps_rel (i j : Nat) : overlaps l2 (π i) (π j) = overlaps l1 i j := by
  unfold overlaps
  rw [idealOf_rel R, idealOf_rel R, widthOf_rel R, widthOf_rel R]

theorem map_widthOf_rel (ids : List Nat) : (ids.map π).map (widthOf l2) = ids.map (widthOf l1) := by
  rw [List.map_map]
  apply List.map_congr_left
  intro i _
  exact widthOf_rel R i

/-! ### `punt` -/

theorem punt_rel (o : DOpts) (maxW : Rat) :
    ∀ (fuel : Nat) (cur : List (Nat × Int)) (cw : Rat) (punted : List Nat),
    punt l2 o maxW fuel (cur.map (Prod.map π id)) cw (punted.map π)
      = ((punt l1 o maxW fuel cur cw punted).1.map (Prod.map π id),
          (punt l1 o maxW fuel cur cw punted).2.map π) := by
  intro fuel
  induction fuel with
  | zero => intro cur cw punted; simp only [punt_zero]
  | succ fuel ih =>
    intro cur cw punted
    by_cases hc : 2 < cur.length ∧ maxW < cw
    · obtain ⟨h1, h2⟩ := hc
      have hperm := List.mergeSort_perm cur (fun a b => decide (b.2 ≤ a.2))
      cases hS : cur.mergeSort (fun a b => decide (b.2 ≤ a.2)) with
      | nil =>
        rw [hS] at hperm
        have := hperm.length_eq
        simp at this; omega
      | cons hd rest =>
        have hS2 : (cur.map (Prod.map π id)).mergeSort (fun a b => decide (b.2 ≤ a.2))
            = Prod.map π id hd :: rest.map (Prod.map π id) := by
          rw [← List.map_mergeSort (r := fun a b => decide (b.2 ≤ a.2)) (by intros; rfl), hS]
          rfl
        rw [punt_step l1 o maxW fuel cur cw punted h1 h2 hd rest hS,
          punt_step l2 o maxW fuel _ cw _ (by simpa using h1) h2 _ _ hS2]
        have e1 : (rest.map (Prod.map π id)).map
              (fun p => if overlaps l2 (Prod.map π id hd).1 p.1 then (p.1, p.2 - 1) else p)
            = (rest.map (fun p => if overlaps l1 hd.1 p.1 then (p.1, p.2 - 1) else p)).map
                (Prod.map π id) := by
          rw [List.map_map, List.map_map]
          apply List.map_congr_left
          intro p _
          simp only [Function.comp, Prod.map_fst, Prod.map_snd, id, overlaps_rel R]
          by_cases hov : overlaps l1 hd.1 p.1 <;> simp [hov]
        have e2 : punted.map π ++ [(Prod.map π id hd).1] = (punted ++ [hd.1]).map π := by simp
        rw [e1, e2, Prod.map_fst, widthOf_rel R, ih]
    · rw [punt_stop l1 o maxW fuel cur cw punted hc,
        punt_stop l2 o maxW fuel _ cw _ (by simpa using hc)]

/-! ### `overlapLayers` -/

theorem filter_overlaps_rel (punted : List Nat) (i : Nat) :
    ((punted.map π).filter (overlaps l2 (π i))).length = (punted.filter (overlaps l1 i)).length := by
  rw [List.filter_map, List.length_map]
  congr 1
  apply List.filter_congr
  intro j _
  exact overlaps_rel R i j

theorem puntOf_rel (o : DOpts) (maxW : Rat) (punted : List Nat) :
    puntOf l2 o maxW (punted.map π)
      = ((puntOf l1 o maxW punted).1.map (Prod.map π id), (puntOf l1 o maxW punted).2.map π) := by
  unfold puntOf
  have e1 : (punted.map π).map (fun i => (i, (((punted.map π).filter (overlaps l2 i)).length : Int)))
      = (punted.map (fun i => (i, ((punted.filter (overlaps l1 i)).length : Int)))).map
          (Prod.map π id) := by
    rw [List.map_map, List.map_map]
    apply List.map_congr_left
    intro i _
    simp only [Function.comp, Prod.map_apply, id, filter_overlaps_rel R]
  rw [e1, map_widthOf_rel R, List.length_map]
  exact punt_rel R o maxW punted.length _ _ []

theorem overlapLayers_rel (o : DOpts) (maxW : Rat) :
    ∀ (fuel : Nat) (punted : List Nat),
    overlapLayers l2 o maxW fuel (punted.map π)
      = (overlapLayers l1 o maxW fuel punted).map (List.map π) := by
  intro fuel
  induction fuel with
  | zero =>
    intro punted
    rw [overlapLayers_zero, overlapLayers_zero]
    cases punted <;> simp
  | succ fuel ih =>
    intro punted
    by_cases h : maxW < requiredWidth o.nodeSpacing (punted.map (widthOf l1))
    · rw [overlapLayers_step l1 o maxW fuel punted h,
        overlapLayers_step l2 o maxW fuel _ (by rw [map_widthOf_rel R]; exact h),
        puntOf_rel R, ih]
      simp only [List.map_cons, List.map_map]
      congr 1
    · rw [overlapLayers_stop l1 o maxW fuel punted h,
        overlapLayers_stop l2 o maxW fuel _ (by rw [map_widthOf_rel R]; exact h)]
      cases punted <;> simp

end rel

/-! ### stubs: naturality -/

theorem stubsFor_rename (π : Nat → Nat) (L : List (List Nat)) (j : Nat) :
    stubsFor (L.map (List.map π)) j = (stubsFor L j).map (Ref.rename π) := by
  unfold stubsFor
  rw [← List.map_drop, ← List.map_reverse, List.flatMap_id, List.flatMap_id, ← List.map_flatten,
    List.map_map, List.map_map]
  rfl

theorem withStubs_rename (π : Nat → Nat) (L : List (List Nat)) :
    withStubs (L.map (List.map π)) = (withStubs L).map (List.map (Ref.rename π)) := by
  unfold withStubs
  rw [List.zipIdx_map, List.map_map, List.map_map]
  apply List.map_congr_left
  intro p _
  simp only [Function.comp, Prod.map_fst, Prod.map_snd, id, List.map_append, List.map_map,
    stubsFor_rename]
  rfl

theorem simpleLayers_rename (π : Nat → Nat) (ids : List Nat) (nl : Nat) :
    simpleLayers (ids.map π) nl = (simpleLayers ids nl).map (List.map (Ref.rename π)) := by
  unfold simpleLayers
  rw [List.map_map]
  apply List.map_congr_left
  intro j _
  simp only [Function.comp]
  rw [List.zipIdx_map, List.filterMap_map, List.map_filterMap]
  apply List.filterMap_congr
  intro p _
  simp only [Function.comp, Prod.map_fst, Prod.map_snd, id]
  by_cases h1 : p.2 % nl = j
  · simp [h1, Ref.rename]
  · by_cases h2 : j < p.2 % nl <;> simp [h1, h2, Ref.rename]

/-! ### `distribute` -/

theorem map_label_rename (π : Nat → Nat) (ids : List Nat) :
    (ids.map π).map Ref.label = (ids.map Ref.label).map (Ref.rename π) := by
  rw [List.map_map, List.map_map]; rfl

theorem distribute_rel {l1 l2 : List Label} {π : Nat → Nat} (R : Relabel l1 l2 π) (o : DOpts)
    (hs : sortIds l2 = (sortIds l1).map π) (hlen : l1.length = l2.length)
    (halg : o.algorithm ≠ .none) :
    distribute o l2 = (distribute o l1).map (List.map (Ref.rename π)) := by
  by_cases hne : l1 = []
  · subst hne
    have : l2 = [] := List.eq_nil_of_length_eq_zero (by simpa using hlen.symm)
    subst this
    simp [distribute_nil]
  have hne2 : l2 ≠ [] := by
    intro e; subst e
    exact hne (List.eq_nil_of_length_eq_zero (by simpa using hlen))
  have hW : (sortIds l2).map (widthOf l2) = (sortIds l1).map (widthOf l1) := by
    rw [hs, map_widthOf_rel R]
  by_cases hnl : estimateLayers o ((sortIds l1).map (widthOf l1)) ≤ 1
  · rw [distribute_single o l1 hne halg hnl, distribute_single o l2 hne2 halg (by rw [hW]; exact hnl),
      hs, map_label_rename]
    rfl
  have halg' : o.algorithm = .simple ∨ o.algorithm = .overlap := by
    cases h : o.algorithm <;> simp_all
  rcases halg' with h | h
  · rw [distribute_simple o l1 hne h hnl, distribute_simple o l2 hne2 h (by rw [hW]; exact hnl),
      hW, hs, simpleLayers_rename]
  · rw [distribute_overlap o l1 hne h hnl, distribute_overlap o l2 hne2 h (by rw [hW]; exact hnl),
      hs, List.length_map, overlapLayers_rel R, withStubs_rename]

/-! ### the engine -/

theorem zipWith_congr_of_mem {α β γ : Type} (f g : α → β → γ) (as : List α) (bs : List β)
    (h : ∀ a ∈ as, ∀ b, f a b = g a b) : List.zipWith f as bs = List.zipWith g as bs := by
  induction as generalizing bs with
  | nil => simp
  | cons a t ih =>
    cases bs with
    | nil => simp
    | cons b bs =>
      simp only [List.zipWith_cons_cons]
      rw [h a (by simp) b, ih bs (fun a' ha' b' => h a' (by simp [ha']) b')]

theorem removeOverlap_order_lt (o : ROpts) (items : List LItem) :
    ∀ idx ∈ (removeOverlap o items).order, idx < items.length := by
  intro idx h
  unfold removeOverlap at h
  simp only at h
  have hp := (sort_perm' items.zipIdx).map (·.2)
  rw [List.zipIdx_map_snd] at hp
  have := hp.subset h
  rw [List.mem_range'_1] at this
  omega

section rel
variable {l1 l2 : List Label} {π : Nat → Nat} (R : Relabel l1 l2 π)
include R

theorem layerItem_rel (o : FOpts) (prev : Option (List Placed)) (r : Ref) :
    layerItem o l2 (prev.map (List.map (Placed.rename π))) (r.rename π) = layerItem o l1 prev r := by
  unfold layerItem
  simp only [Ref.rename_id, Ref.rename_isStub, widthOf_rel R]
  congr 1
  cases prev with
  | none => simp [idealOf_rel R]
  | some ps =>
    simp only [Option.map_some]
    rw [List.find?_map]
    have : ((fun p : Placed => p.ref.id == π r.id) ∘ Placed.rename π)
        = fun p => p.ref.id == r.id := by
      funext p
      simp [Placed.rename, R.inj.eq_iff]
    rw [this, Option.map_map]
    rfl

theorem placeLayer_rel (o : FOpts) (prev : Option (List Placed)) (layer : List Ref) :
    placeLayer o l2 (prev.map (List.map (Placed.rename π))) (layer.map (Ref.rename π))
      = (placeLayer o l1 prev layer).map (Placed.rename π) := by
  have e : (layer.map (Ref.rename π)).map (layerItem o l2 (prev.map (List.map (Placed.rename π))))
      = layer.map (layerItem o l1 prev) := by
    rw [List.map_map]
    apply List.map_congr_left
    intro r _
    exact layerItem_rel R o prev r
  simp only [placeLayer, e]
  rw [List.map_zipWith]
  apply zipWith_congr_of_mem
  intro idx hidx p
  have hlt := removeOverlap_order_lt _ _ idx hidx
  rw [List.length_map] at hlt
  simp [Placed.rename, List.getD, hlt]

theorem placeLayers_rel (o : FOpts) :
    ∀ (layers : List (List Ref)) (prev : Option (List Placed)),
    placeLayers o l2 (prev.map (List.map (Placed.rename π))) (layers.map (List.map (Ref.rename π)))
      = (placeLayers o l1 prev layers).map (List.map (Placed.rename π)) := by
  intro layers
  induction layers with
  | nil => intro prev; simp [placeLayers]
  | cons l ls ih =>
    intro prev
    simp only [List.map_cons, placeLayers]
    rw [placeLayer_rel R]
    congr 1
    exact ih (some (placeLayer o l1 prev l))

end rel

/-! ### what an observer sees -/

/-- data position and width of the label an item belongs to, stub flag, stub level, position -/
def Placed.obs (labels : List Label) (p : Placed) : Rat × Rat × Bool × Nat × Int :=
  (idealOf labels p.ref.id, widthOf labels p.ref.id, p.ref.isStub, p.ref.level, p.pos)

theorem obs_rel {l1 l2 : List Label} {π : Nat → Nat} (R : Relabel l1 l2 π) (p : Placed) :
    Placed.obs l2 (p.rename π) = Placed.obs l1 p := by
  simp [Placed.obs, Placed.rename, idealOf_rel R, widthOf_rel R]

theorem compute_rel {l1 l2 : List Label} {π : Nat → Nat} (R : Relabel l1 l2 π) (o : FOpts)
    (hs : sortIds l2 = (sortIds l1).map π) (hlen : l1.length = l2.length)
    (halg : o.algorithm ≠ .none) :
    compute o l2 = (compute o l1).map (List.map (Placed.rename π)) := by
  unfold compute
  rw [distribute_rel R o.toD hs hlen halg]
  exact placeLayers_rel R o _ none

theorem compute_obs_rel {l1 l2 : List Label} {π : Nat → Nat} (R : Relabel l1 l2 π) (o : FOpts)
    (hs : sortIds l2 = (sortIds l1).map π) (hlen : l1.length = l2.length)
    (halg : o.algorithm ≠ .none) :
    (compute o l1).map (fun layer => layer.map (Placed.obs l1))
      = (compute o l2).map (fun layer => layer.map (Placed.obs l2)) := by
  rw [compute_rel R o hs hlen halg, List.map_map]
  apply List.map_congr_left
  intro layer _
  simp only [Function.comp, List.map_map]
  apply List.map_congr_left
  intro p _
  exact (obs_rel R p).symm

/-! ### the relabelling between two presentations of the same labels -/

theorem exists_relabel (l1 l2 : List Label) (hp : l1.Perm l2)
    (hint : ∀ a ∈ l1, ∀ b ∈ l1, a.ideal = b.ideal → a = b) :
    ∃ π : Nat → Nat, Relabel l1 l2 π ∧ sortIds l2 = (sortIds l1).map π := by
  have hlen : l2.length = l1.length := hp.length_eq.symm
  have h1 : (sortIds l1).Perm (List.range l1.length) := sortIds_perm l1
  have h2 : (sortIds l2).Perm (List.range l1.length) := by
    have := sortIds_perm l2; rwa [hlen] at this
  have nd1 : (sortIds l1).Nodup := h1.nodup_iff.2 List.nodup_range
  have nd2 : (sortIds l2).Nodup := h2.nodup_iff.2 List.nodup_range
  have len1 : (sortIds l1).length = l1.length := by simpa using h1.length_eq
  have len2 : (sortIds l2).length = l1.length := by simpa using h2.length_eq
  have hcan : (sortIds l1).map (fun i => l1.getD i ⟨0, 0⟩) = (sortIds l2).map (fun i => l2.getD i ⟨0, 0⟩) := by
    rw [sortIds_getD, sortIds_getD]
    exact sortedLabels_canonical l1 l2 hp hint
  have lt1 : ∀ k (hk : k < (sortIds l1).length), (sortIds l1)[k] < l1.length := by
    intro k hk
    have := h1.subset (List.getElem_mem hk)
    simpa using this
  have lt2 : ∀ k (hk : k < (sortIds l2).length), (sortIds l2)[k] < l1.length := by
    intro k hk
    have := h2.subset (List.getElem_mem hk)
    simpa using this
  have ex1 : ∀ i, i < l1.length → ∃ k, ∃ hk : k < (sortIds l1).length, (sortIds l1)[k] = i := by
    intro i hi
    have : i ∈ sortIds l1 := h1.symm.subset (by simpa using hi)
    obtain ⟨k, hk, e⟩ := List.mem_iff_getElem.1 this
    exact ⟨k, hk, e⟩
  let π : Nat → Nat := fun i => if i < l1.length then (sortIds l2).getD ((sortIds l1).idxOf i) 0 else i
  have hπ1 : ∀ k (hk : k < (sortIds l1).length),
      π (sortIds l1)[k] = (sortIds l2)[k]'(by omega) := by
    intro k hk
    show (if (sortIds l1)[k] < l1.length then _ else _) = _
    rw [if_pos (lt1 k hk), nd1.idxOf_getElem k hk]
    simp [List.getD, List.getElem?_eq_getElem (show k < (sortIds l2).length by omega)]
  have hπ2 : ∀ i, ¬ i < l1.length → π i = i := by
    intro i hi
    show (if i < l1.length then _ else _) = _
    rw [if_neg hi]
  have hπlt : ∀ i, i < l1.length → π i < l1.length := by
    intro i hi
    obtain ⟨k, hk, rfl⟩ := ex1 i hi
    rw [hπ1 k hk]
    exact lt2 k (by omega)
  refine ⟨π, ⟨?_, ?_⟩, ?_⟩
  · intro i j hij
    by_cases hi : i < l1.length
    · by_cases hj : j < l1.length
      · obtain ⟨a, ha, rfl⟩ := ex1 i hi
        obtain ⟨b, hb, rfl⟩ := ex1 j hj
        rw [hπ1 a ha, hπ1 b hb] at hij
        have : a = b := (nd2.getElem_inj_iff).1 hij
        subst this; rfl
      · have := hπlt i hi
        rw [hij, hπ2 j hj] at this
        exact absurd this hj
    · by_cases hj : j < l1.length
      · have := hπlt j hj
        rw [← hij, hπ2 i hi] at this
        exact absurd this hi
      · rw [hπ2 i hi, hπ2 j hj] at hij
        exact hij
  · intro i
    by_cases hi : i < l1.length
    · obtain ⟨k, hk, rfl⟩ := ex1 i hi
      rw [hπ1 k hk]
      have hk2 : k < (sortIds l2).length := by omega
      have e := congrArg (fun l => l[k]?) hcan
      simp only [List.getElem?_map, List.getElem?_eq_getElem hk, List.getElem?_eq_getElem hk2,
        Option.map_some, Option.some.injEq] at e
      have a1 := lt1 k hk
      have a2 : (sortIds l2)[k] < l2.length := by rw [hlen]; exact lt2 k hk2
      simp only [List.getD, List.getElem?_eq_getElem a1, List.getElem?_eq_getElem a2,
        Option.getD_some] at e
      rw [List.getElem?_eq_getElem a1, List.getElem?_eq_getElem a2, e]
    · rw [hπ2 i hi, List.getElem?_eq_none (by omega), List.getElem?_eq_none (by omega)]
  · apply List.ext_getElem
    · simp [len1, len2]
    · intro k hk2 hk1'
      have hk1 : k < (sortIds l1).length := by simpa using hk1'
      rw [List.getElem_map, hπ1 k hk1]

/-! ### algorithm `none`: one layer, labels in input order -/

def labelItem (lab : Label) : LItem := ⟨lab.ideal, lab.width, false⟩

theorem layerItems_algNone (o : FOpts) (l : List Label) :
    ((List.range l.length).map Ref.label).map (layerItem o l none) = l.map labelItem := by
  apply List.ext_getElem
  · simp
  · intro i h1 h2
    have hi : i < l.length := by simpa using h2
    simp [layerItem, labelItem, idealOf, widthOf, Ref.id, Ref.isStub, List.getElem?_eq_getElem hi]

theorem placeLayer_none_obs (o : FOpts) (l : List Label) :
    (placeLayer o l none ((List.range l.length).map Ref.label)).map (Placed.obs l)
      = List.zipWith (fun (it : LItem) (p : Int) => (it.target, it.width, false, 0, p))
          ((sortItems (l.map labelItem).zipIdx).map (·.1)) (removeOverlap o.toR (l.map labelItem)).pos := by
  simp only [placeLayer, layerItems_algNone]
  rw [List.map_zipWith]
  have hord : (removeOverlap o.toR (l.map labelItem)).order = (sortItems (l.map labelItem).zipIdx).map (·.2) := rfl
  rw [hord, List.zipWith_map_left, List.zipWith_map_left]
  apply zipWith_congr_of_mem
  intro q hq p
  have hq' : q ∈ (l.map labelItem).zipIdx := (sort_perm' _).subset hq
  have hget := List.mem_zipIdx_iff_getElem?.1 hq'
  rw [List.getElem?_map] at hget
  cases hl : l[q.2]? with
  | none => rw [hl] at hget; simp at hget
  | some lab =>
    rw [hl] at hget
    simp only [Option.map_some, Option.some.injEq] at hget
    have hlt : q.2 < l.length := by
      by_contra hh
      rw [List.getElem?_eq_none (by omega)] at hl
      simp at hl
    have hl' : l[q.2] = lab := by
      rw [List.getElem?_eq_getElem hlt] at hl
      exact Option.some.inj hl
    simp [Placed.obs, List.getD, hlt, Ref.id, Ref.isStub, Ref.level, idealOf, widthOf, hl', ← hget,
      labelItem]

theorem compute_algNone (o : FOpts) (l : List Label) (hne : l ≠ []) (h : o.algorithm = .none) :
    compute o l = [placeLayer o l none ((List.range l.length).map Ref.label)] := by
  unfold compute
  rw [distribute_none o.toD l hne h]
  rfl

theorem compute_algNone_obs (o : FOpts) (l1 l2 : List Label) (hp : l1.Perm l2)
    (hint : ∀ a ∈ l1, ∀ b ∈ l1, a.ideal = b.ideal → a = b) (h : o.algorithm = .none) :
    (compute o l1).map (fun layer => layer.map (Placed.obs l1))
      = (compute o l2).map (fun layer => layer.map (Placed.obs l2)) := by
  by_cases hne : l1 = []
  · subst hne
    have : l2 = [] := hp.nil_eq.symm
    subst this
    rfl
  have hne2 : l2 ≠ [] := by
    intro e; subst e
    exact hne hp.eq_nil
  have hint' : ∀ a ∈ l1.map labelItem, ∀ b ∈ l1.map labelItem, a.target = b.target → a = b := by
    intro a ha b hb hab
    obtain ⟨x, hx, rfl⟩ := List.mem_map.1 ha
    obtain ⟨y, hy, rfl⟩ := List.mem_map.1 hb
    rw [hint x hx y hy hab]
  have hcan := sortItems_canonical (l1.map labelItem) (l2.map labelItem) (hp.map _) hint'
  have hpos : (removeOverlap o.toR (l1.map labelItem)).pos = (removeOverlap o.toR (l2.map labelItem)).pos := by
    unfold removeOverlap
    simp only [hcan]
  rw [compute_algNone o l1 hne h, compute_algNone o l2 hne2 h]
  simp only [List.map_cons, List.map_nil]
  rw [placeLayer_none_obs, placeLayer_none_obs, hcan, hpos]

/-- permutation invariance of the whole pipeline, in terms of `Placed.obs` -/
theorem compute_perm_obs (o : FOpts) (l1 l2 : List Label) (hp : l1.Perm l2)
    (hint : ∀ a ∈ l1, ∀ b ∈ l1, a.ideal = b.ideal → a = b) :
    (compute o l1).map (fun layer => layer.map (Placed.obs l1))
      = (compute o l2).map (fun layer => layer.map (Placed.obs l2)) := by
  by_cases h : o.algorithm = .none
  · exact compute_algNone_obs o l1 l2 hp hint h
  · obtain ⟨π, R, hs⟩ := exists_relabel l1 l2 hp hint
    exact compute_obs_rel R o hs hp.length_eq h

end Labella.Layout
