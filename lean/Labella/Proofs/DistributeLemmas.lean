import Labella.Model.LayoutSpec
import Labella.Proofs.LayoutSep
import Mathlib.Data.List.Perm.Basic
import Mathlib.Tactic.Ring
import Mathlib.Tactic.Linarith
/-! Helper lemmas for C04/C06: canonical sorting, the structure of `distribute`. -/
namespace Labella.Layout
open Labella

/-! ### a list sorted by a key is determined by its multiset when key-equal elements are equal -/

theorem sorted_perm_eq {α : Type} (key : α → Rat) (l1 l2 : List α)
    (h1 : l1.Pairwise (fun a b => key a ≤ key b)) (h2 : l2.Pairwise (fun a b => key a ≤ key b))
    (hp : l1.Perm l2) (hint : ∀ a ∈ l1, ∀ b ∈ l1, key a = key b → a = b) : l1 = l2 := by
  refine List.Perm.eq_of_pairwise (le := fun a b => key a ≤ key b) ?_ h1 h2 hp
  intro a b ha hb hab hba
  exact hint a ha b (hp.symm.subset hb) (le_antisymm hab hba)

theorem sortItems_map_fst_sorted (l : List LItem) :
    ((sortItems l.zipIdx).map (·.1)).Pairwise (fun a b => a.target ≤ b.target) := by
  rw [List.pairwise_map]
  exact sort_sorted' _

theorem sortItems_map_fst_perm (l : List LItem) : ((sortItems l.zipIdx).map (·.1)).Perm l := by
  have h := (sort_perm' l.zipIdx).map (·.1)
  rwa [List.zipIdx_map_fst] at h

theorem sortItems_canonical (l1 l2 : List LItem) (hp : l1.Perm l2)
    (hint : ∀ a ∈ l1, ∀ b ∈ l1, a.target = b.target → a = b) :
    (sortItems l1.zipIdx).map (·.1) = (sortItems l2.zipIdx).map (·.1) := by
  apply sorted_perm_eq (fun a : LItem => a.target) _ _ (sortItems_map_fst_sorted l1)
    (sortItems_map_fst_sorted l2)
  · exact (sortItems_map_fst_perm l1).trans (hp.trans (sortItems_map_fst_perm l2).symm)
  · intro a ha b hb
    exact hint a ((sortItems_map_fst_perm l1).subset ha) b ((sortItems_map_fst_perm l1).subset hb)

/-! ### `sortIds` -/

def sortedLabels (l : List Label) : List Label :=
  ((l.zipIdx).mergeSort (fun a b => decide (a.1.ideal ≤ b.1.ideal))).map (·.1)

theorem sortIds_getD (l : List Label) (d : Label) :
    (sortIds l).map (fun i => l.getD i d) = sortedLabels l := by
  unfold sortIds sortedLabels
  rw [List.map_map]
  apply List.map_congr_left
  intro p hp
  have hp' : p ∈ l.zipIdx := (List.mergeSort_perm _ _).subset hp
  have := List.mem_zipIdx_iff_getElem?.1 hp'
  simp [List.getD, this]

theorem sortedLabels_sorted (l : List Label) :
    (sortedLabels l).Pairwise (fun a b => a.ideal ≤ b.ideal) := by
  unfold sortedLabels
  rw [List.pairwise_map]
  have h := List.pairwise_mergeSort
    (le := fun (a b : Label × Nat) => decide (a.1.ideal ≤ b.1.ideal))
    (by intro a b c hab hbc; simp only [decide_eq_true_eq] at *; exact le_trans hab hbc)
    (by intro a b; simp only [Bool.or_eq_true, decide_eq_true_eq]; exact le_total _ _) l.zipIdx
  exact h.imp (by intro a b hab; simpa using hab)

theorem sortedLabels_perm (l : List Label) : (sortedLabels l).Perm l := by
  have h := (List.mergeSort_perm l.zipIdx (fun a b => decide (a.1.ideal ≤ b.1.ideal))).map (·.1)
  rwa [List.zipIdx_map_fst] at h

theorem sortedLabels_canonical (l1 l2 : List Label) (hp : l1.Perm l2)
    (hint : ∀ a ∈ l1, ∀ b ∈ l1, a.ideal = b.ideal → a = b) :
    sortedLabels l1 = sortedLabels l2 := by
  apply sorted_perm_eq (fun a : Label => a.ideal) _ _ (sortedLabels_sorted l1) (sortedLabels_sorted l2)
  · exact (sortedLabels_perm l1).trans (hp.trans (sortedLabels_perm l2).symm)
  · intro a ha b hb
    exact hint a ((sortedLabels_perm l1).subset ha) b ((sortedLabels_perm l1).subset hb)

theorem sortIds_perm (l : List Label) : (sortIds l).Perm (List.range l.length) := by
  have h := (List.mergeSort_perm l.zipIdx (fun a b => decide (a.1.ideal ≤ b.1.ideal))).map (·.2)
  rw [List.zipIdx_map_snd, ← List.range_eq_range'] at h
  exact h

/-! ### the branches of `distribute` -/

theorem distribute_nil (o : DOpts) : distribute o [] = [] := by
  simp [distribute]

theorem distribute_none (o : DOpts) (labels : List Label) (hne : labels ≠ []) (h : o.algorithm = .none) :
    distribute o labels = [(List.range labels.length).map Ref.label] := by
  unfold distribute
  rw [h]
  simp [hne]

theorem distribute_single (o : DOpts) (labels : List Label) (hne : labels ≠ []) (h : o.algorithm ≠ .none)
    (hnl : estimateLayers o ((sortIds labels).map (widthOf labels)) ≤ 1) :
    distribute o labels = [(sortIds labels).map Ref.label] := by
  unfold distribute
  rcases o with ⟨alg, a, b, c, d⟩
  cases alg <;> simp_all

theorem distribute_simple (o : DOpts) (labels : List Label) (hne : labels ≠ []) (h : o.algorithm = .simple)
    (hnl : ¬ estimateLayers o ((sortIds labels).map (widthOf labels)) ≤ 1) :
    distribute o labels = simpleLayers (sortIds labels)
      (estimateLayers o ((sortIds labels).map (widthOf labels))).toNat := by
  unfold distribute
  rcases o with ⟨alg, a, b, c, d⟩
  cases alg <;> simp_all

theorem distribute_overlap (o : DOpts) (labels : List Label) (hne : labels ≠ []) (h : o.algorithm = .overlap)
    (hnl : ¬ estimateLayers o ((sortIds labels).map (widthOf labels)) ≤ 1) :
    distribute o labels = withStubs (overlapLayers labels o (maxWidthPerLayer o)
      ((sortIds labels).length + 1) (sortIds labels)) := by
  unfold distribute
  rcases o with ⟨alg, a, b, c, d⟩
  cases alg <;> simp_all

/-- the shapes a distribution can have -/
theorem distribute_cases (o : DOpts) (labels : List Label) :
    (labels = [] ∧ distribute o labels = []) ∨
    (labels ≠ [] ∧ ∃ ids : List Nat, ids.Perm (List.range labels.length) ∧
        distribute o labels = [ids.map Ref.label]) ∨
    (labels ≠ [] ∧ o.algorithm = .simple ∧ ∃ nl : Nat, 2 ≤ nl ∧
        distribute o labels = simpleLayers (sortIds labels) nl) ∨
    (labels ≠ [] ∧ o.algorithm = .overlap ∧
        ¬ estimateLayers o ((sortIds labels).map (widthOf labels)) ≤ 1 ∧
        distribute o labels = withStubs (overlapLayers labels o (maxWidthPerLayer o)
          ((sortIds labels).length + 1) (sortIds labels))) := by
  by_cases hne : labels = []
  · left; subst hne; exact ⟨rfl, distribute_nil o⟩
  right
  by_cases hnone : o.algorithm = .none
  · left; exact ⟨hne, _, List.Perm.refl _, distribute_none o labels hne hnone⟩
  by_cases hnl : estimateLayers o ((sortIds labels).map (widthOf labels)) ≤ 1
  · left; exact ⟨hne, _, sortIds_perm labels, distribute_single o labels hne hnone hnl⟩
  right
  have halg : o.algorithm = .simple ∨ o.algorithm = .overlap := by
    cases h : o.algorithm <;> simp_all
  rcases halg with h | h
  · left
    refine ⟨hne, h, _, ?_, distribute_simple o labels hne h hnl⟩
    omega
  · right
    exact ⟨hne, h, hnl, distribute_overlap o labels hne h hnl⟩

/-! ### labels and stubs of a layer -/

/-- the label ids of one layer -/
def labs (layer : List Ref) : List Nat :=
  layer.filterMap (fun r => match r with | .label i => some i | .stub _ _ => none)

theorem labelIds_eq (Ls : List (List Ref)) : labelIds Ls = (Ls.map labs).flatten := by
  unfold labelIds labs
  rw [List.filterMap_flatten]
  rfl

theorem labs_append (a b : List Ref) : labs (a ++ b) = labs a ++ labs b := by
  simp [labs, List.filterMap_append]

theorem labs_map_label (ids : List Nat) : labs (ids.map Ref.label) = ids := by
  induction ids with
  | nil => rfl
  | cons a t ih => simp only [labs, List.map_cons, List.filterMap_cons] at *; rw [ih]

theorem labs_map_stub (ids : List Nat) (j : Nat) : labs (ids.map (fun i => Ref.stub i j)) = [] := by
  induction ids with
  | nil => rfl
  | cons a t ih => simp only [labs, List.map_cons, List.filterMap_cons] at *; rw [ih]

theorem stubsOf_append (a b : List Ref) : stubsOf (a ++ b) = stubsOf a ++ stubsOf b := by
  simp [stubsOf, List.filterMap_append]

theorem stubsOf_map_label (ids : List Nat) : stubsOf (ids.map Ref.label) = [] := by
  induction ids with
  | nil => rfl
  | cons a t ih => simp only [stubsOf, List.map_cons, List.filterMap_cons] at *; rw [ih]

theorem stubsOf_map_stub (ids : List Nat) (j : Nat) :
    stubsOf (ids.map (fun i => Ref.stub i j)) = ids.map (fun i => (i, j)) := by
  induction ids with
  | nil => rfl
  | cons a t ih => simp only [stubsOf, List.map_cons, List.filterMap_cons] at *; rw [ih]

theorem range_map_widthOf (labels : List Label) :
    (List.range labels.length).map (widthOf labels) = labels.map (·.width) := by
  apply List.ext_getElem
  · simp
  · intro i h1 h2
    have : i < labels.length := by simpa using h2
    simp [widthOf, List.getElem?_eq_getElem this]

theorem requiredWidth_perm (ns : Rat) {a b : List Rat} (h : a.Perm b) :
    requiredWidth ns a = requiredWidth ns b := by
  unfold requiredWidth
  rw [h.sum_eq, h.length_eq]

theorem requiredWidth_ids (ns : Rat) (labels : List Label) {ids : List Nat}
    (h : ids.Perm (List.range labels.length)) :
    requiredWidth ns (ids.map (widthOf labels)) = requiredWidth ns (labels.map (·.width)) := by
  rw [requiredWidth_perm ns (h.map _), range_map_widthOf]

theorem estimateLayers_noWidth (o : DOpts) (ws : List Rat)
    (h : o.layerWidth = none ∨ o.layerWidth = some 0) : estimateLayers o ws = 1 := by
  unfold estimateLayers
  rcases h with h | h <;> simp [h]

theorem estimateLayers_pos (o : DOpts) (ws : List Rat) (hpos : 0 < maxWidthPerLayer o) :
    estimateLayers o ws = (requiredWidth o.nodeSpacing ws / maxWidthPerLayer o).ceil := by
  unfold estimateLayers
  unfold maxWidthPerLayer at hpos
  cases h : o.layerWidth with
  | none => simp [h] at hpos
  | some w =>
    by_cases hw : w = 0
    · simp [h, hw] at hpos
    · simp [hw]

theorem estimateLayers_le_one_iff (o : DOpts) (ws : List Rat) (hpos : 0 < maxWidthPerLayer o) :
    estimateLayers o ws ≤ 1 ↔ requiredWidth o.nodeSpacing ws ≤ maxWidthPerLayer o := by
  rw [estimateLayers_pos o ws hpos, Rat.ceil_le_iff, div_le_iff₀ hpos]
  simp


/-! ### `simpleLayers` -/

theorem flatMap_ite_single {β : Type} (J : List Nat) (hJ : J.Nodup) (m : Nat) (a : β) :
    J.flatMap (fun j => if m = j then [a] else []) = if m ∈ J then [a] else [] := by
  induction J with
  | nil => simp
  | cons j t ih =>
    rw [List.nodup_cons] at hJ
    rw [List.flatMap_cons, ih hJ.2]
    by_cases h : m = j
    · subst h; simp [hJ.1]
    · have h' : ¬ j = m := fun e => h e.symm
      simp [h]

theorem flatMap_select {β : Type} (J : List Nat) (hJ : J.Nodup) (k : β × Nat → Nat) (Z : List (β × Nat)) :
    (J.flatMap (fun j => Z.filterMap (fun p => if k p = j then some p.1 else none))).Perm
      (Z.filterMap (fun p => if k p ∈ J then some p.1 else none)) := by
  induction Z with
  | nil => simp
  | cons p t ih =>
    have e1 : ∀ j, (p :: t).filterMap (fun p => if k p = j then some p.1 else none)
        = (if k p = j then [p.1] else []) ++ t.filterMap (fun p => if k p = j then some p.1 else none) := by
      intro j
      rw [List.filterMap_cons]
      by_cases h : k p = j <;> simp [h]
    simp only [e1]
    refine (List.flatMap_append_perm J _ _).symm.trans ?_
    rw [flatMap_ite_single J hJ]
    rw [List.filterMap_cons]
    by_cases h : k p ∈ J
    · simp only [h, if_true]
      exact (ih.cons _)
    · simp only [h, if_false]
      exact ih

theorem labs_simpleLayer (Z : List (Nat × Nat)) (nl j : Nat) :
    labs (Z.filterMap (fun p =>
      if p.2 % nl = j then some (Ref.label p.1)
      else if j < p.2 % nl then some (Ref.stub p.1 j) else none))
    = Z.filterMap (fun p => if p.2 % nl = j then some p.1 else none) := by
  unfold labs
  rw [List.filterMap_filterMap]
  apply List.filterMap_congr
  intro p _
  by_cases h1 : p.2 % nl = j
  · simp [h1]
  · by_cases h2 : j < p.2 % nl <;> simp [h1, h2]

theorem stubsOf_simpleLayer (Z : List (Nat × Nat)) (nl j : Nat) :
    stubsOf (Z.filterMap (fun p =>
      if p.2 % nl = j then some (Ref.label p.1)
      else if j < p.2 % nl then some (Ref.stub p.1 j) else none))
    = Z.filterMap (fun p => if j < p.2 % nl then some (p.1, j) else none) := by
  unfold stubsOf
  rw [List.filterMap_filterMap]
  apply List.filterMap_congr
  intro p _
  by_cases h1 : p.2 % nl = j
  · have : ¬ j < p.2 % nl := by omega
    simp [h1]
  · by_cases h2 : j < p.2 % nl <;> simp [h1, h2]

theorem map_labs_simpleLayers (ids : List Nat) (nl : Nat) :
    (simpleLayers ids nl).map labs = (List.range nl).map (fun j =>
      ids.zipIdx.filterMap (fun p => if p.2 % nl = j then some p.1 else none)) := by
  unfold simpleLayers
  rw [List.map_map]
  apply List.map_congr_left
  intro j _
  exact labs_simpleLayer _ _ _

theorem labelIds_simpleLayers (ids : List Nat) (nl : Nat) (hnl : 0 < nl) :
    (labelIds (simpleLayers ids nl)).Perm ids := by
  rw [labelIds_eq, map_labs_simpleLayers, ← List.flatMap_def]
  refine (flatMap_select (List.range nl) List.nodup_range (fun p => p.2 % nl) ids.zipIdx).trans ?_
  have : ids.zipIdx.filterMap (fun p => if p.2 % nl ∈ List.range nl then some p.1 else none)
      = ids.zipIdx.map (·.1) := by
    rw [← List.filterMap_eq_map]
    apply List.filterMap_congr
    intro p _
    simp [Nat.mod_lt _ hnl]
  rw [this, List.zipIdx_map_fst]

theorem simpleLayers_getElem? (ids : List Nat) (nl j : Nat) (layer : List Ref)
    (h : (simpleLayers ids nl)[j]? = some layer) :
    j < nl ∧ layer = ids.zipIdx.filterMap (fun p =>
      if p.2 % nl = j then some (Ref.label p.1)
      else if j < p.2 % nl then some (Ref.stub p.1 j) else none) := by
  unfold simpleLayers at h
  rw [List.getElem?_map] at h
  by_cases hj : j < nl
  · rw [List.getElem?_range hj] at h
    simp only [Option.map_some, Option.some.injEq] at h
    exact ⟨hj, h.symm⟩
  · rw [List.getElem?_eq_none (by simpa using hj)] at h
    simp at h

theorem stubs_simpleLayers (ids : List Nat) (nl j : Nat) (layer : List Ref) (hnl : 0 < nl)
    (h : (simpleLayers ids nl)[j]? = some layer) :
    (stubsOf layer).Perm ((labelIds ((simpleLayers ids nl).drop (j + 1))).map (fun i => (i, j))) := by
  obtain ⟨hj, rfl⟩ := simpleLayers_getElem? ids nl j layer h
  rw [stubsOf_simpleLayer, labelIds_eq, List.map_drop, map_labs_simpleLayers, ← List.map_drop,
    ← List.flatMap_def]
  have hnd : ((List.range nl).drop (j + 1)).Nodup :=
    (List.drop_sublist _ _).nodup List.nodup_range
  refine List.Perm.trans ?_
    ((flatMap_select _ hnd (fun p => p.2 % nl) ids.zipIdx).map (fun i => (i, j))).symm
  rw [List.map_filterMap]
  apply List.Perm.of_eq
  apply List.filterMap_congr
  intro p _
  have hm : p.2 % nl ∈ (List.range nl).drop (j + 1) ↔ j < p.2 % nl := by
    rw [List.range_eq_range', List.drop_range', List.mem_range']
    have := Nat.mod_lt p.2 hnl
    constructor
    · rintro ⟨i, hi, e⟩; omega
    · intro hlt; exact ⟨p.2 % nl - (j + 1), by omega, by omega⟩
  by_cases h2 : j < p.2 % nl
  · simp [h2, hm.2 h2]
  · have : ¬ p.2 % nl ∈ (List.range nl).drop (j + 1) := fun hh => h2 (hm.1 hh)
    simp [h2, this]


/-! ### `withStubs` -/

theorem labs_stubsFor (L : List (List Nat)) (j : Nat) : labs (stubsFor L j) = [] := by
  unfold stubsFor
  exact labs_map_stub _ _

theorem map_labs_withStubs (L : List (List Nat)) : (withStubs L).map labs = L := by
  unfold withStubs
  rw [List.map_map]
  conv => rhs; rw [← List.zipIdx_map_fst 0 L]
  apply List.map_congr_left
  intro p _
  simp only [Function.comp, labs_append, labs_map_label, labs_stubsFor, List.append_nil]

theorem withStubs_length (L : List (List Nat)) : (withStubs L).length = L.length := by
  simp [withStubs]

theorem withStubs_getElem? (L : List (List Nat)) (j : Nat) :
    (withStubs L)[j]? = (L[j]?).map (fun l => l.map Ref.label ++ stubsFor L j) := by
  unfold withStubs
  rw [List.getElem?_map, List.getElem?_zipIdx]
  cases L[j]? <;> simp

theorem labelIds_withStubs_drop (L : List (List Nat)) (k : Nat) :
    labelIds ((withStubs L).drop k) = (L.drop k).flatten := by
  rw [labelIds_eq, List.map_drop, map_labs_withStubs]

theorem labelIds_withStubs (L : List (List Nat)) : labelIds (withStubs L) = L.flatten := by
  have := labelIds_withStubs_drop L 0
  simpa using this

theorem stubs_withStubs (L : List (List Nat)) (j : Nat) (layer : List Ref)
    (h : (withStubs L)[j]? = some layer) :
    (stubsOf layer).Perm ((labelIds ((withStubs L).drop (j + 1))).map (fun i => (i, j))) := by
  rw [withStubs_getElem?] at h
  cases hl : L[j]? with
  | none => simp [hl] at h
  | some l =>
    rw [hl] at h
    simp only [Option.map_some, Option.some.injEq] at h
    subst h
    rw [stubsOf_append, stubsOf_map_label, List.nil_append, labelIds_withStubs_drop]
    unfold stubsFor
    rw [stubsOf_map_stub]
    apply List.Perm.map
    rw [List.flatMap_id]
    exact (List.reverse_perm _).flatten

/-! ### contiguity -/

/-- no non-empty layer follows an empty one -/
def DownClosed (Ls : List (List Ref)) : Prop :=
  ∀ (j j' : Nat) (l' : List Ref), j < j' → Ls[j']? = some l' → l' ≠ [] → ∃ l, Ls[j]? = some l ∧ l ≠ []

theorem DownClosed_tail {l : List Ref} {Ls : List (List Ref)} (h : DownClosed (l :: Ls)) : DownClosed Ls := by
  intro j j' l' hlt hj' hne
  have := h (j + 1) (j' + 1) l' (by omega) (by simpa using hj') hne
  simpa using this

theorem contiguous_of_DownClosed (Ls : List (List Ref)) (h : DownClosed Ls) :
    (Ls.dropWhile (fun l => !l.isEmpty)).all (fun l => l.isEmpty) = true := by
  induction Ls with
  | nil => rfl
  | cons l t ih =>
    by_cases hl : l = []
    · subst hl
      rw [List.dropWhile_cons]
      simp only [List.isEmpty_nil, Bool.not_true, Bool.false_eq_true, if_false, List.all_cons,
        Bool.true_and]
      rw [List.all_eq_true]
      intro x hx
      obtain ⟨i, hi, rfl⟩ := List.mem_iff_getElem.1 hx
      by_contra hne
      have hne' : t[i] ≠ [] := by
        intro e; rw [e] at hne; simp at hne
      obtain ⟨l0, h0, hl0⟩ := h 0 (i + 1) t[i] (by omega) (by simp [hi]) hne'
      simp at h0
      exact hl0 h0
    · rw [List.dropWhile_cons]
      have : (!l.isEmpty) = true := by
        cases l with
        | nil => exact absurd rfl hl
        | cons _ _ => rfl
      simp only [this, if_true]
      exact ih (DownClosed_tail h)

theorem downClosed_single (l : List Ref) : DownClosed [l] := by
  intro j j' l' hlt hj' _
  have : j' = 0 := by
    by_contra hne
    rw [List.getElem?_eq_none (by simp; omega)] at hj'
    simp at hj'
  omega

theorem downClosed_nil : DownClosed [] := by
  intro j j' l' _ hj' _
  simp at hj'

theorem downClosed_withStubs (L : List (List Nat)) : DownClosed (withStubs L) := by
  intro j j' l' hlt hj' hne
  rw [withStubs_getElem?] at hj'
  cases hl : L[j']? with
  | none => simp [hl] at hj'
  | some lj' =>
    have hj'len : j' < L.length := by
      by_contra hh
      rw [List.getElem?_eq_none (by omega)] at hl
      simp at hl
    have hjlen : j < L.length := by omega
    refine ⟨L[j].map Ref.label ++ stubsFor L j, ?_, ?_⟩
    · rw [withStubs_getElem?, List.getElem?_eq_getElem hjlen]; rfl
    · -- some later label layer is non-empty
      rw [hl] at hj'
      simp only [Option.map_some, Option.some.injEq] at hj'
      subst hj'
      -- an element of a layer `≥ j'` exists
      have hex : ∃ k, j < k ∧ ∃ lk, L[k]? = some lk ∧ lk ≠ [] := by
        by_cases hlj : lj' = []
        · subst hlj
          simp only [List.map_nil, List.nil_append] at hne
          unfold stubsFor at hne
          have hne2 : ((L.drop (j' + 1)).reverse.flatMap id) ≠ [] := by
            intro e; rw [e] at hne; exact hne rfl
          rw [List.flatMap_id] at hne2
          obtain ⟨x, hx⟩ := List.exists_mem_of_ne_nil _ hne2
          rw [List.mem_flatten] at hx
          obtain ⟨lk, hlk, hxk⟩ := hx
          rw [List.mem_reverse] at hlk
          obtain ⟨i, hi, rfl⟩ := List.mem_iff_getElem.1 hlk
          rw [List.getElem_drop] at hxk
          refine ⟨j' + 1 + i, by omega, _, List.getElem?_eq_getElem ?_, List.ne_nil_of_mem hxk⟩
          simp at hi; omega
        · exact ⟨j', hlt, lj', hl, hlj⟩
      obtain ⟨k, hk, lk, hlk, hne3⟩ := hex
      obtain ⟨x, hx⟩ := List.exists_mem_of_ne_nil _ hne3
      have hklen : k < L.length := by
        by_contra hh
        rw [List.getElem?_eq_none (by omega)] at hlk
        simp at hlk
      have hmem : Ref.stub x j ∈ stubsFor L j := by
        unfold stubsFor
        apply List.mem_map_of_mem
        rw [List.flatMap_id, List.mem_flatten]
        refine ⟨lk, ?_, hx⟩
        rw [List.mem_reverse]
        rw [List.getElem?_eq_getElem hklen] at hlk
        simp only [Option.some.injEq] at hlk
        rw [← hlk]
        rw [List.mem_iff_getElem]
        refine ⟨k - (j + 1), by simp; omega, ?_⟩
        rw [List.getElem_drop]
        congr 1; omega
      exact List.ne_nil_of_mem (List.mem_append_right _ hmem)

theorem downClosed_simpleLayers (ids : List Nat) (nl : Nat) : DownClosed (simpleLayers ids nl) := by
  intro j j' l' hlt hj' hne
  obtain ⟨hj'nl, rfl⟩ := simpleLayers_getElem? ids nl j' l' hj'
  obtain ⟨x, hx⟩ := List.exists_mem_of_ne_nil _ hne
  rw [List.mem_filterMap] at hx
  obtain ⟨p, hp, hpx⟩ := hx
  have hle : j' ≤ p.2 % nl := by
    by_cases h1 : p.2 % nl = j'
    · omega
    · by_cases h2 : j' < p.2 % nl
      · omega
      · simp [h1, h2] at hpx
  have hj : j < nl := by omega
  refine ⟨ids.zipIdx.filterMap (fun p =>
      if p.2 % nl = j then some (Ref.label p.1)
      else if j < p.2 % nl then some (Ref.stub p.1 j) else none), ?_, ?_⟩
  · unfold simpleLayers
    rw [List.getElem?_map, List.getElem?_range hj]; rfl
  · apply List.ne_nil_of_mem (a := Ref.stub p.1 j)
    rw [List.mem_filterMap]
    refine ⟨p, hp, ?_⟩
    have h1 : ¬ p.2 % nl = j := by omega
    have h2 : j < p.2 % nl := by omega
    simp [h1, h2]


/-! ### `punt` -/

theorem minLabels_lt (n : Nat) : (Gen.overlapMinLabels < (n : Rat)) ↔ 2 < n := by
  unfold Gen.overlapMinLabels
  exact_mod_cast Iff.rfl

theorem punt_zero (labels : List Label) (o : DOpts) (maxW : Rat) (cur : List (Nat × Int)) (cw : Rat)
    (punted : List Nat) : punt labels o maxW 0 cur cw punted = (cur, punted) := by
  rw [punt]

theorem punt_stop (labels : List Label) (o : DOpts) (maxW : Rat) (fuel : Nat) (cur : List (Nat × Int))
    (cw : Rat) (punted : List Nat) (h : ¬ (2 < cur.length ∧ maxW < cw)) :
    punt labels o maxW (fuel + 1) cur cw punted = (cur, punted) := by
  rw [punt]
  rw [if_neg]
  simpa [minLabels_lt] using h

theorem punt_step (labels : List Label) (o : DOpts) (maxW : Rat) (fuel : Nat) (cur : List (Nat × Int))
    (cw : Rat) (punted : List Nat) (h1 : 2 < cur.length) (h2 : maxW < cw)
    (hd : Nat × Int) (rest : List (Nat × Int))
    (hS : cur.mergeSort (fun a b => decide (b.2 ≤ a.2)) = hd :: rest) :
    punt labels o maxW (fuel + 1) cur cw punted =
      punt labels o maxW fuel
        (rest.map (fun p => if overlaps labels hd.1 p.1 then (p.1, p.2 - 1) else p))
        (cw - widthOf labels hd.1 + o.stubWidth) (punted ++ [hd.1]) := by
  rw [punt]
  rw [if_pos (by simpa [minLabels_lt] using And.intro h1 h2)]
  rw [hS]

theorem punt_spec (labels : List Label) (o : DOpts) (maxW : Rat) :
    ∀ (fuel : Nat) (cur : List (Nat × Int)) (cw : Rat) (punted : List Nat), cur.length ≤ fuel →
    ∃ removed : List Nat,
      (punt labels o maxW fuel cur cw punted).2 = punted ++ removed ∧
      (((punt labels o maxW fuel cur cw punted).1.map (·.1)) ++ removed).Perm (cur.map (·.1)) ∧
      ((punt labels o maxW fuel cur cw punted).1.length ≤ 2 ∨
        cw - (removed.map (widthOf labels)).sum + o.stubWidth * (removed.length : Rat) ≤ maxW) ∧
      (cur.length ≤ 2 → removed = []) ∧
      (2 ≤ cur.length → 2 ≤ (punt labels o maxW fuel cur cw punted).1.length) ∧
      (2 < cur.length → maxW < cw → removed ≠ []) := by
  intro fuel
  induction fuel with
  | zero =>
    intro cur cw punted hlen
    have hnil : cur = [] := List.eq_nil_of_length_eq_zero (by omega)
    subst hnil
    simp only [punt_zero]
    exact ⟨[], by simp, by simp, Or.inl (by simp), by simp, by simp, by simp⟩
  | succ fuel ih =>
    intro cur cw punted hlen
    by_cases hc : 2 < cur.length ∧ maxW < cw
    · obtain ⟨h1, h2⟩ := hc
      have hperm := List.mergeSort_perm cur (fun a b => decide (b.2 ≤ a.2))
      cases hS : cur.mergeSort (fun a b => decide (b.2 ≤ a.2)) with
      | nil =>
        rw [hS] at hperm
        have := hperm.length_eq
        simp at this; omega
      | cons hd rest =>
        rw [hS] at hperm
        have hlen2 : rest.length + 1 = cur.length := by
          have := hperm.length_eq; simpa using this
        rw [punt_step labels o maxW fuel cur cw punted h1 h2 hd rest hS]
        obtain ⟨removed', e2, ep, e3, _, e5, _⟩ :=
          ih (rest.map (fun p => if overlaps labels hd.1 p.1 then (p.1, p.2 - 1) else p))
            (cw - widthOf labels hd.1 + o.stubWidth) (punted ++ [hd.1]) (by simp; omega)
        refine ⟨hd.1 :: removed', ?_, ?_, ?_, ?_, ?_, ?_⟩
        · rw [e2]; simp
        · have hmap : (rest.map (fun p => if overlaps labels hd.1 p.1 then (p.1, p.2 - 1) else p)).map (·.1)
              = rest.map (·.1) := by
            rw [List.map_map]
            apply List.map_congr_left
            intro p _
            by_cases hov : overlaps labels hd.1 p.1 <;> simp [hov]
          rw [hmap] at ep
          refine List.perm_middle.trans ?_
          refine (ep.cons hd.1).trans ?_
          exact (hperm.map (·.1))
        · rcases e3 with e3 | e3
          · left; exact e3
          · right
            simp only [List.map_cons, List.sum_cons, List.length_cons, Nat.cast_add, Nat.cast_one]
            linarith
        · intro h; omega
        · intro _
          apply e5
          simp; omega
        · intro _ _; simp
    · rw [punt_stop labels o maxW fuel cur cw punted hc]
      refine ⟨[], by simp, by simp, ?_, by simp, by simp, ?_⟩
      · simp only [List.map_nil, List.sum_nil, List.length_nil, Nat.cast_zero, mul_zero, sub_zero,
          add_zero]
        by_cases h1 : 2 < cur.length
        · right
          by_contra h2
          exact hc ⟨h1, lt_of_not_ge h2⟩
        · left; omega
      · intro h1 h2; exact absurd ⟨h1, h2⟩ hc

/-! ### `overlapLayers` -/

theorem overlapLayers_zero (labels : List Label) (o : DOpts) (maxW : Rat) (punted : List Nat) :
    overlapLayers labels o maxW 0 punted = if punted.isEmpty then [] else [punted] := by
  rw [overlapLayers]

theorem overlapLayers_stop (labels : List Label) (o : DOpts) (maxW : Rat) (fuel : Nat) (punted : List Nat)
    (h : ¬ maxW < requiredWidth o.nodeSpacing (punted.map (widthOf labels))) :
    overlapLayers labels o maxW (fuel + 1) punted = if punted.isEmpty then [] else [punted] := by
  rw [overlapLayers]
  simp only [h, if_false]

/-- the result of the inner loop started on the list `punted` -/
def puntOf (labels : List Label) (o : DOpts) (maxW : Rat) (punted : List Nat) :
    List (Nat × Int) × List Nat :=
  punt labels o maxW punted.length
    (punted.map (fun i => (i, ((punted.filter (overlaps labels i)).length : Int))))
    (requiredWidth o.nodeSpacing (punted.map (widthOf labels))) []

theorem overlapLayers_step (labels : List Label) (o : DOpts) (maxW : Rat) (fuel : Nat) (punted : List Nat)
    (h : maxW < requiredWidth o.nodeSpacing (punted.map (widthOf labels))) :
    overlapLayers labels o maxW (fuel + 1) punted =
      ((puntOf labels o maxW punted).1.map (·.1)) ::
        overlapLayers labels o maxW fuel (puntOf labels o maxW punted).2 := by
  rw [overlapLayers]
  simp only [h, if_true]
  rfl

theorem puntOf_spec (labels : List Label) (o : DOpts) (maxW : Rat) (punted : List Nat) :
    (((puntOf labels o maxW punted).1.map (·.1)) ++ (puntOf labels o maxW punted).2).Perm punted ∧
    ((puntOf labels o maxW punted).1.length ≤ 2 ∨
      requiredWidth o.nodeSpacing (punted.map (widthOf labels))
        - ((puntOf labels o maxW punted).2.map (widthOf labels)).sum
        + o.stubWidth * ((puntOf labels o maxW punted).2.length : Rat) ≤ maxW) ∧
    (punted.length ≤ 2 → (puntOf labels o maxW punted).2 = []) ∧
    (2 ≤ punted.length → 2 ≤ (puntOf labels o maxW punted).1.length) ∧
    (2 < punted.length → maxW < requiredWidth o.nodeSpacing (punted.map (widthOf labels)) →
      (puntOf labels o maxW punted).2 ≠ []) := by
  obtain ⟨removed, e2, ep, e3, e4, e5, e6⟩ := punt_spec labels o maxW punted.length
    (punted.map (fun i => (i, ((punted.filter (overlaps labels i)).length : Int))))
    (requiredWidth o.nodeSpacing (punted.map (widthOf labels))) [] (by simp)
  simp only [List.nil_append, List.length_map, List.map_map] at e2 ep e3 e4 e5 e6
  have hid : (punted.map ((fun x : Nat × Int => x.1) ∘
      fun i => (i, ((punted.filter (overlaps labels i)).length : Int)))) = punted := by
    conv => rhs; rw [← List.map_id punted]
    apply List.map_congr_left; intro a _; rfl
  rw [hid] at ep
  unfold puntOf
  rw [e2]
  exact ⟨ep, e3, e4, e5, e6⟩

theorem overlapLayers_perm (labels : List Label) (o : DOpts) (maxW : Rat) :
    ∀ (fuel : Nat) (punted : List Nat), (overlapLayers labels o maxW fuel punted).flatten.Perm punted := by
  intro fuel
  induction fuel with
  | zero =>
    intro punted
    rw [overlapLayers_zero]
    cases punted <;> simp
  | succ fuel ih =>
    intro punted
    by_cases h : maxW < requiredWidth o.nodeSpacing (punted.map (widthOf labels))
    · rw [overlapLayers_step labels o maxW fuel punted h, List.flatten_cons]
      exact ((ih _).append_left _).trans (puntOf_spec labels o maxW punted).1
    · rw [overlapLayers_stop labels o maxW fuel punted h]
      cases punted <;> simp


theorem overlapLayers_ne_nil (labels : List Label) (o : DOpts) (maxW : Rat) (fuel : Nat) (punted : List Nat)
    (hne : punted ≠ []) : overlapLayers labels o maxW fuel punted ≠ [] := by
  have hemp : punted.isEmpty = false := by cases punted <;> simp_all
  cases fuel with
  | zero => rw [overlapLayers_zero, hemp]; simp
  | succ fuel =>
    by_cases h : maxW < requiredWidth o.nodeSpacing (punted.map (widthOf labels))
    · rw [overlapLayers_step labels o maxW fuel punted h]; simp
    · rw [overlapLayers_stop labels o maxW fuel punted h, hemp]; simp

theorem overlapLayers_two (labels : List Label) (o : DOpts) (maxW : Rat) (fuel : Nat) (punted : List Nat)
    (h3 : 3 ≤ punted.length) (h : maxW < requiredWidth o.nodeSpacing (punted.map (widthOf labels))) :
    2 ≤ (overlapLayers labels o maxW (fuel + 1) punted).length := by
  rw [overlapLayers_step labels o maxW fuel punted h, List.length_cons]
  have hne := (puntOf_spec labels o maxW punted).2.2.2.2 (by omega) h
  have := overlapLayers_ne_nil labels o maxW fuel _ hne
  have : 0 < (overlapLayers labels o maxW fuel (puntOf labels o maxW punted).2).length :=
    List.length_pos_of_ne_nil this
  omega

/-! ### capacity -/

/-- every label layer, together with one stub per label of the later layers, fits the budget or holds
at most two labels -/
def CapOK (labels : List Label) (o : DOpts) (maxW : Rat) (L : List (List Nat)) : Prop :=
  ∀ (j : Nat) (l : List Nat), L[j]? = some l →
    (l.map (widthOf labels)).sum + o.stubWidth * (((L.drop (j + 1)).flatten.length : Nat) : Rat)
      + o.nodeSpacing * (((l.length + (L.drop (j + 1)).flatten.length : Nat)) : Rat) - o.nodeSpacing ≤ maxW
    ∨ l.length ≤ 2

theorem capOK_nil (labels : List Label) (o : DOpts) (maxW : Rat) : CapOK labels o maxW [] := by
  intro j l h; simp at h

theorem capOK_last (labels : List Label) (o : DOpts) (maxW : Rat) (punted : List Nat)
    (h : ¬ maxW < requiredWidth o.nodeSpacing (punted.map (widthOf labels))) :
    CapOK labels o maxW (if punted.isEmpty then [] else [punted]) := by
  cases punted with
  | nil => exact capOK_nil labels o maxW
  | cons a t =>
    intro j l hj
    simp only [List.isEmpty_cons, Bool.false_eq_true, if_false] at hj ⊢
    cases j with
    | succ j => simp at hj
    | zero =>
      simp only [List.getElem?_cons_zero, Option.some.injEq] at hj
      subst hj
      left
      have := le_of_not_gt h
      unfold requiredWidth at this
      simpa using this

theorem capOK_overlapLayers (labels : List Label) (o : DOpts) (maxW : Rat) :
    ∀ (fuel : Nat) (punted : List Nat), (punted = [] ∨ punted.length < fuel) →
      CapOK labels o maxW (overlapLayers labels o maxW fuel punted) := by
  intro fuel
  induction fuel with
  | zero =>
    intro punted hf
    have : punted = [] := by rcases hf with h | h; exact h; omega
    subst this
    rw [overlapLayers_zero]
    exact capOK_nil labels o maxW
  | succ fuel ih =>
    intro punted hf
    by_cases h : maxW < requiredWidth o.nodeSpacing (punted.map (widthOf labels))
    · rw [overlapLayers_step labels o maxW fuel punted h]
      obtain ⟨hp, hcap, h4, h5, _⟩ := puntOf_spec labels o maxW punted
      set kept := (puntOf labels o maxW punted).1 with hkept
      set rem := (puntOf labels o maxW punted).2 with hrem
      have hlenp : kept.length + rem.length = punted.length := by
        have := hp.length_eq; simpa using this
      have hf' : rem = [] ∨ rem.length < fuel := by
        by_cases h2 : punted.length ≤ 2
        · left; exact h4 h2
        · right
          have := h5 (by omega)
          rcases hf with hf | hf
          · subst hf; simp at h2
          · omega
      have ihL := ih rem hf'
      have hflat := overlapLayers_perm labels o maxW fuel rem
      intro j l hj
      cases j with
      | zero =>
        simp only [List.getElem?_cons_zero, Option.some.injEq] at hj
        subst hj
        simp only [Nat.zero_add, List.drop_succ_cons, List.drop_zero, List.length_map]
        rw [hflat.length_eq]
        rcases hcap with hcap | hcap
        · right; simpa using hcap
        · left
          have hsum : (punted.map (widthOf labels)).sum
              = ((kept.map (·.1)).map (widthOf labels)).sum + (rem.map (widthOf labels)).sum := by
            rw [← List.sum_append, ← List.map_append]
            exact ((hp.map _).sum_eq).symm
          unfold requiredWidth at hcap
          rw [hsum, List.length_map, ← hlenp] at hcap
          push_cast at hcap ⊢
          linarith
      | succ j =>
        simp only [List.getElem?_cons_succ] at hj
        have := ihL j l hj
        simpa using this
    · rw [overlapLayers_stop labels o maxW fuel punted h]
      exact capOK_last labels o maxW punted h

theorem filter_nonstub_layer (l : List Nat) (X : List Nat) (j : Nat) :
    ((l.map Ref.label ++ X.map (fun i => Ref.stub i j)).filter (fun r => !r.isStub)).length = l.length := by
  rw [List.filter_append]
  have h1 : (l.map Ref.label).filter (fun r => !r.isStub) = l.map Ref.label := by
    rw [List.filter_eq_self]; intro a ha
    obtain ⟨i, _, rfl⟩ := List.mem_map.1 ha; rfl
  have h2 : (X.map (fun i => Ref.stub i j)).filter (fun r => !r.isStub) = [] := by
    rw [List.filter_eq_nil_iff]; intro a ha
    obtain ⟨i, _, rfl⟩ := List.mem_map.1 ha; simp [Ref.isStub]
  rw [h1, h2]; simp

theorem map_refWidth_layer (labels : List Label) (sw : Rat) (l : List Nat) (X : List Nat) (j : Nat) :
    (l.map Ref.label ++ X.map (fun i => Ref.stub i j)).map (refWidth labels sw)
      = l.map (widthOf labels) ++ X.map (fun _ => sw) := by
  rw [List.map_append, List.map_map, List.map_map]
  rfl

theorem capacity_withStubs (labels : List Label) (o : DOpts) (maxW : Rat) (L : List (List Nat))
    (h : CapOK labels o maxW L) :
    ∀ layer ∈ withStubs L,
      requiredWidth o.nodeSpacing (layer.map (refWidth labels o.stubWidth)) ≤ maxW ∨
      (layer.filter (fun r => !r.isStub)).length ≤ 2 := by
  intro layer hmem
  obtain ⟨j, hj⟩ := List.mem_iff_getElem?.1 hmem
  rw [withStubs_getElem?] at hj
  cases hl : L[j]? with
  | none => simp [hl] at hj
  | some l =>
    rw [hl] at hj
    simp only [Option.map_some, Option.some.injEq] at hj
    subst hj
    unfold stubsFor
    rw [filter_nonstub_layer, map_refWidth_layer]
    rcases h j l hl with hc | hc
    · left
      unfold requiredWidth
      have hlen : ((L.drop (j + 1)).reverse.flatMap id).length = (L.drop (j + 1)).flatten.length := by
        rw [List.flatMap_id]
        exact ((List.reverse_perm _).flatten).length_eq
      rw [List.sum_append, List.length_append, List.length_map, List.length_map, hlen]
      have hconst : ∀ (X : List Nat), (X.map (fun _ => o.stubWidth)).sum = o.stubWidth * (X.length : Rat) := by
        intro X
        induction X with
        | nil => simp
        | cons a t ih => simp only [List.map_cons, List.sum_cons, List.length_cons, ih]; push_cast; ring
      rw [hconst, hlen]
      exact hc
    · right; exact hc


end Labella.Layout

