import Labella.Proofs.VpscKKTTree
/-! # Optimality half of C05, part 3: one block, then all blocks

* `block_stationary`: `StatsInv` gives `Σ_{i ∈ block} dfdv i / s_i = 0`;
* `findMinLM_block`: after `findMinLM` on a block every variable of the block is balanced (the value returned at the
  root is that block sum, shown to be 0 by summing the balance equations over the block);
* `multipliers_fold`: `findMinLM` over the whole block list leaves every variable balanced. -/
namespace Labella.Vpsc
namespace KKT
open FrameAux Finset

/-! ## block-level stationarity from the position statistics -/

theorem sum_lin (l : List Nat) (f g h : Nat → Rat) (P : Rat) :
    (l.map fun i => 2 * (P * f i + g i - h i)).sum = 2 * (P * (l.map f).sum + (l.map g).sum - (l.map h).sum) := by
  induction l with
  | nil => simp
  | cons a t ih => simp only [List.map_cons, List.sum_cons, ih]; ring

theorem sum_map_pos (l : List Nat) (f : Nat → Rat) (hpos : ∀ x ∈ l, 0 < f x) (hne : l ≠ []) : 0 < (l.map f).sum := by
  induction l with
  | nil => exact absurd rfl hne
  | cons a t ih =>
    rw [List.map_cons, List.sum_cons]
    by_cases ht : t = []
    · subst ht
      simpa using hpos a (List.mem_cons_self ..)
    · have := ih (fun x hx => hpos x (List.mem_cons_of_mem _ hx)) ht
      have := hpos a (List.mem_cons_self ..)
      linarith

theorem block_stationary {st : St} (hinv : Inv st) (hstats : StatsInv st)
    (hw : ∀ v, v < st.vs.size → 0 < (getV st v).w) {v : Nat} (hv : v < st.vs.size) :
    ((getB st (getV st v).block).vars.map fun i => dfdv st i / (getV st i).s).sum = 0 := by
  obtain ⟨hS, hAB, hAD, hA2, hP⟩ := hstats v hv
  have hmem := hinv.members v hv
  generalize hb : (getV st v).block = b at *
  generalize hB : getB st b = B at *
  have hvmem : v ∈ B.vars := (hmem v).2 ⟨hv, hb⟩
  have hA2pos : 0 < B.A2 := by
    rw [hA2]
    unfold sumA2
    apply sum_map_pos
    · intro i hi
      obtain ⟨hi1, _⟩ := (hmem i).1 hi
      have hs := hinv.wf.scale_ne i hi1
      have := hw i hi1
      have h2 : 0 < (B.scale / (getV st i).s) * (B.scale / (getV st i).s) :=
        mul_self_pos.2 (div_ne_zero hS hs)
      rw [mul_assoc]
      exact mul_pos this h2
    · exact List.ne_nil_of_mem hvmem
  have hterm : ∀ i ∈ B.vars, B.scale * (dfdv st i / (getV st i).s) =
      2 * (B.posn * ((getV st i).w * (B.scale / (getV st i).s) * (B.scale / (getV st i).s))
        + (getV st i).w * (B.scale / (getV st i).s) * ((getV st i).offset / (getV st i).s)
        - (getV st i).w * (B.scale / (getV st i).s) * (getV st i).d) := by
    intro i hi
    obtain ⟨hi1, hi2⟩ := (hmem i).1 hi
    have hs := hinv.wf.scale_ne i hi1
    unfold dfdv position
    simp only [hi2, hB, Gen.dfdvFactor]
    field_simp
  have hsum : B.scale * (B.vars.map fun i => dfdv st i / (getV st i).s).sum = 0 := by
    rw [← List.sum_map_mul_left]
    rw [List.map_congr_left hterm, sum_lin]
    have e1 : (B.vars.map fun i => (getV st i).w * (B.scale / (getV st i).s) * (B.scale / (getV st i).s)).sum = B.A2 := by
      rw [hA2]; rfl
    have e2 : (B.vars.map fun i => (getV st i).w * (B.scale / (getV st i).s) * ((getV st i).offset / (getV st i).s)).sum = B.AB := by
      rw [hAB]; rfl
    have e3 : (B.vars.map fun i => (getV st i).w * (B.scale / (getV st i).s) * (getV st i).d).sum = B.AD := by
      rw [hAD]; rfl
    rw [e1, e2, e3, hP]
    unfold getPosn
    have : B.A2 ≠ 0 := ne_of_gt hA2pos
    field_simp
    ring
  rcases mul_eq_zero.1 hsum with h | h
  · exact absurd h hS
  · exact h

/-! ## exchanging the two sums -/

theorem list_range_sum (n : Nat) (f : Nat → Rat) : ((List.range n).map f).sum = ∑ i ∈ range n, f i := by
  induction n with
  | zero => simp
  | succ n ih => rw [List.sum_range_succ, Finset.sum_range_succ, ih]

theorem exchange (s0 s : St) (n : Nat) (a : Nat → Rat) (L : List Nat)
    (hL : ∀ c ∈ L, (getC s0 c).l < n ∧ (getC s0 c).r < n) :
    ∑ i ∈ range n, a i * (L.map fun c => lam s0 s c * coef s0 i c).sum =
      (L.map fun c => lam s0 s c *
        ((getV s0 (getC s0 c).r).s * a (getC s0 c).r - (getV s0 (getC s0 c).l).s * a (getC s0 c).l)).sum := by
  induction L with
  | nil => simp
  | cons c t ih =>
    obtain ⟨hl, hr⟩ := hL c (List.mem_cons_self ..)
    have hstep : ∀ i, a i * ((c :: t).map fun c => lam s0 s c * coef s0 i c).sum =
        lam s0 s c * ((if (getC s0 c).r = i then (getV s0 i).s * a i else 0) -
          (if (getC s0 c).l = i then (getV s0 i).s * a i else 0)) +
        a i * (t.map fun c => lam s0 s c * coef s0 i c).sum := by
      intro i
      simp only [List.map_cons, List.sum_cons, coef]
      split_ifs <;> ring
    simp only [hstep]
    rw [Finset.sum_add_distrib, ih (fun q hq => hL q (List.mem_cons_of_mem _ hq)), List.map_cons,
      List.sum_cons, ← Finset.mul_sum, Finset.sum_sub_distrib, Finset.sum_ite_eq, Finset.sum_ite_eq]
    simp [hl, hr]

/-- the sum over the members of a block, read over all variables -/
theorem block_sum {st : St} (hinv : Inv st) (hnd : VarsNodup st) {v : Nat} (hv : v < st.vs.size) (h : Nat → Rat) :
    ((getB st (getV st v).block).vars.map h).sum =
      ∑ x ∈ range st.vs.size, if (getV st x).block = (getV st v).block then h x else 0 := by
  rw [← list_range_sum, sum_filter_ite]
  apply List.Perm.sum_eq
  apply List.Perm.map
  rw [List.perm_ext_iff_of_nodup (hnd v hv) (List.nodup_range.filter _)]
  intro x
  rw [hinv.members v hv x, List.mem_filter, List.mem_range, decide_eq_true_eq]

/-! ## one block -/

theorem same_block_of_active {st : St} (hinv : Inv st) {c : Nat} (hc : c < st.cs.size) (ha : (getC st c).active = true) :
    (getV st (getC st c).l).block = (getV st (getC st c).r).block := by
  obtain ⟨h1, h2⟩ := hinv.wf.lr c hc
  exact (hinv.comps _ _ h1 h2).2 (Relation.ReflTransGen.single ⟨c, hc, by simp, ha, Or.inl ⟨rfl, rfl⟩⟩)

theorem conn_lt {st : St} (hwf : WFd st) {x : Option Nat} {u v : Nat} (hu : u < st.vs.size) (h : Conn st x u v) :
    v < st.vs.size := by
  induction h with
  | refl => exact hu
  | tail _ hyz _ => exact (hwf.adj_lt hyz).2

theorem findMinLM_block {st : St} (hinv : Inv st) (hnd : VarsNodup st) (hadj : AdjNodup st) (hstats : StatsInv st)
    (hw : ∀ v, v < st.vs.size → 0 < (getV st v).w) {s : St} (hs : LmOnly st s) {v : Nat} (hv : v < st.vs.size)
    (herr : (findMinLM s (getV st v).block).1.err = false) :
    LmOnly st (findMinLM s (getV st v).block).1 ∧
    (∀ c2, ¬ ((getC st c2).active = true ∧ (getV st (getC st c2).l).block = (getV st v).block) →
      (getC (findMinLM s (getV st v).block).1 c2).lm = (getC s c2).lm) ∧
    (∀ x, x < st.vs.size → (getV st x).block = (getV st v).block →
      netVx st (findMinLM s (getV st v).block).1 none x = dfdv st x) := by
  have hwfd : WFd st := hinv.wf.toWFd
  unfold findMinLM at herr ⊢
  rw [hs.getB] at herr ⊢
  have hvmem : v ∈ (getB st (getV st v).block).vars := (hinv.members v hv v).2 ⟨hv, rfl⟩
  split at herr
  · exact absurd herr (by simp)
  · next v0 rest hvars =>
    simp only at herr ⊢
    have hv0mem : v0 ∈ (getB st (getV st v).block).vars := by rw [hvars]; exact List.mem_cons_self ..
    obtain ⟨hv0, hb0⟩ := (hinv.members v hv v0).1 hv0mem
    have P := computeLm_post hinv hadj true (travFuel s) s none v0 none none hs hv0 (Or.inl ⟨rfl, rfl⟩) herr
    generalize computeLm (travFuel s) s true none v0 none = res at P herr ⊢
    obtain ⟨s', m', D⟩ := res
    simp only at P herr ⊢
    -- membership of the block = connection with the root
    have hblk : ∀ x, x < st.vs.size → ((getV st x).block = (getV st v).block ↔ Conn st none v0 x) := by
      intro x hx
      rw [← hb0]
      constructor
      · intro h; exact (hinv.comps v0 x hv0 hx).1 h.symm
      · intro h; exact ((hinv.comps v0 x hv0 hx).2 h).symm
    refine ⟨P.lmo, ?_, ?_⟩
    · intro c2 h
      apply P.untouched
      rintro ⟨t1, _, t3⟩
      apply h
      refine ⟨t1, ?_⟩
      have hc2 := active_lt st c2 t1
      obtain ⟨h1, h2⟩ := hinv.wf.lr c2 hc2
      rcases t3 with t | t
      · exact (hblk _ h1).2 t
      · rw [same_block_of_active hinv hc2 t1]; exact (hblk _ h2).2 t
    · -- the balance equations of the block, summed with weights `1 / s_x`, give `D = 0`
      have hbal : ∀ x, x < st.vs.size → (getV st x).block = (getV st v).block →
          netVx st s' none x = dfdv st x - (if x = v0 then (getV st v0).s * D else 0) := by
        intro x hx hxb
        by_cases hxv : x = v0
        · subst hxv
          rw [if_pos rfl]; exact P.atv
        · rw [if_neg hxv, sub_zero]
          exact P.below x ((hblk x hx).1 hxb) hxv
      have hD : D = 0 := by
        have hex := exchange st s' st.vs.size
          (fun x => if (getV st x).block = (getV st v).block then 1 / (getV st x).s else 0) (List.range st.cs.size)
          (fun c hc => hinv.wf.lr c (List.mem_range.1 hc))
        have hzero : ((List.range st.cs.size).map fun c => lam st s' c *
            ((getV st (getC st c).r).s * (if (getV st (getC st c).r).block = (getV st v).block then 1 / (getV st (getC st c).r).s else 0) -
             (getV st (getC st c).l).s * (if (getV st (getC st c).l).block = (getV st v).block then 1 / (getV st (getC st c).l).s else 0))).sum = 0 := by
          apply List.sum_eq_zero
          intro t ht
          obtain ⟨c, hc, rfl⟩ := List.mem_map.1 ht
          rw [List.mem_range] at hc
          by_cases ha : (getC st c).active = true
          · obtain ⟨h1, h2⟩ := hinv.wf.lr c hc
            have hsl := hinv.wf.scale_ne _ h1
            have hsr := hinv.wf.scale_ne _ h2
            rw [same_block_of_active hinv hc ha]
            split_ifs
            · field_simp; simp
            · simp
          · rw [lam_inactive (by simpa using ha)]; simp
        rw [hzero] at hex
        have hlhs : ∑ i ∈ range st.vs.size,
            (if (getV st i).block = (getV st v).block then 1 / (getV st i).s else 0) *
              ((List.range st.cs.size).map fun c => lam st s' c * coef st i c).sum =
            (∑ i ∈ range st.vs.size, if (getV st i).block = (getV st v).block then dfdv st i / (getV st i).s else 0) -
              ∑ i ∈ range st.vs.size, if i = v0 then D else 0 := by
          rw [← Finset.sum_sub_distrib]
          apply Finset.sum_congr rfl
          intro i hi
          rw [Finset.mem_range] at hi
          have hnet : ((List.range st.cs.size).map fun c => lam st s' c * coef st i c).sum = netVx st s' none i := by
            unfold netVx
            apply congrArg
            apply List.map_congr_left
            intro c _
            simp
          rw [hnet]
          by_cases hib : (getV st i).block = (getV st v).block
          · rw [if_pos hib, if_pos hib, hbal i hi hib]
            have hsi := hinv.wf.scale_ne i hi
            by_cases hiv : i = v0
            · subst hiv
              rw [if_pos rfl, if_pos rfl]
              field_simp
            · rw [if_neg hiv, if_neg hiv]
              ring
          · rw [if_neg hib, if_neg hib]
            by_cases hiv : i = v0
            · exact absurd (hiv ▸ hb0) hib
            · rw [if_neg hiv]; simp
        rw [hlhs, ← block_sum hinv hnd hv (fun i => dfdv st i / (getV st i).s),
          block_stationary hinv hstats hw hv, Finset.sum_ite_eq', if_pos (Finset.mem_range.2 hv0)] at hex
        linarith
      intro x hx hxb
      rw [hbal x hx hxb, hD]
      simp

/-! ## all blocks -/

theorem findMinLM_fold_err (l : List Nat) : ∀ (s : St), s.err = true →
    (l.foldl (fun st b => (findMinLM st b).1) s).err = true := by
  induction l with
  | nil => intro s h; exact h
  | cons b l ih =>
    intro s h
    exact ih _ ((findMinLM_coreEq s b).errmono h)

theorem multipliers_fold {st : St} (hinv : Inv st) (hnd : VarsNodup st) (hadj : AdjNodup st) (hstats : StatsInv st)
    (hw : ∀ v, v < st.vs.size → 0 < (getV st v).w) :
    ∀ (l : List Nat) (s : St), LmOnly st s → l.Nodup → (∀ b ∈ l, ∃ v, v < st.vs.size ∧ (getV st v).block = b) →
      (l.foldl (fun st b => (findMinLM st b).1) s).err = false →
      LmOnly st (l.foldl (fun st b => (findMinLM st b).1) s) ∧
      (∀ c2, ¬ ((getC st c2).active = true ∧ (getV st (getC st c2).l).block ∈ l) →
        (getC (l.foldl (fun st b => (findMinLM st b).1) s) c2).lm = (getC s c2).lm) ∧
      (∀ x, x < st.vs.size → (getV st x).block ∈ l →
        netVx st (l.foldl (fun st b => (findMinLM st b).1) s) none x = dfdv st x) := by
  intro l
  induction l with
  | nil =>
    intro s hs _ _ _
    exact ⟨hs, fun _ _ => rfl, fun x _ hx => absurd hx (List.not_mem_nil)⟩
  | cons b l ih =>
    intro s hs hnodup huse herr
    rw [List.foldl_cons] at herr ⊢
    rw [List.nodup_cons] at hnodup
    obtain ⟨v, hv, hvb⟩ := huse b (List.mem_cons_self ..)
    subst hvb
    have herr1 : (findMinLM s (getV st v).block).1.err = false := by
      cases hh : (findMinLM s (getV st v).block).1.err with
      | false => rfl
      | true => rw [findMinLM_fold_err l _ hh] at herr; exact herr
    obtain ⟨b1, b2, b3⟩ := findMinLM_block hinv hnd hadj hstats hw hs hv herr1
    obtain ⟨i1, i2, i3⟩ := ih _ b1 hnodup.2 (fun b' hb' => huse b' (List.mem_cons_of_mem _ hb')) herr
    refine ⟨i1, ?_, ?_⟩
    · intro c2 h
      rw [i2 c2 (fun hh => h ⟨hh.1, List.mem_cons_of_mem _ hh.2⟩)]
      exact b2 c2 (fun hh => h ⟨hh.1, by rw [hh.2]; exact List.mem_cons_self ..⟩)
    · intro x hx hxb
      by_cases hxl : (getV st x).block ∈ l
      · exact i3 x hx hxl
      · have hxb' : (getV st x).block = (getV st v).block := by
          rcases List.mem_cons.1 hxb with h | h
          · exact h
          · exact absurd h hxl
        rw [← b3 x hx hxb']
        apply netVx_congr
        intro c2 hc2 _ ha2 hi
        apply i2
        rintro ⟨_, hmem⟩
        apply hxl
        rcases hi with hi | hi
        · rw [← hi]; exact hmem
        · rw [← hi, ← same_block_of_active hinv hc2 ha2]; exact hmem

end KKT
end Labella.Vpsc
