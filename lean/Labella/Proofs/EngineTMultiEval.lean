import Labella.Proofs.EngineTEval
/-! Kernel-evaluable form of the multi-engine world `EngineT.MWorld.run` (`computeT` replaced by the equal `computeT'` of
`Proofs/EngineTEval.lean`, whose sorts reduce in the kernel), for closed examples checked by `decide +kernel`. -/
namespace Labella.EngineT
open Labella Labella.Layout

def MWorld.step' (w : MWorld) : MOp → MWorld
  | .compute =>
    match w.engines[w.cur]? with
    | none => w
    | some e =>
      let r := computeT' (w.engineAt w.cur) w.store
      let lists := match e.ref with
        | some b => w.lists.modify b (fun _ => r.1.nodes)
        | none => w.lists
      let batch := (e.ref.bind (fun b => w.created[b]?)).getD []
      let obs := (observe r.2 (r.1.layers.getD [])).map (fun l => l.map (fun x => { x with data := batch.idxOf x.data }))
      { w with store := r.2, lists := lists, engines := w.engines.modify w.cur (fun e => { e with layers := r.1.layers }),
               outs := w.outs ++ [(w.cur, obs)] }
  | op => w.step op

theorem MWorld.step'_eq : MWorld.step' = MWorld.step := by
  funext w op
  cases op with
  | compute =>
    simp only [MWorld.step', MWorld.step, computeT'_eq]
    rfl
  | _ => simp only [MWorld.step']

def MWorld.run' (ops : List MOp) : MWorld := ops.foldl MWorld.step' MWorld.init

theorem MWorld.run'_eq : MWorld.run' = MWorld.run := by
  funext ops
  unfold MWorld.run' MWorld.run
  rw [MWorld.step'_eq]

end Labella.EngineT
