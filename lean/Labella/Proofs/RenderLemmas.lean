import Labella.Model.Render
import Mathlib.Algebra.Order.Field.Rat
import Mathlib.Tactic.Ring
import Mathlib.Tactic.Linarith
import Mathlib.Tactic.NormNum
/-! Helper lemmas for the render properties (C07/C08): truncation brackets, structure of `pathLoop`. -/
namespace Labella.Render
open Labella

/-! ### truncation towards zero -/

theorem truncToZero_of_nonneg (x : ℚ) (h : 0 ≤ x) :
    ((truncToZero x : Int) : ℚ) ≤ x ∧ x - 1 < ((truncToZero x : Int) : ℚ) := by
  have h1 : (x.floor : ℚ) ≤ x := Rat.floor_le x
  have h2 : x < ((x.floor + 1 : Int) : ℚ) := Rat.lt_floor_add_one x
  push_cast at h2
  unfold truncToZero
  rw [if_pos h]
  constructor <;> linarith

theorem truncToZero_of_neg (x : ℚ) (h : ¬ 0 ≤ x) :
    x ≤ ((truncToZero x : Int) : ℚ) ∧ ((truncToZero x : Int) : ℚ) < x + 1 := by
  have h1 : x ≤ (x.ceil : ℚ) := Rat.le_ceil
  have h2 : (x.ceil : ℚ) < x + 1 := Rat.ceil_lt
  unfold truncToZero
  rw [if_neg h]
  exact ⟨h1, h2⟩

theorem truncToZero_of_nonpos (x : ℚ) (h : x ≤ 0) :
    x ≤ ((truncToZero x : Int) : ℚ) ∧ ((truncToZero x : Int) : ℚ) < x + 1 := by
  by_cases h0 : 0 ≤ x
  · have hx : x = 0 := le_antisymm h h0
    have h1 : (x.floor : ℚ) ≤ x := Rat.floor_le x
    have h2 : x < ((x.floor + 1 : Int) : ℚ) := Rat.lt_floor_add_one x
    have h3 : (0 : ℤ) < x.floor + 1 := by
      have h2' : (0 : ℚ) < ((x.floor + 1 : Int) : ℚ) := lt_of_le_of_lt h0 h2
      exact_mod_cast h2'
    have h4 : (0 : ℤ) ≤ x.floor := by omega
    have h5 : (0 : ℚ) ≤ (x.floor : ℚ) := by exact_mod_cast h4
    unfold truncToZero
    rw [if_pos h0]
    constructor <;> linarith
  · exact truncToZero_of_neg x h0

theorem truncToZero_close (x : ℚ) : |((truncToZero x : Int) : ℚ) - x| < 1 := by
  rw [abs_lt]
  by_cases h0 : 0 ≤ x
  · have := truncToZero_of_nonneg x h0
    constructor <;> linarith [this.1, this.2]
  · have := truncToZero_of_neg x h0
    constructor <;> linarith [this.1, this.2]

theorem ratAbs_eq_abs (x : ℚ) : ratAbs x = |x| := by
  unfold ratAbs
  split_ifs with h
  · exact (abs_of_nonneg h).symm
  · exact (abs_of_neg (lt_of_not_ge h)).symm

/-- `trunc (c - e) + e` is within 1 of `c` -/
theorem trunc_shift_close (c e : ℚ) : |c - (((truncToZero (c - e) : Int) : ℚ) + e)| < 1 := by
  have h := abs_lt.mp (truncToZero_close (c - e))
  rw [abs_lt]
  constructor <;> linarith [h.1, h.2]

/-! ### structure of `pathLoop` on two-point way-points -/

theorem pathLoop_cons_cons (horiz : Bool) (prev a b : Pt) (w : List Pt) (ws : List (List Pt)) :
    pathLoop horiz prev ([a, b] :: w :: ws) =
      (if horiz then vCurve prev a else hCurve prev a) :: Step.L b :: pathLoop horiz b (w :: ws) := rfl

theorem pathLoop_last {α : Type} (f g : α → Pt) (z : α) (horiz : Bool) :
    ∀ (init : List α) (prev : Pt), ∃ pre c1 c2,
      pathLoop horiz prev ((init ++ [z]).map (fun x => [f x, g x])) = pre ++ [Step.C c1 c2 (f z)]
  | [], prev => by
    cases horiz
    · exact ⟨[], _, _, rfl⟩
    · exact ⟨[], _, _, rfl⟩
  | x :: xs, prev => by
    obtain ⟨pre, c1, c2, h⟩ := pathLoop_last f g z horiz xs (g x)
    refine ⟨(if horiz then vCurve prev (f x) else hCurve prev (f x)) :: Step.L (g x) :: pre, c1, c2, ?_⟩
    simp only [List.cons_append, List.map_cons, pathLoop, List.getLastD_cons, List.getLastD_nil]
    rw [if_neg (by simp)]
    rw [h]

theorem pathLoop_curves {α : Type} (f g : α → Pt) (horiz : Bool) (p : Step → Bool)
    (hC : ∀ a b c, p (Step.C a b c) = true) (hL : ∀ q, p (Step.L q) = false) :
    ∀ (l : List α) (prev : Pt),
      ((pathLoop horiz prev (l.map (fun x => [f x, g x]))).filter p).length = l.length
  | [], prev => by simp [pathLoop]
  | [x], prev => by
    cases horiz <;> simp [pathLoop, hCurve, vCurve, hC]
  | x :: y :: ys, prev => by
    have ih := pathLoop_curves f g horiz p hC hL (y :: ys) (g x)
    have hcurve : p (if horiz then vCurve prev (f x) else hCurve prev (f x)) = true := by
      cases horiz <;> simp [hCurve, vCurve, hC]
    simp only [List.map_cons] at ih ⊢
    rw [pathLoop_cons_cons, List.filter_cons_of_pos hcurve, List.filter_cons_of_neg (by simp [hL])]
    simp only [List.length_cons] at ih ⊢
    omega

/-! ### the way-points and the path in direction-independent form -/

/-- near-side point of the way-point of hop `p = (position, level)` -/
def wpNear (o : ROpt) (p : Rat × Nat) : Pt :=
  match o.dir with
  | .left => (gapOf o * (((p.2 : Nat) : Rat) + 1) * (-1) + o.nodeHeight, p.1)
  | .right => (gapOf o * (((p.2 : Nat) : Rat) + 1) - o.nodeHeight, p.1)
  | .up => (p.1, gapOf o * (((p.2 : Nat) : Rat) + 1) * (-1) + o.nodeHeight)
  | .down => (p.1, gapOf o * (((p.2 : Nat) : Rat) + 1) - o.nodeHeight)

/-- far-side point of the way-point of hop `p` -/
def wpFar (o : ROpt) (p : Rat × Nat) : Pt :=
  match o.dir with
  | .left => (gapOf o * (((p.2 : Nat) : Rat) + 1) * (-1), p.1)
  | .right => (gapOf o * (((p.2 : Nat) : Rat) + 1), p.1)
  | .up => (p.1, gapOf o * (((p.2 : Nat) : Rat) + 1) * (-1))
  | .down => (p.1, gapOf o * (((p.2 : Nat) : Rat) + 1))

/-- the datum's dot on the axis -/
def dotPt (o : ROpt) (n : RNode) : Pt := if o.dir.horizontalAxis then (n.ideal, 0) else (0, n.ideal)

theorem pathSteps_eq (o : ROpt) (n : RNode) :
    pathSteps o n = Step.M (dotPt o n) ::
      pathLoop o.dir.horizontalAxis (dotPt o n) (n.hops.zipIdx.map (fun p => [wpNear o p, wpFar o p])) := by
  obtain ⟨dir, nh, lg⟩ := o
  cases dir <;> rfl

theorem pathSteps_shape (o : ROpt) (n : RNode) (init : List Rat) (h : n.hops = init ++ [n.cur]) :
    ∃ pre c1 c2, pathSteps o n =
      Step.M (dotPt o n) :: (pre ++ [Step.C c1 c2 (wpNear o (n.cur, init.length))]) := by
  rw [pathSteps_eq, h, List.zipIdx_append]
  simp only [List.zipIdx_cons, List.zipIdx_nil, Nat.zero_add]
  obtain ⟨pre, c1, c2, hp⟩ := pathLoop_last (wpNear o) (wpFar o) (n.cur, init.length)
    o.dir.horizontalAxis init.zipIdx (dotPt o n)
  exact ⟨pre, c1, c2, by rw [hp]⟩

/-! ### layer offset and node position per direction -/

/-- distance of the near side of the node's layer from the axis -/
def posOf (o : ROpt) (n : RNode) : Rat := (n.layer : Rat) * gapOf o + o.layerGap

theorem posOf_ge (o : ROpt) (n : RNode) (hnh : 0 ≤ o.nodeHeight) (hlg : 0 ≤ o.layerGap) :
    o.layerGap ≤ posOf o n := by
  have hg : 0 ≤ gapOf o := by unfold gapOf; linarith
  have hl : (0 : ℚ) ≤ (n.layer : ℚ) := Nat.cast_nonneg _
  have := mul_nonneg hl hg
  unfold posOf
  linarith

theorem posOf_step (o : ROpt) (a b : RNode) (hg : 0 ≤ gapOf o) (hab : a.layer < b.layer) :
    posOf o a + gapOf o ≤ posOf o b := by
  have h1 : (a.layer : ℚ) + 1 ≤ (b.layer : ℚ) := by exact_mod_cast hab
  have h2 := mul_nonneg (sub_nonneg.mpr h1) hg
  unfold posOf
  linarith

theorem wpNear_right (o : ROpt) (n : RNode) (h : o.dir = .right) :
    wpNear o (n.cur, n.layer) = (posOf o n, n.cur) := by
  simp only [wpNear, h, posOf, gapOf, Prod.mk.injEq, and_true]
  ring

theorem wpNear_left (o : ROpt) (n : RNode) (h : o.dir = .left) :
    wpNear o (n.cur, n.layer) = (-posOf o n, n.cur) := by
  simp only [wpNear, h, posOf, gapOf, Prod.mk.injEq, and_true]
  ring

theorem wpNear_down (o : ROpt) (n : RNode) (h : o.dir = .down) :
    wpNear o (n.cur, n.layer) = (n.cur, posOf o n) := by
  simp only [wpNear, h, posOf, gapOf, Prod.mk.injEq, true_and]
  ring

theorem wpNear_up (o : ROpt) (n : RNode) (h : o.dir = .up) :
    wpNear o (n.cur, n.layer) = (n.cur, -posOf o n) := by
  simp only [wpNear, h, posOf, gapOf, Prod.mk.injEq, true_and]
  ring

theorem nodePos_right (o : ROpt) (n : RNode) (h : o.dir = .right) :
    nodePos o n = (posOf o n, n.cur - n.width / 2) := by
  simp only [nodePos, layoutXY, h, posOf]

theorem nodePos_left (o : ROpt) (n : RNode) (h : o.dir = .left) :
    nodePos o n = (-posOf o n - o.nodeHeight - n.w + o.nodeHeight, n.cur - n.width / 2) := by
  simp only [nodePos, layoutXY, h, posOf]

theorem nodePos_down (o : ROpt) (n : RNode) (h : o.dir = .down) :
    nodePos o n = (n.cur - n.width / 2, posOf o n) := by
  simp only [nodePos, layoutXY, h, posOf]

theorem nodePos_up (o : ROpt) (n : RNode) (h : o.dir = .up) :
    nodePos o n = (n.cur - n.width / 2, -posOf o n - o.nodeHeight) := by
  simp only [nodePos, layoutXY, h, posOf]

theorem modelBox_eq (o : ROpt) (n : RNode) :
    modelBox o n = { ox := ((truncToZero (nodePos o n).1 : Int) : Rat),
                     oy := ((truncToZero (nodePos o n).2 : Int) : Rat), w := n.w, h := n.h } := rfl

end Labella.Render
