import Labella.Proofs.TimeTickLemmas
import Labella.Proofs.TickLemmas
import Labella.Model.CalSpec
import Mathlib.Tactic.IntervalCases
/-! Helper lemmas for the second part of C16 (`Props/C16b.lean`): the step table, equally spaced methods, gaps,
gap ratio and tick count. -/
namespace Labella.Calendar
open Labella

/-! ### the step table -/

theorem bisect_spec (x : Rat) : ∀ (steps : List Rat),
    (∀ j, j < bisectRight steps x → steps.getD j 1 ≤ x) ∧
    (bisectRight steps x < steps.length → x < steps.getD (bisectRight steps x) 1) := by
  intro steps
  induction steps with
  | nil => simp [bisectRight]
  | cons a r ih =>
    unfold bisectRight at ih ⊢
    rw [List.takeWhile_cons]
    by_cases h : a ≤ x
    · simp only [h, decide_true, if_true, List.length_cons]
      constructor
      · intro j hj
        cases j with
        | zero => simpa using h
        | succ j => rw [List.getD_cons_succ]; exact ih.1 j (by omega)
      · intro hlt
        rw [List.getD_cons_succ]; exact ih.2 (by omega)
    · simp only [h, decide_false, Bool.false_eq_true, if_false, List.length_nil]
      constructor
      · intro j hj; omega
      · intro _; simp only [List.getD_cons_zero]; exact not_le.mp h

theorem near_target_core (lo hi t : Rat) (hlo : 0 < lo) (h1 : lo ≤ t) (h2 : t < hi) (h5 : hi ≤ 5 * lo) :
    (if t / lo < hi / t then lo else hi) * (if t / lo < hi / t then lo else hi) ≤ 5 * (t * t) ∧
    t * t < 5 * ((if t / lo < hi / t then lo else hi) * (if t / lo < hi / t then lo else hi)) := by
  have ht : 0 < t := lt_of_lt_of_le hlo h1
  have key : t / lo < hi / t ↔ t * t < hi * lo := by rw [div_lt_div_iff₀ hlo ht]
  split_ifs with h
  · rw [key] at h; constructor <;> nlinarith
  · rw [key, not_lt] at h; constructor <;> nlinarith

theorem table_adjacent (i : Nat) (h0 : 0 < i) (hlt : i < Gen.timeScaleSteps.length) :
    0 < Gen.timeScaleSteps.getD (i - 1) 1 ∧
    Gen.timeScaleSteps.getD i 1 ≤ 5 * Gen.timeScaleSteps.getD (i - 1) 1 := by
  have : i < 18 := hlt
  interval_cases i <;> (simp only [Gen.timeScaleSteps]; norm_num)


theorem methods_entry (pick : Nat) (u : TUnit) (s : Rat)
    (h : (match Gen.timeScaleMethods[pick]? with
      | some (n, k) => Method.cal (unitOfName n) k
      | none => Method.cal .year 1) = .cal u s) (hu : u ≠ .year) :
    (u = .second ∧ (s = 1 ∨ s = 5 ∨ s = 15 ∨ s = 30)) ∨ (u = .minute ∧ (s = 1 ∨ s = 5 ∨ s = 15 ∨ s = 30)) ∨
    (u = .hour ∧ (s = 1 ∨ s = 3 ∨ s = 6 ∨ s = 12)) ∨ (u = .day ∧ (s = 1 ∨ s = 2)) ∨ (u = .week ∧ s = 1) ∨
    (u = .month ∧ (s = 1 ∨ s = 3)) := by
  by_cases hp : pick < 18
  · interval_cases pick <;> simp [Gen.timeScaleMethods, unitOfName] at h <;> obtain ⟨rfl, rfl⟩ := h <;> simp at hu ⊢
  · have : Gen.timeScaleMethods[pick]? = none := by
      apply List.getElem?_eq_none; simp [Gen.timeScaleMethods]; omega
    rw [this] at h
    simp at h
    exact absurd h.1.symm hu

theorem effSkip_of_ge {s : Rat} (h : 1 ≤ s) : effSkip s = s := by
  unfold effSkip; rw [if_neg (not_lt.mpr h)]

theorem effSkip_ge (s : Rat) : 1 ≤ effSkip s := by
  unfold effSkip; split_ifs with h
  · exact le_refl _
  · exact not_lt.mp h

theorem tickMethod_table (e0 e1 : Int) (m : Rat) (u : TUnit) (s : Rat)
    (h : tickMethod e0 e1 m = .cal u s) (hu : u ≠ .year) :
    (u = .second ∧ (s = 1 ∨ s = 5 ∨ s = 15 ∨ s = 30)) ∨ (u = .minute ∧ (s = 1 ∨ s = 5 ∨ s = 15 ∨ s = 30)) ∨
    (u = .hour ∧ (s = 1 ∨ s = 3 ∨ s = 6 ∨ s = 12)) ∨ (u = .day ∧ (s = 1 ∨ s = 2)) ∨ (u = .week ∧ s = 1) ∨
    (u = .month ∧ (s = 1 ∨ s = 3)) := by
  unfold tickMethod at h
  simp only at h
  split at h
  · injection h with h1 h2; exact absurd h1.symm hu
  · split at h
    · exact Method.noConfusion h
    · exact methods_entry _ u s h hu


/-! ### equally spaced methods: boundary + unit-number filter = one residue class -/

theorem uniform_second (k x : Int) (hk : k = 1 ∨ k = 5 ∨ k = 15 ∨ k = 30) :
    (isBoundary .second x = true ∧ (k ≤ 1 ∨ numberU .second x % k = 0)) ↔ x % (k * 1000) = 0 := by
  simp only [isBoundary, numberU, beq_iff_eq]
  rcases hk with rfl | rfl | rfl | rfl <;> omega

theorem uniform_minute (k x : Int) (hk : k = 1 ∨ k = 5 ∨ k = 15 ∨ k = 30) :
    (isBoundary .minute x = true ∧ (k ≤ 1 ∨ numberU .minute x % k = 0)) ↔ x % (k * 60000) = 0 := by
  simp only [isBoundary, numberU, beq_iff_eq]
  rcases hk with rfl | rfl | rfl | rfl <;> omega

theorem uniform_hour (k x : Int) (hk : k = 1 ∨ k = 3 ∨ k = 6 ∨ k = 12) :
    (isBoundary .hour x = true ∧ (k ≤ 1 ∨ numberU .hour x % k = 0)) ↔ x % (k * 3600000) = 0 := by
  simp only [isBoundary, numberU, beq_iff_eq, msPerDay]
  rcases hk with rfl | rfl | rfl | rfl <;> omega

theorem uniform_day (x : Int) :
    (isBoundary .day x = true ∧ ((1 : Int) ≤ 1 ∨ numberU .day x % 1 = 0)) ↔ x % 86400000 = 0 := by
  simp only [isBoundary, beq_iff_eq, msPerDay]
  omega

theorem uniform_week (x : Int) :
    (isBoundary .week x = true ∧ ((1 : Int) ≤ 1 ∨ numberU .week x % 1 = 0)) ↔ x % 604800000 = 259200000 := by
  simp only [isBoundary, beq_iff_eq, msPerDay, weekdaySun0, Bool.and_eq_true]
  omega

theorem iff_reassoc {B L H F R : Prop} (h : (B ∧ F) ↔ R) : (B ∧ L ∧ H ∧ F) ↔ (L ∧ H ∧ R) := by
  constructor
  · rintro ⟨b, l, hh, f⟩; exact ⟨l, hh, h.1 ⟨b, f⟩⟩
  · rintro ⟨l, hh, r⟩; exact ⟨(h.2 r).1, l, hh, (h.2 r).2⟩

/-! ### membership in `ticks` -/

theorem ticks_cal_mem (d0 d1 : Int) (m : Rat) (u : TUnit) (s : Rat)
    (h : tickMethod (min d0 d1) (max d0 d1) m = .cal u s) (hs : (effSkip s).den = 1) (x : Int) :
    x ∈ ticks d0 d1 m ↔
      (isBoundary u x = true ∧ min d0 d1 ≤ x ∧ x ≤ max d0 d1 ∧
        ((effSkip s).num ≤ 1 ∨ numberU u x % (effSkip s).num = 0)) := by
  unfold ticks
  simp only [h]
  rw [calRange_mem_int _ _ _ _ hs]
  constructor
  · rintro ⟨a, b, c, d⟩; exact ⟨a, b, by omega, d⟩
  · rintro ⟨a, b, c, d⟩; exact ⟨a, b, by omega, d⟩

theorem ticks_ms_mem (d0 d1 : Int) (m : Rat) (s : Rat)
    (h : tickMethod (min d0 d1) (max d0 d1) m = .ms s) (x : Int) :
    x ∈ ticks d0 d1 m ↔
      (min d0 d1 ≤ x ∧ x ≤ max d0 d1 ∧ x % (if (effSkip s).floor < 1 then 1 else (effSkip s).floor) = 0) := by
  unfold ticks
  simp only [h]
  rw [msRange_mem']
  constructor
  · rintro ⟨a, b, c⟩; exact ⟨a, by omega, c⟩
  · rintro ⟨a, b, c⟩; exact ⟨a, by omega, c⟩

theorem ticks_incr (d0 d1 : Int) (m : Rat) : strictlyIncreasingB (ticks d0 d1 m) = true := by
  unfold ticks
  simp only
  split
  · exact msRange_increasing' _ _ _
  · exact calRange_increasing _ _ _ _

/-! ### gaps of a strictly increasing list -/

/-- every gap is the difference of two list members with no member strictly between -/
theorem gaps_adjacent : ∀ (l : List Int), l.Pairwise (· < ·) → ∀ g ∈ gapsOf l,
    ∃ a b, a ∈ l ∧ b ∈ l ∧ a < b ∧ g = b - a ∧ ∀ x ∈ l, x ≤ a ∨ b ≤ x := by
  intro l
  induction l with
  | nil => intro _ g hg; simp [gapsOf] at hg
  | cons a r ih =>
    cases r with
    | nil => intro _ g hg; simp [gapsOf] at hg
    | cons b r' =>
      intro hp g hg
      rw [List.pairwise_cons] at hp
      obtain ⟨ha, hp'⟩ := hp
      simp only [gapsOf, List.mem_cons] at hg
      rcases hg with rfl | hg
      · refine ⟨a, b, List.mem_cons_self, List.mem_cons_of_mem _ List.mem_cons_self,
          ha b List.mem_cons_self, rfl, ?_⟩
        intro x hx
        rcases List.mem_cons.1 hx with rfl | hx
        · left; omega
        · rcases List.mem_cons.1 hx with rfl | hx'
          · right; omega
          · right
            have := (List.pairwise_cons.1 hp').1 x hx'
            omega
      · obtain ⟨a', b', ha', hb', hlt, rfl, hbetween⟩ := ih hp' g hg
        refine ⟨a', b', List.mem_cons_of_mem _ ha', List.mem_cons_of_mem _ hb', hlt, rfl, ?_⟩
        intro x hx
        rcases List.mem_cons.1 hx with rfl | hx
        · left; exact Int.le_of_lt (ha a' ha')
        · exact hbetween x hx

/-- the members of one residue class inside an interval, in increasing order: all gaps equal the modulus -/
theorem gaps_residue (l : List Int) (hinc : strictlyIncreasingB l = true) (lo hi S c : Int) (hS : 0 < S)
    (hmem : ∀ x, x ∈ l ↔ (lo ≤ x ∧ x ≤ hi ∧ x % S = c)) : ∀ g ∈ gapsOf l, g = S := by
  intro g hg
  obtain ⟨a, b, ha, hb, hlt, rfl, hbtw⟩ := gaps_adjacent l ((sincr_iff_pairwise l).1 hinc) g hg
  obtain ⟨ha1, ha2, ha3⟩ := (hmem a).1 ha
  obtain ⟨hb1, hb2, hb3⟩ := (hmem b).1 hb
  have h1 : b ≤ a + S := by
    by_cases hc : a + S < b
    · have hm : a + S ∈ l := (hmem _).2 ⟨by omega, by omega, by rw [Int.add_emod_right]; exact ha3⟩
      rcases hbtw _ hm with h | h <;> omega
    · omega
  have h2 : S ≤ b - a := by
    apply Int.le_of_dvd (by omega)
    apply Int.dvd_of_emod_eq_zero
    rw [Int.sub_emod, ha3, hb3, Int.sub_self, Int.zero_emod]
  omega

/-! ### bounded gaps -/

theorem gapRatio_of_bounds (l : List Int) (a b : Int) (h : ∀ g ∈ gapsOf l, a ≤ g ∧ g ≤ b) (hab : b ≤ 2 * a) :
    gapRatioB l = true := by
  unfold gapRatioB minGap maxGap
  split
  · rename_i x y hx hy
    have h1 := h x (List.min?_mem hx)
    have h2 := h y (List.max?_mem hy)
    simp only [decide_eq_true_eq]
    omega
  · rfl

theorem head_le_of_sincr : ∀ (l : List Int) (x : Int), (x :: l).Pairwise (· < ·) → ∀ y ∈ x :: l, x ≤ y := by
  intro l x hp y hy
  rcases List.mem_cons.1 hy with rfl | hy
  · exact Int.le_refl _
  · exact Int.le_of_lt ((List.pairwise_cons.1 hp).1 y hy)

theorem le_getLast_of_sincr : ∀ (l : List Int) (hne : l ≠ []), l.Pairwise (· < ·) → ∀ y ∈ l, y ≤ l.getLast hne := by
  intro l
  induction l with
  | nil => intro hne; exact absurd rfl hne
  | cons a r ih =>
    intro hne hp y hy
    cases r with
    | nil =>
      simp only [List.mem_singleton] at hy
      subst hy; simp
    | cons b r' =>
      rw [List.getLast_cons_cons]
      rw [List.pairwise_cons] at hp
      rcases List.mem_cons.1 hy with rfl | hy
      · have h1 := hp.1 _ (List.getLast_mem (l := b :: r') (by simp))
        omega
      · exact ih (by simp) hp.2 y hy

/-- last − first is the sum of the gaps: bounded below and above by the gap bounds times the number of gaps -/
theorem span_bounds (a b : Int) : ∀ (l : List Int) (x : Int), (∀ g ∈ gapsOf (x :: l), a ≤ g ∧ g ≤ b) →
    x + (l.length : Int) * a ≤ (x :: l).getLast (by simp) ∧ (x :: l).getLast (by simp) ≤ x + (l.length : Int) * b := by
  intro l
  induction l with
  | nil => intro x _; simp
  | cons y r ih =>
    intro x h
    rw [List.getLast_cons_cons]
    have h1 := h (y - x) (by simp [gapsOf])
    have h2 := ih y (fun g hg => h g (by simp only [gapsOf]; exact List.mem_cons_of_mem _ hg))
    simp only [List.length_cons]
    have e1 : ((r.length + 1 : Nat) : Int) * a = (r.length : Int) * a + a := by
      rw [Int.natCast_succ, Int.add_mul, Int.one_mul]
    have e2 : ((r.length + 1 : Nat) : Int) * b = (r.length : Int) * b + b := by
      rw [Int.natCast_succ, Int.add_mul, Int.one_mul]
    omega

/-- a set of instants whose consecutive members are between `a` and `b` apart, unbounded in both directions -/
structure Spaced (Q : Int → Prop) (a b : Int) : Prop where
  apos : 0 < a
  next : ∀ x, Q x → ∃ y, Q y ∧ x + a ≤ y ∧ y ≤ x + b ∧ ∀ z, Q z → x < z → y ≤ z
  below : ∀ t, ∃ x, Q x ∧ x ≤ t ∧ t < x + b
  above : ∀ t, ∃ y, Q y ∧ t ≤ y ∧ y < t + b

theorem Spaced.congr {Q Q' : Int → Prop} {a b : Int} (h : ∀ x, Q x ↔ Q' x) (S : Spaced Q a b) : Spaced Q' a b where
  apos := S.apos
  next x hx := by
    obtain ⟨y, h1, h2, h3, h4⟩ := S.next x ((h x).2 hx)
    exact ⟨y, (h y).1 h1, h2, h3, fun z hz => h4 z ((h z).2 hz)⟩
  below t := by
    obtain ⟨x, h1, h2⟩ := S.below t
    exact ⟨x, (h x).1 h1, h2⟩
  above t := by
    obtain ⟨x, h1, h2⟩ := S.above t
    exact ⟨x, (h x).1 h1, h2⟩

theorem Spaced.mono {Q : Int → Prop} {a b a' b' : Int} (S : Spaced Q a b) (ha : a' ≤ a) (ha' : 0 < a') (hb : b ≤ b') :
    Spaced Q a' b' where
  apos := ha'
  next x hx := by
    obtain ⟨y, h1, h2, h3, h4⟩ := S.next x hx
    exact ⟨y, h1, by omega, by omega, h4⟩
  below t := by
    obtain ⟨x, h1, h2, h3⟩ := S.below t
    exact ⟨x, h1, h2, by omega⟩
  above t := by
    obtain ⟨x, h1, h2, h3⟩ := S.above t
    exact ⟨x, h1, h2, by omega⟩

theorem Spaced.gaps {Q : Int → Prop} {a b : Int} (S : Spaced Q a b) (l : List Int)
    (hinc : strictlyIncreasingB l = true) (lo hi : Int) (hmem : ∀ x, x ∈ l ↔ (lo ≤ x ∧ x ≤ hi ∧ Q x)) :
    ∀ g ∈ gapsOf l, a ≤ g ∧ g ≤ b := by
  intro g hg
  obtain ⟨x, y, hx, hy, hlt, rfl, hbtw⟩ := gaps_adjacent l ((sincr_iff_pairwise l).1 hinc) g hg
  obtain ⟨hx1, hx2, hx3⟩ := (hmem x).1 hx
  obtain ⟨hy1, hy2, hy3⟩ := (hmem y).1 hy
  obtain ⟨z, hz1, hz2, hz3, hz4⟩ := S.next x hx3
  have hzy := hz4 y hy3 hlt
  have ap := S.apos
  have hzl : z ∈ l := (hmem z).2 ⟨by omega, by omega, hz1⟩
  rcases hbtw z hzl with h | h <;> omega

theorem Spaced.count {Q : Int → Prop} {a b : Int} (S : Spaced Q a b) (l : List Int)
    (hinc : strictlyIncreasingB l = true) (lo hi : Int) (hlh : lo ≤ hi)
    (hmem : ∀ x, x ∈ l ↔ (lo ≤ x ∧ x ≤ hi ∧ Q x)) :
    ((l.length : Int) - 1) * a ≤ hi - lo ∧ hi - lo < ((l.length : Int) + 1) * b := by
  have ap := S.apos
  have hg := S.gaps l hinc lo hi hmem
  have hpw := (sincr_iff_pairwise l).1 hinc
  cases l with
  | nil =>
    obtain ⟨y, hy1, hy2, hy3⟩ := S.above lo
    have : ¬ (lo ≤ y ∧ y ≤ hi ∧ Q y) := fun h => by have := (hmem y).2 h; simp at this
    simp only [List.length_nil]
    constructor
    · omega
    · by_cases h : y ≤ hi
      · exact absurd ⟨hy2, h, hy1⟩ this
      · omega
  | cons x r =>
    have sb := span_bounds a b r x hg
    have hx := (hmem x).1 List.mem_cons_self
    have hlast := (hmem _).1 (List.getLast_mem (l := x :: r) (by simp))
    have hmin := head_le_of_sincr r x hpw
    have hmax := le_getLast_of_sincr (x :: r) (by simp) hpw
    generalize (x :: r).getLast (by simp) = z at sb hlast hmax
    simp only [List.length_cons]
    have e0 : (((r.length + 1 : Nat) : Int) - 1) * a = (r.length : Int) * a := by
      rw [Int.natCast_succ]; congr 1; omega
    have e1 : (((r.length + 1 : Nat) : Int) + 1) * b = (r.length : Int) * b + 2 * b := by
      rw [Int.natCast_succ, Int.add_mul, Int.add_mul, Int.one_mul]; omega
    rw [e0, e1]
    -- first tick is within b of lo, last within b of hi
    have hfirst : x < lo + b := by
      obtain ⟨y, hy1, hy2, hy3⟩ := S.above lo
      by_cases h : y ≤ hi
      · have := hmin y ((hmem y).2 ⟨hy2, h, hy1⟩); omega
      · omega
    have hlst : hi < z + b := by
      obtain ⟨y, hy1, hy2, hy3⟩ := S.below hi
      by_cases h : lo ≤ y
      · have := hmax y ((hmem y).2 ⟨h, hy2, hy1⟩); omega
      · omega
    constructor <;> omega

/-! ### families given by an increasing enumeration -/

theorem lt_of_succ_lt (f : Int → Int) (h : ∀ j, f j < f (j + 1)) : ∀ (n : Nat) (i : Int), f i < f (i + n + 1) := by
  intro n
  induction n with
  | zero => intro i; simpa using h i
  | succ n ih =>
    intro i
    have h1 := ih i
    have h2 := h (i + n + 1)
    have e : i + ((n + 1 : Nat) : Int) + 1 = i + n + 1 + 1 := by omega
    rw [e]; omega

theorem lt_of_lt_of_succ (f : Int → Int) (h : ∀ j, f j < f (j + 1)) {i j : Int} (hij : i < j) : f i < f j := by
  have := lt_of_succ_lt f h (j - i - 1).toNat i
  have e : i + ((j - i - 1).toNat : Int) + 1 = j := by omega
  rwa [e] at this

theorem Spaced.of_fun {Q : Int → Prop} (f idx : Int → Int) (a b : Int) (apos : 0 < a)
    (char : ∀ x, Q x ↔ ∃ j, x = f j) (lo : ∀ j, f j + a ≤ f (j + 1)) (hi : ∀ j, f (j + 1) ≤ f j + b)
    (fl : ∀ t, f (idx t) ≤ t) (flt : ∀ t, t < f (idx t + 1)) : Spaced Q a b where
  apos := apos
  next x hx := by
    obtain ⟨j, rfl⟩ := (char x).1 hx
    refine ⟨f (j + 1), (char _).2 ⟨_, rfl⟩, lo j, hi j, ?_⟩
    intro z hz hlt
    obtain ⟨j', rfl⟩ := (char z).1 hz
    have hs : ∀ j, f j < f (j + 1) := fun j => by have := lo j; omega
    by_cases c : j + 1 ≤ j'
    · by_cases c' : j + 1 = j'
      · subst c'; exact Int.le_refl _
      · exact Int.le_of_lt (lt_of_lt_of_succ f hs (by omega))
    · by_cases c' : j' = j
      · subst c'; omega
      · have := lt_of_lt_of_succ f hs (show j' < j by omega); omega
  below t := ⟨f (idx t), (char _).2 ⟨_, rfl⟩, fl t, by have := flt t; have := hi (idx t); omega⟩
  above t := ⟨f (idx (t - 1) + 1), (char _).2 ⟨_, rfl⟩, by have := flt (t - 1); omega,
    by have := fl (t - 1); have := hi (idx (t - 1)); omega⟩

/-- one residue class modulo `S` -/
theorem spaced_residue (S c : Int) (hc : 0 ≤ c) (hcS : c < S) : Spaced (fun x => x % S = c) S S := by
  have hS : 0 < S := by omega
  apply Spaced.of_fun (fun j => j * S + c) (fun t => (t - c) / S) S S hS
  · intro x
    constructor
    · intro h
      refine ⟨x / S, ?_⟩
      have := Int.mul_ediv_add_emod x S
      rw [Int.mul_comm] at this
      show x = x / S * S + c
      omega
    · rintro ⟨j, rfl⟩
      show (j * S + c) % S = c
      rw [Int.add_comm, Int.add_mul_emod_self_right]
      exact Int.emod_eq_of_lt hc hcS
  · intro j; show j * S + c + S ≤ (j + 1) * S + c; rw [Int.add_mul, Int.one_mul]; omega
  · intro j; show (j + 1) * S + c ≤ j * S + c + S; rw [Int.add_mul, Int.one_mul]; omega
  · intro t
    show (t - c) / S * S + c ≤ t
    have := Int.ediv_mul_le (t - c) (Int.ne_of_gt hS); omega
  · intro t
    show t < ((t - c) / S + 1) * S + c
    have := Int.lt_ediv_add_one_mul_self (t - c) hS; omega

/-! ### calendar families -/

theorem fom_step (i : Int) : fom i + 28 ≤ fom (i + 1) ∧ fom (i + 1) ≤ fom i + 31 := by
  rw [fom_succ]
  have := monthLen_bounds (i / 12) ((i % 12).toNat + 1)
  omega

/-- first of every month: 28 to 31 days apart -/
theorem spaced_month1 : Spaced (fun x => isBoundary .month x = true) (28 * 86400000) (31 * 86400000) := by
  have G := grid_month
  apply Spaced.of_fun (fun i => fom i * msPerDay) (fun t => monthIdx (t / msPerDay)) _ _ (by omega)
  · exact G.bdry
  · intro j
    show fom j * msPerDay + 28 * 86400000 ≤ fom (j + 1) * msPerDay
    have := fom_step j; unfold msPerDay; omega
  · intro j
    show fom (j + 1) * msPerDay ≤ fom j * msPerDay + 31 * 86400000
    have := fom_step j; unfold msPerDay; omega
  · exact G.floor_le
  · exact G.floor_lt

theorem numberU_month_fom (i : Int) : numberU .month (fom i * msPerDay) = i % 12 := by
  simp only [numberU]
  rw [mul_ms_div, civil_fom]
  simp only
  omega

/-- first of January, April, July, October -/
theorem spaced_month3 :
    Spaced (fun x => isBoundary .month x = true ∧ ((3 : Int) ≤ 1 ∨ numberU .month x % 3 = 0))
      (84 * 86400000) (93 * 86400000) := by
  have G := grid_month
  apply Spaced.of_fun (fun j => fom (3 * j) * msPerDay) (fun t => monthIdx (t / msPerDay) / 3) _ _ (by omega)
  · intro x
    constructor
    · rintro ⟨hb, hn⟩
      obtain ⟨i, rfl⟩ := (G.bdry x).1 hb
      rw [numberU_month_fom] at hn
      refine ⟨i / 3, ?_⟩
      have e : 3 * (i / 3) = i := by omega
      show fom i * msPerDay = fom (3 * (i / 3)) * msPerDay
      rw [e]
    · rintro ⟨j, rfl⟩
      refine ⟨(G.bdry _).2 ⟨3 * j, rfl⟩, Or.inr ?_⟩
      show numberU .month (fom (3 * j) * msPerDay) % 3 = 0
      rw [numberU_month_fom]; omega
  · intro j
    show fom (3 * j) * msPerDay + 84 * 86400000 ≤ fom (3 * (j + 1)) * msPerDay
    have e : 3 * (j + 1) = 3 * j + 1 + 1 + 1 := by omega
    rw [e]
    have h1 := fom_step (3 * j); have h2 := fom_step (3 * j + 1); have h3 := fom_step (3 * j + 1 + 1)
    unfold msPerDay; omega
  · intro j
    show fom (3 * (j + 1)) * msPerDay ≤ fom (3 * j) * msPerDay + 93 * 86400000
    have e : 3 * (j + 1) = 3 * j + 1 + 1 + 1 := by omega
    rw [e]
    have h1 := fom_step (3 * j); have h2 := fom_step (3 * j + 1); have h3 := fom_step (3 * j + 1 + 1)
    unfold msPerDay; omega
  · intro t
    show fom (3 * (monthIdx (t / msPerDay) / 3)) * msPerDay ≤ t
    have h1 : fom (monthIdx (t / msPerDay)) * msPerDay ≤ t := G.floor_le t
    have h2 : fom (3 * (monthIdx (t / msPerDay) / 3)) * msPerDay ≤ fom (monthIdx (t / msPerDay)) * msPerDay :=
      G.le_of_le (by omega)
    omega
  · intro t
    show t < fom (3 * (monthIdx (t / msPerDay) / 3 + 1)) * msPerDay
    have h1 : t < fom (monthIdx (t / msPerDay) + 1) * msPerDay := G.floor_lt t
    have h2 : fom (monthIdx (t / msPerDay) + 1) * msPerDay ≤ fom (3 * (monthIdx (t / msPerDay) / 3 + 1)) * msPerDay :=
      G.le_of_le (by omega)
    omega

theorem dby_add_bounds (y : Int) (k : Nat) :
    daysBeforeYear y + 365 * (k : Int) ≤ daysBeforeYear (y + k) ∧
      daysBeforeYear (y + k) ≤ daysBeforeYear y + 366 * (k : Int) := by
  induction k with
  | zero => simp
  | succ k ih =>
    have s := daysBeforeYear_succ (y + k)
    have l := yearLen_bounds (y + k)
    have e : y + ((k + 1 : Nat) : Int) = y + k + 1 := by omega
    rw [e]; omega

theorem numberU_year_dby (y : Int) : numberU .year (daysBeforeYear y * msPerDay) = y := by
  simp only [numberU]
  rw [mul_ms_div, civil_dby]

/-- 1 January of the years divisible by `k` -/
theorem spaced_year (k : Nat) (hk : 1 ≤ k) :
    Spaced (fun x => isBoundary .year x = true ∧ ((k : Int) ≤ 1 ∨ numberU .year x % (k : Int) = 0))
      (365 * (k : Int) * 86400000) (366 * (k : Int) * 86400000) := by
  have G := grid_year
  have hk0 : (0 : Int) < k := by omega
  apply Spaced.of_fun (fun j => daysBeforeYear ((k : Int) * j) * msPerDay)
    (fun t => yearOfDay (t / msPerDay) / (k : Int)) _ _ (by omega)
  · intro x
    constructor
    · rintro ⟨hb, hn⟩
      obtain ⟨y, rfl⟩ := (G.bdry x).1 hb
      rw [numberU_year_dby] at hn
      refine ⟨y / (k : Int), ?_⟩
      have hd : (k : Int) ∣ y := by
        rcases hn with h | h
        · have : (k : Int) = 1 := by omega
          rw [this]; exact Int.one_dvd _
        · exact Int.dvd_of_emod_eq_zero h
      show daysBeforeYear y * msPerDay = daysBeforeYear ((k : Int) * (y / (k : Int))) * msPerDay
      rw [Int.mul_ediv_cancel' hd]
    · rintro ⟨j, rfl⟩
      refine ⟨(G.bdry _).2 ⟨(k : Int) * j, rfl⟩, Or.inr ?_⟩
      show numberU .year (daysBeforeYear ((k : Int) * j) * msPerDay) % (k : Int) = 0
      rw [numberU_year_dby]; exact Int.mul_emod_right _ _
  · intro j
    show daysBeforeYear ((k : Int) * j) * msPerDay + 365 * (k : Int) * 86400000 ≤
      daysBeforeYear ((k : Int) * (j + 1)) * msPerDay
    rw [Int.mul_add, Int.mul_one]
    have := dby_add_bounds ((k : Int) * j) k
    unfold msPerDay; omega
  · intro j
    show daysBeforeYear ((k : Int) * (j + 1)) * msPerDay ≤
      daysBeforeYear ((k : Int) * j) * msPerDay + 366 * (k : Int) * 86400000
    rw [Int.mul_add, Int.mul_one]
    have := dby_add_bounds ((k : Int) * j) k
    unfold msPerDay; omega
  · intro t
    show daysBeforeYear ((k : Int) * (yearOfDay (t / msPerDay) / (k : Int))) * msPerDay ≤ t
    have h1 : daysBeforeYear (yearOfDay (t / msPerDay)) * msPerDay ≤ t := G.floor_le t
    have h2 := dby_le_of_le (Int.mul_ediv_self_le (x := yearOfDay (t / msPerDay)) (Int.ne_of_gt hk0))
    unfold msPerDay at *; omega
  · intro t
    show t < daysBeforeYear ((k : Int) * (yearOfDay (t / msPerDay) / (k : Int) + 1)) * msPerDay
    have h1 : t < daysBeforeYear (yearOfDay (t / msPerDay) + 1) * msPerDay := G.floor_lt t
    have h3 := Int.lt_mul_ediv_self_add (x := yearOfDay (t / msPerDay)) hk0
    have h2 := dby_le_of_le (show yearOfDay (t / msPerDay) + 1 ≤
      (k : Int) * (yearOfDay (t / msPerDay) / (k : Int) + 1) by rw [Int.mul_add, Int.mul_one]; omega)
    unfold msPerDay at *; omega

/-! ### every second day of the month -/

/-- 0-based day of the month -/
def domZ (n : Int) : Int := (civil n).2.2 - 1

/-- length of the month with index `i` -/
def mlen (i : Int) : Int := monthLen (i / 12) ((i % 12).toNat + 1)

theorem mlen_bounds (i : Int) : 28 ≤ mlen i ∧ mlen i ≤ 31 := monthLen_bounds _ _

theorem fom_succ' (i : Int) : fom (i + 1) = fom i + mlen i := fom_succ i

theorem domZ_spec (n : Int) : 0 ≤ domZ n ∧ domZ n < mlen (monthIdx n) ∧ n = fom (monthIdx n) + domZ n := by
  have v := civil_valid n
  have e1 : monthIdx n / 12 = (civil n).1 := by unfold monthIdx; omega
  have e2 : (monthIdx n % 12).toNat + 1 = (civil n).2.1 := by unfold monthIdx; omega
  have e3 := fom_monthIdx n
  unfold mlen domZ
  rw [e1, e2, e3]
  have e := v.2.2.2.2
  unfold dayNumber at *
  refine ⟨by omega, by omega, by omega⟩

theorem domZ_fom_add (i d : Int) (h0 : 0 ≤ d) (h1 : d < mlen i) : domZ (fom i + d) = d := by
  have e : fom i + d = dayNumber (i / 12) ((i % 12).toNat + 1) (d + 1) := by unfold fom dayNumber; omega
  unfold domZ
  unfold mlen at h1
  rw [e, civil_dayNumber _ _ _ (by omega) (by omega)]
  simp

theorem domZ_next (n : Int) (h : ¬ domZ n % 2 = 0) : domZ (n + 1) % 2 = 0 := by
  obtain ⟨h0, h1, h2⟩ := domZ_spec n
  by_cases c : domZ n + 1 < mlen (monthIdx n)
  · have e : n + 1 = fom (monthIdx n) + (domZ n + 1) := by omega
    rw [e, domZ_fom_add _ _ (by omega) c]; omega
  · have e : n + 1 = fom (monthIdx n + 1) + 0 := by rw [fom_succ']; omega
    have := mlen_bounds (monthIdx n + 1)
    rw [e, domZ_fom_add _ _ (by omega) (by omega)]; rfl

theorem domZ_prev (n : Int) (h : ¬ domZ n % 2 = 0) : domZ (n - 1) % 2 = 0 := by
  obtain ⟨h0, h1, h2⟩ := domZ_spec n
  have e : n - 1 = fom (monthIdx n) + (domZ n - 1) := by omega
  rw [e, domZ_fom_add _ _ (by omega) (by omega)]; omega

theorem day2_iff (x : Int) :
    (isBoundary .day x = true ∧ ((2 : Int) ≤ 1 ∨ numberU .day x % 2 = 0)) ↔
      (x % 86400000 = 0 ∧ domZ (x / 86400000) % 2 = 0) := by
  simp only [isBoundary, numberU, beq_iff_eq, msPerDay, domZ]
  constructor
  · rintro ⟨a, b⟩; exact ⟨a, by omega⟩
  · rintro ⟨a, b⟩; exact ⟨a, Or.inr b⟩

/-- days 1, 3, 5, … of every month: one or two days apart -/
theorem spaced_day2 :
    Spaced (fun x => isBoundary .day x = true ∧ ((2 : Int) ≤ 1 ∨ numberU .day x % 2 = 0))
      86400000 (2 * 86400000) := by
  apply Spaced.congr (fun x => (day2_iff x).symm)
  refine ⟨by omega, ?_, ?_, ?_⟩
  · rintro x ⟨hx, he⟩
    by_cases c : domZ (x / 86400000 + 1) % 2 = 0
    · refine ⟨x + 86400000, ⟨by omega, ?_⟩, by omega, by omega, ?_⟩
      · have e : (x + 86400000) / 86400000 = x / 86400000 + 1 := by omega
        rw [e]; exact c
      · rintro z ⟨hz, _⟩ hlt; omega
    · refine ⟨x + 2 * 86400000, ⟨by omega, ?_⟩, by omega, by omega, ?_⟩
      · have e : (x + 2 * 86400000) / 86400000 = x / 86400000 + 1 + 1 := by omega
        rw [e]; exact domZ_next _ c
      · rintro z ⟨hz, hze⟩ hlt
        by_cases e : z = x + 86400000
        · have e' : z / 86400000 = x / 86400000 + 1 := by omega
          rw [e'] at hze; exact absurd hze c
        · omega
  · intro t
    by_cases c : domZ (t / 86400000) % 2 = 0
    · refine ⟨t / 86400000 * 86400000, ⟨by omega, ?_⟩, by omega, by omega⟩
      have e : t / 86400000 * 86400000 / 86400000 = t / 86400000 := by omega
      rw [e]; exact c
    · refine ⟨(t / 86400000 - 1) * 86400000, ⟨by omega, ?_⟩, by omega, by omega⟩
      have e : (t / 86400000 - 1) * 86400000 / 86400000 = t / 86400000 - 1 := by omega
      rw [e]; exact domZ_prev _ c
  · intro t
    by_cases c : domZ ((t + 86399999) / 86400000) % 2 = 0
    · refine ⟨(t + 86399999) / 86400000 * 86400000, ⟨by omega, ?_⟩, by omega, by omega⟩
      have e : (t + 86399999) / 86400000 * 86400000 / 86400000 = (t + 86399999) / 86400000 := by omega
      rw [e]; exact c
    · refine ⟨((t + 86399999) / 86400000 + 1) * 86400000, ⟨by omega, ?_⟩, by omega, by omega⟩
      have e : ((t + 86399999) / 86400000 + 1) * 86400000 / 86400000 = (t + 86399999) / 86400000 + 1 := by omega
      rw [e]; exact domZ_next _ c

/-! ### the linear step of the millisecond and multi-year branches -/

open Scale in
theorem tickStep_nat (span m : Rat) (hs : 0 < span) (hm : 0 < m) (h1 : 1 ≤ tickStep span m) :
    ∃ z j : Nat, 1 ≤ z ∧ (z = 10 ^ j ∨ z = 2 * 10 ^ j ∨ z = 5 * 10 ^ j) ∧ tickStep span m = (z : Rat) := by
  obtain ⟨k, hk⟩ := tickStep_form span m hs hm
  by_cases hk0 : 0 ≤ k
  · have e : pow10 k = ((10 ^ k.toNat : Nat) : Rat) := by
      have := pow10_natCast k.toNat
      rw [Int.toNat_of_nonneg hk0] at this
      rw [this]; push_cast; rfl
    have hp : 1 ≤ 10 ^ k.toNat := Nat.one_le_pow _ _ (by omega)
    rcases hk with h | h | h
    · exact ⟨10 ^ k.toNat, k.toNat, hp, Or.inl rfl, by rw [h, e]⟩
    · exact ⟨2 * 10 ^ k.toNat, k.toNat, by omega, Or.inr (Or.inl rfl), by rw [h, e]; push_cast; ring⟩
    · exact ⟨5 * 10 ^ k.toNat, k.toNat, by omega, Or.inr (Or.inr rfl), by rw [h, e]; push_cast; ring⟩
  · exfalso
    have h10 : pow10 k ≤ pow10 (-1) := (pow10_le_iff _ _).2 (by omega)
    have e : pow10 (-1) = 1 / 10 := by
      have := pow10_neg_natCast 1
      simpa using this
    rw [e] at h10
    rcases hk with h | h | h <;> rw [h] at h1 <;> linarith

open Scale in
theorem tickStep_ge_one (span m : Rat) (hs : 0 < span) (hm : 0 < m) (h : 1 ≤ span / m) : 1 ≤ tickStep span m := by
  have h0 : floorLog10 1 = 0 := floorLog10_eq 1 0 (by rw [pow10_zero]) (by rw [pow10_succ, pow10_zero]; norm_num)
  have h1 := floorLog10_mono 1 (span / m) (by norm_num) h
  rw [h0] at h1
  have h2 := (tickStep_between span m hs hm).1
  have h3 : pow10 0 ≤ pow10 (floorLog10 (span / m)) := (pow10_le_iff _ _).2 h1
  rw [pow10_zero] at h3
  linarith

theorem linStep_of_lt (lo hi m : Rat) (h : lo < hi) : linStep lo hi m = Scale.tickStep (hi - lo) m := by
  unfold linStep; exact Scale.tickRange_step_of_lt lo hi m h

theorem linStep_self (lo m : Rat) : linStep lo lo m = 0 := by
  unfold linStep Scale.tickRange Scale.extent
  simp

/-! ### alignment -/

/-- `alignedB` for one tick, as a proposition -/
def AlignedAt (g x : Int) : Prop :=
  (g < 1000 ∨ isBoundary .second x = true) ∧ (g < 60000 ∨ isBoundary .minute x = true) ∧
  (g < 3600000 ∨ isBoundary .hour x = true) ∧ (g < 86400000 ∨ isBoundary .day x = true) ∧
  (g < 28 * 86400000 ∨ isBoundary .month x = true) ∧ (g < 365 * 86400000 ∨ isBoundary .year x = true)

theorem alignedB_iff (g : Int) (l : List Int) : alignedB g l = true ↔ ∀ t ∈ l, AlignedAt g t := by
  unfold alignedB AlignedAt
  simp only [List.all_eq_true, Bool.and_eq_true, Bool.or_eq_true, decide_eq_true_eq, and_assoc]

theorem AlignedAt.mono {g g' x : Int} (h : g ≤ g') (A : AlignedAt g' x) : AlignedAt g x := by
  obtain ⟨a1, a2, a3, a4, a5, a6⟩ := A
  refine ⟨?_, ?_, ?_, ?_, ?_, ?_⟩
  · rcases a1 with h' | h'; exact Or.inl (by omega); exact Or.inr h'
  · rcases a2 with h' | h'; exact Or.inl (by omega); exact Or.inr h'
  · rcases a3 with h' | h'; exact Or.inl (by omega); exact Or.inr h'
  · rcases a4 with h' | h'; exact Or.inl (by omega); exact Or.inr h'
  · rcases a5 with h' | h'; exact Or.inl (by omega); exact Or.inr h'
  · rcases a6 with h' | h'; exact Or.inl (by omega); exact Or.inr h'

theorem bdry_hierarchy (t : Int) :
    (isBoundary .year t = true → isBoundary .month t = true) ∧
    (isBoundary .month t = true → isBoundary .day t = true) ∧
    (isBoundary .week t = true → isBoundary .day t = true) ∧
    (isBoundary .day t = true → isBoundary .hour t = true) ∧
    (isBoundary .hour t = true → isBoundary .minute t = true) ∧
    (isBoundary .minute t = true → isBoundary .second t = true) := by
  simp only [isBoundary, beq_iff_eq, Bool.and_eq_true, msPerDay]
  refine ⟨fun h => h.1, fun h => h.1, fun h => h.1, ?_, ?_, ?_⟩ <;> omega

/-- the spacing below which a unit's boundaries satisfy every alignment requirement -/
def alignThr : TUnit → Int
  | .second => 60000 | .minute => 3600000 | .hour => 86400000 | .day => 28 * 86400000
  | .week => 28 * 86400000 | .month => 365 * 86400000 | .year => 365 * 86400000

theorem aligned_of_boundary (u : TUnit) (x g : Int) (hx : isBoundary u x = true) (hg : u = .year ∨ g < alignThr u) :
    AlignedAt g x := by
  obtain ⟨h1, h2, h3, h4, h5, h6⟩ := bdry_hierarchy x
  unfold AlignedAt
  cases u
  · have hg : g < 60000 := by rcases hg with h | h; exact absurd h (by simp); exact h
    exact ⟨Or.inr hx, Or.inl hg, Or.inl (by omega), Or.inl (by omega), Or.inl (by omega), Or.inl (by omega)⟩
  · have hg : g < 3600000 := by rcases hg with h | h; exact absurd h (by simp); exact h
    exact ⟨Or.inr (h6 hx), Or.inr hx, Or.inl hg, Or.inl (by omega), Or.inl (by omega), Or.inl (by omega)⟩
  · have hg : g < 86400000 := by rcases hg with h | h; exact absurd h (by simp); exact h
    exact ⟨Or.inr (h6 (h5 hx)), Or.inr (h5 hx), Or.inr hx, Or.inl hg, Or.inl (by omega), Or.inl (by omega)⟩
  · have hg : g < 28 * 86400000 := by rcases hg with h | h; exact absurd h (by simp); exact h
    exact ⟨Or.inr (h6 (h5 (h4 hx))), Or.inr (h5 (h4 hx)), Or.inr (h4 hx), Or.inr hx, Or.inl hg, Or.inl (by omega)⟩
  · have hg : g < 28 * 86400000 := by rcases hg with h | h; exact absurd h (by simp); exact h
    have hd := h3 hx
    exact ⟨Or.inr (h6 (h5 (h4 hd))), Or.inr (h5 (h4 hd)), Or.inr (h4 hd), Or.inr hd, Or.inl hg, Or.inl (by omega)⟩
  · have hg : g < 365 * 86400000 := by rcases hg with h | h; exact absurd h (by simp); exact h
    have hd := h2 hx
    exact ⟨Or.inr (h6 (h5 (h4 hd))), Or.inr (h5 (h4 hd)), Or.inr (h4 hd), Or.inr hd, Or.inr hx, Or.inl hg⟩
  · have hm := h1 hx
    have hd := h2 hm
    exact ⟨Or.inr (h6 (h5 (h4 hd))), Or.inr (h5 (h4 hd)), Or.inr (h4 hd), Or.inr hd, Or.inr hm, Or.inr hx⟩

/-! ### the three branches of `tickMethod` -/

/-- table entry `p` as a method -/
def entry (p : Nat) : Method :=
  match Gen.timeScaleMethods[p]? with
  | some (n, k) => .cal (unitOfName n) k
  | none => .cal .year 1

theorem bisect_le (steps : List Rat) (x : Rat) : bisectRight steps x ≤ steps.length :=
  (List.takeWhile_sublist _).length_le

theorem tickMethod_cases (e0 e1 : Int) (m : Rat) :
    (bisectRight Gen.timeScaleSteps (((e1 - e0 : Int) : Rat) / m) = 18 ∧
      tickMethod e0 e1 m = .cal .year (linStep ((e0 : Rat) / Gen.yearMillis) ((e1 : Rat) / Gen.yearMillis) m)) ∨
    (bisectRight Gen.timeScaleSteps (((e1 - e0 : Int) : Rat) / m) = 0 ∧
      tickMethod e0 e1 m = .ms (linStep e0 e1 m)) ∨
    (0 < bisectRight Gen.timeScaleSteps (((e1 - e0 : Int) : Rat) / m) ∧
      bisectRight Gen.timeScaleSteps (((e1 - e0 : Int) : Rat) / m) < 18 ∧
      tickMethod e0 e1 m = entry
        (if (((e1 - e0 : Int) : Rat) / m) /
              Gen.timeScaleSteps.getD (bisectRight Gen.timeScaleSteps (((e1 - e0 : Int) : Rat) / m) - 1) 1 <
            Gen.timeScaleSteps.getD (bisectRight Gen.timeScaleSteps (((e1 - e0 : Int) : Rat) / m)) 1 /
              (((e1 - e0 : Int) : Rat) / m)
         then bisectRight Gen.timeScaleSteps (((e1 - e0 : Int) : Rat) / m) - 1
         else bisectRight Gen.timeScaleSteps (((e1 - e0 : Int) : Rat) / m))) := by
  have hle := bisect_le Gen.timeScaleSteps (((e1 - e0 : Int) : Rat) / m)
  have hlen : Gen.timeScaleSteps.length = 18 := rfl
  unfold tickMethod
  simp only
  split
  · rename_i h; left; exact ⟨by omega, rfl⟩
  · split
    · rename_i h; right; left; exact ⟨h, rfl⟩
    · right; right; exact ⟨by omega, by omega, rfl⟩

/-! ### the calendar families of the step table -/

/-- what `rangeU` keeps: boundaries of the unit whose unit number is divisible by the skip -/
def Qcal (u : TUnit) (k : Int) (x : Int) : Prop := isBoundary u x = true ∧ (k ≤ 1 ∨ numberU u x % k = 0)

/-- spacing data of the calendar method `(u, k)` with nominal step `S` -/
structure CalFam (u : TUnit) (k : Int) (S : Rat) (a b : Int) : Prop where
  sp : Spaced (Qcal u k) a b
  ratio : b ≤ 2 * a
  thr : u = .year ∨ b < alignThr u
  Spos : 0 < S
  dn : 5 * ((b : Rat) * b) ≤ 144 / 25 * (S * S)

theorem calfam_uniform (u : TUnit) (k S : Int) (c : Int) (hQ : ∀ x, Qcal u k x ↔ x % S = c) (hc : 0 ≤ c) (hcS : c < S)
    (thr : u = .year ∨ S < alignThr u) : CalFam u k (S : Rat) S S where
  sp := Spaced.congr (fun x => (hQ x).symm) (spaced_residue S c hc hcS)
  ratio := by omega
  thr := thr
  Spos := by exact_mod_cast (show 0 < S by omega)
  dn := by nlinarith [mul_self_nonneg (S : Rat)]

theorem calfam_table (p : Nat) (hp : p < 18) :
    ∃ (u : TUnit) (k a b : Int), 1 ≤ k ∧ entry p = .cal u (k : Rat) ∧ CalFam u k (Gen.timeScaleSteps.getD p 1) a b ∧
      (5 * (Gen.timeScaleSteps.getD p 1 * Gen.timeScaleSteps.getD p 1) ≤ 144 / 25 * ((a : Rat) * a) ∨
        (p = 13 ∧ u = .day ∧ k = 2 ∧ a = 86400000)) := by
  interval_cases p
  · refine ⟨.second, 1, 1000, 1000, by omega, by simp [entry, Gen.timeScaleMethods, unitOfName], ?_, Or.inl ?_⟩
    · have := calfam_uniform .second 1 1000 0 (fun x => uniform_second 1 x (by omega)) (by omega) (by omega)
        (Or.inr (by decide))
      simpa [Gen.timeScaleSteps] using this
    · simp [Gen.timeScaleSteps]; norm_num
  · refine ⟨.second, 5, 5000, 5000, by omega, by simp [entry, Gen.timeScaleMethods, unitOfName], ?_, Or.inl ?_⟩
    · have := calfam_uniform .second 5 5000 0 (fun x => uniform_second 5 x (by omega)) (by omega) (by omega)
        (Or.inr (by decide))
      simpa [Gen.timeScaleSteps] using this
    · simp [Gen.timeScaleSteps]; norm_num
  · refine ⟨.second, 15, 15000, 15000, by omega, by simp [entry, Gen.timeScaleMethods, unitOfName], ?_, Or.inl ?_⟩
    · have := calfam_uniform .second 15 15000 0 (fun x => uniform_second 15 x (by omega)) (by omega) (by omega)
        (Or.inr (by decide))
      simpa [Gen.timeScaleSteps] using this
    · simp [Gen.timeScaleSteps]; norm_num
  · refine ⟨.second, 30, 30000, 30000, by omega, by simp [entry, Gen.timeScaleMethods, unitOfName], ?_, Or.inl ?_⟩
    · have := calfam_uniform .second 30 30000 0 (fun x => uniform_second 30 x (by omega)) (by omega) (by omega)
        (Or.inr (by decide))
      simpa [Gen.timeScaleSteps] using this
    · simp [Gen.timeScaleSteps]; norm_num
  · refine ⟨.minute, 1, 60000, 60000, by omega, by simp [entry, Gen.timeScaleMethods, unitOfName], ?_, Or.inl ?_⟩
    · have := calfam_uniform .minute 1 60000 0 (fun x => uniform_minute 1 x (by omega)) (by omega) (by omega)
        (Or.inr (by decide))
      simpa [Gen.timeScaleSteps] using this
    · simp [Gen.timeScaleSteps]; norm_num
  · refine ⟨.minute, 5, 300000, 300000, by omega, by simp [entry, Gen.timeScaleMethods, unitOfName], ?_, Or.inl ?_⟩
    · have := calfam_uniform .minute 5 300000 0 (fun x => uniform_minute 5 x (by omega)) (by omega) (by omega)
        (Or.inr (by decide))
      simpa [Gen.timeScaleSteps] using this
    · simp [Gen.timeScaleSteps]; norm_num
  · refine ⟨.minute, 15, 900000, 900000, by omega, by simp [entry, Gen.timeScaleMethods, unitOfName], ?_, Or.inl ?_⟩
    · have := calfam_uniform .minute 15 900000 0 (fun x => uniform_minute 15 x (by omega)) (by omega) (by omega)
        (Or.inr (by decide))
      simpa [Gen.timeScaleSteps] using this
    · simp [Gen.timeScaleSteps]; norm_num
  · refine ⟨.minute, 30, 1800000, 1800000, by omega, by simp [entry, Gen.timeScaleMethods, unitOfName], ?_, Or.inl ?_⟩
    · have := calfam_uniform .minute 30 1800000 0 (fun x => uniform_minute 30 x (by omega)) (by omega) (by omega)
        (Or.inr (by decide))
      simpa [Gen.timeScaleSteps] using this
    · simp [Gen.timeScaleSteps]; norm_num
  · refine ⟨.hour, 1, 3600000, 3600000, by omega, by simp [entry, Gen.timeScaleMethods, unitOfName], ?_, Or.inl ?_⟩
    · have := calfam_uniform .hour 1 3600000 0 (fun x => uniform_hour 1 x (by omega)) (by omega) (by omega)
        (Or.inr (by decide))
      simpa [Gen.timeScaleSteps] using this
    · simp [Gen.timeScaleSteps]; norm_num
  · refine ⟨.hour, 3, 10800000, 10800000, by omega, by simp [entry, Gen.timeScaleMethods, unitOfName], ?_, Or.inl ?_⟩
    · have := calfam_uniform .hour 3 10800000 0 (fun x => uniform_hour 3 x (by omega)) (by omega) (by omega)
        (Or.inr (by decide))
      simpa [Gen.timeScaleSteps] using this
    · simp [Gen.timeScaleSteps]; norm_num
  · refine ⟨.hour, 6, 21600000, 21600000, by omega, by simp [entry, Gen.timeScaleMethods, unitOfName], ?_, Or.inl ?_⟩
    · have := calfam_uniform .hour 6 21600000 0 (fun x => uniform_hour 6 x (by omega)) (by omega) (by omega)
        (Or.inr (by decide))
      simpa [Gen.timeScaleSteps] using this
    · simp [Gen.timeScaleSteps]; norm_num
  · refine ⟨.hour, 12, 43200000, 43200000, by omega, by simp [entry, Gen.timeScaleMethods, unitOfName], ?_, Or.inl ?_⟩
    · have := calfam_uniform .hour 12 43200000 0 (fun x => uniform_hour 12 x (by omega)) (by omega) (by omega)
        (Or.inr (by decide))
      simpa [Gen.timeScaleSteps] using this
    · simp [Gen.timeScaleSteps]; norm_num
  · refine ⟨.day, 1, 86400000, 86400000, by omega, by simp [entry, Gen.timeScaleMethods, unitOfName], ?_, Or.inl ?_⟩
    · have := calfam_uniform .day 1 86400000 0 (fun x => uniform_day x) (by omega) (by omega)
        (Or.inr (by decide))
      simpa [Gen.timeScaleSteps] using this
    · simp [Gen.timeScaleSteps]; norm_num
  · refine ⟨.day, 2, 86400000, 172800000, by omega, by simp [entry, Gen.timeScaleMethods, unitOfName], ?_,
      Or.inr ⟨rfl, rfl, rfl, rfl⟩⟩
    refine ⟨spaced_day2, by omega, Or.inr (by decide), by simp [Gen.timeScaleSteps], ?_⟩
    simp [Gen.timeScaleSteps]; norm_num
  · refine ⟨.week, 1, 604800000, 604800000, by omega, by simp [entry, Gen.timeScaleMethods, unitOfName], ?_, Or.inl ?_⟩
    · have := calfam_uniform .week 1 604800000 259200000 (fun x => uniform_week x) (by omega) (by omega)
        (Or.inr (by decide))
      simpa [Gen.timeScaleSteps] using this
    · simp [Gen.timeScaleSteps]; norm_num
  · refine ⟨.month, 1, 2419200000, 2678400000, by omega, by simp [entry, Gen.timeScaleMethods, unitOfName], ?_, Or.inl ?_⟩
    · refine ⟨?_, by omega, Or.inr (by decide), by simp [Gen.timeScaleSteps], ?_⟩
      · exact Spaced.congr (fun x => by simp [Qcal]) spaced_month1
      · simp [Gen.timeScaleSteps]; norm_num
    · simp [Gen.timeScaleSteps]; norm_num
  · refine ⟨.month, 3, 7257600000, 8035200000, by omega, by simp [entry, Gen.timeScaleMethods, unitOfName], ?_, Or.inl ?_⟩
    · refine ⟨spaced_month3, by omega, Or.inr (by decide), by simp [Gen.timeScaleSteps], ?_⟩
      simp [Gen.timeScaleSteps]; norm_num
    · simp [Gen.timeScaleSteps]; norm_num
  · refine ⟨.year, 1, 31536000000, 31622400000, by omega, by simp [entry, Gen.timeScaleMethods, unitOfName], ?_, Or.inl ?_⟩
    · refine ⟨?_, by omega, Or.inl rfl, by simp [Gen.timeScaleSteps], ?_⟩
      · have := Spaced.congr (Q' := Qcal .year 1) (fun x => by simp [Qcal]) (spaced_year 1 (by omega))
        simpa using this
      · simp [Gen.timeScaleSteps]; norm_num
    · simp [Gen.timeScaleSteps]; norm_num

/-! ### one description for every method -/

/-- the target spacing `span / count` -/
def target (d0 d1 : Int) (m : Rat) : Rat := ((max d0 d1 - min d0 d1 : Int) : Rat) / m

/-- everything the C16 predicates need to know about the ticks of one domain and count -/
structure Row (d0 d1 : Int) (m : Rat) (Q : Int → Prop) (a b : Int) : Prop where
  sp : Spaced Q a b
  mem : ∀ x, x ∈ ticks d0 d1 m ↔ (min d0 d1 ≤ x ∧ x ≤ max d0 d1 ∧ Q x)
  ratio : b ≤ 2 * a
  align : ∀ x, Q x → AlignedAt b x
  up : (∃ S : Rat, target d0 d1 m * target d0 d1 m < 5 * (S * S) ∧ 5 * (S * S) ≤ 144 / 25 * ((a : Rat) * a)) ∨
    (Q = Qcal .day 2 ∧ a = 86400000 ∧ target d0 d1 m * target d0 d1 m < 14 * (86400000 * 86400000))
  down : (∃ S : Rat, 0 < S ∧ S * S ≤ 5 * (target d0 d1 m * target d0 d1 m) ∧
      5 * ((b : Rat) * b) ≤ 144 / 25 * (S * S)) ∨ (b = 1 ∧ ∀ x, Q x)

theorem target_nonneg (d0 d1 : Int) (m : Rat) (hm : 0 < m) : 0 ≤ target d0 d1 m := by
  unfold target
  apply div_nonneg _ hm.le
  exact_mod_cast (show (0 : Int) ≤ max d0 d1 - min d0 d1 by omega)

theorem cal_mem (d0 d1 : Int) (m : Rat) (u : TUnit) (k : Int) (hk : 1 ≤ k)
    (h : tickMethod (min d0 d1) (max d0 d1) m = .cal u (k : Rat)) (x : Int) :
    x ∈ ticks d0 d1 m ↔ (min d0 d1 ≤ x ∧ x ≤ max d0 d1 ∧ Qcal u k x) := by
  have e : effSkip (k : Rat) = k := effSkip_of_ge (by exact_mod_cast hk)
  rw [ticks_cal_mem d0 d1 m u _ h (by rw [e]; exact Rat.den_intCast k), e, Rat.num_intCast]
  unfold Qcal
  constructor
  · rintro ⟨a, b, c, d⟩; exact ⟨b, c, a, d⟩
  · rintro ⟨b, c, a, d⟩; exact ⟨a, b, c, d⟩

theorem row_table (d0 d1 : Int) (m : Rat)
    (h0 : 0 < bisectRight Gen.timeScaleSteps (target d0 d1 m))
    (h18 : bisectRight Gen.timeScaleSteps (target d0 d1 m) < 18)
    (h : tickMethod (min d0 d1) (max d0 d1) m = entry
        (if target d0 d1 m / Gen.timeScaleSteps.getD (bisectRight Gen.timeScaleSteps (target d0 d1 m) - 1) 1 <
            Gen.timeScaleSteps.getD (bisectRight Gen.timeScaleSteps (target d0 d1 m)) 1 / target d0 d1 m
         then bisectRight Gen.timeScaleSteps (target d0 d1 m) - 1
         else bisectRight Gen.timeScaleSteps (target d0 d1 m))) :
    ∃ Q a b, Row d0 d1 m Q a b := by
  have sp := bisect_spec (target d0 d1 m) Gen.timeScaleSteps
  generalize hTe : target d0 d1 m = T at *
  generalize hi : bisectRight Gen.timeScaleSteps T = i at *
  have ta := table_adjacent i h0 h18
  have hlo := sp.1 (i - 1) (by omega)
  have hhi := sp.2 h18
  have nt := near_target_core _ _ T ta.1 hlo hhi ta.2
  have hT : 0 < T := lt_of_lt_of_le ta.1 hlo
  -- the special fact for day/2
  have h13 : (if T / Gen.timeScaleSteps.getD (i - 1) 1 < Gen.timeScaleSteps.getD i 1 / T then i - 1 else i) = 13 →
      T * T < 14 * (86400000 * 86400000) := by
    intro hp
    by_cases c : T / Gen.timeScaleSteps.getD (i - 1) 1 < Gen.timeScaleSteps.getD i 1 / T
    · rw [if_pos c] at hp
      have hi14 : i = 14 := by omega
      subst hi14
      rw [div_lt_div_iff₀ ta.1 hT] at c
      simp [Gen.timeScaleSteps] at c
      linarith
    · rw [if_neg c] at hp
      subst hp
      simp [Gen.timeScaleSteps] at hhi
      nlinarith
  generalize hp : (if T / Gen.timeScaleSteps.getD (i - 1) 1 < Gen.timeScaleSteps.getD i 1 / T then i - 1 else i) = p at *
  have hp18 : p < 18 := by rw [← hp]; split <;> omega
  have hS : (if T / Gen.timeScaleSteps.getD (i - 1) 1 < Gen.timeScaleSteps.getD i 1 / T then
      Gen.timeScaleSteps.getD (i - 1) 1 else Gen.timeScaleSteps.getD i 1) = Gen.timeScaleSteps.getD p 1 := by
    rw [← hp]; split <;> rfl
  rw [hS] at nt
  obtain ⟨u, k, a, b, hk, he, F, Fup⟩ := calfam_table p hp18
  rw [he] at h
  subst hTe
  refine ⟨Qcal u k, a, b, F.sp, cal_mem d0 d1 m u k hk h, F.ratio, ?_, ?_, ?_⟩
  · intro x hx
    exact aligned_of_boundary u x b hx.1 F.thr
  · rcases Fup with hup | ⟨hp13, hu, hk2, ha⟩
    · exact Or.inl ⟨_, nt.2, hup⟩
    · subst hu hk2
      exact Or.inr ⟨rfl, ha, h13 hp13⟩
  · exact Or.inl ⟨_, F.Spos, nt.1, F.dn⟩

theorem near_of_lin (T w : Rat) (hT : 0 ≤ T) (h1 : 6999 / 10000 * T < w) (h2 : w ≤ 7 / 4 * T) :
    T * T < 5 * (w * w) ∧ w * w ≤ 5 * (T * T) := by
  have hw : 0 < w := by nlinarith
  have a := mul_self_lt_mul_self (by positivity : (0 : Rat) ≤ 6999 / 10000 * T) h1
  have b := mul_self_le_mul_self hw.le h2
  constructor <;> nlinarith [mul_self_nonneg T, mul_self_nonneg w]

theorem lin_bounds (T m Y z : Rat) (hm : 0 < m) (hY : 0 < Y) (b1 : 6999 / 10000 * (T * m / Y) < m * z)
    (b2 : m * z ≤ 7 / 4 * (T * m / Y)) : 6999 / 10000 * T < z * Y ∧ z * Y ≤ 7 / 4 * T := by
  have e1 : 6999 / 10000 * (T * m / Y) = m * (6999 / 10000 * T / Y) := by ring
  have e2 : 7 / 4 * (T * m / Y) = m * (7 / 4 * T / Y) := by ring
  rw [e1] at b1
  rw [e2] at b2
  have h1 := lt_of_mul_lt_mul_left b1 hm.le
  have h2 := le_of_mul_le_mul_left b2 hm
  rw [div_lt_iff₀ hY] at h1
  rw [le_div_iff₀ hY] at h2
  exact ⟨h1, h2⟩

theorem span_eq (d0 d1 : Int) (m : Rat) (hm : 0 < m) :
    ((max d0 d1 : Int) : Rat) - ((min d0 d1 : Int) : Rat) = target d0 d1 m * m := by
  unfold target
  rw [div_mul_cancel₀ _ hm.ne']
  push_cast; ring

theorem row_year (d0 d1 : Int) (m : Rat) (hm : 0 < m)
    (hb : bisectRight Gen.timeScaleSteps (target d0 d1 m) = 18)
    (h : tickMethod (min d0 d1) (max d0 d1) m =
      .cal .year (linStep (((min d0 d1 : Int) : Rat) / Gen.yearMillis) (((max d0 d1 : Int) : Rat) / Gen.yearMillis) m)) :
    ∃ Q a b, Row d0 d1 m Q a b := by
  have sp := (bisect_spec (target d0 d1 m) Gen.timeScaleSteps).1 17 (by omega)
  have hT : (31536000000 : Rat) ≤ target d0 d1 m := by simpa [Gen.timeScaleSteps] using sp
  have hT0 := target_nonneg d0 d1 m hm
  have hsp := span_eq d0 d1 m hm
  have hY : Gen.yearMillis = 31536000000 := rfl
  rw [hY] at h
  have hlt : ((min d0 d1 : Int) : Rat) / 31536000000 < ((max d0 d1 : Int) : Rat) / 31536000000 := by
    apply div_lt_div_of_pos_right _ (by norm_num)
    nlinarith
  rw [linStep_of_lt _ _ _ hlt] at h
  have hspan' : ((max d0 d1 : Int) : Rat) / 31536000000 - ((min d0 d1 : Int) : Rat) / 31536000000 =
      target d0 d1 m * m / 31536000000 := by rw [← hsp]; ring
  rw [hspan'] at h
  have hpos : 0 < target d0 d1 m * m / 31536000000 := by
    apply div_pos _ (by norm_num); nlinarith
  have hq : 1 ≤ target d0 d1 m * m / 31536000000 / m := by
    have : target d0 d1 m * m / 31536000000 / m = target d0 d1 m / 31536000000 := by field_simp
    rw [this, le_div_iff₀ (by norm_num)]; linarith
  obtain ⟨z, j, hz1, -, hz⟩ := tickStep_nat _ m hpos hm (tickStep_ge_one _ m hpos hm hq)
  have bd := Scale.tickStep_bounds _ m hpos hm
  rw [hz] at bd h
  obtain ⟨l1, l2⟩ := lin_bounds _ m 31536000000 z hm (by norm_num) bd.1 bd.2
  obtain ⟨n1, n2⟩ := near_of_lin _ _ hT0 l1 l2
  have hzq : (0 : Rat) < z := by exact_mod_cast hz1
  have hc : ((z : Nat) : Rat) = (((z : Nat) : Int) : Rat) := by push_cast; rfl
  rw [hc] at h
  refine ⟨Qcal .year (z : Int), 365 * (z : Int) * 86400000, 366 * (z : Int) * 86400000, spaced_year z hz1,
    cal_mem d0 d1 m .year z (by omega) h, by omega, ?_, Or.inl ⟨z * 31536000000, n1, ?_⟩,
    Or.inl ⟨z * 31536000000, by positivity, n2, ?_⟩⟩
  · intro x hx
    exact aligned_of_boundary .year x _ hx.1 (Or.inl rfl)
  · push_cast; nlinarith [mul_self_nonneg (z : Rat)]
  · push_cast; nlinarith [mul_self_nonneg (z : Rat)]

theorem form_lt_1750 (z j : Nat) (hf : z = 10 ^ j ∨ z = 2 * 10 ^ j ∨ z = 5 * 10 ^ j) (hz : z < 1750) :
    z < 1000 ∨ z = 1000 := by
  have hj : j < 4 := by
    by_contra hc
    have : 10 ^ 4 ≤ 10 ^ j := Nat.pow_le_pow_right (by omega) (by omega)
    omega
  interval_cases j <;> omega

theorem aligned_ms (st x : Int) (h1 : 1 ≤ st) (hst : st < 1000 ∨ st = 1000) (hx : x % st = 0) : AlignedAt st x := by
  unfold AlignedAt
  rcases hst with h | h
  · exact ⟨Or.inl h, Or.inl (by omega), Or.inl (by omega), Or.inl (by omega), Or.inl (by omega), Or.inl (by omega)⟩
  · subst h
    refine ⟨Or.inr ?_, Or.inl (by omega), Or.inl (by omega), Or.inl (by omega), Or.inl (by omega), Or.inl (by omega)⟩
    simp [isBoundary, hx]

theorem ms_step_lt (s : Rat) (h : s < 1) : (if (effSkip s).floor < 1 then 1 else (effSkip s).floor) = 1 := by
  have e : effSkip s = ((1 : Int) : Rat) := by unfold effSkip; rw [if_pos h]; norm_num
  rw [e, Rat.floor_intCast]; rfl

theorem ms_step_nat (s : Rat) (z : Nat) (hz : 1 ≤ z) (h : s = (z : Rat)) :
    (if (effSkip s).floor < 1 then 1 else (effSkip s).floor) = (z : Int) := by
  have e : effSkip s = (((z : Nat) : Int) : Rat) := by
    rw [effSkip_of_ge (by rw [h]; exact_mod_cast hz), h]; push_cast; rfl
  rw [e, Rat.floor_intCast, if_neg (by omega)]

theorem row_ms (d0 d1 : Int) (m : Rat) (hm : 0 < m)
    (hb : bisectRight Gen.timeScaleSteps (target d0 d1 m) = 0)
    (h : tickMethod (min d0 d1) (max d0 d1) m = .ms (linStep ((min d0 d1 : Int) : Rat) ((max d0 d1 : Int) : Rat) m)) :
    ∃ Q a b, Row d0 d1 m Q a b := by
  have sp := (bisect_spec (target d0 d1 m) Gen.timeScaleSteps).2 (by rw [hb]; decide)
  rw [hb] at sp
  have hT : target d0 d1 m < 1000 := by simpa [Gen.timeScaleSteps] using sp
  have hT0 := target_nonneg d0 d1 m hm
  have hsp := span_eq d0 d1 m hm
  have mem := ticks_ms_mem d0 d1 m _ h
  -- the step is 1, or an integer 1, 2, 5 × 10^j close to the target
  have key : ∃ st : Int, (if (effSkip (linStep ((min d0 d1 : Int) : Rat) ((max d0 d1 : Int) : Rat) m)).floor < 1 then 1
        else (effSkip (linStep ((min d0 d1 : Int) : Rat) ((max d0 d1 : Int) : Rat) m)).floor) = st ∧ 1 ≤ st ∧
      (st < 1000 ∨ st = 1000) ∧
      target d0 d1 m * target d0 d1 m < 5 * ((st : Rat) * st) ∧
      (st = 1 ∨ (st : Rat) * st ≤ 5 * (target d0 d1 m * target d0 d1 m)) := by
    by_cases heq : min d0 d1 = max d0 d1
    · refine ⟨1, ?_, by omega, by omega, ?_, Or.inl rfl⟩
      · rw [heq, linStep_self]; exact ms_step_lt 0 (by norm_num)
      · have : target d0 d1 m = 0 := by unfold target; rw [heq]; simp
        rw [this]; norm_num
    · have hlt : ((min d0 d1 : Int) : Rat) < ((max d0 d1 : Int) : Rat) := by
        exact_mod_cast (show min d0 d1 < max d0 d1 by omega)
      rw [linStep_of_lt _ _ _ hlt, hsp]
      have hpos : 0 < target d0 d1 m * m := by rw [← hsp]; linarith
      have bd := Scale.tickStep_bounds _ m hpos hm
      by_cases h1 : Scale.tickStep (target d0 d1 m * m) m < 1
      · refine ⟨1, ms_step_lt _ h1, by omega, by omega, ?_, Or.inl rfl⟩
        have : 6999 / 10000 * target d0 d1 m < 1 := by
          have : m * (6999 / 10000 * target d0 d1 m) < m * 1 := by nlinarith [bd.1]
          exact lt_of_mul_lt_mul_left this hm.le
        push_cast
        nlinarith
      · obtain ⟨z, j, hz1, hf, hz⟩ := tickStep_nat _ m hpos hm (not_lt.mp h1)
        rw [hz] at bd
        have e1 : 6999 / 10000 * (target d0 d1 m * m) = 6999 / 10000 * (target d0 d1 m * m / 1) := by ring
        have e2 : 7 / 4 * (target d0 d1 m * m) = 7 / 4 * (target d0 d1 m * m / 1) := by ring
        obtain ⟨l1, l2⟩ := lin_bounds _ m 1 z hm (by norm_num) (by rw [← e1]; exact bd.1) (by rw [← e2]; exact bd.2)
        rw [mul_one] at l1 l2
        obtain ⟨n1, n2⟩ := near_of_lin _ _ hT0 l1 l2
        have hz1750 : z < 1750 := by
          have : (z : Rat) < 1750 := by linarith
          exact_mod_cast this
        refine ⟨z, ms_step_nat _ z hz1 hz, by omega, ?_, by push_cast; exact n1, Or.inr (by push_cast; exact n2)⟩
        rcases form_lt_1750 z j hf hz1750 with h' | h'
        · left; omega
        · right; omega
  obtain ⟨st, hst, h1, h1000, hup, hdn⟩ := key
  rw [hst] at mem
  refine ⟨fun x => x % st = 0, st, st, spaced_residue st 0 (by omega) (by omega), mem, by omega,
    fun x hx => aligned_ms st x h1 h1000 hx, Or.inl ⟨st, hup, ?_⟩, ?_⟩
  · nlinarith [mul_self_nonneg (st : Rat)]
  · rcases hdn with rfl | hdn
    · exact Or.inr ⟨rfl, fun x => Int.emod_one x⟩
    · exact Or.inl ⟨st, by exact_mod_cast (show 0 < st by omega), hdn, by nlinarith [mul_self_nonneg (st : Rat)]⟩

/-- every domain and count has a description -/
theorem row_exists (d0 d1 : Int) (m : Rat) (hm : 0 < m) : ∃ Q a b, Row d0 d1 m Q a b := by
  rcases tickMethod_cases (min d0 d1) (max d0 d1) m with ⟨hb, h⟩ | ⟨hb, h⟩ | ⟨h0, h18, h⟩
  · exact row_year d0 d1 m hm hb h
  · exact row_ms d0 d1 m hm hb h
  · exact row_table d0 d1 m h0 h18 h

/-! ### counting every-second-day ticks: at most three in any five consecutive days -/

theorem fom_of_even_succ (n : Int) (h0 : domZ n % 2 = 0) (h1 : domZ (n + 1) % 2 = 0) : ∃ i, n + 1 = fom i := by
  obtain ⟨a0, a1, a2⟩ := domZ_spec n
  by_cases c : domZ n + 1 < mlen (monthIdx n)
  · exfalso
    have e : n + 1 = fom (monthIdx n) + (domZ n + 1) := by omega
    rw [e, domZ_fom_add _ _ (by omega) c] at h1; omega
  · exact ⟨monthIdx n + 1, by rw [fom_succ']; omega⟩

theorem even3 (a b c : Int) (hb : b = a + 1) (hc : c = a + 2) :
    ¬ (domZ a % 2 = 0 ∧ domZ b % 2 = 0 ∧ domZ c % 2 = 0) := by
  rintro ⟨h0, h1, h2⟩
  subst hb hc
  obtain ⟨i, hi⟩ := fom_of_even_succ a h0 h1
  have := mlen_bounds i
  have e : a + 2 = fom i + 1 := by omega
  rw [e, domZ_fom_add _ _ (by omega) (by omega)] at h2
  omega

theorem even5 (a b d : Int) (hb : b = a + 1) (hd : d = a + 4) :
    ¬ (domZ a % 2 = 0 ∧ domZ b % 2 = 0 ∧ domZ d % 2 = 0) := by
  rintro ⟨h0, h1, h3⟩
  subst hb hd
  obtain ⟨i, hi⟩ := fom_of_even_succ a h0 h1
  have := mlen_bounds i
  have e : a + 4 = fom i + 3 := by omega
  rw [e, domZ_fom_add _ _ (by omega) (by omega)] at h3
  omega

theorem three_days (n0 n1 n2 : Int) (h01 : n0 < n1) (h12 : n1 < n2)
    (e0 : domZ n0 % 2 = 0) (e1 : domZ n1 % 2 = 0) (e2 : domZ n2 % 2 = 0) : n0 + 3 ≤ n2 := by
  by_contra _hc
  exact even3 n0 n1 n2 (by omega) (by omega) ⟨e0, e1, e2⟩

theorem four_days (n0 n1 n2 n3 : Int) (h01 : n0 < n1) (h12 : n1 < n2) (h23 : n2 < n3)
    (e0 : domZ n0 % 2 = 0) (e1 : domZ n1 % 2 = 0) (e2 : domZ n2 % 2 = 0) (e3 : domZ n3 % 2 = 0) : n0 + 5 ≤ n3 := by
  by_contra _hc
  have hcases : (n1 = n0 + 1 ∧ n2 = n0 + 2) ∨ (n1 = n0 + 1 ∧ n2 = n0 + 3 ∧ n3 = n0 + 4) ∨
      (n2 = n1 + 1 ∧ n3 = n1 + 2) := by omega
  rcases hcases with ⟨a, b⟩ | ⟨a, b, c⟩ | ⟨a, b⟩
  · exact even3 n0 n1 n2 a b ⟨e0, e1, e2⟩
  · exact even5 n0 n1 n3 a c ⟨e0, e1, e3⟩
  · exact even3 n1 n2 n3 a b ⟨e1, e2, e3⟩

/-- the every-second-day predicate on instants -/
def QD2 (x : Int) : Prop := x % 86400000 = 0 ∧ domZ (x / 86400000) % 2 = 0

/-- minimal extent (in days) of `n + 1` every-second-day ticks -/
def d2weight (n : Nat) : Int := 5 * ((n / 3 : Nat) : Int) + (if n % 3 = 0 then 0 else if n % 3 = 1 then 1 else 3)

theorem day2_span : ∀ (n : Nat) (l : List Int) (x : Int), (x :: l).Pairwise (· < ·) → (∀ y ∈ x :: l, QD2 y) →
    l.length = n → x + d2weight n * 86400000 ≤ (x :: l).getLast (by simp) := by
  intro n
  induction n using Nat.strong_induction_on with
  | _ n ih =>
    intro l x hp hq hlen
    match l, hlen with
    | [], hlen =>
      subst hlen; simp [d2weight]
    | [x1], hlen =>
      subst hlen
      have q0 := hq x (by simp); have q1 := hq x1 (by simp)
      have h01 : x < x1 := by simpa using hp
      simp only [d2weight, List.length_singleton, List.getLast_cons_cons, List.getLast_singleton]
      unfold QD2 at q0 q1
      have : (1 / 3 : Nat) = 0 := rfl
      simp
      omega
    | [x1, x2], hlen =>
      subst hlen
      have q0 := hq x (by simp); have q1 := hq x1 (by simp); have q2 := hq x2 (by simp)
      have hp' : x < x1 ∧ x1 < x2 := by
        simp only [List.pairwise_cons, List.mem_cons] at hp
        exact ⟨hp.1 x1 (Or.inl rfl), hp.2.1 x2 (Or.inl rfl)⟩
      unfold QD2 at q0 q1 q2
      have := three_days (x / 86400000) (x1 / 86400000) (x2 / 86400000) (by omega) (by omega) q0.2 q1.2 q2.2
      simp [d2weight]
      omega
    | x1 :: x2 :: x3 :: rest, hlen =>
      have q0 := hq x (by simp); have q1 := hq x1 (by simp); have q2 := hq x2 (by simp); have q3 := hq x3 (by simp)
      have hp' : x < x1 ∧ x1 < x2 ∧ x2 < x3 := by
        simp only [List.pairwise_cons, List.mem_cons] at hp
        exact ⟨hp.1 x1 (Or.inl rfl), hp.2.1 x2 (Or.inl rfl), hp.2.2.1 x3 (Or.inl rfl)⟩
      unfold QD2 at q0 q1 q2 q3
      have h4 := four_days (x / 86400000) (x1 / 86400000) (x2 / 86400000) (x3 / 86400000) (by omega) (by omega)
        (by omega) q0.2 q1.2 q2.2 q3.2
      have hp3 : (x3 :: rest).Pairwise (· < ·) := by
        simp only [List.pairwise_cons] at hp
        simp only [List.pairwise_cons]
        exact hp.2.2.2
      have hq3 : ∀ y ∈ x3 :: rest, QD2 y := fun y hy => hq y (by simp only [List.mem_cons] at hy ⊢; tauto)
      have hl : rest.length < n := by simp only [List.length_cons] at hlen; omega
      have := ih rest.length hl rest x3 hp3 hq3 rfl
      rw [List.getLast_cons_cons, List.getLast_cons_cons, List.getLast_cons_cons]
      have hn : n = rest.length + 3 := by simp only [List.length_cons] at hlen; omega
      have hw : d2weight n = d2weight rest.length + 5 := by
        subst hn
        unfold d2weight
        have e1 : (rest.length + 3) / 3 = rest.length / 3 + 1 := by omega
        have e2 : (rest.length + 3) % 3 = rest.length % 3 := by omega
        rw [e1, e2]; push_cast; omega
      rw [hw]
      omega

/-! ### the number of ticks -/

theorem Spaced.a_le_b {Q : Int → Prop} {a b : Int} (S : Spaced Q a b) : a ≤ b := by
  obtain ⟨x, hx, -, -⟩ := S.below 0
  obtain ⟨y, -, h1, h2, -⟩ := S.next x hx
  omega

theorem count_upper (n : Nat) (a sp : Int) (T m S : Rat) (hm : 0 < m) (ha : 0 < a) (hsp : (sp : Rat) = T * m)
    (h : ((n : Int) - 1) * a ≤ sp) (h1 : T * T < 5 * (S * S)) (h2 : 5 * (S * S) ≤ 144 / 25 * ((a : Rat) * a)) :
    (n : Rat) ≤ 12 / 5 * m + 1 := by
  have hq : ((((n : Int) - 1) * a : Int) : Rat) ≤ (sp : Rat) := by exact_mod_cast h
  push_cast at hq
  by_contra hc
  rw [not_le] at hc
  have haq : (0 : Rat) < a := by exact_mod_cast ha
  have h3 : m * (12 / 5 * a) < m * T := by nlinarith
  have h4 : 12 / 5 * (a : Rat) < T := lt_of_mul_lt_mul_left h3 hm.le
  have h5 := mul_self_lt_mul_self (by positivity : (0 : Rat) ≤ 12 / 5 * a) h4
  nlinarith

theorem count_lower (n : Nat) (b sp : Int) (T m S : Rat) (hm : 0 < m) (hb : 0 < b) (hT : 0 ≤ T)
    (hsp : (sp : Rat) = T * m) (h : sp < ((n : Int) + 1) * b) (h1 : S * S ≤ 5 * (T * T))
    (h2 : 5 * ((b : Rat) * b) ≤ 144 / 25 * (S * S)) : m / (12 / 5) - 1 ≤ (n : Rat) := by
  have hq : (sp : Rat) < ((((n : Int) + 1) * b : Int) : Rat) := by exact_mod_cast h
  push_cast at hq
  by_contra hc
  rw [not_le] at hc
  have hbq : (0 : Rat) < b := by exact_mod_cast hb
  have e : m / (12 / 5) = 5 / 12 * m := by ring
  rw [e] at hc
  have h3 : m * T < m * (5 / 12 * b) := by nlinarith
  have h4 : T < 5 / 12 * (b : Rat) := lt_of_mul_lt_mul_left h3 hm.le
  have h5 := mul_self_lt_mul_self hT h4
  nlinarith

theorem sincr_ext : ∀ (l1 l2 : List Int), l1.Pairwise (· < ·) → l2.Pairwise (· < ·) → (∀ x, x ∈ l1 ↔ x ∈ l2) →
    l1 = l2 := by
  intro l1
  induction l1 with
  | nil =>
    intro l2 _ _ h
    cases l2 with
    | nil => rfl
    | cons b r => exact absurd ((h b).2 List.mem_cons_self) (by simp)
  | cons a r1 ih =>
    intro l2 h1 h2 h
    cases l2 with
    | nil => exact absurd ((h a).1 List.mem_cons_self) (by simp)
    | cons b r2 =>
      rw [List.pairwise_cons] at h1 h2
      have hab : a = b := by
        have m1 := (h a).1 List.mem_cons_self
        have m2 := (h b).2 List.mem_cons_self
        rcases List.mem_cons.1 m1 with e | e
        · exact e
        · rcases List.mem_cons.1 m2 with e' | e'
          · exact e'.symm
          · have := h2.1 a e; have := h1.1 b e'; omega
      subst hab
      congr 1
      apply ih r2 h1.2 h2.2
      intro x
      constructor
      · intro hx
        rcases List.mem_cons.1 ((h x).1 (List.mem_cons_of_mem _ hx)) with e | e
        · have := h1.1 x hx; omega
        · exact e
      · intro hx
        rcases List.mem_cons.1 ((h x).2 (List.mem_cons_of_mem _ hx)) with e | e
        · have := h2.1 x hx; omega
        · exact e

theorem day2_count_upper (l : List Int) (lo hi : Int) (m : Nat) (hm : 2 ≤ m) (inc : strictlyIncreasingB l = true)
    (mem : ∀ x, x ∈ l ↔ (lo ≤ x ∧ x ≤ hi ∧ Qcal .day 2 x)) (T : Rat) (hsp : ((hi - lo : Int) : Rat) = T * (m : Rat))
    (hT0 : 0 ≤ T) (hT : T * T < 14 * (86400000 * 86400000)) : (l.length : Rat) ≤ 12 / 5 * (m : Rat) + 1 := by
  have hmq : (2 : Rat) ≤ m := by exact_mod_cast hm
  cases l with
  | nil => simp only [List.length_nil, Nat.cast_zero]; linarith
  | cons x r =>
    have pw := (sincr_iff_pairwise _).1 inc
    have hq : ∀ y ∈ x :: r, QD2 y := fun y hy => (day2_iff y).1 ((mem y).1 hy).2.2
    have hs := day2_span r.length r x pw hq rfl
    have hx := (mem x).1 List.mem_cons_self
    have hlast := (mem _).1 (List.getLast_mem (l := x :: r) (by simp))
    generalize (x :: r).getLast (by simp) = z at hs hlast
    have hT' : T < 3742 / 1000 * 86400000 := by
      by_contra hc
      rw [not_lt] at hc
      have := mul_self_le_mul_self (by norm_num) hc
      nlinarith
    have h1 : ((hi - lo : Int) : Rat) < 3742 / 1000 * 86400000 * (m : Rat) := by
      rw [hsp]; nlinarith
    have h2 : ((1000 * (hi - lo) : Int) : Rat) < ((3742 * 86400000 * (m : Int) : Int) : Rat) := by
      push_cast at h1 ⊢; linarith
    have h3 : 1000 * (hi - lo) < 3742 * 86400000 * (m : Int) := by exact_mod_cast h2
    have hw : 5 * (r.length + 1) ≤ 12 * m + 5 := by
      unfold d2weight at hs
      split at hs
      · omega
      · split at hs <;> omega
    have hw' : ((5 * (r.length + 1) : Nat) : Rat) ≤ ((12 * m + 5 : Nat) : Rat) := by exact_mod_cast hw
    simp only [List.length_cons]
    push_cast at hw' ⊢
    linarith

theorem range_list_props (lo hi : Int) :
    ((List.range (hi - lo + 1).toNat).map (fun (k : Nat) => lo + (k : Int))).Pairwise (· < ·) ∧
    ∀ x, x ∈ (List.range (hi - lo + 1).toNat).map (fun (k : Nat) => lo + (k : Int)) ↔ (lo ≤ x ∧ x ≤ hi) := by
  constructor
  · rw [List.pairwise_map]
    exact List.pairwise_lt_range.imp (fun h => by omega)
  · intro x
    rw [List.mem_map]
    constructor
    · rintro ⟨k, hk, rfl⟩
      rw [List.mem_range] at hk; omega
    · rintro ⟨h1, h2⟩
      exact ⟨(x - lo).toNat, by rw [List.mem_range]; omega, by omega⟩

/-- the count predicate holds for every domain and every integer count from 2 -/
theorem count_ok (d0 d1 : Int) (m : Nat) (hm : 2 ≤ m) :
    countB (min d0 d1) (max d0 d1) (m : Rat) (ticks d0 d1 (m : Rat)) = true := by
  have hmq : (0 : Rat) < m := by exact_mod_cast (show 0 < m by omega)
  obtain ⟨Q, a, b, R⟩ := row_exists d0 d1 (m : Rat) hmq
  have inc := ticks_incr d0 d1 (m : Rat)
  have cnt := R.sp.count _ inc (min d0 d1) (max d0 d1) (by omega) R.mem
  have hsp : ((max d0 d1 - min d0 d1 : Int) : Rat) = target d0 d1 (m : Rat) * (m : Rat) := by
    rw [← span_eq d0 d1 (m : Rat) hmq]; push_cast; ring
  have hT0 := target_nonneg d0 d1 (m : Rat) hmq
  have hab := R.sp.a_le_b
  have ap := R.sp.apos
  have hup : ((ticks d0 d1 (m : Rat)).length : Rat) ≤ 12 / 5 * (m : Rat) + 1 := by
    rcases R.up with ⟨S, h1, h2⟩ | ⟨hQ, ha, hT⟩
    · exact count_upper _ a _ _ _ S hmq ap hsp cnt.1 h1 h2
    · subst hQ
      exact day2_count_upper _ _ _ m hm inc R.mem _ hsp hT0 hT
  unfold countB
  simp only [Bool.or_eq_true, Bool.and_eq_true, decide_eq_true_eq, beq_iff_eq]
  rcases R.down with ⟨S, hS, h1, h2⟩ | ⟨hb1, hall⟩
  · left
    exact ⟨count_lower _ b _ _ _ S hmq (by omega) hT0 hsp cnt.2 h1 h2, hup⟩
  · by_cases hlt : ((max d0 d1 - min d0 d1 : Int) : Rat) < (m : Rat)
    · right
      refine ⟨hlt, ?_⟩
      obtain ⟨p1, p2⟩ := range_list_props (min d0 d1) (max d0 d1)
      apply sincr_ext _ _ ((sincr_iff_pairwise _).1 inc) p1
      intro x
      rw [p2, R.mem]
      constructor
      · rintro ⟨h1, h2, -⟩; exact ⟨h1, h2⟩
      · rintro ⟨h1, h2⟩; exact ⟨h1, h2, hall x⟩
    · left
      refine ⟨?_, hup⟩
      rw [not_lt] at hlt
      subst hb1
      have h3 : ((m : Nat) : Int) ≤ max d0 d1 - min d0 d1 := by exact_mod_cast hlt
      have h4 : (m : Int) ≤ ((ticks d0 d1 (m : Rat)).length : Int) := by omega
      have h5 : (m : Rat) ≤ ((ticks d0 d1 (m : Rat)).length : Rat) := by exact_mod_cast h4
      have e : (m : Rat) / (12 / 5) = 5 / 12 * (m : Rat) := by ring
      rw [e]; linarith

/-- the complete tick predicate -/
theorem ticksOK_all (d0 d1 : Int) (m : Nat) (hm : 2 ≤ m) :
    ticksOKB d0 d1 (m : Rat) (ticks d0 d1 (m : Rat)) = true := by
  have hmq : (0 : Rat) < m := by exact_mod_cast (show 0 < m by omega)
  obtain ⟨Q, a, b, R⟩ := row_exists d0 d1 (m : Rat) hmq
  have inc := ticks_incr d0 d1 (m : Rat)
  have gaps := R.sp.gaps _ inc _ _ R.mem
  unfold ticksOKB
  simp only [Bool.and_eq_true]
  refine ⟨⟨⟨⟨inc, ?_⟩, gapRatio_of_bounds _ a b gaps R.ratio⟩, count_ok d0 d1 m hm⟩, ?_⟩
  · unfold inDomainB
    rw [List.all_eq_true]
    intro x hx
    have := (R.mem x).1 hx
    simp only [Bool.and_eq_true, decide_eq_true_eq]
    exact ⟨this.1, this.2.1⟩
  · split
    · rename_i g hg
      have hg' := gaps g (List.min?_mem hg)
      rw [alignedB_iff]
      intro t ht
      exact (R.align t ((R.mem t).1 ht).2.2).mono hg'.2
    · rfl

end Labella.Calendar
